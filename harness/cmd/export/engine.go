package main

// Real-engine helpers of the C03 harness: a fresh go-sqlite3 database per
// case, Driver.InspectSchema, the HCL export/import (sqlite.MarshalHCL /
// sqlite.EvalHCLBytes), the SQL export (the plan `schema inspect --format
// '{{ sql . }}'` prints: cmdlog.sqlInspect = fmtPlan(ChangesToRealm) in dump
// mode, formatted by migrate.DefaultFormatter) and an independent reader of
// the catalogue (raw PRAGMA output, not Atlas' inspector).

import (
	"context"
	"database/sql"
	"fmt"
	"sort"
	"strings"
	"sync/atomic"

	"ariga.io/atlas/sql/migrate"
	"ariga.io/atlas/sql/schema"
	"ariga.io/atlas/sql/sqlite"
	_ "github.com/mattn/go-sqlite3"
)

var dbSeq int64

// freshDB opens a new private in-memory database (one connection).
func freshDB() *sql.DB {
	n := atomic.AddInt64(&dbSeq, 1)
	db, err := sql.Open("sqlite3", fmt.Sprintf("file:c03_%d?mode=memory&cache=private&_fk=1", n))
	if err != nil {
		panic(err)
	}
	db.SetMaxOpenConns(1)
	return db
}

// inspectDB = Driver.InspectSchema(ctx, "main", nil) on a database.
func inspectDB(db *sql.DB) (*schema.Schema, migrate.Driver, error) {
	drv, err := sqlite.Open(db)
	if err != nil {
		return nil, nil, err
	}
	s, err := drv.InspectSchema(context.Background(), "main", nil)
	return s, drv, err
}

// hclExport = sqlite.MarshalHCL(s).
func hclExport(s *schema.Schema) (b []byte, err error) {
	defer func() {
		if r := recover(); r != nil {
			err = fmt.Errorf("panic: %v", r)
		}
	}()
	return sqlite.MarshalHCL(s)
}

// hclImport = sqlite.EvalHCLBytes(b, &schema.Schema{}, nil).
func hclImport(b []byte) (s *schema.Schema, err error) {
	defer func() {
		if r := recover(); r != nil {
			err = fmt.Errorf("panic: %v", r)
		}
	}()
	s = &schema.Schema{}
	if err := sqlite.EvalHCLBytes(b, s, nil); err != nil {
		return nil, err
	}
	return s, nil
}

// changesToSchema = cmd/atlas/internal/migrate.ChangesToRealm for a client bound
// to one schema (URL.Schema = "main" for every sqlite:// URL): no AddSchema,
// one AddTable per table in inspection order.
func changesToSchema(s *schema.Schema) []schema.Change {
	var cs []schema.Change
	for _, t := range s.Tables {
		cs = append(cs, &schema.AddTable{T: t})
	}
	return cs
}

// sqlExport = cmdlog.sqlInspect: PlanChanges(dump mode) + DefaultFormatter.
func sqlExport(drv migrate.Driver, s *schema.Schema, indent string) (text string, stmts []string, err error) {
	defer func() {
		if r := recover(); r != nil {
			err = fmt.Errorf("panic: %v", r)
		}
	}()
	plan, err := drv.PlanChanges(context.Background(), "plan", changesToSchema(s), func(o *migrate.PlanOptions) {
		o.Mode = migrate.PlanModeDump
		o.SchemaQualifier = new(string)
		if indent != "" {
			o.Indent = indent
		}
	})
	if err != nil {
		return "", nil, err
	}
	f, err := migrate.DefaultFormatter.FormatFile(plan)
	if err != nil {
		return "", nil, err
	}
	for _, c := range plan.Changes {
		stmts = append(stmts, c.Cmd)
	}
	return string(f.Bytes()), stmts, nil
}

// execScript runs a whole SQL script (go-sqlite3 executes every statement of the string).
func execScript(db *sql.DB, script string) error {
	_, err := db.Exec(script)
	return err
}

// applySchema = Driver.ApplyChanges(SchemaDiff(inspect(db), want)).
func applySchema(db *sql.DB, want *schema.Schema) error {
	cur, drv, err := inspectDB(db)
	if err != nil {
		return err
	}
	cs, err := drv.SchemaDiff(cur, want)
	if err != nil {
		return err
	}
	return drv.ApplyChanges(context.Background(), cs)
}

// diffBoth returns the change lists of both directions as short texts.
func diffBoth(drv migrate.Driver, a, b *schema.Schema) (ab, ba []string, err error) {
	defer func() {
		if r := recover(); r != nil {
			err = fmt.Errorf("panic: %v", r)
		}
	}()
	c1, err := drv.SchemaDiff(a, b)
	if err != nil {
		return nil, nil, err
	}
	c2, err := drv.SchemaDiff(b, a)
	if err != nil {
		return nil, nil, err
	}
	return showChanges(c1), showChanges(c2), nil
}

func showChanges(cs []schema.Change) []string {
	var out []string
	for _, c := range cs {
		switch c := c.(type) {
		case *schema.AddTable:
			out = append(out, "AddTable("+c.T.Name+")")
		case *schema.DropTable:
			out = append(out, "DropTable("+c.T.Name+")")
		case *schema.ModifyTable:
			var sub []string
			for _, x := range c.Changes {
				sub = append(sub, showSub(x))
			}
			out = append(out, "ModifyTable("+c.T.Name+": "+strings.Join(sub, ", ")+")")
		default:
			out = append(out, fmt.Sprintf("%T", c))
		}
	}
	return out
}

func showSub(c schema.Change) string {
	switch c := c.(type) {
	case *schema.AddColumn:
		return "AddColumn(" + c.C.Name + ")"
	case *schema.DropColumn:
		return "DropColumn(" + c.C.Name + ")"
	case *schema.ModifyColumn:
		return fmt.Sprintf("ModifyColumn(%s,%d)", c.To.Name, c.Change)
	case *schema.AddIndex:
		return "AddIndex(" + c.I.Name + ")"
	case *schema.DropIndex:
		return "DropIndex(" + c.I.Name + ")"
	case *schema.ModifyIndex:
		return fmt.Sprintf("ModifyIndex(%s,%d)", c.To.Name, c.Change)
	case *schema.AddForeignKey:
		return "AddForeignKey(" + c.F.Symbol + ")"
	case *schema.DropForeignKey:
		return "DropForeignKey(" + c.F.Symbol + ")"
	case *schema.ModifyForeignKey:
		return fmt.Sprintf("ModifyForeignKey(%s,%d)", c.To.Symbol, c.Change)
	case *schema.AddCheck:
		return "AddCheck(" + c.C.Name + ":" + c.C.Expr + ")"
	case *schema.DropCheck:
		return "DropCheck(" + c.C.Name + ":" + c.C.Expr + ")"
	case *schema.ModifyCheck:
		return "ModifyCheck(" + c.To.Name + ")"
	case *schema.AddPrimaryKey:
		return "AddPrimaryKey"
	case *schema.DropPrimaryKey:
		return "DropPrimaryKey"
	case *schema.ModifyPrimaryKey:
		return fmt.Sprintf("ModifyPrimaryKey(%d)", c.Change)
	case *schema.AddAttr:
		return fmt.Sprintf("AddAttr(%T)", c.A)
	case *schema.DropAttr:
		return fmt.Sprintf("DropAttr(%T)", c.A)
	case *schema.ModifyAttr:
		return fmt.Sprintf("ModifyAttr(%T)", c.To)
	}
	return fmt.Sprintf("%T", c)
}

// ---------------------------------------------------------------------------
// Independent catalogue reader: what SQLite itself says the database is,
// without Atlas' inspector (PRAGMA functions only, no regex over the CREATE
// text).  Two databases with equal raw catalogues are the same schema for
// every statement SQLite can run against them, up to the stored CREATE text.

type rawCol struct {
	Name, Type, Dflt string
	NotNull          bool
	HasDflt          bool
	PK               int
	Hidden           int
}

type rawIdxPart struct {
	Name   string // "" with IsExpr for expressions
	IsExpr bool
	Desc   bool
	Coll   string
}

type rawIdx struct {
	Name    string
	Unique  bool
	Origin  string
	Partial bool
	Parts   []rawIdxPart
	SQL     string
}

type rawFK struct {
	ID       int
	Cols     []string
	RefTable string
	RefCols  []string
	OnUpd    string
	OnDel    string
	Match    string
}

type rawTable struct {
	Name    string
	SQL     string
	WR      bool
	Strict  bool
	Cols    []rawCol
	Idx     []rawIdx
	FKs     []rawFK
	AutoInc bool   // behavioural: see rawProbe
	Probe   string // values of the generated columns of the probe row
}

func q(s string) string { return "'" + strings.ReplaceAll(s, "'", "''") + "'" }

func rawCatalogue(db *sql.DB) ([]rawTable, error) {
	ts, err := rawCatalogueNoProbe(db)
	if err != nil {
		return nil, err
	}
	for i := range ts {
		ts[i].AutoInc, ts[i].Probe = rawProbe(db, &ts[i])
	}
	return ts, nil
}

func rawCatalogueNoProbe(db *sql.DB) ([]rawTable, error) {
	rows, err := db.Query("SELECT name, sql FROM sqlite_master WHERE type = 'table' AND name NOT LIKE 'sqlite_%' ORDER BY rowid")
	if err != nil {
		return nil, err
	}
	var ts []rawTable
	for rows.Next() {
		var t rawTable
		var s sql.NullString
		if err := rows.Scan(&t.Name, &s); err != nil {
			rows.Close()
			return nil, err
		}
		t.SQL = s.String
		ts = append(ts, t)
	}
	rows.Close()
	for i := range ts {
		t := &ts[i]
		r := db.QueryRow("SELECT wr, strict FROM pragma_table_list(" + q(t.Name) + ") WHERE schema = 'main'")
		if err := r.Scan(&t.WR, &t.Strict); err != nil {
			return nil, fmt.Errorf("table_list %q: %w", t.Name, err)
		}
		rows, err := db.Query("SELECT name, type, `notnull`, dflt_value, pk, hidden FROM pragma_table_xinfo(" + q(t.Name) + ") ORDER BY cid")
		if err != nil {
			return nil, err
		}
		for rows.Next() {
			var c rawCol
			var d sql.NullString
			if err := rows.Scan(&c.Name, &c.Type, &c.NotNull, &d, &c.PK, &c.Hidden); err != nil {
				rows.Close()
				return nil, err
			}
			c.Dflt, c.HasDflt = d.String, d.Valid
			t.Cols = append(t.Cols, c)
		}
		rows.Close()
		rows, err = db.Query("SELECT il.name, il.`unique`, il.origin, il.partial, m.sql FROM pragma_index_list(" + q(t.Name) + ") AS il LEFT JOIN sqlite_master AS m ON il.name = m.name ORDER BY il.seq DESC")
		if err != nil {
			return nil, err
		}
		for rows.Next() {
			var x rawIdx
			var s sql.NullString
			if err := rows.Scan(&x.Name, &x.Unique, &x.Origin, &x.Partial, &s); err != nil {
				rows.Close()
				return nil, err
			}
			x.SQL = s.String
			t.Idx = append(t.Idx, x)
		}
		rows.Close()
		for j := range t.Idx {
			x := &t.Idx[j]
			rows, err := db.Query("SELECT name, `desc`, coll FROM pragma_index_xinfo(" + q(x.Name) + ") WHERE key = 1 ORDER BY seqno")
			if err != nil {
				return nil, err
			}
			for rows.Next() {
				var p rawIdxPart
				var n, coll sql.NullString
				if err := rows.Scan(&n, &p.Desc, &coll); err != nil {
					rows.Close()
					return nil, err
				}
				p.Name, p.IsExpr, p.Coll = n.String, !n.Valid, coll.String
				x.Parts = append(x.Parts, p)
			}
			rows.Close()
		}
		rows, err = db.Query("SELECT id, seq, `from`, `to`, `table`, on_update, on_delete, `match` FROM pragma_foreign_key_list(" + q(t.Name) + ") ORDER BY id, seq")
		if err != nil {
			return nil, err
		}
		byID := map[int]int{}
		for rows.Next() {
			var id, seq int
			var from, tbl, upd, del, match string
			var to sql.NullString
			if err := rows.Scan(&id, &seq, &from, &to, &tbl, &upd, &del, &match); err != nil {
				rows.Close()
				return nil, err
			}
			k, ok := byID[id]
			if !ok {
				t.FKs = append(t.FKs, rawFK{ID: id, RefTable: tbl, OnUpd: upd, OnDel: del, Match: match})
				k = len(t.FKs) - 1
				byID[id] = k
			}
			t.FKs[k].Cols = append(t.FKs[k].Cols, from)
			t.FKs[k].RefCols = append(t.FKs[k].RefCols, to.String)
		}
		rows.Close()
	}
	return ts, nil
}

// rawProbe observes, without reading the CREATE text, two facts no PRAGMA
// reports: AUTOINCREMENT and the values of generated columns.  Inside a
// transaction that is rolled back, with foreign keys and CHECK constraints out
// of the way, one row holding 7 in every ordinary column is inserted; a table
// declared AUTOINCREMENT (and only such a table) then has a row in
// sqlite_sequence, and the generated columns of the row are read back.
func rawProbe(db *sql.DB, t *rawTable) (autoinc bool, probe string) {
	ctx := context.Background()
	conn, err := db.Conn(ctx)
	if err != nil {
		return false, "n/a"
	}
	defer conn.Close()
	conn.ExecContext(ctx, "PRAGMA foreign_keys = off")
	defer conn.ExecContext(ctx, "PRAGMA foreign_keys = on")
	conn.ExecContext(ctx, "PRAGMA ignore_check_constraints = on")
	defer conn.ExecContext(ctx, "PRAGMA ignore_check_constraints = off")
	if _, err := conn.ExecContext(ctx, "BEGIN"); err != nil {
		return false, "n/a"
	}
	defer conn.ExecContext(ctx, "ROLLBACK")
	dq := func(s string) string { return `"` + strings.ReplaceAll(s, `"`, `""`) + `"` }
	var cols, vals, gens []string
	for _, c := range t.Cols {
		if c.Hidden != 0 {
			gens = append(gens, "quote("+dq(c.Name)+")")
			continue
		}
		v := "7"
		if t.Strict {
			switch strings.ToLower(c.Type) {
			case "text":
				v = "'7'"
			case "blob":
				v = "x'07'"
			}
		}
		cols = append(cols, dq(c.Name))
		vals = append(vals, v)
	}
	// the database may hold rows (history dimension): the probe works on an emptied table, rolled back afterwards
	conn.ExecContext(ctx, "DELETE FROM "+dq(t.Name))
	ins := "INSERT INTO " + dq(t.Name) + " (" + strings.Join(cols, ", ") + ") VALUES (" + strings.Join(vals, ", ") + ")"
	if _, err := conn.ExecContext(ctx, ins); err != nil {
		return false, "n/a"
	}
	var n int
	if err := conn.QueryRowContext(ctx, "SELECT count(*) FROM sqlite_master WHERE name = 'sqlite_sequence'").Scan(&n); err == nil && n > 0 {
		if err := conn.QueryRowContext(ctx, "SELECT count(*) FROM sqlite_sequence WHERE name = ?", t.Name).Scan(&n); err == nil && n > 0 {
			autoinc = true
		}
	}
	if len(gens) == 0 {
		return autoinc, "-"
	}
	dest := make([]any, len(gens))
	strs := make([]sql.NullString, len(gens))
	for i := range dest {
		dest[i] = &strs[i]
	}
	if err := conn.QueryRowContext(ctx, "SELECT "+strings.Join(gens, ", ")+" FROM "+dq(t.Name)).Scan(dest...); err != nil {
		return autoinc, "n/a"
	}
	var l []string
	for _, x := range strs {
		l = append(l, x.String)
	}
	return autoinc, strings.Join(l, ",")
}

// rawCanon prints the raw catalogue canonically.  Index names generated by
// SQLite (sqlite_autoindex_*) and fk ids are positional, so they are replaced
// by their content; indexes and fks are sorted; the stored CREATE text is left out.
func rawCanon(ts []rawTable, withChecksFromSQL bool) []string {
	var out []string
	tt := append([]rawTable(nil), ts...)
	sort.Slice(tt, func(i, j int) bool { return tt[i].Name < tt[j].Name })
	for _, t := range tt {
		out = append(out, fmt.Sprintf("table %q wr=%v strict=%v autoinc=%v generated-values=[%s]", t.Name, t.WR, t.Strict, t.AutoInc, t.Probe))
		for _, c := range t.Cols {
			d := "-"
			if c.HasDflt {
				d = c.Dflt
				// DEFAULT "x" is the legacy spelling of the string literal 'x'.
				if len(d) >= 2 && d[0] == '"' && d[len(d)-1] == '"' && !strings.Contains(d[1:len(d)-1], `"`) && !strings.Contains(d, "'") {
					d = "'" + d[1:len(d)-1] + "'"
				}
			}
			typ := strings.ToLower(c.Type)
			if typ == "" && !t.Strict {
				typ = "blob" // no declared type = BLOB affinity; Atlas prints it as blob
			}
			out = append(out, fmt.Sprintf("  col %q type=%q notnull=%v dflt=%s pk=%d hidden=%d", c.Name, typ, c.NotNull, d, c.PK, c.Hidden))
		}
		var is []string
		for _, x := range t.Idx {
			var ps []string
			for _, p := range x.Parts {
				n := fmt.Sprintf("%q", p.Name)
				if p.IsExpr {
					n = "<expr>"
				}
				ps = append(ps, fmt.Sprintf("%s desc=%v coll=%s", n, p.Desc, p.Coll))
			}
			name := fmt.Sprintf("%q", x.Name)
			origin := x.Origin
			// A UNIQUE constraint is exported as a named unique index <table>_<cols>
			// (sqlite/migrate.go: normalizeIdxName): same content, by design.
			if x.Origin == "u" || x.Origin == "c" && x.Unique && !x.Partial && x.Name == autoName(t.Name, x.Parts) {
				name, origin = "<uniq>", "u"
			}
			if x.Origin == "pk" {
				name = "<pk>"
			}
			is = append(is, fmt.Sprintf("  idx %s unique=%v origin=%s partial=%v where=%q parts=[%s]", name, x.Unique, origin, x.Partial, normPredicate(sqlPredicate(x.SQL)), strings.Join(ps, "; ")))
		}
		sort.Strings(is)
		out = append(out, is...)
		var fs []string
		for _, f := range t.FKs {
			fs = append(fs, fmt.Sprintf("  fk %q -> %q %q upd=%s del=%s match=%s", f.Cols, f.RefTable, f.RefCols, f.OnUpd, f.OnDel, f.Match))
		}
		sort.Strings(fs)
		out = append(out, fs...)
	}
	return out
}

// sqlPredicate extracts the predicate of a stored CREATE INDEX statement with a small tokenizer of
// its own (string literals, quoted identifiers, bracket identifiers, comments and nested parentheses
// are skipped): the text after the keyword WHERE that follows the closing parenthesis of the key
// parts.  "" when the statement has none.  Independent of inspect.go's strings.Index cut.
func sqlPredicate(stmt string) string {
	p, _ := sqlPredicateAt(stmt)
	return p
}

// sqlPredicateAt also returns the offset of the keyword (-1: none).
func sqlPredicateAt(stmt string) (string, int) {
	depth, i, n := 0, 0, len(stmt)
	seenParts := false
	for i < n {
		c := stmt[i]
		switch {
		case c == '\'' || c == '"' || c == '`':
			j := i + 1
			for j < n {
				if stmt[j] == c {
					if j+1 < n && stmt[j+1] == c {
						j += 2
						continue
					}
					break
				}
				j++
			}
			i = j + 1
			continue
		case c == '[':
			j := strings.IndexByte(stmt[i:], ']')
			if j < 0 {
				return "", -1
			}
			i += j + 1
			continue
		case c == '-' && i+1 < n && stmt[i+1] == '-':
			j := strings.IndexByte(stmt[i:], '\n')
			if j < 0 {
				return "", -1
			}
			i += j + 1
			continue
		case c == '/' && i+1 < n && stmt[i+1] == '*':
			j := strings.Index(stmt[i+2:], "*/")
			if j < 0 {
				return "", -1
			}
			i += j + 4
			continue
		case c == '(':
			depth++
		case c == ')':
			depth--
			if depth == 0 {
				seenParts = true
			}
		default:
			if seenParts && depth == 0 && i+5 <= n && strings.EqualFold(stmt[i:i+5], "WHERE") &&
				(i == 0 || !isWordByte(stmt[i-1])) && (i+5 == n || !isWordByte(stmt[i+5])) {
				return strings.TrimSpace(stmt[i+5:]), i
			}
		}
		i++
	}
	return "", -1
}

func isWordByte(c byte) bool {
	return c == '_' || c >= '0' && c <= '9' || c >= 'a' && c <= 'z' || c >= 'A' && c <= 'Z'
}

// normPredicate: comparison form of a predicate (spacing and redundant outer parentheses aside)
func normPredicate(p string) string {
	return stripOuter(strings.Join(strings.Fields(p), ""))
}

func autoName(t string, ps []rawIdxPart) string {
	n := []string{t}
	for _, p := range ps {
		n = append(n, p.Name)
	}
	return strings.Join(n, "_")
}

// ---------------------------------------------------------------------------
// Histories: what happened to the database between its creation and the inspection.

var histories = []string{"fresh", "rows", "rows-analyze", "analyze-twice", "autoinc-rows-analyze"}

// insertRows puts up to n rows into every table (foreign keys and CHECKs out of the way, rows that
// violate a key are skipped): values k, k+1, ... in every ordinary column.
func insertRows(db *sql.DB, from, n int) {
	ts, err := rawCatalogueNoProbe(db)
	if err != nil {
		return
	}
	ctx := context.Background()
	conn, err := db.Conn(ctx)
	if err != nil {
		return
	}
	defer conn.Close()
	conn.ExecContext(ctx, "PRAGMA foreign_keys = off")
	conn.ExecContext(ctx, "PRAGMA ignore_check_constraints = on")
	defer conn.ExecContext(ctx, "PRAGMA foreign_keys = on")
	defer conn.ExecContext(ctx, "PRAGMA ignore_check_constraints = off")
	dq := func(s string) string { return `"` + strings.ReplaceAll(s, `"`, `""`) + `"` }
	for _, t := range ts {
		for k := from; k < from+n; k++ {
			var cols, vals []string
			for _, c := range t.Cols {
				if c.Hidden != 0 {
					continue
				}
				v := fmt.Sprint(k)
				if t.Strict {
					switch strings.ToLower(c.Type) {
					case "text":
						v = "'" + v + "'"
					case "blob":
						v = fmt.Sprintf("x'%02x'", k)
					}
				}
				cols = append(cols, dq(c.Name))
				vals = append(vals, v)
			}
			conn.ExecContext(ctx, "INSERT OR IGNORE INTO "+dq(t.Name)+" ("+strings.Join(cols, ", ")+") VALUES ("+strings.Join(vals, ", ")+")")
		}
	}
}

// applyHistory runs the history on a freshly created database; returns the engine tables that exist afterwards.
func applyHistory(db *sql.DB, h string) (internal []string) {
	switch h {
	case "rows":
		insertRows(db, 1, 3)
	case "rows-analyze", "autoinc-rows-analyze":
		insertRows(db, 1, 3)
		db.Exec("ANALYZE")
	case "analyze-twice":
		insertRows(db, 1, 3)
		db.Exec("ANALYZE")
		insertRows(db, 10, 2)
		if ts, err := rawCatalogueNoProbe(db); err == nil && len(ts) > 0 {
			db.Exec(`ANALYZE "` + strings.ReplaceAll(ts[0].Name, `"`, `""`) + `"`)
		}
		db.Exec("PRAGMA optimize")
		db.Exec("VACUUM")
		db.Exec("ANALYZE")
	}
	rows, err := db.Query("SELECT name FROM sqlite_master WHERE type = 'table' AND name LIKE 'sqlite\\_%' ESCAPE '\\' ORDER BY name")
	if err == nil {
		for rows.Next() {
			var n string
			rows.Scan(&n)
			internal = append(internal, n)
		}
		rows.Close()
	}
	return internal
}
