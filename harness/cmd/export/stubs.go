package main

import "verifharness/internal/out"

func runSpec(w *out.W, tier string) {}
