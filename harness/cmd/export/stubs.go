package main

import "verifharness/internal/out"

func runCLI(w *out.W, tier string)   {}
func runRegex(w *out.W, tier string) {}
func runSpec(w *out.W, tier string)  {}
func runLoop(w *out.W, tier string)  {}
