package main

import "verifharness/internal/out"

func runRegex(w *out.W, tier string) {}
func runSpec(w *out.W, tier string)  {}
