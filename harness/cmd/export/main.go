// Command export is the harness of property C03 (schema exports are
// faithful): it creates databases on a real go-sqlite3 engine, exports them
// with Atlas (HCL and SQL), re-creates them on a fresh engine and compares.
package main

import (
	"flag"
	"fmt"
	"os"
	"strings"

	"verifharness/internal/out"
)

func main() {
	mode := flag.String("mode", "loop", "loop|cli|regex|spec|print|fault|explore")
	tier := flag.String("tier", "quick", "quick|thorough")
	outDir := flag.String("out", "", "output directory")
	flag.Parse()
	if *mode == "explore" {
		explore(flag.Args())
		return
	}
	if *outDir == "" {
		fmt.Fprintln(os.Stderr, "missing -out")
		os.Exit(2)
	}
	w := out.New(*outDir)
	defer w.Close()
	switch *mode {
	case "loop":
		runLoop(w, *tier)
	case "cli":
		runCLI(w, *tier)
	case "regex":
		runRegex(w, *tier)
	case "spec":
		runSpec(w, *tier)
	case "print":
		runPrint(w, *tier)
	case "fault":
		runFault(w, *tier)
	default:
		fmt.Fprintln(os.Stderr, "unknown mode")
		os.Exit(2)
	}
}

// explore: h_export -mode explore 'CREATE TABLE ...; ...' prints every step of the loop.
func explore(args []string) {
	script := strings.Join(args, " ")
	if len(args) == 1 {
		if b, err := os.ReadFile(args[0]); err == nil {
			script = string(b)
		}
	}
	if len(args) == 2 && args[0] == "probe" {
		b, _ := os.ReadFile(args[1])
		for _, sc := range strings.Split(string(b), "\n----\n") {
			sc = strings.TrimSpace(sc)
			if sc == "" {
				continue
			}
			r := loopOnce(sc)
			fmt.Printf("### %s\n", strings.ReplaceAll(sc, "\n", "\\n"))
			if r.createErr != nil {
				fmt.Println("    engine-reject:", r.createErr)
			}
			for _, v := range r.verdict() {
				fmt.Printf("    %s: %s\n", v.class, v.msg)
			}
		}
		return
	}
	r := loopOnce(script)
	fmt.Println("== create:", r.createErr)
	fmt.Println("== inspect err:", r.inspectErr)
	fmt.Println("== HCL\n" + string(r.hcl))
	fmt.Println("== hcl: marshalErr", r.hclMarshalErr, "evalErr", r.hclEvalErr, "diff", r.hclFwd, r.hclBack, "diffErr", r.hclDiffErr)
	fmt.Println("== hcl apply: err", r.hclApplyErr, "diff", r.hclDbFwd, r.hclDbBack)
	fmt.Println("== SQL\n" + r.sql)
	fmt.Println("== sql: planErr", r.sqlPlanErr, "execErr", r.sqlExecErr, "diff", r.sqlFwd, r.sqlBack, "diffErr", r.sqlDiffErr)
	fmt.Println("== stable: hcl", r.hclStable, "sql", r.sqlStable)
	fmt.Println("== raw0\n" + strings.Join(r.raw0, "\n"))
	if strings.Join(r.raw0, "\n") != strings.Join(r.rawHCL, "\n") {
		fmt.Println("== rawHCL differs\n" + strings.Join(r.rawHCL, "\n"))
	}
	if strings.Join(r.raw0, "\n") != strings.Join(r.rawSQL, "\n") {
		fmt.Println("== rawSQL differs\n" + strings.Join(r.rawSQL, "\n"))
	}
}
