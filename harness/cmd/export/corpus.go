package main

// Fixed statement shapes (run first, every tier).
var corpusScripts = []string{
	"CREATE TABLE t (id INTEGER PRIMARY KEY AUTOINCREMENT, a int NOT NULL DEFAULT 5, b text DEFAULT 'x', c int AS (a+1) STORED, CONSTRAINT ck CHECK (a > 0), UNIQUE (a, b)); CREATE INDEX i1 ON t (a DESC, (a+1)) WHERE a > 0;",
	"CREATE TABLE t (a int, b int, PRIMARY KEY (a, b));",
	"CREATE TABLE t (a int CHECK (a > 0), b int, CONSTRAINT \"q\" CHECK (b <> ')'));",
	"CREATE TABLE t (a int DEFAULT -1, b real DEFAULT -1.5, c text DEFAULT 'it''s', d text DEFAULT (1+2), e int DEFAULT (abs(-3)), f datetime DEFAULT CURRENT_TIMESTAMP);",
	"CREATE TABLE [br t] ([a b] int, `c d` int, \"e\"\"f\" int, 'sq' int);",
	"CREATE TABLE new_t (a int); CREATE TABLE t (a int);",
	"CREATE TABLE t (a int, b int) STRICT; CREATE TABLE u (a int primary key, b text) WITHOUT ROWID, STRICT;",
	"CREATE TABLE t (id integer primary key autoincrement, b int);",
	"CREATE TABLE t (a int, b int GENERATED ALWAYS AS (a * 2) VIRTUAL, c int generated always as (a+b) stored, d int as (a), e text AS ('x' || ')'));",
	"CREATE TABLE t (a int UNIQUE, b int, UNIQUE (b), UNIQUE (a, b));",
	"CREATE TABLE p (id int primary key); CREATE TABLE c (pid int CONSTRAINT myfk REFERENCES p (id) ON DELETE CASCADE, q int, CONSTRAINT fk2 FOREIGN KEY (q) REFERENCES p(id) ON UPDATE SET NULL);",
	"CREATE TABLE t (a int, b int); CREATE UNIQUE INDEX \"select\" ON t (a, b DESC); CREATE INDEX \"i 2\" ON t (b);",
	// fix round (sql/sqlite/inspect.go): the letters AUTOINCREMENT later in the definition of a plain INTEGER PRIMARY KEY
	// column; the longest form the grammar allows between PRIMARY KEY and AUTOINCREMENT
	"CREATE TABLE t (id integer PRIMARY KEY NOT NULL CHECK (autoincrement_x > 0), autoincrement_x int);",
	"CREATE TABLE t (id integer NOT NULL PRIMARY KEY DESC ON CONFLICT REPLACE AUTOINCREMENT, b int);",
}
