package main

// Fixed statement shapes (run first, every tier).
var corpusScripts = []string{
	"CREATE TABLE t (id INTEGER PRIMARY KEY AUTOINCREMENT, a int NOT NULL DEFAULT 5, b text DEFAULT 'x', c int AS (a+1) STORED, CONSTRAINT ck CHECK (a > 0), UNIQUE (a, b)); CREATE INDEX i1 ON t (a DESC, (a+1)) WHERE a > 0;",
	"CREATE TABLE t (a int, b int, PRIMARY KEY (a, b));",
	"CREATE TABLE t (a int CHECK (a > 0), b int, CONSTRAINT \"q\" CHECK (b <> ')'));",
	"CREATE TABLE t (a int DEFAULT -1, b real DEFAULT -1.5, c text DEFAULT 'it''s', d text DEFAULT (1+2), e int DEFAULT (abs(-3)), f datetime DEFAULT CURRENT_TIMESTAMP);",
	"CREATE TABLE [br t] ([a b] int, `c d` int, \"e\"\"f\" int, 'sq' int);",
	"CREATE TABLE new_t (a int); CREATE TABLE t (a int);",
	"CREATE TABLE t (a int, b int) STRICT; CREATE TABLE u (a int primary key, b text) WITHOUT ROWID, STRICT;",
	"CREATE TABLE t (id integer primary key autoincrement, b int);",
	"CREATE TABLE t (a int, b int GENERATED ALWAYS AS (a * 2) VIRTUAL, c int generated always as (a+b) stored, d int as (a), e text AS ('x' || ')'));",
	"CREATE TABLE t (a int UNIQUE, b int, UNIQUE (b), UNIQUE (a, b));",
	"CREATE TABLE p (id int primary key); CREATE TABLE c (pid int CONSTRAINT myfk REFERENCES p (id) ON DELETE CASCADE, q int, CONSTRAINT fk2 FOREIGN KEY (q) REFERENCES p(id) ON UPDATE SET NULL);",
	"CREATE TABLE t (a int, b int); CREATE UNIQUE INDEX \"select\" ON t (a, b DESC); CREATE INDEX \"i 2\" ON t (b);",
	// fix round (sql/sqlite/inspect.go): the letters AUTOINCREMENT later in the definition of a plain INTEGER PRIMARY KEY
	// column; the longest form the grammar allows between PRIMARY KEY and AUTOINCREMENT
	"CREATE TABLE t (id integer PRIMARY KEY NOT NULL CHECK (autoincrement_x > 0), autoincrement_x int);",
	"CREATE TABLE t (id integer NOT NULL PRIMARY KEY DESC ON CONFLICT REPLACE AUTOINCREMENT, b int);",
	// round 5b: foreign keys in a cycle, a self reference, a child created before its parent (the SQL export keeps the
	// inspection order; SQLite resolves parents lazily)
	"CREATE TABLE a (id int primary key, b_id int REFERENCES b (id)); CREATE TABLE b (id int primary key, a_id int, CONSTRAINT b_a FOREIGN KEY (a_id) REFERENCES a (id)); CREATE TABLE s (id int primary key, up int REFERENCES s (id)); CREATE INDEX a_b ON a (b_id);",
	// two named inline references in one column definition: reFKC's greedy [^,]* finds the last one only
	"CREATE TABLE c (id int primary key, x int unique, pid int CONSTRAINT fk_a REFERENCES c (id) CONSTRAINT fk_b REFERENCES c (x));",
	// the name normalizeIdxName gives the index of a UNIQUE constraint (t_a) is taken by another index
	"CREATE TABLE t (a int UNIQUE, b int); CREATE INDEX t_a ON t (b);",
}
