package main

// Canonical token form of a schema.Schema (copied from harness/cmd/diff/obs.go, SQLite
// part, plus the AUTOINCREMENT columns): the input/observation format of the spec tie.

import (
	"reflect"
	"strconv"
	"strings"

	"ariga.io/atlas/sql/schema"
	"ariga.io/atlas/sql/sqlite"
)

var sqliteClass = map[reflect.Type]int{
	reflect.TypeOf(&sqlite.UserDefinedType{}): 1,
	reflect.TypeOf(&schema.IntegerType{}):     2,
	reflect.TypeOf(&schema.StringType{}):      3,
	reflect.TypeOf(&schema.FloatType{}):       4,
	reflect.TypeOf(&schema.BinaryType{}):      5,
	reflect.TypeOf(&schema.DecimalType{}):     6,
	reflect.TypeOf(&schema.BoolType{}):        7,
	reflect.TypeOf(&schema.TimeType{}):        8,
	reflect.TypeOf(&schema.JSONType{}):        9,
	reflect.TypeOf(&schema.UUIDType{}):        10,
	reflect.TypeOf(&schema.EnumType{}):        12,
	reflect.TypeOf(&schema.SpatialType{}):     13,
	reflect.TypeOf(&schema.UnsupportedType{}): 14,
}

func b01(b bool) string {
	if b {
		return "1"
	}
	return "0"
}

func optTok(ok bool, s string) string {
	if !ok {
		return "~"
	}
	return hx(s)
}

func hasAttr(attrs []schema.Attr, target any) bool {
	tv := reflect.ValueOf(target)
	for _, a := range attrs {
		if a == nil {
			continue
		}
		if av := reflect.ValueOf(a); av.Type() == tv.Type() {
			tv.Elem().Set(av.Elem())
			return true
		}
	}
	return false
}

func tokCol(c *schema.Column, w *[]string) {
	cls, T := 0, ""
	if c.Type != nil && c.Type.Type != nil {
		cls = sqliteClass[reflect.TypeOf(c.Type.Type)]
		if u, ok := c.Type.Type.(*sqlite.UserDefinedType); ok {
			T = u.T
		} else if f, err := sqlite.FormatType(c.Type.Type); err == nil {
			T = f
		}
	}
	d := "~"
	switch x := c.Default.(type) {
	case *schema.Literal:
		d = "L:" + hx(x.V)
	case *schema.RawExpr:
		d = "R:" + hx(x.X)
	}
	g := "~"
	var gx schema.GeneratedExpr
	if hasAttr(c.Attrs, &gx) {
		g = hx(gx.Expr) + ":" + hx(gx.Type)
	}
	var cm schema.Comment
	hasC := hasAttr(c.Attrs, &cm)
	*w = append(*w, hx(c.Name), strconv.Itoa(cls), hx(T), b01(c.Type.Null), d, g, optTok(hasC, cm.Text))
}

func tokIdx(i *schema.Index, w *[]string) {
	*w = append(*w, hx(i.Name), b01(i.Unique), strconv.Itoa(len(i.Parts)))
	for _, p := range i.Parts {
		c, x := "~", "~"
		if p.C != nil {
			c = hx(p.C.Name)
		}
		if r, ok := p.X.(*schema.RawExpr); ok {
			x = hx(r.X)
		}
		*w = append(*w, strconv.Itoa(p.SeqNo), b01(p.Desc), c, x)
	}
	var (
		pr sqlite.IndexPredicate
		cm schema.Comment
		or sqlite.IndexOrigin
	)
	hp, hc, ho := hasAttr(i.Attrs, &pr), hasAttr(i.Attrs, &cm), hasAttr(i.Attrs, &or)
	*w = append(*w, optTok(hp, pr.P), optTok(hc, cm.Text), optTok(ho, or.O))
}

func tokTable(t *schema.Table, w *[]string) {
	*w = append(*w, hx(t.Name), b01(hasAttr(t.Attrs, &sqlite.WithoutRowID{})), b01(hasAttr(t.Attrs, &sqlite.Strict{})), strconv.Itoa(len(t.Columns)))
	for _, c := range t.Columns {
		tokCol(c, w)
	}
	if t.PrimaryKey == nil {
		*w = append(*w, "~")
	} else {
		*w = append(*w, "P")
		tokIdx(t.PrimaryKey, w)
	}
	*w = append(*w, strconv.Itoa(len(t.Indexes)))
	for _, i := range t.Indexes {
		tokIdx(i, w)
	}
	*w = append(*w, strconv.Itoa(len(t.ForeignKeys)))
	for _, f := range t.ForeignKeys {
		*w = append(*w, hx(f.Symbol), strconv.Itoa(len(f.Columns)))
		for _, c := range f.Columns {
			*w = append(*w, hx(c.Name))
		}
		*w = append(*w, hx(f.RefTable.Name), strconv.Itoa(len(f.RefColumns)))
		for _, c := range f.RefColumns {
			*w = append(*w, hx(c.Name))
		}
		*w = append(*w, hx(string(f.OnUpdate)), hx(string(f.OnDelete)))
	}
	var ks []*schema.Check
	for _, a := range t.Attrs {
		if k, ok := a.(*schema.Check); ok {
			ks = append(ks, k)
		}
	}
	*w = append(*w, strconv.Itoa(len(ks)))
	for _, k := range ks {
		*w = append(*w, hx(k.Name), hx(k.Expr))
	}
	// AUTOINCREMENT columns
	var ai []string
	for _, c := range t.Columns {
		if hasAttr(c.Attrs, &sqlite.AutoIncrement{}) {
			ai = append(ai, hx(c.Name))
		}
	}
	*w = append(*w, strconv.Itoa(len(ai)))
	*w = append(*w, ai...)
}

func tokSchema(s *schema.Schema) string {
	w := []string{hx(s.Name), strconv.Itoa(len(s.Tables))}
	for _, t := range s.Tables {
		tokTable(t, &w)
	}
	return strings.Join(w, " ")
}
