package main

// Generator of SQLite schemas of the supported feature set, as a small AST
// that is (a) rendered to CREATE statements in the shapes users write
// (quoting styles, keyword case, spacing, comments, inline vs table-level
// constraints) and (b) converted to a schema.Schema that Atlas' own planner
// creates.  The AST is also the ground truth ("what was declared") that the
// recovered names/checks/expressions/AUTOINCREMENT are compared with.

import (
	"fmt"
	"sort"
	"strings"

	"verifharness/internal/rng"
)

type hCheck struct {
	Name string
	Expr string // without the outer parentheses
}

type hFK struct {
	Name     string
	Cols     []string
	RefTable string
	RefCols  []string
	OnDel    string
	OnUpd    string
}

type hCol struct {
	Name     string
	Type     string
	NotNull  bool
	Default  string // SQL text, "" = none
	PKInline bool
	PKDesc   bool
	AutoInc  bool
	Unique   bool
	Check    *hCheck
	Ref      *hFK
	Gen      string // expression without outer parens
	GenKind  string // "", VIRTUAL, STORED
	GenLong  bool   // GENERATED ALWAYS AS
	Collate  string
}

type hPart struct {
	Col     string
	Expr    string
	Desc    bool
	Collate string
}

type hIndex struct {
	Name   string
	Unique bool
	Parts  []hPart
	Where  string
}

type hTable struct {
	Name         string
	Cols         []hCol
	PK           []hPart // table-level PRIMARY KEY (...)
	Uniques      [][]string
	Checks       []hCheck
	FKs          []hFK
	WithoutRowid bool
	Strict       bool
	Indexes      []hIndex
	colMap       map[string]string // scratch of renameAll
}

type hSchema struct {
	Tables []hTable
	Tags   map[string]bool
}

func (s *hSchema) tag(t string) { s.Tags[t] = true }
func (s *hSchema) tags() string {
	var l []string
	for k := range s.Tags {
		l = append(l, k)
	}
	sort.Strings(l)
	return strings.Join(l, ",")
}

// ---- names

var plainNames = []string{"whereabouts", "a", "b", "c", "d", "e", "id", "uid", "name", "val", "x1", "y_2", "cx", "cxy", "ab", "abc", "k", "n", "Q", "Zed", "_u"}
var kwSubstrNames = []string{"health_check", "precheck", "check_in", "constraint_log", "my_constraint", "new_t", "new_", "references_to", "generated_as", "as_of", "primary_key", "autoincrement_x", "integer_pk", "foreign_key", "where_x", "WHERE_y", "on_t", "desc_x", "x_desc", "unique_k", "index_i", "default_v", "not_null", "asx", "has"}
var keywordNames = []string{"select", "order", "table", "check", "constraint", "primary", "key", "references", "as", "index", "where", "default", "group", "unique"}
var oddNames = []string{"my col", "a b c", "a-b", "a.b", "a,b", "a(b", "a)b", "a(b)", "a'b", `a"b`, "a`b", "a[b", "a]b", "a+b", "a*", "a?", "a|b", "a\\b", "ünï", "1a", "a;b", " lead", "trail ", "a\tb", "CHECK (x)", "x AS (", "tab\"le"}

func isWord(s string) bool {
	if s == "" {
		return false
	}
	for _, c := range []byte(s) {
		if !(c == '_' || c >= '0' && c <= '9' || c >= 'a' && c <= 'z' || c >= 'A' && c <= 'Z') {
			return false
		}
	}
	return true
}

func isPlainIdent(s string) bool {
	if !isWord(s) || s[0] >= '0' && s[0] <= '9' {
		return false
	}
	l := strings.ToLower(s)
	for _, k := range sqliteKeywords {
		if l == k {
			return false
		}
	}
	return true
}

var sqliteKeywords = []string{"select", "order", "table", "check", "constraint", "primary", "key", "references", "as", "index", "where", "default", "group", "unique", "on", "not", "null", "desc", "asc", "create", "foreign", "generated", "always", "autoincrement", "collate", "in", "is", "to", "by", "if", "or", "and", "all", "add", "set", "case", "when", "then", "else", "end", "from", "into", "values", "drop", "alter", "like", "match", "no", "of", "for", "each", "row", "with", "without", "exists", "between", "union", "join", "left", "using", "having", "limit", "offset", "trigger", "view", "virtual", "stored", "temp", "transaction", "update", "delete", "insert", "replace", "abort", "fail", "ignore", "rollback", "cascade", "restrict", "action", "rename", "column", "begin", "commit", "distinct", "except", "intersect", "escape", "glob", "regexp", "isnull", "notnull", "natural", "cross", "inner", "outer", "full", "right", "database", "attach", "detach", "explain", "pragma", "vacuum", "analyze", "reindex", "release", "savepoint", "current_time", "current_date", "current_timestamp", "cast", "conflict", "deferred", "deferrable", "immediate", "exclusive", "initially", "instead", "before", "after", "plan", "query", "raise", "recursive", "nulls", "first", "last", "filter", "over", "partition", "range", "rows", "groups", "window", "do", "nothing", "returning", "materialized", "others", "ties", "exclude", "following", "preceding", "unbounded", "current", "indexed", "temporary"}

// nameClass: which pool a generated name comes from.
type namer struct {
	r     *rng.R
	level int // 0 plain only, 1 + keyword substrings, 2 + keywords, 3 + odd
	used  map[string]bool
	s     *hSchema
}

func (n *namer) fresh(prefix string) string {
	for try := 0; ; try++ {
		var c string
		k := n.r.Intn(10)
		switch {
		case n.level >= 3 && k == 0:
			c = rng.Pick(n.r, oddNames)
		case n.level >= 2 && k == 1:
			c = rng.Pick(n.r, keywordNames)
		case n.level >= 1 && k <= 4:
			c = rng.Pick(n.r, kwSubstrNames)
		default:
			c = rng.Pick(n.r, plainNames)
		}
		if try > 6 {
			c = fmt.Sprintf("%s%d", c, try)
		}
		c = prefix + c
		if !n.used[strings.ToLower(c)] {
			n.used[strings.ToLower(c)] = true
			n.noteName(c)
			return c
		}
	}
}

func (n *namer) noteName(c string) {
	if !isWord(c) {
		n.s.tag("name-nonword")
	} else if !isPlainIdent(c) {
		n.s.tag("name-keyword")
	}
	l := strings.ToLower(c)
	for _, k := range []string{"check", "constraint", "references", "as", "where", "primary", "autoincrement", "new_", "desc"} {
		if strings.Contains(l, k) {
			n.s.tag("name-has-" + strings.TrimSuffix(k, "_"))
		}
	}
}

// ---- generator

var typePool = []string{"int", "integer", "text", "real", "blob", "varchar(20)", "numeric(10,2)", "boolean", "bigint", "datetime", "double precision", "json", "decimal(5,2)", "uuid"}
var strictTypes = []string{"int", "integer", "text", "real", "blob", "any"}

type genOpts struct {
	nameLevel int
	atlasSafe bool // only features Atlas' planner can emit and only names it can quote
	wild      bool // features outside Atlas' HCL vocabulary: COLLATE, pk DESC, pk order, ...
}

func isNumType(t string) bool {
	t = strings.ToLower(t)
	for _, p := range []string{"int", "real", "numeric", "decimal", "double", "bigint", "boolean"} {
		if strings.HasPrefix(t, p) {
			return true
		}
	}
	return false
}

func genDefault(r *rng.R, typ string, s *hSchema, o genOpts) string {
	if isNumType(typ) {
		d := rng.Pick(r, []string{"0", "1", "42", "-7", "-1", "3.5", "-0.25", "(1+2)", "(abs(-3))", "1e3", "+5", "1.50", "007", "0.0", "3.14159265358979", "0.1234567890123"})
		if o.atlasSafe && (d == "+5" || d == "1e3" || d == "007") {
			d = "7"
		}
		switch {
		case strings.HasPrefix(d, "-"):
			s.tag("default-negative")
		case strings.HasPrefix(d, "("):
			s.tag("default-expr")
		}
		if strings.HasPrefix(strings.ToLower(typ), "boolean") && r.Chance(1, 2) {
			d = rng.Pick(r, []string{"true", "false", "TRUE"})
			s.tag("default-bool")
		}
		return d
	}
	tl := strings.ToLower(typ)
	if tl == "blob" {
		s.tag("default-blob")
		return rng.Pick(r, []string{"x'00ff'", "X'AB'", "x''"})
	}
	if tl == "datetime" {
		s.tag("default-current")
		return rng.Pick(r, []string{"CURRENT_TIMESTAMP", "current_timestamp", "(datetime('now'))", "'2020-01-01'"})
	}
	d := rng.Pick(r, []string{"'abc'", "''", "'it''s'", "'a b'", `'q"q'`, "'a,b'", "'(x'", "'x)'", "'-- no'", "'check (x)'", "'CONSTRAINT c CHECK (y)'", "'AS (z'", "('x' || 'y')", "'ünï'", `"dq"`, "'a''b''c'", "'%'", "'\\'", "'{}'", "'[]'", "NULL", "'''a'''", "''''"})
	if o.atlasSafe && (d == `"dq"` || d == "NULL") {
		d = "'plain'"
	}
	switch {
	case strings.Contains(strings.ToLower(d), "check ("):
		s.tag("default-has-check")
	case strings.Contains(d, "AS ("):
		s.tag("default-has-as")
	case strings.Contains(d, "''"), strings.Contains(d, `"`):
		s.tag("default-quotes")
	case strings.HasPrefix(d, "("):
		s.tag("default-expr")
	case d == "NULL":
		s.tag("default-null")
	}
	if strings.ContainsAny(d, "(),") && strings.HasPrefix(d, "'") {
		s.tag("default-punct")
	}
	return d
}

// exprOver returns a boolean/number expression over column references (already rendered).
func checkExpr(r *rng.R, cols []string, s *hSchema) string {
	c := rng.Pick(r, cols)
	d := rng.Pick(r, cols)
	e := rng.Pick(r, []string{
		"%[1]s > 0", "%[1]s >= 0 AND %[1]s < 100", "%[1]s <> %[2]s", "(%[1]s > 0) OR (%[2]s IS NULL)", "%[1]s IN (1, 2, 3)",
		"length(%[1]s) > 0", "%[1]s <> ')'", "%[1]s <> '('", "%[1]s != 'it''s'", "%[1]s NOT LIKE 'a,b%%'", "abs(%[1]s) < max(1, 2)",
		"%[1]s <> 'check (x)'", "%[1]s BETWEEN -1 AND 1", "coalesce(%[1]s, %[2]s) IS NOT NULL", "%[1]s <> \"dq\"", "%[1]s <> \"(x\"", "%[1]s <> \")\" AND %[1]s > 0",
	})
	if strings.Contains(e, "')'") || strings.Contains(e, "'('") {
		s.tag("check-paren-in-string")
	}
	if strings.Contains(e, "check (") {
		s.tag("check-has-check")
	}
	if strings.Contains(e, `"dq"`) || strings.Contains(e, `"(x"`) || strings.Contains(e, `")"`) {
		s.tag("check-dq-string")
	}
	return fmt.Sprintf(e, c, d)
}

func genExpr(r *rng.R, cols []string, s *hSchema) string {
	c := rng.Pick(r, cols)
	d := rng.Pick(r, cols)
	e := rng.Pick(r, []string{"%[1]s + 1", "%[1]s * 2", "%[1]s || 'x'", "coalesce(%[1]s, %[2]s)", "(%[1]s + %[2]s)", "abs(%[1]s)", "%[1]s || ')'", "%[1]s || ', '", "max(%[1]s, 0) + min(%[2]s, 1)", "1", "'lit'", "CAST(%[1]s AS text)", "%[1]s || 'AS (x'"})
	if strings.Contains(e, "')'") {
		s.tag("gen-paren-in-string")
	}
	if strings.Contains(e, ",") {
		s.tag("gen-comma")
	}
	if strings.Contains(e, "AS") {
		s.tag("gen-has-as")
	}
	return fmt.Sprintf(e, c, d)
}

// refRender: how a column is referred to inside an expression: quoted with double quotes
// when the name is not a plain identifier.
func exprRef(name string) string {
	if isPlainIdent(name) {
		return name
	}
	return `"` + strings.ReplaceAll(name, `"`, `""`) + `"`
}

func genSchemaAST(r *rng.R, o genOpts) *hSchema {
	s := &hSchema{Tags: map[string]bool{}}
	tn := &namer{r: r, level: o.nameLevel, used: map[string]bool{}, s: s}
	nt := 1 + r.Intn(3)
	for ti := 0; ti < nt; ti++ {
		t := hTable{Name: tn.fresh("")}
		if ti > 0 && r.Chance(1, 8) && o.nameLevel >= 1 {
			// the planner's temporary name of an existing table
			cand := "new_" + s.Tables[0].Name
			if !tn.used[strings.ToLower(cand)] {
				tn.used[strings.ToLower(cand)] = true
				t.Name = cand
				s.tag("name-has-new")
			}
		}
		cn := &namer{r: r, level: o.nameLevel, used: map[string]bool{}, s: s}
		t.Strict = r.Chance(1, 8)
		if t.Strict {
			s.tag("strict")
		}
		nc := 1 + r.Intn(5)
		// prefix-related column names (c, cx, cxy) to exercise name-anchored regexes
		prefixFam := r.Chance(1, 4)
		for ci := 0; ci < nc; ci++ {
			c := hCol{Name: cn.fresh("")}
			if prefixFam && ci < 3 {
				nm := []string{"cxy", "cx", "c"}[ci]
				if r.Bool() {
					nm = []string{"c", "cx", "cxy"}[ci]
				}
				if !cn.used[nm] {
					cn.used[nm] = true
					c.Name = nm
					s.tag("col-prefix-family")
				}
			}
			c.Type = rng.Pick(r, typePool)
			if t.Strict {
				c.Type = rng.Pick(r, strictTypes)
			}
			c.NotNull = r.Chance(1, 3)
			if r.Chance(1, 3) {
				c.Default = genDefault(r, c.Type, s, o)
				if t.Strict && !strings.HasPrefix(c.Default, "(") {
					// keep STRICT tables insertable for the probe row: typed defaults only
					if isNumType(c.Type) != (c.Default[0] != '\'' && c.Default[0] != '"') {
						c.Default = ""
					}
				}
			}
			if o.wild && !isNumType(c.Type) && r.Chance(1, 6) {
				c.Collate = rng.Pick(r, []string{"NOCASE", "RTRIM", "BINARY"})
				s.tag("col-collate")
			}
			t.Cols = append(t.Cols, c)
		}
		names := func() []string {
			var l []string
			for _, c := range t.Cols {
				if c.Gen == "" {
					l = append(l, exprRef(c.Name))
				}
			}
			return l
		}
		// generated columns (not the first column; reference ordinary columns only)
		for ci := 1; ci < len(t.Cols); ci++ {
			if r.Chance(1, 5) {
				c := &t.Cols[ci]
				var base []string
				for cj := 0; cj < len(t.Cols); cj++ {
					if cj != ci && t.Cols[cj].Gen == "" {
						base = append(base, exprRef(t.Cols[cj].Name))
					}
				}
				if len(base) == 0 {
					continue
				}
				c.Gen = genExpr(r, base, s)
				c.GenKind = rng.Pick(r, []string{"", "VIRTUAL", "STORED"})
				if o.atlasSafe && c.GenKind == "" {
					c.GenKind = "VIRTUAL"
				}
				c.GenLong = r.Bool()
				c.Default = ""
				s.tag("generated")
				if c.GenKind == "STORED" {
					s.tag("generated-stored")
				}
			}
		}
		// primary key
		switch k := r.Intn(10); {
		case k < 3: // rowid alias, maybe autoincrement
			c := &t.Cols[0]
			c.Type = "integer"
			if r.Chance(1, 3) {
				c.Type = "INTEGER"
			}
			c.PKInline = true
			c.Gen, c.GenKind, c.Default, c.Collate = "", "", "", ""
			if r.Chance(2, 3) {
				c.AutoInc = true
				s.tag("autoinc")
				if !isWord(c.Name) {
					s.tag("autoinc-nonword-name")
				}
			}
			if o.wild && r.Chance(1, 8) && !c.AutoInc {
				c.PKDesc = true
				s.tag("pk-desc")
			}
			s.tag("pk-rowid")
		case k < 5: // single column pk, inline or table level
			c := &t.Cols[0]
			c.Gen, c.GenKind = "", ""
			if r.Bool() {
				c.PKInline = true
			} else {
				t.PK = []hPart{{Col: c.Name}}
			}
			if strings.ToLower(c.Type) == "integer" {
				s.tag("pk-rowid")
			}
			s.tag("pk-single")
		case k < 7 && len(t.Cols) >= 2: // composite
			a, b := 0, 1
			if o.wild && r.Chance(1, 3) {
				a, b = 1, 0
				s.tag("pk-order-reversed")
			}
			t.Cols[a].Gen, t.Cols[a].GenKind, t.Cols[b].Gen, t.Cols[b].GenKind = "", "", "", ""
			t.PK = []hPart{{Col: t.Cols[a].Name}, {Col: t.Cols[b].Name}}
			if o.wild && r.Chance(1, 5) {
				t.PK[1].Desc = true
				s.tag("pk-desc")
			}
			s.tag("pk-composite")
		}
		hasPK := len(t.PK) > 0
		for _, c := range t.Cols {
			hasPK = hasPK || c.PKInline
		}
		if hasPK && !t.Cols[0].AutoInc && r.Chance(1, 5) {
			t.WithoutRowid = true
			s.tag("without-rowid")
			for i := range t.Cols {
				if t.Cols[i].PKInline || inParts(t.PK, t.Cols[i].Name) {
					t.Cols[i].NotNull = true
				}
			}
		}
		// uniques
		if r.Chance(1, 4) {
			c := &t.Cols[r.Intn(len(t.Cols))]
			if c.Gen == "" && !c.PKInline {
				c.Unique = true
				s.tag("unique-inline")
			}
		}
		if r.Chance(1, 5) && len(t.Cols) >= 2 {
			t.Uniques = append(t.Uniques, []string{t.Cols[len(t.Cols)-1].Name, t.Cols[0].Name})
			s.tag("unique-table")
		}
		// checks
		if ns := names(); len(ns) > 0 {
			kn := &namer{r: r, level: o.nameLevel, used: map[string]bool{}, s: s}
			for ci := range t.Cols {
				if r.Chance(1, 6) && t.Cols[ci].Gen == "" {
					ck := &hCheck{Expr: checkExpr(r, []string{exprRef(t.Cols[ci].Name)}, s)}
					if r.Bool() {
						ck.Name = kn.fresh("ck_")
						s.tag("check-named")
					}
					t.Cols[ci].Check = ck
					s.tag("check-inline")
				}
			}
			for k := r.Intn(3); k > 0 && r.Chance(2, 3); k-- {
				ck := hCheck{Expr: checkExpr(r, ns, s)}
				if r.Bool() {
					ck.Name = kn.fresh("ck_")
					s.tag("check-named")
				}
				t.Checks = append(t.Checks, ck)
				s.tag("check-table")
			}
		}
		s.Tables = append(s.Tables, t)
	}
	// foreign keys: to pk / unique columns of any table (self included)
	for ti := range s.Tables {
		t := &s.Tables[ti]
		fn := &namer{r: r, level: o.nameLevel, used: map[string]bool{}, s: s}
		for k := r.Intn(3); k > 0; k-- {
			ri := r.Intn(len(s.Tables))
			rt := &s.Tables[ri]
			target := refTarget(rt)
			if len(target) == 0 || len(target) > len(t.Cols) {
				continue
			}
			// choose distinct non-generated local columns
			var local []string
			for _, ci := range permN(r, len(t.Cols)) {
				if t.Cols[ci].Gen == "" && !t.Cols[ci].AutoInc && len(local) < len(target) {
					local = append(local, t.Cols[ci].Name)
				}
			}
			if len(local) != len(target) {
				continue
			}
			fk := hFK{Cols: local, RefTable: rt.Name, RefCols: target}
			if r.Chance(2, 3) {
				fk.Name = fn.fresh("fk_")
				s.tag("fk-named")
			} else {
				s.tag("fk-unnamed")
			}
			fk.OnDel = rng.Pick(r, []string{"", "", "CASCADE", "SET NULL", "RESTRICT", "NO ACTION", "SET DEFAULT"})
			fk.OnUpd = rng.Pick(r, []string{"", "", "", "CASCADE", "NO ACTION"})
			if fk.OnDel != "" || fk.OnUpd != "" {
				s.tag("fk-action")
			}
			if ri == ti {
				s.tag("fk-self")
			}
			dup := false
			for _, f := range t.FKs {
				if strings.Join(f.Cols, ",") == strings.Join(fk.Cols, ",") && f.RefTable == fk.RefTable {
					dup = true
				}
			}
			for _, c := range t.Cols {
				if c.Ref != nil && len(fk.Cols) == 1 && c.Name == fk.Cols[0] && c.Ref.RefTable == fk.RefTable {
					dup = true
				}
			}
			if dup {
				if !o.wild {
					continue
				}
				s.tag("fk-same-shape")
			}
			if len(local) == 1 && r.Bool() {
				for ci := range t.Cols {
					if t.Cols[ci].Name == local[0] && t.Cols[ci].Ref == nil {
						f := fk
						t.Cols[ci].Ref = &f
						s.tag("fk-inline")
						goto done
					}
				}
			}
			if len(local) > 1 {
				s.tag("fk-composite")
			}
			t.FKs = append(t.FKs, fk)
			s.tag("fk-table")
		done:
		}
	}
	// indexes
	in := &namer{r: r, level: o.nameLevel, used: map[string]bool{}, s: s}
	for ti := range s.Tables {
		t := &s.Tables[ti]
		for k := r.Intn(3); k > 0; k-- {
			ix := hIndex{Name: in.fresh("ix_"), Unique: r.Chance(1, 4)}
			np := 1 + r.Intn(2)
			seen := map[string]bool{}
			for p := 0; p < np; p++ {
				c := t.Cols[r.Intn(len(t.Cols))]
				if seen[c.Name] {
					continue
				}
				seen[c.Name] = true
				pt := hPart{Col: c.Name}
				if r.Chance(1, 5) && c.Gen == "" {
					pt = hPart{Expr: rng.Pick(r, []string{"%s + 1", "abs(%s)", "%s || 'x'", "coalesce(%s, 0)", "lower(%s)", "%s || ')'", "max(%s, 1)"})}
					pt.Expr = fmt.Sprintf(pt.Expr, exprRef(c.Name))
					s.tag("idx-expr")
					if strings.Contains(pt.Expr, ",") {
						s.tag("idx-expr-comma")
					}
					if strings.Contains(pt.Expr, "')'") {
						s.tag("idx-expr-paren-string")
					}
					if !isPlainIdent(t.Name) {
						s.tag("idx-expr-odd-table")
					}
				}
				if r.Chance(1, 4) {
					pt.Desc = true
					s.tag("idx-desc")
				}
				if o.wild && pt.Expr == "" && r.Chance(1, 8) {
					pt.Collate = "NOCASE"
					s.tag("idx-collate")
				}
				ix.Parts = append(ix.Parts, pt)
			}
			if r.Chance(1, 4) {
				c := t.Cols[r.Intn(len(t.Cols))]
				if c.Gen == "" {
					ix.Where = fmt.Sprintf(rng.Pick(r, []string{"%[1]s > 0", "%[1]s IS NOT NULL", "%[1]s <> 'x'", "%[1]s NOT IN (1, 2)", "(%[1]s >= 0)",
						"%[1]s <> 'NOWHERE'", "%[1]s = 'where?'", "%[1]s = 'where' AND %[1]s > 0", "%[1]s <> 'a WHERE b' OR %[1]s IS NULL", "%[1]s <> 'WHERE'"}), exprRef(c.Name))
					s.tag("idx-partial")
					if strings.Contains(strings.ToLower(ix.Where), "where") {
						s.tag("idx-where-in-predicate")
					}

				}
			}
			t.Indexes = append(t.Indexes, ix)
		}
	}
	return s
}

func inParts(ps []hPart, n string) bool {
	for _, p := range ps {
		if p.Col == n {
			return true
		}
	}
	return false
}

// refTarget: the primary-key columns of a table (what a foreign key may reference).
func refTarget(t *hTable) []string {
	if len(t.PK) > 0 {
		var l []string
		for _, p := range t.PK {
			l = append(l, p.Col)
		}
		return l
	}
	for _, c := range t.Cols {
		if c.PKInline {
			return []string{c.Name}
		}
	}
	for _, c := range t.Cols {
		if c.Unique {
			return []string{c.Name}
		}
	}
	return nil
}

func permN(r *rng.R, n int) []int {
	p := make([]int, n)
	for i := range p {
		p[i] = i
	}
	for i := n - 1; i > 0; i-- {
		j := r.Intn(i + 1)
		p[i], p[j] = p[j], p[i]
	}
	return p
}
