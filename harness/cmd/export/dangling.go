package main

// Databases whose catalogue holds dangling references: SQLite keeps a FOREIGN KEY clause whose
// parent table was dropped (or never existed), or whose referenced column is gone after the parent
// was rebuilt.  The inspector represents such a parent by a stub (schema.Table holding only the
// name, not a member of Schema.Tables) or a stub column.  The exports must describe exactly the
// database: one CREATE TABLE per inspected table, nothing for the stub.
//
// A dangling case = a generated schema + a core (parent, 1 or 2 children, named or unnamed key):
//   full : the schema with an intact parent          (what the repaired case creates)
//   pre  : what is created first                     (full, or full minus parent for parent-never)
//   post : statements run afterwards                 (DROP TABLE parent [+ CREATE TABLE parent without the column])
//   ast  : the expected catalogue                    (ground truth of the inspection)

import (
	"fmt"
	"strconv"
	"strings"

	"verifharness/internal/rng"
)

var danglingKinds = []string{"parent-dropped", "parent-never", "refcol-dropped", "self-renamed"}

type dangling struct {
	kind     string
	parent   string
	named    bool
	children int
}

func dqIdent(s string) string { return `"` + strings.ReplaceAll(s, `"`, `""`) + `"` }

// danglingGrid enumerates kind x named x children.
func danglingGrid() (g []dangling) {
	for _, k := range danglingKinds {
		for _, named := range []bool{true, false} {
			for _, ch := range []int{1, 2} {
				g = append(g, dangling{kind: k, named: named, children: ch})
			}
		}
	}
	return g
}

// newDanglingCase builds the case; variant 0 is the bare core, larger variants add generated tables.
func newDanglingCase(id, how string, r *rng.R, d dangling, variant int) *loopCase {
	// the generated part may be a text SQLite rejects (the generator does not promise validity): redraw,
	// and fall back to the bare core
	for try := 0; try < 6; try++ {
		v := variant
		if try == 5 {
			v = 0
		}
		c := buildDanglingCase(id, how, r, d, v)
		db := freshDB()
		err := execScript(db, c.script)
		db.Close()
		if err == nil {
			return c
		}
	}
	return buildDanglingCase(id, how, r, d, 0)
}

func buildDanglingCase(id, how string, r *rng.R, d dangling, variant int) *loopCase {
	if d.kind == "parent-never" {
		how = "hand" // Atlas cannot be asked to create a key to a table it is not given
	}
	full := &hSchema{Tags: map[string]bool{}}
	if variant > 0 {
		o := genOpts{nameLevel: variant % 3, atlasSafe: true}
		full = genSchemaAST(r, o)
	}
	used := map[string]bool{}
	for i := range full.Tables {
		used[strings.ToLower(full.Tables[i].Name)] = true
	}
	pick := func(cands ...string) string {
		for _, c := range cands {
			if !used[strings.ToLower(c)] {
				used[strings.ToLower(c)] = true
				return c
			}
		}
		panic("no free name")
	}
	parentNames := []string{"accounts", "Parent", "p_1", "whereabouts_of"}
	pn := pick(parentNames[variant%len(parentNames)], "d_parent", "d_parent2")
	d.parent = pn
	parent := hTable{Name: pn, Cols: []hCol{
		{Name: "id", Type: "integer", NotNull: true, PKInline: true},
		{Name: "code", Type: "text", NotNull: true, Unique: true},
		{Name: "label", Type: "text", Default: "'x'"},
	}}
	refCol, refType := "id", "integer"
	if r.Bool() {
		refCol, refType = "code", "text"
	}
	nch := d.children
	if d.kind == "self-renamed" {
		// the parent refers to itself; renamed under legacy_alter_table the clause keeps the old name.
		// children = number of dangling keys: the self reference (+ one child)
		nch--
		parent.Cols = append(parent.Cols, hCol{Name: "up", Type: refType})
		fk := hFK{Cols: []string{"up"}, RefTable: pn, RefCols: []string{refCol}}
		if d.named {
			fk.Name = "fk_up"
		}
		parent.FKs = append(parent.FKs, fk)
	}
	var children []hTable
	for k := 0; k < nch; k++ {
		cn := pick([]string{"items", "Child", "c_1", "notes"}[(variant+k)%4], fmt.Sprintf("d_child%d", k), fmt.Sprintf("d_child%d_", k))
		ch := hTable{Name: cn, Cols: []hCol{
			{Name: "n", Type: "integer"},
			{Name: "ref", Type: refType},
			{Name: "v", Type: "text", Default: "'v'"},
		}}
		fk := hFK{Cols: []string{"ref"}, RefTable: pn, RefCols: []string{refCol}}
		if d.named {
			fk.Name = fmt.Sprintf("fk_%s_%d", refCol, k)
		}
		fk.OnDel = rng.Pick(r, []string{"", "CASCADE", "SET NULL", "NO ACTION"})
		if r.Chance(1, 3) {
			f := fk
			ch.Cols[1].Ref = &f // column-level REFERENCES
		} else {
			ch.FKs = append(ch.FKs, fk)
		}
		if r.Chance(1, 3) {
			ch.Indexes = append(ch.Indexes, hIndex{Name: "ix_" + cn + "_ref", Parts: []hPart{{Col: "ref"}}})
		}
		children = append(children, ch)
	}
	// creation order: SQLite accepts a child before its parent
	core := append([]hTable{parent}, children...)
	if r.Bool() {
		core = append(append([]hTable{}, children...), parent)
	}
	if r.Bool() {
		full.Tables = append(core, full.Tables...)
	} else {
		full.Tables = append(full.Tables, core...)
	}
	full.tag("dangling-" + d.kind)
	if d.named {
		full.tag("fk-named")
	} else {
		full.tag("fk-unnamed")
	}
	full.tag(fmt.Sprintf("dangling-children-%d", d.children))

	without := func(a *hSchema) *hSchema {
		b := a.clone()
		var ts []hTable
		for _, t := range b.Tables {
			if t.Name != pn {
				ts = append(ts, t)
			}
		}
		b.Tables = ts
		return b
	}
	c := &loopCase{id: id, how: how, history: "dangling-" + d.kind, dang: &d, full: full}
	fkOff, fkOn := "PRAGMA foreign_keys = off", "PRAGMA foreign_keys = on"
	switch d.kind {
	case "parent-dropped":
		c.pre = full
		c.ast = without(full)
		c.post = []string{fkOff, "DROP TABLE " + dqIdent(pn), fkOn}
	case "parent-never":
		c.pre = without(full)
		c.ast = c.pre
	case "refcol-dropped":
		c.pre = full
		// the parent rebuilt without the referenced column (the 12-step ALTER of the SQLite manual,
		// done carelessly): it is created last, so it moves to the end of the catalogue
		np := hTable{Name: pn}
		for _, col := range parent.Cols {
			if col.Name != refCol {
				col.PKInline = false
				np.Cols = append(np.Cols, col)
			}
		}
		var defs []string
		for _, col := range np.Cols {
			s := dqIdent(col.Name) + " " + col.Type
			if col.NotNull {
				s += " NOT NULL"
			}
			if col.Unique {
				s += " UNIQUE"
			}
			if col.Default != "" {
				s += " DEFAULT " + col.Default
			}
			defs = append(defs, s)
		}
		c.ast = without(full)
		c.ast.Tables = append(c.ast.Tables, np)
		c.post = []string{fkOff, "DROP TABLE " + dqIdent(pn), "CREATE TABLE " + dqIdent(pn) + " (" + strings.Join(defs, ", ") + ")", fkOn}
	}
	if d.kind == "self-renamed" {
		c.pre = full
		nn := pick(pn+"_2", pn+"_3")
		c.ast = full.clone()
		for i := range c.ast.Tables {
			if c.ast.Tables[i].Name == pn {
				c.ast.Tables[i].Name = nn
			}
		}
		c.post = []string{fkOff, "PRAGMA legacy_alter_table = on", "ALTER TABLE " + dqIdent(pn) + " RENAME TO " + dqIdent(nn), "PRAGMA legacy_alter_table = off", fkOn}
	}
	c.styleSeed = r.U64()
	st := newStyle(rng.New(c.styleSeed), c.pre)
	c.script = strings.Join(st.script(c.pre), ";\n") + ";"
	return c
}

// fullScript: creation + history as one script (the CLI stage and the messages).
func (c *loopCase) fullScript() string {
	if len(c.post) == 0 {
		return c.script
	}
	return c.script + "\n" + strings.Join(c.post, ";\n") + ";"
}

// ---------------------------------------------------------------------------
// Which tables does an SQL export create?  (statement reader of the export text)

// createdTables returns the names of the tables a script of the planner creates, in order.  The
// planner does not escape a backtick inside an identifier, so the name is taken from the comment
// the formatter prints before the statement (-- Create %q table), and from the statement itself
// only when there is no such comment.
func createdTables(sqlText string) []string {
	var names []string
	const kw = "CREATE TABLE "
	lines := strings.Split(sqlText, "\n")
	for i, line := range lines {
		if !strings.HasPrefix(line, kw) {
			continue
		}
		if i > 0 && strings.HasPrefix(lines[i-1], "-- Create \"") && strings.HasSuffix(lines[i-1], "\" table") {
			if n, err := strconv.Unquote(strings.TrimSuffix(strings.TrimPrefix(lines[i-1], "-- Create "), " table")); err == nil {
				names = append(names, n)
				continue
			}
		}
		rest := strings.TrimPrefix(strings.TrimPrefix(line, kw), "IF NOT EXISTS ")
		if !strings.HasPrefix(rest, "`") {
			f := strings.FieldsFunc(rest, func(r rune) bool { return r == ' ' || r == '(' })
			if len(f) > 0 {
				names = append(names, f[0])
			} else {
				names = append(names, "")
			}
			continue
		}
		end := strings.Index(rest[1:], "` (")
		if end < 0 {
			end = len(rest) - 1
		}
		names = append(names, rest[1:1+end])
	}
	return names
}

// dumpTie: the case line (the inspected table list with the tables their keys point to, read
// from SQLite's own catalogue) and the observation (the tables the export creates).
func dumpTie(raw []rawTable, created []string) (string, string) {
	var ts []string
	for _, t := range raw {
		var refs []string
		for _, f := range t.FKs {
			refs = append(refs, hx(f.RefTable))
		}
		ts = append(ts, hx(t.Name)+"|"+strings.Join(refs, ":"))
	}
	var cs []string
	for _, n := range created {
		cs = append(cs, hx(n))
	}
	return "dump " + strings.Join(ts, ","), "creates " + strings.Join(cs, ",")
}

func rawNames(raw []rawTable) []string {
	var l []string
	for _, t := range raw {
		l = append(l, t.Name)
	}
	return l
}
