package main

// Attribution of a violation to an input feature.  A violating case is
// re-run with suspected features neutralised one after the other (cumulatively,
// in a fixed order); the repair after which the symptom disappears names the
// cause.  The oracle reports (cause, symptom); a known finding is keyed by the
// cause and lists the symptoms it explains, so a new symptom of a known cause,
// or a symptom no repair removes ("unexplained"), is still a VIOLATION.

import (
	"encoding/json"
	"fmt"
	"regexp"
	"strings"

	"verifharness/internal/rng"
)

func (a *hSchema) clone() *hSchema {
	b, _ := json.Marshal(a)
	var c hSchema
	json.Unmarshal(b, &c)
	if c.Tags == nil {
		c.Tags = map[string]bool{}
	}
	return &c
}

// renameAll applies f to every identifier of the schema consistently.
func (a *hSchema) renameAll(f func(kind, name string) string) {
	a.renameAllScoped(func(string) {}, f)
}

// renameAllScoped: enter(t) is called with the (new) table name before the columns of t are renamed.
func (a *hSchema) renameAllScoped(enter func(string), f func(kind, name string) string) {
	tn := func(n string) string { return f("table", n) }
	for i := range a.Tables {
		t := &a.Tables[i]
		t.Name = tn(t.Name)
	}
	for i := range a.Tables {
		t := &a.Tables[i]
		enter(t.Name)
		cmap := map[string]string{}
		for j := range t.Cols {
			n := f("column", t.Cols[j].Name)
			cmap[t.Cols[j].Name] = n
		}
		// keep columns of one table distinct
		seen := map[string]bool{}
		for j := range t.Cols {
			n := cmap[t.Cols[j].Name]
			for seen[strings.ToLower(n)] {
				n += "_"
			}
			seen[strings.ToLower(n)] = true
			cmap[t.Cols[j].Name] = n
		}
		reExpr := func(e string) string {
			// expressions refer to columns by exprRef(name)
			for old, nw := range cmap {
				if old != nw {
					e = replaceRef(e, exprRef(old), exprRef(nw))
				}
			}
			return e
		}
		for j := range t.Cols {
			c := &t.Cols[j]
			c.Name = cmap[c.Name]
			c.Gen = reExpr(c.Gen)
			if c.Check != nil {
				c.Check.Expr = reExpr(c.Check.Expr)
				if c.Check.Name != "" {
					c.Check.Name = f("constraint", c.Check.Name)
				}
			}
		}
		for j := range t.PK {
			t.PK[j].Col = cmap[t.PK[j].Col]
		}
		for j := range t.Uniques {
			for k := range t.Uniques[j] {
				t.Uniques[j][k] = cmap[t.Uniques[j][k]]
			}
		}
		for j := range t.Checks {
			t.Checks[j].Expr = reExpr(t.Checks[j].Expr)
			if t.Checks[j].Name != "" {
				t.Checks[j].Name = f("constraint", t.Checks[j].Name)
			}
		}
		for j := range t.Indexes {
			ix := &t.Indexes[j]
			ix.Name = f("index", ix.Name)
			for k := range ix.Parts {
				if ix.Parts[k].Col != "" {
					ix.Parts[k].Col = cmap[ix.Parts[k].Col]
				}
				ix.Parts[k].Expr = reExpr(ix.Parts[k].Expr)
			}
			ix.Where = reExpr(ix.Where)
		}
		t.colMap = cmap
	}
	// foreign keys: local columns by the table's map, referenced ones by the target's
	byName := map[string]*hTable{}
	for i := range a.Tables {
		byName[a.Tables[i].Name] = &a.Tables[i]
	}
	fix := func(t *hTable, fk *hFK) {
		if fk.Name != "" {
			fk.Name = f("constraint", fk.Name)
		}
		for k := range fk.Cols {
			fk.Cols[k] = t.colMap[fk.Cols[k]]
		}
		fk.RefTable = tn(fk.RefTable)
		if rt := byName[fk.RefTable]; rt != nil {
			for k := range fk.RefCols {
				fk.RefCols[k] = rt.colMap[fk.RefCols[k]]
			}
		}
	}
	for i := range a.Tables {
		t := &a.Tables[i]
		for j := range t.Cols {
			if t.Cols[j].Ref != nil {
				fix(t, t.Cols[j].Ref)
			}
		}
		for j := range t.FKs {
			fix(t, &t.FKs[j])
		}
	}
}

// renameCols renames columns of one table (and every reference to them).
func (a *hSchema) renameCols(table string, ren map[string]string) {
	cur := ""
	a.renameAllScoped(func(t string) { cur = t }, func(kind, n string) string {
		if kind == "column" && cur == table {
			if v, ok := ren[n]; ok {
				return v
			}
		}
		return n
	})
}

// replaceRef replaces whole-token occurrences of a column reference inside an expression.
func replaceRef(e, old, nw string) string {
	if e == "" || old == "" {
		return e
	}
	if strings.HasPrefix(old, `"`) {
		return strings.ReplaceAll(e, old, nw)
	}
	re := regexp.MustCompile(`(^|[^\w'"])` + regexp.QuoteMeta(old) + `($|[^\w'"])`)
	for i := 0; i < 4; i++ {
		e = re.ReplaceAllString(e, "${1}"+strings.ReplaceAll(nw, "$", "$$")+"${2}")
	}
	return e
}

type repair struct {
	name string
	ast  func(a *hSchema)
	sty  func(st *style)
}

func sanitizeWord(kind, n string) string {
	var b strings.Builder
	for _, c := range []byte(n) {
		if c == '_' || c >= '0' && c <= '9' || c >= 'a' && c <= 'z' || c >= 'A' && c <= 'Z' {
			b.WriteByte(c)
		} else {
			b.WriteString(fmt.Sprintf("_%02x", c))
		}
	}
	s := b.String()
	if s == "" || s[0] >= '0' && s[0] <= '9' {
		s = "n" + s
	}
	return s
}

func replaceFold(n, what, with string) string {
	re := regexp.MustCompile("(?i)" + regexp.QuoteMeta(what))
	return re.ReplaceAllString(n, with)
}

func eachDefault(a *hSchema, f func(c *hCol)) {
	for i := range a.Tables {
		for j := range a.Tables[i].Cols {
			f(&a.Tables[i].Cols[j])
		}
	}
}

func eachExpr(a *hSchema, f func(e string) string) {
	for i := range a.Tables {
		t := &a.Tables[i]
		for j := range t.Cols {
			c := &t.Cols[j]
			if c.Gen != "" {
				c.Gen = f(c.Gen)
			}
			if c.Check != nil {
				c.Check.Expr = f(c.Check.Expr)
			}
			if c.Default != "" {
				c.Default = f(c.Default)
			}
		}
		for j := range t.Checks {
			t.Checks[j].Expr = f(t.Checks[j].Expr)
		}
		for j := range t.Indexes {
			for k := range t.Indexes[j].Parts {
				if t.Indexes[j].Parts[k].Expr != "" {
					t.Indexes[j].Parts[k].Expr = f(t.Indexes[j].Parts[k].Expr)
				}
			}
		}
	}
}

var reStrKw = regexp.MustCompile(`'[^']*(?i:check \(|check\(|AS \(|constraint )[^']*'`)
var reTypeParams = regexp.MustCompile(`\([0-9, ]+\)`)

var repairs = []repair{
	// the case-level repair: the parent table is intact (see repaired)
	{name: "dangling-reference"},
	{name: "bracket-ident", sty: func(st *style) { st.noBracket = true }},
	{name: "nonword-name", ast: func(a *hSchema) { a.renameAll(sanitizeWord) }},
	{name: "lowercase-where", sty: func(st *style) { st.whereUpper = true }},
	{name: "keyword-case", sty: func(st *style) { st.kw = 0 }},
	{name: "sql-comment", sty: func(st *style) { st.comments = 0 }},
	{name: "spacing", sty: func(st *style) { st.tight, st.wide, st.nl = false, false, false }},
	{name: "bare-ident", sty: func(st *style) {
		if st.quote == 4 || st.quote == 0 {
			st.quote = 1
		}
	}},
	{name: "where-in-name", ast: func(a *hSchema) {
		// only the upper-case letters matter to strings.Index(stmt, "WHERE")
		a.renameAll(func(_, n string) string { return strings.ReplaceAll(n, "WHERE", "WH_RE") })
	}},
	{name: "check-in-name", ast: func(a *hSchema) {
		a.renameAll(func(_, n string) string { return replaceFold(n, "check", "chk") })
	}},
	{name: "keyword-in-name", ast: func(a *hSchema) {
		a.renameAll(func(_, n string) string {
			for _, k := range []string{"constraint", "references", "primary", "autoincrement", "generated", "foreign", "unique", "default", "integer", "index", "desc", "not_null"} {
				n = replaceFold(n, k, k[:2]+"_"+k[3:])
			}
			if isWord(n) && !isPlainIdent(n) {
				n = "k_" + n
			}
			return n
		})
	}},
	{name: "as-in-name", ast: func(a *hSchema) {
		a.renameAll(func(_, n string) string { return replaceFold(n, "as", "a_s") })
	}},
	{name: "new-prefix-name", ast: func(a *hSchema) {
		a.renameAll(func(_, n string) string { return replaceFold(n, "new_", "nw_") })
	}},
	{name: "prefix-column-names", ast: func(a *hSchema) {
		// a column whose name is a proper prefix of a sibling's name gets a name that is not
		for i := range a.Tables {
			t := &a.Tables[i]
			ren := map[string]string{}
			for j := range t.Cols {
				for k := range t.Cols {
					x, y := strings.ToLower(t.Cols[j].Name), strings.ToLower(t.Cols[k].Name)
					if j != k && len(x) < len(y) && strings.HasPrefix(y, x) {
						ren[t.Cols[j].Name] = fmt.Sprintf("zq%d_%s", j, t.Cols[j].Name)
					}
				}
			}
			if len(ren) == 0 {
				continue
			}
			tname := t.Name
			a.renameCols(tname, ren)
		}
	}},
	{name: "type-with-comma", ast: func(a *hSchema) {
		eachDefault(a, func(c *hCol) {
			if strings.Contains(c.Type, ",") {
				c.Type = reTypeParams.ReplaceAllString(c.Type, "")
			}
		})
	}},
	{name: "type-with-size", ast: func(a *hSchema) {
		eachDefault(a, func(c *hCol) { c.Type = reTypeParams.ReplaceAllString(c.Type, "") })
	}},
	{name: "type-case", ast: func(a *hSchema) {
		eachDefault(a, func(c *hCol) { c.Type = strings.ToLower(c.Type) })
	}},
	{name: "default-number-form", ast: func(a *hSchema) {
		eachDefault(a, func(c *hCol) {
			if c.Default == "1e3" || c.Default == "+5" || c.Default == "1.50" || c.Default == "007" || c.Default == "0.0" {
				c.Default = "7"
			}
		})
	}},
	{name: "default-long-decimal", ast: func(a *hSchema) {
		eachDefault(a, func(c *hCol) {
			if c.Default == "3.14159265358979" || c.Default == "0.1234567890123" {
				c.Default = "3.5"
			}
		})
	}},
	{name: "default-quoted-quote", ast: func(a *hSchema) {
		eachDefault(a, func(c *hCol) {
			if c.Default == "'''a'''" || c.Default == "''''" {
				c.Default = "'a'"
			}
		})
	}},
	{name: "default-bool-case", ast: func(a *hSchema) {
		eachDefault(a, func(c *hCol) {
			if c.Default == "TRUE" {
				c.Default = "true"
			}
		})
	}},
	{name: "default-blob-literal", ast: func(a *hSchema) {
		eachDefault(a, func(c *hCol) {
			if strings.HasPrefix(strings.ToLower(c.Default), "x'") {
				c.Default = ""
			}
		})
	}},
	{name: "default-null-or-dq", ast: func(a *hSchema) {
		eachDefault(a, func(c *hCol) {
			if c.Default == "NULL" || c.Default == `"dq"` {
				c.Default = "'dq'"
			}
		})
	}},
	{name: "keyword-in-string", ast: func(a *hSchema) {
		// strings in DEFAULTs and generated expressions (outside any CHECK)
		eachDefault(a, func(c *hCol) {
			c.Default = reStrKw.ReplaceAllString(c.Default, "'plain'")
			c.Gen = reStrKw.ReplaceAllString(c.Gen, "'plain'")
		})
	}},
	{name: "keyword-in-check-string", ast: func(a *hSchema) {
		eachExpr(a, func(e string) string { return reStrKw.ReplaceAllString(e, "'plain'") })
	}},
	{name: "paren-or-comma-in-string", ast: func(a *hSchema) {
		eachExpr(a, func(e string) string {
			for _, s := range []string{"')'", "'('", "', '", "'a,b%'", "'a,b'", "'(x'", "'x)'"} {
				e = strings.ReplaceAll(e, s, "'p'")
			}
			return e
		})
	}},
	{name: "comma-before-inline-fk", ast: func(a *hSchema) {
		eachDefault(a, func(c *hCol) {
			if c.Ref != nil {
				if c.Check != nil && strings.Contains(c.Check.Expr, ",") {
					c.Check.Expr = exprRef(c.Name) + " > 0"
				}
				if strings.Contains(c.Default, ",") {
					c.Default = "'ab'"
				}
			}
		})
	}},
	{name: "dq-string-in-expr", ast: func(a *hSchema) {
		eachExpr(a, func(e string) string {
			for _, q := range []string{`"dq"`, `"(x"`, `")"`} {
				e = strings.ReplaceAll(e, q, "'dq'")
			}
			return e
		})
	}},
	{name: "fk-same-shape", ast: func(a *hSchema) {
		for i := range a.Tables {
			t := &a.Tables[i]
			seen := map[string]bool{}
			key := func(f *hFK) string {
				return strings.Join(f.Cols, ",") + "->" + f.RefTable + "(" + strings.Join(f.RefCols, ",") + ")"
			}
			for j := range t.Cols {
				if f := t.Cols[j].Ref; f != nil {
					if seen[key(f)] {
						t.Cols[j].Ref = nil
					}
					seen[key(f)] = true
				}
			}
			var keep []hFK
			for j := range t.FKs {
				if !seen[key(&t.FKs[j])] {
					keep = append(keep, t.FKs[j])
				}
				seen[key(&t.FKs[j])] = true
			}
			t.FKs = keep
		}
	}},
	{name: "pk-desc", ast: func(a *hSchema) {
		for i := range a.Tables {
			for j := range a.Tables[i].PK {
				a.Tables[i].PK[j].Desc = false
			}
			for j := range a.Tables[i].Cols {
				a.Tables[i].Cols[j].PKDesc = false
			}
		}
	}},
	{name: "pk-order", ast: func(a *hSchema) {
		for i := range a.Tables {
			t := &a.Tables[i]
			if len(t.PK) < 2 {
				continue
			}
			var ord []hPart
			for _, c := range t.Cols {
				for _, p := range t.PK {
					if p.Col == c.Name {
						ord = append(ord, p)
					}
				}
			}
			// referencing foreign keys follow the new order
			for ti := range a.Tables {
				fixFK := func(f *hFK) {
					if f.RefTable != t.Name || len(f.RefCols) != len(ord) {
						return
					}
					pos := map[string]int{}
					for k, p := range t.PK {
						pos[p.Col] = k
					}
					nc, nr := make([]string, len(ord)), make([]string, len(ord))
					for k, p := range ord {
						nc[k], nr[k] = f.Cols[pos[p.Col]], p.Col
					}
					f.Cols, f.RefCols = nc, nr
				}
				for j := range a.Tables[ti].FKs {
					fixFK(&a.Tables[ti].FKs[j])
				}
			}
			t.PK = ord
		}
	}},
	{name: "collate", ast: func(a *hSchema) {
		for i := range a.Tables {
			for j := range a.Tables[i].Cols {
				a.Tables[i].Cols[j].Collate = ""
			}
			for j := range a.Tables[i].Indexes {
				for k := range a.Tables[i].Indexes[j].Parts {
					a.Tables[i].Indexes[j].Parts[k].Collate = ""
				}
			}
		}
	}},
	{name: "generated-short-form", ast: func(a *hSchema) {
		eachDefault(a, func(c *hCol) {
			if c.Gen != "" {
				c.GenLong = true
				if c.GenKind == "" {
					c.GenKind = "VIRTUAL"
				}
			}
		})
	}},
	{name: "expression-index", ast: func(a *hSchema) {
		for i := range a.Tables {
			t := &a.Tables[i]
			for j := range t.Indexes {
				for k := range t.Indexes[j].Parts {
					if t.Indexes[j].Parts[k].Expr != "" {
						t.Indexes[j].Parts[k] = hPart{Col: t.Cols[0].Name, Desc: t.Indexes[j].Parts[k].Desc}
					}
				}
			}
		}
	}},
}

// attribute re-runs the case with repairs 0..k applied and returns, per symptom,
// the name of the first repair after which it is gone ("unexplained" if none).
func (c *loopCase) attribute(symptoms []string) map[string]string {
	cause := map[string]string{}
	left := map[string]bool{}
	for _, s := range symptoms {
		left[s] = true
	}
	for k := range repairs {
		if len(left) == 0 {
			break
		}
		if repairs[k].name == "dangling-reference" && c.dang == nil {
			continue
		}
		rc := c.repaired(k)
		rc.run()
		now := map[string]bool{}
		if rc.res.createErr == nil {
			for _, v := range append(rc.res.verdict(), rc.truth...) {
				now[v.class] = true
			}
		} else {
			// the repaired schema is not accepted by SQLite: no attribution from this step
			continue
		}
		for s := range left {
			// gone = not observed AND the run got far enough to observe it
			if !now[s] && !blocked(s, now) {
				cause[s] = repairs[k].name
				if !c.causeApplies(repairs[k].name) {
					cause[s] = "unexplained"
				}
				delete(left, s)
			}
		}
	}
	for s := range left {
		cause[s] = "unexplained"
	}
	return cause
}

// causeApplies: a cause names an input feature; it can only explain a symptom of a case that has the
// feature.  (Without this a repair that happens to make a symptom disappear - e.g. renaming a column
// that also occurs in a predicate - would hand a new defect to a known finding.)
func (c *loopCase) causeApplies(cause string) bool {
	switch cause {
	case "dangling-reference":
		return c.dang != nil
	case "where-in-name":
		// upper-case WHERE before the keyword of some partial index: in the index name, the table
		// name or the key parts
		for i := range c.ast.Tables {
			t := &c.ast.Tables[i]
			for j := range t.Indexes {
				ix := &t.Indexes[j]
				if ix.Where == "" {
					continue
				}
				head := ix.Name + "\x00" + t.Name
				for _, p := range ix.Parts {
					head += "\x00" + p.Col + "\x00" + p.Expr
				}
				if strings.Contains(head, "WHERE") {
					return true
				}
			}
		}
		return false
	case "lowercase-where":
		if c.how != "hand" {
			return false
		}
		st := newStyle(rng.New(c.styleSeed), c.ast.clone())
		if st.kw == 0 {
			return false
		}
		for i := range c.ast.Tables {
			for j := range c.ast.Tables[i].Indexes {
				if c.ast.Tables[i].Indexes[j].Where != "" {
					return true
				}
			}
		}
		return false
	}
	return true
}

// blocked: a symptom cannot be observed when an earlier step of the loop failed.
func blocked(s string, now map[string]bool) bool {
	if s != "inspect-error" && now["inspect-error"] {
		return true
	}
	switch {
	case strings.HasPrefix(s, "hcl-") && s != "hcl-marshal-error" && s != "hcl-eval-error":
		if now["hcl-marshal-error"] || now["hcl-eval-error"] || now["hcl-diff-error"] {
			return true
		}
		if (s == "hcl-db-diff" || s == "hcl-raw-catalogue") && now["hcl-apply-error"] {
			return true
		}
	case s == "sql-diff" || s == "sql-raw-catalogue" || s == "sql-exec-error":
		if now["sql-plan-error"] || (s != "sql-exec-error" && now["sql-exec-error"]) {
			return true
		}
	}
	return false
}

// repaired builds the case with repairs[0..k] applied.
func (c *loopCase) repaired(k int) *loopCase {
	base, hist := c.ast, c.history
	if c.dang != nil {
		// every repaired run has the intact parent and no history
		base, hist = c.full, "fresh"
	}
	a := base.clone()
	r := rng.New(c.styleSeed)
	st := newStyle(r, a)
	for i := 0; i <= k; i++ {
		if repairs[i].ast != nil {
			repairs[i].ast(a)
		}
		if repairs[i].sty != nil {
			repairs[i].sty(st)
		}
	}
	rc := &loopCase{id: c.id, how: c.how, ast: a, styleSeed: c.styleSeed, noAttr: true, history: hist}
	rc.script = strings.Join(st.script(a), ";\n") + ";"
	return rc
}
