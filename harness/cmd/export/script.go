package main

// Tie of Sqlite/ExportRealm.v (round 5b): the sequence of objects the real SQL export creates
// (cmdlog.sqlInspect = planner over ChangesToRealm) against the model run on table skeletons.
// Case = the inspected schema handed to the export (tables in order; per table the tables its
// keys name and its indexes with origin and part columns); observation = the objects of the
// script in order, read from the formatter's comments (`-- Create "t" table`,
// `-- Create index "i" to table: "t"`), plus what a fresh engine says about the name space
// when the script is executed (ok / clash = "already exists" or "no such table").

import (
	"context"
	"regexp"
	"strconv"
	"strings"

	"ariga.io/atlas/sql/migrate"
	"ariga.io/atlas/sql/schema"
	"ariga.io/atlas/sql/sqlite"
)

var (
	reCmtTable = regexp.MustCompile(`^-- Create (".*") table$`)
	reCmtIndex = regexp.MustCompile(`^-- Create index (".*") to table: (".*")$`)
)

func exportObjects(sqlText string) []string {
	var o []string
	for _, line := range strings.Split(sqlText, "\n") {
		if !strings.HasPrefix(line, "-- ") {
			continue
		}
		if m := reCmtIndex.FindStringSubmatch(line); m != nil {
			i, e1 := strconv.Unquote(m[1])
			t, e2 := strconv.Unquote(m[2])
			if e1 == nil && e2 == nil {
				o = append(o, "I"+hx(i)+"@"+hx(t))
				continue
			}
		}
		if m := reCmtTable.FindStringSubmatch(line); m != nil {
			if t, err := strconv.Unquote(m[1]); err == nil {
				o = append(o, "T"+hx(t))
				continue
			}
		}
		o = append(o, "?")
	}
	return o
}

func scriptTables(s *schema.Schema) string {
	var ts []string
	for _, t := range s.Tables {
		var refs, idxs []string
		for _, f := range t.ForeignKeys {
			n := ""
			if f.RefTable != nil {
				n = f.RefTable.Name
			}
			refs = append(refs, hx(n))
		}
		for _, ix := range t.Indexes {
			origin := "-"
			o := &sqlite.IndexOrigin{}
			for _, a := range ix.Attrs {
				if x, ok := a.(*sqlite.IndexOrigin); ok {
					o = x
					origin = hx(o.O)
				}
			}
			cols, expr := []string{}, false
			for _, p := range ix.Parts {
				if p.C == nil {
					expr = true
					break
				}
				cols = append(cols, hx(p.C.Name))
			}
			ct := strings.Join(cols, ":")
			if expr {
				ct = "x"
			}
			idxs = append(idxs, hx(ix.Name)+"~"+origin+"~"+ct)
		}
		ts = append(ts, hx(t.Name)+"|"+strings.Join(refs, ":")+"|"+strings.Join(idxs, ";"))
	}
	return strings.Join(ts, ",")
}

// scriptTie: planErr = the export failed; execErr = what a fresh engine answered to the script.
func scriptTie(s *schema.Schema, sqlText string, planErr, execErr error) (string, string) {
	tabs := scriptTables(s)
	if planErr != nil {
		return "scriptx 1 " + tabs, "err"
	}
	objs := strings.Join(exportObjects(sqlText), ",")
	if objs == "" {
		objs = "-"
	}
	switch {
	case execErr == nil:
		return "script 1 " + tabs, "objs " + objs + " exec=ok"
	case strings.Contains(execErr.Error(), "already exists") || strings.Contains(execErr.Error(), "no such table"):
		return "script 1 " + tabs, "objs " + objs + " exec=clash"
	}
	// the engine stopped for another reason (a known finding of the text layer): the order only
	return "scriptx 1 " + tabs, "objs " + objs
}

// unboundTie: a client that is not bound to a schema (c.URL.Schema == "") makes ChangesToRealm emit
// AddSchema first; the SQLite planner refuses it.  (No SQLite URL opens such a client: driver.go
// always sets Schema = "main"; this is the in-process check of the model's other branch.)
func unboundTie(drv migrate.Driver, s *schema.Schema) (string, string) {
	cs := []schema.Change{&schema.AddSchema{S: s}}
	for _, t := range s.Tables {
		cs = append(cs, &schema.AddTable{T: t})
	}
	_, err := drv.PlanChanges(context.Background(), "plan", cs, func(o *migrate.PlanOptions) { o.Mode = migrate.PlanModeDump })
	if err != nil && strings.Contains(err.Error(), "unsupported change *schema.AddSchema") {
		return "scriptx 0 " + scriptTables(s), "err"
	}
	if err != nil {
		return "scriptx 0 " + scriptTables(s), "other-error " + short(err.Error(), 80)
	}
	return "scriptx 0 " + scriptTables(s), "planned"
}
