package main

// Ground-truth oracle: what Driver.InspectSchema reports for a database is
// compared with what was declared when the database was created (the AST the
// CREATE text was rendered from).  This sees what the diff-based loop cannot:
// both sides of that loop went through the same inspector, so information the
// inspector loses or invents (constraint names, CHECKs, generated expressions,
// AUTOINCREMENT - all recovered by regular expressions from the CREATE text)
// is lost or invented on both sides alike.

import (
	"fmt"
	"regexp"
	"sort"
	"strings"

	"ariga.io/atlas/sql/schema"
	"ariga.io/atlas/sql/sqlite"
)

func squash(s string) string {
	return strings.Join(strings.Fields(s), "")
}

func isDigits(s string) bool {
	if s == "" {
		return false
	}
	for _, c := range []byte(s) {
		if c < '0' || c > '9' {
			return false
		}
	}
	return true
}

func colNames(cs []*schema.Column) string {
	var l []string
	for _, c := range cs {
		l = append(l, c.Name)
	}
	return strings.Join(l, "\x1f")
}

// stripOuter removes redundant outer parentheses (sqlx.MayWrap does not wrap an
// expression that is already wrapped).
func stripOuter(s string) string {
	for len(s) >= 2 && s[0] == '(' && s[len(s)-1] == ')' {
		depth, ok := 0, true
		for i := 0; i < len(s)-1; i++ {
			switch s[i] {
			case '(':
				depth++
			case ')':
				depth--
			case '\'':
				j := strings.IndexByte(s[i+1:], '\'')
				if j < 0 {
					return s
				}
				i += j + 1
			}
			if depth == 0 {
				ok = false
				break
			}
		}
		if !ok {
			return s
		}
		s = s[1 : len(s)-1]
	}
	return s
}

func truthCheck(a *hSchema, s0 *schema.Schema, how string) []viol {
	var v []viol
	add := func(c, m string, args ...any) { v = append(v, viol{c, fmt.Sprintf(m, args...)}) }
	if len(s0.Tables) != len(a.Tables) {
		add("truth-tables", "declared %d tables, inspected %d", len(a.Tables), len(s0.Tables))
	}
	for i := range a.Tables {
		ht := &a.Tables[i]
		t, ok := s0.Table(ht.Name)
		if !ok {
			add("truth-tables", "table %q not inspected", ht.Name)
			continue
		}
		if len(t.Columns) != len(ht.Cols) {
			add("truth-columns", "table %q: declared %d columns, inspected %d", ht.Name, len(ht.Cols), len(t.Columns))
			continue
		}
		var pkDecl []string
		for j := range ht.Cols {
			hc := &ht.Cols[j]
			c := t.Columns[j]
			if c.Name != hc.Name {
				add("truth-columns", "table %q column %d: declared %q, inspected %q", ht.Name, j, hc.Name, c.Name)
				continue
			}
			if hc.PKInline {
				pkDecl = append(pkDecl, hc.Name)
			}
			// declared type text: name and parameters as inspected
			// (hand-written statements only: the planner itself drops the parameters - C03-type-with-size)
			if want, got := typeParams(hc.Type), inspectedTypeParams(c.Type.Type); how == "hand" && want != got {
				add("truth-type", "table %q column %q: declared type %q, inspected %s", ht.Name, hc.Name, hc.Type, got)
			}
			// AUTOINCREMENT
			got := false
			for _, at := range c.Attrs {
				if _, ok := at.(*sqlite.AutoIncrement); ok {
					got = true
				}
			}
			if got != hc.AutoInc {
				add("truth-autoinc", "table %q column %q: declared autoincrement=%v, inspected %v", ht.Name, hc.Name, hc.AutoInc, got)
			}
			// generated expression
			var gx *schema.GeneratedExpr
			for _, at := range c.Attrs {
				if g, ok := at.(*schema.GeneratedExpr); ok {
					gx = g
				}
			}
			switch {
			case hc.Gen == "" && gx != nil:
				add("truth-genexpr", "table %q column %q: not generated, inspected AS %s", ht.Name, hc.Name, gx.Expr)
			case hc.Gen != "" && gx == nil:
				add("truth-genexpr", "table %q column %q: declared AS (%s), inspected none", ht.Name, hc.Name, hc.Gen)
			case hc.Gen != "":
				kind := hc.GenKind
				if kind == "" {
					kind = "VIRTUAL"
				}
				if stripOuter(squash(gx.Expr)) != stripOuter(squash(hc.Gen)) || gx.Type != kind {
					add("truth-genexpr", "table %q column %q: declared AS (%s) %s, inspected %s %s", ht.Name, hc.Name, hc.Gen, kind, gx.Expr, gx.Type)
				}
			}
		}
		// primary key order
		for _, p := range ht.PK {
			pkDecl = append(pkDecl, p.Col)
		}
		var pkGot []string
		if t.PrimaryKey != nil {
			for _, p := range t.PrimaryKey.Parts {
				if p.C != nil {
					pkGot = append(pkGot, p.C.Name)
				}
			}
		}
		if strings.Join(pkDecl, "\x1f") != strings.Join(pkGot, "\x1f") {
			add("truth-pk", "table %q: declared primary key %q, inspected %q", ht.Name, pkDecl, pkGot)
		}
		// checks (multiset of name + expression)
		var decl, got []string
		for j := range ht.Cols {
			if k := ht.Cols[j].Check; k != nil {
				decl = append(decl, k.Name+"\x1f"+squash("("+k.Expr+")"))
			}
		}
		for _, k := range ht.Checks {
			decl = append(decl, k.Name+"\x1f"+squash("("+k.Expr+")"))
		}
		for _, at := range t.Attrs {
			if k, ok := at.(*schema.Check); ok {
				got = append(got, k.Name+"\x1f"+squash(k.Expr))
			}
		}
		sort.Strings(decl)
		sort.Strings(got)
		if strings.Join(decl, "\x1e") != strings.Join(got, "\x1e") {
			add("truth-check", "table %q: declared checks %q, inspected %q", ht.Name, decl, got)
		}
		// foreign keys
		var fks []*hFK
		for j := range ht.Cols {
			if ht.Cols[j].Ref != nil {
				fks = append(fks, ht.Cols[j].Ref)
			}
		}
		for j := range ht.FKs {
			fks = append(fks, &ht.FKs[j])
		}
		if len(fks) != len(t.ForeignKeys) {
			add("truth-fk", "table %q: declared %d foreign keys, inspected %d", ht.Name, len(fks), len(t.ForeignKeys))
		}
		used := map[*schema.ForeignKey]bool{}
		for _, f := range fks {
			var hit *schema.ForeignKey
			for _, g := range t.ForeignKeys {
				if used[g] || g.RefTable == nil || g.RefTable.Name != f.RefTable ||
					colNames(g.Columns) != strings.Join(f.Cols, "\x1f") || colNames(g.RefColumns) != strings.Join(f.RefCols, "\x1f") {
					continue
				}
				od, ou := f.OnDel, f.OnUpd
				if od == "" {
					od = "NO ACTION"
				}
				if ou == "" {
					ou = "NO ACTION"
				}
				if string(g.OnDelete) != od || string(g.OnUpdate) != ou {
					continue
				}
				if f.Name != "" && g.Symbol != f.Name || f.Name == "" && !isDigits(g.Symbol) {
					continue
				}
				hit = g
				break
			}
			if hit == nil {
				var l []string
				for _, g := range t.ForeignKeys {
					l = append(l, fmt.Sprintf("%s(%s)->%s del=%s upd=%s", g.Symbol, strings.ReplaceAll(colNames(g.Columns), "\x1f", ","), g.RefTable.Name, g.OnDelete, g.OnUpdate))
				}
				add("truth-fkname", "table %q: declared fk %q (%s)->%s del=%q upd=%q not inspected as such; inspected: %s", ht.Name, f.Name, strings.Join(f.Cols, ","), f.RefTable, f.OnDel, f.OnUpd, strings.Join(l, " ; "))
			} else {
				used[hit] = true
			}
		}
		// indexes
		for j := range ht.Indexes {
			hi := &ht.Indexes[j]
			ix, ok := t.Index(hi.Name)
			if !ok {
				add("truth-index", "table %q: index %q not inspected", ht.Name, hi.Name)
				continue
			}
			if ix.Unique != hi.Unique || len(ix.Parts) != len(hi.Parts) {
				add("truth-index", "table %q index %q: unique/parts differ", ht.Name, hi.Name)
				continue
			}
			for k, p := range hi.Parts {
				g := ix.Parts[k]
				switch {
				case g.Desc != p.Desc:
					add("truth-index", "table %q index %q part %d: declared desc=%v, inspected %v", ht.Name, hi.Name, k, p.Desc, g.Desc)
				case p.Col != "" && (g.C == nil || g.C.Name != p.Col):
					add("truth-index", "table %q index %q part %d: declared column %q", ht.Name, hi.Name, k, p.Col)
				case p.Expr != "":
					x, _ := g.X.(*schema.RawExpr)
					if x == nil || stripOuter(squash(x.X)) != stripOuter(squash(p.Expr)) {
						gx := "<nil>"
						if x != nil {
							gx = x.X
						}
						add("truth-index-expr", "table %q index %q part %d: declared expression (%s), inspected %s", ht.Name, hi.Name, k, p.Expr, gx)
					}
				}
			}
			var pr sqlite.IndexPredicate
			has := false
			for _, at := range ix.Attrs {
				if p, ok := at.(*sqlite.IndexPredicate); ok {
					pr, has = *p, true
				}
			}
			if has != (hi.Where != "") || has && stripOuter(squash(pr.P)) != stripOuter(squash(hi.Where)) {
				add("truth-index-where", "table %q index %q: declared WHERE %q, inspected %q", ht.Name, hi.Name, hi.Where, pr.P)
			}
		}
	}
	return v
}

var reTypeDecl = regexp.MustCompile(`^\s*([A-Za-z ]+?)\s*(?:\(\s*(\d+)\s*(?:,\s*(\d+)\s*)?\))?\s*$`)

// typeParams: "numeric(10,2)" -> "numeric/10/2", "varchar(20)" -> "varchar/20/", "int" -> "int//"
func typeParams(decl string) string {
	m := reTypeDecl.FindStringSubmatch(strings.ToLower(decl))
	if m == nil {
		return "?" + decl
	}
	return m[1] + "/" + m[2] + "/" + m[3]
}

func inspectedTypeParams(t schema.Type) string {
	z := func(n int) string {
		if n == 0 {
			return ""
		}
		return fmt.Sprint(n)
	}
	switch t := t.(type) {
	case *schema.DecimalType:
		return strings.ToLower(t.T) + "/" + z(t.Precision) + "/" + z(t.Scale)
	case *schema.StringType:
		return strings.ToLower(t.T) + "/" + z(t.Size) + "/"
	case *schema.IntegerType:
		return strings.ToLower(t.T) + "//"
	case *schema.FloatType:
		return strings.ToLower(t.T) + "//"
	case *schema.BoolType:
		return strings.ToLower(t.T) + "//"
	case *schema.BinaryType:
		return strings.ToLower(t.T) + "//"
	case *schema.TimeType:
		return strings.ToLower(t.T) + "//"
	case *schema.JSONType:
		return strings.ToLower(t.T) + "//"
	case *schema.UUIDType:
		return strings.ToLower(t.T) + "//"
	case *sqlite.UserDefinedType:
		return strings.ToLower(t.T) + "//"
	}
	return fmt.Sprintf("%T", t)
}
