package main

// Stage "spec": the tie of Hcl/SpecModel.v.  Case = an inspected schema (token form);
// observation = the schema sqlite.EvalHCLBytes(sqlite.MarshalHCL(S0)) returns, in the
// same token form, or err / panic.

import (
	"fmt"
	"regexp"
	"strings"
	"sync"

	"ariga.io/atlas/sql/schema"

	"verifharness/internal/out"
	"verifharness/internal/rng"
)

var reDecimal = regexp.MustCompile(`^([+-]?)([0-9]+)\.([0-9]+)$`)

// numUnmodelled mirrors [num_kind v = NumUnmodelled] of SpecModel.v (the rule is stated there).
func numUnmodelled(v string) bool {
	body, signed, neg := v, false, false
	if len(v) > 0 && (v[0] == '-' || v[0] == '+') {
		body, signed, neg = v[1:], true, v[0] == '-'
	}
	if body == "" {
		return false
	}
	allDig := true
	for _, c := range []byte(body) {
		if c < '0' || c > '9' {
			allDig = false
		}
	}
	if allDig {
		return false
	}
	if !strings.ContainsRune("0123456789.iInN", rune(body[0])) {
		return false
	}
	m := reDecimal.FindStringSubmatch(v)
	if m == nil {
		return true
	}
	ip, fp := m[2], m[3]
	canonIP := ip == "0" || ip[0] != '0'
	lastNZ := fp[len(fp)-1] != '0'
	sig := len(ip) + len(fp)
	if ip == "0" {
		sig = len(strings.TrimLeft(fp, "0"))
		if sig == 0 {
			sig = 1
		}
	}
	return !(canonIP && lastNZ && sig <= 10 && (!signed || neg))
}

func defaultUnmodelled(s *schema.Schema) bool {
	for _, t := range s.Tables {
		for _, c := range t.Columns {
			l, ok := c.Default.(*schema.Literal)
			if !ok {
				continue
			}
			v := l.V
			lv := strings.ToLower(v)
			switch {
			case strings.HasPrefix(v, "0x"), strings.HasPrefix(v, "0X"), strings.HasPrefix(v, "0b"), strings.HasPrefix(v, "0B"),
				strings.HasPrefix(lv, "b'"), strings.HasPrefix(lv, "x'"):
			case len(v) >= 2 && (v[0] == '\'' || v[0] == '"'):
			case lv == "true", lv == "false":
			default:
				if numUnmodelled(v) {
					return true
				}
			}
		}
	}
	return false
}

type specCase struct {
	id, caseLn, obs, skipped, key string
	script                        string
	how                           string
	ast                           *hSchema
}

func (c *specCase) run() {
	db := freshDB()
	defer db.Close()
	if c.how == "atlas" {
		s, err := astToSchema(c.ast)
		if err != nil || applySchema(db, s) != nil {
			c.skipped = "engine-reject"
			return
		}
	} else if err := execScript(db, c.script); err != nil {
		c.skipped = "engine-reject"
		return
	}
	s0, _, err := inspectDB(db)
	if err != nil {
		c.skipped = "inspect-error"
		return
	}
	c.caseLn = tokSchema(s0)
	if defaultUnmodelled(s0) {
		c.obs = "unmodelled"
		return
	}
	b, err := hclExport(s0)
	if err != nil {
		if strings.HasPrefix(err.Error(), "panic") {
			c.obs = "panic"
		} else {
			c.obs = "err"
		}
		return
	}
	s1, err := hclImport(b)
	if err != nil {
		if strings.HasPrefix(err.Error(), "panic") {
			c.obs = "panic"
		} else {
			c.obs = "err"
		}
		return
	}
	c.obs = tokSchema(s1)
}

func runSpec(w *out.W, tier string) {
	w.Rule = "a case is non-trivial when the HCL round trip returned a schema with at least one table; distinct by feature-tag set"
	n := 500
	if tier == "thorough" {
		n = 5000
	}
	var cases []*specCase
	for i, sc := range corpusScripts {
		cases = append(cases, &specCase{id: fmt.Sprintf("k%03d", i), script: sc, how: "hand", key: "corpus"})
	}
	seed := uint64(rng.Seed())
	for i := 0; i < n; i++ {
		r := rng.New(seed*0x9E3779B97F4A7C15 ^ uint64(i)*0xD1B54A32D192ED03 ^ 0x59EC)
		// names the HCL text layer can carry as references (abstraction (a) of SpecModel.v):
		// plain and keyword-like word names only
		o := genOpts{nameLevel: i % 3, wild: i%5 == 0, atlasSafe: i%3 == 2}
		a := genSchemaAST(r, o)
		c := &specCase{id: fmt.Sprintf("s%05d", i), how: "hand", ast: a}
		if i%3 == 2 {
			c.how = "atlas"
		}
		st := newStyle(rng.New(r.U64()), a)
		st.noBracket = true // bracket quoting only changes what inspection recovers (stage regex)
		c.script = strings.Join(st.script(a), ";\n") + ";"
		c.key = c.how + "|" + a.tags()
		cases = append(cases, c)
	}
	var wg sync.WaitGroup
	sem := make(chan struct{}, 12)
	for _, c := range cases {
		wg.Add(1)
		sem <- struct{}{}
		go func(c *specCase) {
			defer wg.Done()
			defer func() { <-sem }()
			c.run()
		}(c)
	}
	wg.Wait()
	for _, c := range cases {
		if c.skipped != "" {
			w.Count("skipped:" + c.skipped)
			continue
		}
		w.Case(c.id, c.caseLn, []string{c.obs})
		switch c.obs {
		case "err", "panic", "unmodelled":
			w.Count("obs:" + c.obs)
		default:
			w.Count("obs:schema")
			w.NonTrivial(c.key)
		}
	}
}
