package main

// Stage "print": the tie of Sqlite/ExportPrint.v.  Case = one schema (token form:
// inspected, evaluated from HCL, or built from the generator's AST); observation = the
// commands sqlite PlanChanges emits for AddTable of every table (CREATE TABLE, then
// one CREATE INDEX per index), hex, or err.

import (
	"context"
	"fmt"
	"strings"
	"sync"

	"ariga.io/atlas/sql/migrate"
	"ariga.io/atlas/sql/schema"
	"ariga.io/atlas/sql/sqlite"

	"verifharness/internal/out"
	"verifharness/internal/rng"
)

func planCmds(s *schema.Schema) (obs string) { return planCmdsIndent(s, "") }

// planCmdsIndent: the same with PlanOptions.Indent (cmdlog.sqlInspect(report, indent), `{{ sql . "  " }}`).
func planCmdsIndent(s *schema.Schema, indent string) (obs string) {
	defer func() {
		if r := recover(); r != nil {
			obs = "panic"
		}
	}()
	var parts []string
	for _, t := range s.Tables {
		plan, err := sqlite.DefaultPlan.PlanChanges(context.Background(), "plan", []schema.Change{&schema.AddTable{T: t}}, func(o *migrate.PlanOptions) {
			o.Mode = migrate.PlanModeDump
			o.SchemaQualifier = new(string)
			o.Indent = indent
		})
		if err != nil {
			parts = append(parts, "err")
			continue
		}
		var cmds []string
		for _, c := range plan.Changes {
			if strings.HasPrefix(c.Cmd, "INSERT INTO sqlite_sequence") {
				continue
			}
			cmds = append(cmds, hx(c.Cmd))
		}
		parts = append(parts, strings.Join(cmds, ","))
	}
	if len(parts) == 0 {
		return "-"
	}
	return strings.Join(parts, ";")
}

type printCase struct {
	id, how, script string
	ast             *hSchema
	lines           [][2]string // (case, obs) per source
	indLines        [][2]string // the same schemas printed with an indent
	key             string
}

func (c *printCase) run() {
	add := func(s *schema.Schema) {
		if s == nil {
			return
		}
		ln := tokSchema(s) // tokens first: planning normalises index names in place
		c.lines = append(c.lines, [2]string{ln, planCmds(s)})
		// the indented text (tie of Sqlite/ExportPrintIndent.v): two spaces, a tab
		rest := ln[strings.Index(ln, " ")+1:]
		for _, ind := range []string{"  ", "\t"} {
			c.indLines = append(c.indLines, [2]string{"ind=" + hx(ind) + " " + rest, planCmdsIndent(s, ind)})
		}
	}
	if c.ast != nil {
		if s, err := astToSchema(c.ast); err == nil {
			add(s)
		}
	}
	db := freshDB()
	defer db.Close()
	if err := execScript(db, c.script); err != nil {
		return
	}
	s0, _, err := inspectDB(db)
	if err != nil {
		return
	}
	add(s0)
	s0b, _, _ := inspectDB(db)
	if b, err := hclExport(s0b); err == nil {
		if s1, err := hclImport(b); err == nil {
			add(s1)
		}
	}
}

func runPrint(w *out.W, tier string) {
	w.Rule = "a case is non-trivial when the planner produced a CREATE TABLE; distinct by feature-tag set and schema source (ast / inspected / evaluated)"
	n := 300
	if tier == "thorough" {
		n = 5000
	}
	var cases []*printCase
	for i, sc := range corpusScripts {
		cases = append(cases, &printCase{id: fmt.Sprintf("k%03d", i), script: sc, key: "corpus"})
	}
	seed := uint64(rng.Seed())
	for i := 0; i < n; i++ {
		r := rng.New(seed*0x9E3779B97F4A7C15 ^ uint64(i)*0xD1B54A32D192ED03 ^ 0x9817)
		o := genOpts{nameLevel: i % 4, wild: i%5 == 0, atlasSafe: i%2 == 0}
		a := genSchemaAST(r, o)
		c := &printCase{id: fmt.Sprintf("p%05d", i), ast: a}
		st := newStyle(rng.New(r.U64()), a)
		c.script = strings.Join(st.script(a), ";\n") + ";"
		c.key = a.tags()
		cases = append(cases, c)
	}
	var wg sync.WaitGroup
	sem := make(chan struct{}, 12)
	for _, c := range cases {
		wg.Add(1)
		sem <- struct{}{}
		go func(c *printCase) {
			defer wg.Done()
			defer func() { <-sem }()
			c.run()
		}(c)
	}
	wg.Wait()
	src := []string{"a", "b", "c"}
	for _, c := range cases {
		for k, ln := range c.lines {
			w.Case(c.id+src[k%3], ln[0], []string{ln[1]})
			if ln[1] != "-" && ln[1] != "panic" {
				w.NonTrivial(src[k%3] + "|" + c.key)
			}
			if strings.Contains(ln[1], "err") {
				w.Count("obs:has-err")
			}
		}
		for k, ln := range c.indLines {
			w.Case(fmt.Sprintf("%si%d", c.id, k), ln[0], []string{ln[1]})
			w.Count("indent-lines")
		}
	}
}
