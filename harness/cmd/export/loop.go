package main

// The property loop on the real engine, in process:
//   script -> db0 ; S0 = InspectSchema(db0)
//   HCL : MarshalHCL(S0) -> EvalHCLBytes = S1 ; SchemaDiff(S0,S1) = SchemaDiff(S1,S0) = []
//         apply S1 to a fresh engine (Atlas' own plan) -> db1 ; SchemaDiff(inspect db1, S0) both ways = []
//   SQL : sqlInspect(S0) executed on a fresh engine -> db2 ; SchemaDiff(inspect db2, S0) both ways = []
//   stable : a second inspection gives byte-identical HCL and SQL
//   raw : the catalogue as SQLite's own PRAGMAs report it is the same for db0, db1, db2
//         (this is the part of "describe exactly that database" Atlas' differ cannot see,
//         because both sides went through the same inspector).

import (
	"bytes"
	"context"
	"database/sql"
	"fmt"
	"strings"

	"ariga.io/atlas/sql/sqlite"
	"ariga.io/atlas/sql/verifx"
)

type loopResult struct {
	createErr, inspectErr                              error
	hcl                                                []byte
	hclMarshalErr, hclEvalErr, hclDiffErr, hclApplyErr error
	hclFwd, hclBack, hclDbFwd, hclDbBack               []string
	devErr                                             error
	devFwd, devBack                                    []string
	sql                                                string
	sqlPlanErr, sqlExecErr, sqlDiffErr                 error
	sqlFwd, sqlBack                                    []string
	hclStable, sqlStable                               bool
	raw0, rawHCL, rawSQL                               []string
	rawErr                                             error
	nTables                                            int
	historyMsg                                         string
	rawTables                                          []rawTable // SQLite's own catalogue of db0
	created                                            []string   // tables the SQL export creates
	scriptCase, scriptObs                              string     // tie of Sqlite/ExportRealm.v
	unboundCase, unboundObs                            string
}

func loopOnce(script string) *loopResult {
	r := &loopResult{}
	db0 := freshDB()
	defer db0.Close()
	if r.createErr = execScript(db0, script); r.createErr != nil {
		return r
	}
	loopOnDB(db0, r)
	return r
}

func loopOnDB(db0 *sql.DB, r *loopResult) {
	s0, drv, err := inspectDB(db0)
	if err != nil {
		r.inspectErr = err
		return
	}
	r.nTables = len(s0.Tables)
	if raw, err := rawCatalogue(db0); err == nil {
		r.raw0 = rawCanon(raw, false)
		r.rawTables = raw
	} else {
		r.rawErr = err
	}
	// ---- HCL
	r.hcl, r.hclMarshalErr = hclExport(s0)
	if r.hclMarshalErr == nil {
		s1, err := hclImport(r.hcl)
		r.hclEvalErr = err
		if err == nil {
			r.hclFwd, r.hclBack, r.hclDiffErr = diffBoth(drv, s0, s1)
			// the evaluated schema normalised on a dev database (sql/internal/sqlx/dev.go: the path of
			// `--dev-url` for the drivers that implement schema.Normalizer; through the verif hook here)
			if s1n, err := hclImport(r.hcl); err == nil {
				dev := freshDB()
				if ddrv, err := sqlite.Open(dev); err == nil {
					s1n.Name = "main"
					ns, err := verifx.NormalizeSchema(context.Background(), ddrv, s1n)
					if err != nil {
						r.devErr = err
					} else {
						s0n, _, _ := inspectDB(db0)
						r.devFwd, r.devBack, _ = diffBoth(drv, s0n, ns)
					}
				}
				dev.Close()
			}
			// apply to a fresh engine
			db1 := freshDB()
			s1b, _ := hclImport(r.hcl)
			if r.hclApplyErr = applySchema(db1, s1b); r.hclApplyErr == nil {
				s1db, _, err := inspectDB(db1)
				if err != nil {
					r.hclApplyErr = err
				} else {
					s0b, _, _ := inspectDB(db0)
					r.hclDbFwd, r.hclDbBack, _ = diffBoth(drv, s0b, s1db)
					if raw, err := rawCatalogue(db1); err == nil {
						r.rawHCL = rawCanon(raw, false)
					}
				}
			}
			db1.Close()
		}
	}
	// ---- SQL
	s0c, drv2, _ := inspectDB(db0)
	r.sql, _, r.sqlPlanErr = sqlExport(drv2, s0c, "")
	if r.sqlPlanErr == nil {
		r.created = createdTables(r.sql)
		db2 := freshDB()
		if r.sqlExecErr = execScript(db2, r.sql); r.sqlExecErr == nil {
			s2, _, err := inspectDB(db2)
			if err != nil {
				r.sqlExecErr = err
			} else {
				s0d, _, _ := inspectDB(db0)
				r.sqlFwd, r.sqlBack, r.sqlDiffErr = diffBoth(drv, s0d, s2)
				if raw, err := rawCatalogue(db2); err == nil {
					r.rawSQL = rawCanon(raw, false)
				}
			}
		}
		db2.Close()
	}
	if s0g, _, err := inspectDB(db0); err == nil {
		r.scriptCase, r.scriptObs = scriptTie(s0g, r.sql, r.sqlPlanErr, r.sqlExecErr)
		if len(s0g.Tables) > 0 {
			r.unboundCase, r.unboundObs = unboundTie(drv2, s0g)
		}
	}
	// ---- stable
	s0e, drv3, err := inspectDB(db0)
	if err == nil {
		h2, e2 := hclExport(s0e)
		r.hclStable = e2 == nil && r.hclMarshalErr == nil && bytes.Equal(h2, r.hcl) || (e2 != nil && r.hclMarshalErr != nil)
		s0f, _, _ := inspectDB(db0)
		q2, _, e3 := sqlExport(drv3, s0f, "")
		r.sqlStable = e3 == nil && r.sqlPlanErr == nil && q2 == r.sql || (e3 != nil && r.sqlPlanErr != nil)
	}
}

func joined(l []string) string { return strings.Join(l, " | ") }

type viol struct{ class, msg string }

func errStr(e error) string {
	if e == nil {
		return ""
	}
	s := e.Error()
	if len(s) > 160 {
		s = s[:160]
	}
	return strings.ReplaceAll(strings.ReplaceAll(s, "\n", " "), "\t", " ")
}

func firstDiff(a, b []string) string {
	am := map[string]bool{}
	for _, x := range a {
		am[x] = true
	}
	bm := map[string]bool{}
	for _, x := range b {
		bm[x] = true
	}
	var d []string
	for _, x := range a {
		if !bm[x] {
			d = append(d, "-"+strings.TrimSpace(x))
		}
	}
	for _, x := range b {
		if !am[x] {
			d = append(d, "+"+strings.TrimSpace(x))
		}
	}
	if len(d) > 4 {
		d = d[:4]
	}
	return strings.Join(d, " ")
}

// verdict evaluates the property on the observations of one loop.
func (r *loopResult) verdict() []viol {
	var v []viol
	add := func(c, m string) { v = append(v, viol{c, m}) }
	if r.createErr != nil {
		return nil // rejected by SQLite itself: not a database
	}
	if r.inspectErr != nil {
		add("inspect-error", errStr(r.inspectErr))
		return v
	}
	switch {
	case r.hclMarshalErr != nil:
		add("hcl-marshal-error", errStr(r.hclMarshalErr))
	case r.hclEvalErr != nil:
		add("hcl-eval-error", errStr(r.hclEvalErr))
	case r.hclDiffErr != nil:
		add("hcl-diff-error", errStr(r.hclDiffErr))
	default:
		if len(r.hclFwd)+len(r.hclBack) > 0 {
			add("hcl-diff", "S0->S1 "+joined(r.hclFwd)+" ; S1->S0 "+joined(r.hclBack))
		}
		if r.devErr != nil {
			add("hcl-apply-error", "dev: "+errStr(r.devErr))
		} else if len(r.devFwd)+len(r.devBack) > 0 {
			add("hcl-db-diff", "dev-normalised: db0->dev "+joined(r.devFwd)+" ; dev->db0 "+joined(r.devBack))
		}
		if r.hclApplyErr != nil {
			add("hcl-apply-error", errStr(r.hclApplyErr))
		} else {
			if len(r.hclDbFwd)+len(r.hclDbBack) > 0 {
				add("hcl-db-diff", "db0->db1 "+joined(r.hclDbFwd)+" ; db1->db0 "+joined(r.hclDbBack))
			}
			if d := firstDiff(r.raw0, r.rawHCL); d != "" {
				add("hcl-raw-catalogue", d)
			}
		}
	}
	switch {
	case r.sqlPlanErr != nil:
		add("sql-plan-error", errStr(r.sqlPlanErr))
	case r.sqlExecErr != nil:
		add("sql-exec-error", errStr(r.sqlExecErr))
	case r.sqlDiffErr != nil:
		add("sql-diff-error", errStr(r.sqlDiffErr))
	default:
		if len(r.sqlFwd)+len(r.sqlBack) > 0 {
			add("sql-diff", "db0->db2 "+joined(r.sqlFwd)+" ; db2->db0 "+joined(r.sqlBack))
		}
		if d := firstDiff(r.raw0, r.rawSQL); d != "" {
			add("sql-raw-catalogue", d)
		}
	}
	if r.sqlPlanErr == nil && r.rawErr == nil && strings.Join(r.created, "\x00") != strings.Join(rawNames(r.rawTables), "\x00") {
		add("sql-tables", fmt.Sprintf("the SQL export creates %q, the database holds %q", r.created, rawNames(r.rawTables)))
	}
	if r.historyMsg != "" {
		add("history-unstable", r.historyMsg)
	}
	if !r.hclStable {
		add("hcl-unstable", "second inspection prints different HCL")
	}
	if !r.sqlStable {
		add("sql-unstable", "second inspection prints different SQL")
	}
	return v
}
