package main

// Stage "regex": the tie of Sqlite/ExportModel.v.  One case = one table (its
// CREATE text as SQLite stores it, and what the PRAGMAs say about it); the
// observation is what the real Driver.InspectSchema recovered from the text:
// generated expressions, AUTOINCREMENT, partial-index predicates, foreign-key
// symbols, CHECK constraints - or the error it stopped with.

import (
	"database/sql"
	"encoding/hex"
	"fmt"
	"strings"
	"sync"

	"ariga.io/atlas/sql/schema"
	"ariga.io/atlas/sql/sqlite"

	"verifharness/internal/out"
	"verifharness/internal/rng"
)

func hx(s string) string {
	if s == "" {
		return "-"
	}
	return hex.EncodeToString([]byte(s))
}

func hxs(l []string, sep string) string {
	if len(l) == 0 {
		return "-"
	}
	var o []string
	for _, s := range l {
		o = append(o, hx(s))
	}
	return strings.Join(o, sep)
}

type regexCase struct {
	viol    []viol // oracle of this stage: predicate recovery against an independent reading of the statement
	id      string
	stmts   []string // CREATE TABLE first, then its indexes
	caseLn  string
	obs     string
	skipped string
	key     string
}

func classifyInspectErr(err error) string {
	m := err.Error()
	switch {
	case strings.Contains(m, "unexpected empty generation expression"):
		return "gen-empty"
	case strings.Contains(m, "generation expression for column"):
		return "gen-not-found"
	case strings.Contains(m, "was not found for AUTOINCREMENT"):
		return "autoinc-no-column"
	case strings.Contains(m, "unexpected primary key"):
		return "autoinc-unexpected-pk"
	case strings.Contains(m, "missing partial WHERE clause"):
		return "missing-where"
	}
	return "other:" + short(m, 80)
}

func (c *regexCase) run() {
	db := freshDB()
	defer db.Close()
	for _, s := range c.stmts {
		if _, err := db.Exec(s); err != nil {
			c.skipped = "engine-reject"
			return
		}
	}
	raw, err := rawCatalogue(db)
	if err != nil || len(raw) != 1 {
		c.skipped = "catalogue"
		return
	}
	t := raw[0]
	if strings.ContainsAny(t.Name, "'") {
		c.skipped = "table-name-quote" // the PRAGMA queries interpolate the name
		return
	}
	var cols, hidden, pk []string
	unmodelled := false
	for _, col := range t.Cols {
		cols = append(cols, col.Name)
		if col.Hidden >= 2 {
			hidden = append(hidden, col.Name)
			if !isWord(col.Name) {
				unmodelled = true
			}
		}
		if col.PK != 0 {
			pk = append(pk, col.Name)
		}
	}
	// the partial index statements in the order of inspect.go's indexesQuery
	var partials []string
	type xidx struct{ name, stmt string }
	var xidxs []xidx
	rows, err := db.Query(fmt.Sprintf("SELECT `il`.`name`, `il`.`unique`, `il`.`origin`, `il`.`partial`, `m`.`sql` FROM pragma_index_list('%s') AS il JOIN sqlite_master AS m ON il.name = m.name", t.Name))
	if err != nil {
		c.skipped = "index-query"
		return
	}
	for rows.Next() {
		var name, origin string
		var uniq, partial bool
		var stmt sql.NullString
		rows.Scan(&name, &uniq, &origin, &partial, &stmt)
		if origin != "pk" && partial {
			partials = append(partials, stmt.String)
		}
		if origin != "pk" {
			xidxs = append(xidxs, xidx{name, stmt.String})
		}
	}
	rows.Close()
	// indexes with expression parts: statement and, per part, expression? / desc?
	var xtoks []string
	for _, xi := range xidxs {
		if strings.ContainsAny(xi.name, "'") {
			c.skipped = "index-name-quote"
			return
		}
		prow, err := db.Query(fmt.Sprintf("SELECT name, desc FROM pragma_index_xinfo('%s') WHERE key = 1 ORDER BY seqno", xi.name))
		if err != nil {
			c.skipped = "index-xinfo"
			return
		}
		flags, hasX := "", false
		for prow.Next() {
			var n sql.NullString
			var d sql.NullBool
			prow.Scan(&n, &d)
			f := "c"
			if !n.Valid {
				f, hasX = "x", true
			}
			if d.Bool {
				f += "1"
			} else {
				f += "0"
			}
			flags += f
		}
		prow.Close()
		if hasX {
			xtoks = append(xtoks, hx(xi.stmt)+"|"+flags)
		}
	}
	xLn := "-"
	if len(xtoks) > 0 {
		xLn = strings.Join(xtoks, ";")
	}
	var fks []string
	for _, f := range t.FKs {
		fks = append(fks, fmt.Sprintf("%s|%s|%s|%s", hx(fmt.Sprint(f.ID)), hxs(f.Cols, ":"), hx(f.RefTable), hxs(f.RefCols, ":")))
	}
	fkLn := "-"
	if len(fks) > 0 {
		fkLn = strings.Join(fks, ";")
	}
	text := strings.TrimSpace(t.SQL)
	c.caseLn = fmt.Sprintf("%s %s %s %s %s %s %s", hx(text), hxs(cols, ","), hxs(hidden, ","), hxs(pk, ","), hxs(partials, ","), fkLn, xLn)
	// the real recovery
	s0, _, err := inspectDB(db)
	switch {
	case unmodelled:
		c.obs = "err=unmodelled"
	case err != nil:
		c.obs = "err=" + classifyInspectErr(err)
		if c.obs == "err=missing-where" {
			for _, st := range partials {
				_, at := sqlPredicateAt(st)
				if at < 0 || !strings.Contains(st, "WHERE") {
					c.viol = append(c.viol, viol{predicateCause(st, at), fmt.Sprintf("symptom=regex-predicate statement %q: inspection fails: missing partial WHERE clause", st)})
					break
				}
			}
		}
		if strings.HasPrefix(c.obs, "err=other:") && strings.Contains(err.Error(), "querying") {
			c.skipped = "pragma-query-error" // a name with ' interpolated into a PRAGMA query: outside the model
		}
	default:
		tb := s0.Tables[0]
		var gens, preds, syms, checks, xparts []string
		auto := "-"
		for _, col := range tb.Columns {
			for _, a := range col.Attrs {
				switch a := a.(type) {
				case *schema.GeneratedExpr:
					gens = append(gens, hx(col.Name)+":"+hx(a.Expr))
				case *sqlite.AutoIncrement:
					auto = hx(col.Name)
				}
			}
		}
		for _, ix := range tb.Indexes {
			for _, a := range ix.Attrs {
				if p, ok := a.(*sqlite.IndexPredicate); ok {
					preds = append(preds, hx(p.P))
				}
			}
			var xs []string
			for _, p := range ix.Parts {
				if r, ok := p.X.(*schema.RawExpr); ok {
					xs = append(xs, hx(r.X))
				}
			}
			if len(xs) > 0 {
				xparts = append(xparts, strings.Join(xs, ","))
			}
		}
		for _, f := range tb.ForeignKeys {
			syms = append(syms, hx(f.Symbol))
		}
		for _, a := range tb.Attrs {
			if k, ok := a.(*schema.Check); ok {
				checks = append(checks, hx(k.Name)+":"+hx(k.Expr))
			}
		}
		j := func(l []string) string {
			if len(l) == 0 {
				return "-"
			}
			return strings.Join(l, ",")
		}
		xp := "-"
		if len(xparts) > 0 {
			xp = strings.Join(xparts, ";")
		}
		c.obs = fmt.Sprintf("gens=%s auto=%s preds=%s fks=%s checks=%s xparts=%s", j(gens), auto, j(preds), j(syms), j(checks), xp)
		// predicates as recovered vs as written
		var got []string
		for _, ix := range tb.Indexes {
			for _, a := range ix.Attrs {
				if p, ok := a.(*sqlite.IndexPredicate); ok {
					got = append(got, p.P)
				}
			}
		}
		for k, st := range partials {
			want, at := sqlPredicateAt(st)
			if k < len(got) && normPredicate(got[k]) == normPredicate(want) {
				continue
			}
			g := "<none>"
			if k < len(got) {
				g = got[k]
			}
			c.viol = append(c.viol, viol{predicateCause(st, at), fmt.Sprintf("symptom=regex-predicate statement %q: predicate as written %q, recovered %q", st, want, g)})
		}
	}
}

// predicateCause: why strings.Index(stmt, "WHERE") does not land on the keyword - the two known input
// classes, or none of them.
func predicateCause(stmt string, at int) string {
	switch {
	case at >= 0 && stmt[at:at+5] != "WHERE":
		return "lowercase-where"
	case at >= 0 && strings.Contains(stmt[:at], "WHERE"):
		return "where-in-name"
	}
	return "unexplained"
}

// miniTexts: the exhaustive small domain - every feature the regexes recover x
// identifier shape x quoting x keyword case x spacing.
func miniTexts() [][]string {
	var out [][]string
	names := []string{"a", "ab", "a_1", "A", "c", "cx", "as", "check_x", "xcheck"}
	quotes := [][2]string{{"", ""}, {`"`, `"`}, {"`", "`"}, {"[", "]"}}
	spaces := []string{" ", "  ", "\n", "\t"}
	for _, n := range names {
		for qi, q := range quotes {
			if qi == 0 && (n == "as") {
				continue
			}
			id := q[0] + n + q[1]
			for _, lower := range []bool{false, true} {
				for _, sp := range spaces {
					k := func(s string) string {
						s = strings.ReplaceAll(s, " ", sp)
						if lower {
							return strings.ToLower(s)
						}
						return s
					}
					for _, tight := range []string{" (", "("} {
						// checks: inline, named inline, table-level named/unnamed, expression with quotes/parens
						out = append(out,
							[]string{k("CREATE TABLE") + " t" + tight + id + " int " + k("CHECK") + tight + "1 > 0))"},
							[]string{k("CREATE TABLE") + " t" + tight + "z int, " + k("CONSTRAINT") + sp + id + sp + k("CHECK") + tight + "z <> ')' AND (z > 0)))"},
							[]string{k("CREATE TABLE") + " t" + tight + "z int " + k("CONSTRAINT") + sp + id + sp + k("CHECK") + tight + "z IN (1, 2)), y int, " + k("CHECK") + tight + "y <> \"(\"))"},
							// generated
							[]string{k("CREATE TABLE") + " t" + tight + "z int, " + id + " int " + k("AS") + tight + "z + 1))"},
							[]string{k("CREATE TABLE") + " t" + tight + "z int, " + id + " int " + k("GENERATED ALWAYS AS") + tight + "(z * 2)) " + k("STORED") + ", w int)"},
							[]string{k("CREATE TABLE") + " t" + tight + "z int, " + id + "x int " + k("AS") + tight + "z + 1) " + k("STORED") + ", " + id + " int " + k("AS") + tight + "z + 2) " + k("STORED") + ")"},
							// autoincrement
							[]string{k("CREATE TABLE") + " t" + tight + id + " " + k("INTEGER PRIMARY KEY AUTOINCREMENT") + ", z int)"},
							[]string{k("CREATE TABLE") + " t" + tight + "z int, " + id + " " + k("INTEGER NOT NULL PRIMARY KEY AUTOINCREMENT") + ")"},
							[]string{k("CREATE TABLE") + " t" + tight + id + " " + k("INTEGER PRIMARY KEY") + ", z int)"},
							[]string{k("CREATE TABLE") + " t" + tight + id + " " + k("INT PRIMARY KEY") + ", autoincrement_z int)"},
							// foreign keys
							[]string{k("CREATE TABLE") + " t" + tight + "z int " + k("CONSTRAINT") + sp + id + sp + k("REFERENCES") + " p" + tight + "q))"},
							[]string{k("CREATE TABLE") + " t" + tight + "z int, y int, " + k("CONSTRAINT") + sp + id + sp + k("FOREIGN KEY") + tight + "z, y) " + k("REFERENCES") + " p" + tight + "q, r))"},
							[]string{k("CREATE TABLE") + " t" + tight + id + " int " + k("REFERENCES") + " p" + tight + "q), " + k("CONSTRAINT") + " f2 " + k("FOREIGN KEY") + tight + id + ") " + k("REFERENCES") + " p" + tight + "r))"},
							// expression index
							[]string{"CREATE TABLE t (" + id + " int, z int)", k("CREATE INDEX") + " i " + k("ON") + " t" + tight + "(" + id + " + 1)" + sp + k("DESC") + ", z, (z || ')'))"},
							[]string{"CREATE TABLE " + id + " (y int, z int)", k("CREATE UNIQUE INDEX") + " i " + k("ON") + sp + id + tight + "(max(y, 1)), z" + sp + k("DESC") + ")" + sp + k("WHERE") + sp + "y > 0"},
							// partial index
							[]string{"CREATE TABLE t (" + id + " int)", k("CREATE INDEX") + " i " + k("ON") + " t" + tight + id + ") " + k("WHERE") + sp + id + " > 0"},
						)
					}
				}
			}
		}
	}
	// partial-index predicates that contain the letters "where" themselves: in a string literal, in a
	// column name, twice; the keyword in every case; index / table / column names with and without WHERE
	preds := []string{"k <> 'NOWHERE'", "note = 'where?'", "whereabouts IS NOT NULL", "a = 'where' AND whereabouts > 0",
		"k <> 'a WHERE b' OR k IS NULL", "note <> 'WHERE'", "(whereabouts > 0)", "WHERE_y > 0", "a > 0"}
	for _, pr := range preds {
		for _, kw := range []string{"WHERE", "where", "Where"} {
			for _, sp := range []string{" ", "\n", "  "} {
				for _, ixn := range []string{"i", "i_where", "i_WHERE", "\"i WHERE\""} {
					for _, part := range []string{"a", "whereabouts", "WHERE_y", "(a + 1)", "k DESC"} {
						out = append(out, []string{
							"CREATE TABLE t (a int, k text, note text, whereabouts int, WHERE_y int)",
							"CREATE INDEX " + ixn + " ON t (" + part + ")" + sp + kw + sp + pr,
						})
					}
				}
			}
		}
	}
	// the error branches that need a particular text
	out = append(out,
		[]string{"CREATE TABLE t (z text, g text AS (z || 'AS (((') STORED)"},                                             // unexpected empty generation expression
		[]string{"CREATE TABLE t (z text, g numeric(10,2) AS (z + 1) STORED)"},                                            // generation expression not found
		[]string{"CREATE TABLE t (id integer PRIMARY KEY, b text CHECK (b <> 'x, y integer PRIMARY KEY AUTOINCREMENT'))"}, // column "y" was not found for AUTOINCREMENT
		[]string{"CREATE TABLE t (id integer PRIMARY KEY, b integer CHECK (b <> 'PRIMARY KEY AUTOINCREMENT'))"},           // unexpected primary key
		[]string{"CREATE TABLE t (a int, id integer PRIMARY KEY CHECK (a <> 'AUTOINCREMENT'), b int)"},                    // phantom AUTOINCREMENT
	)
	return out
}

func runRegex(w *out.W, tier string) {
	w.Rule = "a case is non-trivial when the real inspection recovered at least one generated expression, AUTOINCREMENT, predicate, named foreign key or CHECK, or stopped with one of the modelled errors; distinct by observation shape x feature key"
	n := 500
	if tier == "thorough" {
		n = 5000
	}
	var cases []*regexCase
	for i, st := range miniTexts() {
		cases = append(cases, &regexCase{id: fmt.Sprintf("m%05d", i), stmts: st, key: fmt.Sprintf("mini%d", i%32)})
	}
	w.Exhaust = true
	w.Set("exhaustive_bound", "9 names x 4 quotings x 2 keyword cases x 4 spacings x 2 paren styles x 16 statement templates; predicates: 9 predicate texts x 3 keyword cases x 3 spacings x 4 index names x 5 key parts")
	for i, sc := range corpusScripts {
		cases = append(cases, &regexCase{id: fmt.Sprintf("k%03d", i), stmts: splitFirstTable(sc), key: "corpus"})
	}
	seed := uint64(rng.Seed())
	for i := 0; i < n; i++ {
		r := rng.New(seed*0x9E3779B97F4A7C15 ^ uint64(i)*0xD1B54A32D192ED03 ^ 0x4E6)
		o := genOpts{nameLevel: i % 4, wild: i%5 == 0, atlasSafe: i%3 == 2}
		a := genSchemaAST(r, o)
		st := newStyle(rng.New(r.U64()), a)
		if i%3 == 2 {
			// the planner's own text: create with Atlas, read the stored statements back
			s, err := astToSchema(a)
			if err != nil {
				continue
			}
			db := freshDB()
			if applySchema(db, s) == nil {
				for ti := range a.Tables {
					var stmts []string
					rows, err := db.Query("SELECT sql FROM sqlite_master WHERE tbl_name = ? AND sql IS NOT NULL ORDER BY type DESC, rowid", a.Tables[ti].Name)
					if err == nil {
						for rows.Next() {
							var s string
							rows.Scan(&s)
							stmts = append(stmts, s)
						}
						rows.Close()
					}
					if len(stmts) > 0 {
						cases = append(cases, &regexCase{id: fmt.Sprintf("a%05d_%d", i, ti), stmts: stmts, key: "atlas|" + a.tags()})
					}
				}
			}
			db.Close()
			continue
		}
		for ti := range a.Tables {
			t := &a.Tables[ti]
			stmts := []string{st.createTable(t)}
			for j := range t.Indexes {
				stmts = append(stmts, st.createIndex(t, &t.Indexes[j]))
			}
			cases = append(cases, &regexCase{id: fmt.Sprintf("h%05d_%d", i, ti), stmts: stmts, key: "hand|" + a.tags()})
		}
	}
	var wg sync.WaitGroup
	sem := make(chan struct{}, 12)
	for _, c := range cases {
		wg.Add(1)
		sem <- struct{}{}
		go func(c *regexCase) {
			defer wg.Done()
			defer func() { <-sem }()
			c.run()
		}(c)
	}
	wg.Wait()
	for _, c := range cases {
		if c.skipped != "" {
			w.Count("skipped:" + c.skipped)
			continue
		}
		w.Case(c.id, c.caseLn, []string{c.obs})
		for _, v := range c.viol {
			w.Count("viol:" + v.class + "/regex-predicate")
			w.Violation(c.id, v.class, v.msg)
		}
		shape := c.obs
		if i := strings.Index(shape, "="); strings.HasPrefix(shape, "err=") && i > 0 {
			w.Count("obs:" + shape)
		} else {
			var parts []string
			for _, f := range strings.Fields(c.obs) {
				kv := strings.SplitN(f, "=", 2)
				if kv[1] != "-" {
					parts = append(parts, kv[0])
				}
			}
			shape = strings.Join(parts, "+")
			w.Count("obs:recovered[" + shape + "]")
		}
		if shape != "" && shape != "err=unmodelled" {
			w.NonTrivial(shape + "|" + c.key)
		}
	}
}

// splitFirstTable: the statements of a corpus script that concern its first table.
func splitFirstTable(sc string) []string {
	var out []string
	for _, s := range strings.Split(sc, ";") {
		s = strings.TrimSpace(s)
		if s == "" {
			continue
		}
		if len(out) == 0 || strings.HasPrefix(strings.ToUpper(s), "CREATE INDEX") || strings.HasPrefix(strings.ToUpper(s), "CREATE UNIQUE INDEX") {
			if len(out) > 0 && strings.HasPrefix(strings.ToUpper(s), "CREATE TABLE") {
				continue
			}
			out = append(out, s)
		}
	}
	return out
}
