package main

// Stage "cli": the same loop through the real binary ($ATLAS_BIN):
//   atlas schema inspect --url sqlite://db0            (HCL)  -> atlas schema apply --auto-approve on db1
//   atlas schema inspect --format '{{ sql . }}'        (SQL)  -> executed by go-sqlite3 on db2
//   atlas schema diff db0<->db1, db0<->db2 : "Schemas are synced" in both directions
//   inspect twice: byte-identical output.
// A CLI symptom is attributed through the in-process loop of the same case
// (stage "loop"); a symptom only the CLI shows is reported as cause "cli-only".

import (
	"database/sql"
	"fmt"
	"os"
	"path/filepath"
	"strings"
	"sync"

	"verifharness/internal/clirun"
	"verifharness/internal/out"
	"verifharness/internal/rng"
)

type cliResult struct {
	createErr error
	syms      []viol
	raw       []rawTable // SQLite's own catalogue of db0
	created   []string   // tables `schema inspect --format '{{ sql . }}'` creates
	hasDump   bool
	// tie of Sqlite/ExportRealm.v: the object sequence of `{{ sql . }}` and of `{{ sql . "  " }}`
	scriptCase, scriptObs, indentObs string
}

func fileDB(path string) *sql.DB {
	db, err := sql.Open("sqlite3", "file:"+path+"?_fk=1")
	if err != nil {
		panic(err)
	}
	db.SetMaxOpenConns(1)
	return db
}

const synced = "Schemas are synced, no changes to be made."

func cliLoop(dir, script, history string, post []string) *cliResult {
	r := &cliResult{}
	os.MkdirAll(dir, 0o755)
	db0 := fileDB(filepath.Join(dir, "db0"))
	r.createErr = execScript(db0, script)
	for _, p := range post {
		if r.createErr == nil {
			_, r.createErr = db0.Exec(p)
		}
	}
	if r.createErr != nil {
		db0.Close()
		return r
	}
	if strings.HasPrefix(history, "dangling-") {
		history = "" // the history is part of the creation
	}
	add := func(c, m string) { r.syms = append(r.syms, viol{c, short(m, 300)}) }
	insp := func(extra ...string) clirun.Result {
		return clirun.Run(dir, nil, append([]string{"schema", "inspect", "--url", "sqlite://db0"}, extra...)...)
	}
	// history: the CLI's output before and after the engine's bookkeeping (rows, ANALYZE, ...)
	var before, beforeSQL clirun.Result
	if history != "" && history != "fresh" {
		db0.Close()
		before, beforeSQL = insp(), insp("--format", "{{ sql . }}")
		db0 = fileDB(filepath.Join(dir, "db0"))
		applyHistory(db0, history)
	}
	raw0 := []string{}
	if raw, err := rawCatalogue(db0); err == nil {
		raw0 = rawCanon(raw, false)
		r.raw = raw
	}
	db0.Close()
	rawOf := func(name string) []string {
		db := fileDB(filepath.Join(dir, name))
		defer db.Close()
		raw, err := rawCatalogue(db)
		if err != nil {
			return []string{"error " + err.Error()}
		}
		return rawCanon(raw, false)
	}
	h1 := insp()
	if history != "" && history != "fresh" && before.Exit == 0 && h1.Exit == 0 && before.Stdout != h1.Stdout {
		add("history-unstable", "`schema inspect` prints different HCL before / after "+history)
	}
	hclOK := true
	if h1.Exit != 0 {
		if strings.Contains(h1.Stderr, "error calling MarshalHCL") {
			// the inspection worked, its HCL export failed: the SQL export is still examined
			add("hcl-marshal-error", h1.Stderr)
			hclOK = false
		} else {
			add("inspect-error", h1.Stderr)
			return r
		}
	}
	if hclOK {
		r.hclPart(dir, h1, insp, raw0, rawOf, add)
	}
	q1 := insp("--format", "{{ sql . }}")
	if q1.Exit != 0 {
		add("sql-plan-error", q1.Stderr)
		return r
	}
	r.created, r.hasDump = createdTables(q1.Stdout), r.raw != nil
	if r.hasDump && strings.Join(r.created, "\x00") != strings.Join(rawNames(r.raw), "\x00") {
		add("sql-tables", fmt.Sprintf("the SQL export creates %q, the database holds %q", r.created, rawNames(r.raw)))
	}
	q2 := insp("--format", "{{ sql . }}")
	if q2.Stdout != q1.Stdout {
		add("sql-unstable", "second `schema inspect --format sql` prints different SQL")
	}
	if history != "" && history != "fresh" && beforeSQL.Exit == 0 && beforeSQL.Stdout != q1.Stdout {
		add("history-unstable", "`schema inspect --format sql` prints different SQL before / after "+history)
	}
	db2 := fileDB(filepath.Join(dir, "db2"))
	err := execScript(db2, q1.Stdout)
	db2.Close()
	if dbi := fileDB(filepath.Join(dir, "db0")); true {
		if si, _, ierr := inspectDB(dbi); ierr == nil {
			r.scriptCase, r.scriptObs = scriptTie(si, q1.Stdout, nil, err)
		}
		dbi.Close()
	}
	if err != nil {
		add("sql-exec-error", err.Error())
	} else {
		nsym := len(r.syms)
		defer func() {
			// the same export with an indent argument (cmdlog.sqlInspect(report, indent)): only when the plain one is clean
			if len(r.syms) != 0 || nsym != 0 || r.scriptCase == "" {
				return
			}
			q3 := insp("--format", `{{ sql . "  " }}`)
			if q3.Exit != 0 {
				add("sql-indent-plan-error", q3.Stderr)
				return
			}
			r.indentObs = "objs " + strings.Join(exportObjects(q3.Stdout), ",") + " exec=ok"
			if len(exportObjects(q3.Stdout)) == 0 {
				r.indentObs = "objs - exec=ok"
			}
			// cmdlog.sqlInspect hands the argument to the planner: the CLI's text = the in-process export with PlanOptions.Indent
			if dbi := fileDB(filepath.Join(dir, "db0")); true {
				if si, drvi, ierr := inspectDB(dbi); ierr == nil {
					if want, _, e := sqlExport(drvi, si, "  "); e == nil && want != q3.Stdout {
						add("sql-indent-cli-differs", "`{{ sql . \"  \" }}` is not the planner's text with Indent = two spaces: "+firstDiff(strings.Split(want, "\n"), strings.Split(q3.Stdout, "\n")))
					}
				}
				dbi.Close()
			}
			db4 := fileDB(filepath.Join(dir, "db4"))
			e4 := execScript(db4, q3.Stdout)
			db4.Close()
			if e4 != nil {
				add("sql-indent-exec-error", e4.Error())
				return
			}
			d1 := clirun.Run(dir, nil, "schema", "diff", "--from", "sqlite://db0", "--to", "sqlite://db4")
			d2 := clirun.Run(dir, nil, "schema", "diff", "--from", "sqlite://db4", "--to", "sqlite://db0")
			if d1.Exit != 0 || d2.Exit != 0 || strings.TrimSpace(d1.Stdout) != synced || strings.TrimSpace(d2.Stdout) != synced {
				add("sql-indent-diff", "db0->db4: "+d1.Stdout+d1.Stderr+" ; db4->db0: "+d2.Stdout+d2.Stderr)
			}
			if d := firstDiff(raw0, rawOf("db4")); d != "" {
				add("sql-indent-raw-catalogue", d)
			}
			// the indented text is what SQLite stores: the regex recovery must read it back (inspect again, export again)
			// (compared with the export of db2, the database created from the plain export: same statements, other white space)
			q5 := clirun.Run(dir, nil, "schema", "inspect", "--url", "sqlite://db4", "--format", "{{ sql . }}")
			q6 := clirun.Run(dir, nil, "schema", "inspect", "--url", "sqlite://db2", "--format", "{{ sql . }}")
			if q5.Exit != 0 || q6.Exit != 0 || q5.Stdout != q6.Stdout {
				add("sql-indent-reinspect", "the database created from the indented export and the one created from the plain export are exported differently: "+firstDiff(strings.Split(q6.Stdout+q6.Stderr, "\n"), strings.Split(q5.Stdout+q5.Stderr, "\n")))
			}
		}()
		d1 := clirun.Run(dir, nil, "schema", "diff", "--from", "sqlite://db0", "--to", "sqlite://db2")
		d2 := clirun.Run(dir, nil, "schema", "diff", "--from", "sqlite://db2", "--to", "sqlite://db0")
		if d1.Exit != 0 || d2.Exit != 0 || strings.TrimSpace(d1.Stdout) != synced || strings.TrimSpace(d2.Stdout) != synced {
			add("sql-diff", "db0->db2: "+d1.Stdout+d1.Stderr+" ; db2->db0: "+d2.Stdout+d2.Stderr)
		}
		if d := firstDiff(raw0, rawOf("db2")); d != "" {
			add("sql-raw-catalogue", d)
		}
	}
	// ... and the SQL export applied by the CLI itself (desired state = SQL file, replayed on a dev database)
	if err == nil {
		os.WriteFile(filepath.Join(dir, "s.sql"), []byte(q1.Stdout), 0o644)
		a3 := clirun.Run(dir, nil, "schema", "apply", "--url", "sqlite://db3", "--to", "file://s.sql", "--dev-url", "sqlite://dev?mode=memory", "--auto-approve")
		if a3.Exit != 0 {
			add("sql-exec-error", "schema apply --to file://s.sql: "+a3.Stderr+" "+a3.Stdout)
		} else {
			d1 := clirun.Run(dir, nil, "schema", "diff", "--from", "sqlite://db0", "--to", "sqlite://db3")
			d2 := clirun.Run(dir, nil, "schema", "diff", "--from", "sqlite://db3", "--to", "sqlite://db0")
			if d1.Exit != 0 || d2.Exit != 0 || strings.TrimSpace(d1.Stdout) != synced || strings.TrimSpace(d2.Stdout) != synced {
				add("sql-diff", "via schema apply: db0->db3: "+d1.Stdout+d1.Stderr+" ; db3->db0: "+d2.Stdout+d2.Stderr)
			}
			if d := firstDiff(raw0, rawOf("db3")); d != "" {
				add("sql-raw-catalogue", "via schema apply: "+d)
			}
		}
	}
	return r
}

// hclPart: the HCL export applied to db1 and compared.
func (r *cliResult) hclPart(dir string, h1 clirun.Result, insp func(...string) clirun.Result, raw0 []string, rawOf func(string) []string, add func(c, m string)) {
	h2 := insp()
	if h2.Stdout != h1.Stdout {
		add("hcl-unstable", "second `schema inspect` prints different HCL")
	}
	os.WriteFile(filepath.Join(dir, "s.hcl"), []byte(h1.Stdout), 0o644)
	ap := clirun.Run(dir, nil, "schema", "apply", "--url", "sqlite://db1", "--to", "file://s.hcl", "--auto-approve")
	if ap.Exit != 0 {
		if strings.Contains(ap.Stderr, "Error: ") && !strings.Contains(ap.Stderr+ap.Stdout, "executing statement") && !strings.Contains(ap.Stderr+ap.Stdout, "create ") {
			add("hcl-eval-error", ap.Stderr)
		} else {
			add("hcl-apply-error", ap.Stderr+" "+ap.Stdout)
		}
	} else {
		d1 := clirun.Run(dir, nil, "schema", "diff", "--from", "sqlite://db0", "--to", "sqlite://db1")
		d2 := clirun.Run(dir, nil, "schema", "diff", "--from", "sqlite://db1", "--to", "sqlite://db0")
		if d1.Exit != 0 || d2.Exit != 0 || strings.TrimSpace(d1.Stdout) != synced || strings.TrimSpace(d2.Stdout) != synced {
			add("hcl-db-diff", "db0->db1: "+d1.Stdout+d1.Stderr+" ; db1->db0: "+d2.Stdout+d2.Stderr)
		}
		if d := firstDiff(raw0, rawOf("db1")); d != "" {
			add("hcl-raw-catalogue", d)
		}
	}
	// the HCL export as a desired state normalised on a dev database (sql/internal/sqlx/dev.go)
	if ap.Exit == 0 {
		dev := "sqlite://dev?mode=memory"
		v1 := clirun.Run(dir, nil, "schema", "diff", "--from", "file://s.hcl", "--to", "sqlite://db0", "--dev-url", dev)
		v2 := clirun.Run(dir, nil, "schema", "diff", "--from", "sqlite://db0", "--to", "file://s.hcl", "--dev-url", dev)
		if v1.Exit != 0 || v2.Exit != 0 || strings.TrimSpace(v1.Stdout) != synced || strings.TrimSpace(v2.Stdout) != synced {
			add("hcl-db-diff", "dev-url: hcl->db0: "+v1.Stdout+v1.Stderr+" ; db0->hcl: "+v2.Stdout+v2.Stderr)
		}
	}
}

func runCLI(w *out.W, tier string) {
	w.Rule = "a case is non-trivial when SQLite accepted the schema and `atlas schema inspect` ran; distinct by feature-tag set"
	n := 30
	if tier == "thorough" {
		n = 400
	}
	base, err := os.MkdirTemp("", "c03cli")
	if err != nil {
		panic(err)
	}
	defer os.RemoveAll(base)
	type cc struct {
		lc  *loopCase
		res *cliResult
	}
	var cases []*cc
	for i, sc := range corpusScripts {
		cases = append(cases, &cc{lc: &loopCase{id: fmt.Sprintf("corpus%03d", i), how: "hand", script: sc}})
	}
	seed := uint64(rng.Seed())
	for i := 0; i < n; i++ {
		r := rng.New(seed*0x9E3779B97F4A7C15 ^ uint64(i)*0xD1B54A32D192ED03 ^ 0xC11)
		o := genOpts{nameLevel: i % 3, atlasSafe: i%2 == 0}
		hist := histories[i%len(histories)]
		a := genSchemaAST(r, o)
		if hist == "autoinc-rows-analyze" {
			for try := 0; try < 40 && !a.Tags["autoinc"]; try++ {
				a = genSchemaAST(r, o)
			}
		}
		c := &loopCase{id: fmt.Sprintf("c%05d", i), how: "hand", ast: a, history: hist}
		c.styleSeed = r.U64()
		st := newStyle(rng.New(c.styleSeed), a)
		c.script = strings.Join(st.script(a), ";\n") + ";"
		cases = append(cases, &cc{lc: c})
	}
	// dangling references: the whole grid once (thorough: 8 variants)
	nd := 1
	if tier == "thorough" {
		nd = 5
	}
	for v := 0; v < nd; v++ {
		for gi, d := range danglingGrid() {
			r := rng.New(seed*0x9E3779B97F4A7C15 ^ uint64(v*100+gi)*0xD1B54A32D192ED03 ^ 0xDAC)
			cases = append(cases, &cc{lc: newDanglingCase(fmt.Sprintf("cd%02d_%02d", v, gi), "hand", r, d, v+gi%2)})
		}
	}
	var wg sync.WaitGroup
	sem := make(chan struct{}, 12)
	for i, c := range cases {
		wg.Add(1)
		sem <- struct{}{}
		go func(i int, c *cc) {
			defer wg.Done()
			defer func() { <-sem }()
			c.res = cliLoop(filepath.Join(base, fmt.Sprintf("k%d", i)), c.lc.script, c.lc.history, c.lc.post)
			if c.res.createErr == nil && len(c.res.syms) > 0 {
				c.lc.run() // in-process loop + attribution
			}
		}(i, c)
	}
	wg.Wait()
	for _, c := range cases {
		if c.res.createErr != nil {
			w.Count("engine-reject")
			w.ImplOnly(c.lc.id, "engine-reject "+short(c.lc.script, 200))
			continue
		}
		tags := ""
		if c.lc.ast != nil {
			tags = c.lc.ast.tags()
		}
		if c.res.scriptCase != "" {
			w.Case(c.lc.id+"s", c.res.scriptCase, []string{c.res.scriptObs})
			if c.res.indentObs != "" && strings.HasPrefix(c.res.scriptCase, "script ") {
				w.Case(c.lc.id+"i", c.res.scriptCase, []string{c.res.indentObs})
				w.Count("indent-export")
			}
		}
		if c.res.hasDump {
			cl, ob := dumpTie(c.res.raw, c.res.created)
			w.Case(c.lc.id, cl, []string{ob})
		} else {
			w.ImplOnly(c.lc.id, fmt.Sprintf("cli viol=%d %s", len(c.res.syms), short(c.lc.script, 300)))
		}
		w.NonTrivial(tags + "|" + c.lc.history + "|" + c.lc.id[:1])
		w.Count("history:" + c.lc.history)
		for _, v := range c.res.syms {
			cause := "cli-only"
			if c.lc.res != nil {
				inproc := map[string]bool{}
				for _, x := range append(c.lc.res.verdict(), c.lc.truth...) {
					inproc[x.class] = true
				}
				alias := map[string][]string{
					"hcl-db-diff":       {"hcl-db-diff", "hcl-diff"},
					"hcl-apply-error":   {"hcl-apply-error", "hcl-eval-error", "hcl-marshal-error"},
					"hcl-eval-error":    {"hcl-eval-error", "hcl-apply-error", "hcl-marshal-error"},
					"inspect-error":     {"inspect-error", "hcl-marshal-error"},
					"hcl-marshal-error": {"hcl-marshal-error", "hcl-eval-error"},
					"sql-plan-error":    {"sql-plan-error"},
					"sql-exec-error":    {"sql-exec-error"},
					"sql-diff":          {"sql-diff"},
					"hcl-raw-catalogue": {"hcl-raw-catalogue"},
					"sql-raw-catalogue": {"sql-raw-catalogue"},
					"history-unstable":  {"history-unstable"},
					"sql-tables":        {"sql-tables"},
				}
				for _, k := range alias[v.class] {
					if inproc[k] {
						if c.lc.ast == nil {
							cause = "corpus"
						} else if cz := c.lc.cause[k]; cz != "" {
							cause = cz
						}
						break
					}
				}
			}
			w.Count("viol:" + cause + "/cli-" + v.class)
			w.Violation(c.lc.id, cause, fmt.Sprintf("symptom=cli-%s how=cli history=%s %s ;; sql=%s", v.class, c.lc.history, v.msg, short(c.lc.fullScript(), 700)))
		}
	}
}
