package main

import (
	"fmt"
	"strings"
	"sync"

	"verifharness/internal/out"
)

// ---- C13: a failing statement, per tx-mode / directive / count -------------

func cloneFiles(fs []tfile) []tfile {
	c := make([]tfile, len(fs))
	for i, f := range fs {
		c[i] = f
		c[i].Stmts = append([]int{}, f.Stmts...)
	}
	return c
}

func genC13(w *out.W, tier string, mu *sync.Mutex) []job {
	shapes := [][]int{{1}, {2}, {3}, {1, 1}, {2, 2}, {1, 3}, {3, 2}, {1, 1, 1}, {2, 1, 2}}
	if tier == "thorough" {
		shapes = allShapes
	}
	w.Exhaust = true
	w.Rule = fmt.Sprintf("exhaustive: %d directory shapes x every position of one failing statement x tx-mode {none,file,all} x {no directive, a 'txmode none' / 'txmode file' directive on the failing file or on the file before it, an invalid directive} x count argument {all, 1, 2}; scenario = apply (fails), apply again (fails the same way), fix the statement + re-hash + apply, apply; plus double failures (statement a fails, a fixed and statement b > a of the same file fails on the resumed run, all fixed, apply) on files of >= 3 statements x {none, file, all, file + 'txmode none' directive, none + 'txmode file' directive}; real CLI on a real SQLite file. Non-trivial = the first apply really failed; distinct by the whole tuple", len(shapes))
	var jobs []job
	id := 0
	for _, sh := range shapes {
		base := shapeFiles(sh)
		for fi := range base {
			for bi := range base[fi].Stmts {
				for _, m := range []string{"none", "file", "all"} {
					type variant struct {
						dirOn int
						dir   string
					}
					vars := []variant{{-1, ""}, {fi, "none"}, {fi, "file"}}
					if fi > 0 {
						vars = append(vars, variant{fi - 1, "none"})
					}
					if bi == 0 && fi == len(base)-1 {
						vars = append(vars, variant{fi, "bogus"}, variant{fi, "all"})
					}
					for _, v := range vars {
						for _, n := range []int{0, 1, 2} {
							if n > 0 && (len(sh) < 2 || v.dir != "") {
								continue
							}
							id++
							cid := fmt.Sprintf("c13-%d", id)
							broken := cloneFiles(base)
							broken[fi].Bad = bi
							fixed := cloneFiles(base)
							if v.dirOn >= 0 {
								broken[v.dirOn].Directive = v.dir
								fixed[v.dirOn].Directive = v.dir
							}
							steps := []step{
								{Mode: m, N: n, Files: broken},
								{Mode: m, N: n, Files: broken},
								{Mode: m, Files: fixed},
								{Mode: m, Files: fixed},
							}
							sh, fi, bi, m, v, n := sh, fi, bi, m, v, n
							jobs = append(jobs, job{id: cid, steps: steps, post: func(id string, steps []step, res []obs) {
								w.Count("mode:" + m)
								w.Count("directive:" + v.dir)
								w.Count(fmt.Sprintf("count:%d", n))
								w.Count("first:" + res[0].Exit)
								if res[0].Exit == "fail" {
									w.NonTrivial(fmt.Sprintf("%v|%d|%d|%s|%v|%d", sh, fi, bi, m, v, n))
								}
								oracleC13(w, id, sh, base, fi, bi, m, v.dirOn, v.dir, n, res)
							}})
						}
					}
				}
			}
		}
	}
	// a resumed run that fails again later in the same file, then the full fix:
	// fail at statement a, fix it partially (now statement b > a fails), fix all
	dshapes := [][]int{{3}, {1, 3}, {3, 2}}
	if tier == "thorough" {
		dshapes = [][]int{{3}, {4}, {1, 3}, {3, 2}, {2, 4}, {1, 3, 1}}
	}
	for _, sh := range dshapes {
		base := shapeFiles(sh)
		for fi := range base {
			for a := range base[fi].Stmts {
				for b := a + 1; b < len(base[fi].Stmts); b++ {
					for _, mv := range [][2]string{{"none", ""}, {"file", ""}, {"all", ""}, {"file", "none"}, {"none", "file"}} {
						id++
						cid := fmt.Sprintf("c13-%d", id)
						mk := func(bad int) []tfile {
							fs := cloneFiles(base)
							fs[fi].Bad = bad
							fs[fi].Directive = mv[1]
							return fs
						}
						m := mv[0]
						steps := []step{{Mode: m, Files: mk(a)}, {Mode: m, Files: mk(b)}, {Mode: m, Files: mk(-1)}, {Mode: m, Files: mk(-1)}}
						sh, fi, a, b, mv := sh, fi, a, b, mv
						jobs = append(jobs, job{id: cid, steps: steps, post: func(id string, steps []step, res []obs) {
							w.Count("double-failure:" + mv[0] + "/" + mv[1])
							if res[0].Exit == "fail" && res[1].Exit == "fail" {
								w.NonTrivial(fmt.Sprintf("double|%v|%d|%d|%d|%v", sh, fi, a, b, mv))
							}
							oracleC13Double(w, id, sh, base, fi, a, b, mv[0], mv[1], res)
						}})
					}
				}
			}
		}
	}
	jobs = append(jobs, genC13Crash(w, tier)...)
	return jobs
}

// oracleC13Double: statement a of file fi fails, then (a fixed) statement b > a
// fails, then everything is fixed. Each failure leaves the state the tx-mode
// prescribes, and the fixed directory reaches the state of a run without failure.
func oracleC13Double(w *out.W, id string, shape []int, base []tfile, fi, a, b int, mode, dir string, res []obs) {
	desc := fmt.Sprintf("shape=%v file%d fails at stmt%d, then at stmt%d, then fixed; mode=%s directive=%q s0{%s} s1{%s} s2{%s}", shape, fi+1, a+1, b+1, mode, dir,
		res[0].String(false), res[1].String(false), res[2].String(false))
	em, _ := effectiveMode(mode, dir)
	var before []int
	var beforeRevs []string
	if mode != "all" {
		for i := 0; i < fi; i++ {
			before = append(before, base[i].Stmts...)
			beforeRevs = append(beforeRevs, fmt.Sprintf("%s:%d:%d:0", base[i].Ver, len(base[i].Stmts), len(base[i].Stmts)))
		}
	}
	f := base[fi]
	for si, bad := range []int{a, b} {
		want := append([]int{}, before...)
		wantRevs := append([]string{}, beforeRevs...)
		if em == "none" {
			want = append(want, f.Stmts[:bad]...)
			wantRevs = append(wantRevs, fmt.Sprintf("%s:%d:%d:1", f.Ver, bad, len(f.Stmts)))
		}
		o := res[si]
		var got []string
		for _, r := range o.Revs {
			p := strings.Split(r, ":")
			got = append(got, fmt.Sprintf("%s:%s:%s:%s", p[0], p[1], p[2], p[4]))
		}
		if o.Exit != "fail" || fmt.Sprint(o.Journal) != fmt.Sprint(want) || fmt.Sprint(got) != fmt.Sprint(wantRevs) {
			w.Violation(id, "double-failure-state", fmt.Sprintf("step %d: exit=%s journal=%v revisions=%v want fail %v %v: %s stderr=%s", si, o.Exit, o.Journal, got, want, wantRevs, desc, o.Stderr))
			return
		}
	}
	all := flat(base)
	if res[2].Exit != "ok" || fmt.Sprint(res[2].Journal) != fmt.Sprint(all) {
		w.Violation(id, "fix-rerun", fmt.Sprintf("after fixing both statements: exit=%s journal=%v want %v: %s stderr=%s", res[2].Exit, res[2].Journal, all, desc, res[2].Stderr))
		return
	}
	for i, r := range res[2].Revs {
		p := strings.Split(r, ":")
		if i >= len(base) || p[0] != base[i].Ver || p[1] != p[2] || p[1] != fmt.Sprint(len(base[i].Stmts)) || p[3] != "0" || p[4] != "0" {
			w.Violation(id, "fix-rerun-history", fmt.Sprintf("after fixing both statements revisions=%v: %s", res[2].Revs, desc))
			return
		}
	}
	if res[3].Exit != "ok" || fmt.Sprint(res[3].Journal) != fmt.Sprint(all) {
		w.Violation(id, "not-settled", fmt.Sprintf("a further apply changed something: %s", desc))
	}
}

func effectiveMode(global, directive string) (string, bool) {
	switch directive {
	case "":
		return global, true
	case "none", "file":
		if directive == global {
			return global, true
		}
		if global == "all" {
			return "", false
		}
		return directive, true
	}
	return "", false // "all" or unknown value in a directive
}

// oracleC13 states the failure-atomicity part of C13 on the CLI observations.
func oracleC13(w *out.W, id string, shape []int, base []tfile, fi, bi int, mode string, dirOn int, dir string, n int, res []obs) {
	desc := fmt.Sprintf("shape=%v failing=file%d/stmt%d mode=%s directive(file%d)=%q count=%d s0{%s} s1{%s} s2{%s}", shape, fi+1, bi+1, mode, dirOn+1, dir, n,
		res[0].String(false), res[1].String(false), res[2].String(false))
	all := flat(base)
	// Which files does the first invocation reach, and in which mode does each run?
	limit := len(base)
	if n > 0 && n < limit {
		limit = n
	}
	var want []int       // expected journal after the failing apply
	var wantRevs []string // expected revisions (version:applied:total:err)
	failed := false
	directiveErr := false
	var txOpen []int // effects inside the still-open "all" transaction
	var txRevs []string
	for i := 0; i < limit && !failed && !directiveErr; i++ {
		d := ""
		if i == dirOn {
			d = dir
		}
		em, ok := effectiveMode(mode, d)
		if !ok {
			directiveErr = true
			break
		}
		f := base[i]
		if i != fi {
			rev := fmt.Sprintf("%s:%d:%d:0", f.Ver, len(f.Stmts), len(f.Stmts))
			if em == "all" {
				txOpen = append(txOpen, f.Stmts...)
				txRevs = append(txRevs, rev)
			} else {
				want = append(want, f.Stmts...)
				wantRevs = append(wantRevs, rev)
			}
			continue
		}
		failed = true
		switch em {
		case "none":
			want = append(want, f.Stmts[:bi]...)
			wantRevs = append(wantRevs, fmt.Sprintf("%s:%d:%d:1", f.Ver, bi, len(f.Stmts)))
		case "file", "all":
			// rolled back: nothing of this file (all: nothing of the whole command)
		}
	}
	if !failed && !directiveErr {
		// the failing file is beyond the count: plain success of the first `limit` files
		want = append(want, txOpen...)
		wantRevs = append(wantRevs, txRevs...)
	}
	check := func(si int, o obs, wantExit string) bool {
		if o.Exit != wantExit {
			w.Violation(id, "exit-status", fmt.Sprintf("step %d exit=%s want %s: %s stderr=%s", si, o.Exit, wantExit, desc, o.Stderr))
			return false
		}
		if fmt.Sprint(o.Journal) != fmt.Sprint(want) {
			w.Violation(id, "data-not-atomic", fmt.Sprintf("step %d journal=%v want %v: %s", si, o.Journal, want, desc))
			return false
		}
		var got []string
		for _, r := range o.Revs {
			p := strings.Split(r, ":")
			got = append(got, fmt.Sprintf("%s:%s:%s:%s", p[0], p[1], p[2], p[4]))
		}
		if fmt.Sprint(got) != fmt.Sprint(wantRevs) {
			w.Violation(id, "history-not-atomic", fmt.Sprintf("step %d revisions=%v want %v: %s", si, got, wantRevs, desc))
			return false
		}
		return true
	}
	wantExit := "fail"
	if !failed && !directiveErr {
		wantExit = "ok"
	}
	if !check(0, res[0], wantExit) {
		return
	}
	if failed || directiveErr {
		// running the same command again fails the same way and changes nothing
		if !check(1, res[1], wantExit) {
			return
		}
	}
	if directiveErr || dir == "bogus" || dir == "all" {
		return // the fixed directory still carries the invalid directive
	}
	if _, ok := effectiveMode(mode, dir); !ok {
		return
	}
	// fixing the file and re-running reaches the state of a run without failure
	if res[2].Exit != "ok" || fmt.Sprint(res[2].Journal) != fmt.Sprint(all) {
		w.Violation(id, "fix-rerun", fmt.Sprintf("after fixing the statement: exit=%s journal=%v want %v: %s stderr=%s", res[2].Exit, res[2].Journal, all, desc, res[2].Stderr))
		return
	}
	for i, r := range res[2].Revs {
		p := strings.Split(r, ":")
		if i >= len(base) || p[0] != base[i].Ver || p[1] != p[2] || p[1] != fmt.Sprint(len(base[i].Stmts)) || p[4] != "0" {
			w.Violation(id, "fix-rerun-history", fmt.Sprintf("after fixing the statement revisions=%v: %s", res[2].Revs, desc))
			return
		}
	}
	if res[3].Exit != "ok" || fmt.Sprint(res[3].Journal) != fmt.Sprint(all) {
		w.Violation(id, "not-settled", fmt.Sprintf("a further apply changed something: %s", desc))
	}
}
