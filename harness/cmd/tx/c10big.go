package main

import (
	"fmt"

	"verifharness/internal/out"
)

// ---- C10 round 3: crashes inside a transaction that has outgrown the page cache
//
// SQLite keeps a small transaction entirely in its page cache: a process killed
// while such a transaction is open never wrote a page of it to the database
// file. Once the cache (2 MB by default) is full, dirty pages are spilled to the
// database file (after the rollback journal was synced), so the killed process
// leaves a database file that CONTAINS uncommitted pages plus a hot journal, and
// "the file never ran" depends on the journal being played back. Every migration
// statement here is still `INSERT INTO journal VALUES (id)` (so the model sees an
// ordinary directory), but an AFTER INSERT trigger on `journal` also writes a
// 40 kB row into `big` and updates one of the 400 3-kB rows of `pre` -- both tables (and
// their rows) existed before the file ran. All of that is engine-internal: the
// model's assumption "a killed process loses its open transaction" is what is
// being tested, the property is judged by the oracle.

const bigBlob = 40000

var bigSetup = []string{
	"CREATE TABLE big (id INTEGER, b BLOB)",
	fmt.Sprintf("INSERT INTO big VALUES (0, zeroblob(%d))", bigBlob),
	// 400 pre-existing rows of 3 kB (one or two per page): statement id updates row id, so every
	// statement dirties a page of committed content that then goes cold and is spilled
	"CREATE TABLE pre (k INTEGER PRIMARY KEY, n INTEGER, pad BLOB)",
	"WITH RECURSIVE c(x) AS (SELECT 1 UNION ALL SELECT x+1 FROM c WHERE x < 400) INSERT INTO pre SELECT x, 0, zeroblob(3000) FROM c",
	fmt.Sprintf("CREATE TRIGGER journal_big AFTER INSERT ON journal BEGIN INSERT INTO big VALUES (new.id, zeroblob(%d)); UPDATE pre SET n = n + 1 WHERE k = new.id; END", bigBlob),
}

var bigProbe = []string{
	"PRAGMA integrity_check",
	"SELECT count(*), ifnull(sum(length(b)),0) FROM big",
	"SELECT sum(n), count(*), sum(length(pad)) FROM pre",
}

func bigExtra(journal []int) string {
	n := len(journal)
	return fmt.Sprintf("ok;%d|%d;%d|400|1200000", n+1, (n+1)*bigBlob, n)
}

func genC10Big(w *out.W, tier string) []job {
	nBig := 150 // 150 x 40 kB = 6 MB in one transaction, three times the default page cache
	shapes := [][]int{{nBig}, {1, nBig}}
	modes := []string{"file", "all"}
	if tier == "thorough" {
		shapes = [][]int{{nBig}, {1, nBig}, {nBig, 2}, {300}}
		modes = []string{"file", "all", "none"}
	}
	var jobs []job
	id := 0
	for _, sh := range shapes {
		for _, m := range modes {
			files := shapeFiles(sh)
			label := fmt.Sprintf("large transaction shape %v", sh)
			ref, err := runScenarioX([]step{{Mode: m, Files: files}}, bigSetup, bigProbe)
			id++
			refID := fmt.Sprintf("c10big-%d", id)
			if err != nil {
				w.Violation(refID, "harness", err.Error())
				continue
			}
			record(w, refID, []step{{Mode: m, Files: files}}, ref)
			want := flat(files)
			if ref[0].Exit != "ok" || fmt.Sprint(ref[0].Journal) != fmt.Sprint(want) || ref[0].Extra != bigExtra(want) {
				w.Violation(refID, "reference-run", fmt.Sprintf("fault-free apply of %s mode %s: exit=%s journal=%d statements probe=%s want %s stderr=%s", label, m, ref[0].Exit, len(ref[0].Journal), ref[0].Extra, bigExtra(want), ref[0].Stderr))
				continue
			}
			total := map[string]int{}
			for _, p := range ref[0].Points {
				total[p]++
			}
			type cp struct {
				p string
				k int
			}
			// inside the big file: after half of its statements, after its last statement,
			// after its last revision write, right before its commit; and (control) after it
			cps := []cp{
				{"after-exec", total["after-exec"] - nBig/2},
				{"after-exec", total["after-exec"]},
				{"before-exec", total["before-exec"]},
				{"after-write", total["after-write"]},
				{"before-commit", total["before-commit"]},
				{"after-commit", total["after-commit"]},
			}
			if sh[len(sh)-1] != nBig && sh[0] >= nBig {
				// big file first: crash points counted from the start
				cps = []cp{{"after-exec", sh[0] / 2}, {"after-exec", sh[0]}, {"before-commit", 1}, {"after-commit", 1}, {"after-exec", total["after-exec"]}}
			}
			for _, c := range cps {
				if c.k < 1 || total[c.p] < c.k { // (no commit points without a transaction)
					continue
				}
				id++
				cid := fmt.Sprintf("c10big-%d", id)
				p, k, m := c.p, c.k, m
				steps := []step{{Mode: m, CrashPoint: p, CrashK: k, Files: files}, {Mode: m, Files: files}, {Mode: m, Files: files}}
				jobs = append(jobs, job{id: cid, steps: steps, setup: bigSetup, probe: bigProbe, post: func(id string, steps []step, res []obs) {
					w.Count("big:mode:" + m)
					w.Count("big:point:" + p)
					// the point of the exercise: the killed process had spilled pages of its open
					// transaction into the database file and left a hot journal
					spilled := res[0].Exit == "crash" && res[0].HotJournal > 0 && res[0].DBSize > 1<<20
					if spilled {
						w.Count("big:killed-with-spilled-pages-and-hot-journal")
						w.NonTrivial(fmt.Sprintf("%s|%s|%s|%d|spilled", label, m, p, k))
					} else if res[0].Exit == "crash" {
						w.NonTrivial(fmt.Sprintf("%s|%s|%s|%d", label, m, p, k))
					}
					v0 := w.Viol
					oracleC10(w, id, label, files, m, p, k, res, inFlight(ref[0].Points, p, k))
					// the engine side of every statement (trigger rows in tables that existed before)
					// follows the journal exactly, and the file is structurally sound
					for si, o := range res {
						if o.Extra != bigExtra(o.Journal) {
							w.Violation(id, "big-side-effects", fmt.Sprintf("%s mode=%s crash=%s:%d step %d: integrity;big rows|bytes;pre sum(n)|rows|bytes = %s, want %s for %d journal rows (hot-journal=%d db=%d)", label, m, p, k, si, o.Extra, bigExtra(o.Journal), len(o.Journal), res[0].HotJournal, res[0].DBSize))
							return
						}
					}
					if m != "none" && (p == "after-exec" || p == "before-commit" || p == "after-write" || p == "before-exec") && !spilled && k > 20 && w.Viol == v0 {
						w.Violation(id, "harness", fmt.Sprintf("big-not-spilled: %s mode=%s crash=%s:%d: the scenario is meant to kill a transaction that has spilled pages, but hot-journal=%d bytes, db file=%d bytes, journal rows=%d (generator no longer reaches the class)", label, m, p, k, res[0].HotJournal, res[0].DBSize, len(res[0].Journal)))
					}
				}})
			}
		}
	}
	return jobs
}
