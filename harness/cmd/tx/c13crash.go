package main

import (
	"fmt"
	"strings"

	"verifharness/internal/out"
)

// ---- C13 round 5: `migrate apply --tx-mode none` INTERRUPTED mid-file ----------------------------
//
// C13 says that without a transaction the database holds exactly the successful prefix, *recorded
// as such*, and that re-running completes. A failing statement is recorded by Execute's deferred
// revision write; a process that is killed (or whose context is cancelled so that the deferred
// write is lost too) never reaches it: what is recorded then is what the per-statement progress
// write stored. Scenario: a file that runs without a transaction (global none, or a `txmode none`
// directive under --tx-mode file) is killed after >= 1 of its statements succeeded, at
//   before-exec of statement p >= 2       (p-1 executed, nothing in flight),
//   after-exec of statement p >= 1        (p executed, statement p in flight),
//   the progress write after statement p  (before-write: in flight; after-write: nothing in flight),
// then apply (optionally with a LATER statement of the file failing, then fixed), apply.
// Oracle (C13's, on the real database file): journal after the kill = exactly the executed prefix;
// revision row of the file: applied = number of statements really executed (one less allowed only
// while the last one is in flight), total = statements of the file, partial hashes = applied;
// the re-run completes (or fails at the later statement with the prefix recorded + error, and
// completes after the fix) with every statement exactly once (the in-flight one at most twice).

type c13crashCase struct {
	files  []tfile
	mode   string
	fi     int    // interrupted file
	p      int    // 1-based statement of the file the point belongs to
	point  string // hook point name
	k      int    // occurrence
	exec   int    // statements of file fi really executed when the process dies
	flight bool   // statement `exec` executed, its progress not yet stored
	later  int    // >= 0: on the re-run statement `later` (0-based, > exec-1) of the file fails, then it is fixed
	label  string
}

func genC13Crash(w *out.W, tier string) []job {
	shapes := [][]int{{2}, {3}, {1, 3}, {3, 2}}
	if tier == "thorough" {
		shapes = [][]int{{2}, {3}, {4}, {1, 3}, {3, 2}, {2, 2}, {2, 1, 2}, {1, 3, 1}}
	}
	var jobs []job
	id := 0
	n := 0
	for _, sh := range shapes {
		for _, mv := range [][2]string{{"none", ""}, {"file", "none"}} {
			for fi := range sh {
				if sh[fi] < 2 {
					continue
				}
				files := shapeFiles(sh)
				if mv[1] != "" {
					files[fi].Directive = mv[1]
				}
				label := fmt.Sprintf("shape %v --tx-mode %s directive(file%d)=%q", sh, mv[0], fi+1, mv[1])
				// uncrashed reference run: where are the progress writes of file fi?
				ref, err := runScenario([]step{{Mode: mv[0], Files: files}})
				id++
				refID := fmt.Sprintf("c13cr-%d", id)
				if err != nil {
					w.Violation(refID, "harness", err.Error())
					continue
				}
				record(w, refID, []step{{Mode: mv[0], Files: files}}, ref)
				if ref[0].Exit != "ok" || fmt.Sprint(ref[0].Journal) != fmt.Sprint(flat(files)) {
					w.Violation(refID, "reference-run", fmt.Sprintf("fault-free apply of %s: exit=%s journal=%v stderr=%s", label, ref[0].Exit, ref[0].Journal, ref[0].Stderr))
					continue
				}
				before := 0 // statements of the files before fi
				for i := 0; i < fi; i++ {
					before += sh[i]
				}
				var cs []c13crashCase
				for p := 1; p <= sh[fi]; p++ {
					if p >= 2 {
						cs = append(cs, c13crashCase{point: "before-exec", k: before + p, p: p, exec: p - 1})
					}
					cs = append(cs, c13crashCase{point: "after-exec", k: before + p, p: p, exec: p, flight: true})
					// the progress write that follows after-exec:(before+p) in the reference run, if the code has one
					occ := map[string]int{}
					for i, q := range ref[0].Points {
						occ[q]++
						if q == "after-exec" && occ[q] == before+p && i+2 < len(ref[0].Points) &&
							ref[0].Points[i+1] == "before-write" && ref[0].Points[i+2] == "after-write" && p < sh[fi] {
							// (after the LAST statement the next write may be the closing one: without a progress
							// write the row would be complete; only p < n is unambiguous)
							cs = append(cs,
								c13crashCase{point: "before-write", k: occ["before-write"] + 1, p: p, exec: p, flight: true},
								c13crashCase{point: "after-write", k: occ["after-write"] + 1, p: p, exec: p})
						}
					}
				}
				for _, c := range cs {
					c.files, c.mode, c.fi, c.label, c.later = files, mv[0], fi, label, -1
					variants := []c13crashCase{c}
					// the re-run meets a failing statement later in the same file (only where nothing is in flight)
					if !c.flight && c.exec < sh[fi] && c.point == "before-exec" {
						l := c
						l.later = sh[fi] - 1
						variants = append(variants, l)
					}
					for _, c := range variants {
						c := c
						id++
						n++
						cid := fmt.Sprintf("c13cr-%d", id)
						var steps []step
						steps = append(steps, step{Mode: c.mode, CrashPoint: c.point, CrashK: c.k, Files: c.files})
						if c.later >= 0 {
							broken := cloneFiles(c.files)
							broken[c.fi].Bad = c.later
							steps = append(steps, step{Mode: c.mode, Files: broken})
						}
						steps = append(steps, step{Mode: c.mode, Files: c.files}, step{Mode: c.mode, Files: c.files})
						jobs = append(jobs, job{id: cid, steps: steps, post: func(id string, steps []step, res []obs) {
							w.Count("interrupt:" + c.point)
							w.Count("interrupt-mode:" + c.mode)
							if c.later >= 0 {
								w.Count("interrupt:then-later-statement-fails")
							}
							if res[0].Exit == "crash" && c.exec >= 1 {
								w.NonTrivial(fmt.Sprintf("interrupt|%s|%s|%d|%d", c.label, c.point, c.k, c.later))
							}
							oracleC13Crash(w, id, c, res)
						}})
					}
				}
			}
		}
	}
	w.Rule += fmt.Sprintf(". Round 5: %d interrupt scenarios (c13cr-*): a file that runs without a transaction (--tx-mode none, or a 'txmode none' directive under --tx-mode file) of %d directory shapes is KILLED (crash hook, exit 137: the deferred revision write is lost too) after >= 1 successful statement at before-exec of statement p >= 2, after-exec of every statement and before/after the progress write that follows it; then apply (in a variant: with the last statement of the file failing, then fixed), apply. Oracle: journal = executed prefix, revision row applied = statements really executed (one less only for the statement in flight), re-run completes exactly once", n, len(shapes))
	return jobs
}

func oracleC13Crash(w *out.W, id string, c c13crashCase, res []obs) {
	var ss []string
	for i, o := range res {
		ss = append(ss, fmt.Sprintf("s%d{%s}", i, o.String(false)))
	}
	desc := fmt.Sprintf("%s interrupted at %s:%d (file%d statement %d; %d executed, in flight=%v) later-failing=%d %s", c.label, c.point, c.k, c.fi+1, c.p, c.exec, c.flight, c.later, strings.Join(ss, " "))
	if res[0].Exit != "crash" {
		w.Violation(id, "no-crash", "the crash point was not reached: "+desc)
		return
	}
	f := c.files[c.fi]
	var prefix []int
	var prevRevs []string
	for i := 0; i < c.fi; i++ {
		prefix = append(prefix, c.files[i].Stmts...)
		prevRevs = append(prevRevs, fmt.Sprintf("%s:%d:%d:0", c.files[i].Ver, len(c.files[i].Stmts), len(c.files[i].Stmts)))
	}
	short := func(revs []string) []string { // version:applied:total:err
		var got []string
		for _, r := range revs {
			p := strings.Split(r, ":")
			got = append(got, fmt.Sprintf("%s:%s:%s:%s", p[0], p[1], p[2], p[4]))
		}
		return got
	}
	// state the interruption leaves: exactly the executed prefix ...
	want := append(append([]int{}, prefix...), f.Stmts[:c.exec]...)
	if fmt.Sprint(res[0].Journal) != fmt.Sprint(want) {
		w.Violation(id, "interrupt-data", fmt.Sprintf("journal after the interruption %v want %v: %s", res[0].Journal, want, desc))
		return
	}
	// ... recorded as such
	got := short(res[0].Revs)
	okRow := func(applied int) bool {
		return fmt.Sprint(got) == fmt.Sprint(append(append([]string{}, prevRevs...), fmt.Sprintf("%s:%d:%d:0", f.Ver, applied, len(f.Stmts))))
	}
	if !(okRow(c.exec) || (c.flight && okRow(c.exec-1))) {
		w.Violation(id, "interrupt-not-recorded", fmt.Sprintf("%d statements of file %s were executed (in flight: %v) but the revisions are %v: %s", c.exec, f.Ver, c.flight, got, desc))
		return
	}
	if len(res[0].Revs) == c.fi+1 {
		p := strings.Split(res[0].Revs[c.fi], ":")
		if p[1] != p[2] && p[3] != p[1] {
			w.Violation(id, "interrupt-not-recorded", fmt.Sprintf("partial revision of file %s carries %s partial hashes for %s applied statements: %s", f.Ver, p[3], p[1], desc))
			return
		}
	}
	si := 1
	if c.later >= 0 {
		// the re-run fails at the later statement: prefix up to it, recorded with the error
		o := res[si]
		want := append(append([]int{}, prefix...), f.Stmts[:c.later]...)
		wantRevs := append(append([]string{}, prevRevs...), fmt.Sprintf("%s:%d:%d:1", f.Ver, c.later, len(f.Stmts)))
		if o.Exit != "fail" || fmt.Sprint(o.Journal) != fmt.Sprint(want) || fmt.Sprint(short(o.Revs)) != fmt.Sprint(wantRevs) {
			w.Violation(id, "interrupt-rerun", fmt.Sprintf("re-run with statement %d failing: exit=%s journal=%v revisions=%v want fail %v %v: %s", c.later+1, o.Exit, o.Journal, short(o.Revs), want, wantRevs, desc))
			return
		}
		si++
	}
	// re-running (the fixed directory) completes: every statement exactly once, the in-flight one at most twice
	o := res[si]
	all := flat(c.files)
	if o.Exit != "ok" {
		w.Violation(id, "interrupt-rerun", "re-running after the interruption failed: "+desc+" stderr="+o.Stderr)
		return
	}
	okJournal := fmt.Sprint(o.Journal) == fmt.Sprint(all)
	if !okJournal && c.flight {
		var rep []int
		for _, s := range all {
			rep = append(rep, s)
			if s == f.Stmts[c.exec-1] {
				rep = append(rep, s)
			}
		}
		okJournal = fmt.Sprint(o.Journal) == fmt.Sprint(rep)
	}
	if !okJournal {
		w.Violation(id, "interrupt-rerun", fmt.Sprintf("after the re-run journal=%v want %v (only a statement in flight may repeat): %s", o.Journal, all, desc))
		return
	}
	for i, r := range o.Revs {
		p := strings.Split(r, ":")
		if i >= len(c.files) || len(o.Revs) != len(c.files) || p[0] != c.files[i].Ver || p[1] != p[2] || p[1] != fmt.Sprint(len(c.files[i].Stmts)) || p[4] != "0" {
			w.Violation(id, "fix-rerun-history", fmt.Sprintf("after the re-run revisions=%v: %s", o.Revs, desc))
			return
		}
	}
	last := res[si+1]
	if last.Exit != "ok" || fmt.Sprint(last.Journal) != fmt.Sprint(o.Journal) || fmt.Sprint(last.Revs) != fmt.Sprint(o.Revs) {
		w.Violation(id, "not-settled", "a further apply changed something: "+desc)
	}
}
