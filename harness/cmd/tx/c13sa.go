package main

import (
	"context"
	"fmt"
	"path/filepath"
	"strings"

	"ariga.io/atlas/sql/schema"
	"ariga.io/atlas/sql/sqlclient"
	"ariga.io/atlas/sql/sqlite"

	"verifharness/internal/clirun"
)

// countChanges: how many schema.Change values does the diff between the target
// and the desired state consist of (inspected and diffed through the library,
// not through the command under test). A desired state given as SQL is
// materialised in a scratch file by the independent client first.
func countChanges(tmp, db, desired string, hcl bool, exclude string) (int, []string, error) {
	ctx := context.Background()
	cur, err := sqlclient.Open(ctx, "sqlite://"+db)
	if err != nil {
		return 0, nil, err
	}
	defer cur.Close()
	var iopts *schema.InspectOptions
	if exclude != "" {
		iopts = &schema.InspectOptions{Exclude: []string{exclude}}
	}
	from, err := cur.InspectSchema(ctx, "main", iopts)
	if err != nil {
		return 0, nil, err
	}
	var to *schema.Schema
	if hcl {
		var r schema.Realm
		if err := sqlite.EvalHCLBytes([]byte(desired), &r, nil); err != nil {
			return 0, nil, err
		}
		if len(r.Schemas) != 1 {
			return 0, nil, fmt.Errorf("desired HCL has %d schemas", len(r.Schemas))
		}
		to = r.Schemas[0]
	} else {
		want := filepath.Join(tmp, "desired.db")
		var stmts []string
		for _, s := range strings.Split(desired, ";\n") {
			if strings.TrimSpace(s) != "" {
				stmts = append(stmts, s)
			}
		}
		if err := clirun.Exec(want, stmts...); err != nil {
			return 0, nil, err
		}
		wc, err := sqlclient.Open(ctx, "sqlite://"+want)
		if err != nil {
			return 0, nil, err
		}
		defer wc.Close()
		if to, err = wc.InspectSchema(ctx, "main", nil); err != nil {
			return 0, nil, err
		}
	}
	changes, err := cur.SchemaDiff(from, to)
	if err != nil {
		return 0, nil, err
	}
	var kinds []string
	for _, c := range changes {
		kinds = append(kinds, fmt.Sprintf("%T", c))
	}
	return len(changes), kinds, nil
}
