package main

import (
	"bytes"
	"context"
	"fmt"
	"os"
	"os/exec"
	"path/filepath"
	"strconv"
	"strings"
	"sync"
	"time"

	"verifharness/internal/clirun"
	"verifharness/internal/out"
)

// ---- C10 round 5, stage `lock`: the migration lock of `migrate apply` on SQLite ---------------------
//
// sql/sqlite/driver.go Driver.Lock / acquireLock: a file <TMPDIR>/atlas_migrate_execute.lock that holds
// the expiry time now + --lock-timeout; cmdapi/migrate_oss.go: Lock before anything else, deferred
// unlock. The lock file is state that survives the death of the process. Every scenario runs real CLI
// processes on a real SQLite file in a private TMPDIR; the lock file is read back after every step
// (none / invalid = not a number / held = a number) and the whole step sequence is replayed by the
// extracted model (Exec/LockModel.v: locked_apply, concurrent_apply) with the times the harness measured.

const (
	lockLong  = 3600000 // --lock-timeout 1h, in ms
	lockShort = 1       // --lock-timeout 1ms
)

type lstep struct {
	Plant   string // "", "valid", "expired", "empty", "garbage": the harness writes the lock file itself
	Timeout int    // ms
	Acquire bool   // the process dies inside acquireLock (RLIMIT_FSIZE = 0: os.Create succeeds, the write kills it)
	S       step
}

type lobs struct {
	Now     int64 // ms since the scenario started, when the process was launched
	Exit    string
	Lock    string
	Journal []int
	Revs    []string
	Stderr  string
}

func (o lobs) line(tag string) string {
	js := make([]string, len(o.Journal))
	for i, j := range o.Journal {
		js[i] = fmt.Sprint(j)
	}
	return fmt.Sprintf("%s exit=%s lock=%s journal=[%s] revs=[%s]", tag, o.Exit, o.Lock, strings.Join(js, ","), strings.Join(o.Revs, " "))
}

func lockState(tmp string) string {
	b, err := os.ReadFile(filepath.Join(tmp, "atlas_migrate_execute.lock"))
	if err != nil {
		return "none"
	}
	if _, err := strconv.ParseInt(string(b), 10, 64); err != nil {
		return "invalid"
	}
	return "held"
}

type proc struct {
	cmd    *exec.Cmd
	so, se bytes.Buffer
	cancel context.CancelFunc
}

func startCLI(tmp string, env []string, fsize0 bool, args ...string) (*proc, error) {
	ctx, cancel := context.WithTimeout(context.Background(), 120*time.Second)
	p := &proc{cancel: cancel}
	if fsize0 {
		sh := append([]string{"-c", `ulimit -f 0; exec "$0" "$@"`, clirun.Bin()}, args...)
		p.cmd = exec.CommandContext(ctx, "/bin/sh", sh...)
	} else {
		p.cmd = exec.CommandContext(ctx, clirun.Bin(), args...)
	}
	p.cmd.Dir = tmp
	p.cmd.Env = append([]string{"HOME=" + tmp, "PATH=" + os.Getenv("PATH"), "ATLAS_NO_UPDATE_NOTIFIER=1", "ATLAS_NO_UPGRADE_SUGGESTIONS=1", "TMPDIR=" + tmp}, env...)
	p.cmd.Stdout, p.cmd.Stderr = &p.so, &p.se
	return p, p.cmd.Start()
}

// wait classifies the end of the process.
func (p *proc) wait(acquire bool) (string, string) {
	err := p.cmd.Wait()
	p.cancel()
	se := p.se.String()
	code := 0
	if err != nil {
		code = -1
		if ee, ok := err.(*exec.ExitError); ok {
			code = ee.ExitCode()
		}
	}
	switch {
	case code == 0:
		return "ok", se
	case code == 137:
		return "crash", se
	case acquire && (code == -1 || code > 128 || strings.Contains(se, "writing to lockfile")):
		// killed by SIGXFSZ inside the write of the expiry, or the write returned an error: either way the
		// process is gone right after os.Create
		return "crash", se
	case strings.Contains(se, "acquiring database lock") && strings.Contains(se, "already taken"):
		return "locktaken", se
	case strings.Contains(se, "acquiring database lock") && strings.Contains(se, "invalid lock file format"):
		return "lockinvalid", se
	case strings.Contains(se, "atlas_migrate_execute.lock: no such file or directory"):
		return "unlockerr", se
	}
	return "fail", se
}

func applyArgs(tmp, scheme string, s step, timeoutMs int) []string {
	args := []string{"migrate", "apply"}
	if s.N > 0 {
		args = append(args, fmt.Sprint(s.N))
	}
	return append(args, "--dir", "file://"+filepath.Join(tmp, "m"), "--url", scheme+filepath.Join(tmp, "t.db"), "--tx-mode", s.Mode, "--allow-dirty",
		"--lock-timeout", fmt.Sprintf("%dms", timeoutMs))
}

func writeMig(tmp string, fs []tfile) error {
	files := map[string]string{}
	for _, f := range fs {
		files[f.name()] = f.content()
	}
	return clirun.WriteDir(filepath.Join(tmp, "m"), files)
}

func observe(tmp string, o *lobs) error {
	var err error
	o.Lock = lockState(tmp)
	o.Journal, o.Revs, err = readState(filepath.Join(tmp, "t.db"))
	return err
}

func runLockScenario(steps []lstep) ([]lobs, error) {
	tmp, err := os.MkdirTemp("", "vlk")
	if err != nil {
		return nil, err
	}
	defer os.RemoveAll(tmp)
	db := filepath.Join(tmp, "t.db")
	if err := clirun.Exec(db, "CREATE TABLE journal (id INTEGER)"); err != nil {
		return nil, err
	}
	t0 := time.Now()
	var res []lobs
	for _, s := range steps {
		time.Sleep(5 * time.Millisecond)
		o := lobs{Now: time.Since(t0).Milliseconds()}
		lp := filepath.Join(tmp, "atlas_migrate_execute.lock")
		switch s.Plant {
		case "valid":
			os.WriteFile(lp, []byte(strconv.FormatInt(time.Now().Add(time.Hour).UnixNano(), 10)), 0o644)
		case "expired":
			os.WriteFile(lp, []byte("1"), 0o644)
		case "empty":
			os.WriteFile(lp, nil, 0o644)
		case "garbage":
			os.WriteFile(lp, []byte("2026-10-02T12:00:00Z"), 0o644)
		default:
			if err := writeMig(tmp, s.S.Files); err != nil {
				return nil, err
			}
			var env []string
			if s.S.CrashPoint != "" {
				env = append(env, fmt.Sprintf("VERIF_CRASH_AT=%s:%d", s.S.CrashPoint, s.S.CrashK))
			}
			p, err := startCLI(tmp, env, s.Acquire, applyArgs(tmp, "sqlite://", s.S, s.Timeout)...)
			if err != nil {
				return nil, err
			}
			o.Exit, o.Stderr = p.wait(s.Acquire)
		}
		if s.Plant != "" {
			o.Exit = "planted"
		}
		if err := observe(tmp, &o); err != nil {
			return nil, err
		}
		res = append(res, o)
	}
	return res, nil
}

// lockTokens: the model's view of a step.
func lockTokens(s lstep, o lobs) []string {
	switch s.Plant {
	case "valid":
		return []string{"P", "e", fmt.Sprint(o.Now + lockLong)}
	case "expired":
		return []string{"P", "e", "0"}
	case "empty", "garbage":
		return []string{"P", "i", "0"}
	}
	st := s.S
	if s.Acquire {
		st.CrashPoint, st.CrashK = "acquire", 0
	}
	return append([]string{"R", fmt.Sprint(o.Now), fmt.Sprint(s.Timeout)}, st.tokens()...)
}

// concurrent scenario: A (sqlitekill://, suspended before its k-th journal INSERT) and B (a whole command).
func runConcurrent(files []tfile, k, tA int) (b, a lobs, err error) {
	tmp, err := os.MkdirTemp("", "vlc")
	if err != nil {
		return
	}
	defer os.RemoveAll(tmp)
	if err = clirun.Exec(filepath.Join(tmp, "t.db"), "CREATE TABLE journal (id INTEGER)"); err != nil {
		return
	}
	if err = writeMig(tmp, files); err != nil {
		return
	}
	t0 := time.Now()
	gof := filepath.Join(tmp, "go")
	st := step{Mode: "none", Files: files}
	a.Now = time.Since(t0).Milliseconds()
	pa, err := startCLI(tmp, []string{fmt.Sprintf("VERIF_SQL_PAUSE=^INSERT INTO journal@%d=%s", k, gof)}, false, applyArgs(tmp, "sqlitekill://", st, tA)...)
	if err != nil {
		return
	}
	reached := false
	for i := 0; i < 3000; i++ {
		if _, e := os.Stat(gof + ".reached"); e == nil {
			reached = true
			break
		}
		time.Sleep(10 * time.Millisecond)
	}
	if !reached {
		os.WriteFile(gof, nil, 0o644)
		pa.wait(false)
		err = fmt.Errorf("process A never reached its %d-th statement: %s", k, pa.se.String())
		return
	}
	time.Sleep(10 * time.Millisecond)
	b.Now = time.Since(t0).Milliseconds()
	pb, err := startCLI(tmp, nil, false, applyArgs(tmp, "sqlitekill://", st, lockLong)...)
	if err != nil {
		os.WriteFile(gof, nil, 0o644)
		pa.wait(false)
		return
	}
	b.Exit, b.Stderr = pb.wait(false)
	if err = observe(tmp, &b); err != nil {
		return
	}
	os.WriteFile(gof, nil, 0o644)
	a.Exit, a.Stderr = pa.wait(false)
	err = observe(tmp, &a)
	return
}

func genC10Lock(w *out.W, tier string, mu *sync.Mutex) []func() {
	files := shapeFiles([]int{1, 2})
	w.Exhaust = true
	var fns []func()
	id := 0
	nCrash, nOther := 0, 0
	add := func(label string, steps []lstep, judge func(id string, res []lobs)) {
		id++
		cid := fmt.Sprintf("c10lk-%d", id)
		fns = append(fns, func() {
			res, err := runLockScenario(steps)
			mu.Lock()
			defer mu.Unlock()
			if err != nil {
				w.Violation(cid, "harness", err.Error())
				return
			}
			toks := []string{"L", fmt.Sprint(len(steps))}
			var lines []string
			for i, s := range steps {
				toks = append(toks, lockTokens(s, res[i])...)
				lines = append(lines, res[i].line(fmt.Sprintf("step%d", i)))
			}
			w.Case(cid, strings.Join(toks, " "), lines)
			w.Count("lock:" + strings.SplitN(label, " ", 2)[0])
			oracleLock(w, cid, label, steps, res)
			if judge != nil {
				judge(cid, res)
			}
		})
	}
	run := func(m string, timeout int, fs []tfile) lstep { return lstep{Timeout: timeout, S: step{Mode: m, Files: fs}} }
	// A. killed at a crash point of the run, then re-run before / after the dead process's lock expires
	modes := []string{"none", "file", "all"}
	for _, m := range modes {
		ref, err := runScenario([]step{{Mode: m, Files: files}})
		if err != nil || ref[0].Exit != "ok" {
			w.Violation("c10lk-ref-"+m, "harness", fmt.Sprint("reference run failed: ", err))
			continue
		}
		total := map[string]int{}
		for _, p := range ref[0].Points {
			total[p]++
		}
		occ := map[string]int{}
		for _, p := range ref[0].Points {
			occ[p]++
			if tier == "quick" && occ[p] != 1 && occ[p] != total[p] {
				continue
			}
			p, k, m := p, occ[p], m
			fl := inFlight(ref[0].Points, p, k)
			crash := func(timeout int) lstep {
				s := run(m, timeout, files)
				s.S.CrashPoint, s.S.CrashK = p, k
				return s
			}
			nCrash += 2
			add(fmt.Sprintf("crash-then-rerun-before-expiry mode=%s at %s:%d", m, p, k),
				[]lstep{crash(lockLong), run(m, lockLong, files), run(m, lockLong, files)}, func(id string, res []lobs) {
					if res[0].Exit == "crash" {
						w.NonTrivial(fmt.Sprintf("lock-long|%s|%s|%d", m, p, k))
					}
				})
			add(fmt.Sprintf("crash-then-rerun-after-expiry mode=%s at %s:%d", m, p, k),
				[]lstep{crash(lockShort), run(m, lockLong, files), run(m, lockLong, files)}, func(id string, res []lobs) {
					if res[0].Exit == "crash" {
						w.NonTrivial(fmt.Sprintf("lock-short|%s|%s|%d", m, p, k))
					}
					oracleRerunCompletes(w, id, m, files, p, k, fl, res)
				})
		}
	}
	// B. every exit that is not a crash releases the lock (a lock with a life time of 1h would block the next run)
	for _, m := range modes {
		m := m
		broken := cloneFiles(files)
		broken[1].Bad = 1
		nOther++
		add("exit-paths statement error, fixed, nothing pending; mode="+m,
			[]lstep{run(m, lockLong, broken), run(m, lockLong, broken), run(m, lockLong, files), run(m, lockLong, files)}, func(id string, res []lobs) {
				if res[0].Exit == "fail" && res[2].Exit == "ok" {
					w.NonTrivial("lock-exit|" + m)
				}
				if res[0].Exit != "fail" || res[1].Exit != "fail" || res[2].Exit != "ok" || res[3].Exit != "ok" || fmt.Sprint(res[3].Journal) != fmt.Sprint(flat(files)) {
					w.Violation(id, "lock-exit-paths", fmt.Sprintf("want fail, fail, ok, ok with every statement once: %s | %s | %s | %s stderr=%s", res[0].line(""), res[1].line(""), res[2].line(""), res[3].line(""), res[1].Stderr))
				}
			})
	}
	bogus := cloneFiles(files)
	bogus[1].Directive = "bogus"
	one := run("file", lockLong, files)
	one.S.N = 1
	nOther += 2
	add("exit-paths directive error, then the valid directory", []lstep{run("file", lockLong, bogus), run("file", lockLong, files)}, nil)
	add("exit-paths count 1, then the rest", []lstep{one, run("file", lockLong, files), run("file", lockLong, files)}, nil)
	// C. lock files found: valid, expired, unreadable; and a process that really dies inside acquireLock
	nOther += 5
	add("planted valid lock of another process", []lstep{{Plant: "valid"}, run("none", lockLong, files), run("none", lockLong, files)}, func(id string, res []lobs) {
		w.NonTrivial("lock-planted-valid")
	})
	add("planted expired lock", []lstep{{Plant: "expired"}, run("none", lockLong, files), run("none", lockLong, files)}, func(id string, res []lobs) {
		w.NonTrivial("lock-planted-expired")
		if res[1].Exit != "ok" || fmt.Sprint(res[1].Journal) != fmt.Sprint(flat(files)) {
			w.Violation(id, "expired-lock-blocks", "a lock file whose expiry is in the past blocked the run: "+res[1].line("")+" "+res[1].Stderr)
		}
	})
	add("planted empty lock file", []lstep{{Plant: "empty"}, run("none", lockLong, files), run("none", lockShort, files)}, func(id string, res []lobs) {
		w.NonTrivial("lock-planted-empty")
	})
	add("planted lock file that is not a number", []lstep{{Plant: "garbage"}, run("none", lockLong, files), run("none", lockShort, files)}, func(id string, res []lobs) {
		w.NonTrivial("lock-planted-garbage")
	})
	dies := run("none", lockLong, files)
	dies.Acquire = true
	add("dies-in-acquire (file size limit 0: os.Create succeeds, the write of the expiry ends the process)",
		[]lstep{dies, run("none", lockLong, files), run("file", lockShort, files), run("all", lockLong, files)}, func(id string, res []lobs) {
			if res[0].Exit == "crash" && res[0].Lock == "invalid" {
				w.NonTrivial("lock-dies-in-acquire")
			} else {
				// (a lock file written atomically leaves nothing behind: then the class is simply not reached)
				w.Count("lock:dies-in-acquire-left-no-unreadable-file")
			}
		})
	// D. two processes
	ks := []int{2, 3}
	for _, k := range ks {
		for _, tA := range []int{lockLong, lockShort} {
			k, tA := k, tA
			id++
			nOther++
			cid := fmt.Sprintf("c10lk-%d", id)
			fns = append(fns, func() {
				b, a, err := runConcurrent(files, k, tA)
				mu.Lock()
				defer mu.Unlock()
				if err != nil {
					w.Violation(cid, "harness", err.Error())
					return
				}
				st := step{Mode: "none", Files: files, CrashPoint: "before-exec", CrashK: k}
				toks := append([]string{"C", fmt.Sprint(a.Now), fmt.Sprint(tA), fmt.Sprint(b.Now), fmt.Sprint(lockLong)}, st.tokens()...)
				w.Case(cid, strings.Join(toks, " "), []string{b.line("B"), a.line("A")})
				w.Count("lock:concurrent")
				w.NonTrivial(fmt.Sprintf("lock-concurrent|%d|%d", k, tA))
				desc := fmt.Sprintf("process A (--lock-timeout %dms, tx-mode none, shape [1 2]) suspended before its statement %d; process B started %d ms after A: %s ; then A resumed: %s stderrA=%q", tA, k, b.Now-a.Now, b.line("B"), a.line("A"), strings.TrimSpace(a.Stderr))
				all := flat(files)
				switch {
				case b.Exit == "locktaken":
					if a.Exit != "ok" || fmt.Sprint(a.Journal) != fmt.Sprint(all) || a.Lock != "none" {
						w.Violation(cid, "concurrent-result", "B was refused but A alone did not complete: "+desc)
					}
				case tA == lockLong:
					w.Violation(cid, "lock-not-exclusive", "a second process ran while the first held a valid lock: "+desc)
				default:
					// A's lock had expired while A was still running
					if fmt.Sprint(a.Journal) != fmt.Sprint(all) || a.Exit != "ok" {
						w.Violation(cid, "concurrent-interleaved", "two `migrate apply` processes interleaved on one database: "+desc)
					}
				}
			})
		}
	}
	w.Rule = fmt.Sprintf("the migration lock: directory shape [1,2] on a real SQLite file in a private TMPDIR, real CLI processes; (A) %d scenarios: tx-mode {none,file,all} x the first and last occurrence of every crash point kind of the run x {--lock-timeout 1h: the re-run comes before the dead process's lock expires; 1ms: after} = killed, apply, apply; (B/C) %d scenarios: every exit that is not a crash (statement error, directive error, count, nothing pending) followed by runs that a surviving lock would block, lock files found on disk (valid / expired / empty / not a number) and a process that dies INSIDE acquireLock (file size limit 0); (D) two concurrent processes: A suspended before its 2nd / 3rd statement (sqlitekill:// hook), B started meanwhile, A's lock valid (1h) or expired (1ms). The lock file (none / invalid / held), exit class, journal and revisions after every step are compared with Exec/LockModel.v run with the measured times. Non-trivial = the process was really killed / the planted file was read / both processes ran", nCrash, nOther)
	return fns
}

// oracleLock: what must hold of every scenario, on the Go observations.
func oracleLock(w *out.W, id, label string, steps []lstep, res []lobs) {
	var ls []string
	for i, o := range res {
		ls = append(ls, o.line(fmt.Sprintf("s%d", i)))
	}
	desc := label + ": " + strings.Join(ls, " ; ")
	for i, o := range res {
		switch o.Exit {
		case "ok", "fail":
			// deferred unlock on every exit that is not a crash
			if o.Lock != "none" {
				w.Violation(id, "lock-not-released", fmt.Sprintf("step %d ended (%s) and left its lock file: %s", i, o.Exit, desc))
				return
			}
		case "locktaken", "lockinvalid":
			if i == 0 {
				w.Violation(id, "harness", "refused without a lock file: "+desc)
				return
			}
			p := res[i-1]
			if o.Lock != p.Lock || fmt.Sprint(o.Journal) != fmt.Sprint(p.Journal) || fmt.Sprint(o.Revs) != fmt.Sprint(p.Revs) {
				w.Violation(id, "refused-run-changed-state", fmt.Sprintf("step %d was refused the lock but changed something: %s", i, desc))
				return
			}
			switch {
			case o.Exit == "lockinvalid":
				// re-running never completes: the lock file has to be removed by hand
				last := i == len(res)-1
				if last {
					w.Violation(id, "lock-file-blocks-forever", fmt.Sprintf("every run after step %d is refused with 'invalid lock file format' (other timeouts, other modes, later): %s stderr=%q", i-1, desc, strings.TrimSpace(o.Stderr)))
					return
				}
			case p.Exit == "crash" || (i >= 2 && res[i-2].Exit == "crash" && i == len(res)-1):
				if i == len(res)-1 {
					w.Violation(id, "stale-lock-blocks-rerun", "re-running right after the process died is refused until the dead process's lock expires: "+desc)
					return
				}
			}
		case "unlockerr":
			w.Violation(id, "unlock-failed", "unlock failed: "+desc)
			return
		}
	}
}

// oracleRerunCompletes: C10 on a re-run that came after the expiry.
func oracleRerunCompletes(w *out.W, id, mode string, files []tfile, p string, k int, inflight bool, res []lobs) {
	desc := fmt.Sprintf("mode=%s crash=%s:%d %s ; %s ; %s", mode, p, k, res[0].line("killed"), res[1].line("rerun"), res[2].line("again"))
	if res[0].Exit != "crash" {
		w.Violation(id, "no-crash", "the crash point was not reached: "+desc)
		return
	}
	if res[0].Lock != "held" {
		w.Violation(id, "lock-after-crash", "a killed process is expected to leave its lock file: "+desc)
		return
	}
	if res[1].Exit != "ok" {
		w.Violation(id, "rerun-failed", "the re-run after the lock expired failed: "+desc+" stderr="+res[1].Stderr)
		return
	}
	all := flat(files)
	dups := 0
	for _, s := range all {
		c := countOf(res[1].Journal, s)
		if c == 0 {
			w.Violation(id, "statement-lost", fmt.Sprintf("statement %d lost: %s", s, desc))
			return
		}
		dups += c - 1
	}
	if dups > 1 || (dups == 1 && (!inflight || mode != "none")) || len(res[1].Journal) != len(all)+dups {
		w.Violation(id, "executed-twice", "more than the statement in flight ran twice: "+desc)
		return
	}
	if res[2].Exit != "ok" || fmt.Sprint(res[2].Journal) != fmt.Sprint(res[1].Journal) {
		w.Violation(id, "not-settled", "a third apply changed something: "+desc)
	}
}
