package main

import (
	"fmt"
	"os"
	"path/filepath"
	"strings"
	"sync"

	"verifharness/internal/clirun"
	"verifharness/internal/out"
)

// ---- C13 (oracle only): --dry-run changes nothing; schema apply is all-or-nothing ----

type dryCase struct {
	id       string
	prepared int    // number of files applied for real before the dry run (0 = fresh database)
	mode     string // tx-mode
	baseline string
	shape    []int
}

func genC13Dry(w *out.W, tier string, mu *sync.Mutex) []func() {
	w.Exhaust = true
	w.Rule = "exhaustive over: {fresh database, database with 1 file already applied, all files applied} x tx-mode {none,file,all} x {no baseline, --baseline 1} x shapes {[2,1],[1,2,1]} for `migrate apply --dry-run`; plus `schema apply` with plans that fail midway (unique index on duplicated rows after creating other tables; NOT NULL column without default on a populated table) in its default transaction mode, and `schema apply --dry-run`. Observation = full logical dump (sqlite_master + every row of every table, revision timestamps masked) before/after. Non-trivial = the command would have changed something without the flag / did fail midway"
	var fns []func()
	id := 0
	for _, sh := range [][]int{{2, 1}, {1, 2, 1}} {
		for _, prepared := range []int{0, 1, len(sh)} {
			for _, m := range []string{"none", "file", "all"} {
				for _, bl := range []string{"", "1"} {
					if bl != "" && prepared > 0 {
						continue
					}
					id++
					c := dryCase{id: fmt.Sprintf("c13dry-%d", id), prepared: prepared, mode: m, baseline: bl, shape: sh}
					fns = append(fns, func() { runDry(w, mu, c) })
				}
			}
		}
	}
	for i, sc := range schemaApplyCases() {
		sc := sc
		cid := fmt.Sprintf("c13sa-%d", i+1)
		fns = append(fns, func() { runSchemaApply(w, mu, cid, sc) })
	}
	return fns
}

func runDry(w *out.W, mu *sync.Mutex, c dryCase) {
	tmp, err := os.MkdirTemp("", "vdry")
	if err != nil {
		panic(err)
	}
	defer os.RemoveAll(tmp)
	db := filepath.Join(tmp, "t.db")
	files := shapeFiles(c.shape)
	fm := map[string]string{}
	for _, f := range files {
		fm[f.name()] = f.content()
	}
	mdir := filepath.Join(tmp, "m")
	fail := func(msg string) {
		mu.Lock()
		defer mu.Unlock()
		w.Violation(c.id, "harness", msg)
	}
	if err := clirun.Exec(db, "CREATE TABLE journal (id INTEGER)"); err != nil {
		fail(err.Error())
		return
	}
	if err := clirun.WriteDir(mdir, fm); err != nil {
		fail(err.Error())
		return
	}
	if c.prepared > 0 {
		r := clirun.Run(tmp, nil, "migrate", "apply", fmt.Sprint(c.prepared), "--dir", "file://"+mdir, "--url", "sqlite://"+db, "--allow-dirty")
		if r.Exit != 0 {
			fail("prepare: " + r.Stderr)
			return
		}
	}
	before, _ := clirun.Dump(db, false)
	args := []string{"migrate", "apply", "--dry-run", "--dir", "file://" + mdir, "--url", "sqlite://" + db, "--tx-mode", c.mode}
	if c.baseline != "" {
		args = append(args, "--baseline", c.baseline)
	} else {
		args = append(args, "--allow-dirty")
	}
	r := clirun.Run(tmp, nil, args...)
	after, _ := clirun.Dump(db, false)
	desc := fmt.Sprintf("migrate apply --dry-run shape=%v prepared=%d mode=%s baseline=%q exit=%d", c.shape, c.prepared, c.mode, c.baseline, r.Exit)
	mu.Lock()
	defer mu.Unlock()
	w.ImplOnly(c.id, desc+" changed="+fmt.Sprint(before != after))
	w.Count("dry:mode:" + c.mode)
	if c.prepared < len(c.shape) {
		w.NonTrivial(desc)
	}
	if r.Exit != 0 {
		w.Violation(c.id, "dry-run-failed", desc+" stderr="+r.Stderr)
		return
	}
	if before != after {
		cls := "dry-run-changed-database"
		d := diffLines(before, after)
		onlyRevTable := true
		for _, l := range d {
			if !strings.Contains(l, "atlas_schema_revisions") {
				onlyRevTable = false
			}
		}
		hasRow := false
		for _, l := range d {
			if strings.HasPrefix(l, "+row ") {
				hasRow = true
			}
		}
		switch {
		case onlyRevTable && !hasRow && c.prepared == 0:
			cls = "dry-run-creates-revisions-table"
		case onlyRevTable && hasRow && c.baseline != "":
			cls = "dry-run-writes-baseline"
		}
		w.Violation(c.id, cls, desc+" diff="+strings.Join(d, " ; "))
	}
}

func diffLines(a, b string) []string {
	as, bs := map[string]bool{}, map[string]bool{}
	for _, l := range strings.Split(a, "\n") {
		as[l] = true
	}
	for _, l := range strings.Split(b, "\n") {
		bs[l] = true
	}
	var d []string
	for _, l := range strings.Split(a, "\n") {
		if !bs[l] {
			d = append(d, "-"+l)
		}
	}
	for _, l := range strings.Split(b, "\n") {
		if !as[l] {
			d = append(d, "+"+l)
		}
	}
	return d
}

type saCase struct {
	name    string
	setup   []string // executed on the target before
	desired string   // desired schema (SQL)
	dryRun  bool
	mustErr bool
}

func schemaApplyCases() []saCase {
	dupSetup := []string{"CREATE TABLE t (a INTEGER, b INTEGER)", "INSERT INTO t VALUES (1,1)", "INSERT INTO t VALUES (1,2)"}
	return []saCase{
		{name: "unique-index-on-duplicates-after-new-table", setup: dupSetup,
			desired: "CREATE TABLE a_first (x INTEGER);\nCREATE TABLE t (a INTEGER, b INTEGER);\nCREATE UNIQUE INDEX t_a ON t (a);\n", mustErr: true},
		{name: "unique-index-on-duplicates-after-add-column", setup: dupSetup,
			desired: "CREATE TABLE t (a INTEGER, b INTEGER, c INTEGER NULL);\nCREATE UNIQUE INDEX t_a ON t (a);\nCREATE TABLE zz (x INTEGER);\n", mustErr: true},
		{name: "drop-and-unique-fail", setup: append(append([]string{}, dupSetup...), "CREATE TABLE old (x INTEGER)", "INSERT INTO old VALUES (7)"),
			desired: "CREATE TABLE t (a INTEGER, b INTEGER);\nCREATE UNIQUE INDEX t_b_a ON t (a);\n", mustErr: true},
		{name: "rebuild-with-not-null-on-nulls", setup: []string{"CREATE TABLE p (a INTEGER, b INTEGER)", "INSERT INTO p VALUES (1, NULL)", "CREATE TABLE q (x INTEGER)"},
			desired: "CREATE TABLE p (a INTEGER, b INTEGER NOT NULL);\nCREATE TABLE q (x INTEGER, y INTEGER NULL);\nCREATE TABLE r (z INTEGER);\n", mustErr: true},
		{name: "dry-run-of-a-valid-plan", setup: []string{"CREATE TABLE t (a INTEGER)", "INSERT INTO t VALUES (1)"},
			desired: "CREATE TABLE t (a INTEGER, b INTEGER NULL);\nCREATE TABLE u (x INTEGER);\n", dryRun: true},
		{name: "dry-run-of-a-failing-plan", setup: dupSetup,
			desired: "CREATE TABLE a_first (x INTEGER);\nCREATE TABLE t (a INTEGER, b INTEGER);\nCREATE UNIQUE INDEX t_a ON t (a);\n", dryRun: true},
	}
}

func runSchemaApply(w *out.W, mu *sync.Mutex, id string, c saCase) {
	tmp, err := os.MkdirTemp("", "vsa")
	if err != nil {
		panic(err)
	}
	defer os.RemoveAll(tmp)
	db := filepath.Join(tmp, "t.db")
	fail := func(msg string) {
		mu.Lock()
		defer mu.Unlock()
		w.Violation(id, "harness", msg)
	}
	if err := clirun.Exec(db, c.setup...); err != nil {
		fail(err.Error())
		return
	}
	if err := os.WriteFile(filepath.Join(tmp, "schema.sql"), []byte(c.desired), 0o644); err != nil {
		fail(err.Error())
		return
	}
	before, _ := clirun.Dump(db, false)
	args := []string{"schema", "apply", "--url", "sqlite://" + db, "--to", "file://" + filepath.Join(tmp, "schema.sql"), "--dev-url", "sqlite://dev?mode=memory"}
	if c.dryRun {
		args = append(args, "--dry-run")
	} else {
		args = append(args, "--auto-approve")
	}
	r := clirun.Run(tmp, nil, args...)
	after, _ := clirun.Dump(db, false)
	desc := fmt.Sprintf("schema apply case=%s dry-run=%v exit=%d", c.name, c.dryRun, r.Exit)
	mu.Lock()
	defer mu.Unlock()
	w.ImplOnly(id, desc+" changed="+fmt.Sprint(before != after))
	w.Count("schema-apply")
	if c.mustErr && r.Exit == 0 {
		w.Violation(id, "schema-apply-setup", desc+": the plan was expected to fail midway but succeeded: "+r.Stdout)
		return
	}
	if r.Exit != 0 || c.dryRun {
		w.NonTrivial(desc)
		if before != after {
			cls := "schema-apply-not-atomic"
			if c.dryRun {
				cls = "schema-apply-dry-run-changed-database"
			}
			w.Violation(id, cls, desc+" diff="+strings.Join(diffLines(before, after), " ; ")+" stderr="+r.Stderr)
		}
	}
}
