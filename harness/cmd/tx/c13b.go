package main

import (
	"fmt"
	"os"
	"path/filepath"
	"strings"
	"sync"

	"verifharness/internal/clirun"
	"verifharness/internal/out"
)

// ---- C13: --dry-run changes nothing; schema apply is all-or-nothing ----------
// Both are compared with the extracted model (DryModel.v: migrate_apply,
// apply_changes) and judged by an oracle on full logical dumps.

type dryStep struct {
	mode     string
	n        int
	dry      bool
	baseline string
	files    []tfile
	// round 5: flag combinations
	noAllow  bool // neither --allow-dirty nor --baseline (the journal table makes the database dirty)
	both     bool // --baseline AND --allow-dirty
	wantFail bool // the command is expected to be refused (NotClean / baseline not found)
}

type dryCase struct {
	id    string
	label string
	steps []dryStep
}

func (s dryStep) tokens() []string {
	bl := "-"
	if s.baseline != "" {
		bl = hexOf(s.baseline)
	}
	allow := "1"
	if (s.baseline != "" && !s.both) || s.noAllow {
		allow = "0"
	}
	d := "0"
	if s.dry {
		d = "1"
	}
	toks := []string{s.mode, fmt.Sprint(s.n), d, bl, allow, "1"}
	// directory tokens as in the cli stage (without the leading step fields)
	st := step{Mode: s.mode, N: s.n, Files: s.files}
	return append(toks, st.tokens()[4:]...)
}

func hexOf(s string) string { return fmt.Sprintf("%x", s) }

func genC13Dry(w *out.W, tier string, mu *sync.Mutex) []func() {
	w.Exhaust = true
	w.Rule = "exhaustive over: directory shapes {[2,1],[1,2,1],[2,2]} x prepared target {fresh, first file applied, all applied, second statement of the first >=2-statement file failed under --tx-mode none (partial revision)} x tx-mode {none,file,all} x {plain, 'txmode none' directive on the last file, invalid directive on the last file, a failing statement in a pending file} x {no baseline, --baseline 1 (fresh only)} x count {all, 1 (plain only)} for `migrate apply --dry-run`, followed by a real apply; compared step by step with the model (exit status, existence of atlas_schema_revisions, journal, revision rows) and judged on full logical dumps before/after the dry run (sqlite_master + every row, revision timestamps masked). Plus `schema apply` with plans that fail midway x tx-mode {file (default), none} (+ one with foreign_keys on): the planned statements are read from --dry-run, replayed one by one with an independent client to find the failing position and the state after each prefix; the real command's final dump is located among those states and compared with the model. Non-trivial = the dry run had something to execute / the plan failed midway"
	var fns []func()
	id := 0
	shapes := [][]int{{2, 1}, {1, 2, 1}, {2, 2}}
	for _, sh := range shapes {
		base := shapeFiles(sh)
		// prepared targets
		type prep struct {
			name  string
			steps []dryStep
		}
		preps := []prep{{"fresh", nil},
			{"one-applied", []dryStep{{mode: "file", n: 1, files: base}}},
			{"all-applied", []dryStep{{mode: "file", files: base}}}}
		for fi, f := range base {
			if len(f.Stmts) >= 2 {
				broken := cloneFiles(base)
				broken[fi].Bad = 1
				preps = append(preps, prep{"partial", []dryStep{{mode: "none", files: broken}}})
				break
			}
		}
		for _, pr := range preps {
			for _, m := range []string{"none", "file", "all"} {
				type variant struct {
					name     string
					files    []tfile
					baseline string
					n        int
				}
				last := len(base) - 1
				withDir := func(d string) []tfile { fs := cloneFiles(base); fs[last].Directive = d; return fs }
				withBad := func() []tfile { fs := cloneFiles(base); fs[last].Bad = 0; return fs }
				vars := []variant{{"plain", base, "", 0}, {"directive-none", withDir("none"), "", 0},
					{"directive-bogus", withDir("bogus"), "", 0}, {"failing-statement", withBad(), "", 0}}
				if m == "none" {
					vars = append(vars, variant{"count-1", base, "", 1})
				}
				if pr.name == "fresh" {
					vars = append(vars, variant{"baseline", base, "1", 0})
				}
				for _, v := range vars {
					id++
					c := dryCase{id: fmt.Sprintf("c13dry-%d", id), label: fmt.Sprintf("shape=%v target=%s mode=%s variant=%s", sh, pr.name, m, v.name)}
					c.steps = append(c.steps, pr.steps...)
					c.steps = append(c.steps, dryStep{mode: m, n: v.n, dry: true, baseline: v.baseline, files: v.files})
					if v.name == "plain" || v.name == "count-1" || v.name == "baseline" {
						// the real apply afterwards (the baseline one skips file 1)
						c.steps = append(c.steps, dryStep{mode: m, files: base})
					}
					nontriv := pr.name != "all-applied"
					fns = append(fns, func() { runDry(w, mu, c, nontriv) })
				}
			}
		}
	}
	fns = append(fns, dryFlagCases(w, mu, &id)...)
	for i, sc := range schemaApplyCases() {
		sc := sc
		cid := fmt.Sprintf("c13sa-%d", i+1)
		fns = append(fns, func() { runSchemaApply(w, mu, cid, sc) })
	}
	return fns
}

func runDry(w *out.W, mu *sync.Mutex, c dryCase, nontriv bool) {
	tmp, err := os.MkdirTemp("", "vdry")
	if err != nil {
		panic(err)
	}
	defer os.RemoveAll(tmp)
	db := filepath.Join(tmp, "t.db")
	mdir := filepath.Join(tmp, "m")
	fail := func(msg string) {
		mu.Lock()
		defer mu.Unlock()
		w.Violation(c.id, "harness", msg)
	}
	if err := clirun.Exec(db, "CREATE TABLE journal (id INTEGER)"); err != nil {
		fail(err.Error())
		return
	}
	toks := []string{"D", fmt.Sprint(len(c.steps))}
	var lines []string
	type viol struct{ cls, msg string }
	var viols []viol
	for i, s := range c.steps {
		fm := map[string]string{}
		for _, f := range s.files {
			fm[f.name()] = f.content()
		}
		if err := clirun.WriteDir(mdir, fm); err != nil {
			fail(err.Error())
			return
		}
		args := []string{"migrate", "apply"}
		if s.n > 0 {
			args = append(args, fmt.Sprint(s.n))
		}
		args = append(args, "--dir", "file://"+mdir, "--url", "sqlite://"+db, "--tx-mode", s.mode)
		if s.dry {
			args = append(args, "--dry-run")
		}
		if s.baseline != "" {
			args = append(args, "--baseline", s.baseline)
		}
		if (s.baseline == "" && !s.noAllow) || s.both {
			args = append(args, "--allow-dirty")
		}
		before, _ := clirun.Dump(db, false)
		r := clirun.Run(tmp, nil, args...)
		after, _ := clirun.Dump(db, false)
		ex := "ok"
		if r.Exit != 0 {
			ex = "fail"
		}
		journal, revs, err := readState(db)
		if err != nil {
			fail(err.Error())
			return
		}
		tbl := "0"
		if clirun.TableExists(db, "atlas_schema_revisions") {
			tbl = "1"
		}
		o := obs{Exit: ex, Journal: journal, Revs: revs}
		js := make([]string, len(o.Journal))
		for k, j := range o.Journal {
			js[k] = fmt.Sprint(j)
		}
		toks = append(toks, s.tokens()...)
		lines = append(lines, fmt.Sprintf("step%d exit=%s table=%s journal=[%s] revs=[%s]", i, ex, tbl, strings.Join(js, ","), strings.Join(o.Revs, " ")))
		if !s.dry {
			continue
		}
		desc := fmt.Sprintf("migrate apply --dry-run %s baseline=%q exit=%d", c.label, s.baseline, r.Exit)
		if s.wantFail && r.Exit == 0 {
			viols = append(viols, viol{"dry-run-flag-exit", desc + ": expected to be refused (dirty database without --allow-dirty / baseline version not in the directory)"})
			continue
		}
		if r.Exit != 0 && !s.wantFail {
			viols = append(viols, viol{"dry-run-failed", desc + " stderr=" + r.Stderr})
			continue
		}
		if before != after {
			cls := "dry-run-changed-database"
			d := diffLines(before, after)
			onlyRevTable, hasRow := true, false
			for _, l := range d {
				if !strings.Contains(l, "atlas_schema_revisions") {
					onlyRevTable = false
				}
				if strings.HasPrefix(l, "+row ") {
					hasRow = true
				}
			}
			hadTable := strings.Contains(before, "atlas_schema_revisions")
			switch {
			case onlyRevTable && !hasRow && !hadTable:
				cls = "dry-run-creates-revisions-table"
			case onlyRevTable && hasRow && s.baseline != "":
				cls = "dry-run-writes-baseline"
			}
			viols = append(viols, viol{cls, desc + " diff=" + strings.Join(d, " ; ")})
		}
	}
	mu.Lock()
	defer mu.Unlock()
	w.Case(c.id, strings.Join(toks, " "), lines)
	w.Count("dry")
	if nontriv {
		w.NonTrivial(c.label)
	}
	for _, v := range viols {
		w.Violation(c.id, v.cls, v.msg)
	}
}

func diffLines(a, b string) []string {
	as, bs := map[string]bool{}, map[string]bool{}
	for _, l := range strings.Split(a, "\n") {
		as[l] = true
	}
	for _, l := range strings.Split(b, "\n") {
		bs[l] = true
	}
	var d []string
	for _, l := range strings.Split(a, "\n") {
		if !bs[l] {
			d = append(d, "-"+l)
		}
	}
	for _, l := range strings.Split(b, "\n") {
		if !as[l] {
			d = append(d, "+"+l)
		}
	}
	return d
}

type saCase struct {
	name    string
	setup   []string // executed on the target before
	desired string   // desired schema (SQL)
	dryRun  bool
	mustErr bool
	txMode  string // "" = default (file)
	fk      bool   // open the target with foreign_keys on
	// round 3
	hcl     bool // desired is HCL (no dev database: lets the desired state hold what SQLite itself would refuse)
	single  bool // the change set must be exactly ONE schema.Change planned as >= 2 statements
	fkCheck bool // judge / model the commit-time foreign-key check (V line)
	mustFk  bool // the commit must be refused with "foreign key mismatch" in the transactional modes
	exclude string // --exclude pattern (a table of the target the diff must not see)
}

func schemaApplyCases() []saCase {
	dupSetup := []string{"CREATE TABLE t (a INTEGER, b INTEGER)", "INSERT INTO t VALUES (1,1)", "INSERT INTO t VALUES (1,2)"}
	base := []saCase{
		{name: "unique-index-on-duplicates-after-new-table", setup: dupSetup,
			desired: "CREATE TABLE a_first (x INTEGER);\nCREATE TABLE t (a INTEGER, b INTEGER);\nCREATE UNIQUE INDEX t_a ON t (a);\n", mustErr: true},
		{name: "unique-index-on-duplicates-after-add-column", setup: dupSetup,
			desired: "CREATE TABLE t (a INTEGER, b INTEGER, c INTEGER NULL);\nCREATE UNIQUE INDEX t_a ON t (a);\nCREATE TABLE zz (x INTEGER);\n", mustErr: true},
		{name: "drop-and-unique-fail", setup: append(append([]string{}, dupSetup...), "CREATE TABLE old (x INTEGER)", "INSERT INTO old VALUES (7)"),
			desired: "CREATE TABLE t (a INTEGER, b INTEGER);\nCREATE UNIQUE INDEX t_b_a ON t (a);\n", mustErr: true},
		{name: "rebuild-with-not-null-on-nulls", setup: []string{"CREATE TABLE p (a INTEGER, b INTEGER)", "INSERT INTO p VALUES (1, NULL)", "CREATE TABLE q (x INTEGER)"},
			desired: "CREATE TABLE p (a INTEGER, b INTEGER NOT NULL);\nCREATE TABLE q (x INTEGER, y INTEGER NULL);\nCREATE TABLE r (z INTEGER);\n", mustErr: true},
		{name: "valid-plan", setup: []string{"CREATE TABLE t (a INTEGER)", "INSERT INTO t VALUES (1)"},
			desired: "CREATE TABLE t (a INTEGER, b INTEGER NULL);\nCREATE TABLE u (x INTEGER);\n"},
	}
	var cs []saCase
	for _, c := range base {
		for _, m := range []string{"", "file", "none"} {
			c2 := c
			c2.txMode = m
			cs = append(cs, c2)
		}
	}
	fkc := base[0]
	fkc.fk = true
	cs = append(cs, fkc)
	cs = append(cs, schemaApplyCasesR3()...)
	cs = append(cs,
		saCase{name: "dry-run-of-a-valid-plan", setup: []string{"CREATE TABLE t (a INTEGER)", "INSERT INTO t VALUES (1)"},
			desired: "CREATE TABLE t (a INTEGER, b INTEGER NULL);\nCREATE TABLE u (x INTEGER);\n", dryRun: true},
		saCase{name: "dry-run-of-a-failing-plan", setup: dupSetup,
			desired: "CREATE TABLE a_first (x INTEGER);\nCREATE TABLE t (a INTEGER, b INTEGER);\nCREATE UNIQUE INDEX t_a ON t (a);\n", dryRun: true})
	return cs
}

// schemaApplyCasesR3: change sets of exactly ONE schema.Change that the SQLite planner turns
// into several statements, a statement other than the first failing; and plans every
// statement of which succeeds but whose result the commit-time foreign-key check refuses.
func schemaApplyCasesR3() []saCase {
	dup := []string{"CREATE TABLE t (a INTEGER, b INTEGER)", "INSERT INTO t VALUES (1,1)", "INSERT INTO t VALUES (1,2)",
		"CREATE TABLE keep (x INTEGER)", "INSERT INTO keep VALUES (5)"}
	nulls := []string{"CREATE TABLE p (a INTEGER, b INTEGER)", "INSERT INTO p VALUES (1, NULL)", "INSERT INTO p VALUES (2, 3)", "CREATE INDEX p_a ON p (a)",
		"CREATE TABLE keep (x INTEGER)", "INSERT INTO keep VALUES (5)"}
	hclP := `schema "main" {}
table "p" {
  schema = schema.main
  column "a" {
    type = integer
    null = true
  }
  column "b" {
    type = integer
    null = true
  }
  index "p_a" {
    columns = [column.a]
  }
}
table "keep" {
  schema = schema.main
  column "x" {
    type = integer
    null = true
  }
}
`
	hclN := func(first, second, third string) string {
		idx := func(name, col string) string {
			return fmt.Sprintf("  index %q {\n    columns = [column.%s]\n  }\n", name, col)
		}
		return hclP + "table \"n\" {\n  schema = schema.main\n  column \"x\" {\n    type = integer\n    null = true\n  }\n  column \"y\" {\n    type = integer\n    null = true\n  }\n  column \"z\" {\n    type = integer\n    null = true\n  }\n" +
			idx(first, "x") + idx(second, "y") + idx(third, "z") + "}\n"
	}
	single := []saCase{
		// ModifyTable: ALTER TABLE ADD COLUMN, then CREATE UNIQUE INDEX over duplicates
		{name: "one-change-add-column-then-unique-index-on-duplicates", setup: dup,
			desired: "CREATE TABLE t (a INTEGER, b INTEGER, c INTEGER NULL);\nCREATE UNIQUE INDEX t_a ON t (a);\nCREATE TABLE keep (x INTEGER);\n", mustErr: true, single: true},
		// ModifyTable: two columns and two indexes, the last index fails
		{name: "one-change-two-columns-two-indexes-last-fails", setup: dup,
			desired: "CREATE TABLE t (a INTEGER, b INTEGER, c INTEGER NULL, d INTEGER NULL);\nCREATE INDEX t_b ON t (b);\nCREATE UNIQUE INDEX t_a ON t (a);\nCREATE TABLE keep (x INTEGER);\n", mustErr: true, single: true},
		// ModifyTable planned as a rebuild (create new, copy, drop, rename, re-create index): the copy fails
		{name: "one-change-rebuild-copy-fails", setup: nulls,
			desired: "CREATE TABLE p (a INTEGER, b INTEGER NOT NULL);\nCREATE INDEX p_a ON p (a);\nCREATE TABLE keep (x INTEGER);\n", mustErr: true, single: true},
		// ModifyTable planned as a rebuild whose LAST statement (a new unique index on the renamed table) fails
		{name: "one-change-rebuild-then-unique-index-fails", setup: []string{"CREATE TABLE p (a INTEGER, b INTEGER)", "INSERT INTO p VALUES (1, 4)", "INSERT INTO p VALUES (1, 3)",
			"CREATE TABLE keep (x INTEGER)", "INSERT INTO keep VALUES (5)"},
			desired: "CREATE TABLE p (a INTEGER, b INTEGER NOT NULL);\nCREATE UNIQUE INDEX p_a ON p (a);\nCREATE TABLE keep (x INTEGER);\n", mustErr: true, single: true},
		// the same rebuild, but its very first real statement (CREATE TABLE new_p, after the pragma) fails: the
		// target holds a table of that name which the diff is told not to see (--exclude)
		{name: "one-change-rebuild-create-fails", setup: append(append([]string{}, nulls...), "CREATE TABLE new_p (z INTEGER)", "INSERT INTO new_p VALUES (8)"),
			desired: "CREATE TABLE p (a INTEGER, b INTEGER NOT NULL);\nCREATE INDEX p_a ON p (a);\nCREATE TABLE keep (x INTEGER);\n", mustErr: true, single: true, exclude: "new_p"},
		// AddTable with three indexes: the name of the second / third one is taken by an index of another table
		{name: "one-change-add-table-second-index-fails", setup: nulls, desired: hclN("n_x", "p_a", "n_z"), hcl: true, mustErr: true, single: true},
		{name: "one-change-add-table-third-index-fails", setup: nulls, desired: hclN("n_x", "n_y", "p_a"), hcl: true, mustErr: true, single: true},
	}
	// commit-time foreign-key check: `o` already holds a violating row (written with foreign keys off)
	fkSetup := []string{"CREATE TABLE parent (id INTEGER PRIMARY KEY)", "INSERT INTO parent VALUES (1)",
		"CREATE TABLE child (id INTEGER PRIMARY KEY, pid INTEGER)", "INSERT INTO child VALUES (1, 1)", "INSERT INTO child VALUES (2, 5)",
		"CREATE TABLE o (id INTEGER PRIMARY KEY, pid INTEGER REFERENCES parent (id))", "INSERT INTO o VALUES (1, 9)"}
	fkClean := append(append([]string{}, fkSetup[:4]...), fkSetup[5:]...) // without the orphan child row
	parent := "CREATE TABLE parent (id INTEGER PRIMARY KEY);\n"
	childFk := "CREATE TABLE child (id INTEGER PRIMARY KEY, pid INTEGER, CONSTRAINT c_p FOREIGN KEY (pid) REFERENCES parent (id));\n"
	child := "CREATE TABLE child (id INTEGER PRIMARY KEY, pid INTEGER);\n"
	o := "CREATE TABLE o (id INTEGER PRIMARY KEY, pid INTEGER REFERENCES parent (id));\n"
	fks := []saCase{
		// one change (rebuild of child with the new constraint): every statement succeeds, the check at commit finds the orphan
		{name: "fk-one-change-add-constraint-over-orphan", setup: fkSetup, desired: parent + childFk + o, fk: true, fkCheck: true, single: true, mustFk: true},
		// the same next to another change: nothing of either may stay
		{name: "fk-add-constraint-over-orphan-and-new-table", setup: fkSetup, desired: "CREATE TABLE a_first (x INTEGER);\n" + parent + childFk + o + "CREATE TABLE zz (x INTEGER);\n", fk: true, fkCheck: true, mustFk: true},
		// no new violation: the constraint is added over clean rows; the old violation in `o` stays what it was
		{name: "fk-add-constraint-clean-rows-old-violation-elsewhere", setup: fkClean, desired: parent + childFk + o, fk: true, fkCheck: true, single: true},
		// the table holding the old violation is rebuilt: same table/rowid/parent/constraint -> not new
		{name: "fk-rebuild-table-holding-the-old-violation", setup: fkSetup, desired: parent + child + "CREATE TABLE o (id INTEGER PRIMARY KEY, pid INTEGER NOT NULL REFERENCES parent (id));\n", fk: true, fkCheck: true, single: true},
		// a statement fails AND foreign keys are on: rollback, pragma restored
		{name: "fk-on-and-statement-fails", setup: append(append([]string{}, fkSetup...), "INSERT INTO child VALUES (3, NULL)"),
			desired: parent + "CREATE TABLE child (id INTEGER PRIMARY KEY, pid INTEGER NOT NULL, CONSTRAINT c_p FOREIGN KEY (pid) REFERENCES parent (id));\n" + o, fk: true, fkCheck: true, single: true, mustErr: true},
		// round 5: an EARLIER change is the rebuild of a table that other rows reference (its plan carries its own
		// PRAGMA foreign_keys = off/on -- a no-op inside the transaction the opener began with foreign keys already off,
		// effective without one), a LATER change's statement fails: default -> nothing of the rebuild stays; none -> the
		// whole rebuild stays (prefix), the referencing rows are intact; and the control where nothing fails
		{name: "r5-rebuild-of-referenced-table-then-later-change-fails", setup: r5Setup(true),
			desired: r5Desired + "CREATE UNIQUE INDEX t_a ON t (a);\n", fk: true, fkCheck: true, mustErr: true},
		{name: "r5-rebuild-of-referenced-table-then-later-change-ok", setup: r5Setup(false),
			desired: r5Desired + "CREATE UNIQUE INDEX t_a ON t (a);\n", fk: true, fkCheck: true},
		// foreign keys off: nobody checks
		{name: "fk-off-add-constraint-over-orphan", setup: fkSetup, desired: parent + childFk + o, fk: false, fkCheck: true, single: true},
	}
	var cs []saCase
	for _, c := range append(single, fks...) {
		for _, m := range []string{"", "none"} {
			c2 := c
			c2.txMode = m
			cs = append(cs, c2)
		}
	}
	return cs
}

// planStatements extracts the SQL statements `schema apply --dry-run` prints.
func planStatements(out string) []string {
	var stmts []string
	var cur []string
	for _, l := range strings.Split(out, "\n") {
		t := strings.TrimSpace(l)
		if t == "" || strings.HasPrefix(t, "--") {
			continue
		}
		cur = append(cur, l)
		if strings.HasSuffix(t, ";") {
			stmts = append(stmts, strings.Join(cur, "\n"))
			cur = nil
		}
	}
	return stmts
}

func copyFile(dst, src string) error {
	b, err := os.ReadFile(src)
	if err != nil {
		return err
	}
	return os.WriteFile(dst, b, 0o644)
}

func runSchemaApply(w *out.W, mu *sync.Mutex, id string, c saCase) {
	tmp, err := os.MkdirTemp("", "vsa")
	if err != nil {
		panic(err)
	}
	defer os.RemoveAll(tmp)
	db := filepath.Join(tmp, "t.db")
	fail := func(msg string) {
		mu.Lock()
		defer mu.Unlock()
		w.Violation(id, "harness", msg)
	}
	if err := clirun.Exec(db, c.setup...); err != nil {
		fail(err.Error())
		return
	}
	desiredPath := filepath.Join(tmp, "schema.sql")
	if c.hcl {
		desiredPath = filepath.Join(tmp, "schema.hcl")
	}
	if err := os.WriteFile(desiredPath, []byte(c.desired), 0o644); err != nil {
		fail(err.Error())
		return
	}
	url := "sqlite://" + db
	if c.fk {
		url += "?_fk=1"
	}
	before, _ := clirun.Dump(db, false)
	common := []string{"schema", "apply", "--url", url, "--to", "file://" + desiredPath}
	if !c.hcl {
		common = append(common, "--dev-url", "sqlite://dev?mode=memory")
	}
	if c.exclude != "" {
		common = append(common, "--exclude", c.exclude)
	}
	nChanges := -1
	if c.single {
		n, kinds, err := countChanges(tmp, db, c.desired, c.hcl, c.exclude)
		if err != nil {
			fail("counting the changes of " + c.name + ": " + err.Error())
			return
		}
		nChanges = n
		if n != 1 {
			fail(fmt.Sprintf("%s is meant to be exactly one schema.Change, the diff has %d: %v", c.name, n, kinds))
			return
		}
	}
	// the plan, as the command itself prints it
	pr := clirun.Run(tmp, nil, append(append([]string{}, common...), "--dry-run")...)
	afterDry, _ := clirun.Dump(db, false)
	if c.dryRun {
		desc := fmt.Sprintf("schema apply case=%s dry-run=true exit=%d", c.name, pr.Exit)
		mu.Lock()
		defer mu.Unlock()
		w.ImplOnly(id, desc+" changed="+fmt.Sprint(before != afterDry))
		w.Count("schema-apply-dry-run")
		w.NonTrivial(desc)
		if before != afterDry {
			w.Violation(id, "schema-apply-dry-run-changed-database", desc+" diff="+strings.Join(diffLines(before, afterDry), " ; ")+" stderr="+pr.Stderr)
		}
		return
	}
	stmts := planStatements(pr.Stdout)
	if pr.Exit != 0 || len(stmts) == 0 {
		fail(fmt.Sprintf("cannot read the plan of %s: exit=%d stdout=%q stderr=%q", c.name, pr.Exit, pr.Stdout, pr.Stderr))
		return
	}
	// replay the statements one by one with the independent client: failing
	// position and the state after each prefix
	replay := filepath.Join(tmp, "replay.db")
	if err := copyFile(replay, db); err != nil {
		fail(err.Error())
		return
	}
	dumps := []string{before}
	bad := -1
	for i, st := range stmts {
		if err := clirun.Exec(replay, st); err != nil {
			bad = i
			break
		}
		d, _ := clirun.Dump(replay, false)
		dumps = append(dumps, d)
	}
	canon := func(j int) int {
		for k := 0; k <= j; k++ {
			if dumps[k] == dumps[j] {
				return k
			}
		}
		return j
	}
	txm := c.txMode
	args := append(append([]string{}, common...), "--auto-approve")
	if txm != "" {
		args = append(args, "--tx-mode", txm)
	} else {
		txm = "file"
	}
	r := clirun.Run(tmp, nil, args...)
	after, _ := clirun.Dump(db, false)
	state := -1
	for k := range dumps {
		if dumps[k] == after {
			state = k
			break
		}
	}
	ex := "ok"
	if r.Exit != 0 {
		ex = "fail"
	}
	if c.single && len(stmts) < 2 {
		fail(fmt.Sprintf("%s: one change is meant to be planned as several statements, got %d", c.name, len(stmts)))
		return
	}
	if c.fkCheck {
		runSchemaApplyFk(w, mu, id, c, tmp, db, replay, txm, stmts, dumps, bad, canon, state, r, before, after, nChanges)
		return
	}
	// case line for the model: S txmode fk viol N bad canon_0 .. canon_N (canon of unreachable prefixes = themselves)
	toks := []string{"S", txm, map[bool]string{false: "0", true: "1"}[c.fk], "0", fmt.Sprint(len(stmts))}
	if bad >= 0 {
		toks = append(toks, fmt.Sprint(bad))
	} else {
		toks = append(toks, "-")
	}
	for j := 0; j <= len(stmts); j++ {
		if j < len(dumps) {
			toks = append(toks, fmt.Sprint(canon(j)))
		} else {
			toks = append(toks, fmt.Sprint(j))
		}
	}
	desc := fmt.Sprintf("schema apply case=%s tx-mode=%s fk=%v changes=%d statements=%d failing=%d exit=%d state-after=prefix %d", c.name, txm, c.fk, nChanges, len(stmts), bad, r.Exit, state)
	mu.Lock()
	defer mu.Unlock()
	w.Case(id, strings.Join(toks, " "), []string{fmt.Sprintf("exit=%s state=%d", ex, state)})
	w.Count("schema-apply:" + txm)
	if c.single {
		w.Count("schema-apply:one-change-several-statements")
		if bad > 0 {
			w.Count("schema-apply:one-change-later-statement-fails")
		}
	}
	if c.mustErr && (r.Exit == 0 || bad < 0) {
		w.Violation(id, "schema-apply-setup", desc+": the plan was expected to fail midway but did not: "+r.Stdout)
		return
	}
	if bad >= 0 {
		w.NonTrivial(desc)
	}
	switch {
	case state < 0:
		w.Violation(id, "schema-apply-unknown-state", desc+": the final state is not the state after any prefix of the plan; diff to before="+strings.Join(diffLines(before, after), " ; ")+" stderr="+r.Stderr)
	case bad >= 0 && r.Exit == 0:
		w.Violation(id, "schema-apply-exit", desc+": statement fails in the replay but the command succeeded")
	case bad < 0 && r.Exit != 0:
		w.Violation(id, "schema-apply-exit", desc+": the command failed although every statement replays: stderr="+r.Stderr)
	case bad >= 0 && txm != "none" && after != before:
		w.Violation(id, "schema-apply-not-atomic", desc+" diff="+strings.Join(diffLines(before, after), " ; ")+" stderr="+r.Stderr)
	case bad >= 0 && txm == "none" && after != dumps[bad]:
		w.Violation(id, "schema-apply-none-prefix", desc+": expected exactly the successful prefix")
	case bad < 0 && after != dumps[len(stmts)]:
		w.Violation(id, "schema-apply-incomplete", desc+": the successful command did not apply the whole plan")
	}
}

// runSchemaApplyFk: a `schema apply` case that is judged and modelled with the
// commit-time foreign-key check: what `PRAGMA foreign_key_check` reports before
// the plan and after the whole plan is measured with the independent client (on
// the untouched target and on the replay copy) and is the model's [violations]
// function (FkModel.v: apply_changes_fk); V line.
func runSchemaApplyFk(w *out.W, mu *sync.Mutex, id string, c saCase, tmp, db, replay, txm string, stmts, dumps []string, bad int,
	canon func(int) int, state int, r clirun.Result, before, after string, nChanges int) {
	fail := func(msg string) {
		mu.Lock()
		defer mu.Unlock()
		w.Violation(id, "harness", msg)
	}
	orig := filepath.Join(tmp, "orig.db") // the target as it was: rebuilt from the setup
	if err := clirun.Exec(orig, c.setup...); err != nil {
		fail(err.Error())
		return
	}
	vBefore, err := fkViols(orig)
	if err != nil {
		fail(err.Error())
		return
	}
	vAfter := vBefore
	if bad < 0 {
		if vAfter, err = fkViols(replay); err != nil {
			fail(err.Error())
			return
		}
	}
	ex := "ok"
	switch {
	case r.Exit != 0 && strings.Contains(r.Stderr, "foreign key mismatch"):
		ex = "fkfail"
	case r.Exit != 0:
		ex = "fail"
	}
	toks := []string{"V", txm, map[bool]string{false: "0", true: "1"}[c.fk], fmt.Sprint(len(stmts))}
	if bad >= 0 {
		toks = append(toks, fmt.Sprint(bad))
	} else {
		toks = append(toks, "-")
	}
	for j := 0; j <= len(stmts); j++ {
		if j < len(dumps) {
			toks = append(toks, fmt.Sprint(canon(j)))
		} else {
			toks = append(toks, fmt.Sprint(j))
		}
	}
	toks = append(toks, violTokens(vBefore)...)
	toks = append(toks, violTokens(vAfter)...)
	newViol := c.fk && txm != "none" && bad < 0 && !subset(vAfter, vBefore)
	desc := fmt.Sprintf("schema apply case=%s tx-mode=%s fk=%v changes=%d statements=%d failing=%d foreign_key_check before=%v after the plan=%v exit=%d(%s) state-after=prefix %d", c.name, txm, c.fk, nChanges, len(stmts), bad, vBefore, vAfter, r.Exit, ex, state)
	mu.Lock()
	defer mu.Unlock()
	w.Case(id, strings.Join(toks, " "), []string{fmt.Sprintf("exit=%s state=%d", ex, state)})
	w.Count("schema-apply-fk:" + txm)
	if newViol {
		w.Count("schema-apply-fk:new-violation-at-commit")
		w.NonTrivial(desc)
	}
	if bad >= 0 {
		w.NonTrivial(desc)
	}
	if c.mustFk && txm != "none" && !newViol {
		w.Violation(id, "schema-apply-setup", desc+": the plan was expected to run through and to leave a new foreign-key violation")
		return
	}
	if c.mustErr && bad < 0 {
		w.Violation(id, "schema-apply-setup", desc+": the plan was expected to fail midway")
		return
	}
	switch {
	case state < 0:
		w.Violation(id, "schema-apply-unknown-state", desc+": the final state is not the state after any prefix of the plan; diff to before="+strings.Join(diffLines(before, after), " ; ")+" stderr="+r.Stderr)
	case newViol && r.Exit == 0:
		w.Violation(id, "schema-apply-fk-committed", desc+": the plan leaves a foreign-key violation that was not there before, and the command committed it")
	case newViol && after != before:
		w.Violation(id, "schema-apply-not-atomic", desc+": the commit was refused but the database changed; diff="+strings.Join(diffLines(before, after), " ; ")+" stderr="+r.Stderr)
	case newViol:
		// refused and nothing changed: as the property demands
	case bad >= 0 && r.Exit == 0:
		w.Violation(id, "schema-apply-exit", desc+": statement fails in the replay but the command succeeded")
	case bad < 0 && r.Exit != 0:
		w.Violation(id, "schema-apply-exit", desc+": the command failed although every statement replays and no new foreign-key violation results: stderr="+r.Stderr)
	case bad >= 0 && txm != "none" && after != before:
		w.Violation(id, "schema-apply-not-atomic", desc+" diff="+strings.Join(diffLines(before, after), " ; ")+" stderr="+r.Stderr)
	case bad >= 0 && txm == "none" && after != dumps[bad]:
		w.Violation(id, "schema-apply-none-prefix", desc+": expected exactly the successful prefix")
	case bad < 0 && after != dumps[len(stmts)]:
		w.Violation(id, "schema-apply-incomplete", desc+": the successful command did not apply the whole plan")
	}
	// the connection's pragma is the command's own; what must hold of the FILE: a later connection with
	// foreign keys on sees exactly the violations the independent replay predicts
	if got, err := fkViols(db); err == nil {
		var want []string
		known := false
		switch {
		case bad < 0 && len(dumps) == len(stmts)+1 && after == dumps[len(stmts)]:
			want, known = vAfter, true
		case after == before:
			want, known = vBefore, true
		}
		if known && fmt.Sprint(got) != fmt.Sprint(want) {
			w.Violation(id, "schema-apply-fk-state", fmt.Sprintf("%s: foreign_key_check of the target now reports %v, expected %v", desc, got, want))
		}
	}
}

// dryFlagCases (round 5): `migrate apply --dry-run` x --baseline / --allow-dirty / count, on a fresh target and
// on targets with a history (C13_dry_run_flags, C13_dry_run_count).
func dryFlagCases(w *out.W, mu *sync.Mutex, id *int) []func() {
	var fns []func()
	n := 0
	for _, sh := range [][]int{{2, 1}, {1, 2, 1}} {
		base := shapeFiles(sh)
		lastVer := base[len(base)-1].Ver
		broken := cloneFiles(base)
		broken[0].Bad = len(base[0].Stmts) - 1
		type prep struct {
			name  string
			steps []dryStep
		}
		preps := []prep{{"fresh", nil},
			{"one-applied", []dryStep{{mode: "file", n: 1, files: base}}},
			{"all-applied", []dryStep{{mode: "file", files: base}}}}
		if len(base[0].Stmts) >= 2 {
			preps = append(preps, prep{"partial", []dryStep{{mode: "none", files: broken}}})
		}
		for _, pr := range preps {
			fresh := pr.name == "fresh"
			vars := []dryStep{
				{baseline: "1"}, {baseline: "1", both: true, wantFail: true}, {baseline: "1", n: 1}, {baseline: lastVer},
				{baseline: "9", wantFail: fresh}, {noAllow: true, wantFail: fresh}, {n: len(base) + 2}, {baseline: "1", n: len(base) + 2},
			}
			modes := []string{"file"}
			if fresh {
				modes = []string{"none", "file", "all"}
			}
			for _, m := range modes {
				for _, v := range vars {
					v.mode, v.dry, v.files = m, true, base
					*id++
					n++
					c := dryCase{id: fmt.Sprintf("c13dry-%d", *id), label: fmt.Sprintf("flags shape=%v target=%s mode=%s baseline=%q allow-dirty=%v count=%d", sh, pr.name, m, v.baseline, !v.noAllow && (v.baseline == "" || v.both), v.n)}
					c.steps = append(append(c.steps, pr.steps...), v)
					// then the same command for real (same flags), to see what the dry run announced
					real := v
					real.dry = false
					c.steps = append(c.steps, real, dryStep{mode: m, files: base})
					fns = append(fns, func() { runDry(w, mu, c, true) })
				}
			}
		}
	}
	w.Rule += fmt.Sprintf(". Round 5: %d flag scenarios: --dry-run x {--baseline first / last / unknown version, with and without --allow-dirty, neither flag (dirty database), count 1 / beyond the pending files} x target {fresh (3 tx-modes), one file applied, all applied, partial revision}; then the same command without --dry-run and a plain apply", n)
	return fns
}

// round 5: p is referenced by rows of c; p is rebuilt (v becomes NOT NULL); t gets a unique index (over duplicates or not)
const r5Desired = "CREATE TABLE c (id INTEGER PRIMARY KEY, pid INTEGER REFERENCES p (id));\nCREATE TABLE p (id INTEGER PRIMARY KEY, v INTEGER NOT NULL);\nCREATE TABLE t (a INTEGER, b INTEGER);\n"

func r5Setup(dups bool) []string {
	s := []string{"CREATE TABLE p (id INTEGER PRIMARY KEY, v INTEGER)", "INSERT INTO p VALUES (1, 5)", "INSERT INTO p VALUES (2, 6)",
		"CREATE TABLE c (id INTEGER PRIMARY KEY, pid INTEGER REFERENCES p (id))", "INSERT INTO c VALUES (1, 1)", "INSERT INTO c VALUES (2, 2)",
		"CREATE TABLE t (a INTEGER, b INTEGER)", "INSERT INTO t VALUES (1, 1)"}
	if dups {
		return append(s, "INSERT INTO t VALUES (1, 2)")
	}
	return append(s, "INSERT INTO t VALUES (2, 2)")
}
