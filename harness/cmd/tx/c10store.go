package main

import (
	"crypto/sha256"
	"encoding/base64"
	"encoding/json"
	"fmt"
	"os"
	"path/filepath"
	"strings"
	"sync"

	"ariga.io/atlas/sql/migrate"

	"verifharness/internal/clirun"
	"verifharness/internal/out"
)

// ---- C10 round 4: crash consistency over the revision STORE contract ----------
//
// The crash model assumes of the store (cmd/atlas/internal/migrate: EntRevisions)
// that a write is an upsert that overwrites EVERY field of the row and that a read
// returns the exact row, "does not exist", or an error. Three scenario classes in
// which a store that is weaker than that loses or repeats statements:
//  (1) the file changed between the crash and the re-run (statement replaced by
//      two / statements appended, re-hashed) and the re-run is killed right after
//      a revision write: total, hash, partial_hashes of the stored row must be
//      those of the file as it is now;
//  (2) the re-run after a crash meets "database is locked" on exactly one read or
//      write of atlas_schema_revisions (sqlitefault:// hook): it must fail without
//      executing anything it should not, the run after that completes;
//  (3) a file with a `txmode none` directive under --tx-mode file runs
//      auto-committed: every progress write must be stored.
// For the model a storage fault is a crash right before the next revision write
// (a failing write leaves the table unchanged and every later write is skipped; a
// failing read returns before anything is written), so the cases are compared
// with the crash model as it is.

var storeProbe = []string{
	"SELECT version||'|'||applied||'|'||total||'|'||hash||'|'||replace(ifnull(partial_hashes,'null'),',',';') FROM atlas_schema_revisions ORDER BY version",
}

// wantRow: hash and partial hashes the row of file f must carry when `applied` of its statements ran.
func fileHashes(files []tfile) (map[string]string, map[string][]string, error) {
	tmp, err := os.MkdirTemp("", "vhash")
	if err != nil {
		return nil, nil, err
	}
	defer os.RemoveAll(tmp)
	fm := map[string]string{}
	for _, f := range files {
		fm[f.name()] = f.content()
	}
	if err := clirun.WriteDir(tmp, fm); err != nil {
		return nil, nil, err
	}
	d, err := migrate.NewLocalDir(tmp)
	if err != nil {
		return nil, nil, err
	}
	hf, err := d.Checksum()
	if err != nil {
		return nil, nil, err
	}
	hashes, partial := map[string]string{}, map[string][]string{}
	for _, f := range files {
		h, err := hf.SumByName(f.name())
		if err != nil {
			return nil, nil, err
		}
		hashes[f.Ver] = h
		lf := migrate.NewLocalFile(f.name(), []byte(f.content()))
		stmts, err := lf.StmtDecls()
		if err != nil {
			return nil, nil, err
		}
		sum := sha256.New()
		for _, st := range stmts {
			sum.Write([]byte(st.Text))
			partial[f.Ver] = append(partial[f.Ver], "h1:"+base64.StdEncoding.EncodeToString(sum.Sum(nil)))
		}
	}
	return hashes, partial, nil
}

// checkRows: every stored row describes the file as it is NOW: total = its statement count;
// applied <= statements present; a completed row has no partial hashes and the file's hash; a
// partial row carries exactly the cumulative hashes of the file's first `applied` statements.
func checkRows(files []tfile, o obs, strictTotal, settled bool, orig []tfile) string {
	hashes, partial, err := fileHashes(files)
	if err != nil {
		return "harness: " + err.Error()
	}
	// `hash` is stored when the revision is created and atlas never refreshes it (Execute sets Hash only
	// for a new revision; nothing reads it back): it must be the hash of the file at its first attempt
	// or of the file as it is now, nothing else
	origHashes := map[string]string{}
	if orig != nil {
		if origHashes, _, err = fileHashes(orig); err != nil {
			return "harness: " + err.Error()
		}
	}
	if o.Extra == "" {
		return ""
	}
	for _, row := range strings.Split(o.Extra, ",") {
		p := strings.SplitN(row, "|", 5)
		if len(p) != 5 {
			return "unexpected row " + row
		}
		var f *tfile
		for i := range files {
			if files[i].Ver == p[0] {
				f = &files[i]
			}
		}
		if f == nil {
			continue
		}
		var applied, total int
		fmt.Sscan(p[1], &applied)
		fmt.Sscan(p[2], &total)
		if strictTotal && total != len(f.Stmts) {
			return fmt.Sprintf("revision %s: total=%d but the file has %d statements", p[0], total, len(f.Stmts))
		}
		if applied > total {
			return fmt.Sprintf("revision %s: applied=%d > total=%d", p[0], applied, total)
		}
		var ph []string
		if p[4] != "null" && p[4] != "" {
			if err := json.Unmarshal([]byte(strings.ReplaceAll(p[4], ";", ",")), &ph); err != nil {
				return fmt.Sprintf("revision %s: partial_hashes %q: %v", p[0], p[4], err)
			}
		}
		if p[3] != hashes[p[0]] && p[3] != origHashes[p[0]] {
			return fmt.Sprintf("revision %s: hash=%s is neither the hash of the file as first attempted (%s) nor as it is now (%s)", p[0], p[3], origHashes[p[0]], hashes[p[0]])
		}
		// (a run killed between the last progress write and the closing write leaves a completed row that
		// keeps its partial hashes for ever -- Pending no longer looks at it; they must still be the file's)
		_ = settled
		if len(ph) > 0 {
			if len(ph) != applied || fmt.Sprint(ph) != fmt.Sprint(partial[p[0]][:applied]) {
				return fmt.Sprintf("revision %s: applied=%d partial_hashes=%v, the file's first %d statements hash to %v", p[0], applied, ph, applied, partial[p[0]][:applied])
			}
		}
	}
	return ""
}

// faultModelView: a storage fault that fired and stopped the run is, for the model, a crash
// right before write number (#writes that reached the driver before it) + 1.
func faultModelView(steps []step, res []obs) {
	for i := range steps {
		if steps[i].Fault == "" {
			continue
		}
		nw, fired := 0, false
		for _, k := range res[i].SQL {
			if strings.HasSuffix(k, "!") {
				fired = true
				break
			}
			if k == "w" {
				nw++
			}
		}
		if fired && res[i].Exit != "ok" {
			steps[i].ModelCrash, steps[i].ModelK = "before-write", nw+1
			res[i].ExitModel = "crash"
		}
	}
}

func mkFile(ver string, dir string, bad int, ids ...int) tfile {
	return tfile{Ver: ver, Directive: dir, Bad: bad, Stmts: append([]int{}, ids...)}
}

func count(l []string, x string) int {
	n := 0
	for _, y := range l {
		if y == x {
			n++
		}
	}
	return n
}

// exactlyOnce judges the end of a history: exit ok, the journal is the plan (every statement of
// the final files, in order) with at most maxDups immediate repeats, rows complete and current,
// and a further apply changes nothing.
func exactlyOnce(w *out.W, id, desc string, final, orig []tfile, maxDups int, last, further obs) bool {
	want := flat(final)
	var dedup []int
	dups := 0
	for i, s := range last.Journal {
		if i > 0 && last.Journal[i-1] == s {
			dups++
			continue
		}
		dedup = append(dedup, s)
	}
	lost := -1
	for _, x := range want {
		if countOf(last.Journal, x) == 0 {
			lost = x
			break
		}
	}
	switch {
	case last.Exit != "ok":
		w.Violation(id, "rerun-failed", "the final apply failed: "+desc+" stderr="+last.Stderr)
	case lost >= 0:
		w.Violation(id, "statement-lost", fmt.Sprintf("statement %d of the final file never ran (journal=%v want %v): %s", lost, last.Journal, want, desc))
	case fmt.Sprint(dedup) != fmt.Sprint(want):
		w.Violation(id, "executed-twice", fmt.Sprintf("journal=%v want %v (each once, in order): %s", last.Journal, want, desc))
	case dups > maxDups:
		w.Violation(id, "repeat-without-in-flight", fmt.Sprintf("journal=%v: %d repeated statement(s), at most %d was in flight: %s", last.Journal, dups, maxDups, desc))
	case further.Exit != "ok" || fmt.Sprint(further.Journal) != fmt.Sprint(last.Journal):
		w.Violation(id, "not-settled", fmt.Sprintf("a further apply changed something: exit=%s journal=%v: %s", further.Exit, further.Journal, desc))
	default:
		if msg := checkRows(final, last, true, true, orig); msg != "" {
			w.Violation(id, "stored-row-stale", msg+": "+desc)
			return false
		}
		for _, r := range last.Revs {
			p := strings.Split(r, ":")
			if p[1] != p[2] || p[4] != "0" {
				w.Violation(id, "stored-row-stale", fmt.Sprintf("revision %s not complete after the final apply: %s", r, desc))
				return false
			}
		}
		return true
	}
	return false
}

func genC10Store(w *out.W, tier string, mu *sync.Mutex) []job {
	var jobs []job
	var jmu sync.Mutex
	nid := 0
	newID := func() string { nid++; return fmt.Sprintf("c10st-%d", nid) }
	show := func(res []obs) string {
		var b strings.Builder
		for i, o := range res {
			fmt.Fprintf(&b, " s%d{exit=%s journal=%v revs=%v rows=%s sql=%s}", i, o.Exit, o.Journal, o.Revs, o.Extra, strings.Join(o.SQL, ""))
		}
		return b.String()
	}
	var phase1 []func()

	// ---------------- class 1: the file changed between the incident and the re-run
	type edit struct {
		name string
		f    func(b int) []int // statement ids of the edited 3-statement file whose statement b failed / was next
	}
	edits := []edit{
		{"replace-by-two", func(b int) []int {
			ids := []int{1, 2, 3}
			return append(append(append([]int{}, ids[:b]...), 7, 8), ids[b+1:]...)
		}},
		{"append", func(b int) []int { return []int{1, 2, 3, 9} }},
		{"replace-by-two-and-append", func(b int) []int {
			ids := []int{1, 2, 3}
			return append(append(append(append([]int{}, ids[:b]...), 7, 8), ids[b+1:]...), 9)
		}},
	}
	type cfg struct {
		mode, dir string
		before    bool // a completed file before the edited one
	}
	cfgs := []cfg{{"none", "", false}, {"file", "none", true}}
	if tier == "thorough" {
		cfgs = append(cfgs, cfg{"none", "", true}, cfg{"file", "none", false}, cfg{"none", "none", false})
	}
	for _, c := range cfgs {
		for _, b := range []int{1, 2} {
			for _, first := range []string{"fails", "killed"} {
				for _, e := range edits {
					if tier == "quick" && c.dir != "" && (e.name != "replace-by-two-and-append" || b != 1) {
						continue
					}
					c, b, first, e := c, b, first, e
					mk := func(ids []int, bad int) []tfile {
						var fs []tfile
						ver := "1"
						if c.before {
							fs = append(fs, mkFile("1", "", -1, 5, 6))
							ver = "2"
						}
						return append(fs, mkFile(ver, c.dir, bad, ids...))
					}
					s0 := step{Mode: c.mode, Files: mk([]int{1, 2, 3}, -1)}
					if first == "fails" {
						s0.Files = mk([]int{1, 2, 3}, b)
					} else {
						// killed right after the progress write of statement b (1-based): b statements applied
						k := 1 + b
						if c.before {
							k += 4 // the writes of the completed file: started, 2 statements, done
						}
						s0.CrashPoint, s0.CrashK = "after-write", k
					}
					final := mk(e.f(b), -1)
					label := fmt.Sprintf("file-changed: --tx-mode %s directive=%q file-before=%v; 3 statements, first run %s with %d applied; then edit=%s -> %v", c.mode, c.dir, c.before, first, b, e.name, flat(final))
					phase1 = append(phase1, func() {
						ref, err := runScenarioX([]step{s0, {Mode: c.mode, Files: final}}, nil, storeProbe)
						if err != nil {
							mu.Lock()
							w.Violation("c10st-ref", "harness", label+": "+err.Error())
							mu.Unlock()
							return
						}
						if ref[1].Exit != "ok" || fmt.Sprint(ref[1].Journal) != fmt.Sprint(flat(final)) {
							mu.Lock()
							w.Violation("c10st-ref", "reference-run", fmt.Sprintf("%s: the re-run without crash: exit=%s journal=%v want %v stderr=%s", label, ref[1].Exit, ref[1].Journal, flat(final), ref[1].Stderr))
							mu.Unlock()
							return
						}
						nw := count(ref[1].Points, "after-write")
						jmu.Lock()
						defer jmu.Unlock()
						for k := 1; k <= nw; k++ {
							k := k
							steps := []step{s0, {Mode: c.mode, CrashPoint: "after-write", CrashK: k, Files: final}, {Mode: c.mode, Files: final}, {Mode: c.mode, Files: final}}
							jobs = append(jobs, job{id: newID(), steps: steps, probe: storeProbe, post: func(id string, steps []step, res []obs) {
								w.Count("store:file-changed:" + c.mode + "/" + c.dir)
								w.Count("store:file-changed:edit:" + e.name)
								desc := fmt.Sprintf("%s; re-run killed at after-write:%d:%s", label, k, show(res))
								if res[1].Exit == "crash" {
									w.NonTrivial(fmt.Sprintf("%s|%d", label, k))
								} else {
									w.Violation(id, "no-crash", "the crash point was not reached: "+desc)
									return
								}
								// the row the killed re-run left describes the file as it is now
								// (the first write of a resumed file stores the row as it was read: total is brought up to
								// date by the first progress write, so it is judged once this run has stored progress)
								progressed := fmt.Sprint(res[1].Journal) != fmt.Sprint(res[0].Journal)
								if msg := checkRows(final, res[1], progressed, false, s0.Files); msg != "" {
									w.Violation(id, "stored-row-stale", "after the killed re-run: "+msg+": "+desc)
									return
								}
								exactlyOnce(w, id, desc, final, s0.Files, 0, res[2], res[3])
							}})
						}
					})
				}
			}
		}
	}

	// ---------------- class 2: a storage fault on the re-run after a crash
	type base struct {
		label string
		mode  string
		files []tfile
		crash int // after-write:k of the first run (in the middle of the none-mode file)
	}
	bases := []base{
		{"--tx-mode none, [3], killed with 1 applied", "none", []tfile{mkFile("1", "", -1, 1, 2, 3)}, 2},
		{"--tx-mode none, [3], killed with 2 applied", "none", []tfile{mkFile("1", "", -1, 1, 2, 3)}, 3},
		{"--tx-mode none, [2,2], killed with 1 of file 2 applied", "none", []tfile{mkFile("1", "", -1, 1, 2), mkFile("2", "", -1, 3, 4)}, 6},
		{"--tx-mode file, [2] + [3] with 'txmode none', killed with 2 of file 2 applied", "file", []tfile{mkFile("1", "", -1, 1, 2), mkFile("2", "none", -1, 3, 4, 5)}, 7},
		{"--tx-mode file, [3] with 'txmode none' + [2], killed with 1 of file 1 applied", "file", []tfile{mkFile("1", "none", -1, 1, 2, 3), mkFile("2", "", -1, 4, 5)}, 2},
	}
	for _, b := range bases {
		b := b
		s0 := step{Mode: b.mode, CrashPoint: "after-write", CrashK: b.crash, Files: b.files}
		phase1 = append(phase1, func() {
			ref, err := runScenarioX([]step{s0, {Mode: b.mode, Files: b.files, UseFault: true}}, nil, storeProbe)
			if err != nil || ref[0].Exit != "crash" || ref[1].Exit != "ok" || fmt.Sprint(ref[1].Journal) != fmt.Sprint(flat(b.files)) {
				mu.Lock()
				w.Violation("c10st-ref", "reference-run", fmt.Sprintf("storage-fault base %s: err=%v%s", b.label, err, show(ref)))
				mu.Unlock()
				return
			}
			if count(ref[1].SQL, "r") == 0 || count(ref[1].SQL, "w") == 0 {
				mu.Lock()
				w.Violation("c10st-ref", "hook-missing", "the CLI under test does not log revision reads/writes through sqlitefault:// (cmd/atlas/verif_sqlfault.go): "+show(ref))
				mu.Unlock()
				return
			}
			jmu.Lock()
			defer jmu.Unlock()
			for _, kind := range []string{"r", "w"} {
				for n := 1; n <= count(ref[1].SQL, kind); n++ {
					fault := fmt.Sprintf("%s@%d", kind, n)
					steps := []step{s0, {Mode: b.mode, Files: b.files, UseFault: true, Fault: fault}, {Mode: b.mode, Files: b.files}, {Mode: b.mode, Files: b.files}}
					jobs = append(jobs, job{id: newID(), steps: steps, probe: storeProbe, pre: faultModelView, post: func(id string, steps []step, res []obs) {
						w.Count("store:fault:" + kind)
						desc := fmt.Sprintf("storage fault on the re-run: %s; 'database is locked' on %s of atlas_schema_revisions:%s", b.label, fault, show(res))
						fired, afterExec := false, false
						for i, k := range res[1].SQL {
							if strings.HasSuffix(k, "!") {
								fired = true
								afterExec = k == "w!" && i > 0 && res[1].SQL[i-1] == "x"
							}
						}
						if !fired {
							w.Violation(id, "harness", "the fault did not fire: "+desc)
							return
						}
						w.NonTrivial(b.label + "|" + fault)
						if res[1].Exit != "fail" {
							w.Violation(id, "storage-error-swallowed", fmt.Sprintf("the run met a storage error and exited %s: %s", res[1].Exit, desc))
							return
						}
						// nothing ran that should not: no statement twice, plan order
						plan := flat(b.files)
						if len(res[1].Journal) > len(plan) || fmt.Sprint(res[1].Journal) != fmt.Sprint(plan[:len(res[1].Journal)]) {
							w.Violation(id, "executed-twice", fmt.Sprintf("the failing run executed statements it should not: journal=%v, plan %v: %s", res[1].Journal, plan, desc))
							return
						}
						for _, r := range res[1].Revs {
							p := strings.Split(r, ":")
							var applied int
							fmt.Sscan(p[1], &applied)
							have := 0
							for _, f := range b.files {
								if f.Ver == p[0] {
									for _, s := range f.Stmts {
										if countOf(res[1].Journal, s) > 0 {
											have++
										}
									}
								}
							}
							if applied > have {
								w.Violation(id, "rev-overclaims", fmt.Sprintf("revision %s claims %d statements, %d present: %s", p[0], applied, have, desc))
								return
							}
						}
						maxDups := 0
						if afterExec {
							maxDups = 1 // the statement whose progress write was refused
						}
						exactlyOnce(w, id, desc, b.files, b.files, maxDups, res[2], res[3])
					}})
				}
			}
		})
	}

	// ---------------- class 3: a `txmode none` file under --tx-mode file: a statement fails and the
	// write that records the failure is refused; the progress writes before it must have been stored
	for _, bad := range []int{1, 2} {
		for _, before := range []bool{false, true} {
			bad, before := bad, before
			mk := func(b int) []tfile {
				var fs []tfile
				ver := "1"
				if before {
					fs = append(fs, mkFile("1", "", -1, 5, 6))
					ver = "2"
				}
				return append(fs, mkFile(ver, "none", b, 1, 2, 3), mkFile("9", "", -1, 4))
			}
			label := fmt.Sprintf("--tx-mode file, 3-statement file with 'txmode none' (file before=%v, one file after), statement %d fails", before, bad+1)
			phase1 = append(phase1, func() {
				ref, err := runScenarioX([]step{{Mode: "file", Files: mk(bad), UseFault: true}}, nil, storeProbe)
				if err != nil || ref[0].Exit != "fail" {
					mu.Lock()
					w.Violation("c10st-ref", "reference-run", fmt.Sprintf("%s: err=%v%s", label, err, show(ref)))
					mu.Unlock()
					return
				}
				nw := count(ref[0].SQL, "w")
				jmu.Lock()
				defer jmu.Unlock()
				for _, fault := range []string{"", fmt.Sprintf("w@%d", nw)} {
					fault := fault
					steps := []step{{Mode: "file", Files: mk(bad), UseFault: true, Fault: fault}, {Mode: "file", Files: mk(-1)}, {Mode: "file", Files: mk(-1)}}
					jobs = append(jobs, job{id: newID(), steps: steps, probe: storeProbe, pre: faultModelView, post: func(id string, steps []step, res []obs) {
						w.Count("store:directive-none-failure:" + fault)
						desc := fmt.Sprintf("%s; failure-recording write refused=%v; then fixed:%s", label, fault != "", show(res))
						if res[0].Exit != "fail" {
							w.Violation(id, "storage-error-swallowed", "the failing run exited "+res[0].Exit+": "+desc)
							return
						}
						w.NonTrivial(label + "|" + fault)
						// the re-run resumes after the statements that ran: each exactly once
						exactlyOnce(w, id, desc, mk(-1), mk(bad), 0, res[1], res[2])
					}})
				}
			})
		}
	}
	clirun.Parallel(16, phase1)
	w.Rule += fmt.Sprintf(". Plus %d store-contract scenarios (c10st-*): (1) a 3-statement file that failed at / was killed after statement 1 or 2 (--tx-mode none; 'txmode none' directive under --tx-mode file after a completed file), then edited (statement replaced by two, statement appended, both) and re-hashed, the re-run killed at EVERY after-write, apply, apply: the row left by the killed re-run and the final rows must carry total / hash / partial_hashes of the file as it is now, every statement of the final file exactly once; (2) 5 crashed states (none: [3] with 1 or 2 applied, [2,2]; file + directive none on the 2nd / 1st file) x 'database is locked' on every single read and every single write of atlas_schema_revisions of the re-run (sqlitefault:// hook), apply, apply: the faulted run exits with an error, executes nothing twice, and the next run completes with every statement exactly once (one repeat only for the statement whose progress write was refused); (3) 'txmode none' file under --tx-mode file whose statement 2 / 3 fails, with and without the failure-recording write refused, then fixed: resumes after the statements that ran. A storage fault is compared with the model as a crash right before the next revision write; crash cases of every stage now allow a repeated statement only if one was in flight (between after-exec and the end of its progress write)", len(jobs))
	return jobs
}

var _ = filepath.Join
