// Command tx drives the real `atlas migrate apply` binary on SQLite files for
// the crash-consistency (C10) and failure-atomicity (C13) properties, prints
// the scenarios as input for the extracted M-TX model, the observations of
// the real runs, and evaluates each property's oracle on those observations.
package main

import (
	"flag"
	"fmt"
	"os"
	"path/filepath"
	"sort"
	"strings"
	"sync"

	"ariga.io/atlas/sql/migrate"

	"verifharness/internal/clirun"
	"verifharness/internal/execrun"
	"verifharness/internal/out"
)

type tfile struct {
	Ver       string
	Directive string // "", none, file, all, bogus
	Bad       int    // index of the failing statement, -1 = none
	Stmts     []int  // statement ids
	Ckpt      bool   // checkpoint file (-- atlas:checkpoint)
	Texts     map[int]string // statement index -> SQL text instead of the journal INSERT (C13 fk stage)
}

type step struct {
	Mode       string
	N          int
	CrashPoint string
	CrashK     int
	DryRun     bool
	Files      []tfile
	Order      string // "" (linear) | linear-skip | non-linear: --exec-order (round 5)
	KillSQL    string // round 5: "<regex>@<n>:before|after" -> VERIF_SQL_KILL through the sqlitekill:// scheme of the verif build
	// round 4 (storage contract): run through the sqlitefault:// scheme of the verif build
	UseFault bool   // log the statements that reach the driver (VERIF_SQL_LOG)
	Fault    string // "r@n" / "w@n": the n-th read / write of atlas_schema_revisions fails with "database is locked"
	// what the step is for the model: a storage fault leaves the state a crash right before the next
	// revision write leaves (filled in after the run from the driver log)
	ModelCrash string
	ModelK     int
}

type obs struct {
	Exit    string
	Journal []int
	Revs    []string
	Points  []string
	Stderr  string
	// only filled for scenarios with a probe (large transactions, C10 round 3)
	HotJournal int64  // size of the rollback journal the process left behind (before anyone reopened the file)
	DBSize     int64  // size of the database file at that moment
	Extra      string // result of the scenario's probe queries, read after the journal/revisions
	SQL        []string // UseFault: kinds of the statements that reached the driver: r / w (revisions table), x (journal); "!" = injected failure
	ExitModel  string   // exit class printed for the model comparison if it differs from Exit (storage fault = "crash")
}

func (f tfile) name() string { return f.Ver + "_f.sql" }

func (f tfile) content() string {
	var b strings.Builder
	if f.Ckpt {
		b.WriteString("-- atlas:checkpoint\n")
	}
	if f.Directive != "" {
		b.WriteString("-- atlas:txmode " + f.Directive + "\n")
	}
	if f.Ckpt || f.Directive != "" {
		b.WriteString("\n")
	}
	for i, id := range f.Stmts {
		if t, ok := f.Texts[i]; ok {
			b.WriteString(t + ";\n")
		} else if i == f.Bad {
			fmt.Fprintf(&b, "INSERT INTO missing VALUES (%d);\n", id)
		} else {
			fmt.Fprintf(&b, "INSERT INTO journal VALUES (%d);\n", id)
		}
	}
	return b.String()
}

func (s step) tokens() []string {
	cp, ck := s.CrashPoint, s.CrashK
	if s.ModelCrash != "" {
		cp, ck = s.ModelCrash, s.ModelK
	}
	if cp == "" {
		cp = "-"
	}
	mtok := s.Mode
	if s.Order != "" {
		mtok += "/" + s.Order
	}
	toks := []string{mtok, fmt.Sprint(s.N), cp, fmt.Sprint(ck), fmt.Sprint(len(s.Files))}
	fs := append([]tfile{}, s.Files...)
	sort.Slice(fs, func(i, j int) bool { return fs[i].name() < fs[j].name() })
	for _, f := range fs {
		d := f.Directive
		switch d {
		case "":
			d = "-"
		case "none", "file", "all":
		default:
			d = "bad"
		}
		if f.Ckpt {
			d += "!"
		}
		bad := "-"
		if f.Bad >= 0 {
			bad = fmt.Sprint(f.Bad)
		}
		lf := migrate.NewLocalFile(f.name(), []byte(f.content()))
		stmts, err := lf.StmtDecls()
		if err != nil {
			panic(err)
		}
		toks = append(toks, execrun.Hex(lf.Version()), d, bad, fmt.Sprint(len(stmts)))
		for _, st := range stmts {
			toks = append(toks, execrun.Hex(st.Text))
		}
	}
	return toks
}

func (o obs) String(withPoints bool) string {
	js := make([]string, len(o.Journal))
	for i, j := range o.Journal {
		js[i] = fmt.Sprint(j)
	}
	pts := ""
	ex := o.Exit
	if o.ExitModel != "" {
		ex = o.ExitModel
	}
	if withPoints && ex != "crash" {
		pts = strings.Join(o.Points, ",")
	}
	return fmt.Sprintf("exit=%s journal=[%s] revs=[%s] points=[%s]", ex, strings.Join(js, ","), strings.Join(o.Revs, " "), pts)
}

// readState reads the journal and the revision table with the independent client.
func readState(db string) (journal []int, revs []string, err error) {
	rows, err := clirun.Query(db, "SELECT id FROM journal ORDER BY rowid")
	if err != nil {
		return nil, nil, err
	}
	for _, r := range rows {
		var v int
		fmt.Sscan(r, &v)
		journal = append(journal, v)
	}
	if !clirun.TableExists(db, "atlas_schema_revisions") {
		return journal, nil, nil
	}
	rr, err := clirun.Query(db, "SELECT version, applied, total, ifnull(partial_hashes,''), ifnull(error,''), type FROM atlas_schema_revisions ORDER BY version")
	if err != nil {
		return nil, nil, err
	}
	for _, r := range rr {
		p := strings.Split(r, "|")
		nh := strings.Count(p[3], "h1:")
		e := "0"
		if p[4] != "" {
			e = "1"
		}
		revs = append(revs, fmt.Sprintf("%s:%s:%s:%d:%s:%s", p[0], p[1], p[2], nh, e, p[5]))
	}
	return journal, revs, nil
}

// runScenario executes the steps on a fresh database.
func runScenario(steps []step) ([]obs, error) { return runScenarioX(steps, nil, nil) }

// runScenarioX: the same with extra setup statements (run by the independent
// client after `CREATE TABLE journal`) and probe queries evaluated after every step.
func runScenarioX(steps []step, setup []string, probe []string) ([]obs, error) {
	tmp, err := os.MkdirTemp("", "vtx")
	if err != nil {
		return nil, err
	}
	defer os.RemoveAll(tmp)
	db := filepath.Join(tmp, "t.db")
	if err := clirun.Exec(db, append([]string{"CREATE TABLE journal (id INTEGER)"}, setup...)...); err != nil {
		return nil, err
	}
	var res []obs
	for _, s := range steps {
		files := map[string]string{}
		for _, f := range s.Files {
			files[f.name()] = f.content()
		}
		mdir := filepath.Join(tmp, "m")
		if err := clirun.WriteDir(mdir, files); err != nil {
			return nil, err
		}
		args := []string{"migrate", "apply"}
		if s.N > 0 {
			args = append(args, fmt.Sprint(s.N))
		}
		scheme := "sqlite://"
		sqllog := filepath.Join(tmp, "sql.log")
		if s.UseFault {
			scheme = "sqlitefault://"
			os.Remove(sqllog)
		}
		if s.KillSQL != "" {
			scheme = "sqlitekill://"
		}
		args = append(args, "--dir", "file://"+mdir, "--url", scheme+db, "--tx-mode", s.Mode, "--allow-dirty")
		if s.DryRun {
			args = append(args, "--dry-run")
		}
		if s.Order != "" {
			args = append(args, "--exec-order", s.Order)
		}
		var env []string
		if s.CrashPoint != "" {
			env = append(env, fmt.Sprintf("VERIF_CRASH_AT=%s:%d", s.CrashPoint, s.CrashK))
		}
		if s.KillSQL != "" {
			env = append(env, "VERIF_SQL_KILL="+s.KillSQL)
		}
		if s.UseFault {
			env = append(env, "VERIF_SQL_LOG="+sqllog)
			if s.Fault != "" {
				re := "^SELECT .* FROM .atlas_schema_revisions."
				if s.Fault[0] == 'w' {
					re = "^INSERT INTO .atlas_schema_revisions."
				}
				env = append(env, "VERIF_SQL_FAULT="+re+s.Fault[1:])
			}
		}
		r := clirun.Run(tmp, env, args...)
		o := obs{Stderr: r.Stderr}
		switch r.Exit {
		case 0:
			o.Exit = "ok"
		case 137:
			o.Exit = "crash"
		default:
			o.Exit = "fail"
		}
		if s.UseFault {
			b, _ := os.ReadFile(sqllog)
			for _, l := range strings.Split(string(b), "\n") {
				if len(l) < 6 {
					continue
				}
				tag, q := strings.TrimSpace(l[:5]), l[5:]
				kind := ""
				switch {
				case strings.HasPrefix(q, "SELECT ") && strings.Contains(q, "FROM `atlas_schema_revisions`"):
					kind = "r"
				case strings.HasPrefix(q, "INSERT INTO `atlas_schema_revisions`"):
					kind = "w"
				case strings.HasPrefix(q, "INSERT INTO journal"), strings.HasPrefix(q, "INSERT INTO missing"):
					kind = "x"
				default:
					continue
				}
				if tag == "FAIL" {
					kind += "!"
				}
				o.SQL = append(o.SQL, kind)
			}
		}
		if o.Exit != "crash" {
			o.Points = r.Points
		} else {
			// A killed process leaves its advisory lock file behind until it expires
			// (--lock-timeout); let it expire. Lock files are outside the model.
			if ls, _ := filepath.Glob(filepath.Join(tmp, "*.lock")); len(ls) > 0 {
				for _, l := range ls {
					os.Remove(l)
				}
			}
		}
		if probe != nil {
			// before any other connection opens the file (it would roll a hot journal back)
			if st, err := os.Stat(db + "-journal"); err == nil {
				o.HotJournal = st.Size()
			}
			if st, err := os.Stat(db); err == nil {
				o.DBSize = st.Size()
			}
		}
		o.Journal, o.Revs, err = readState(db)
		if err != nil {
			return nil, err
		}
		var ex []string
		for _, q := range probe {
			r, err := clirun.Query(db, q)
			if err != nil {
				return nil, err
			}
			ex = append(ex, strings.Join(r, ","))
		}
		o.Extra = strings.Join(ex, ";")
		res = append(res, o)
	}
	return res, nil
}

var allShapes = [][]int{{1}, {2}, {3}, {1, 1}, {1, 2}, {2, 1}, {2, 2}, {3, 1}, {1, 3}, {2, 3}, {3, 3}, {1, 1, 1}, {2, 1, 2}}

func shapeFiles(shape []int) []tfile {
	var fs []tfile
	id := 0
	for i, n := range shape {
		f := tfile{Ver: fmt.Sprint(i + 1), Bad: -1}
		for j := 0; j < n; j++ {
			id++
			f.Stmts = append(f.Stmts, id)
		}
		fs = append(fs, f)
	}
	return fs
}

func flat(fs []tfile) []int {
	var l []int
	for _, f := range fs {
		l = append(l, f.Stmts...)
	}
	return l
}

type job struct {
	id    string
	steps []step
	post  func(id string, steps []step, res []obs)
	pre   func(steps []step, res []obs) // before the case is recorded (fills the model view of fault steps)
	setup []string // extra setup statements / probe queries (runScenarioX)
	probe []string
}

func main() {
	mode := flag.String("mode", "c10", "c10|c13")
	tier := flag.String("tier", "quick", "quick|thorough")
	outDir := flag.String("out", "", "output directory")
	flag.Parse()
	if *outDir == "" {
		fmt.Fprintln(os.Stderr, "missing -out")
		os.Exit(2)
	}
	if *mode == "gen" {
		if err := genCrashPoints(*outDir); err != nil {
			fmt.Fprintln(os.Stderr, "gen:", err)
			os.Exit(1)
		}
		return
	}
	if _, err := os.Stat(clirun.Bin()); err != nil {
		fmt.Fprintln(os.Stderr, "atlas binary not found:", clirun.Bin())
		os.Exit(2)
	}
	w := out.New(*outDir)
	defer w.Close()
	var mu sync.Mutex
	var jobs []job
	switch *mode {
	case "c10":
		jobs = genC10(w, *tier, &mu)
	case "c13":
		jobs = genC13(w, *tier, &mu)
	case "c13dry":
		clirun.Parallel(16, genC13Dry(w, *tier, &mu))
		return
	case "c10lock":
		clirun.Parallel(16, genC10Lock(w, *tier, &mu))
		return
	case "c13fk":
		clirun.Parallel(16, genC13Fk(w, *tier, &mu))
		return
	default:
		os.Exit(2)
	}
	var fns []func()
	for _, j := range jobs {
		j := j
		fns = append(fns, func() {
			res, err := runScenarioX(j.steps, j.setup, j.probe)
			mu.Lock()
			defer mu.Unlock()
			if err != nil {
				w.Violation(j.id, "harness", err.Error())
				return
			}
			if j.pre != nil {
				j.pre(j.steps, res)
			}
			record(w, j.id, j.steps, res)
			j.post(j.id, j.steps, res)
		})
	}
	clirun.Parallel(16, fns)
}

func record(w *out.W, id string, steps []step, res []obs) {
	toks := []string{fmt.Sprint(len(steps))}
	var lines []string
	for i, s := range steps {
		toks = append(toks, s.tokens()...)
		lines = append(lines, fmt.Sprintf("step%d %s", i, res[i].String(true)))
	}
	w.Case(id, strings.Join(toks, " "), lines)
}

// ---- C10 -------------------------------------------------------------------

func genC10(w *out.W, tier string, mu *sync.Mutex) []job {
	shapes := allShapes
	if tier == "quick" {
		shapes = [][]int{{1}, {2}, {3}, {1, 1}, {2, 2}, {1, 3}, {3, 2}, {1, 1, 1}, {2, 1, 2}}
	}
	// directories with a per-file txmode directive (valid combinations only: the
	// invalid ones are C13's) and with checkpoint files
	type dcase struct {
		files []tfile
		modes []string
		label string
	}
	var extra []dcase
	dirShapes := [][]int{{2, 2}, {3, 1}}
	if tier == "thorough" {
		dirShapes = [][]int{{2, 2}, {3, 1}, {1, 3}, {3, 3}, {2, 1, 2}, {1, 2, 2}}
	}
	for _, sh := range dirShapes {
		for on := range sh {
			for _, d := range []string{"none", "file"} {
				fs := shapeFiles(sh)
				fs[on].Directive = d
				global := "file"
				if d == "file" {
					global = "none"
				}
				extra = append(extra, dcase{fs, []string{global}, fmt.Sprintf("directive %s on file %d under --tx-mode %s", d, on+1, global)})
			}
		}
	}
	ck := func(sh []int, cks ...int) []tfile {
		fs := shapeFiles(sh)
		for _, c := range cks {
			fs[c].Ckpt = true
		}
		return fs
	}
	ckModes := []string{"none"}
	if tier == "thorough" {
		ckModes = []string{"none", "file", "all"}
	}
	extra = append(extra,
		dcase{ck([]int{2, 1}, 0), ckModes, "checkpoint first"},
		dcase{ck([]int{1, 2, 1}, 1), ckModes, "checkpoint in the middle"},
		dcase{ck([]int{1, 2, 1, 1}, 0, 2), ckModes, "two checkpoints, files between and after"},
		dcase{ck([]int{2, 1, 3, 1}, 0, 2), ckModes, "two checkpoints, three statements in the last"},
	)
	w.Exhaust = true
	w.Rule = fmt.Sprintf("exhaustive: (%d directory shapes (files x statements) x tx-mode {none,file,all} + %d directories with a 'txmode none|file' directive on one file under the other global mode or with one/two checkpoint files) x every crash point the run passes (before/after each ExecContext, before/after each revision write, before/after each commit; the list is read from an uncrashed reference run and compared with the model's trace) ; scenario = apply (killed at the point with os.Exit(137)), apply, apply on a real SQLite file with the real CLI. Non-trivial = the process was really killed at the point; distinct by (directory, mode, point, occurrence)", len(shapes), len(extra))
	var jobs []job
	id := 0
	add := func(files []tfile, m, label string) {
		// reference run (also a case: its point sequence is compared with the model)
		ref, err := runScenario([]step{{Mode: m, Files: files}})
		id++
		refID := fmt.Sprintf("c10-%d", id)
		if err != nil {
			w.Violation(refID, "harness", err.Error())
			return
		}
		record(w, refID, []step{{Mode: m, Files: files}}, ref)
		want := flat(pendingFresh(files))
		if ref[0].Exit != "ok" || fmt.Sprint(ref[0].Journal) != fmt.Sprint(want) {
			w.Violation(refID, "reference-run", fmt.Sprintf("fault-free apply of %s mode %s: exit=%s journal=%v want %v stderr=%s", label, m, ref[0].Exit, ref[0].Journal, want, ref[0].Stderr))
			return
		}
		occ := map[string]int{}
		for _, p := range ref[0].Points {
			occ[p]++
			id++
			cid := fmt.Sprintf("c10-%d", id)
			p, k := p, occ[p]
			steps := []step{{Mode: m, CrashPoint: p, CrashK: k, Files: files}, {Mode: m, Files: files}, {Mode: m, Files: files}}
			jobs = append(jobs, job{id: cid, steps: steps, post: func(id string, steps []step, res []obs) {
				w.Count("mode:" + m)
				w.Count("point:" + p)
				if res[0].Exit == "crash" {
					w.NonTrivial(fmt.Sprintf("%s|%s|%s|%d", label, m, p, k))
				}
				oracleC10(w, id, label, files, m, p, k, res, inFlight(ref[0].Points, p, k))
			}})
		}
	}
	for _, sh := range shapes {
		for _, m := range []string{"none", "file", "all"} {
			add(shapeFiles(sh), m, fmt.Sprintf("shape %v", sh))
		}
	}
	for _, c := range extra {
		for _, m := range c.modes {
			w.Count("extra:" + strings.SplitN(c.label, " ", 2)[0])
			add(c.files, m, fmt.Sprintf("%s %v", c.label, shapeOf(c.files)))
		}
	}
	big := genC10Big(w, tier)
	w.Rule += fmt.Sprintf(". Plus %d large-transaction crash scenarios (oracle on the engine side; the journal/revision observations are also compared with the model): a file of 150 statements, alone or after a one-statement file, tx-mode {file, all}, where every statement also writes a 40 kB row into a table that existed before and updates one of 400 pre-existing 3 kB rows (a different one per statement, so committed pages are modified, go cold and are spilled) through a trigger (6 MB in one transaction, beyond SQLite's page cache), killed after half / all of its statements, before its last statement, after its last revision write, before its commit and (control) after its commit; counted as reaching the class only if the killed process left a non-empty rollback journal and a database file > 1 MB, i.e. uncommitted pages had been spilled into the database file", len(big))
	jobs = append(jobs, big...)
	jobs = append(jobs, genC10Store(w, tier, mu)...)
	jobs = append(jobs, genC10Order(w, tier)...)
	jobs = append(jobs, genC10SQLKill(w, tier)...)
	censusCheck(w, jobs)
	return jobs
}

func shapeOf(fs []tfile) []int {
	var sh []int
	for _, f := range fs {
		sh = append(sh, len(f.Stmts))
	}
	return sh
}

// pendingFresh: what `migrate apply` on a database without history has to run:
// the files from the last checkpoint on (the checkpoint included), no earlier
// file and no other checkpoint.
func pendingFresh(fs []tfile) []tfile {
	last := -1
	for i, f := range fs {
		if f.Ckpt {
			last = i
		}
	}
	if last < 0 {
		return fs
	}
	return fs[last:]
}

func countOf(l []int, x int) int {
	n := 0
	for _, y := range l {
		if y == x {
			n++
		}
	}
	return n
}

// inFlight: is a statement in flight at the k-th occurrence of point p of the uncrashed run,
// i.e. executed but its progress not yet stored? Exactly between after-exec and the write that follows.
func inFlight(refPoints []string, p string, k int) bool {
	n := 0
	for i, q := range refPoints {
		if q == p {
			if n++; n == k {
				return p == "after-exec" || (p == "before-write" && i > 0 && refPoints[i-1] == "after-exec")
			}
		}
	}
	return false
}

func oracleC10(w *out.W, id string, label string, files []tfile, mode, point string, k int, res []obs, inflight bool) {
	desc := fmt.Sprintf("%s mode=%s crash=%s:%d after-crash{journal=%v revs=%v} after-rerun{exit=%s journal=%v revs=%v}", label, mode, point, k, res[0].Journal, res[0].Revs, res[1].Exit, res[1].Journal, res[1].Revs)
	if res[0].Exit != "crash" {
		w.Violation(id, "no-crash", "the crash point was not reached: "+desc)
		return
	}
	run := pendingFresh(files)
	all := flat(run)
	eff := func(f tfile) string {
		if f.Directive == "none" || f.Directive == "file" {
			return f.Directive
		}
		return mode
	}
	// revision table never records a statement whose effect is absent (checked after the crash and after the rerun)
	for si, o := range res[:2] {
		for _, r := range o.Revs {
			p := strings.Split(r, ":")
			var applied int
			fmt.Sscan(p[1], &applied)
			var f *tfile
			for i := range files {
				if files[i].Ver == p[0] {
					f = &files[i]
				}
			}
			if f == nil {
				continue
			}
			have := 0
			for _, s := range f.Stmts {
				if countOf(o.Journal, s) > 0 {
					have++
				}
			}
			if applied > have {
				w.Violation(id, "rev-overclaims", fmt.Sprintf("step %d: revision %s claims %d statements, %d present: %s", si, p[0], applied, have, desc))
				return
			}
		}
	}
	// a crash never leaves a file that runs in a transaction half applied
	for _, f := range files {
		if eff(f) == "none" {
			continue
		}
		n := 0
		for _, s := range f.Stmts {
			n += countOf(res[0].Journal, s)
		}
		if n != 0 && n != len(f.Stmts) {
			w.Violation(id, "half-applied-file", fmt.Sprintf("file %s half applied after the crash: %s", f.Ver, desc))
			return
		}
	}
	if mode == "all" && len(res[0].Journal) != 0 && len(res[0].Journal) != len(all) {
		w.Violation(id, "all-not-atomic", "tx-mode all left a partial result after the crash: "+desc)
		return
	}
	if res[1].Exit != "ok" {
		w.Violation(id, "rerun-failed", "re-running after the crash failed: "+desc+" stderr="+res[1].Stderr)
		return
	}
	// after the re-run: every effect present; exactly once for files that run in a
	// transaction; at most one duplicate overall, of a statement of a file without one
	dups := 0
	for _, f := range run {
		for _, s := range f.Stmts {
			switch c := countOf(res[1].Journal, s); {
			case c == 0:
				w.Violation(id, "statement-lost", fmt.Sprintf("statement %d lost: %s", s, desc))
				return
			case c > 1:
				if eff(f) != "none" {
					w.Violation(id, "executed-twice", "a statement ran twice in a transactional mode: "+desc)
					return
				}
				dups += c - 1
			}
		}
	}
	if len(res[1].Journal) != len(all)+dups {
		w.Violation(id, "unplanned-statement", "a statement outside the pending files ran: "+desc)
		return
	}
	if dups > 1 {
		w.Violation(id, "too-many-repeats", "more than the one statement in flight ran twice: "+desc)
		return
	}
	if dups > 0 && !inflight {
		w.Violation(id, "repeat-without-in-flight", "no statement was in flight at the crash point (its progress write had completed, or it had not started), yet a statement ran twice: "+desc)
		return
	}
	// order preserved (ignoring the duplicate)
	var dedup []int
	for i, s := range res[1].Journal {
		if i > 0 && res[1].Journal[i-1] == s {
			continue
		}
		dedup = append(dedup, s)
	}
	if fmt.Sprint(dedup) != fmt.Sprint(all) {
		w.Violation(id, "order", "statement order not preserved: "+desc)
		return
	}
	if res[2].Exit != "ok" || fmt.Sprint(res[2].Journal) != fmt.Sprint(res[1].Journal) {
		w.Violation(id, "not-settled", fmt.Sprintf("a third apply changed something: exit=%s journal=%v: %s", res[2].Exit, res[2].Journal, desc))
	}
}
