package main

import (
	"fmt"
	"strings"

	"verifharness/internal/out"
)

// ---- C10 round 5: crashes in histories that are not linear (--exec-order) ------------------------
//
// Versions 1 and 3 are applied. Then the OLDER file 2 (3 statements, running without a
// transaction: --tx-mode none, or a `txmode none` directive under --tx-mode file) and the later
// files 4 and 5 are added. `migrate apply --exec-order non-linear` (runs 2, 4, 5) is killed at
// every crash point it passes -- inside file 2 after >= 1 successful statement the revision of 2
// is partial with an EMPTY error text, which only a crash leaves -- and the same command is
// re-run: it must resume file 2 at its first unrecorded statement and then run 4 and 5.
// `--exec-order linear-skip` (file 2 is skipped for good: runs 4, 5) is killed at every point too.
// Oracle = C10's: revisions never overclaim, transactional files never half applied, the re-run
// completes, every statement of the files the order selects exactly once (the statement in
// flight at most twice, only in a file without transaction), nothing else, a third apply settles.

func genC10Order(w *out.W, tier string) []job {
	mk := func(ver string, ids ...int) tfile { return tfile{Ver: ver, Bad: -1, Stmts: ids} }
	applied := []tfile{mk("1", 1), mk("3", 2)}
	type ocase struct {
		mode, order, dir string // dir: directive on file 2
		only2            bool   // quick: only the points inside file 2 and the commits
	}
	cases := []ocase{
		{"none", "non-linear", "", false},
		{"file", "non-linear", "none", tier == "quick"},
		{"none", "linear-skip", "", false},
	}
	if tier == "thorough" {
		cases = append(cases, ocase{"file", "non-linear", "", false}, ocase{"all", "non-linear", "", false},
			ocase{"file", "linear-skip", "", false}, ocase{"none", "non-linear", "file", false})
	}
	var jobs []job
	id := 0
	n := 0
	for _, c := range cases {
		c := c
		f2 := mk("2", 3, 4, 5)
		f2.Directive = c.dir
		full := []tfile{mk("1", 1), f2, mk("3", 2), mk("4", 6), mk("5", 7)}
		label := fmt.Sprintf("1,3 applied; 2 (3 statements, directive %q), 4, 5 added; --tx-mode %s --exec-order %s", c.dir, c.mode, c.order)
		s0 := step{Mode: c.mode, Files: applied}
		s1 := step{Mode: c.mode, Files: full, Order: c.order}
		ref, err := runScenario([]step{s0, s1})
		id++
		refID := fmt.Sprintf("c10ord-%d", id)
		if err != nil {
			w.Violation(refID, "harness", err.Error())
			continue
		}
		record(w, refID, []step{s0, s1}, ref)
		var run []tfile // the files the second command has to execute, in order
		if c.order == "non-linear" {
			run = []tfile{f2, full[3], full[4]}
		} else {
			run = []tfile{full[3], full[4]}
		}
		want := append([]int{1, 2}, flat(run)...)
		if ref[0].Exit != "ok" || ref[1].Exit != "ok" || fmt.Sprint(ref[1].Journal) != fmt.Sprint(want) {
			w.Violation(refID, "reference-run", fmt.Sprintf("fault-free %s: exit=%s/%s journal=%v want %v stderr=%s", label, ref[0].Exit, ref[1].Exit, ref[1].Journal, want, ref[1].Stderr))
			continue
		}
		occ := map[string]int{}
		for _, p := range ref[1].Points {
			occ[p]++
			awBefore := occ["after-write"]
			if p == "after-write" {
				awBefore--
			}
			// file 2 runs first: its points are those up to its 5th revision write (start, 3 x progress, closing)
			inFile2 := c.order == "non-linear" && awBefore < 5
			if c.only2 && !inFile2 && !strings.Contains(p, "commit") {
				continue
			}
			p, k := p, occ[p]
			id++
			n++
			cid := fmt.Sprintf("c10ord-%d", id)
			steps := []step{s0, {Mode: c.mode, Files: full, Order: c.order, CrashPoint: p, CrashK: k}, s1, s1}
			fl := inFlight(ref[1].Points, p, k)
			jobs = append(jobs, job{id: cid, steps: steps, post: func(id string, steps []step, res []obs) {
				w.Count("order:" + c.order + "/" + c.mode)
				if res[1].Exit == "crash" {
					w.NonTrivial(fmt.Sprintf("order|%s|%s|%d", label, p, k))
					for _, r := range res[1].Revs {
						q := strings.Split(r, ":")
						if q[0] == "2" && q[1] != "0" && q[1] != q[2] && q[4] == "0" {
							w.Count("order:out-of-order-file-partial-without-error-text")
						}
					}
				}
				oracleC10Order(w, id, label, c.mode, full, run, p, k, fl, res)
			}})
		}
	}
	w.Rule += fmt.Sprintf(". Round 5: %d crash scenarios on a history that is not linear (c10ord-*): versions 1 and 3 applied, then the older file 2 (3 statements, without a transaction: --tx-mode none or a 'txmode none' directive under --tx-mode file) and files 4, 5 added; `migrate apply --exec-order non-linear` killed at every crash point it passes (inside file 2 after >= 1 successful statement: partial revision with an empty error text), re-run, apply; and --exec-order linear-skip killed at every point", n)
	return jobs
}

func oracleC10Order(w *out.W, id, label, mode string, files, run []tfile, point string, k int, inflight bool, res []obs) {
	desc := fmt.Sprintf("%s crash=%s:%d before{journal=%v revs=%v} after-crash{journal=%v revs=%v} after-rerun{exit=%s journal=%v revs=%v}", label, point, k,
		res[0].Journal, res[0].Revs, res[1].Journal, res[1].Revs, res[2].Exit, res[2].Journal, res[2].Revs)
	if res[0].Exit != "ok" || fmt.Sprint(res[0].Journal) != "[1 2]" {
		w.Violation(id, "reference-run", "applying versions 1 and 3 failed: "+desc)
		return
	}
	if res[1].Exit != "crash" {
		w.Violation(id, "no-crash", "the crash point was not reached: "+desc)
		return
	}
	eff := func(f tfile) string {
		if f.Directive == "none" || f.Directive == "file" {
			return f.Directive
		}
		return mode
	}
	for si, o := range res[1:3] {
		for _, r := range o.Revs {
			p := strings.Split(r, ":")
			var applied int
			fmt.Sscan(p[1], &applied)
			for _, f := range files {
				if f.Ver != p[0] {
					continue
				}
				have := 0
				for _, s := range f.Stmts {
					if countOf(o.Journal, s) > 0 {
						have++
					}
				}
				if applied > have {
					w.Violation(id, "rev-overclaims", fmt.Sprintf("step %d: revision %s claims %d statements, %d present: %s", si+1, p[0], applied, have, desc))
					return
				}
			}
		}
	}
	for _, f := range run {
		if eff(f) == "none" {
			continue
		}
		n := 0
		for _, s := range f.Stmts {
			n += countOf(res[1].Journal, s)
		}
		if n != 0 && n != len(f.Stmts) {
			w.Violation(id, "half-applied-file", fmt.Sprintf("file %s half applied after the crash: %s", f.Ver, desc))
			return
		}
	}
	if res[2].Exit != "ok" {
		w.Violation(id, "rerun-failed", "re-running after the crash failed: "+desc+" stderr="+res[2].Stderr)
		return
	}
	all := append([]int{1, 2}, flat(run)...)
	dups := 0
	for _, f := range run {
		for _, s := range f.Stmts {
			switch c := countOf(res[2].Journal, s); {
			case c == 0:
				w.Violation(id, "statement-lost", fmt.Sprintf("statement %d of file %s never ran: %s", s, f.Ver, desc))
				return
			case c > 1:
				if eff(f) != "none" {
					w.Violation(id, "executed-twice", "a statement ran twice in a transactional mode: "+desc)
					return
				}
				dups += c - 1
			}
		}
	}
	if len(res[2].Journal) != len(all)+dups {
		w.Violation(id, "unplanned-statement", "a statement outside the selected files ran (or one of versions 1, 3 again): "+desc)
		return
	}
	if dups > 1 {
		w.Violation(id, "too-many-repeats", "more than the one statement in flight ran twice: "+desc)
		return
	}
	if dups > 0 && !inflight {
		w.Violation(id, "repeat-without-in-flight", "no statement was in flight at the crash point, yet a statement ran twice: "+desc)
		return
	}
	var dedup []int
	for i, s := range res[2].Journal {
		if i > 0 && res[2].Journal[i-1] == s {
			continue
		}
		dedup = append(dedup, s)
	}
	if fmt.Sprint(dedup) != fmt.Sprint(all) {
		w.Violation(id, "order", fmt.Sprintf("statement order not preserved (want %v): %s", all, desc))
		return
	}
	for _, f := range run {
		ok := false
		for _, r := range res[2].Revs {
			p := strings.Split(r, ":")
			if p[0] == f.Ver && p[1] == p[2] && p[1] == fmt.Sprint(len(f.Stmts)) && p[4] == "0" {
				ok = true
			}
		}
		if !ok {
			w.Violation(id, "rerun-history", fmt.Sprintf("file %s has no completed revision after the re-run: %s", f.Ver, desc))
			return
		}
	}
	if res[3].Exit != "ok" || fmt.Sprint(res[3].Journal) != fmt.Sprint(res[2].Journal) {
		w.Violation(id, "not-settled", fmt.Sprintf("a third apply changed something: exit=%s journal=%v: %s", res[3].Exit, res[3].Journal, desc))
	}
}
