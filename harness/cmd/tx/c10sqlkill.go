package main

import (
	"fmt"

	"verifharness/internal/out"
)

// ---- C10 round 5: the process dies at a SQL statement (crash points at statement granularity) ------
//
// The sqlitekill:// scheme of the verif build (cmd/atlas/verif_sqlkill.go) ends the process right
// before / right after the n-th statement matching a regex, transaction control included (BEGIN,
// COMMIT, ROLLBACK as database/sql issues them). This reaches places no verifPoint hook sits at:
//   * inside mrrw.Migrate (the revisions table is created in a transaction of its own: BEGIN,
//     CREATE TABLE, COMMIT) -- before any file is looked at;
//   * around the real COMMIT of a file transaction / of the single `all` transaction after the last
//     file (the before-commit / after-commit hooks sit around tx.commit; here the kill is at the SQL
//     statement itself), and right after a file's BEGIN;
//   * on the rollback path: a statement of a transactional file fails, the process dies right before /
//     after the ROLLBACK that mayRollback issues.
// For the model each kill is a crash at the crash point of the trace with the same committed state
// (ModelCrash); the oracle is C10's.

func genC10SQLKill(w *out.W, tier string) []job {
	files := shapeFiles([]int{1, 2})
	var jobs []job
	id := 0
	add := func(label, mode, kill, mpoint string, mk int, first []tfile) {
		id++
		cid := fmt.Sprintf("c10sk-%d", id)
		if first == nil {
			first = files
		}
		steps := []step{{Mode: mode, Files: first, KillSQL: kill, ModelCrash: mpoint, ModelK: mk}, {Mode: mode, Files: files}, {Mode: mode, Files: files}}
		jobs = append(jobs, job{id: cid, steps: steps, post: func(id string, steps []step, res []obs) {
			w.Count("sqlkill:" + label)
			if res[0].Exit == "crash" {
				w.NonTrivial(fmt.Sprintf("sqlkill|%s|%s|%s", label, mode, kill))
			}
			oracleC10(w, id, "shape [1 2] killed at SQL statement "+kill+" ("+label+")", files, mode, "sql:"+kill, 0, res, false)
		}})
	}
	for _, m := range []string{"none", "file", "all"} {
		// inside mrrw.Migrate: nothing of the migration has happened
		for _, k := range []string{"^BEGIN$@1:before", "^BEGIN$@1:after", "^CREATE TABLE .atlas_schema_revisions.@1:before", "^CREATE TABLE .atlas_schema_revisions.@1:after", "^COMMIT$@1:before", "^COMMIT$@1:after"} {
			add("inside-revisions-table-bootstrap", m, k, "before-write", 1, nil)
		}
	}
	// the real COMMIT statements (COMMIT 1 is the bootstrap's)
	add("file-commit", "file", "^COMMIT$@2:before", "before-commit", 1, nil)
	add("file-commit", "file", "^COMMIT$@2:after", "after-commit", 1, nil)
	add("file-commit", "file", "^COMMIT$@3:before", "before-commit", 2, nil)
	add("file-commit", "file", "^COMMIT$@3:after", "after-commit", 2, nil)
	add("all-commit-after-last-file", "all", "^COMMIT$@2:before", "before-commit", 1, nil)
	add("all-commit-after-last-file", "all", "^COMMIT$@2:after", "after-commit", 1, nil)
	add("after-begin-of-file-tx", "file", "^BEGIN$@2:after", "before-write", 1, nil)
	add("after-begin-of-file-tx", "file", "^BEGIN$@3:after", "before-write", 4, nil)
	// rollback path: statement 2 of file 2 fails, the process dies around the ROLLBACK
	broken := cloneFiles(files)
	broken[1].Bad = 1
	for _, m := range []string{"file", "all"} {
		add("around-rollback-after-statement-error", m, "^ROLLBACK$@1:before", "before-exec", 3, broken)
		add("around-rollback-after-statement-error", m, "^ROLLBACK$@1:after", "before-exec", 3, broken)
	}
	w.Rule += fmt.Sprintf(". Round 5: %d scenarios (c10sk-*) where the process dies right before / after a SQL statement (sqlitekill:// hook): BEGIN / CREATE TABLE / COMMIT of the revisions-table bootstrap (mrrw.Migrate) x tx-mode {none,file,all}; the real COMMIT of each file transaction and of the `all` transaction after the last file; right after a file's BEGIN; around the ROLLBACK issued after a statement error; each compared with the model's crash point of the same committed state and judged by C10's oracle", len(jobs))
	return jobs
}

// censusCheck: every hook point of the tree (verifPoint("<name>") calls, scanned from $VERIF_REPO like
// gen/Gen_CrashPoints.v) must be the crash point of at least one generated scenario.
func censusCheck(w *out.W, jobs []job) {
	hooks, err := hookCensus(repoDir())
	if err != nil || len(hooks) == 0 {
		w.Violation("c10-census", "harness", fmt.Sprint("no hook calls found in ", repoDir(), ": ", err))
		return
	}
	used := map[string]int{}
	for _, j := range jobs {
		for _, s := range j.steps {
			if s.CrashPoint != "" {
				used[s.CrashPoint]++
			}
		}
	}
	for _, h := range hooks {
		w.Count("census:" + h[1])
		if used[h[1]] == 0 {
			w.Violation("c10-census", "hook-point-not-enumerated", fmt.Sprintf("the hook point %q (%s) is not the crash point of any generated scenario", h[1], h[0]))
		}
	}
}
