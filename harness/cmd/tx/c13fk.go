package main

import (
	"fmt"
	"os"
	"path/filepath"
	"sort"
	"strings"
	"sync"

	"verifharness/internal/clirun"
	"verifharness/internal/out"
)

// ---- C13 round 3: foreign-key violations detected at commit -------------------
//
// `migrate apply` on SQLite with foreign keys on (`?_fk=1`) runs each transaction
// with the pragma off and, before committing, compares `PRAGMA foreign_key_check`
// with what it reported when the transaction was opened (sql/sqlite/driver.go:
// OpenTx, CommitFunc, violations, violationsDiff). A NEW violation makes the
// commit fail: the file (mode file) / the whole run (mode all) is rolled back.
// The target already holds a violating row written out of band; one statement of
// the directory touches the FK tables. What the engine reports for the initial
// database and after that statement is MEASURED with the independent client on
// scratch copies (never taken from the command under test) and handed to the
// model (FkModel.v: apply_run_fk) as its [violations] function.

var fkSetup = []string{
	"CREATE TABLE parent (id INTEGER PRIMARY KEY)",
	"CREATE TABLE child (id INTEGER PRIMARY KEY, p1 INTEGER REFERENCES parent(id), p2 INTEGER REFERENCES parent(id))",
	"CREATE TABLE other (id INTEGER PRIMARY KEY, p1 INTEGER REFERENCES parent(id), p2 INTEGER REFERENCES parent(id))",
	"INSERT INTO parent VALUES (1)",
}

type fkVariant struct {
	name   string
	broken string // the statement as first written
	fixed  string // the statement after the fix
}

var fkVariants = []fkVariant{
	{"another-row", "INSERT INTO child VALUES (2, 8, 1)", "INSERT INTO child VALUES (2, 1, 1)"},
	{"same-row-other-constraint", "UPDATE child SET p2 = 9 WHERE id = 1", "UPDATE child SET p2 = NULL WHERE id = 1"},
	{"same-row-same-constraint", "UPDATE child SET p1 = 8 WHERE id = 1", "UPDATE child SET p1 = NULL WHERE id = 1"},
	{"other-table", "INSERT INTO other VALUES (1, 7, 1)", "INSERT INTO other VALUES (1, 1, 1)"},
	{"no-violation", "INSERT INTO child VALUES (2, 1, 1)", "INSERT INTO child VALUES (2, 1, 1)"},
	{"heals-the-old-one", "UPDATE child SET p1 = 1 WHERE id = 1", "UPDATE child SET p1 = 1 WHERE id = 1"},
}

type fkCase struct {
	id      string
	shape   []int
	fi, pos int // the FK statement is inserted into file fi before its journal statement pos
	v       fkVariant
	mode    string
	dir     string // txmode directive on file fi ("" = none)
	pre     bool   // the database already holds a violating row
	fk      bool   // foreign keys on (`_fk=1`)
}

func (c fkCase) label() string {
	return fmt.Sprintf("shape=%v fk-statement=file%d/pos%d variant=%s mode=%s directive=%q pre-existing-violation=%v _fk=%v", c.shape, c.fi+1, c.pos, c.v.name, c.mode, c.dir, c.pre, c.fk)
}

// files builds the directory; text = the FK statement (broken or fixed); bad =
// it fails when executed (mode none with foreign keys on: the engine enforces at once).
func (c fkCase) files(text string, bad bool) []tfile {
	fs := shapeFiles(c.shape)
	f := &fs[c.fi]
	st := append([]int{}, f.Stmts[:c.pos]...)
	st = append(st, -1)
	st = append(st, f.Stmts[c.pos:]...)
	f.Stmts = st
	f.Texts = map[int]string{c.pos: text}
	f.Directive = c.dir
	if bad {
		f.Bad = c.pos
	}
	return fs
}

func fkViols(db string) ([]string, error) {
	rows, err := clirun.Query(db, "PRAGMA foreign_key_check")
	if err != nil {
		return nil, err
	}
	var vs []string
	for _, r := range rows {
		p := strings.Split(r, "|") // table | rowid | parent | fkid
		vs = append(vs, fmt.Sprintf("%s:%s:%s:%s", p[0], p[1], p[2], p[3]))
	}
	sort.Strings(vs)
	return vs, nil
}

func fkState(db string) string {
	var b strings.Builder
	for _, t := range []string{"parent", "child", "other"} {
		rows, _ := clirun.Query(db, "SELECT * FROM "+t+" ORDER BY rowid")
		b.WriteString(t + "{" + strings.Join(rows, ";") + "}")
	}
	return b.String()
}

func violTokens(vs []string) []string {
	toks := []string{fmt.Sprint(len(vs))}
	for _, v := range vs {
		p := strings.Split(v, ":")
		toks = append(toks, hexOf(p[0]), p[1], hexOf(p[2]), p[3])
	}
	return toks
}

func subset(a, b []string) bool {
	m := map[string]bool{}
	for _, x := range b {
		m[x] = true
	}
	for _, x := range a {
		if !m[x] {
			return false
		}
	}
	return true
}

func genC13Fk(w *out.W, tier string, mu *sync.Mutex) []func() {
	type place struct {
		shape   []int
		fi, pos int
	}
	places := []place{{[]int{1}, 0, 0}, {[]int{1}, 0, 1},
		{[]int{1, 2}, 0, 0}, {[]int{1, 2}, 0, 1}, {[]int{1, 2}, 1, 0}, {[]int{1, 2}, 1, 1}, {[]int{1, 2}, 1, 2}}
	if tier == "thorough" {
		for _, sh := range [][]int{{2, 2}, {1, 1, 1}, {2, 1, 2}} {
			for fi := range sh {
				for pos := 0; pos <= sh[fi]; pos++ {
					places = append(places, place{sh, fi, pos})
				}
			}
		}
	}
	var cs []fkCase
	add := func(p place, v fkVariant, mode, dir string, pre, fk bool) {
		cs = append(cs, fkCase{id: fmt.Sprintf("c13fk-%d", len(cs)+1), shape: p.shape, fi: p.fi, pos: p.pos, v: v, mode: mode, dir: dir, pre: pre, fk: fk})
	}
	for _, p := range places {
		for _, v := range fkVariants {
			for _, m := range []string{"file", "all"} {
				add(p, v, m, "", true, true)
			}
		}
	}
	mid := place{[]int{1, 2}, 1, 1}
	first := place{[]int{1, 2}, 0, 1}
	sub := []place{mid, first}
	if tier == "thorough" {
		sub = places
	}
	for _, p := range sub {
		for _, v := range fkVariants {
			// foreign keys enforced statement by statement (no transaction)
			add(p, v, "none", "", true, true)
			// a 'txmode file' directive under --tx-mode none opens a transaction for that file only
			add(p, v, "none", "file", true, true)
		}
		for _, v := range fkVariants[:4] {
			for _, m := range []string{"file", "all"} {
				add(p, v, m, "", false, true) // clean database: every violation is new
			}
		}
		for _, m := range []string{"file", "all", "none"} {
			add(p, fkVariants[0], m, "", true, false) // foreign keys off: no check at all
		}
	}
	w.Exhaust = true
	w.Rule = fmt.Sprintf("exhaustive: %d placements of one statement that touches the FK tables (directory shapes [1], [1,2]%s; every file, every position in it) x 6 statements {violating INSERT of another row, UPDATE of the already violating row against its other constraint, UPDATE of the already violating row/constraint pair (no new violation), violating INSERT into another table (same rowid, parent and fk index as the old violation), valid INSERT, UPDATE that heals the old violation} x tx-mode {file, all} on a database that already holds a violating row written with foreign keys off, `_fk=1`; plus on 2 placements: tx-mode none (enforced per statement) and none + 'txmode file' directive x 6 statements, a clean database x 4 violating statements x {file, all}, and foreign keys off x {file, all, none}. Scenario = apply, apply again, fix the statement + re-hash + apply, apply with the real CLI; what foreign_key_check reports for the initial database and after each statement is measured with an independent client and is the model's [violations] function; compared with the model step by step (exit class incl. 'foreign key mismatch', journal, revision rows, which FK statement's effect is present, violations). Non-trivial = the first apply was refused at commit; distinct by the whole tuple", len(places), map[bool]string{true: ", [2,2], [1,1,1], [2,1,2]", false: ""}[tier == "thorough"])
	var fns []func()
	for _, c := range cs {
		c := c
		fns = append(fns, func() { runFk(w, mu, c) })
	}
	return fns
}

type fkObs struct {
	exit    string
	journal []int
	revs    []string
	special string
	viol    []string
	dump    string
	stderr  string
}

func runFk(w *out.W, mu *sync.Mutex, c fkCase) {
	tmp, err := os.MkdirTemp("", "vfk")
	if err != nil {
		panic(err)
	}
	defer os.RemoveAll(tmp)
	fail := func(msg string) {
		mu.Lock()
		defer mu.Unlock()
		w.Violation(c.id, "harness", c.label()+": "+msg)
	}
	db := filepath.Join(tmp, "t.db")
	setup := append([]string{"CREATE TABLE journal (id INTEGER)"}, fkSetup...)
	if c.pre {
		setup = append(setup, "INSERT INTO child VALUES (1, 7, 1)") // written out of band, foreign keys off
	} else {
		setup = append(setup, "INSERT INTO child VALUES (1, 1, 1)")
	}
	if err := clirun.Exec(db, setup...); err != nil {
		fail(err.Error())
		return
	}
	// ---- measurements with the independent client on scratch copies
	vPre, err := fkViols(db)
	if err != nil {
		fail(err.Error())
		return
	}
	sPre := fkState(db)
	type meas struct {
		viol    []string
		state   string
		refused bool // with foreign keys enforced the engine rejects the statement
	}
	measure := func(text string) (meas, error) {
		sc := filepath.Join(tmp, fmt.Sprintf("scratch-%x.db", text))
		if err := copyFile(sc, db); err != nil {
			return meas{}, err
		}
		if err := clirun.Exec(sc, text); err != nil {
			return meas{}, err
		}
		vs, err := fkViols(sc)
		if err != nil {
			return meas{}, err
		}
		m := meas{viol: vs, state: fkState(sc)}
		sc2 := sc + "2"
		if err := copyFile(sc2, db); err != nil {
			return meas{}, err
		}
		m.refused = clirun.Exec(sc2, "PRAGMA foreign_keys = on; "+text) != nil
		return m, nil
	}
	mB, err := measure(c.v.broken)
	if err != nil {
		fail(err.Error())
		return
	}
	mF, err := measure(c.v.fixed)
	if err != nil {
		fail(err.Error())
		return
	}
	if len(mF.viol) > len(vPre) || !subset(mF.viol, vPre) || mF.refused {
		fail("the fixed statement is not valid")
		return
	}
	// Which mode does the file with the FK statement run in?
	em, _ := effectiveMode(c.mode, c.dir)
	newViol := c.fk && !subset(mB.viol, vPre) // the property's "new violation"
	stmtFails := c.fk && em == "none" && mB.refused
	needFix := (em != "none" && newViol) || stmtFails
	broken := c.files(c.v.broken, stmtFails)
	fixedText := c.v.broken
	if needFix {
		fixedText = c.v.fixed
	}
	fixed := c.files(fixedText, false)
	dirs := [][]tfile{broken, broken, fixed, fixed}
	url := "sqlite://" + db
	if c.fk {
		url += "?_fk=1"
	}
	mdir := filepath.Join(tmp, "m")
	initialDump, _ := clirun.Dump(db, true)
	var res []fkObs
	var lines []string
	// case line: F nsteps fk pre-violations nspecial {stmt name violations} {mode n dir}
	toks := []string{"F", fmt.Sprint(len(dirs)), map[bool]string{false: "0", true: "1"}[c.fk]}
	toks = append(toks, violTokens(vPre)...)
	if c.v.broken == c.v.fixed {
		toks = append(toks, "1", hexOf(c.v.broken+";"), "b")
		toks = append(toks, violTokens(mB.viol)...)
	} else {
		toks = append(toks, "2", hexOf(c.v.broken+";"), "b")
		toks = append(toks, violTokens(mB.viol)...)
		toks = append(toks, hexOf(c.v.fixed+";"), "f")
		toks = append(toks, violTokens(mF.viol)...)
	}
	for i, files := range dirs {
		fm := map[string]string{}
		for _, f := range files {
			fm[f.name()] = f.content()
		}
		if err := clirun.WriteDir(mdir, fm); err != nil {
			fail(err.Error())
			return
		}
		r := clirun.Run(tmp, nil, "migrate", "apply", "--dir", "file://"+mdir, "--url", url, "--tx-mode", c.mode, "--allow-dirty")
		o := fkObs{stderr: r.Stderr}
		switch {
		case r.Exit == 0:
			o.exit = "ok"
		case strings.Contains(r.Stderr, "foreign key mismatch"):
			o.exit = "fkfail"
		default:
			o.exit = "fail"
		}
		if o.journal, o.revs, err = readState(db); err != nil {
			fail(err.Error())
			return
		}
		if o.viol, err = fkViols(db); err != nil {
			fail(err.Error())
			return
		}
		switch st := fkState(db); {
		case st == sPre:
			o.special = "-"
		case st == mB.state:
			o.special = "b"
		case st == mF.state:
			o.special = "f"
		default:
			o.special = "?" + st
		}
		o.dump, _ = clirun.Dump(db, true)
		res = append(res, o)
		js := make([]string, len(o.journal))
		for k, j := range o.journal {
			js[k] = fmt.Sprint(j)
		}
		st := step{Mode: c.mode, Files: files}
		toks = append(toks, c.mode, "0")
		toks = append(toks, st.tokens()[4:]...)
		lines = append(lines, fmt.Sprintf("step%d exit=%s journal=[%s] revs=[%s] special=%s viol=[%s]", i, o.exit, strings.Join(js, ","), strings.Join(o.revs, " "), o.special, strings.Join(o.viol, ",")))
	}
	mu.Lock()
	defer mu.Unlock()
	w.Case(c.id, strings.Join(toks, " "), lines)
	w.Count("fk:mode:" + c.mode + "/" + c.dir)
	w.Count("fk:variant:" + c.v.name)
	w.Count("fk:first:" + res[0].exit)
	if res[0].exit == "fkfail" {
		w.NonTrivial(c.label())
	}
	oracleFk(w, c, em, newViol, stmtFails, vPre, mB.viol, initialDump, res)
}

// oracleFk states the property on the observations of the real command.
func oracleFk(w *out.W, c fkCase, em string, newViol, stmtFails bool, vPre, vB []string, initialDump string, res []fkObs) {
	base := shapeFiles(c.shape)
	show := func(o fkObs) string {
		return fmt.Sprintf("exit=%s journal=%v revs=%v fk-statement=%s violations=%v", o.exit, o.journal, o.revs, o.special, o.viol)
	}
	desc := fmt.Sprintf("%s; foreign_key_check before=%v, after the statement=%v; s0{%s} s1{%s} s2{%s}", c.label(), vPre, vB, show(res[0]), show(res[1]), show(res[2]))
	revOf := func(f tfile, extra int) string {
		n := len(f.Stmts) + extra
		return fmt.Sprintf("%s:%d:%d:0", f.Ver, n, n)
	}
	// expected state after the first (and the identical second) apply
	var wantJ []int
	var wantR []string
	wantSpecial, wantExit := "-", "ok"
	refusedCommit := em != "none" && newViol
	switch {
	case refusedCommit && c.mode == "all":
		wantExit = "fkfail" // everything rolled back
	case refusedCommit:
		wantExit = "fkfail" // the files before the refused one stay
		for i := 0; i < c.fi; i++ {
			wantJ = append(wantJ, base[i].Stmts...)
			wantR = append(wantR, revOf(base[i], 0))
		}
	case stmtFails:
		wantExit = "fail" // no transaction: exactly the successful prefix, recorded with the error
		for i := 0; i < c.fi; i++ {
			wantJ = append(wantJ, base[i].Stmts...)
			wantR = append(wantR, revOf(base[i], 0))
		}
		wantJ = append(wantJ, base[c.fi].Stmts[:c.pos]...)
		wantR = append(wantR, fmt.Sprintf("%s:%d:%d:1", base[c.fi].Ver, c.pos, len(base[c.fi].Stmts)+1))
	default:
		for i, f := range base {
			wantJ = append(wantJ, f.Stmts...)
			x := 0
			if i == c.fi {
				x = 1
			}
			wantR = append(wantR, revOf(f, x))
		}
		wantSpecial = "b"
	}
	got := func(o fkObs) []string {
		var g []string
		for _, r := range o.revs {
			p := strings.Split(r, ":")
			g = append(g, fmt.Sprintf("%s:%s:%s:%s", p[0], p[1], p[2], p[4]))
		}
		return g
	}
	for si := 0; si < 2; si++ {
		o := res[si]
		if o.exit != wantExit {
			cls := "fk-exit-status"
			if wantExit == "fkfail" && o.exit == "ok" {
				cls = "fk-new-violation-committed"
			}
			w.Violation(c.id, cls, fmt.Sprintf("step %d: exit=%s want %s: %s stderr=%s", si, o.exit, wantExit, desc, o.stderr))
			return
		}
		if fmt.Sprint(o.journal) != fmt.Sprint(wantJ) || o.special != wantSpecial {
			w.Violation(c.id, "fk-data-not-atomic", fmt.Sprintf("step %d: journal=%v fk-statement=%s want %v %s: %s", si, o.journal, o.special, wantJ, wantSpecial, desc))
			return
		}
		if fmt.Sprint(got(o)) != fmt.Sprint(wantR) {
			w.Violation(c.id, "fk-history-not-atomic", fmt.Sprintf("step %d: revisions=%v want %v: %s", si, got(o), wantR, desc))
			return
		}
		if refusedCommit && c.mode == "all" {
			// the whole database as before (an empty revisions table = none)
			d := diffLines(initialDump, o.dump)
			var real []string
			for _, l := range d {
				if !strings.Contains(l, "obj ") || !strings.Contains(l, "atlas_schema_revisions") {
					real = append(real, l)
				}
			}
			if len(real) > 0 {
				w.Violation(c.id, "fk-data-not-atomic", fmt.Sprintf("step %d: the database differs from before: %v: %s", si, real, desc))
				return
			}
		}
	}
	// fixed directory: the state of a run without failure
	var allJ []int
	var allR []string
	for i, f := range base {
		allJ = append(allJ, f.Stmts...)
		x := 0
		if i == c.fi {
			x = 1
		}
		allR = append(allR, revOf(f, x))
	}
	endSpecial := "b"
	if refusedCommit || stmtFails {
		endSpecial = "f"
	}
	for si := 2; si < 4; si++ {
		o := res[si]
		if o.exit != "ok" || fmt.Sprint(o.journal) != fmt.Sprint(allJ) || o.special != endSpecial {
			w.Violation(c.id, "fk-fix-rerun", fmt.Sprintf("step %d after the fix: exit=%s journal=%v fk-statement=%s want ok %v %s: %s stderr=%s", si, o.exit, o.journal, o.special, allJ, endSpecial, desc, o.stderr))
			return
		}
		if fmt.Sprint(got(o)) != fmt.Sprint(allR) {
			w.Violation(c.id, "fk-fix-rerun-history", fmt.Sprintf("step %d after the fix: revisions=%v want %v: %s", si, got(o), allR, desc))
			return
		}
	}
}
