package main

// Stage "updown": the C17 oracle on the real SQLite engine.
//
//	S0 = InspectSchema(current db);  D = InspectSchema(desired db)
//	plan = Driver.PlanChanges(SchemaDiff(S0, D))            (or a hand-built rename change set)
//	flag oracle on plan.Changes; if plan.Reversible:
//	  execute every Cmd;           S1 = InspectSchema   (SchemaDiff(S1, D) = [] is C01's; counted)
//	  for the changes in reverse order execute ReverseStmts() in the order returned
//	  S2 = InspectSchema;  require SchemaDiff(S2, S0) = [] and SchemaDiff(S0, S2) = []

import (
	"context"
	"database/sql"
	"fmt"
	"regexp"
	"runtime"
	"sort"
	"strings"
	"sync"
	"sync/atomic"

	"ariga.io/atlas/sql/migrate"
	"ariga.io/atlas/sql/schema"
	"ariga.io/atlas/sql/sqlite"
	_ "github.com/mattn/go-sqlite3"

	"verifharness/internal/out"
	"verifharness/internal/rng"
)

var dbSeq int64

func openMem(fk bool) (*sql.DB, error) {
	n := atomic.AddInt64(&dbSeq, 1)
	dsn := fmt.Sprintf("file:rev%d?mode=memory&cache=shared", n)
	if fk {
		dsn += "&_fk=1"
	}
	db, err := sql.Open("sqlite3", dsn)
	if err != nil {
		return nil, err
	}
	db.SetMaxOpenConns(1)
	return db, nil
}

func execAll(db *sql.DB, stmts []string) error {
	for _, s := range stmts {
		if _, err := db.Exec(s); err != nil {
			return fmt.Errorf("%s: %w", s, err)
		}
	}
	return nil
}

func inspect(drv migrate.Driver) (*schema.Schema, error) {
	return drv.InspectSchema(context.Background(), "main", nil)
}

// ucase is one generated case.
type ucase struct {
	id     string
	cur    sschema
	des    sschema
	label  string
	fk     bool
	direct string // "" | "RT:<from>:<to>" | "RC:<table>:<from>:<to>" | "RI:<table>:<from>:<to>"
	rows   bool   // populate the current database with a few rows first
}

type uresult struct {
	c        ucase
	err      string // infrastructure error (setup failed): case dropped
	planErr  string
	revErr   bool
	changes  []string // canonical source change kinds
	plan     *migrate.Plan
	revs     [][]string
	flagAll  bool // forall has reverse over plan.Changes
	flagCore bool // forall has reverse over plan.Changes without the PRAGMA bracket
	bracket  bool
	upErr    string
	upDiff   []string
	downErr  string
	downDiff []string // SchemaDiff(S2,S0) ++ SchemaDiff(S0,S2)
	strict   bool     // canonical dumps of S0 and S2 differ
	s0, s2   string
	ran      bool
}

func chName(c schema.Change) string {
	switch c := c.(type) {
	case *schema.AddTable:
		return "+T(" + c.T.Name + ")"
	case *schema.DropTable:
		return "-T(" + c.T.Name + ")"
	case *schema.RenameTable:
		return "RT(" + c.From.Name + ">" + c.To.Name + ")"
	case *schema.ModifyTable:
		var ss []string
		for _, x := range c.Changes {
			ss = append(ss, chName(x))
		}
		return "~T(" + c.T.Name + ":" + strings.Join(ss, ",") + ")"
	case *schema.AddColumn:
		return "+C(" + c.C.Name + ")"
	case *schema.DropColumn:
		return "-C(" + c.C.Name + ")"
	case *schema.ModifyColumn:
		return "~C(" + c.To.Name + ")"
	case *schema.RenameColumn:
		return "RC(" + c.From.Name + ">" + c.To.Name + ")"
	case *schema.AddIndex:
		return "+I(" + c.I.Name + ")"
	case *schema.DropIndex:
		return "-I(" + c.I.Name + ")"
	case *schema.ModifyIndex:
		return "~I(" + c.To.Name + ")"
	case *schema.RenameIndex:
		return "RI(" + c.From.Name + ">" + c.To.Name + ")"
	case *schema.AddForeignKey:
		return "+FK(" + c.F.Symbol + ")"
	case *schema.DropForeignKey:
		return "-FK(" + c.F.Symbol + ")"
	case *schema.ModifyForeignKey:
		return "~FK(" + c.To.Symbol + ")"
	case *schema.AddCheck:
		return "+K(" + c.C.Name + ")"
	case *schema.DropCheck:
		return "-K(" + c.C.Name + ")"
	case *schema.ModifyCheck:
		return "~K(" + c.To.Name + ")"
	case *schema.AddAttr:
		return fmt.Sprintf("+A(%T)", c.A)
	case *schema.DropAttr:
		return fmt.Sprintf("-A(%T)", c.A)
	case *schema.ModifyAttr:
		return fmt.Sprintf("~A(%T)", c.To)
	}
	return fmt.Sprintf("%T", c)
}

func chNames(cs []schema.Change) []string {
	o := make([]string, len(cs))
	for i, c := range cs {
		o[i] = chName(c)
	}
	return o
}

const (
	pragmaOff = "PRAGMA foreign_keys = off"
	pragmaOn  = "PRAGMA foreign_keys = on"
)

// flags recomputes "every change has a reverse" from the change list the plan carries:
// over all of plan.Changes, and over plan.Changes without a leading/trailing PRAGMA bracket.
func flags(p *migrate.Plan) (all, core, bracket bool, revs [][]string, err error) {
	cs := p.Changes
	revs = make([][]string, len(cs))
	all = true
	for i, c := range cs {
		r, e := c.ReverseStmts()
		if e != nil {
			return false, false, false, nil, e
		}
		switch v := c.Reverse.(type) { // the harness's own reading of Change.Reverse
		case string:
			if len(r) != 1 || r[0] != v {
				return false, false, false, nil, fmt.Errorf("ReverseStmts() = %q, Reverse = %q", r, v)
			}
		case []string:
			if fmt.Sprint(r) != fmt.Sprint(v) {
				return false, false, false, nil, fmt.Errorf("ReverseStmts() = %q, Reverse = %q", r, v)
			}
		}
		revs[i] = r
		if len(r) == 0 {
			all = false
		}
	}
	lo, hi := 0, len(cs)
	if len(cs) >= 2 && cs[0].Cmd == pragmaOff && cs[len(cs)-1].Cmd == pragmaOn && cs[0].Reverse == nil && cs[len(cs)-1].Reverse == nil {
		lo, hi, bracket = 1, len(cs)-1, true
	}
	core = true
	for i := lo; i < hi; i++ {
		if len(revs[i]) == 0 {
			core = false
		}
	}
	return
}

func dumpSchema(s *schema.Schema) string {
	var ts []string
	for _, t := range s.Tables {
		var b strings.Builder
		fmt.Fprintf(&b, "T %s", t.Name)
		for _, a := range t.Attrs {
			switch a := a.(type) {
			case *sqlite.WithoutRowID:
				b.WriteString(" worowid")
			case *sqlite.Strict:
				b.WriteString(" strict")
			case *schema.Check:
				fmt.Fprintf(&b, " chk(%s|%s)", a.Name, a.Expr)
			}
		}
		b.WriteString("\n")
		for _, c := range t.Columns {
			fmt.Fprintf(&b, "  C %s %s null=%v", c.Name, c.Type.Raw, c.Type.Null)
			switch d := c.Default.(type) {
			case *schema.Literal:
				fmt.Fprintf(&b, " def=L(%s)", d.V)
			case *schema.RawExpr:
				fmt.Fprintf(&b, " def=X(%s)", d.X)
			}
			for _, a := range c.Attrs {
				switch a := a.(type) {
				case *schema.GeneratedExpr:
					fmt.Fprintf(&b, " gen(%s|%s)", a.Expr, a.Type)
				case *sqlite.AutoIncrement:
					b.WriteString(" autoinc")
				}
			}
			b.WriteString("\n")
		}
		idx := func(tag string, i *schema.Index) string {
			var p []string
			for _, x := range i.Parts {
				s := ""
				if x.C != nil {
					s = x.C.Name
				} else if r, ok := x.X.(*schema.RawExpr); ok {
					s = "(" + r.X + ")"
				}
				if x.Desc {
					s += " desc"
				}
				p = append(p, s)
			}
			s := fmt.Sprintf("  %s %s u=%v (%s)", tag, i.Name, i.Unique, strings.Join(p, ","))
			for _, a := range i.Attrs {
				switch a := a.(type) {
				case *sqlite.IndexPredicate:
					s += " where(" + a.P + ")"
				case *sqlite.IndexOrigin:
					s += " origin=" + a.O
				}
			}
			return s
		}
		if t.PrimaryKey != nil {
			b.WriteString(idx("PK", t.PrimaryKey) + "\n")
		}
		var is []string
		for _, i := range t.Indexes {
			is = append(is, idx("I", i))
		}
		sort.Strings(is)
		for _, l := range is {
			b.WriteString(l + "\n")
		}
		var fs []string
		for _, f := range t.ForeignKeys {
			var cs, rs []string
			for _, c := range f.Columns {
				cs = append(cs, c.Name)
			}
			for _, c := range f.RefColumns {
				rs = append(rs, c.Name)
			}
			rt := ""
			if f.RefTable != nil {
				rt = f.RefTable.Name
			}
			fs = append(fs, fmt.Sprintf("  FK %s (%s)->%s(%s) upd=%s del=%s", f.Symbol, strings.Join(cs, ","), rt, strings.Join(rs, ","), f.OnUpdate, f.OnDelete))
		}
		sort.Strings(fs)
		for _, l := range fs {
			b.WriteString(l + "\n")
		}
		ts = append(ts, b.String())
	}
	sort.Strings(ts)
	return strings.Join(ts, "")
}

// nameCollision: a table of the schema has an inline UNIQUE column c and an explicit index called
// <table>_<c>, the name normalizeIdxName gives the constraint's automatic index.
func nameCollision(s sschema) bool {
	for _, t := range s {
		for _, c := range t.cols {
			if !c.uniq {
				continue
			}
			for _, i := range t.idx {
				if i.name == t.name+"_"+c.name {
					return true
				}
			}
		}
	}
	return false
}

var reDefLit = regexp.MustCompile(`def=L\('([^']*)'\)`)

// canonAuto maps, in a schema dump, the index line of an inline UNIQUE constraint
// (sqlite_autoindex_<t>_<n>, origin u) and the line of the named index normalizeIdxName gives it
// (<t>_<col>_..., origin c) to the same text.
func canonAuto(d string) string {
	var out []string
	table := ""
	for _, l := range strings.Split(d, "\n") {
		if strings.HasPrefix(l, "T ") {
			table = strings.Fields(l)[1]
		}
		if strings.HasPrefix(l, "  I ") {
			f := strings.Fields(l)
			// f = I name u=.. (cols) [where(..)] origin=..
			name, cols := f[1], ""
			if i := strings.Index(l, "("); i >= 0 {
				if j := strings.Index(l[i:], ")"); j >= 0 {
					cols = l[i+1 : i+j]
				}
			}
			norm := table + "_" + strings.ReplaceAll(cols, ",", "_")
			if strings.HasPrefix(name, "sqlite_autoindex_") && strings.HasSuffix(l, "origin=u") || name == norm && strings.HasSuffix(l, "origin=c") && strings.Contains(l, "u=true") {
				l = "  I <uniq:" + cols + "> u=true (" + cols + ")"
			}
		}
		out = append(out, l)
	}
	sort.Strings(out)
	// defaultValue prints the literal default of a non-numeric column quoted: DEFAULT 3 on a text
	// column comes back as DEFAULT '3' (the same value for SQLite; the differ reports no change)
	return reDefLit.ReplaceAllString(strings.Join(out, "\n"), "def=L($1)")
}

func trunc(s string, n int) string {
	if len(s) > n {
		s = s[:n] + "..."
	}
	// one oracle message = one line of oracle.txt
	if strings.ContainsAny(s, "\r\n\t") {
		s = strings.NewReplacer("\r", "\\r", "\n", "\\n", "\t", "\\t").Replace(s)
	}
	return s
}

func findTable(s *schema.Schema, n string) *schema.Table {
	for _, t := range s.Tables {
		if t.Name == n {
			return t
		}
	}
	return nil
}

// directChanges builds the rename change sets the differ never produces itself.
func directChanges(spec string, s0, d *schema.Schema) ([]schema.Change, error) {
	f := strings.Split(spec, ":")
	switch f[0] {
	case "RT":
		from, to := findTable(s0, f[1]), findTable(d, f[2])
		if from == nil || to == nil {
			return nil, fmt.Errorf("direct %s: table missing", spec)
		}
		return []schema.Change{&schema.RenameTable{From: from, To: to}}, nil
	case "RC":
		from, to := findTable(s0, f[1]), findTable(d, f[1])
		if from == nil || to == nil {
			return nil, fmt.Errorf("direct %s: table missing", spec)
		}
		cf, ok1 := from.Column(f[2])
		ct, ok2 := to.Column(f[3])
		if !ok1 || !ok2 {
			return nil, fmt.Errorf("direct %s: column missing", spec)
		}
		return []schema.Change{&schema.ModifyTable{T: to, Changes: []schema.Change{&schema.RenameColumn{From: cf, To: ct}}}}, nil
	case "RI":
		from, to := findTable(s0, f[1]), findTable(d, f[1])
		if from == nil || to == nil {
			return nil, fmt.Errorf("direct %s: table missing", spec)
		}
		xf, ok1 := from.Index(f[2])
		xt, ok2 := to.Index(f[3])
		if !ok1 || !ok2 {
			return nil, fmt.Errorf("direct %s: index missing", spec)
		}
		return []schema.Change{&schema.ModifyTable{T: to, Changes: []schema.Change{&schema.RenameIndex{From: xf, To: xt}}}}, nil
	}
	return nil, fmt.Errorf("direct %s?", spec)
}

func populate(db *sql.DB, s sschema) {
	// best effort: two rows per table in declaration order; failures are ignored
	for _, t := range s {
		for r := 1; r <= 2; r++ {
			var cols, vals []string
			for _, c := range t.cols {
				if c.gen != "" {
					continue
				}
				cols = append(cols, q(c.name))
				switch {
				case strings.HasPrefix(c.typ, "int"):
					vals = append(vals, fmt.Sprint(r))
				case c.typ == "real":
					vals = append(vals, fmt.Sprintf("%d.5", r))
				case c.typ == "blob":
					vals = append(vals, fmt.Sprintf("x'0%d'", r))
				default:
					vals = append(vals, fmt.Sprintf("'v%d'", r))
				}
			}
			db.Exec("INSERT INTO " + q(t.name) + " (" + strings.Join(cols, ", ") + ") VALUES (" + strings.Join(vals, ", ") + ")")
		}
	}
}

func runUpDown(c ucase) (r uresult) {
	r.c = c
	dbA, err := openMem(c.fk)
	if err != nil {
		r.err = err.Error()
		return
	}
	defer dbA.Close()
	dbB, err := openMem(c.fk)
	if err != nil {
		r.err = err.Error()
		return
	}
	defer dbB.Close()
	if err := execAll(dbA, c.cur.ddl()); err != nil {
		r.err = "setup current: " + err.Error()
		return
	}
	if err := execAll(dbB, c.des.ddl()); err != nil {
		r.err = "setup desired: " + err.Error()
		return
	}
	if c.rows {
		populate(dbA, c.cur)
	}
	drvA, err := sqlite.Open(dbA)
	if err != nil {
		r.err = err.Error()
		return
	}
	drvB, err := sqlite.Open(dbB)
	if err != nil {
		r.err = err.Error()
		return
	}
	s0, err := inspect(drvA)
	if err != nil {
		r.err = "inspect S0: " + err.Error()
		return
	}
	s0p, _ := inspect(drvA) // pristine copies: PlanChanges may rename indexes of its input in place
	s0q, _ := inspect(drvA)
	d, err := inspect(drvB)
	if err != nil {
		r.err = "inspect D: " + err.Error()
		return
	}
	dp, _ := inspect(drvB)
	r.s0 = dumpSchema(s0p)
	var changes []schema.Change
	if c.direct != "" {
		changes, err = directChanges(c.direct, s0, d)
	} else {
		changes, err = drvA.SchemaDiff(s0, d)
	}
	if err != nil {
		r.err = "diff: " + err.Error()
		return
	}
	r.changes = chNames(changes)
	plan, err := drvA.PlanChanges(context.Background(), "plan", changes)
	if err != nil {
		r.planErr = err.Error()
		return
	}
	r.plan = plan
	r.flagAll, r.flagCore, r.bracket, r.revs, err = flags(plan)
	if err != nil {
		r.planErr = "ReverseStmts: " + err.Error()
		r.revErr = true
		return
	}
	if !plan.Reversible {
		return
	}
	r.ran = true
	for _, ch := range plan.Changes {
		if _, err := dbA.Exec(ch.Cmd, ch.Args...); err != nil {
			r.upErr = trunc(ch.Cmd, 120) + ": " + err.Error()
			return
		}
	}
	s1, err := inspect(drvA)
	if err != nil {
		r.upErr = "inspect S1: " + err.Error()
		return
	}
	if c.direct == "" || true {
		d1, err := drvA.SchemaDiff(s1, dp)
		if err != nil {
			r.upDiff = []string{"error: " + err.Error()}
		} else {
			r.upDiff = chNames(d1)
		}
	}
	for i := len(plan.Changes) - 1; i >= 0; i-- {
		for _, st := range r.revs[i] {
			if _, err := dbA.Exec(st); err != nil {
				r.downErr = trunc(st, 160) + ": " + err.Error()
				return
			}
		}
	}
	s2, err := inspect(drvA)
	if err != nil {
		r.downErr = "inspect S2: " + err.Error()
		return
	}
	s2b, _ := inspect(drvA)
	r.s2 = dumpSchema(s2)
	da, err := drvA.SchemaDiff(s2, s0p)
	if err != nil {
		r.downDiff = append(r.downDiff, "error(S2,S0): "+err.Error())
	}
	for _, x := range chNames(da) {
		r.downDiff = append(r.downDiff, "S2->S0:"+x)
	}
	db2, err := drvA.SchemaDiff(s0q, s2b)
	if err != nil {
		r.downDiff = append(r.downDiff, "error(S0,S2): "+err.Error())
	}
	for _, x := range chNames(db2) {
		r.downDiff = append(r.downDiff, "S0->S2:"+x)
	}
	r.strict = r.s0 != r.s2
	return
}

// planText renders the plan for messages.
func planText(p *migrate.Plan, revs [][]string) string {
	var b strings.Builder
	for i, c := range p.Changes {
		fmt.Fprintf(&b, "[%d] %s", i, trunc(c.Cmd, 200))
		if len(revs[i]) > 0 {
			fmt.Fprintf(&b, "  <= %s", trunc(strings.Join(revs[i], " ;; "), 300))
		} else {
			b.WriteString("  <= (none)")
		}
		b.WriteString(" | ")
	}
	return b.String()
}

func genUpDown(tier string) []ucase {
	r := rng.FromEnv(0xC17A)
	thorough := tier == "thorough"
	var cs []ucase
	n := 0
	add := func(cur, des sschema, label string, fk bool, direct string, rows bool) {
		n++
		cs = append(cs, ucase{id: fmt.Sprintf("u%d", n), cur: cur, des: des, label: label, fk: fk, direct: direct, rows: rows})
	}
	bs := bases()
	// 1. every single edit on every base (exhaustive), both directions (edit and its undo)
	for bi, b := range bs {
		for _, e := range catalogue(b) {
			d := e.apply(b.clone())
			add(b, d, fmt.Sprintf("b%d:%s", bi, e.label), true, "", false)
			add(d, b, fmt.Sprintf("b%d:undo:%s", bi, e.label), true, "", false)
			if strings.HasPrefix(e.label, "DT") {
				add(b, d, fmt.Sprintf("b%d:%s", bi, e.label), true, "", true)
				add(b, d, fmt.Sprintf("b%d:%s", bi, e.label), false, "", true)
			}
			if strings.HasPrefix(e.label, "AT") {
				add(d, b, fmt.Sprintf("b%d:undo:%s", bi, e.label), true, "", true)
			}
		}
	}
	// 2. hand-built rename change sets
	for bi, b := range bs {
		for ti, t := range b {
			d := b.clone()
			nn := fresh(b, t.name+"_r")
			d[ti].name = nn
			for k := range d {
				for f := range d[k].fks {
					if d[k].fks[f].ref == t.name {
						d[k].fks[f].ref = nn
					}
				}
			}
			add(b, d, fmt.Sprintf("b%d:RT:%s", bi, t.name), true, "RT:"+t.name+":"+nn, false)
			for ci, c := range t.cols {
				d := b.clone()
				nc := freshCol(t, c.name+"_r")
				d[ti].cols[ci].name = nc
				ren := func(xs []string) {
					for k := range xs {
						if xs[k] == c.name {
							xs[k] = nc
						}
					}
				}
				ren(d[ti].pk)
				for k := range d[ti].idx {
					ren(d[ti].idx[k].cols)
				}
				for k := range d[ti].fks {
					ren(d[ti].fks[k].cols)
				}
				for k := range d {
					for f := range d[k].fks {
						if d[k].fks[f].ref == t.name {
							ren(d[k].fks[f].rcols)
						}
					}
				}
				if colUsedInExpr(t, c.name) {
					continue
				}
				add(b, d, fmt.Sprintf("b%d:RC:%s.%s", bi, t.name, c.name), true, "RC:"+t.name+":"+c.name+":"+nc, false)
			}
			for ii, ix := range t.idx {
				d := b.clone()
				ni := freshIdx(b, ix.name+"_r")
				d[ti].idx[ii].name = ni
				add(b, d, fmt.Sprintf("b%d:RI:%s", bi, ix.name), true, "RI:"+t.name+":"+ix.name+":"+ni, false)
			}
		}
	}
	// 2b. a child table whose foreign keys point at tables that do not exist (yet): the plan adds one
	// of the parents.  With foreign_keys on, SQLite refuses to drop that parent again ("no such
	// table") while the child's other parent is missing and the action is CASCADE / SET NULL / SET DEFAULT.
	for _, act := range []string{"CASCADE", "SET NULL", "SET DEFAULT", "", "RESTRICT"} {
		child := stab{name: "child", cols: []scol{{name: "id", typ: "integer", notnull: true}, {name: "a", typ: "integer"}, {name: "b", typ: "integer"}}, pk: []string{"id"},
			fks: []sfk{{sym: "child_p", cols: []string{"a"}, ref: "p", rcols: []string{"id"}, onDel: act}, {sym: "child_g", cols: []string{"b"}, ref: "g", rcols: []string{"id"}}}}
		if act == "SET NULL" || act == "SET DEFAULT" {
			// the blocking key has to share a column with the rewritten one
			child.fks[1].cols = []string{"a"}
		}
		par := stab{name: "p", cols: []scol{{name: "id", typ: "integer", notnull: true}, {name: "v", typ: "text"}}, pk: []string{"id"}}
		for _, fk := range []bool{true, false} {
			add(sschema{child}, sschema{child, par}, "special:dangling-parent:"+act, fk, "", false)
		}
	}
	// 2c. DROP TABLE of a table with an inline UNIQUE column c and an index called <table>_<c>
	{
		t := stab{name: "acct", cols: []scol{{name: "id", typ: "integer", notnull: true}, {name: "email", typ: "text", notnull: true, uniq: true}}, pk: []string{"id"},
			idx: []sidx{{name: "acct_email", cols: []string{"email"}}}}
		other := stab{name: "plain", cols: []scol{{name: "a", typ: "int"}}}
		add(sschema{t, other}, sschema{other}, "special:collision:DT", true, "", false)
		add(sschema{t}, sschema{}, "special:collision:DT-only", false, "", false)
	}
	// 3. random multi-edit pairs (2..4 edits, catalogue recomputed after every edit)
	cnt := 700
	if thorough {
		cnt = 12000
	}
	for i := 0; i < cnt; i++ {
		bi := r.Intn(len(bs))
		b := bs[bi]
		d := b.clone()
		var ls []string
		k := 2 + r.Intn(3)
		for j := 0; j < k; j++ {
			cat := catalogue(d)
			// bias to the edits whose plans are reversible
			var e edit
			for try := 0; try < 3; try++ {
				e = cat[r.Intn(len(cat))]
				l := e.label
				if strings.HasPrefix(l, "AT") || strings.HasPrefix(l, "DT") || strings.HasPrefix(l, "AI") || strings.HasPrefix(l, "DI") || strings.HasPrefix(l, "MI") ||
					strings.HasPrefix(l, "AC-null") || strings.HasPrefix(l, "AC-def") || strings.HasPrefix(l, "AC-tdef") || strings.HasPrefix(l, "AC-genv") || strings.HasPrefix(l, "AC+AI") {
					break
				}
			}
			d = e.apply(d.clone())
			ls = append(ls, e.label)
		}
		fk := !r.Chance(1, 5)
		rows := r.Chance(1, 4)
		if r.Bool() {
			add(b, d, fmt.Sprintf("b%d:%s", bi, strings.Join(ls, "+")), fk, "", rows)
		} else {
			add(d, b, fmt.Sprintf("b%d:undo:%s", bi, strings.Join(ls, "+")), fk, "", rows)
		}
	}
	return cs
}

func colUsedInExpr(t stab, c string) bool {
	for _, i := range t.idx {
		for _, x := range i.cols {
			if strings.HasPrefix(x, "(") && strings.Contains(x, c) {
				return true
			}
		}
		if strings.Contains(i.where, c) {
			return true
		}
	}
	for _, k := range t.chks {
		if strings.Contains(k.expr, c) {
			return true
		}
	}
	for _, o := range t.cols {
		if o.gen != "" && strings.Contains(o.gen, c) {
			return true
		}
	}
	return false
}

func cmdKind(cmd string) string {
	f := strings.Fields(cmd)
	if len(f) >= 2 {
		k := strings.ToUpper(f[0] + " " + f[1])
		if strings.HasPrefix(k, "ALTER TABLE") {
			for _, w := range []string{"ADD COLUMN", "DROP COLUMN", "RENAME COLUMN", "RENAME TO"} {
				if strings.Contains(cmd, w) {
					return "ALTER " + w
				}
			}
		}
		if k == "CREATE UNIQUE" {
			return "CREATE INDEX"
		}
		return k
	}
	return cmd
}

func runUpDownStage(w *out.W, tier string) {
	w.Rule = "a case is non-trivial when the real planner returned a reversible plan with at least one change that was executed up and down on the real engine; key = (sorted statement kinds of the plan, kinds of the reverse statements)"
	cases := genUpDown(tier)
	res := make([]uresult, len(cases))
	var wg sync.WaitGroup
	jobs := make(chan int)
	nw := runtime.NumCPU()
	if nw > 16 {
		nw = 16
	}
	for k := 0; k < nw; k++ {
		wg.Add(1)
		go func() {
			defer wg.Done()
			for i := range jobs {
				res[i] = runUpDown(cases[i])
			}
		}()
	}
	for i := range cases {
		jobs <- i
	}
	close(jobs)
	wg.Wait()
	for _, r := range res {
		c := r.c
		head := fmt.Sprintf("%s fk=%v rows=%v current={%s} desired={%s}", c.label, c.fk, c.rows, trunc(c.cur.String(), 700), trunc(c.des.String(), 700))
		if r.err != "" {
			w.Count("setup-error")
			w.Count("setup-error:" + trunc(r.err, 60))
			continue
		}
		var tags []string
		for _, ch := range r.changes {
			if strings.Contains(ch, "-I(sqlite_autoindex_") {
				tags = append(tags, "autoindex-drop")
				break
			}
		}
		if nameCollision(c.cur) {
			tags = append(tags, "autoindex-name-collision")
		}
		if strings.HasPrefix(c.label, "special:dangling-parent:") && c.fk {
			tags = append(tags, "dangling-parent")
		}
		head += " changes=" + strings.Join(r.changes, " ") + " tags=[" + strings.Join(tags, ",") + "]"
		w.ImplOnly(c.id, head)
		if r.revErr {
			w.Violation(c.id, "reversestmts-mismatch", r.planErr+" | "+head)
			continue
		}
		if r.planErr != "" {
			w.Count("plan-error")
			continue
		}
		if len(r.plan.Changes) == 0 {
			w.Count("empty-plan")
			continue
		}
		pt := planText(r.plan, r.revs)
		// ---- flag oracle: Reversible = every change has a reverse
		switch {
		case r.plan.Reversible == r.flagAll:
			w.Count("flag=all")
		case r.plan.Reversible == r.flagCore && r.bracket:
			// the PRAGMA foreign_keys bracket carries no reverse but the plan is flagged reversible
			w.Count("flag=core(pragma bracket without reverse)")
			w.Violation(c.id, "flag-pragma-bracket", fmt.Sprintf("plan.Reversible=%v but the PRAGMA foreign_keys off/on changes of the plan have no reverse: %s | plan: %s", r.plan.Reversible, head, pt))
		default:
			w.Violation(c.id, "flag-mismatch", fmt.Sprintf("plan.Reversible=%v but forall(has reverse)=%v (without PRAGMA bracket %v): %s | plan: %s", r.plan.Reversible, r.flagAll, r.flagCore, head, pt))
		}
		var kinds, rkinds []string
		for i, ch := range r.plan.Changes {
			kinds = append(kinds, cmdKind(ch.Cmd))
			for _, s := range r.revs[i] {
				rkinds = append(rkinds, cmdKind(s))
			}
			if len(r.revs[i]) > 1 {
				w.Count("multi-stmt-reverse")
			}
		}
		for _, k := range kinds {
			w.Count("cmd:" + k)
		}
		if !r.plan.Reversible {
			w.Count("irreversible")
			// which statement kinds lack a reverse
			for i, ch := range r.plan.Changes {
				if len(r.revs[i]) == 0 {
					w.Count("noreverse:" + cmdKind(ch.Cmd))
				}
			}
			continue
		}
		w.Count("reversible")
		// which theorem of Props_C17.v speaks about this plan (by the kinds of its source changes)
		{
			drops, others := 0, 0
			for _, ch := range r.changes {
				if strings.HasPrefix(ch, "-T(") {
					drops++
				} else {
					others++
				}
			}
			switch {
			case c.direct != "":
				w.Count("scope:rename (oracle only)")
			case drops == 0:
				w.Count("scope:no DropTable (C17_reversible_sound_partial)")
			case others == 0:
				w.Count("scope:DropTable only (C17_reversible_sound_droptables_partial)")
			default:
				w.Count("scope:DropTable mixed with other changes (oracle only)")
			}
		}
		for _, k := range rkinds {
			w.Count("rev:" + k)
		}
		sort.Strings(kinds)
		sort.Strings(rkinds)
		w.NonTrivial(strings.Join(kinds, ",") + "|" + strings.Join(rkinds, ","))
		if r.upErr != "" {
			w.Count("up-error")
			w.Count("up-error:" + c.label[strings.Index(c.label, ":")+1:])
			continue
		}
		if len(r.upDiff) > 0 {
			w.Count("up-not-desired(C01)")
		}
		if r.downErr != "" {
			w.Violation(c.id, "down-exec-error", fmt.Sprintf("reversible plan executed, reverse statement fails: %s | %s | plan: %s", r.downErr, head, pt))
			continue
		}
		if len(r.downDiff) > 0 {
			w.Violation(c.id, "down-diff", fmt.Sprintf("reversible plan executed up and down, schema differs from the start: %s | %s | plan: %s", strings.Join(r.downDiff, " "), head, pt))
			continue
		}
		if r.strict && canonAuto(r.s0) == canonAuto(r.s2) {
			// DROP TABLE's reverse re-creates an inline UNIQUE constraint (sqlite_autoindex_<t>_<n>, origin u) as
			// a named unique index <t>_<cols> (origin c): the differ treats the two as the same index
			w.Count("restored-up-to-autoindex-name-or-default-quoting")
			continue
		}
		if r.strict {
			w.Count("restored-by-diff-but-dump-differs")
			w.Violation(c.id, "down-dump", fmt.Sprintf("reversible plan executed up and down, SchemaDiff is empty both ways but the inspected schema differs: before={%s} after={%s} | %s | plan: %s", strings.ReplaceAll(r.s0, "\n", "/"), strings.ReplaceAll(r.s2, "\n", "/"), head, pt))
			continue
		}
		w.Count("restored")
	}
}
