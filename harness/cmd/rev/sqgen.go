package main

// SQLite schema specs, their DDL, and the edit catalogue of the C17 up/down stage.
// A spec is plain data (tables, columns, indexes, foreign keys, checks); the current and the
// desired database are both created from DDL text on a real go-sqlite3 database and inspected
// with the real driver, so the schema graphs the planner sees are exactly the ones the CLI sees.

import (
	"fmt"
	"strings"
)

type scol struct {
	name, typ string
	notnull   bool
	def       string // SQL text of the default ("" = none)
	uniq      bool   // inline UNIQUE (sqlite_autoindex_*)
	gen       string // generation expression ("" = none)
	stored    bool
}

type sidx struct {
	name   string
	cols   []string // column names; an entry starting with "(" is an expression
	desc   []bool
	unique bool
	where  string
}

type sfk struct {
	sym          string
	cols         []string
	ref          string
	rcols        []string
	onDel, onUpd string
}

type schk struct{ name, expr string }

type stab struct {
	name    string
	cols    []scol
	pk      []string
	autoinc bool // single INTEGER PRIMARY KEY AUTOINCREMENT (pk[0])
	idx     []sidx
	fks     []sfk
	chks    []schk
	worowid bool
	strict  bool
}

type sschema []stab

func q(s string) string { return "`" + s + "`" }

func qs(ss []string) string {
	o := make([]string, len(ss))
	for i, s := range ss {
		if strings.HasPrefix(s, "(") {
			o[i] = s
		} else {
			o[i] = q(s)
		}
	}
	return strings.Join(o, ", ")
}

func (t stab) ddl() []string {
	var parts []string
	for _, c := range t.cols {
		p := q(c.name) + " " + c.typ
		if t.autoinc && len(t.pk) == 1 && t.pk[0] == c.name {
			p += " PRIMARY KEY AUTOINCREMENT"
			parts = append(parts, p)
			continue
		}
		if c.notnull {
			p += " NOT NULL"
		}
		if c.def != "" {
			p += " DEFAULT " + c.def
		}
		if c.uniq {
			p += " UNIQUE"
		}
		if c.gen != "" {
			p += " AS (" + c.gen + ")"
			if c.stored {
				p += " STORED"
			}
		}
		parts = append(parts, p)
	}
	if len(t.pk) > 0 && !t.autoinc {
		parts = append(parts, "PRIMARY KEY ("+qs(t.pk)+")")
	}
	for _, f := range t.fks {
		p := ""
		if f.sym != "" {
			p = "CONSTRAINT " + q(f.sym) + " "
		}
		p += "FOREIGN KEY (" + qs(f.cols) + ") REFERENCES " + q(f.ref) + " (" + qs(f.rcols) + ")"
		if f.onUpd != "" {
			p += " ON UPDATE " + f.onUpd
		}
		if f.onDel != "" {
			p += " ON DELETE " + f.onDel
		}
		parts = append(parts, p)
	}
	for _, k := range t.chks {
		p := ""
		if k.name != "" {
			p = "CONSTRAINT " + q(k.name) + " "
		}
		parts = append(parts, p+"CHECK ("+k.expr+")")
	}
	s := "CREATE TABLE " + q(t.name) + " (" + strings.Join(parts, ", ") + ")"
	var opt []string
	if t.worowid {
		opt = append(opt, "WITHOUT ROWID")
	}
	if t.strict {
		opt = append(opt, "STRICT")
	}
	if len(opt) > 0 {
		s += " " + strings.Join(opt, ", ")
	}
	out := []string{s}
	for _, i := range t.idx {
		c := "CREATE "
		if i.unique {
			c += "UNIQUE "
		}
		ps := make([]string, len(i.cols))
		for k, col := range i.cols {
			if strings.HasPrefix(col, "(") {
				ps[k] = col
			} else {
				ps[k] = q(col)
			}
			if k < len(i.desc) && i.desc[k] {
				ps[k] += " DESC"
			}
		}
		c += "INDEX " + q(i.name) + " ON " + q(t.name) + " (" + strings.Join(ps, ", ") + ")"
		if i.where != "" {
			c += " WHERE " + i.where
		}
		out = append(out, c)
	}
	return out
}

func (s sschema) ddl() []string {
	var out []string
	for _, t := range s {
		out = append(out, t.ddl()...)
	}
	return out
}

func (s sschema) clone() sschema {
	o := make(sschema, len(s))
	for i, t := range s {
		n := t
		n.cols = append([]scol(nil), t.cols...)
		n.pk = append([]string(nil), t.pk...)
		n.idx = nil
		for _, x := range t.idx {
			y := x
			y.cols = append([]string(nil), x.cols...)
			y.desc = append([]bool(nil), x.desc...)
			n.idx = append(n.idx, y)
		}
		n.fks = nil
		for _, f := range t.fks {
			g := f
			g.cols = append([]string(nil), f.cols...)
			g.rcols = append([]string(nil), f.rcols...)
			n.fks = append(n.fks, g)
		}
		n.chks = append([]schk(nil), t.chks...)
		o[i] = n
	}
	return o
}

func (s sschema) find(name string) int {
	for i := range s {
		if s[i].name == name {
			return i
		}
	}
	return -1
}

func (s sschema) String() string { return strings.Join(s.ddl(), "; ") }

// ---------------------------------------------------------------- bases

func bases() []sschema {
	users := stab{name: "users", cols: []scol{{name: "id", typ: "integer", notnull: true}, {name: "name", typ: "text", notnull: true}, {name: "age", typ: "int"}}, pk: []string{"id"},
		idx: []sidx{{name: "users_name", cols: []string{"name"}}}}
	posts := stab{name: "posts", cols: []scol{{name: "id", typ: "integer", notnull: true}, {name: "uid", typ: "integer"}, {name: "title", typ: "text", notnull: true, def: "'x'"}, {name: "n", typ: "int", notnull: true, def: "0"}}, pk: []string{"id"},
		idx: []sidx{{name: "posts_uid", cols: []string{"uid"}}, {name: "posts_tn", cols: []string{"title", "n"}, desc: []bool{false, true}, unique: true}},
		fks: []sfk{{sym: "posts_owner", cols: []string{"uid"}, ref: "users", rcols: []string{"id"}, onDel: "CASCADE"}}}
	plain := stab{name: "plain", cols: []scol{{name: "a", typ: "int"}, {name: "b", typ: "text"}}}
	auto := stab{name: "auto", cols: []scol{{name: "id", typ: "integer", notnull: true}, {name: "v", typ: "text"}}, pk: []string{"id"}, autoinc: true,
		idx: []sidx{{name: "auto_v", cols: []string{"v"}, where: "v IS NOT NULL"}}}
	uq := stab{name: "uq", cols: []scol{{name: "k", typ: "text", notnull: true, uniq: true}, {name: "w", typ: "real", def: "1.5"}, {name: "g", typ: "int", gen: "length(k)"}},
		chks: []schk{{name: "w_pos", expr: "w > 0"}}, idx: []sidx{{name: "uq_expr", cols: []string{"(w * 2)"}}}}
	comp := stab{name: "comp", cols: []scol{{name: "x", typ: "int", notnull: true}, {name: "y", typ: "int", notnull: true}, {name: "z", typ: "blob"}}, pk: []string{"x", "y"}, worowid: true,
		chks: []schk{{expr: "x <> y"}}}
	self := stab{name: "tree", cols: []scol{{name: "id", typ: "integer", notnull: true}, {name: "parent", typ: "integer"}}, pk: []string{"id"},
		fks: []sfk{{cols: []string{"parent"}, ref: "tree", rcols: []string{"id"}, onDel: "SET NULL", onUpd: "CASCADE"}}}
	strict := stab{name: "st", cols: []scol{{name: "id", typ: "integer", notnull: true}, {name: "t", typ: "text"}}, pk: []string{"id"}, strict: true}
	return []sschema{
		{users},
		{users, posts},
		{plain},
		{auto},
		{uq},
		{comp, self},
		{users, posts, auto, uq},
		{strict, plain},
		{},
	}
}

// ---------------------------------------------------------------- edit catalogue

type edit struct {
	label string
	apply func(s sschema) sschema // on a clone
}

func fresh(s sschema, base string) string {
	for n := 0; ; n++ {
		name := base
		if n > 0 {
			name = fmt.Sprintf("%s%d", base, n)
		}
		if s.find(name) < 0 {
			return name
		}
	}
}

func hasCol(t stab, n string) bool {
	for _, c := range t.cols {
		if c.name == n {
			return true
		}
	}
	return false
}

func freshCol(t stab, base string) string {
	for n := 0; ; n++ {
		name := base
		if n > 0 {
			name = fmt.Sprintf("%s%d", base, n)
		}
		if !hasCol(t, name) {
			return name
		}
	}
}

func freshIdx(s sschema, base string) string {
	for n := 0; ; n++ {
		name := base
		if n > 0 {
			name = fmt.Sprintf("%s%d", base, n)
		}
		used := false
		for _, t := range s {
			for _, i := range t.idx {
				if i.name == name {
					used = true
				}
			}
		}
		if !used {
			return name
		}
	}
}

// colUsed: the column is used by an index, key, fk, check or generated column of the schema.
func colUsed(s sschema, t stab, c string) bool {
	for _, p := range t.pk {
		if p == c {
			return true
		}
	}
	for _, i := range t.idx {
		for _, x := range i.cols {
			if x == c || strings.Contains(x, c) && strings.HasPrefix(x, "(") {
				return true
			}
		}
		if strings.Contains(i.where, c) {
			return true
		}
	}
	for _, f := range t.fks {
		for _, x := range f.cols {
			if x == c {
				return true
			}
		}
	}
	for _, k := range t.chks {
		if strings.Contains(k.expr, c) {
			return true
		}
	}
	for _, o := range t.cols {
		if o.gen != "" && strings.Contains(o.gen, c) {
			return true
		}
	}
	for _, o := range s {
		for _, f := range o.fks {
			if f.ref == t.name {
				for _, x := range f.rcols {
					if x == c {
						return true
					}
				}
			}
		}
	}
	return false
}

func catalogue(s sschema) []edit {
	var es []edit
	add := func(label string, f func(s sschema) sschema) { es = append(es, edit{label, f}) }
	// ---- add table variants
	add("AT-plain", func(s sschema) sschema {
		return append(s, stab{name: fresh(s, "nt"), cols: []scol{{name: "id", typ: "integer", notnull: true}, {name: "v", typ: "text"}}, pk: []string{"id"}})
	})
	add("AT-idx", func(s sschema) sschema {
		n := fresh(s, "nti")
		return append(s, stab{name: n, cols: []scol{{name: "a", typ: "int", notnull: true}, {name: "b", typ: "text"}, {name: "c", typ: "real", def: "0.5"}},
			idx: []sidx{{name: freshIdx(s, n+"_a"), cols: []string{"a"}, unique: true}, {name: freshIdx(s, n+"_bc"), cols: []string{"b", "c"}, desc: []bool{true, false}, where: "b IS NOT NULL"}, {name: freshIdx(s, n+"_x"), cols: []string{"(a + 1)"}}}})
	})
	add("AT-autoinc", func(s sschema) sschema {
		n := fresh(s, "nta")
		return append(s, stab{name: n, cols: []scol{{name: "id", typ: "integer", notnull: true}, {name: "v", typ: "text", notnull: true, def: "'d'"}}, pk: []string{"id"}, autoinc: true,
			idx: []sidx{{name: freshIdx(s, n+"_v"), cols: []string{"v"}}}})
	})
	add("AT-uniq", func(s sschema) sschema {
		n := fresh(s, "ntu")
		return append(s, stab{name: n, cols: []scol{{name: "k", typ: "text", notnull: true, uniq: true}, {name: "g", typ: "int", gen: "length(k)", stored: true}}, chks: []schk{{name: n + "_k", expr: "k <> ''"}}})
	})
	add("AT-opts", func(s sschema) sschema {
		n := fresh(s, "nto")
		return append(s, stab{name: n, cols: []scol{{name: "x", typ: "integer", notnull: true}, {name: "y", typ: "text", notnull: true}}, pk: []string{"x", "y"}, worowid: true, strict: true})
	})
	add("AT-selffk", func(s sschema) sschema {
		n := fresh(s, "nts")
		return append(s, stab{name: n, cols: []scol{{name: "id", typ: "integer", notnull: true}, {name: "p", typ: "integer"}}, pk: []string{"id"},
			fks: []sfk{{sym: n + "_p", cols: []string{"p"}, ref: n, rcols: []string{"id"}, onDel: "CASCADE"}}})
	})
	add("AT-cyclic", func(s sschema) sschema {
		a, b := fresh(s, "cya"), fresh(s, "cyb")
		return append(s,
			stab{name: a, cols: []scol{{name: "id", typ: "integer", notnull: true}, {name: "b", typ: "integer"}}, pk: []string{"id"}, fks: []sfk{{cols: []string{"b"}, ref: b, rcols: []string{"id"}}}},
			stab{name: b, cols: []scol{{name: "id", typ: "integer", notnull: true}, {name: "a", typ: "integer"}}, pk: []string{"id"}, fks: []sfk{{cols: []string{"a"}, ref: a, rcols: []string{"id"}}}, idx: []sidx{{name: freshIdx(s, b+"_a"), cols: []string{"a"}}}})
	})
	for ti := range s {
		ti := ti
		t := s[ti]
		if len(t.pk) == 1 && !t.worowid {
			add("AT-fk:"+t.name, func(s sschema) sschema {
				n := fresh(s, "ntf")
				return append(s, stab{name: n, cols: []scol{{name: "id", typ: "integer", notnull: true}, {name: "r", typ: "integer", notnull: true}}, pk: []string{"id"},
					fks: []sfk{{sym: n + "_r", cols: []string{"r"}, ref: t.name, rcols: []string{t.pk[0]}, onDel: "CASCADE", onUpd: "NO ACTION"}},
					idx: []sidx{{name: freshIdx(s, n+"_r"), cols: []string{"r"}}}})
			})
		}
		add("DT:"+t.name, func(s sschema) sschema { return append(s[:ti:ti], s[ti+1:]...) })
		// ---- columns
		add("AC-null:"+t.name, func(s sschema) sschema {
			s[ti].cols = append(s[ti].cols, scol{name: freshCol(s[ti], "nc"), typ: "text"})
			return s
		})
		add("AC-def:"+t.name, func(s sschema) sschema {
			s[ti].cols = append(s[ti].cols, scol{name: freshCol(s[ti], "nd"), typ: "int", notnull: true, def: "7"})
			return s
		})
		add("AC-tdef:"+t.name, func(s sschema) sschema {
			s[ti].cols = append(s[ti].cols, scol{name: freshCol(s[ti], "ns"), typ: "text", notnull: true, def: "'it''s'"})
			return s
		})
		add("AC-curts:"+t.name, func(s sschema) sschema {
			s[ti].cols = append(s[ti].cols, scol{name: freshCol(s[ti], "nts"), typ: "text", def: "CURRENT_TIMESTAMP"})
			return s
		})
		add("AC-xdef:"+t.name, func(s sschema) sschema {
			s[ti].cols = append(s[ti].cols, scol{name: freshCol(s[ti], "nx"), typ: "int", def: "(1 + 2)"})
			return s
		})
		if !t.strict {
			add("AC-genv:"+t.name, func(s sschema) sschema {
				s[ti].cols = append(s[ti].cols, scol{name: freshCol(s[ti], "gv"), typ: "int", gen: q(s[ti].cols[0].name) + " + 1"})
				return s
			})
			add("AC-gens:"+t.name, func(s sschema) sschema {
				s[ti].cols = append(s[ti].cols, scol{name: freshCol(s[ti], "gs"), typ: "int", gen: q(s[ti].cols[0].name) + " + 2", stored: true})
				return s
			})
		}
		add("AC-nn:"+t.name, func(s sschema) sschema {
			s[ti].cols = append(s[ti].cols, scol{name: freshCol(s[ti], "nn"), typ: "int", notnull: true})
			return s
		})
		add("AC+AI:"+t.name, func(s sschema) sschema {
			c := freshCol(s[ti], "ci")
			s[ti].cols = append(s[ti].cols, scol{name: c, typ: "int"})
			s[ti].idx = append(s[ti].idx, sidx{name: freshIdx(s, t.name+"_"+c), cols: []string{c}})
			return s
		})
		add("AC-uniq:"+t.name, func(s sschema) sschema {
			s[ti].cols = append(s[ti].cols, scol{name: freshCol(s[ti], "cu"), typ: "int", uniq: true})
			return s
		})
		for ci, c := range t.cols {
			ci, c := ci, c
			if t.autoinc && t.pk[0] == c.name {
				continue
			}
			if !colUsed(s, t, c.name) && len(t.cols) > 1 {
				add("DC:"+t.name+"."+c.name, func(s sschema) sschema {
					s[ti].cols = append(s[ti].cols[:ci:ci], s[ti].cols[ci+1:]...)
					return s
				})
			}
			if c.gen == "" {
				add("MC-type:"+t.name+"."+c.name, func(s sschema) sschema {
					if strings.HasPrefix(s[ti].cols[ci].typ, "int") {
						s[ti].cols[ci].typ = "text"
					} else {
						s[ti].cols[ci].typ = "integer"
					}
					if s[ti].cols[ci].def != "" {
						s[ti].cols[ci].def = "1"
					}
					return s
				})
				add("MC-null:"+t.name+"."+c.name, func(s sschema) sschema {
					s[ti].cols[ci].notnull = !s[ti].cols[ci].notnull
					return s
				})
				add("MC-def:"+t.name+"."+c.name, func(s sschema) sschema {
					if s[ti].cols[ci].def == "" {
						s[ti].cols[ci].def = "3"
					} else {
						s[ti].cols[ci].def = ""
					}
					return s
				})
				if !c.uniq {
					add("MC-uniq:"+t.name+"."+c.name, func(s sschema) sschema {
						s[ti].cols[ci].uniq = true
						return s
					})
				}
			}
		}
		// ---- indexes
		c0 := t.cols[len(t.cols)-1].name
		if t.cols[len(t.cols)-1].gen != "" {
			c0 = t.cols[0].name
		}
		c1 := t.cols[0].name
		add("AI:"+t.name, func(s sschema) sschema {
			s[ti].idx = append(s[ti].idx, sidx{name: freshIdx(s, t.name+"_i"), cols: []string{c0}})
			return s
		})
		add("AI-u:"+t.name, func(s sschema) sschema {
			s[ti].idx = append(s[ti].idx, sidx{name: freshIdx(s, t.name+"_u"), cols: []string{c0}, unique: true})
			return s
		})
		add("AI-uw:"+t.name, func(s sschema) sschema {
			s[ti].idx = append(s[ti].idx, sidx{name: freshIdx(s, t.name+"_uw"), cols: []string{c1, c0}, desc: []bool{true, false}, unique: true, where: q(c0) + " IS NOT NULL"})
			return s
		})
		add("AI-x:"+t.name, func(s sschema) sschema {
			s[ti].idx = append(s[ti].idx, sidx{name: freshIdx(s, t.name+"_x"), cols: []string{"(" + q(c1) + " + 1)", c0}, desc: []bool{false, true}})
			return s
		})
		for ii, ix := range t.idx {
			ii, ix := ii, ix
			add("DI:"+ix.name, func(s sschema) sschema {
				s[ti].idx = append(s[ti].idx[:ii:ii], s[ti].idx[ii+1:]...)
				return s
			})
			add("MI-u:"+ix.name, func(s sschema) sschema {
				s[ti].idx[ii].unique = !s[ti].idx[ii].unique
				return s
			})
			add("MI-parts:"+ix.name, func(s sschema) sschema {
				if len(s[ti].idx[ii].cols) > 1 {
					s[ti].idx[ii].cols = s[ti].idx[ii].cols[:1]
					s[ti].idx[ii].desc = nil
				} else {
					s[ti].idx[ii].desc = []bool{true}
				}
				return s
			})
			add("MI-where:"+ix.name, func(s sschema) sschema {
				if s[ti].idx[ii].where == "" {
					s[ti].idx[ii].where = q(c1) + " IS NOT NULL"
				} else {
					s[ti].idx[ii].where = ""
				}
				return s
			})
		}
		// ---- foreign keys, checks
		for oi, o := range s {
			o := o
			if oi != ti && len(o.pk) == 1 && !t.worowid {
				add("AF:"+t.name+"->"+o.name, func(s sschema) sschema {
					c := freshCol(s[ti], "fkc")
					_ = c
					s[ti].fks = append(s[ti].fks, sfk{sym: t.name + "_" + o.name + "_fk", cols: []string{c1}, ref: o.name, rcols: []string{o.pk[0]}, onDel: "SET NULL"})
					return s
				})
				break
			}
		}
		for fi := range t.fks {
			fi := fi
			add(fmt.Sprintf("DF:%s#%d", t.name, fi), func(s sschema) sschema {
				s[ti].fks = append(s[ti].fks[:fi:fi], s[ti].fks[fi+1:]...)
				return s
			})
			add(fmt.Sprintf("MF:%s#%d", t.name, fi), func(s sschema) sschema {
				if s[ti].fks[fi].onDel == "CASCADE" {
					s[ti].fks[fi].onDel = "SET NULL"
				} else {
					s[ti].fks[fi].onDel = "CASCADE"
				}
				return s
			})
		}
		add("AK:"+t.name, func(s sschema) sschema {
			s[ti].chks = append(s[ti].chks, schk{name: t.name + "_nk", expr: q(c1) + " IS NOT NULL"})
			return s
		})
		for ki := range t.chks {
			ki := ki
			add(fmt.Sprintf("DK:%s#%d", t.name, ki), func(s sschema) sschema {
				s[ti].chks = append(s[ti].chks[:ki:ki], s[ti].chks[ki+1:]...)
				return s
			})
		}
	}
	return es
}
