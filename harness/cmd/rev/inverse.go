package main

// Stage "inverse" (round 5, oracle only): a metamorphic reading of "the reverse undoes the change" for
// the MySQL and PostgreSQL planners, which have no engine in the sandbox.  For a change set F and
// its hand-built inverse B (every change inverted, the list reversed: AddTable <-> DropTable,
// AddColumn <-> DropColumn, AddIndex <-> DropIndex, AddForeignKey <-> DropForeignKey, AddCheck <->
// DropCheck, Rename* and Modify* with From/To swapped, AddObject <-> DropObject, the sub-changes of
// a ModifyTable inverted and reversed), both are planned with the same options and
//
//	flat_map ReverseStmts (rev plan(F).Changes)   must equal   [c.Cmd | c <- plan(B).Changes]
//
// as multisets of statement texts (the planners sort differently in the two directions), for the
// plans the planner flags reversible.  The inverse plan's Cmds are what the planner itself says
// takes the schema from the desired state back to the start, so a reverse statement that is not
// among them (or a Cmd of the inverse plan that no reverse statement provides) is a reverse that
// does not restore the start schema.

import (
	"context"
	"fmt"
	"sort"
	"strings"

	"ariga.io/atlas/sql/migrate"
	"ariga.io/atlas/sql/mysql"
	"ariga.io/atlas/sql/postgres"
	"ariga.io/atlas/sql/schema"

	"verifharness/internal/out"
	"verifharness/internal/rng"
)

func invSub(s dsub) (dsub, bool) {
	o := s
	switch s.k {
	case "AC":
		o.k = "DC"
	case "DC":
		o.k = "AC"
	case "AI":
		o.k = "DI"
	case "DI":
		o.k = "AI"
	case "AF":
		o.k = "DF"
	case "DF":
		o.k = "AF"
	case "AK":
		if s.chk.name == "" {
			return o, false
		}
		o.k = "DK"
	case "DK":
		o.k = "AK"
	case "APK":
		o.k = "DPK"
	case "DPK":
		o.k = "APK"
	case "MC", "RC":
		o.col, o.col2 = s.col2, s.col
	case "MI", "RI":
		o.idx, o.idx2 = s.idx2, s.idx
	case "MF":
		o.fk, o.fk2 = s.fk2, s.fk
	case "MK":
		o.chk, o.chk2 = s.chk2, s.chk
	case "MPK":
		o.pk, o.pk2 = s.pk2, s.pk
	case "MTC":
		o.cm, o.c2 = s.c2, s.cm
	default:
		return o, false // ATC: no DropAttr counterpart in the generator
	}
	return o, true
}

func invChange(c dchange) (dchange, bool) {
	o := c
	switch c.k {
	case "AT":
		o.k = "DT"
	case "DT":
		o.k = "AT"
	case "RT":
		o.t, o.t2 = c.t2, c.t
	case "MT":
		o.subs = nil
		for i := len(c.subs) - 1; i >= 0; i-- {
			s, ok := invSub(c.subs[i])
			if !ok {
				return o, false
			}
			o.subs = append(o.subs, s)
		}
	case "AO":
		o.k = "DO"
	case "DO":
		o.k = "AO"
	case "MO":
		o.vals, o.vals2 = c.vals2, c.vals
	case "RO":
		o.ename, o.ename2 = c.ename2, c.ename
	case "AS":
		o.k = "DS"
	case "DS":
		o.k = "AS"
	default:
		return o, false
	}
	return o, true
}

func planMP(pg bool, cs []dchange, opts []migrate.PlanOption) (*migrate.Plan, error) {
	wd := &world{pg: pg, tables: map[string]*schema.Table{}, full: map[string]bool{}}
	for _, c := range cs {
		switch c.k {
		case "AT", "DT", "MT", "RT":
			wd.table(c.t)
		}
	}
	var real []schema.Change
	for _, c := range cs {
		real = append(real, wd.change(c))
	}
	var plan *migrate.Plan
	var err error
	var pnc any
	func() {
		defer func() { pnc = recover() }()
		if pg {
			plan, err = postgres.DefaultPlan.PlanChanges(context.Background(), "plan", real, opts...)
		} else {
			plan, err = mysql.DefaultPlan.PlanChanges(context.Background(), "plan", real, opts...)
		}
	}()
	if pnc != nil {
		return nil, fmt.Errorf("panic: %v", pnc)
	}
	return plan, err
}

func kindsOf(cs []dchange) string {
	var ks []string
	for _, c := range cs {
		k := c.k
		if c.k == "MT" {
			var ss []string
			for _, s := range c.subs {
				x := s.k
				if s.k == "MC" || s.k == "MI" {
					x += "{" + s.chg + "}"
				}
				ss = append(ss, x)
			}
			k += "[" + strings.Join(ss, ",") + "]"
		}
		ks = append(ks, k)
	}
	return strings.Join(ks, " ")
}

// shapeOf abstracts a statement to its leading words (for the distribution and the message).
func shapeOf(s string) string {
	f := strings.Fields(s)
	var o []string
	for _, w := range f {
		if w == strings.ToUpper(w) && len(o) < 6 && !strings.ContainsAny(w, "`\"(") {
			o = append(o, w)
		}
	}
	return strings.Join(o, " ")
}

// items cuts the statements into comparable items: an ALTER TABLE gives one item per clause
// ("ALTER TABLE t :: clause": the two directions group and order the clauses of one table
// differently -- PostgreSQL puts constraint drops first, MySQL plans foreign keys apart), any
// other statement is one item.
func items(stmts []string) []string {
	var o []string
	for _, s := range stmts {
		f := strings.Fields(s)
		if len(f) > 3 && f[0] == "ALTER" && f[1] == "TABLE" {
			k := strings.Index(s, f[2]) + len(f[2])
			for _, cl := range splitTop(s[k:]) {
				o = append(o, "ALTER TABLE "+f[2]+" :: "+strings.Join(strings.Fields(cl), " "))
			}
			continue
		}
		o = append(o, s)
	}
	return o
}

func runInverseStage(w *out.W, tier string) {
	w.Rule = "a case is non-trivial when the forward plan is flagged reversible and both plans hold at least one statement; key = (dialect, change kinds)"
	r := rng.FromEnv(0xC17D)
	cnt := 3000
	if tier == "thorough" {
		cnt = 40000
	}
	for i := 0; i < cnt; i++ {
		g := &gen{r: r, pg: i%2 == 1, acyclic: true}
		g.marker = fmt.Sprintf("mkr%dx", 100+r.Intn(900))
		g.other = fmt.Sprintf("oth%dx", 100+r.Intn(900))
		indent := ""
		if r.Chance(1, 3) {
			indent = "  "
		}
		cs, _ := g.changeSet(sp(g.marker), "")
		for k := range cs {
			cs[k].flag = false // IF EXISTS / IF NOT EXISTS are not part of the schema
		}
		// single changes and short lists first: they localise a disagreement
		if i < cnt/2 && len(cs) > 1 {
			cs = cs[:1]
		}
		var inv []dchange
		ok := true
		for k := len(cs) - 1; k >= 0; k-- {
			c, good := invChange(cs[k])
			if !good {
				ok = false
				break
			}
			inv = append(inv, c)
		}
		src := "mysql"
		if g.pg {
			src = "postgres"
		}
		id := fmt.Sprintf("v%d", i)
		if !ok {
			w.Count("no-inverse-in-generator")
			continue
		}
		opts := []migrate.PlanOption{func(o *migrate.PlanOptions) { o.Indent = indent }}
		pf, errF := planMP(g.pg, cs, opts)
		pb, errB := planMP(g.pg, inv, opts)
		kinds := kindsOf(cs)
		w.ImplOnly(id, fmt.Sprintf("%s %s indent=%q", src, kinds, indent))
		if errF != nil || pf == nil {
			w.Count("forward-plan-error")
			continue
		}
		if !pf.Reversible {
			w.Count(src + ":forward-not-reversible")
			continue
		}
		if errB != nil || pb == nil {
			w.Count("inverse-plan-error")
			w.Count("inverse-plan-error:" + src + ":" + kinds)
			continue
		}
		var down, back []string
		for k := len(pf.Changes) - 1; k >= 0; k-- {
			rs, _ := pf.Changes[k].ReverseStmts()
			down = append(down, rs...)
		}
		for _, c := range pb.Changes {
			back = append(back, c.Cmd)
		}
		if len(down) == 0 || len(back) == 0 {
			w.Count("empty-plan")
			continue
		}
		w.NonTrivial(src + ":" + kinds)
		a, b := items(down), items(back)
		sort.Strings(a)
		sort.Strings(b)
		if eqStrs(a, b) {
			w.Count(src + ":reverse=inverse-plan")
			continue
		}
		// what is only on one side
		cntm := map[string]int{}
		for _, s := range a {
			cntm[s]++
		}
		for _, s := range b {
			cntm[s]--
		}
		var onlyRev, onlyInv []string
		for s, n := range cntm {
			for ; n > 0; n-- {
				onlyRev = append(onlyRev, s)
			}
			for ; n < 0; n++ {
				onlyInv = append(onlyInv, s)
			}
		}
		// PostgreSQL plans CREATE TABLE + CREATE INDEX + COMMENT ON: the reverse of an added table is
		// DROP TABLE preceded by the (redundant, harmless) reverses of its satellites
		addsTable := false
		for _, c := range cs {
			if c.k == "AT" {
				addsTable = true
			}
		}
		if addsTable && g.pg {
			var keep []string
			for _, s := range onlyRev {
				if strings.HasPrefix(s, "DROP INDEX ") || (strings.HasPrefix(s, "COMMENT ON ") && strings.HasSuffix(s, " IS ''")) {
					w.Count("postgres:redundant-satellite-reverse-of-added-table")
					continue
				}
				keep = append(keep, s)
			}
			onlyRev = keep
		}
		sort.Strings(onlyRev)
		sort.Strings(onlyInv)
		// The disagreement is explained pattern by pattern; every pattern takes its items out of the two
		// lists.  What no pattern explains is class reverse-not-inverse-plan.
		take := func(l []string, f func(string) bool) (taken, rest []string) {
			for _, s := range l {
				if f(s) {
					taken = append(taken, s)
				} else {
					rest = append(rest, s)
				}
			}
			return
		}
		// (benign) a reverse that only clears a comment the inverse plan does not bother to clear (the
		// object is dropped right after): redundant, harmless
		var t []string
		t, onlyRev = take(onlyRev, func(s string) bool { return strings.HasPrefix(s, "COMMENT ON ") && strings.HasSuffix(s, " IS ''") })
		for range t {
			w.Count("postgres:redundant-comment-clearing-reverse")
		}
		if len(onlyRev) == 0 && len(onlyInv) == 0 {
			w.Count(src + ":reverse=inverse-plan")
			continue
		}
		// (benign) tables created / dropped together with their foreign keys: DetachCycles places the keys
		// inside CREATE TABLE or in ALTERs depending on the direction (stage cycle simulates those plans);
		// the generator names foreign keys f_*
		tableLevel := false
		for _, c := range cs {
			if c.k == "AT" || c.k == "DT" {
				tableLevel = true
			}
		}
		if tableLevel {
			isPlacement := func(s string) bool {
				return strings.HasPrefix(s, "CREATE TABLE ") || (strings.Contains(s, ":: ADD CONSTRAINT ") && strings.Contains(s, " FOREIGN KEY ")) ||
					strings.Contains(s, ":: DROP CONSTRAINT \"f_") || strings.Contains(s, ":: DROP FOREIGN KEY ")
			}
			var t1, t2 []string
			t1, onlyRev = take(onlyRev, isPlacement)
			t2, onlyInv = take(onlyInv, isPlacement)
			if len(t1)+len(t2) > 0 {
				w.Count("skipped:foreign-key-placement-of-created/dropped-tables(stage cycle)")
			}
			if len(onlyRev) == 0 && len(onlyInv) == 0 {
				continue
			}
		}
		isComment := func(s string) bool { return strings.HasPrefix(s, "COMMENT ON ") && !strings.HasSuffix(s, " IS ''") }
		isAddIdx := func(s string) bool {
			return strings.HasPrefix(s, "CREATE INDEX ") || strings.HasPrefix(s, "CREATE UNIQUE INDEX ") || strings.Contains(s, ":: ADD INDEX ") ||
				strings.Contains(s, ":: ADD UNIQUE INDEX ") || (strings.Contains(s, ":: ADD CONSTRAINT ") && strings.Contains(s, " UNIQUE ")) ||
				(isComment(s) && strings.HasPrefix(s, "COMMENT ON INDEX "))
		}
		var revs [][]string
		for _, c := range pf.Changes {
			rs, _ := c.ReverseStmts()
			revs = append(revs, rs)
		}
		report := func(class string, r, v []string) {
			var sh []string
			for _, s := range r {
				sh = append(sh, "rev:"+shapeOf(s))
			}
			for _, s := range v {
				sh = append(sh, "inv:"+shapeOf(s))
			}
			w.Count("differs:" + src + ":" + class + ":" + strings.Join(sh, " | "))
			w.Violation(id, class, fmt.Sprintf("%s changes %s indent=%q: reverse statements not planned by the inverse change set: %s; statements of the inverse plan no reverse provides: %s | forward plan: %s",
				src, kinds, indent, trunc(fmt.Sprintf("%q", r), 900), trunc(fmt.Sprintf("%q", v), 900), trunc(planText(pf, revs), 1500)))
		}
		// MySQL, ModifyForeignKey with another referenced table/column: `ADD INDEX f (..)` in the reverse
		// against `DROP INDEX f` in the inverse plan (both directions drop the index MySQL created for the
		// key).  With an empty column list the reverse is not a statement (finding
		// C17-mysql-modify-fk-reverse-empty-index); with the key's columns (the proposed fix) it restores
		// the same schema as the inverse plan's DROP INDEX + ADD CONSTRAINT.
		if !g.pg && strings.Contains(kinds, "MF") {
			var er, ev, keepRev []string
			for _, a := range onlyRev {
				i := strings.Index(a, ":: ADD INDEX ")
				paired := false
				if i >= 0 {
					name := a[i+len(":: ADD INDEX "):]
					if k := strings.Index(name, " ("); k > 0 {
						want := a[:i] + ":: DROP INDEX " + name[:k]
						for j, b := range onlyInv {
							if b == want {
								onlyInv = append(append([]string(nil), onlyInv[:j]...), onlyInv[j+1:]...)
								paired = true
								if strings.HasSuffix(a, " ()") {
									er, ev = append(er, a), append(ev, b)
								} else {
									w.Count("mysql:modify-fk-key-index-recreated-explicitly")
								}
								break
							}
						}
					}
				}
				if !paired {
					keepRev = append(keepRev, a)
				}
			}
			onlyRev = keepRev
			if len(er) > 0 {
				report("reverse-mysql-modify-fk-empty-index", er, ev)
			}
		}
		// PostgreSQL: the reverse of DROP COLUMN / DROP INDEX comes without the object's comment
		if g.pg && (strings.Contains(kinds, "DC") || strings.Contains(kinds, "DI")) && !(strings.Contains(kinds, "DI") && strings.Contains(kinds, "DC")) {
			var c []string
			c, onlyInv = take(onlyInv, isComment)
			if len(c) > 0 {
				report("reverse-postgres-drop-loses-comment", nil, c)
			}
		}
		// a DropIndex skipped because its column is dropped in the same ModifyTable: nothing re-creates the index
		if strings.Contains(kinds, "DI") && strings.Contains(kinds, "DC") {
			var c []string
			c, onlyInv = take(onlyInv, func(s string) bool { return isAddIdx(s) || (g.pg && isComment(s)) })
			if len(c) > 0 {
				report("reverse-drop-column-loses-its-index", nil, c)
			}
		}
		// PostgreSQL: likewise a DropForeignKey skipped because its child column is dropped in the same ModifyTable
		if g.pg && strings.Contains(kinds, "DF") && strings.Contains(kinds, "DC") {
			var c []string
			c, onlyInv = take(onlyInv, func(s string) bool {
				return strings.Contains(s, ":: ADD CONSTRAINT ") && strings.Contains(s, " FOREIGN KEY ")
			})
			if len(c) > 0 {
				report("reverse-drop-column-loses-its-foreign-key", nil, c)
			}
		}
		if len(onlyRev) == 0 && len(onlyInv) == 0 {
			w.Count(src + ":reverse!=inverse-plan(known patterns only)")
			continue
		}
		w.Count(src + ":reverse!=inverse-plan")
		report("reverse-not-inverse-plan", onlyRev, onlyInv)
	}
}
