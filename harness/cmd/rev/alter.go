package main

// Stage "alter": one ModifyTable whose sub-changes mix irreversible and reversible ones, in every
// order, for the three planners (mysql.DefaultPlan, postgres.DefaultPlan, sqlite.DefaultPlan).
//
// MySQL and PostgreSQL build one ALTER TABLE per ModifyTable and accumulate, arm by arm, the flag
// `reversible` (and-ed: an unnamed CHECK has a server-generated name, PostgreSQL cannot restore a
// dropped generation expression) and the list of reverse sub-changes, which is reversed and
// rendered as one ALTER TABLE when the flag survived.  SQLite plans one change per sub-change, or a
// table rebuild (never reversible) as soon as one sub-change is not "alterable".
//
// Generator: a fixed table and a catalogue of sub-changes (add/drop/modify/rename column, add/drop/
// rename index, add named / add unnamed / drop / modify check, add/drop foreign key, add/drop/modify
// primary key, add/modify table comment, PostgreSQL: drop generation expression); every ordered pair
// and every ordered triple of distinct catalogue entries (0, 1 or 2 irreversible members).
//
// Oracle (engine-free, on the real plan):
//   - Plan.Reversible = every change has a reverse;
//   - a change whose source ModifyTable holds an irreversible sub-change has no reverse, and the plan
//     is not flagged (what is irreversible is the harness's own table, not read from the planner);
//   - the reverse of every ALTER undoes every clause of its Cmd (reverse-skeleton oracle, skel.go) and
//     its clauses come in the reverse order of the Cmd's.
// Tie (Lex/DownAlterModel.v): the arms that reach alterTable, with the key of the object each touches ->
// has the main ALTER a reverse, and the object sequence of its reverse statement.

import (
	"context"
	"fmt"
	"strings"

	"ariga.io/atlas/sql/migrate"
	"ariga.io/atlas/sql/mysql"
	"ariga.io/atlas/sql/postgres"
	"ariga.io/atlas/sql/schema"
	"ariga.io/atlas/sql/sqlite"

	"verifharness/internal/out"
)

type aent struct {
	label string
	sub   dsub
	hand  func(t *schema.Table) schema.Change // hand-built sub-change (instead of sub)
	irr   map[string]bool                     // dialects in which the sub-change has no reverse
	only  string                              // "" or the only dialect that knows it
	notie bool                                // its arms in alterTable are not described: oracle only
	// the arm(s) the sub-change becomes in alterTable, per dialect: kind letter + object key;
	// "" = it does not reach the ALTER TABLE statement of that dialect (own statement / own group)
	arms map[string][]string
}

func alterTab() (dtab, dtab) {
	sch := sp("s1")
	ref := dtab{schema: sch, name: "t_ref", cols: []dcol{{name: "id", typ: "int"}}, pk: []string{"id"}}
	t := dtab{schema: sch, name: "t_main",
		cols: []dcol{{name: "c1", typ: "int"}, {name: "c2", typ: "int", null: true}, {name: "c3", typ: "text", null: true}, {name: "c4", typ: "int", null: true}, {name: "c5", typ: "int", null: true}},
		pk:   []string{"c1"},
		idx:  []didx{{name: "i_old", cols: []string{"c2"}}, {name: "i_old2", cols: []string{"c3"}}},
		fks:  []dfk{{sym: "f_old", cols: []string{"c4"}, ref: "t_ref", rschema: sch, rcols: []string{"id"}}},
		chks: []dchk{{"k_old", "(c2 > 0)"}, {"k_old2", "(c4 > 0)"}},
	}
	return t, ref
}

func alterCatalogue() []aent {
	t, ref := alterTab()
	col := func(n string) dcol {
		for _, c := range t.cols {
			if c.name == n {
				return c
			}
		}
		return dcol{name: n, typ: "int", null: true}
	}
	mk := func(label string, s dsub, arms map[string][]string) aent { return aent{label: label, sub: s, arms: arms} }
	both := func(a ...string) map[string][]string { return map[string][]string{"mysql": a, "postgres": a} }
	c2n := col("c2")
	c2n.null = false
	c3t := col("c3")
	c3t.typ = "int"
	c3r := col("c3")
	c3r.name = "c3r"
	i2 := didx{name: "i_ren", cols: []string{"c3"}}
	es := []aent{
		mk("AC", dsub{k: "AC", col: dcol{name: "n1", typ: "int", null: true}}, both("o:COLUMN:n1")),
		mk("AC2", dsub{k: "AC", col: dcol{name: "n2", typ: "text", null: true}}, both("o:COLUMN:n2")),
		mk("DC", dsub{k: "DC", col: col("c5")}, both("o:COLUMN:c5")),
		mk("MC", dsub{k: "MC", col: col("c2"), col2: c2n, chg: "null"}, map[string][]string{"mysql": {"o:COLUMN:c2"}, "postgres": {"o:COLUMN-NULL:c2"}}),
		mk("MCt", dsub{k: "MC", col: col("c3"), col2: c3t, chg: "type"}, map[string][]string{"mysql": {"o:COLUMN:c3"}, "postgres": {"o:COLUMN-TYPE:c3"}}),
		mk("RC", dsub{k: "RC", col: col("c3"), col2: c3r}, map[string][]string{"mysql": {"o:COLUMN:c3r|c3"}}),
		mk("AI", dsub{k: "AI", idx: didx{name: "i_new", cols: []string{"c2"}}}, map[string][]string{"mysql": {"o:INDEX:i_new"}}),
		mk("AIu", dsub{k: "AI", idx: didx{name: "i_newu", cols: []string{"c4"}, unique: true}}, map[string][]string{"mysql": {"o:INDEX:i_newu"}}),
		mk("DI", dsub{k: "DI", idx: t.idx[0]}, map[string][]string{"mysql": {"o:INDEX:i_old"}}),
		mk("RI", dsub{k: "RI", idx: t.idx[1], idx2: i2}, map[string][]string{"mysql": {"o:INDEX:i_ren|i_old2"}}),
		mk("AKn", dsub{k: "AK", chk: dchk{"k_new", "(c2 <> 3)"}}, both("c:CONSTRAINT:k_new")),
		mk("AKn2", dsub{k: "AK", chk: dchk{"k_new2", "(c4 <> 3)"}}, both("c:CONSTRAINT:k_new2")),
		mk("AKu", dsub{k: "AK", chk: dchk{"", "(c2 <> 5)"}}, both("u:CONSTRAINT:<unnamed>")),
		mk("AKu2", dsub{k: "AK", chk: dchk{"", "(c4 <> 5)"}}, both("u:CONSTRAINT:<unnamed>")),
		mk("DK", dsub{k: "DK", chk: t.chks[0]}, map[string][]string{"mysql": {"o:CONSTRAINT:k_old"}, "postgres": {"d:CONSTRAINT:k_old"}}),
		mk("MK", dsub{k: "MK", chk: t.chks[1], chk2: dchk{"k_old2", "(c4 > 1)"}}, both("o:CONSTRAINT:k_old2")),
		mk("AF", dsub{k: "AF", fk: dfk{sym: "f_new", cols: []string{"c2"}, ref: ref.name, rschema: ref.schema, rcols: []string{"id"}}}, both("o:CONSTRAINT:f_new")),
		mk("DF", dsub{k: "DF", fk: t.fks[0]}, map[string][]string{"mysql": {"o:CONSTRAINT:f_old"}, "postgres": {"d:CONSTRAINT:f_old"}}),
		mk("DPK", dsub{k: "DPK", pk: []string{"c1"}}, map[string][]string{"mysql": {"o:CONSTRAINT:<pk>"}, "postgres": {"d:CONSTRAINT:<pk>"}}),
		mk("MPK", dsub{k: "MPK", pk: []string{"c1"}, pk2: []string{"c2"}}, map[string][]string{"mysql": {"o:CONSTRAINT:<pk>"}, "postgres": {"d:CONSTRAINT:<pk>", "o:CONSTRAINT:<pk>"}}),
		mk("ATC", dsub{k: "ATC", cm: "added note"}, map[string][]string{"mysql": {"a:TABLE-ATTR:t_main"}}),
		mk("MTC", dsub{k: "MTC", cm: "old note", c2: "new note"}, map[string][]string{"mysql": {"o:TABLE-ATTR:t_main"}}),
	}
	for i := range es {
		if es[i].label == "AKu" || es[i].label == "AKu2" {
			es[i].irr = map[string]bool{"mysql": true, "postgres": true}
		}
		if es[i].label == "ATC" {
			// MySQL: no statement restores the previous (implicit) value of an added table attribute
			es[i].irr = map[string]bool{"mysql": true}
		}
	}
	// PostgreSQL: ALTER COLUMN c5 DROP EXPRESSION (the generation expression cannot be restored)
	es = append(es, aent{label: "MCg", only: "postgres", irr: map[string]bool{"postgres": true},
		arms: map[string][]string{"postgres": {"g:COLUMN:c5"}},
		hand: func(tb *schema.Table) schema.Change {
			from := &schema.Column{Name: "c5", Type: &schema.ColumnType{Type: &schema.IntegerType{T: "integer"}, Null: true},
				Attrs: []schema.Attr{&schema.GeneratedExpr{Expr: "c1 * 2", Type: "STORED"}}}
			to := &schema.Column{Name: "c5", Type: &schema.ColumnType{Type: &schema.IntegerType{T: "integer"}, Null: true}}
			return &schema.ModifyColumn{From: from, To: to, Change: schema.ChangeGenerated}
		}})
	return es
}

// sqlite: what alterTable accepts (one planned change each) and what forces the rebuild
var sqliteAlterable = map[string]bool{"AC": true, "AC2": true, "AI": true, "AIu": true, "DI": true, "RC": true, "RI": true}

// objSeq: the objects a statement's clauses touch, in order, adjacent repetitions merged
func objSeq(stmt string) ([]string, bool) { return objSeqK(stmt, true) }

// objSeqK: fine = keep the clause kind of a PostgreSQL ALTER COLUMN (TYPE / NULL / DEFAULT / IDENTITY /
// EXPRESSION); coarse = the column as one object (the clauses of one ModifyColumn keep their order
// in the reverse, only the sub-changes are reversed)
func objSeqK(stmt string, fine bool) ([]string, bool) {
	as, ok := atomsOf(stmt)
	if !ok {
		return nil, false
	}
	var o []string
	for _, a := range as {
		n := a.a
		if strings.HasPrefix(a.kind, "COLUMN") {
			n = baseName(n)
		}
		if a.op == "R" {
			n = baseName(a.a) + "|" + baseName(a.b)
		}
		if a.kind == "TABLE-ATTR" {
			n = baseName(n)
		}
		kd := a.kind
		if !fine && strings.HasPrefix(kd, "COLUMN-") {
			kd = "COLUMN"
		}
		k := kd + ":" + n
		if len(o) == 0 || o[len(o)-1] != k {
			o = append(o, k)
		}
	}
	return o, true
}

func sameObjs(a, b []string) bool {
	// a rename is the same object whichever way it goes
	norm := func(s string) string {
		if i := strings.Index(s, ":"); i >= 0 && strings.Contains(s[i+1:], "|") {
			p := strings.Split(s[i+1:], "|")
			if p[0] > p[1] {
				p[0], p[1] = p[1], p[0]
			}
			return s[:i+1] + p[0] + "|" + p[1]
		}
		return s
	}
	if len(a) != len(b) {
		return false
	}
	for i := range a {
		if norm(a[i]) != norm(b[i]) {
			return false
		}
	}
	return true
}

func runAlterCase(w *out.W, id, dialect string, ents []aent) {
	t, ref := alterTab()
	wd := &world{pg: dialect == "postgres", tables: map[string]*schema.Table{}, full: map[string]bool{}}
	wd.table(ref)
	tb := wd.table(t)
	wd.linkFKs(t)
	mt := &schema.ModifyTable{T: tb}
	var labels []string
	anyIrr := false
	for _, e := range ents {
		labels = append(labels, e.label)
		if e.hand != nil {
			mt.Changes = append(mt.Changes, e.hand(tb))
		} else {
			mt.Changes = append(mt.Changes, wd.sub(tb, e.sub))
		}
		if e.irr[dialect] {
			anyIrr = true
		}
	}
	desc := dialect + " ModifyTable[" + strings.Join(labels, ",") + "]"
	var plan *migrate.Plan
	var err error
	var pnc any
	func() {
		defer func() { pnc = recover() }()
		switch dialect {
		case "mysql":
			plan, err = mysql.DefaultPlan.PlanChanges(context.Background(), "p", []schema.Change{mt})
		case "postgres":
			plan, err = postgres.DefaultPlan.PlanChanges(context.Background(), "p", []schema.Change{mt})
		case "sqlite":
			plan, err = sqlite.DefaultPlan.PlanChanges(context.Background(), "p", []schema.Change{mt})
		}
	}()
	if pnc != nil {
		w.Count("panic:" + dialect)
		return
	}
	if err != nil || plan == nil {
		w.Count("plan-error:" + dialect)
		return
	}
	w.Count("planned:" + dialect)
	w.Count(fmt.Sprintf("irreversible-members=%d", func() int {
		n := 0
		for _, e := range ents {
			if e.irr[dialect] {
				n++
			}
		}
		return n
	}()))
	all, core, bracket, revs, ferr := flags(plan)
	if ferr != nil {
		w.Violation(id, "reversestmts-mismatch", ferr.Error()+" | "+desc)
		return
	}
	pt := planText(plan, revs)
	if !(plan.Reversible == all || bracket && plan.Reversible == core) {
		w.Violation(id, "flag-mismatch", fmt.Sprintf("Plan.Reversible=%v but forall(has reverse)=%v: %s | %s", plan.Reversible, all, desc, pt))
	}
	// ---- irreversible members
	if dialect == "sqlite" {
		rebuild := false
		for _, e := range ents {
			if !sqliteAlterable[e.label] {
				rebuild = true
			}
		}
		if rebuild && plan.Reversible {
			w.Violation(id, "alter-irreversible-flagged", fmt.Sprintf("a sub-change forces the table rebuild but the plan is flagged reversible: %s | %s", desc, pt))
		}
		if rebuild {
			w.Count("sqlite:rebuild")
		} else {
			w.Count("sqlite:alter")
		}
	} else if anyIrr && plan.Reversible {
		w.Violation(id, "alter-irreversible-flagged", fmt.Sprintf("the ModifyTable holds a sub-change that cannot be reversed but the plan is flagged reversible: %s | %s", desc, pt))
	}
	var obs []string
	irrClause := false
	for i, c := range plan.Changes {
		src, isMT := c.Source.(*schema.ModifyTable)
		if isMT && dialect != "sqlite" && len(revs[i]) > 0 && strings.HasPrefix(c.Cmd, "ALTER TABLE") {
			for _, sc := range src.Changes {
				irr := false
				switch sc := sc.(type) {
				case *schema.AddCheck:
					irr = sc.C.Name == ""
				case *schema.ModifyColumn:
					irr = dialect == "postgres" && sc.Change.Is(schema.ChangeGenerated)
				case *schema.AddAttr, *schema.DropAttr:
					irr = dialect == "mysql"
				}
				if irr {
					w.Violation(id, "alter-irreversible-member-reversed", fmt.Sprintf("%T of the ALTER cannot be reversed, yet the change has a reverse: Cmd %q reverse %q | %s", sc, trunc(c.Cmd, 300), revs[i], desc))
					break
				}
			}
		}
		// a clause of the Cmd whose kind cannot be undone in this dialect (the harness's own table, read from
		// the statement text): DROP EXPRESSION (postgres), a constraint without a name (mysql, postgres)
		if dialect != "sqlite" {
			if as, ok := atomsOf(c.Cmd); ok {
				for _, a := range as {
					if a.kind == "COLUMN-EXPRESSION" || a.op == "+" && a.kind == "CONSTRAINT" && a.a == "<unnamed>" {
						irrClause = true
						if len(revs[i]) > 0 {
							w.Violation(id, "alter-irreversible-clause-reversed", fmt.Sprintf("the Cmd holds the clause %s, which cannot be undone, yet the change has a reverse: Cmd %q reverse %q | %s", a, trunc(c.Cmd, 300), revs[i], desc))
						}
						break
					}
				}
			}
		}
		if len(revs[i]) == 0 {
			continue
		}
		// a column-modifying clause of the Cmd found verbatim in the reverse: the reverse sets the state the
		// Cmd set (every kind of the generated ModifyColumn changes the column for real)
		if dialect != "sqlite" {
			rc := map[string]bool{}
			for _, r := range revs[i] {
				for _, x := range modClauses(r) {
					rc[x] = true
				}
			}
			for _, x := range modClauses(c.Cmd) {
				if rc[x] {
					w.Violation(id, "reverse-restates-change", fmt.Sprintf("%s: the reverse holds the clause %q of its Cmd verbatim: it repeats the modification instead of undoing it | Cmd %q | reverse %q | %s", dialect, x, trunc(c.Cmd, 300), revs[i], desc))
					break
				}
			}
		}
		v, msg := checkInverse(c.Cmd, revs[i])
		w.Count("skeleton-" + v)
		switch v {
		case "skip":
			w.Count("skeleton-skip:" + dialect + ":" + trunc(c.Cmd, 60))
		case "attr":
			w.Violation(id, "reverse-skeleton-table-attr", fmt.Sprintf("%s: %s | Cmd %q | reverse %q | %s", dialect, msg, trunc(c.Cmd, 300), revs[i], desc))
		case "bad":
			w.Violation(id, "reverse-skeleton", fmt.Sprintf("%s: %s | Cmd %q | reverse %q | %s", dialect, msg, trunc(c.Cmd, 300), revs[i], desc))
		case "ok":
			if len(revs[i]) == 1 {
				co, ok1 := objSeqK(c.Cmd, false)
				ro, ok2 := objSeqK(revs[i][0], false)
				if ok1 && ok2 {
					for l, r := 0, len(co)-1; l < r; l, r = l+1, r-1 {
						co[l], co[r] = co[r], co[l]
					}
					if !sameObjs(co, ro) {
						w.Violation(id, "reverse-order", fmt.Sprintf("%s: the clauses of the reverse are not in the reverse order of the Cmd's: expected %v, reverse has %v | Cmd %q | reverse %q | %s", dialect, co, ro, trunc(c.Cmd, 300), revs[i], desc))
					}
				}
			}
		}
	}
	if irrClause {
		w.Count("irreversible-clause:" + dialect)
	}
	if strings.HasPrefix(id, "k") {
		w.Count("kinds-case:" + dialect)
		if plan.Reversible {
			w.Count("kinds-case-flagged:" + dialect)
		}
	}
	if irrClause && plan.Reversible {
		w.Violation(id, "alter-irreversible-flagged", fmt.Sprintf("a Cmd of the plan holds a clause that cannot be undone but the plan is flagged reversible: %s | %s", desc, pt))
	}
	// ---- tie: the arms that reach alterTable (mysql: one group when no ModifyIndex/ModifyForeignKey)
	if dialect != "sqlite" {
		var arms []string
		for _, e := range ents {
			arms = append(arms, e.arms[dialect]...)
		}
		// the main ALTER TABLE change: the one whose source is the ModifyTable and whose Cmd starts with ALTER TABLE
		seen := 0
		line := ""
		for i, c := range plan.Changes {
			if _, ok := c.Source.(*schema.ModifyTable); ok && strings.HasPrefix(c.Cmd, "ALTER TABLE") {
				seen++
				if len(revs[i]) == 0 {
					line = "A none"
				} else if ro, ok := objSeq(revs[i][0]); ok && len(revs[i]) == 1 {
					line = "A " + strings.Join(ro, " ")
				} else {
					line = "A unread"
				}
			}
		}
		notie := false
		for _, e := range ents {
			if e.notie {
				notie = true
			}
		}
		if len(arms) > 0 && seen == 1 && !notie {
			toks := []string{dialect, fmt.Sprint(len(arms))}
			for _, a := range arms {
				toks = append(toks, hx(a))
			}
			obs = append(obs, line)
			w.Case(id, strings.Join(toks, " "), obs)
			w.NonTrivial(dialect + ":" + strings.Join(arms, ","))
			return
		}
	}
	w.ImplOnly(id, desc)
	w.NonTrivial(desc)
}

func runAlterStage(w *out.W, tier string) {
	w.Rule = "every planned case is non-trivial (each is a distinct ordered tuple of sub-changes); key = dialect + the tuple"
	w.Exhaust = true
	cat := alterCatalogue()
	n := 0
	runKinds(w, &n)
	for _, dialect := range []string{"mysql", "postgres", "sqlite"} {
		var es []aent
		for _, e := range cat {
			if e.only != "" && e.only != dialect {
				continue
			}
			if dialect == "sqlite" && (e.label == "ATC" || e.label == "MTC") {
				continue
			}
			es = append(es, e)
		}
		// singles, ordered pairs, ordered triples of distinct entries
		for i := range es {
			n++
			runAlterCase(w, fmt.Sprintf("a%d", n), dialect, []aent{es[i]})
			for j := range es {
				if j == i {
					continue
				}
				n++
				runAlterCase(w, fmt.Sprintf("a%d", n), dialect, []aent{es[i], es[j]})
				for k := range es {
					if k == i || k == j {
						continue
					}
					// quick: the triples with at least one check / generated member or a member right next to
					// one; thorough: all
					if tier != "thorough" && !(interesting(es[i]) || interesting(es[j]) || interesting(es[k])) {
						continue
					}
					n++
					runAlterCase(w, fmt.Sprintf("a%d", n), dialect, []aent{es[i], es[j], es[k]})
				}
			}
		}
	}
}

// ---------------------------------------------------------------- change kinds inside one Modify* sub-change

// subsets of size 1..3 of n elements, as bit masks
func subsets3(n int) []int {
	var out []int
	for m := 1; m < 1<<n; m++ {
		c := 0
		for b := 0; b < n; b++ {
			if m&(1<<b) != 0 {
				c++
			}
		}
		if c <= 3 {
			out = append(out, m)
		}
	}
	return out
}

func kindLabel(prefix string, names []string, m int) string {
	var ks []string
	for b, n := range names {
		if m&(1<<b) != 0 {
			ks = append(ks, n)
		}
	}
	return prefix + "{" + strings.Join(ks, "+") + "}"
}

// pgModifyColumn: kinds T(ype) N(ull) D(efault) A(ttr: identity) G(enerated: DROP EXPRESSION) C(omment)
func pgModifyColumn(m int, flip bool) aent {
	names := []string{"T", "N", "D", "A", "G", "C"}
	has := func(b int) bool { return m&(1<<b) != 0 }
	bits := ""
	for b := 0; b < 5; b++ {
		if has(b) {
			bits += "1"
		} else {
			bits += "0"
		}
	}
	e := aent{label: kindLabel("MC", names, m), only: "postgres", arms: map[string][]string{}}
	if flip {
		e.label += "'"
	}
	if m&31 != 0 {
		e.arms["postgres"] = []string{"m" + bits + ":c5"}
	}
	if has(4) {
		e.irr = map[string]bool{"postgres": true}
	}
	e.hand = func(tb *schema.Table) schema.Change {
		from := &schema.Column{Name: "c5", Type: &schema.ColumnType{Type: &schema.IntegerType{T: "integer"}, Null: !flip}}
		to := &schema.Column{Name: "c5", Type: &schema.ColumnType{Type: &schema.IntegerType{T: "integer"}, Null: !flip}}
		var k schema.ChangeKind
		if has(0) {
			to.Type.Type = &schema.IntegerType{T: "bigint"}
			k |= schema.ChangeType
		}
		if has(1) {
			to.Type.Null = flip
			k |= schema.ChangeNull
		}
		if has(2) {
			if flip {
				from.Default = &schema.Literal{V: "7"}
			} else {
				to.Default = &schema.Literal{V: "7"}
			}
			k |= schema.ChangeDefault
		}
		if has(3) {
			from.Attrs = append(from.Attrs, &postgres.Identity{Generation: "BY DEFAULT", Sequence: &postgres.Sequence{Start: 1, Increment: 1}})
			to.Attrs = append(to.Attrs, &postgres.Identity{Generation: "ALWAYS", Sequence: &postgres.Sequence{Start: 1, Increment: 1}})
			k |= schema.ChangeAttr
		}
		if has(4) {
			from.Attrs = append(from.Attrs, &schema.GeneratedExpr{Expr: "c1 * 2", Type: "STORED"})
			k |= schema.ChangeGenerated
		}
		if has(5) {
			from.Attrs = append(from.Attrs, &schema.Comment{Text: "old"})
			to.Attrs = append(to.Attrs, &schema.Comment{Text: "new"})
			k |= schema.ChangeComment
		}
		return &schema.ModifyColumn{From: from, To: to, Change: k}
	}
	return e
}

// mysqlModifyColumn: kinds T N D C(omment) Charset Collate A(ttr: AUTO_INCREMENT) G(enerated STORED expression)
func mysqlModifyColumn(m int) aent {
	names := []string{"T", "N", "D", "C", "Charset", "Collate", "A", "G"}
	has := func(b int) bool { return m&(1<<b) != 0 }
	e := aent{label: kindLabel("MC", names, m), only: "mysql", arms: map[string][]string{"mysql": {"o:COLUMN:c5"}}}
	e.hand = func(tb *schema.Table) schema.Change {
		from := &schema.Column{Name: "c5", Type: &schema.ColumnType{Type: &schema.StringType{T: "varchar", Size: 64}, Null: true}}
		to := &schema.Column{Name: "c5", Type: &schema.ColumnType{Type: &schema.StringType{T: "varchar", Size: 64}, Null: true}}
		var k schema.ChangeKind
		if has(0) {
			to.Type.Type = &schema.StringType{T: "varchar", Size: 128}
			k |= schema.ChangeType
		}
		if has(1) {
			to.Type.Null = false
			k |= schema.ChangeNull
		}
		if has(2) {
			to.Default = &schema.Literal{V: "'x'"}
			k |= schema.ChangeDefault
		}
		if has(3) {
			to.Attrs = append(to.Attrs, &schema.Comment{Text: "new"})
			k |= schema.ChangeComment
		}
		if has(4) {
			from.Attrs = append(from.Attrs, &schema.Charset{V: "latin1"})
			to.Attrs = append(to.Attrs, &schema.Charset{V: "utf8mb4"})
			k |= schema.ChangeCharset
		}
		if has(5) {
			from.Attrs = append(from.Attrs, &schema.Collation{V: "latin1_bin"})
			to.Attrs = append(to.Attrs, &schema.Collation{V: "utf8mb4_bin"})
			k |= schema.ChangeCollate
		}
		if has(6) {
			to.Attrs = append(to.Attrs, &mysql.OnUpdate{A: "CURRENT_TIMESTAMP"})
			k |= schema.ChangeAttr
		}
		if has(7) {
			from.Attrs = append(from.Attrs, &schema.GeneratedExpr{Expr: "c3", Type: "STORED"})
			to.Attrs = append(to.Attrs, &schema.GeneratedExpr{Expr: "concat(c3, 'x')", Type: "STORED"})
			k |= schema.ChangeGenerated
		}
		return &schema.ModifyColumn{From: from, To: to, Change: k}
	}
	return e
}

// the other Modify* sub-changes: the change-kind bits they carry, From/To differing accordingly
func otherModifies(dialect string) []aent {
	var es []aent
	// ModifyIndex: Unique, Parts, Comment, Attr
	for _, m := range subsets3(4) {
		m := m
		e := aent{label: kindLabel("MI", []string{"Unique", "Parts", "Comment", "Attr"}, m), arms: map[string][]string{}, notie: true}
		e.hand = func(tb *schema.Table) schema.Change {
			c2, _ := tb.Column("c2")
			c4, _ := tb.Column("c4")
			from := &schema.Index{Name: "i_old", Table: tb, Parts: []*schema.IndexPart{{SeqNo: 0, C: c2}}}
			to := &schema.Index{Name: "i_old", Table: tb, Parts: []*schema.IndexPart{{SeqNo: 0, C: c2}}}
			var k schema.ChangeKind
			if m&1 != 0 {
				to.Unique = true
				k |= schema.ChangeUnique
			}
			if m&2 != 0 {
				to.Parts = append(to.Parts, &schema.IndexPart{SeqNo: 1, C: c4})
				k |= schema.ChangeParts
			}
			if m&4 != 0 {
				from.Attrs = append(from.Attrs, &schema.Comment{Text: "old idx"})
				to.Attrs = append(to.Attrs, &schema.Comment{Text: "new idx"})
				k |= schema.ChangeComment
			}
			if m&8 != 0 {
				if dialect == "postgres" {
					to.Attrs = append(to.Attrs, &postgres.IndexType{T: "HASH"})
				} else {
					to.Attrs = append(to.Attrs, &mysql.IndexType{T: "HASH"})
				}
				k |= schema.ChangeAttr
			}
			return &schema.ModifyIndex{From: from, To: to, Change: k}
		}
		es = append(es, e)
	}
	// ModifyForeignKey: RefColumn, Column, UpdateAction, DeleteAction
	for _, m := range subsets3(4) {
		m := m
		e := aent{label: kindLabel("MF", []string{"RefColumn", "Column", "UpdateAction", "DeleteAction"}, m), arms: map[string][]string{}, notie: true}
		e.hand = func(tb *schema.Table) schema.Change {
			c4, _ := tb.Column("c4")
			c2, _ := tb.Column("c2")
			ref := tb.ForeignKeys[0].RefTable
			from := &schema.ForeignKey{Symbol: "f_old", Table: tb, Columns: []*schema.Column{c4}, RefTable: ref, RefColumns: ref.Columns[:1], OnDelete: schema.Cascade}
			to := &schema.ForeignKey{Symbol: "f_old", Table: tb, Columns: []*schema.Column{c4}, RefTable: ref, RefColumns: ref.Columns[:1], OnDelete: schema.Cascade}
			var k schema.ChangeKind
			if m&1 != 0 {
				k |= schema.ChangeRefColumn
			}
			if m&2 != 0 {
				to.Columns = []*schema.Column{c2}
				k |= schema.ChangeColumn
			}
			if m&4 != 0 {
				to.OnUpdate = schema.SetNull
				k |= schema.ChangeUpdateAction
			}
			if m&8 != 0 {
				to.OnDelete = schema.SetNull
				k |= schema.ChangeDeleteAction
			}
			return &schema.ModifyForeignKey{From: from, To: to, Change: k}
		}
		es = append(es, e)
	}
	// ModifyPrimaryKey: Parts, Comment, Attr
	for _, m := range subsets3(3) {
		m := m
		e := aent{label: kindLabel("MPK", []string{"Parts", "Comment", "Attr"}, m), arms: map[string][]string{}, notie: true}
		e.hand = func(tb *schema.Table) schema.Change {
			c1, _ := tb.Column("c1")
			c2, _ := tb.Column("c2")
			from := &schema.Index{Table: tb, Unique: true, Parts: []*schema.IndexPart{{SeqNo: 0, C: c1}}}
			to := &schema.Index{Table: tb, Unique: true, Parts: []*schema.IndexPart{{SeqNo: 0, C: c1}}}
			var k schema.ChangeKind
			if m&1 != 0 {
				to.Parts = append(to.Parts, &schema.IndexPart{SeqNo: 1, C: c2})
				k |= schema.ChangeParts
			}
			if m&2 != 0 {
				to.Attrs = append(to.Attrs, &schema.Comment{Text: "pk note"})
				k |= schema.ChangeComment
			}
			if m&4 != 0 {
				k |= schema.ChangeAttr
			}
			return &schema.ModifyPrimaryKey{From: from, To: to, Change: k}
		}
		es = append(es, e)
	}
	// ModifyCheck: the expression changes (the only kind both planners accept)
	es = append(es, aent{label: "MK{Expr}", arms: map[string][]string{}, notie: true, hand: func(tb *schema.Table) schema.Change {
		return &schema.ModifyCheck{From: &schema.Check{Name: "k_old2", Expr: "(c4 > 0)"}, To: &schema.Check{Name: "k_old2", Expr: "(c4 > 2)"}, Change: schema.ChangeAttr}
	}})
	return es
}

// runKinds: every non-empty subset (up to 3) of the change kinds of each Modify* sub-change, alone in the
// ModifyTable and next to another sub-change (before and after it)
func runKinds(w *out.W, n *int) {
	cat := alterCatalogue()
	pick := func(labels ...string) []aent {
		var o []aent
		for _, l := range labels {
			for _, e := range cat {
				if e.label == l {
					o = append(o, e)
				}
			}
		}
		return o
	}
	companions := pick("AC", "AKn", "AKu", "DK", "AI")
	for _, dialect := range []string{"postgres", "mysql", "sqlite"} {
		var es []aent
		switch dialect {
		case "postgres":
			for _, m := range subsets3(6) {
				es = append(es, pgModifyColumn(m, false), pgModifyColumn(m, true))
			}
		case "mysql":
			for _, m := range subsets3(8) {
				es = append(es, mysqlModifyColumn(m))
			}
		case "sqlite":
			for _, m := range subsets3(3) {
				e := mysqlModifyColumn(m)
				e.only = "sqlite"
				es = append(es, e)
			}
		}
		es = append(es, otherModifies(dialect)...)
		for _, e := range es {
			*n++
			runAlterCase(w, fmt.Sprintf("k%d", *n), dialect, []aent{e})
			for _, c := range companions {
				if dialect == "sqlite" && c.label == "AKu" {
					continue
				}
				*n++
				runAlterCase(w, fmt.Sprintf("k%d", *n), dialect, []aent{c, e})
				*n++
				runAlterCase(w, fmt.Sprintf("k%d", *n), dialect, []aent{e, c})
			}
		}
	}
}

func interesting(e aent) bool {
	return len(e.irr) > 0 || strings.HasPrefix(e.label, "AK") || e.label == "MK" || e.label == "DK"
}
