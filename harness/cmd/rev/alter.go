package main

// Stage "alter": one ModifyTable whose sub-changes mix irreversible and reversible ones, in every
// order, for the three planners (mysql.DefaultPlan, postgres.DefaultPlan, sqlite.DefaultPlan).
//
// MySQL and PostgreSQL build one ALTER TABLE per ModifyTable and accumulate, arm by arm, the flag
// `reversible` (and-ed: an unnamed CHECK has a server-generated name, PostgreSQL cannot restore a
// dropped generation expression) and the list of reverse sub-changes, which is reversed and
// rendered as one ALTER TABLE when the flag survived.  SQLite plans one change per sub-change, or a
// table rebuild (never reversible) as soon as one sub-change is not "alterable".
//
// Generator: a fixed table and a catalogue of sub-changes (add/drop/modify/rename column, add/drop/
// rename index, add named / add unnamed / drop / modify check, add/drop foreign key, add/drop/modify
// primary key, add/modify table comment, PostgreSQL: drop generation expression); every ordered pair
// and every ordered triple of distinct catalogue entries (0, 1 or 2 irreversible members).
//
// Oracle (engine-free, on the real plan):
//   - Plan.Reversible = every change has a reverse;
//   - a change whose source ModifyTable holds an irreversible sub-change has no reverse, and the plan
//     is not flagged (what is irreversible is the harness's own table, not read from the planner);
//   - the reverse of every ALTER undoes every clause of its Cmd (reverse-skeleton oracle, skel.go) and
//     its clauses come in the reverse order of the Cmd's.
// Tie (Lex/DownAlterModel.v): the arms that reach alterTable, with the key of the object each touches ->
// has the main ALTER a reverse, and the object sequence of its reverse statement.

import (
	"context"
	"fmt"
	"strings"

	"ariga.io/atlas/sql/migrate"
	"ariga.io/atlas/sql/mysql"
	"ariga.io/atlas/sql/postgres"
	"ariga.io/atlas/sql/schema"
	"ariga.io/atlas/sql/sqlite"

	"verifharness/internal/out"
)

type aent struct {
	label string
	sub   dsub
	hand  func(t *schema.Table) schema.Change // hand-built sub-change (instead of sub)
	irr   map[string]bool                     // dialects in which the sub-change has no reverse
	only  string                              // "" or the only dialect that knows it
	// the arm(s) the sub-change becomes in alterTable, per dialect: kind letter + object key;
	// "" = it does not reach the ALTER TABLE statement of that dialect (own statement / own group)
	arms map[string][]string
}

func alterTab() (dtab, dtab) {
	sch := sp("s1")
	ref := dtab{schema: sch, name: "t_ref", cols: []dcol{{name: "id", typ: "int"}}, pk: []string{"id"}}
	t := dtab{schema: sch, name: "t_main",
		cols: []dcol{{name: "c1", typ: "int"}, {name: "c2", typ: "int", null: true}, {name: "c3", typ: "text", null: true}, {name: "c4", typ: "int", null: true}, {name: "c5", typ: "int", null: true}},
		pk:   []string{"c1"},
		idx:  []didx{{name: "i_old", cols: []string{"c2"}}, {name: "i_old2", cols: []string{"c3"}}},
		fks:  []dfk{{sym: "f_old", cols: []string{"c4"}, ref: "t_ref", rschema: sch, rcols: []string{"id"}}},
		chks: []dchk{{"k_old", "(c2 > 0)"}, {"k_old2", "(c4 > 0)"}},
	}
	return t, ref
}

func alterCatalogue() []aent {
	t, ref := alterTab()
	col := func(n string) dcol {
		for _, c := range t.cols {
			if c.name == n {
				return c
			}
		}
		return dcol{name: n, typ: "int", null: true}
	}
	mk := func(label string, s dsub, arms map[string][]string) aent { return aent{label: label, sub: s, arms: arms} }
	both := func(a ...string) map[string][]string { return map[string][]string{"mysql": a, "postgres": a} }
	c2n := col("c2")
	c2n.null = false
	c3t := col("c3")
	c3t.typ = "int"
	c3r := col("c3")
	c3r.name = "c3r"
	i2 := didx{name: "i_ren", cols: []string{"c3"}}
	es := []aent{
		mk("AC", dsub{k: "AC", col: dcol{name: "n1", typ: "int", null: true}}, both("o:COLUMN:n1")),
		mk("AC2", dsub{k: "AC", col: dcol{name: "n2", typ: "text", null: true}}, both("o:COLUMN:n2")),
		mk("DC", dsub{k: "DC", col: col("c5")}, both("o:COLUMN:c5")),
		mk("MC", dsub{k: "MC", col: col("c2"), col2: c2n, chg: "null"}, both("o:COLUMN:c2")),
		mk("MCt", dsub{k: "MC", col: col("c3"), col2: c3t, chg: "type"}, both("o:COLUMN:c3")),
		mk("RC", dsub{k: "RC", col: col("c3"), col2: c3r}, map[string][]string{"mysql": {"o:COLUMN:c3r|c3"}}),
		mk("AI", dsub{k: "AI", idx: didx{name: "i_new", cols: []string{"c2"}}}, map[string][]string{"mysql": {"o:INDEX:i_new"}}),
		mk("AIu", dsub{k: "AI", idx: didx{name: "i_newu", cols: []string{"c4"}, unique: true}}, map[string][]string{"mysql": {"o:INDEX:i_newu"}}),
		mk("DI", dsub{k: "DI", idx: t.idx[0]}, map[string][]string{"mysql": {"o:INDEX:i_old"}}),
		mk("RI", dsub{k: "RI", idx: t.idx[1], idx2: i2}, map[string][]string{"mysql": {"o:INDEX:i_ren|i_old2"}}),
		mk("AKn", dsub{k: "AK", chk: dchk{"k_new", "(c2 <> 3)"}}, both("c:CONSTRAINT:k_new")),
		mk("AKn2", dsub{k: "AK", chk: dchk{"k_new2", "(c4 <> 3)"}}, both("c:CONSTRAINT:k_new2")),
		mk("AKu", dsub{k: "AK", chk: dchk{"", "(c2 <> 5)"}}, both("u:CONSTRAINT:<unnamed>")),
		mk("AKu2", dsub{k: "AK", chk: dchk{"", "(c4 <> 5)"}}, both("u:CONSTRAINT:<unnamed>")),
		mk("DK", dsub{k: "DK", chk: t.chks[0]}, map[string][]string{"mysql": {"o:CONSTRAINT:k_old"}, "postgres": {"d:CONSTRAINT:k_old"}}),
		mk("MK", dsub{k: "MK", chk: t.chks[1], chk2: dchk{"k_old2", "(c4 > 1)"}}, both("o:CONSTRAINT:k_old2")),
		mk("AF", dsub{k: "AF", fk: dfk{sym: "f_new", cols: []string{"c2"}, ref: ref.name, rschema: ref.schema, rcols: []string{"id"}}}, both("o:CONSTRAINT:f_new")),
		mk("DF", dsub{k: "DF", fk: t.fks[0]}, map[string][]string{"mysql": {"o:CONSTRAINT:f_old"}, "postgres": {"d:CONSTRAINT:f_old"}}),
		mk("DPK", dsub{k: "DPK", pk: []string{"c1"}}, map[string][]string{"mysql": {"o:CONSTRAINT:<pk>"}, "postgres": {"d:CONSTRAINT:<pk>"}}),
		mk("MPK", dsub{k: "MPK", pk: []string{"c1"}, pk2: []string{"c2"}}, map[string][]string{"mysql": {"o:CONSTRAINT:<pk>"}, "postgres": {"d:CONSTRAINT:<pk>", "o:CONSTRAINT:<pk>"}}),
		mk("ATC", dsub{k: "ATC", cm: "added note"}, map[string][]string{"mysql": {"a:TABLE-ATTR:t_main"}}),
		mk("MTC", dsub{k: "MTC", cm: "old note", c2: "new note"}, map[string][]string{"mysql": {"o:TABLE-ATTR:t_main"}}),
	}
	for i := range es {
		if es[i].label == "AKu" || es[i].label == "AKu2" {
			es[i].irr = map[string]bool{"mysql": true, "postgres": true}
		}
		if es[i].label == "ATC" {
			// MySQL: no statement restores the previous (implicit) value of an added table attribute
			es[i].irr = map[string]bool{"mysql": true}
		}
	}
	// PostgreSQL: ALTER COLUMN c5 DROP EXPRESSION (the generation expression cannot be restored)
	es = append(es, aent{label: "MCg", only: "postgres", irr: map[string]bool{"postgres": true},
		arms: map[string][]string{"postgres": {"g:COLUMN:c5"}},
		hand: func(tb *schema.Table) schema.Change {
			from := &schema.Column{Name: "c5", Type: &schema.ColumnType{Type: &schema.IntegerType{T: "integer"}, Null: true},
				Attrs: []schema.Attr{&schema.GeneratedExpr{Expr: "c1 * 2", Type: "STORED"}}}
			to := &schema.Column{Name: "c5", Type: &schema.ColumnType{Type: &schema.IntegerType{T: "integer"}, Null: true}}
			return &schema.ModifyColumn{From: from, To: to, Change: schema.ChangeGenerated}
		}})
	return es
}

// sqlite: what alterTable accepts (one planned change each) and what forces the rebuild
var sqliteAlterable = map[string]bool{"AC": true, "AC2": true, "AI": true, "AIu": true, "DI": true, "RC": true, "RI": true}

// objSeq: the objects a statement's clauses touch, in order, adjacent repetitions merged
func objSeq(stmt string) ([]string, bool) {
	as, ok := atomsOf(stmt)
	if !ok {
		return nil, false
	}
	var o []string
	for _, a := range as {
		n := a.a
		if a.kind == "COLUMN" {
			n = baseName(n)
		}
		if a.op == "R" {
			n = baseName(a.a) + "|" + baseName(a.b)
		}
		if a.kind == "TABLE-ATTR" {
			n = baseName(n)
		}
		k := a.kind + ":" + n
		if len(o) == 0 || o[len(o)-1] != k {
			o = append(o, k)
		}
	}
	return o, true
}

func sameObjs(a, b []string) bool {
	// a rename is the same object whichever way it goes
	norm := func(s string) string {
		if i := strings.Index(s, ":"); i >= 0 && strings.Contains(s[i+1:], "|") {
			p := strings.Split(s[i+1:], "|")
			if p[0] > p[1] {
				p[0], p[1] = p[1], p[0]
			}
			return s[:i+1] + p[0] + "|" + p[1]
		}
		return s
	}
	if len(a) != len(b) {
		return false
	}
	for i := range a {
		if norm(a[i]) != norm(b[i]) {
			return false
		}
	}
	return true
}

func runAlterCase(w *out.W, id, dialect string, ents []aent) {
	t, ref := alterTab()
	wd := &world{pg: dialect == "postgres", tables: map[string]*schema.Table{}, full: map[string]bool{}}
	wd.table(ref)
	tb := wd.table(t)
	wd.linkFKs(t)
	mt := &schema.ModifyTable{T: tb}
	var labels []string
	anyIrr := false
	for _, e := range ents {
		labels = append(labels, e.label)
		if e.hand != nil {
			mt.Changes = append(mt.Changes, e.hand(tb))
		} else {
			mt.Changes = append(mt.Changes, wd.sub(tb, e.sub))
		}
		if e.irr[dialect] {
			anyIrr = true
		}
	}
	desc := dialect + " ModifyTable[" + strings.Join(labels, ",") + "]"
	var plan *migrate.Plan
	var err error
	var pnc any
	func() {
		defer func() { pnc = recover() }()
		switch dialect {
		case "mysql":
			plan, err = mysql.DefaultPlan.PlanChanges(context.Background(), "p", []schema.Change{mt})
		case "postgres":
			plan, err = postgres.DefaultPlan.PlanChanges(context.Background(), "p", []schema.Change{mt})
		case "sqlite":
			plan, err = sqlite.DefaultPlan.PlanChanges(context.Background(), "p", []schema.Change{mt})
		}
	}()
	if pnc != nil {
		w.Count("panic:" + dialect)
		return
	}
	if err != nil || plan == nil {
		w.Count("plan-error:" + dialect)
		return
	}
	w.Count("planned:" + dialect)
	w.Count(fmt.Sprintf("irreversible-members=%d", func() int {
		n := 0
		for _, e := range ents {
			if e.irr[dialect] {
				n++
			}
		}
		return n
	}()))
	all, core, bracket, revs, ferr := flags(plan)
	if ferr != nil {
		w.Violation(id, "reversestmts-mismatch", ferr.Error()+" | "+desc)
		return
	}
	pt := planText(plan, revs)
	if !(plan.Reversible == all || bracket && plan.Reversible == core) {
		w.Violation(id, "flag-mismatch", fmt.Sprintf("Plan.Reversible=%v but forall(has reverse)=%v: %s | %s", plan.Reversible, all, desc, pt))
	}
	// ---- irreversible members
	if dialect == "sqlite" {
		rebuild := false
		for _, e := range ents {
			if !sqliteAlterable[e.label] {
				rebuild = true
			}
		}
		if rebuild && plan.Reversible {
			w.Violation(id, "alter-irreversible-flagged", fmt.Sprintf("a sub-change forces the table rebuild but the plan is flagged reversible: %s | %s", desc, pt))
		}
		if rebuild {
			w.Count("sqlite:rebuild")
		} else {
			w.Count("sqlite:alter")
		}
	} else if anyIrr && plan.Reversible {
		w.Violation(id, "alter-irreversible-flagged", fmt.Sprintf("the ModifyTable holds a sub-change that cannot be reversed but the plan is flagged reversible: %s | %s", desc, pt))
	}
	var obs []string
	for i, c := range plan.Changes {
		src, isMT := c.Source.(*schema.ModifyTable)
		if isMT && dialect != "sqlite" && len(revs[i]) > 0 && strings.HasPrefix(c.Cmd, "ALTER TABLE") {
			for _, sc := range src.Changes {
				irr := false
				switch sc := sc.(type) {
				case *schema.AddCheck:
					irr = sc.C.Name == ""
				case *schema.ModifyColumn:
					irr = dialect == "postgres" && sc.Change.Is(schema.ChangeGenerated)
				case *schema.AddAttr, *schema.DropAttr:
					irr = dialect == "mysql"
				}
				if irr {
					w.Violation(id, "alter-irreversible-member-reversed", fmt.Sprintf("%T of the ALTER cannot be reversed, yet the change has a reverse: Cmd %q reverse %q | %s", sc, trunc(c.Cmd, 300), revs[i], desc))
					break
				}
			}
		}
		if len(revs[i]) == 0 {
			continue
		}
		v, msg := checkInverse(c.Cmd, revs[i])
		w.Count("skeleton-" + v)
		switch v {
		case "skip":
			w.Count("skeleton-skip:" + dialect + ":" + trunc(c.Cmd, 60))
		case "attr":
			w.Violation(id, "reverse-skeleton-table-attr", fmt.Sprintf("%s: %s | Cmd %q | reverse %q | %s", dialect, msg, trunc(c.Cmd, 300), revs[i], desc))
		case "bad":
			w.Violation(id, "reverse-skeleton", fmt.Sprintf("%s: %s | Cmd %q | reverse %q | %s", dialect, msg, trunc(c.Cmd, 300), revs[i], desc))
		case "ok":
			if len(revs[i]) == 1 {
				co, ok1 := objSeq(c.Cmd)
				ro, ok2 := objSeq(revs[i][0])
				if ok1 && ok2 {
					for l, r := 0, len(co)-1; l < r; l, r = l+1, r-1 {
						co[l], co[r] = co[r], co[l]
					}
					if !sameObjs(co, ro) {
						w.Violation(id, "reverse-order", fmt.Sprintf("%s: the clauses of the reverse are not in the reverse order of the Cmd's: expected %v, reverse has %v | Cmd %q | reverse %q | %s", dialect, co, ro, trunc(c.Cmd, 300), revs[i], desc))
					}
				}
			}
		}
	}
	// ---- tie: the arms that reach alterTable (mysql: one group when no ModifyIndex/ModifyForeignKey)
	if dialect != "sqlite" {
		var arms []string
		for _, e := range ents {
			arms = append(arms, e.arms[dialect]...)
		}
		// the main ALTER TABLE change: the one whose source is the ModifyTable and whose Cmd starts with ALTER TABLE
		seen := 0
		line := ""
		for i, c := range plan.Changes {
			if _, ok := c.Source.(*schema.ModifyTable); ok && strings.HasPrefix(c.Cmd, "ALTER TABLE") {
				seen++
				if len(revs[i]) == 0 {
					line = "A none"
				} else if ro, ok := objSeq(revs[i][0]); ok && len(revs[i]) == 1 {
					line = "A " + strings.Join(ro, " ")
				} else {
					line = "A unread"
				}
			}
		}
		if len(arms) > 0 && seen == 1 {
			toks := []string{dialect, fmt.Sprint(len(arms))}
			for _, a := range arms {
				toks = append(toks, hx(a))
			}
			obs = append(obs, line)
			w.Case(id, strings.Join(toks, " "), obs)
			w.NonTrivial(dialect + ":" + strings.Join(arms, ","))
			return
		}
	}
	w.ImplOnly(id, desc)
	w.NonTrivial(desc)
}

func runAlterStage(w *out.W, tier string) {
	w.Rule = "every planned case is non-trivial (each is a distinct ordered tuple of sub-changes); key = dialect + the tuple"
	w.Exhaust = true
	cat := alterCatalogue()
	n := 0
	for _, dialect := range []string{"mysql", "postgres", "sqlite"} {
		var es []aent
		for _, e := range cat {
			if e.only != "" && e.only != dialect {
				continue
			}
			if dialect == "sqlite" && (e.label == "ATC" || e.label == "MTC") {
				continue
			}
			es = append(es, e)
		}
		// singles, ordered pairs, ordered triples of distinct entries
		for i := range es {
			n++
			runAlterCase(w, fmt.Sprintf("a%d", n), dialect, []aent{es[i]})
			for j := range es {
				if j == i {
					continue
				}
				n++
				runAlterCase(w, fmt.Sprintf("a%d", n), dialect, []aent{es[i], es[j]})
				for k := range es {
					if k == i || k == j {
						continue
					}
					// quick: the triples with at least one check / generated member or a member right next to
					// one; thorough: all
					if tier != "thorough" && !(interesting(es[i]) || interesting(es[j]) || interesting(es[k])) {
						continue
					}
					n++
					runAlterCase(w, fmt.Sprintf("a%d", n), dialect, []aent{es[i], es[j], es[k]})
				}
			}
		}
	}
}

func interesting(e aent) bool {
	return len(e.irr) > 0 || strings.HasPrefix(e.label, "AK") || e.label == "MK" || e.label == "DK"
}
