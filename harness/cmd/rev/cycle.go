package main

// Stage "cycle": the down of a plan that went through sqlx.DetachCycles (MySQL, TiDB, PostgreSQL planners).
//
// Change sets whose tables reference each other in a cycle are rewritten by detachReferences: the external
// foreign keys of a dropped table are dropped by an ALTER planned first and the DROP TABLE is planned for a copy
// of the table without them (so that the reverse CREATE TABLE does not carry keys that the reverse of the ALTER
// re-adds); created tables symmetrically.  No engine for these dialects exists in the sandbox, and SQLite never
// calls DetachCycles, so the check is an engine-free up/down simulation on a small catalogue (tables, columns,
// named foreign keys with their parent tables, checks, indexes): every planned statement is read by the
// tokenizer of the reverse-skeleton oracle and applied to the catalogue.
//
// Oracle (no model):
//   (a) every statement is applicable when it runs, up and down: CREATE TABLE of a table that does not exist,
//       whose foreign keys reference existing tables (or itself) under names not taken; ALTER / DROP of an
//       existing table; ADD CONSTRAINT under a free name with an existing parent; DROP of an existing
//       constraint; DROP TABLE of a table no other table references;
//   (b) the catalogue after up is the desired one, the catalogue after up + down (reverses last change first)
//       is the start catalogue;
//   (c) Plan.Reversible = every change has a reverse (TiDB: the and over the sub-plans).

import (
	"context"
	"database/sql"
	"database/sql/driver"
	"fmt"
	"io"
	"regexp"
	"sort"
	"strings"

	"ariga.io/atlas/sql/migrate"
	"ariga.io/atlas/sql/mysql"
	"ariga.io/atlas/sql/postgres"
	"ariga.io/atlas/sql/schema"

	"verifharness/internal/out"
	"verifharness/internal/rng"
)

// ---- a database/sql driver that answers the system-variables query of mysql.Open like a TiDB server

type fakeTiDB struct{}
type fakeConn struct{}
type fakeStmt struct{ q string }
type fakeRows struct {
	cols []string
	vals [][]driver.Value
	i    int
}

func (fakeTiDB) Open(string) (driver.Conn, error)        { return fakeConn{}, nil }
func (fakeConn) Prepare(q string) (driver.Stmt, error)   { return fakeStmt{q}, nil }
func (fakeConn) Close() error                            { return nil }
func (fakeConn) Begin() (driver.Tx, error)               { return nil, fmt.Errorf("no transactions") }
func (fakeStmt) Close() error                            { return nil }
func (fakeStmt) NumInput() int                           { return -1 }
func (fakeStmt) Exec([]driver.Value) (driver.Result, error) {
	return nil, fmt.Errorf("fake TiDB: no execution")
}
func (s fakeStmt) Query([]driver.Value) (driver.Rows, error) {
	if strings.Contains(s.q, "@@version") {
		return &fakeRows{cols: []string{"v", "c", "s", "l"}, vals: [][]driver.Value{{"5.7.25-TiDB-v6.1.0", "utf8mb4_bin", "utf8mb4", int64(0)}}}, nil
	}
	return &fakeRows{}, nil
}
func (r *fakeRows) Columns() []string { return r.cols }
func (r *fakeRows) Close() error      { return nil }
func (r *fakeRows) Next(dest []driver.Value) error {
	if r.i >= len(r.vals) {
		return io.EOF
	}
	copy(dest, r.vals[r.i])
	r.i++
	return nil
}

var tidbDrv migrate.Driver

func tidbDriver() (migrate.Driver, error) {
	if tidbDrv != nil {
		return tidbDrv, nil
	}
	sql.Register("faketidb", fakeTiDB{})
	db, err := sql.Open("faketidb", "")
	if err != nil {
		return nil, err
	}
	d, err := mysql.Open(db)
	if err != nil {
		return nil, err
	}
	tidbDrv = d
	return d, nil
}

// ---- the catalogue

type ccon struct{ kind, parent string } // kind F (foreign key) | K (check) | U (unique)
type ctbl struct {
	cols map[string]bool
	cons map[string]ccon
	idx  map[string]bool
	pk   bool
}
type ccat map[string]*ctbl

func newTbl() *ctbl {
	return &ctbl{cols: map[string]bool{}, cons: map[string]ccon{}, idx: map[string]bool{}}
}

func catOf(tabs []dtab) ccat {
	c := ccat{}
	for _, d := range tabs {
		t := newTbl()
		for _, x := range d.cols {
			t.cols[x.name] = true
		}
		for _, f := range d.fks {
			t.cons[f.sym] = ccon{"F", f.ref}
		}
		for _, k := range d.chks {
			t.cons[k.name] = ccon{"K", ""}
		}
		for _, i := range d.idx {
			t.idx[i.name] = true
		}
		t.pk = len(d.pk) > 0
		c[d.name] = t
	}
	return c
}

func (c ccat) dump() string {
	var ls []string
	for n, t := range c {
		ls = append(ls, "T "+n+fmt.Sprintf(" pk=%v", t.pk))
		for x := range t.cols {
			ls = append(ls, "C "+n+"."+x)
		}
		for x, k := range t.cons {
			ls = append(ls, "K "+n+"."+x+" "+k.kind+" -> "+k.parent)
		}
		for x := range t.idx {
			ls = append(ls, "I "+n+"."+x)
		}
	}
	sort.Strings(ls)
	return strings.Join(ls, "\n")
}

func catDiff(a, b string) string {
	am, bm := map[string]bool{}, map[string]bool{}
	for _, l := range strings.Split(a, "\n") {
		am[l] = true
	}
	for _, l := range strings.Split(b, "\n") {
		bm[l] = true
	}
	var o []string
	for l := range am {
		if !bm[l] && l != "" {
			o = append(o, "missing["+l+"]")
		}
	}
	for l := range bm {
		if !am[l] && l != "" {
			o = append(o, "extra["+l+"]")
		}
	}
	sort.Strings(o)
	return strings.Join(o, " ")
}

// fkNameTaken: MySQL keeps foreign-key names unique per schema, PostgreSQL per table
func (c ccat) fkNameTaken(dialect, tbl, name string) bool {
	if _, ok := c[tbl].cons[name]; ok {
		return true
	}
	if dialect != "postgres" {
		for _, t := range c {
			if k, ok := t.cons[name]; ok && k.kind == "F" {
				return true
			}
		}
	}
	return false
}

// splitTop cuts s at the commas outside parentheses and quotes.
func splitTop(s string) []string {
	var parts []string
	depth, q, start := 0, byte(0), 0
	for i := 0; i < len(s); i++ {
		ch := s[i]
		switch {
		case q != 0:
			if ch == q {
				q = 0
			}
		case ch == '\'' || ch == '"' || ch == '`':
			q = ch
		case ch == '(':
			depth++
		case ch == ')':
			depth--
		case ch == ',' && depth == 0:
			parts = append(parts, s[start:i])
			start = i + 1
		}
	}
	return append(parts, s[start:])
}

// tableBody returns the text between the first top-level "(" of a CREATE TABLE and its ")".
func tableBody(s string) (string, bool) {
	depth, q, start := 0, byte(0), -1
	for i := 0; i < len(s); i++ {
		ch := s[i]
		switch {
		case q != 0:
			if ch == q {
				q = 0
			}
		case ch == '\'' || ch == '"' || ch == '`':
			q = ch
		case ch == '(':
			if depth == 0 && start < 0 {
				start = i + 1
			}
			depth++
		case ch == ')':
			depth--
			if depth == 0 && start >= 0 {
				return s[start:i], true
			}
		}
	}
	return "", false
}

var errUnknown = fmt.Errorf("statement form not read")

// constraint clause after ADD / inside CREATE TABLE: CONSTRAINT n FOREIGN KEY () REFERENCES p ... | CONSTRAINT n CHECK ..
func readConstraint(t []string) (name string, k ccon, ok bool) {
	if len(t) >= 2 && t[0] == "CONSTRAINT" && isID(t[1]) {
		name = idOf(t[1])
		r := t[2:]
		switch {
		case len(r) >= 5 && r[0] == "FOREIGN" && r[1] == "KEY" && r[3] == "REFERENCES" && isID(r[4]):
			return name, ccon{"F", baseName(idOf(r[4]))}, true
		case len(r) >= 1 && r[0] == "CHECK":
			return name, ccon{"K", ""}, true
		case len(r) >= 1 && r[0] == "UNIQUE":
			return name, ccon{"U", ""}, true
		}
	}
	return "", ccon{}, false
}

// apply reads one statement and applies it to the catalogue; an error that is not errUnknown says why
// the statement cannot run on the catalogue as it stands.
func (c ccat) apply(dialect, stmt string) error {
	t := sqlTokens(stmt)
	has := func(ws ...string) bool {
		if len(t) < len(ws) {
			return false
		}
		for i, w := range ws {
			if t[i] != w {
				return false
			}
		}
		return true
	}
	addCon := func(tbl, name string, k ccon) error {
		if k.kind == "F" {
			if _, ok := c[k.parent]; !ok {
				return fmt.Errorf("foreign key %s of %s references table %s, which does not exist", name, tbl, k.parent)
			}
			if c.fkNameTaken(dialect, tbl, name) {
				return fmt.Errorf("constraint %s of %s: the name is taken", name, tbl)
			}
		} else if _, ok := c[tbl].cons[name]; ok {
			return fmt.Errorf("constraint %s of %s: the name is taken", name, tbl)
		}
		c[tbl].cons[name] = k
		return nil
	}
	switch {
	case has("CREATE", "TABLE"):
		r := skipWords(t[2:], "IF", "NOT", "EXISTS")
		if len(r) == 0 || !isID(r[0]) {
			return errUnknown
		}
		name := baseName(idOf(r[0]))
		if _, ok := c[name]; ok {
			return fmt.Errorf("table %s exists", name)
		}
		body, ok := tableBody(stmt)
		if !ok {
			return errUnknown
		}
		nt := newTbl()
		c[name] = nt // a self reference finds its parent
		fail := func(err error) error { delete(c, name); return err }
		for _, item := range splitTop(body) {
			it := sqlTokens(item)
			switch {
			case len(it) == 0:
			case isID(it[0]):
				nt.cols[idOf(it[0])] = true
			case it[0] == "PRIMARY" && len(it) >= 2 && it[1] == "KEY":
				nt.pk = true
			case (it[0] == "INDEX" || it[0] == "KEY") && len(it) >= 2 && isID(it[1]):
				nt.idx[idOf(it[1])] = true
			case it[0] == "UNIQUE" && len(it) >= 3 && (it[1] == "INDEX" || it[1] == "KEY") && isID(it[2]):
				nt.idx[idOf(it[2])] = true
			default:
				n, k, ok := readConstraint(it)
				if !ok {
					return fail(errUnknown)
				}
				if err := addCon(name, n, k); err != nil {
					return fail(err)
				}
			}
		}
		return nil
	case has("DROP", "TABLE"):
		r := skipWords(t[2:], "IF", "EXISTS")
		if len(r) == 0 || !isID(r[0]) {
			return errUnknown
		}
		name := baseName(idOf(r[0]))
		if _, ok := c[name]; !ok {
			return fmt.Errorf("table %s does not exist", name)
		}
		cascade := len(r) >= 2 && r[1] == "CASCADE"
		for on, ot := range c {
			if on == name {
				continue
			}
			for kn, k := range ot.cons {
				if k.kind == "F" && k.parent == name {
					if !cascade {
						return fmt.Errorf("table %s is referenced by foreign key %s of %s", name, kn, on)
					}
					delete(ot.cons, kn)
				}
			}
		}
		delete(c, name)
		return nil
	case has("CREATE", "INDEX"), has("CREATE", "UNIQUE", "INDEX"):
		r := t[2:]
		if t[1] == "UNIQUE" {
			r = t[3:]
		}
		r = skipWords(r, "IF", "NOT", "EXISTS", "CONCURRENTLY")
		if len(r) >= 3 && isID(r[0]) && r[1] == "ON" && isID(r[2]) {
			tb := baseName(idOf(r[2]))
			if _, ok := c[tb]; !ok {
				return fmt.Errorf("table %s does not exist", tb)
			}
			if c[tb].idx[idOf(r[0])] {
				return fmt.Errorf("index %s of %s exists", idOf(r[0]), tb)
			}
			c[tb].idx[idOf(r[0])] = true
			return nil
		}
	case has("DROP", "INDEX"):
		r := skipWords(t[2:], "IF", "EXISTS", "CONCURRENTLY")
		if len(r) >= 1 && isID(r[0]) {
			n := baseName(idOf(r[0]))
			for _, tb := range c {
				if tb.idx[n] {
					delete(tb.idx, n)
					return nil
				}
			}
			return fmt.Errorf("index %s does not exist", n)
		}
	case has("ALTER", "TABLE"):
		if len(t) < 3 || !isID(t[2]) {
			return errUnknown
		}
		name := baseName(idOf(t[2]))
		tb, ok := c[name]
		if !ok {
			return fmt.Errorf("table %s does not exist", name)
		}
		for _, cl := range splitClauses(t[3:]) {
			switch {
			case len(cl) == 0:
			case len(cl) >= 2 && cl[0] == "ADD" && cl[1] == "CONSTRAINT":
				n, k, ok := readConstraint(cl[1:])
				if !ok {
					return errUnknown
				}
				if err := addCon(name, n, k); err != nil {
					return err
				}
			case len(cl) >= 2 && cl[0] == "ADD" && cl[1] == "CHECK":
				tb.cons[fmt.Sprintf("<unnamed check %d>", len(tb.cons))] = ccon{"K", ""}
			case len(cl) >= 4 && cl[0] == "DROP" && cl[1] == "FOREIGN" && cl[2] == "KEY" && isID(cl[3]),
				len(cl) >= 3 && cl[0] == "DROP" && (cl[1] == "CONSTRAINT" || cl[1] == "CHECK") && isID(cl[2]):
				n := idOf(cl[len(cl)-1])
				if cl[1] != "FOREIGN" {
					n = idOf(cl[2])
				}
				if _, ok := tb.cons[n]; !ok {
					return fmt.Errorf("constraint %s of %s does not exist", n, name)
				}
				delete(tb.cons, n)
			case len(cl) >= 3 && cl[0] == "ADD" && cl[1] == "COLUMN" && isID(cl[2]):
				if tb.cols[idOf(cl[2])] {
					return fmt.Errorf("column %s of %s exists", idOf(cl[2]), name)
				}
				tb.cols[idOf(cl[2])] = true
			case len(cl) >= 3 && cl[0] == "DROP" && cl[1] == "COLUMN" && isID(cl[2]):
				if !tb.cols[idOf(cl[2])] {
					return fmt.Errorf("column %s of %s does not exist", idOf(cl[2]), name)
				}
				delete(tb.cols, idOf(cl[2]))
			case len(cl) >= 3 && cl[0] == "ADD" && (cl[1] == "INDEX" || cl[1] == "KEY") && isID(cl[2]):
				tb.idx[idOf(cl[2])] = true
			case len(cl) >= 4 && cl[0] == "ADD" && cl[1] == "UNIQUE" && (cl[2] == "INDEX" || cl[2] == "KEY") && isID(cl[3]):
				tb.idx[idOf(cl[3])] = true
			case len(cl) >= 3 && cl[0] == "DROP" && (cl[1] == "INDEX" || cl[1] == "KEY") && isID(cl[2]):
				if !tb.idx[idOf(cl[2])] {
					return fmt.Errorf("index %s of %s does not exist", idOf(cl[2]), name)
				}
				delete(tb.idx, idOf(cl[2]))
			default:
				return errUnknown
			}
		}
		return nil
	}
	return errUnknown
}

// ---- change sets

type cchange struct {
	k    string // AT DT MT
	t    dtab
	subs []dsub
	irr  bool // holds a sub-change without reverse
}

type cscen struct {
	label   string
	start   []dtab
	changes []cchange
	target  []dtab // the desired catalogue (nil = not computed)
}

var cycSchema = sp("s1")

// tables of a graph: every table has id (pk), v (indexed), one nullable column and one named key per edge
func graphTabs(prefix string, names []string, edges [][2]string) map[string]dtab {
	m := map[string]dtab{}
	for _, n := range names {
		d := dtab{schema: cycSchema, name: prefix + n, cols: []dcol{{name: "id", typ: "int"}, {name: "v", typ: "int", null: true}}, pk: []string{"id"},
			idx: []didx{{name: "ix_" + prefix + n, cols: []string{"v"}}}}
		for _, e := range edges {
			if e[0] == n {
				d.cols = append(d.cols, dcol{name: e[1] + "_id", typ: "int", null: true})
				d.fks = append(d.fks, dfk{sym: "fk_" + prefix + n + "_" + e[1], cols: []string{e[1] + "_id"}, ref: prefix + e[1], rschema: cycSchema, rcols: []string{"id"}})
			}
		}
		m[n] = d
	}
	return m
}

type cgraph struct {
	label string
	names []string
	edges [][2]string
	out   []string // tables outside the cycle that the cycle references (may stay / pre-exist)
}

func cycGraphs() []cgraph {
	return []cgraph{
		{"self", []string{"a"}, [][2]string{{"a", "a"}}, nil},
		{"chain", []string{"a", "b", "c"}, [][2]string{{"a", "b"}, {"b", "c"}}, []string{"c"}},
		{"2cycle", []string{"a", "b"}, [][2]string{{"a", "b"}, {"b", "a"}}, nil},
		{"2cycle+self", []string{"a", "b"}, [][2]string{{"a", "a"}, {"a", "b"}, {"b", "a"}}, nil},
		{"3cycle", []string{"a", "b", "c"}, [][2]string{{"a", "b"}, {"b", "c"}, {"c", "a"}}, nil},
		{"3cycle+self", []string{"a", "b", "c"}, [][2]string{{"a", "b"}, {"b", "b"}, {"b", "c"}, {"c", "a"}}, nil},
		{"2cycle+tail-in", []string{"a", "b", "d"}, [][2]string{{"a", "b"}, {"b", "a"}, {"d", "a"}}, nil},
		{"2cycle+tail-out", []string{"a", "b", "e"}, [][2]string{{"a", "b"}, {"b", "a"}, {"a", "e"}}, []string{"e"}},
		{"2cycle+tails+free", []string{"a", "b", "d", "e", "o"}, [][2]string{{"a", "b"}, {"b", "a"}, {"d", "a"}, {"b", "e"}}, []string{"e", "o"}},
		{"3cycle+tails", []string{"a", "b", "c", "d", "e"}, [][2]string{{"a", "b"}, {"b", "c"}, {"c", "a"}, {"d", "c"}, {"a", "e"}}, []string{"e"}},
		{"two-2cycles", []string{"a", "b", "c", "d"}, [][2]string{{"a", "b"}, {"b", "a"}, {"c", "d"}, {"d", "c"}, {"c", "a"}}, nil},
	}
}

func has(l []string, x string) bool {
	for _, y := range l {
		if y == x {
			return true
		}
	}
	return false
}

func cycScenarios() []cscen {
	var out []cscen
	gs := cycGraphs()
	for _, g := range gs {
		m := graphTabs("", g.names, g.edges)
		var all []dtab
		for _, n := range g.names {
			all = append(all, m[n])
		}
		// drop-all, create-all
		var da, ca []cchange
		for _, d := range all {
			da = append(da, cchange{k: "DT", t: d})
			ca = append(ca, cchange{k: "AT", t: d})
		}
		out = append(out, cscen{label: "drop-all:" + g.label, start: all, changes: da, target: []dtab{}})
		out = append(out, cscen{label: "create-all:" + g.label, start: nil, changes: ca, target: all})
		if len(g.out) > 0 {
			// the outside tables stay / pre-exist
			var keep []dtab
			var dk, ck []cchange
			for _, d := range all {
				if has(g.out, d.name) {
					keep = append(keep, d)
					continue
				}
				dk = append(dk, cchange{k: "DT", t: d})
				ck = append(ck, cchange{k: "AT", t: d})
			}
			out = append(out, cscen{label: "drop-keep-outside:" + g.label, start: all, changes: dk, target: keep})
			out = append(out, cscen{label: "create-outside-exists:" + g.label, start: keep, changes: ck, target: all})
		}
	}
	// mixed: drop the tables of one graph, create those of another, modify a free table
	free := dtab{schema: cycSchema, name: "o_free", cols: []dcol{{name: "id", typ: "int"}, {name: "w", typ: "int", null: true}}, pk: []string{"id"}}
	freeAC := free
	freeAC.cols = append(append([]dcol{}, free.cols...), dcol{name: "n1", typ: "int", null: true})
	pick := []int{2, 3, 4, 8}
	for _, xi := range pick {
		for _, yi := range pick {
			gx, gy := gs[xi], gs[yi]
			mx := graphTabs("x_", gx.names, gx.edges)
			my := graphTabs("y_", gy.names, gy.edges)
			var start, target []dtab
			var ch []cchange
			for _, n := range gx.names {
				start = append(start, mx[n])
				ch = append(ch, cchange{k: "DT", t: mx[n]})
			}
			for _, n := range gy.names {
				target = append(target, my[n])
				ch = append(ch, cchange{k: "AT", t: my[n]})
			}
			out = append(out, cscen{label: "mixed:drop " + gx.label + " create " + gy.label, start: start, changes: ch, target: target})
			st2 := append(append([]dtab{}, start...), free)
			out = append(out, cscen{label: "mixed+AC:drop " + gx.label + " create " + gy.label, start: st2,
				changes: append(append([]cchange{}, ch...), cchange{k: "MT", t: free, subs: []dsub{{k: "AC", col: dcol{name: "n1", typ: "int", null: true}}}}),
				target:  append(append([]dtab{}, target...), freeAC)})
			out = append(out, cscen{label: "mixed+unnamed-check:drop " + gx.label + " create " + gy.label, start: st2,
				changes: append([]cchange{{k: "MT", t: free, subs: []dsub{{k: "AK", chk: dchk{"", "(w <> 5)"}}}, irr: true}}, ch...)})
		}
	}
	// a cycle closed by ModifyTable{AddForeignKey}: a and b exist without keys
	{
		m0 := graphTabs("", []string{"a", "b"}, nil)
		m1 := graphTabs("", []string{"a", "b", "c"}, [][2]string{{"a", "b"}, {"b", "a"}, {"c", "a"}})
		a0, b0 := m0["a"], m0["b"]
		a0.cols = append(a0.cols, dcol{name: "b_id", typ: "int", null: true})
		b0.cols = append(b0.cols, dcol{name: "a_id", typ: "int", null: true})
		a1, b1 := m1["a"], m1["b"]
		a1n := a1
		a1n.cols = append(append([]dcol{}, a1.cols...), dcol{name: "n1", typ: "int", null: true})
		ch := []cchange{
			{k: "MT", t: a0, subs: []dsub{{k: "AC", col: dcol{name: "n1", typ: "int", null: true}}, {k: "AF", fk: a1.fks[0]}}},
			{k: "MT", t: b0, subs: []dsub{{k: "AF", fk: b1.fks[0]}}},
			{k: "AT", t: m1["c"]},
		}
		out = append(out, cscen{label: "modify:2cycle by AddForeignKey + AddTable", start: []dtab{a0, b0}, changes: ch, target: []dtab{a1n, b1, m1["c"]}})
		// and its undoing: drop the keys of the cycle by ModifyTable, drop c
		chd := []cchange{
			{k: "MT", t: a1, subs: []dsub{{k: "DF", fk: a1.fks[0]}}},
			{k: "MT", t: b1, subs: []dsub{{k: "DF", fk: b1.fks[0]}}},
			{k: "DT", t: m1["c"]},
		}
		out = append(out, cscen{label: "modify:DropForeignKey x2 + DropTable", start: []dtab{a1, b1, m1["c"]}, changes: chd, target: []dtab{a0, b0}})
		// DropForeignKey towards a dropped table
		chd2 := []cchange{
			{k: "MT", t: a1, subs: []dsub{{k: "DF", fk: a1.fks[0]}}},
			{k: "DT", t: b1},
		}
		out = append(out, cscen{label: "modify:DropForeignKey + DropTable of its parent", start: []dtab{a1, b1}, changes: chd2, target: []dtab{a0}})
	}
	return out
}

func permsOf(n int) [][]int {
	var res [][]int
	var rec func(cur []int, used []bool)
	rec = func(cur []int, used []bool) {
		if len(cur) == n {
			res = append(res, append([]int{}, cur...))
			return
		}
		for i := 0; i < n; i++ {
			if !used[i] {
				used[i] = true
				rec(append(cur, i), used)
				used[i] = false
			}
		}
	}
	rec(nil, make([]bool, n))
	return res
}

func runCycleStage(w *out.W, tier string) {
	r := rng.New(1717)
	shuffles := 10
	if tier == "thorough" {
		shuffles = 80
	}
	n := 0
	for _, sc := range cycScenarios() {
		var orders [][]int
		if len(sc.changes) <= 4 {
			orders = permsOf(len(sc.changes))
		} else {
			id := make([]int, len(sc.changes))
			for i := range id {
				id[i] = i
			}
			orders = append(orders, append([]int{}, id...))
			rv := make([]int, len(id))
			for i := range id {
				rv[i] = id[len(id)-1-i]
			}
			orders = append(orders, rv)
			for k := 0; k < shuffles; k++ {
				p := append([]int{}, id...)
				for i := len(p) - 1; i > 0; i-- {
					j := r.Intn(i + 1)
					p[i], p[j] = p[j], p[i]
				}
				orders = append(orders, p)
			}
		}
		for _, ord := range orders {
			for _, dialect := range []string{"mysql", "tidb", "postgres"} {
				n++
				runCycleCase(w, fmt.Sprintf("y%d", n), dialect, sc, ord)
			}
		}
	}
}

func runCycleCase(w *out.W, id, dialect string, sc cscen, ord []int) {
	wd := &world{pg: dialect == "postgres", tables: map[string]*schema.Table{}, full: map[string]bool{}}
	// every table of the start catalogue and of the change set, then the keys (so that references are the real tables)
	var ds []dtab
	ds = append(ds, sc.start...)
	for _, c := range sc.changes {
		ds = append(ds, c.t)
	}
	for _, d := range ds {
		wd.table(d)
	}
	for _, d := range ds {
		wd.linkFKs(d)
	}
	var changes []schema.Change
	var labels []string
	anyIrr := false
	for _, i := range ord {
		c := sc.changes[i]
		t := wd.tables[c.t.name]
		switch c.k {
		case "AT":
			changes = append(changes, &schema.AddTable{T: t})
		case "DT":
			changes = append(changes, &schema.DropTable{T: t})
		case "MT":
			mt := &schema.ModifyTable{T: t}
			for _, s := range c.subs {
				if s.k == "DF" {
					// the key of the table itself
					for _, f := range t.ForeignKeys {
						if f.Symbol == s.fk.sym {
							mt.Changes = append(mt.Changes, &schema.DropForeignKey{F: f})
						}
					}
					continue
				}
				mt.Changes = append(mt.Changes, wd.sub(t, s))
			}
			changes = append(changes, mt)
		}
		anyIrr = anyIrr || c.irr
		labels = append(labels, c.k+" "+c.t.name)
	}
	desc := fmt.Sprintf("%s %s [%s]", dialect, sc.label, strings.Join(labels, ", "))
	var plan *migrate.Plan
	var err error
	switch dialect {
	case "mysql":
		plan, err = mysql.DefaultPlan.PlanChanges(context.Background(), "p", changes)
	case "postgres":
		plan, err = postgres.DefaultPlan.PlanChanges(context.Background(), "p", changes)
	case "tidb":
		var d migrate.Driver
		if d, err = tidbDriver(); err == nil {
			plan, err = d.PlanChanges(context.Background(), "p", changes)
		}
	}
	w.ImplOnly(id, desc)
	if err != nil {
		w.Count("cycle-plan-error:" + dialect + ":" + trunc(err.Error(), 60))
		return
	}
	w.Count("cycle-planned:" + dialect)
	w.Count("cycle-scenario:" + strings.SplitN(sc.label, ":", 2)[0])
	// (c) the flag
	all := true
	revs := make([][]string, len(plan.Changes))
	var pt strings.Builder
	for i, c := range plan.Changes {
		rs, rerr := c.ReverseStmts()
		if rerr != nil {
			w.Violation(id, "cycle-reverse-error", rerr.Error()+" | "+desc)
			return
		}
		revs[i] = rs
		if len(rs) == 0 {
			all = false
		}
		fmt.Fprintf(&pt, "[%d] %s <= %s | ", i, trunc(c.Cmd, 160), trunc(strings.Join(rs, " ;; "), 200))
	}
	if plan.Reversible != all {
		w.Violation(id, "flag-mismatch", fmt.Sprintf("Plan.Reversible = %v but every change has a reverse = %v: %s | %s", plan.Reversible, all, desc, pt.String()))
	}
	if anyIrr && plan.Reversible {
		w.Violation(id, "cycle-irreversible-flagged", fmt.Sprintf("the change set holds a sub-change without reverse but the plan is flagged reversible: %s | %s", desc, pt.String()))
	}
	// (a), (b): up
	cat := catOf(sc.start)
	start := cat.dump()
	for i, c := range plan.Changes {
		if aerr := cat.apply(dialect, c.Cmd); aerr != nil {
			if aerr == errUnknown {
				w.Count("cycle-skip:" + dialect + ":" + trunc(c.Cmd, 50))
				return
			}
			w.Violation(id, "catalogue-up-not-applicable", fmt.Sprintf("up statement %d %q cannot run: %v | %s | %s", i, trunc(c.Cmd, 200), aerr, desc, pt.String()))
			return
		}
	}
	if sc.target != nil {
		if d := catDiff(catOf(sc.target).dump(), cat.dump()); d != "" {
			w.Violation(id, "catalogue-up-target", fmt.Sprintf("the catalogue after up is not the desired one: %s | %s | %s", d, desc, pt.String()))
			return
		}
	}
	w.Count("cycle-up-ok")
	if !plan.Reversible {
		w.Count("cycle-not-reversible:" + dialect)
		return
	}
	w.NonTrivial(dialect + "|" + sc.label)
	for i := len(plan.Changes) - 1; i >= 0; i-- {
		for _, s := range revs[i] {
			if aerr := cat.apply(dialect, s); aerr != nil {
				if aerr == errUnknown {
					w.Count("cycle-skip:" + dialect + ":" + trunc(s, 50))
					return
				}
				w.Violation(id, "catalogue-down-not-applicable", fmt.Sprintf("down: the reverse %q of change %d cannot run: %v | %s | %s", trunc(s, 240), i, aerr, desc, pt.String()))
				return
			}
		}
	}
	if d := catDiff(start, cat.dump()); d != "" {
		// narrow class: the only difference is that self-referencing foreign keys of dropped tables are missing
		if strings.TrimSpace(selfFKRe.ReplaceAllString(d, "")) == "" && selfOnly(d) {
			w.Violation(id, "catalogue-self-fk-lost", fmt.Sprintf("the catalogue after up and down lacks self-referencing foreign keys of dropped tables: %s | %s | %s", d, desc, pt.String()))
			return
		}
		w.Violation(id, "catalogue-not-restored", fmt.Sprintf("the catalogue after up and down is not the start catalogue: %s | %s | %s", d, desc, pt.String()))
		return
	}
	w.Count("cycle-updown-ok:" + dialect)
}

var selfFKRe = regexp.MustCompile(`missing\[K (\S+)\.\S+ F -> (\S+)\]`)

// selfOnly: every entry of the difference is a missing foreign key whose parent is its own table
func selfOnly(d string) bool {
	ms := selfFKRe.FindAllStringSubmatch(d, -1)
	if len(ms) == 0 {
		return false
	}
	for _, m := range ms {
		if m[1] != m[2] {
			return false
		}
	}
	return true
}
