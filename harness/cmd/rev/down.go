package main

// Stage "down": flag and down-file consistency for plans of all dialects.
//
// Plans come from (1) an exhaustive small domain of synthetic change lists (every shape of
// Change.Reverse: nil, string, []string of length 0..3, with/without comment), (2) the real SQLite
// driver on the pairs of the updown stage, (3) mysql.DefaultPlan / postgres.DefaultPlan on generated
// change sets.  For each plan:
//   - flag: sqlx.SetReversible (through sql/verifx) and the planner's own Plan.Reversible are
//     compared with "every change has at least one reverse statement";
//   - every formatter of sql/sqltool and the default formatter write the plan; the files are read
//     back: the up section must scan to exactly the Cmds and the down section (golang-migrate
//     *.down.sql, goose "+goose Down", flyway U*.sql, dbmate "migrate:down", liquibase --rollback
//     lines taken changeset by changeset from the last to the first) to exactly
//     flat_map ReverseStmts (rev Changes);
//   - tie: the case line carries the change list; the Coq model of the templates (Lex/DownModel.v)
//     must produce byte-identical files.

import (
	"context"
	"crypto/sha256"
	"encoding/base64"
	"fmt"
	"regexp"
	"strings"

	"ariga.io/atlas/sql/migrate"
	"ariga.io/atlas/sql/mysql"
	"ariga.io/atlas/sql/postgres"
	"ariga.io/atlas/sql/schema"
	"ariga.io/atlas/sql/sqlite"
	"ariga.io/atlas/sql/sqltool"
	"ariga.io/atlas/sql/verifx"

	"verifharness/internal/out"
	"verifharness/internal/rng"
)

func hs(b string) string {
	h := sha256.Sum256([]byte(b))
	return base64.StdEncoding.EncodeToString(h[:])
}

var formatters = []struct {
	name string
	f    migrate.Formatter
}{
	{"atlas", migrate.DefaultFormatter},
	{"golang-migrate", sqltool.GolangMigrateFormatter},
	{"goose", sqltool.GooseFormatter},
	{"flyway", sqltool.FlywayFormatter},
	{"liquibase", sqltool.LiquibaseFormatter},
	{"dbmate", sqltool.DBMateFormatter},
}

// revTokens renders Change.Reverse for the case line: kind 0 = nil, 1 = string, 2 = []string.
func revTokens(c *migrate.Change) (string, bool) {
	switch r := c.Reverse.(type) {
	case nil:
		return "0 0", true
	case string:
		return "1 1 " + hx(r), true
	case []string:
		t := fmt.Sprintf("2 %d", len(r))
		for _, s := range r {
			t += " " + hx(s)
		}
		return t, true
	}
	return "", false
}

func scanTexts(s string) ([]string, error) {
	st, err := migrate.Stmts(s)
	if err != nil {
		return nil, err
	}
	o := make([]string, len(st))
	for i := range st {
		// Stmt.Text keeps the delimiter; the executor sends it to the database as is
		o[i] = strings.TrimSuffix(st[i].Text, ";")
	}
	return o, nil
}

func eqStrs(a, b []string) bool {
	if len(a) != len(b) {
		return false
	}
	for i := range a {
		if a[i] != b[i] {
			return false
		}
	}
	return true
}

var reChangeset = regexp.MustCompile(`(?m)^--changeset atlas:(\d+)-(\d+)$`)

// liquibaseRead splits a liquibase formatted file into (cmd, rollback statements) per changeset.
func liquibaseRead(b string) (cmds []string, rb [][]string, now string, ok bool) {
	const hdr = "--liquibase formatted sql"
	if !strings.HasPrefix(b, hdr) {
		return nil, nil, "", false
	}
	parts := strings.Split(b[len(hdr):], "\n--changeset atlas:")
	for i, p := range parts[1:] {
		lines := strings.Split(p, "\n")
		// lines[0] = NOW-<i+1>
		k := strings.LastIndex(lines[0], "-")
		if k < 0 || lines[0][k+1:] != fmt.Sprint(i+1) {
			return nil, nil, "", false
		}
		now = lines[0][:k]
		rest := lines[1:]
		if len(rest) > 0 && (strings.HasPrefix(rest[0], "--comment: ") || rest[0] == "") {
			rest = rest[1:]
		}
		var cmd []string
		var rbs []string
		// liquibase joins the consecutive "--rollback" lines of a changeset into one script and
		// splits it at the ";" that end a line
		var script []string
		live := false
		for _, l := range rest {
			if strings.HasPrefix(l, "--rollback: ") {
				script = append(script, strings.TrimPrefix(l, "--rollback: "))
			} else if len(script) == 0 {
				cmd = append(cmd, l)
			} else if l != "" {
				// live text after the first rollback line: not part of any rollback comment
				script = append(script, "\x00LIVE:"+l)
				live = true
			}
		}
		_ = live
		cur := ""
		for i, l := range script {
			if cur != "" {
				cur += "\n"
			}
			cur += l
			if strings.HasSuffix(l, ";") || i == len(script)-1 {
				rbs = append(rbs, strings.TrimSuffix(cur, ";"))
				cur = ""
			}
		}
		c := strings.Join(cmd, "\n")
		c = strings.TrimRight(c, "\n")
		cmds = append(cmds, strings.TrimSuffix(c, ";"))
		rb = append(rb, rbs)
	}
	return cmds, rb, now, true
}

// lineClosedPlan is Lex/DownModel.v's premise of the line reader, in Go: every reverse statement is
// line_closed (not empty, does not start with a newline or "--", contains no ";\n") and every
// comment of a change that has reverse statements is free of newlines.
func lineClosedPlan(p *migrate.Plan, revs [][]string) bool {
	for i, c := range p.Changes {
		if len(revs[i]) > 0 && strings.Contains(c.Comment, "\n") {
			return false
		}
		for _, s := range revs[i] {
			if s == "" || s[0] == '\n' || strings.HasPrefix(s, "--") || strings.Contains(s, ";\n") {
				return false
			}
		}
	}
	return true
}

type dplan struct {
	id      string
	src     string // synthetic | sqlite | mysql | postgres
	desc    string
	plan    *migrate.Plan
	planner bool // Reversible was set by a planner (compare it with the recomputation)
}

func checkPlan(w *out.W, d dplan) {
	p := d.plan
	// ---- case line
	var toks []string
	toks = append(toks, fmt.Sprint(len(p.Changes)))
	okCase := true
	for _, c := range p.Changes {
		rt, ok := revTokens(c)
		if !ok {
			okCase = false
		}
		toks = append(toks, hx(c.Comment), hx(c.Cmd), rt)
	}
	// ---- flag
	var revs [][]string
	all := true
	for _, c := range p.Changes {
		r, err := c.ReverseStmts()
		if err != nil {
			okCase = false
		}
		// the harness's own reading of Change.Reverse (string | []string | nil)
		var own []string
		switch v := c.Reverse.(type) {
		case string:
			own = []string{v}
		case []string:
			own = v
		}
		if !eqStrs(own, r) {
			w.Violation(d.id, "reversestmts-mismatch", fmt.Sprintf("Change.ReverseStmts() = %q but Change.Reverse holds %q: %s", r, own, d.desc))
		}
		revs = append(revs, own)
		if len(r) == 0 {
			all = false
		}
		for _, s := range r {
			if strings.TrimSpace(s) == "" && d.planner {
				w.Violation(d.id, "empty-reverse-statement", fmt.Sprintf("%s planner returned an empty reverse statement for %q (counts as reversible): %s", d.src, trunc(c.Cmd, 200), d.desc))
			}
		}
	}
	if !okCase {
		w.Count("unexpected-reverse-type")
		return
	}
	w.Count("src:" + d.src)
	w.Count(fmt.Sprintf("n=%d", min(len(p.Changes), 8)))
	var obs []string
	// SetReversible on a copy of the change list
	cp := &migrate.Plan{Changes: p.Changes, Reversible: !all}
	if err := verifx.SetReversible(cp); err != nil {
		w.Violation(d.id, "setreversible-error", err.Error())
	}
	obs = append(obs, fmt.Sprintf("flag %v", cp.Reversible))
	if cp.Reversible != all {
		w.Violation(d.id, "flag-mismatch", fmt.Sprintf("sqlx.SetReversible=%v but forall(has reverse)=%v: %s | %s", cp.Reversible, all, d.desc, planText(p, revs)))
	}
	if d.planner {
		_, core, bracket, _, _ := flags(p)
		switch {
		case p.Reversible == all:
		case bracket && p.Reversible == core:
			w.Count("flag=core(pragma bracket without reverse)")
			w.Violation(d.id, "flag-pragma-bracket", fmt.Sprintf("plan.Reversible=%v but the PRAGMA foreign_keys off/on changes of the plan have no reverse: %s | plan: %s", p.Reversible, d.desc, planText(p, revs)))
		default:
			w.Violation(d.id, "flag-mismatch", fmt.Sprintf("%s plan.Reversible=%v but forall(has reverse)=%v: %s | plan: %s", d.src, p.Reversible, all, d.desc, planText(p, revs)))
		}
		if p.Reversible {
			w.Count(d.src + ":reversible")
		} else {
			w.Count(d.src + ":irreversible")
		}
	}
	// ---- reverse skeleton (planner plans of all dialects): the reverse touches what the Cmd touches
	if d.planner {
		for i, c := range p.Changes {
			if len(revs[i]) == 0 {
				continue
			}
			v, msg := checkInverse(c.Cmd, revs[i])
			w.Count("skeleton-" + v)
			if v == "skip" {
				w.Count("skeleton-skip:" + d.src + ":" + cmdKind(c.Cmd))
			}
			if v == "attr" {
				w.Violation(d.id, "reverse-skeleton-table-attr", fmt.Sprintf("%s: %s | Cmd %q | reverse %q | %s", d.src, msg, trunc(c.Cmd, 300), revs[i], d.desc))
			}
			if v == "bad" {
				w.Violation(d.id, "reverse-skeleton", fmt.Sprintf("%s: %s | Cmd %q | reverse %q | %s", d.src, msg, trunc(c.Cmd, 300), revs[i], d.desc))
			}
		}
	}
	// ---- expected sections
	var up, down []string
	for _, c := range p.Changes {
		up = append(up, c.Cmd)
	}
	for i := len(p.Changes) - 1; i >= 0; i-- {
		down = append(down, revs[i]...)
	}
	nontriv := false
	var tags []string
	for _, r := range revs {
		if len(r) > 0 {
			nontriv = true
		}
		for _, s := range r {
			if strings.Contains(s, "\n") && len(tags) == 0 {
				tags = append(tags, "multiline-reverse")
			}
		}
	}
	d.desc += " tags=[" + strings.Join(tags, ",") + "]"
	now := "-"
	for _, f := range formatters {
		files, err := f.f.Format(p)
		if err != nil {
			w.Violation(d.id, "format-error", f.name+": "+err.Error())
			continue
		}
		for i, fl := range files {
			if f.name == "atlas" {
				continue // the default formatter has no down section and is C07's (Lex/Fmt*.v)
			}
			obs = append(obs, fmt.Sprintf("%s.%d %s", f.name, i, hs(string(fl.Bytes()))))
		}
		var upSec, downSec string
		hasDown := true
		switch f.name {
		case "atlas":
			upSec, hasDown = string(files[0].Bytes()), false
		case "golang-migrate", "flyway":
			if len(files) != 2 {
				w.Violation(d.id, "downfile-"+f.name, fmt.Sprintf("expected 2 files, got %d", len(files)))
				continue
			}
			upSec, downSec = string(files[0].Bytes()), string(files[1].Bytes())
			n0, n1 := files[0].Name(), files[1].Name()
			if f.name == "golang-migrate" && (!strings.HasSuffix(n0, ".up.sql") || !strings.HasSuffix(n1, ".down.sql")) ||
				f.name == "flyway" && (!strings.HasPrefix(n0, "V") || !strings.HasPrefix(n1, "U")) {
				w.Violation(d.id, "downfile-"+f.name, "file names "+n0+" "+n1)
			}
		case "goose", "dbmate":
			um, dm := "-- +goose Up\n", "\n-- +goose Down\n"
			if f.name == "dbmate" {
				um, dm = "-- migrate:up\n", "\n-- migrate:down\n"
			}
			b := string(files[0].Bytes())
			k := strings.LastIndex(b, dm)
			if !strings.HasPrefix(b, um) || k < 0 {
				w.Violation(d.id, "downfile-"+f.name, "section markers missing: "+trunc(b, 300))
				continue
			}
			upSec, downSec = b[len(um):k+1], b[k+len(dm):]
			if layoutMode {
				// the model's reader takes the text behind the *first* marker (DownLayoutModel.after_marker)
				k1 := strings.Index(b, dm)
				st, err := scanTexts(b[k1+len(dm):])
				if lineClosedPlan(p, revs) && err == nil {
					obs = append(obs, stmtsObs(f.name, st))
				} else {
					obs = append(obs, f.name+".down open")
				}
			}
		case "liquibase":
			cmds, rb, nw, ok := liquibaseRead(string(files[0].Bytes()))
			if !ok {
				w.Violation(d.id, "downfile-liquibase", "cannot read back: "+trunc(string(files[0].Bytes()), 300))
				continue
			}
			if nw != "" {
				now = nw
			}
			if !eqStrs(cmds, up) {
				w.Violation(d.id, "upfile-liquibase", fmt.Sprintf("changeset statements %s, Cmds %s | %s", trunc(fmt.Sprintf("%q", cmds), 2000), trunc(fmt.Sprintf("%q", up), 2000), d.desc))
			}
			var got []string
			for i := len(rb) - 1; i >= 0; i-- {
				got = append(got, rb[i]...)
			}
			if !eqStrs(got, down) {
				w.Violation(d.id, "downfile-liquibase", fmt.Sprintf("--rollback statements (changesets last to first) %s, expected %s | %s", trunc(fmt.Sprintf("%q", got), 2000), trunc(fmt.Sprintf("%q", down), 2000), d.desc))
			}
			if layoutMode {
				if lqClosedPlan(p, revs) {
					obs = append(obs, stmtsObs("liquibase", got))
				} else {
					obs = append(obs, "liquibase.down open")
				}
			}
			continue
		}
		gotUp, err := scanTexts(upSec)
		if err != nil || !eqStrs(gotUp, up) {
			w.Violation(d.id, "upfile-"+f.name, fmt.Sprintf("up section scans to %s (err %v), Cmds %s | %s", trunc(fmt.Sprintf("%q", gotUp), 2000), err, trunc(fmt.Sprintf("%q", up), 2000), d.desc))
		}
		if hasDown {
			gotDown, err := scanTexts(downSec)
			if f.name == "golang-migrate" {
				// tie of the model's reader (line_scan under line_closed / no_nl) with migrate.Stmts
				if lineClosedPlan(p, revs) && err == nil {
					obs = append(obs, "golang-migrate.scan "+hs(strings.Join(gotDown, "\x00")))
				} else {
					obs = append(obs, "golang-migrate.scan open")
				}
			}
			if layoutMode && (f.name == "golang-migrate" || f.name == "flyway") {
				if lineClosedPlan(p, revs) && err == nil {
					obs = append(obs, stmtsObs(f.name, gotDown))
				} else {
					obs = append(obs, f.name+".down open")
				}
			}
			if err != nil || !eqStrs(gotDown, down) {
				w.Violation(d.id, "downfile-"+f.name, fmt.Sprintf("down section scans to %s (err %v), expected flat_map ReverseStmts (rev Changes) = %s | %s", trunc(fmt.Sprintf("%q", gotDown), 2000), err, trunc(fmt.Sprintf("%q", down), 2000), d.desc))
			}
		}
	}
	w.Case(d.id, now+" "+strings.Join(toks, " "), obs)
	if nontriv {
		var ks []string
		for i, c := range p.Changes {
			ks = append(ks, fmt.Sprintf("%s/%d/%v", cmdKind(c.Cmd), len(revs[i]), c.Comment != ""))
		}
		w.NonTrivial(d.src + ":" + strings.Join(ks, ","))
	}
}

// ---------------------------------------------------------------- synthetic plans

type synthRev struct {
	kind int // 0 nil, 1 string, 2 []string
	n    int
}

var synthRevs = []synthRev{{0, 0}, {1, 1}, {2, 0}, {2, 1}, {2, 2}, {2, 3}}

func synthChange(i int, sr synthRev, comment bool) *migrate.Change {
	c := &migrate.Change{Cmd: fmt.Sprintf("CREATE TABLE t%d (c int)", i)}
	if comment {
		c.Comment = fmt.Sprintf("create t%d", i)
	}
	switch sr.kind {
	case 1:
		c.Reverse = fmt.Sprintf("DROP TABLE t%d", i)
	case 2:
		l := []string{}
		for k := 0; k < sr.n; k++ {
			l = append(l, fmt.Sprintf("DROP INDEX i%d_%d", i, k))
		}
		c.Reverse = l
	}
	return c
}

func synthPlans(tier string, r *rng.R) []dplan {
	var ps []dplan
	n := 0
	emit := func(cs []*migrate.Change, desc string) {
		n++
		ps = append(ps, dplan{id: fmt.Sprintf("s%d", n), src: "synthetic", desc: desc, plan: &migrate.Plan{Name: "p", Changes: cs}})
	}
	maxN := 3
	if tier == "thorough" {
		maxN = 4
	}
	// exhaustive: every list of <= maxN changes over (reverse shape x comment)
	shapes := len(synthRevs) * 2
	for k := 0; k <= maxN; k++ {
		total := 1
		for i := 0; i < k; i++ {
			total *= shapes
		}
		for code := 0; code < total; code++ {
			var cs []*migrate.Change
			x := code
			for i := 0; i < k; i++ {
				s := x % shapes
				x /= shapes
				cs = append(cs, synthChange(i, synthRevs[s/2], s%2 == 1))
			}
			emit(cs, fmt.Sprintf("synthetic n=%d code=%d", k, code))
		}
	}
	// every length up to 12 with single reverses (the swap loop of sqltool.reverse: odd / even)
	for k := 0; k <= 12; k++ {
		var cs []*migrate.Change
		for i := 0; i < k; i++ {
			cs = append(cs, synthChange(i, synthRev{1, 1}, false))
		}
		emit(cs, fmt.Sprintf("synthetic all-single n=%d", k))
	}
	cnt := 300
	if tier == "thorough" {
		cnt = 5000
	}
	for j := 0; j < cnt; j++ {
		k := 4 + r.Intn(8)
		var cs []*migrate.Change
		for i := 0; i < k; i++ {
			cs = append(cs, synthChange(i, synthRevs[r.Intn(len(synthRevs))], r.Bool()))
		}
		emit(cs, fmt.Sprintf("synthetic random n=%d", k))
	}
	return ps
}

// ---------------------------------------------------------------- real planners

func sqlitePlans(tier string) []dplan {
	var ps []dplan
	cases := genUpDown(tier)
	step := 1
	if tier != "thorough" {
		step = 2
	}
	for i := 0; i < len(cases); i += step {
		c := cases[i]
		p, desc, err := sqlitePlanOnly(c)
		if err != nil || p == nil {
			continue
		}
		ps = append(ps, dplan{id: "q" + c.id, src: "sqlite", desc: desc, plan: p, planner: true})
	}
	return ps
}

func sqlitePlanOnly(c ucase) (*migrate.Plan, string, error) {
	dbA, err := openMem(c.fk)
	if err != nil {
		return nil, "", err
	}
	defer dbA.Close()
	dbB, err := openMem(c.fk)
	if err != nil {
		return nil, "", err
	}
	defer dbB.Close()
	if err := execAll(dbA, c.cur.ddl()); err != nil {
		return nil, "", err
	}
	if err := execAll(dbB, c.des.ddl()); err != nil {
		return nil, "", err
	}
	drvA, err := sqlite.Open(dbA)
	if err != nil {
		return nil, "", err
	}
	drvB, err := sqlite.Open(dbB)
	if err != nil {
		return nil, "", err
	}
	s0, err := inspect(drvA)
	if err != nil {
		return nil, "", err
	}
	d, err := inspect(drvB)
	if err != nil {
		return nil, "", err
	}
	var changes []schema.Change
	if c.direct != "" {
		changes, err = directChanges(c.direct, s0, d)
	} else {
		changes, err = drvA.SchemaDiff(s0, d)
	}
	if err != nil {
		return nil, "", err
	}
	p, err := drvA.PlanChanges(context.Background(), "plan", changes)
	if err != nil {
		return nil, "", nil
	}
	return p, c.label + " current={" + trunc(c.cur.String(), 500) + "} desired={" + trunc(c.des.String(), 500) + "}", nil
}

func mpPlans(tier string, r *rng.R) []dplan {
	var ps []dplan
	cnt := 2500
	if tier == "thorough" {
		cnt = 40000
	}
	modes := []migrate.PlanMode{migrate.PlanModeUnset, migrate.PlanModeInPlace, migrate.PlanModeDeferred, migrate.PlanModeDump, migrate.PlanModeUnsortedDump}
	for i := 0; i < cnt; i++ {
		g := &gen{r: r, pg: i%2 == 1}
		g.marker = fmt.Sprintf("mkr%dx", 100+r.Intn(900))
		g.other = fmt.Sprintf("oth%dx", 100+r.Intn(900))
		mode := modes[r.Intn(len(modes))]
		var q *string
		switch i % 3 {
		case 1:
			q = sp("")
		case 2:
			q = sp(fmt.Sprintf("qz%d", r.Intn(100)))
		}
		indent := ""
		if r.Chance(1, 3) {
			indent = "  "
		}
		sch := sp(g.marker)
		cs, desc := g.changeSet(sch, "")
		wd := &world{pg: g.pg, tables: map[string]*schema.Table{}, full: map[string]bool{}}
		for _, c := range cs {
			switch c.k {
			case "AT", "DT", "MT", "RT":
				wd.table(c.t)
			}
		}
		var real []schema.Change
		for _, c := range cs {
			real = append(real, wd.change(c))
		}
		opts := []migrate.PlanOption{func(o *migrate.PlanOptions) { o.SchemaQualifier = q; o.Mode = mode; o.Indent = indent }}
		var plan *migrate.Plan
		var err error
		var pnc any
		func() {
			defer func() { pnc = recover() }()
			if g.pg {
				plan, err = postgres.DefaultPlan.PlanChanges(context.Background(), "plan", real, opts...)
			} else {
				plan, err = mysql.DefaultPlan.PlanChanges(context.Background(), "plan", real, opts...)
			}
		}()
		if pnc != nil || err != nil || plan == nil {
			continue
		}
		src := "mysql"
		if g.pg {
			src = "postgres"
		}
		ps = append(ps, dplan{id: fmt.Sprintf("m%d", i), src: src, desc: fmt.Sprintf("%s %s indent=%q", src, desc, indent), plan: plan, planner: true})
	}
	return ps
}

func runDownStage(w *out.W, tier string) {
	w.Rule = "a case is non-trivial when at least one change carries a reverse statement; key = (source, per change: statement kind, number of reverse statements, has comment)"
	w.Exhaust = true
	r := rng.FromEnv(0xC17B)
	var all []dplan
	all = append(all, synthPlans(tier, r)...)
	all = append(all, sqlitePlans(tier)...)
	all = append(all, mpPlans(tier, r)...)
	for _, d := range all {
		checkPlan(w, d)
	}
}
