package main

// Stage "layout" (round 5): reverse statements with an extreme layout through the down section of
// every formatter -- a single line of 64 KiB or more (DROP TABLE of a table with a huge CHECK .. IN
// list or 2000 columns, planned without indentation), lines whose length sits on the 64 KiB
// boundary of the written line, CRLF line ends, blank lines inside and trailing blank lines, one
// very long statement next to short ones, a very long comment; for the five formatters that write a
// down section x indent {"", "  "} (real planners).
//
// Plans: (1) synthetic change lists carrying the layout shapes at every position of a 1..3 change
// plan and in pairs; (2) the real SQLite planner on (current, desired) pairs with such tables, the
// plan executed up on real go-sqlite3 and then down **with the statements scanned from the written
// down file** (not from Change.Reverse), schema inspected and diffed; (3) mysql.DefaultPlan /
// postgres.DefaultPlan on AddTable / DropTable / enum changes of such tables.
//
// Oracle (checkPlan's): the up section scans to the Cmds, the down section of every formatter scans
// (migrate.Stmts; liquibase: rollback reader) to flat_map ReverseStmts (rev Changes), count and
// text.  Tie: byte-identical files (sha256) + per formatter the statement list the model's readers
// (DownLayoutModel.line_scan_fast on golang-migrate / flyway sections, goose_down_stmts /
// dbmate_down_stmts = after_marker + line_scan_fast on the whole file, liquibase_down_fast) give.

import (
	"context"
	"fmt"
	"strings"

	"ariga.io/atlas/sql/migrate"
	"ariga.io/atlas/sql/mysql"
	"ariga.io/atlas/sql/postgres"
	"ariga.io/atlas/sql/schema"
	"ariga.io/atlas/sql/sqlite"
	"ariga.io/atlas/sql/sqltool"

	"verifharness/internal/out"
)

// layoutMode makes checkPlan add the per-formatter down statement lists to the observation.
var layoutMode bool

// lqClosedPlan is DownProofs.lq_change_ok in Go: comments without newline, no line of `Cmd;`
// starts with "--rollback: ", reverse statements line_closed.
func lqClosedPlan(p *migrate.Plan, revs [][]string) bool {
	for i, c := range p.Changes {
		if strings.Contains(c.Comment, "\n") {
			return false
		}
		for _, l := range strings.Split(c.Cmd+";", "\n") {
			if strings.HasPrefix(l, "--rollback: ") {
				return false
			}
		}
		for _, s := range revs[i] {
			if s == "" || s[0] == '\n' || strings.HasPrefix(s, "--") || strings.Contains(s, ";\n") {
				return false
			}
		}
	}
	return true
}

func stmtsObs(name string, st []string) string {
	return fmt.Sprintf("%s.down %d %s", name, len(st), hs(strings.Join(st, "\x00")))
}

// longStmt is a one-line CREATE TABLE of exactly n bytes (n >= 80) with a CHECK .. IN list.
func longStmt(name string, n int) string {
	head := "CREATE TABLE " + name + " (c int, CONSTRAINT k CHECK (c IN ("
	tail := "1)))"
	var b strings.Builder
	b.WriteString(head)
	i := 0
	for b.Len()+len(tail)+9 <= n {
		fmt.Fprintf(&b, "%07d, ", 1000000+i)
		i++
	}
	for b.Len()+len(tail) < n {
		b.WriteByte(' ')
	}
	b.WriteString(tail)
	return b.String()
}

// wideStmt is a CREATE TABLE of ncols columns; sep is ", " (one line) or ",\n  " (indented).
func wideStmt(name string, ncols int, indent bool) string {
	var cols []string
	for i := 0; i < ncols; i++ {
		cols = append(cols, fmt.Sprintf("column_number_%04d_of_the_wide_table integer NOT NULL", i))
	}
	if indent {
		return "CREATE TABLE " + name + " (\n  " + strings.Join(cols, ",\n  ") + "\n)"
	}
	return "CREATE TABLE " + name + " (" + strings.Join(cols, ", ") + ")"
}

type lshape struct {
	name    string
	cmd     string
	comment string
	rev     any
	big     bool
}

func layoutShapes(tier string) []lshape {
	var sh []lshape
	add := func(name, cmd string, rev any, big bool) {
		sh = append(sh, lshape{name: name, cmd: cmd, rev: rev, big: big})
	}
	// the written line is <stmt>;  (liquibase: --rollback: <stmt>;): lengths around 64 KiB for both
	lens := []int{65523, 65524, 65535, 65536, 65537, 70001}
	if tier == "thorough" {
		lens = append(lens, 65521, 65522, 65525, 65533, 65534, 65538, 98304, 131071, 131072, 131073, 200003)
	}
	for _, n := range lens {
		add(fmt.Sprintf("long%d", n), "DROP TABLE big", longStmt("big", n), true)
	}
	add("long-list", "DROP TABLE big", []string{longStmt("big", 66000)}, true)
	add("long+short", "DROP TABLE big", []string{longStmt("big", 66000), "CREATE INDEX i1 ON big (c)", "CREATE UNIQUE INDEX i2 ON big (c)"}, true)
	add("short+long", "DROP TABLE big", []string{"CREATE TABLE aux (c int)", longStmt("big", 66001)}, true)
	add("long+long", "DROP TABLE big", []string{longStmt("big", 65536), longStmt("big2", 65537)}, true)
	add("wide2000", "DROP TABLE wide", wideStmt("wide", 2000, false), true)
	add("wide2000-indented", "DROP TABLE wide", []string{wideStmt("wide", 2000, true), "CREATE INDEX w1 ON wide (column_number_0000_of_the_wide_table)"}, true)
	add("long-cmd", longStmt("big", 66002), "DROP TABLE big", true)
	sh = append(sh, lshape{name: "long-comment", cmd: "DROP TABLE t", comment: strings.Repeat("drop the table ", 4400), rev: "CREATE TABLE t (c int)", big: true})
	// line ends
	add("crlf", "DROP TABLE t", "CREATE TABLE t (\r\n  c int,\r\n  d text\r\n)", false)
	add("crlf-trailing", "DROP TABLE t", "CREATE TABLE t (\r\n  c int\r\n)\r\n", false)
	add("cr-trailing", "DROP TABLE t", "CREATE TABLE t (c int)\r", false)
	add("crlf-list", "DROP TABLE t", []string{"CREATE TABLE t (\r\n  c int\r\n)", "CREATE INDEX i ON t (c)\r\n", "CREATE INDEX j ON t (c)"}, false)
	add("crlf-literal", "DROP TABLE t", "CREATE TABLE t (c text DEFAULT 'a\r\nb')", false)
	add("crlf-cmd", "CREATE TABLE t (\r\n  c int\r\n)", "DROP TABLE t", false)
	// blank lines
	add("nl-trailing", "DROP TABLE t", "CREATE TABLE t (c int)\n", false)
	add("nl2-trailing", "DROP TABLE t", "CREATE TABLE t (c int)\n\n", false)
	add("nl3-trailing", "DROP TABLE t", []string{"CREATE TABLE t (c int)\n\n\n", "CREATE INDEX i ON t (c)\n\n"}, false)
	add("blank-inside", "DROP TABLE t", "CREATE TABLE t (\n  c int,\n\n\n  d text\n)", false)
	add("blank-inside-crlf", "DROP TABLE t", "CREATE TABLE t (\r\n  c int,\r\n\r\n  d text\r\n)", false)
	add("spaces-trailing", "DROP TABLE t", "CREATE TABLE t (c int)   ", false)
	add("tab-lines", "DROP TABLE t", "CREATE TABLE t (\n\tc int,\n\td text\n)", false)
	add("semi-literal", "DROP TABLE t", "CREATE TABLE t (c text DEFAULT 'a;b')", false)
	add("long-crlf", "DROP TABLE big", strings.ReplaceAll(wideStmt("wide", 1500, true), "\n", "\r\n"), true)
	return sh
}

func shapeChange(s lshape, k int) *migrate.Change {
	ren := func(x string) string {
		if k == 0 {
			return x
		}
		x = strings.ReplaceAll(x, " big", fmt.Sprintf(" big_%d", k))
		x = strings.ReplaceAll(x, " t ", fmt.Sprintf(" t_%d ", k))
		return x
	}
	c := &migrate.Change{Cmd: ren(s.cmd), Comment: s.comment}
	switch r := s.rev.(type) {
	case string:
		c.Reverse = ren(r)
	case []string:
		var l []string
		for _, x := range r {
			l = append(l, ren(x))
		}
		c.Reverse = l
	}
	return c
}

func layoutSynth(tier string) []dplan {
	var ps []dplan
	n := 0
	emit := func(cs []*migrate.Change, desc string) {
		n++
		ps = append(ps, dplan{id: fmt.Sprintf("L%d", n), src: "synthetic", desc: desc, plan: &migrate.Plan{Name: "p", Changes: cs}})
	}
	sh := layoutShapes(tier)
	plain := func(i int, withRev bool) *migrate.Change {
		if withRev {
			return synthChange(i, synthRev{2, 2}, true)
		}
		return synthChange(i, synthRev{0, 0}, false)
	}
	for _, s := range sh {
		emit([]*migrate.Change{shapeChange(s, 0)}, "layout "+s.name+" alone")
		if s.big && tier != "thorough" {
			switch s.name {
			case "long65536", "long+short", "wide2000-indented", "long-comment", "long-cmd", "long-crlf":
			default:
				continue
			}
			// one placement in the middle
			emit([]*migrate.Change{plain(0, true), shapeChange(s, 0), plain(2, true)}, "layout "+s.name+" middle of 3")
			continue
		}
		for pos := 0; pos < 3; pos++ {
			for _, wr := range []bool{true, false} {
				cs := []*migrate.Change{plain(0, wr), plain(1, wr), plain(2, wr)}
				cs[pos] = shapeChange(s, 0)
				emit(cs, fmt.Sprintf("layout %s at %d of 3 (neighbours with reverse: %v)", s.name, pos, wr))
			}
		}
	}
	// pairs of shapes (small ones: all ordered pairs; big ones: with the next shape)
	for i, a := range sh {
		for j, b := range sh {
			if i == j {
				continue
			}
			if (a.big || b.big) && !(tier == "thorough" && (j == i+1 || i == j+1)) && !(j == i+1 && i%5 == 0) {
				continue
			}
			emit([]*migrate.Change{shapeChange(a, 1), shapeChange(b, 2)}, "layout pair "+a.name+","+b.name)
		}
	}
	return ps
}

// ---------------------------------------------------------------- real SQLite planner

type lcase struct {
	id     string
	label  string
	cur    sschema
	des    sschema
	indent string
}

func inList(n int) string {
	var b strings.Builder
	b.WriteString("`c` IN (")
	for i := 0; i < n; i++ {
		fmt.Fprintf(&b, "%d, ", 1000000+i)
	}
	b.WriteString("1)")
	return b.String()
}

func layoutTables() map[string]stab {
	other := stab{name: "other", cols: []scol{{name: "id", typ: "integer", notnull: true}, {name: "v", typ: "text"}}, pk: []string{"id"}}
	big := stab{name: "big", cols: []scol{{name: "id", typ: "integer", notnull: true}, {name: "c", typ: "integer"}}, pk: []string{"id"},
		chks: []schk{{name: "big_in", expr: inList(7300)}}}
	bigIdx := big
	bigIdx.name = "bigx"
	bigIdx.chks = []schk{{name: "bigx_in", expr: inList(7300)}}
	bigIdx.idx = []sidx{{name: "bigx_c", cols: []string{"c"}}, {name: "bigx_c_id", cols: []string{"c", "id"}, unique: true}}
	wide := stab{name: "wide"}
	for i := 0; i < 2000; i++ {
		wide.cols = append(wide.cols, scol{name: fmt.Sprintf("column_number_%04d_of_the_wide_table", i), typ: "integer", notnull: i%2 == 0})
	}
	wide.idx = []sidx{{name: "wide_0", cols: []string{wide.cols[0].name}}}
	crlf := stab{name: "crlf", cols: []scol{{name: "id", typ: "integer", notnull: true}, {name: "c", typ: "text", def: "'a\r\nb'"}}, pk: []string{"id"},
		chks: []schk{{name: "crlf_k", expr: "`c` <> 'x\r\ny'"}}}
	blank := stab{name: "blank", cols: []scol{{name: "id", typ: "integer", notnull: true}, {name: "c", typ: "text", def: "'a\n\n\nb'"}}, pk: []string{"id"},
		chks: []schk{{name: "blank_k", expr: "`c` <> 'x\n\ny'"}}}
	return map[string]stab{"other": other, "big": big, "bigx": bigIdx, "wide": wide, "crlf": crlf, "blank": blank}
}

func layoutSqliteCases() []lcase {
	tb := layoutTables()
	var cs []lcase
	n := 0
	for _, name := range []string{"big", "bigx", "wide", "crlf", "blank"} {
		for _, indent := range []string{"", "  "} {
			for _, dir := range []string{"drop", "add"} {
				n++
				with, without := sschema{tb["other"], tb[name]}, sschema{tb["other"]}
				c := lcase{id: fmt.Sprintf("Q%d", n), label: fmt.Sprintf("sqlite %s table %s indent=%q", dir, name, indent), indent: indent}
				if dir == "drop" {
					c.cur, c.des = with, without
				} else {
					c.cur, c.des = without, with
				}
				cs = append(cs, c)
			}
		}
	}
	// the big table stays, a short statement next to it; both big tables dropped (two long + short ones)
	for _, indent := range []string{"", "  "} {
		n++
		cs = append(cs, lcase{id: fmt.Sprintf("Q%d", n), label: fmt.Sprintf("sqlite drop big+bigx+crlf indent=%q", indent), indent: indent,
			cur: sschema{tb["other"], tb["big"], tb["bigx"], tb["crlf"]}, des: sschema{tb["other"]}})
		n++
		cs = append(cs, lcase{id: fmt.Sprintf("Q%d", n), label: fmt.Sprintf("sqlite add big+wide+blank indent=%q", indent), indent: indent,
			cur: sschema{tb["other"]}, des: sschema{tb["other"], tb["big"], tb["wide"], tb["blank"]}})
	}
	return cs
}

// goldenDown returns the statements of the golang-migrate down file of the plan, scanned.
func goldenDown(p *migrate.Plan) ([]string, error) {
	files, err := sqltool.GolangMigrateFormatter.Format(p)
	if err != nil {
		return nil, err
	}
	if len(files) != 2 {
		return nil, fmt.Errorf("%d files", len(files))
	}
	st, err := migrate.Stmts(string(files[1].Bytes()))
	if err != nil {
		return nil, err
	}
	var o []string
	for _, s := range st {
		o = append(o, s.Text)
	}
	return o, nil
}

func runLayoutSqlite(w *out.W, c lcase) {
	fail := func(what string, err error) {
		w.Count("sqlite-setup-error")
		w.Count("sqlite-setup-error:" + what + ":" + trunc(err.Error(), 80))
	}
	dbA, err := openMem(false)
	if err != nil {
		fail("open", err)
		return
	}
	defer dbA.Close()
	dbB, err := openMem(false)
	if err != nil {
		fail("open", err)
		return
	}
	defer dbB.Close()
	if err := execAll(dbA, c.cur.ddl()); err != nil {
		fail("current", err)
		return
	}
	if err := execAll(dbB, c.des.ddl()); err != nil {
		fail("desired", err)
		return
	}
	drvA, err := sqlite.Open(dbA)
	if err != nil {
		fail("driver", err)
		return
	}
	drvB, err := sqlite.Open(dbB)
	if err != nil {
		fail("driver", err)
		return
	}
	s0, err := inspect(drvA)
	if err != nil {
		fail("inspect", err)
		return
	}
	s0p, _ := inspect(drvA)
	s0q, _ := inspect(drvA)
	d, err := inspect(drvB)
	if err != nil {
		fail("inspect", err)
		return
	}
	dp, _ := inspect(drvB)
	changes, err := drvA.SchemaDiff(s0, d)
	if err != nil {
		fail("diff", err)
		return
	}
	plan, err := drvA.PlanChanges(context.Background(), "plan", changes, func(o *migrate.PlanOptions) { o.Indent = c.indent })
	if err != nil {
		fail("plan", err)
		return
	}
	maxLine, lines := 0, 0
	for _, ch := range plan.Changes {
		rs, _ := ch.ReverseStmts()
		for _, s := range append([]string{ch.Cmd}, rs...) {
			for _, l := range strings.Split(s, "\n") {
				lines++
				if len(l) > maxLine {
					maxLine = len(l)
				}
			}
		}
	}
	desc := fmt.Sprintf("%s changes=%s longest line %d bytes, %d lines", c.label, strings.Join(chNames(changes), " "), maxLine, lines)
	if maxLine >= 65536 {
		w.Count("sqlite-plan-with-line>=64KiB")
	}
	if lines >= 2000 {
		w.Count("sqlite-plan-with>=2000-lines")
	}
	checkPlan(w, dplan{id: c.id, src: "sqlite", desc: desc, plan: plan, planner: true})
	if !plan.Reversible {
		w.Violation(c.id, "layout-not-reversible", "AddTable/DropTable plan not flagged reversible: "+desc)
		return
	}
	// up
	for _, ch := range plan.Changes {
		if _, err := dbA.Exec(ch.Cmd, ch.Args...); err != nil {
			w.Violation(c.id, "layout-up-error", trunc(ch.Cmd, 120)+": "+err.Error()+" | "+desc)
			return
		}
	}
	s1, err := inspect(drvA)
	if err != nil {
		w.Violation(c.id, "layout-up-error", "inspect: "+err.Error()+" | "+desc)
		return
	}
	if d1, err := drvA.SchemaDiff(s1, dp); err != nil || len(d1) > 0 {
		w.Violation(c.id, "layout-up-diff", fmt.Sprintf("after up SchemaDiff(S1, desired) = %v (err %v) | %s", chNames(d1), err, desc))
		return
	}
	// down: the statements of the written down file
	down, err := goldenDown(plan)
	if err != nil {
		w.Violation(c.id, "layout-down-file", err.Error()+" | "+desc)
		return
	}
	for _, st := range down {
		if _, err := dbA.Exec(st); err != nil {
			w.Violation(c.id, "layout-down-exec-error", trunc(st, 160)+": "+err.Error()+" | "+desc)
			return
		}
	}
	s2, err := inspect(drvA)
	if err != nil {
		w.Violation(c.id, "layout-down-exec-error", "inspect: "+err.Error()+" | "+desc)
		return
	}
	s2b, _ := inspect(drvA)
	var diff []string
	da, err := drvA.SchemaDiff(s2, s0p)
	if err != nil {
		diff = append(diff, "error(S2,S0): "+err.Error())
	}
	for _, x := range chNames(da) {
		diff = append(diff, "S2->S0:"+x)
	}
	db2, err := drvA.SchemaDiff(s0q, s2b)
	if err != nil {
		diff = append(diff, "error(S0,S2): "+err.Error())
	}
	for _, x := range chNames(db2) {
		diff = append(diff, "S0->S2:"+x)
	}
	if len(diff) > 0 {
		w.Violation(c.id, "layout-down-diff", fmt.Sprintf("up + down file executed on real SQLite: %v | %s", diff, desc))
		return
	}
	w.Count("sqlite-up-down-file-restored")
	w.Count(fmt.Sprintf("sqlite-down-file-statements=%d", len(down)))
}

// ---------------------------------------------------------------- MySQL / PostgreSQL planners

func layoutMP() []dplan {
	var ps []dplan
	n := 0
	mk := func(pg bool, name string) dtab {
		sch := sp("app")
		t := dtab{schema: sch, name: name, cols: []dcol{{name: "id", typ: "int"}, {name: "c", typ: "int", null: true}}, pk: []string{"id"}}
		switch name {
		case "big":
			t.chks = []dchk{{name: "big_in", expr: strings.ReplaceAll(inList(7300), "`", "")}}
			t.idx = []didx{{name: "big_c", cols: []string{"c"}}}
		case "wide":
			for i := 0; i < 2000; i++ {
				t.cols = append(t.cols, dcol{name: fmt.Sprintf("column_number_%04d_of_the_wide_table", i), typ: "int", null: i%2 == 1})
			}
		case "crlf":
			t.chks = []dchk{{name: "crlf_k", expr: "c <> 7\r\n AND c <> 8"}}
			t.comment = "line one\r\nline two"
		case "blank":
			t.chks = []dchk{{name: "blank_k", expr: "c <> 7\n\n\n AND c <> 8\n"}}
		}
		return t
	}
	for _, pg := range []bool{false, true} {
		for _, name := range []string{"big", "wide", "crlf", "blank"} {
			for _, indent := range []string{"", "  "} {
				for _, k := range []string{"DT", "AT"} {
					n++
					wd := &world{pg: pg, tables: map[string]*schema.Table{}, full: map[string]bool{}}
					t := mk(pg, name)
					wd.table(t)
					real := []schema.Change{wd.change(dchange{k: k, t: t})}
					if name == "big" {
						// a short statement before and after the long one
						o := dtab{schema: sp("app"), name: "other", cols: []dcol{{name: "id", typ: "int"}}, pk: []string{"id"}}
						o2 := dtab{schema: sp("app"), name: "other2", cols: []dcol{{name: "id", typ: "int"}}, pk: []string{"id"}}
						wd.table(o)
						wd.table(o2)
						real = []schema.Change{wd.change(dchange{k: k, t: o}), real[0], wd.change(dchange{k: k, t: o2})}
					}
					ps = append(ps, mpPlan(fmt.Sprintf("P%d", n), pg, real, indent, fmt.Sprintf("%s table %s", k, name))...)
				}
			}
		}
	}
	// PostgreSQL: an enum type with thousands of values (CREATE TYPE .. AS ENUM on one line)
	var vals []string
	for i := 0; i < 6000; i++ {
		vals = append(vals, fmt.Sprintf("value_%05d", i))
	}
	for _, indent := range []string{"", "  "} {
		for _, k := range []string{"AO", "DO"} {
			n++
			wd := &world{pg: true, tables: map[string]*schema.Table{}, full: map[string]bool{}}
			real := []schema.Change{wd.change(dchange{k: k, ename: "huge", eschema: sp("app"), vals: vals})}
			ps = append(ps, mpPlan(fmt.Sprintf("P%d", n), true, real, indent, k+" enum of 6000 values")...)
		}
	}
	return ps
}

func mpPlan(id string, pg bool, real []schema.Change, indent, what string) []dplan {
	opts := []migrate.PlanOption{func(o *migrate.PlanOptions) { o.Indent = indent }}
	var plan *migrate.Plan
	var err error
	var pnc any
	func() {
		defer func() { pnc = recover() }()
		if pg {
			plan, err = postgres.DefaultPlan.PlanChanges(context.Background(), "plan", real, opts...)
		} else {
			plan, err = mysql.DefaultPlan.PlanChanges(context.Background(), "plan", real, opts...)
		}
	}()
	src := "mysql"
	if pg {
		src = "postgres"
	}
	if pnc != nil || err != nil || plan == nil {
		return []dplan{{id: id, src: src, desc: fmt.Sprintf("PLAN-ERROR %s %s indent=%q: panic=%v err=%v", src, what, indent, pnc, err)}}
	}
	maxLine := 0
	for _, ch := range plan.Changes {
		rs, _ := ch.ReverseStmts()
		for _, s := range append([]string{ch.Cmd}, rs...) {
			for _, l := range strings.Split(s, "\n") {
				if len(l) > maxLine {
					maxLine = len(l)
				}
			}
		}
	}
	return []dplan{{id: id, src: src, desc: fmt.Sprintf("%s %s indent=%q longest line %d bytes", src, what, indent, maxLine), plan: plan, planner: true}}
}

func runLayoutStage(w *out.W, tier string) {
	w.Rule = "a case is non-trivial when at least one change carries a reverse statement; key = (source, per change: statement kind, number of reverse statements, has comment)"
	layoutMode = true
	for _, d := range layoutSynth(tier) {
		big := 0
		for _, c := range d.plan.Changes {
			rs, _ := c.ReverseStmts()
			for _, s := range rs {
				if len(s) >= 65000 {
					big++
				}
			}
		}
		if big > 0 {
			w.Count("synthetic-plan-with-reverse>=65000-bytes")
		}
		checkPlan(w, d)
	}
	for _, c := range layoutSqliteCases() {
		runLayoutSqlite(w, c)
	}
	for _, d := range layoutMP() {
		if d.plan == nil {
			w.Count("mp-plan-error")
			w.Violation(d.id, "layout-plan-error", d.desc)
			continue
		}
		if strings.Contains(d.desc, "longest line") {
			var n int
			fmt.Sscanf(d.desc[strings.Index(d.desc, "longest line")+13:], "%d", &n)
			if n >= 65536 {
				w.Count(d.src + "-plan-with-line>=64KiB")
			}
		}
		checkPlan(w, d)
	}
}
