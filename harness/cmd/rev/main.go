// Command rev is the harness of property C17 ("reverse statements undo the plan").
//
//	updown  SQLite: random (current, desired) pairs on a real go-sqlite3 database; the plan is
//	        executed up and down and the inspected schemas compared (updown.go)
//	down    all dialects: Reversible recomputed from Changes; every formatter's down section
//	        read back and compared with flat_map ReverseStmts (rev Changes) (down.go)
package main

import (
	"encoding/hex"
	"flag"
	"fmt"
	"os"

	"verifharness/internal/out"
)

func main() {
	mode := flag.String("mode", "updown", "updown|down|alter|cycle|layout|inverse")
	tier := flag.String("tier", "quick", "quick|thorough")
	outDir := flag.String("out", "", "output directory")
	flag.Parse()
	if *outDir == "" {
		fmt.Fprintln(os.Stderr, "missing -out")
		os.Exit(2)
	}
	w := out.New(*outDir)
	switch *mode {
	case "updown":
		runUpDownStage(w, *tier)
	case "down":
		runDownStage(w, *tier)
	case "alter":
		runAlterStage(w, *tier)
	case "cycle":
		runCycleStage(w, *tier)
	case "layout":
		runLayoutStage(w, *tier)
	case "inverse":
		runInverseStage(w, *tier)
	default:
		fmt.Fprintln(os.Stderr, "unknown mode")
		os.Exit(2)
	}
	w.Close()
}

// hx encodes bytes for the case file ("-" = empty).
func hx(s string) string {
	if s == "" {
		return "-"
	}
	return hex.EncodeToString([]byte(s))
}
