package main

// Reverse-skeleton oracle (all dialects; no engine needed): the objects a change's reverse
// statements touch are the objects its Cmd touches, with the inverse operation.
//
// A statement is read into atoms (op, kind, names): CREATE TABLE t -> (+,TABLE,t); ALTER TABLE t
// ADD COLUMN c .., DROP INDEX i -> (+,COLUMN,t.c) (-,INDEX,i); RENAME .. a TO b -> (R,kind,a,b);
// MODIFY/ALTER COLUMN, COMMENT -> (~,kind,object).  The inverse of (+,k,x) is (-,k,x), of (R,k,a,b)
// is (R,k,b,a), of (~,k,x) is (~,k,x).  A change with reverse statements must satisfy
// multiset(inverse(atoms(Cmd))) = multiset(atoms(reverse statements)); for DROP TABLE / DROP TYPE
// the reverse may in addition create indexes and comments of the re-created object.  Statements
// the reader does not know are skipped (counted), never judged.

import (
	"sort"
	"strings"
)

type atom struct {
	op, kind string
	a, b     string
}

func (x atom) String() string {
	s := x.op + x.kind + "(" + x.a
	if x.b != "" {
		s += ">" + x.b
	}
	return s + ")"
}

// sqlTokens splits a statement into words, quoted identifiers (quotes removed, kept as one
// token even when dotted: a.b -> "a.b"), string literals ("'...'" kept with quotes), "(" ... ")"
// groups (as the single token "()") and ",".
func sqlTokens(s string) []string {
	var out []string
	i := 0
	n := len(s)
	readQuoted := func(q byte) string {
		j := i + 1
		var b strings.Builder
		for j < n {
			if s[j] == q {
				if j+1 < n && s[j+1] == q {
					b.WriteByte(q)
					j += 2
					continue
				}
				break
			}
			if s[j] == '\\' && q == '\'' && j+1 < n {
				b.WriteByte(s[j+1])
				j += 2
				continue
			}
			b.WriteByte(s[j])
			j++
		}
		i = j + 1
		return b.String()
	}
	for i < n {
		c := s[i]
		switch {
		case c == ' ' || c == '\n' || c == '\t' || c == '\r':
			i++
		case c == ',':
			out = append(out, ",")
			i++
		case c == ';':
			i++
		case c == '(':
			depth := 0
			j := i
			for j < n {
				switch s[j] {
				case '(':
					depth++
				case ')':
					depth--
				case '\'', '"', '`':
					q := s[j]
					j++
					for j < n && s[j] != q {
						if s[j] == '\\' && q == '\'' {
							j++
						}
						j++
					}
				}
				j++
				if depth == 0 {
					break
				}
			}
			out = append(out, "()")
			i = j
		case c == '"' || c == '`':
			id := readQuoted(c)
			// dotted chain
			for i < n && s[i] == '.' && i+1 < n && (s[i+1] == '"' || s[i+1] == '`') {
				i++
				id += "." + readQuoted(s[i])
			}
			out = append(out, "\x01"+id)
		case c == '\'':
			out = append(out, "'"+readQuoted('\'')+"'")
		default:
			j := i
			for j < n && !strings.ContainsRune(" \n\t\r,;()\"`'", rune(s[j])) {
				j++
			}
			out = append(out, strings.ToUpper(s[i:j]))
			i = j
		}
	}
	return out
}

func isID(t string) bool { return strings.HasPrefix(t, "\x01") }
func idOf(t string) string {
	return strings.TrimPrefix(t, "\x01")
}

// last component of a dotted name
func baseName(s string) string {
	if k := strings.LastIndex(s, "."); k >= 0 {
		return s[k+1:]
	}
	return s
}

func skipWords(t []string, ws ...string) []string {
	for len(t) > 0 {
		hit := false
		for _, w := range ws {
			if t[0] == w {
				hit = true
			}
		}
		if !hit {
			return t
		}
		t = t[1:]
	}
	return t
}

func splitClauses(t []string) [][]string {
	var out [][]string
	var cur []string
	for _, x := range t {
		if x == "," {
			out = append(out, cur)
			cur = nil
			continue
		}
		cur = append(cur, x)
	}
	return append(out, cur)
}

// atomsOf reads one statement; ok = false when the statement form is not known.
func atomsOf(stmt string) ([]atom, bool) {
	t := sqlTokens(stmt)
	if len(t) < 2 {
		return nil, false
	}
	has := func(ws ...string) bool {
		if len(t) < len(ws) {
			return false
		}
		for i, w := range ws {
			if t[i] != w {
				return false
			}
		}
		return true
	}
	nameAfter := func(r []string) (string, []string, bool) {
		if len(r) > 0 && isID(r[0]) {
			return idOf(r[0]), r[1:], true
		}
		return "", r, false
	}
	switch {
	case has("CREATE", "TABLE"):
		r := skipWords(t[2:], "IF", "NOT", "EXISTS")
		if n, _, ok := nameAfter(r); ok {
			return []atom{{"+", "TABLE", n, ""}}, true
		}
	case has("DROP", "TABLE"):
		r := skipWords(t[2:], "IF", "EXISTS")
		if n, _, ok := nameAfter(r); ok {
			return []atom{{"-", "TABLE", n, ""}}, true
		}
	case has("CREATE", "INDEX"), has("CREATE", "UNIQUE", "INDEX"):
		r := t[2:]
		if t[1] == "UNIQUE" {
			r = t[3:]
		}
		r = skipWords(r, "CONCURRENTLY", "IF", "NOT", "EXISTS")
		if n, _, ok := nameAfter(r); ok {
			return []atom{{"+", "INDEX", baseName(n), ""}}, true
		}
	case has("DROP", "INDEX"):
		r := skipWords(t[2:], "CONCURRENTLY", "IF", "EXISTS")
		if n, _, ok := nameAfter(r); ok {
			return []atom{{"-", "INDEX", baseName(n), ""}}, true
		}
	case has("CREATE", "TYPE"):
		if n, _, ok := nameAfter(t[2:]); ok {
			return []atom{{"+", "TYPE", n, ""}}, true
		}
	case has("DROP", "TYPE"):
		r := skipWords(t[2:], "IF", "EXISTS")
		if n, _, ok := nameAfter(r); ok {
			return []atom{{"-", "TYPE", n, ""}}, true
		}
	case has("CREATE", "SCHEMA"), has("CREATE", "DATABASE"):
		r := skipWords(t[2:], "IF", "NOT", "EXISTS")
		if n, _, ok := nameAfter(r); ok {
			return []atom{{"+", "SCHEMA", n, ""}}, true
		}
	case has("DROP", "SCHEMA"), has("DROP", "DATABASE"):
		r := skipWords(t[2:], "IF", "EXISTS")
		if n, _, ok := nameAfter(r); ok {
			return []atom{{"-", "SCHEMA", n, ""}}, true
		}
	case has("RENAME", "TABLE"):
		if a, r, ok := nameAfter(t[2:]); ok && len(r) >= 2 && r[0] == "TO" && isID(r[1]) {
			return []atom{{"R", "TABLE", baseName(a), baseName(idOf(r[1]))}}, true
		}
	case has("ALTER", "INDEX"):
		if a, r, ok := nameAfter(t[2:]); ok && len(r) >= 3 && r[0] == "RENAME" && r[1] == "TO" && isID(r[2]) {
			return []atom{{"R", "INDEX", baseName(a), baseName(idOf(r[2]))}}, true
		}
	case has("ALTER", "TYPE"):
		if a, r, ok := nameAfter(t[2:]); ok {
			if len(r) >= 3 && r[0] == "RENAME" && r[1] == "TO" && isID(r[2]) {
				return []atom{{"R", "TYPE", baseName(a), baseName(idOf(r[2]))}}, true
			}
			if len(r) >= 2 && r[0] == "ADD" && r[1] == "VALUE" {
				return []atom{{"+", "VALUE", a, strings.Join(r[2:], " ")}}, true
			}
		}
	case has("COMMENT", "ON"):
		if len(t) >= 4 && isID(t[3]) {
			return []atom{{"~", "COMMENT-" + t[2], idOf(t[3]), ""}}, true
		}
	case has("ALTER", "TABLE"):
		tbl, r, ok := nameAfter(t[2:])
		if !ok {
			return nil, false
		}
		var as []atom
		for _, c := range splitClauses(r) {
			switch {
			case len(c) == 0: // "ALTER TABLE t" without clauses
			case len(c) >= 3 && c[0] == "RENAME" && c[1] == "TO" && isID(c[2]):
				as = append(as, atom{"R", "TABLE", baseName(tbl), baseName(idOf(c[2]))})
			case len(c) >= 5 && c[0] == "RENAME" && (c[1] == "COLUMN" || c[1] == "INDEX") && isID(c[2]) && c[3] == "TO" && isID(c[4]):
				as = append(as, atom{"R", c[1], tbl + "." + idOf(c[2]), tbl + "." + idOf(c[4])})
			case len(c) >= 3 && c[0] == "ADD" && c[1] == "COLUMN" && isID(c[2]):
				as = append(as, atom{"+", "COLUMN", tbl + "." + idOf(c[2]), ""})
			case len(c) >= 3 && c[0] == "DROP" && c[1] == "COLUMN" && isID(c[2]):
				as = append(as, atom{"-", "COLUMN", tbl + "." + idOf(c[2]), ""})
			case len(c) >= 3 && c[0] == "ADD" && c[1] == "INDEX" && isID(c[2]):
				as = append(as, atom{"+", "INDEX", idOf(c[2]), ""})
			case len(c) >= 4 && c[0] == "ADD" && c[1] == "UNIQUE" && c[2] == "INDEX" && isID(c[3]):
				as = append(as, atom{"+", "INDEX", idOf(c[3]), ""})
			case len(c) >= 3 && c[0] == "DROP" && c[1] == "INDEX" && isID(c[2]):
				as = append(as, atom{"-", "INDEX", idOf(c[2]), ""})
			case len(c) >= 3 && c[0] == "ADD" && c[1] == "CONSTRAINT" && isID(c[2]):
				as = append(as, atom{"+", "CONSTRAINT", constraintKey(tbl, idOf(c[2])), ""})
			case len(c) >= 3 && c[0] == "DROP" && (c[1] == "CONSTRAINT" || c[1] == "CHECK") && isID(c[2]):
				as = append(as, atom{"-", "CONSTRAINT", constraintKey(tbl, idOf(c[2])), ""})
			case len(c) >= 4 && c[0] == "DROP" && c[1] == "FOREIGN" && c[2] == "KEY" && isID(c[3]):
				as = append(as, atom{"-", "CONSTRAINT", constraintKey(tbl, idOf(c[3])), ""})
			case len(c) >= 2 && c[0] == "ADD" && (c[1] == "CHECK" || c[1] == "FOREIGN" || c[1] == "UNIQUE" && !(len(c) >= 3 && c[2] == "INDEX")):
				// a constraint without a name: the server generates one
				as = append(as, atom{"+", "CONSTRAINT", "<unnamed>", ""})
			case len(c) >= 3 && c[0] == "ADD" && c[1] == "PRIMARY" && c[2] == "KEY":
				as = append(as, atom{"+", "CONSTRAINT", "<pk>", ""})
			case len(c) >= 3 && c[0] == "DROP" && c[1] == "PRIMARY" && c[2] == "KEY":
				as = append(as, atom{"-", "CONSTRAINT", "<pk>", ""})
			case len(c) >= 3 && c[0] == "ALTER" && c[1] == "COLUMN" && isID(c[2]):
				// PostgreSQL: one clause per change kind of the column
				k := "COLUMN"
				r := c[3:]
				switch {
				case len(r) >= 1 && (r[0] == "TYPE" || r[0] == "SET" && len(r) >= 2 && r[1] == "DATA"):
					k = "COLUMN-TYPE"
				case len(r) >= 3 && (r[0] == "SET" || r[0] == "DROP") && r[1] == "NOT" && r[2] == "NULL":
					k = "COLUMN-NULL"
				case len(r) >= 2 && (r[0] == "SET" || r[0] == "DROP") && r[1] == "DEFAULT":
					k = "COLUMN-DEFAULT"
				case len(r) >= 2 && r[0] == "DROP" && r[1] == "EXPRESSION":
					k = "COLUMN-EXPRESSION"
				case len(r) >= 2 && (r[0] == "SET" || r[0] == "ADD") && r[1] == "GENERATED", len(r) >= 2 && r[0] == "DROP" && r[1] == "IDENTITY":
					k = "COLUMN-IDENTITY"
				}
				as = append(as, atom{"~", k, tbl + "." + idOf(c[2]), ""})
			case len(c) >= 3 && (c[0] == "MODIFY" || c[0] == "CHANGE") && c[1] == "COLUMN" && isID(c[2]):
				as = append(as, atom{"~", "COLUMN", tbl + "." + idOf(c[2]), ""})
			case len(c) >= 1 && (c[0] == "COMMENT" || c[0] == "AUTO_INCREMENT" || c[0] == "CHARSET" || c[0] == "COLLATE" || c[0] == "ENGINE"):
				as = append(as, atom{"~", "TABLE-ATTR", tbl, ""})
			default:
				return nil, false
			}
		}
		return as, true
	}
	return nil, false
}

// PostgreSQL names the primary-key constraint <table>_pkey.
func constraintKey(tbl, name string) string {
	if name == baseName(tbl)+"_pkey" {
		return "<pk>"
	}
	return name
}

func inverse(x atom) atom {
	switch x.op {
	case "+":
		return atom{"-", x.kind, x.a, x.b}
	case "-":
		return atom{"+", x.kind, x.a, x.b}
	case "R":
		return atom{"R", x.kind, x.b, x.a}
	}
	return x
}

func atomStrings(as []atom) []string {
	o := make([]string, len(as))
	for i, a := range as {
		o[i] = a.String()
	}
	sort.Strings(o)
	return o
}

// checkInverse: verdict "ok", "skip" (a statement form is unknown) or "bad" with a message.
func checkInverse(cmd string, revs []string) (string, string) {
	ca, ok := atomsOf(cmd)
	if !ok {
		return "skip", ""
	}
	var ra []atom
	for _, r := range revs {
		a, ok := atomsOf(r)
		if !ok {
			return "skip", ""
		}
		ra = append(ra, a...)
	}
	var want []atom
	for _, a := range ca {
		want = append(want, inverse(a))
	}
	w, g := atomStrings(want), atomStrings(ra)
	// DROP TABLE / DROP TYPE: the reverse may also re-create the indexes / comments of the object
	if len(ca) == 1 && ca[0].op == "-" && (ca[0].kind == "TABLE" || ca[0].kind == "TYPE") {
		var g2 []string
		seen := false
		for _, a := range ra {
			if a.String() == want[0].String() && !seen {
				seen = true
				continue
			}
			if a.op == "+" && a.kind == "INDEX" || a.op == "~" && strings.HasPrefix(a.kind, "COMMENT-") {
				continue
			}
			g2 = append(g2, a.String())
		}
		if seen && len(g2) == 0 {
			return "ok", ""
		}
		return "bad", "reverse of " + ca[0].String() + " touches " + strings.Join(g, " ")
	}
	if strings.Join(w, " ") != strings.Join(g, " ") {
		// the only discrepancy: table attributes the Cmd sets (COMMENT, AUTO_INCREMENT, CHARSET, ..) that
		// the reverse does not touch
		rest := append([]string(nil), w...)
		sub := true
		for _, x := range g {
			k := -1
			for i, y := range rest {
				if y == x {
					k = i
					break
				}
			}
			if k < 0 {
				sub = false
				break
			}
			rest = append(rest[:k], rest[k+1:]...)
		}
		if sub {
			only := true
			for _, y := range rest {
				if !strings.HasPrefix(y, "~TABLE-ATTR(") {
					only = false
				}
			}
			if only {
				return "attr", "Cmd sets table attributes its reverse does not touch: Cmd " + strings.Join(atomStrings(ca), " ") + ", reverse " + strings.Join(g, " ")
			}
		}
		return "bad", "Cmd touches " + strings.Join(atomStrings(ca), " ") + ", its reverse " + strings.Join(g, " ") + " (expected " + strings.Join(w, " ") + ")"
	}
	return "ok", ""
}

// modClauses: the column-modifying clauses (ALTER COLUMN / MODIFY COLUMN / CHANGE COLUMN) of an ALTER TABLE
// statement, each as its token text.  A reverse that holds a clause of its Cmd verbatim sets the column to
// the state the Cmd gave it: it restates the change, it does not undo it.
func modClauses(stmt string) []string {
	if !strings.HasPrefix(stmt, "ALTER TABLE ") {
		return nil
	}
	// the raw text, cut at the commas outside parentheses and quotes
	var parts []string
	depth, q, start := 0, byte(0), 0
	for i := 0; i < len(stmt); i++ {
		ch := stmt[i]
		switch {
		case q != 0:
			if ch == q {
				q = 0
			}
		case ch == '\'' || ch == '"' || ch == '`':
			q = ch
		case ch == '(':
			depth++
		case ch == ')':
			depth--
		case ch == ',' && depth == 0:
			parts = append(parts, stmt[start:i])
			start = i + 1
		}
	}
	parts = append(parts, stmt[start:])
	var o []string
	for k, p := range parts {
		p = strings.TrimSpace(strings.TrimSuffix(strings.TrimSpace(p), ";"))
		if k == 0 {
			at := -1
			for _, kw := range []string{" ALTER COLUMN ", " MODIFY COLUMN ", " CHANGE COLUMN "} {
				if j := strings.Index(p, kw); j >= 0 && (at < 0 || j < at) {
					at = j
				}
			}
			if at < 0 {
				continue
			}
			p = p[at+1:]
		}
		if strings.HasPrefix(p, "ALTER COLUMN ") || strings.HasPrefix(p, "MODIFY COLUMN ") || strings.HasPrefix(p, "CHANGE COLUMN ") {
			o = append(o, p)
		}
	}
	return o
}
