package main

// MySQL / PostgreSQL change-set descriptors and generator (copied from harness/cmd/qual/plan.go,
// which wrote them for C16; engines do not import each other).

import (
	"fmt"
	"strconv"
	"strings"

	"ariga.io/atlas/sql/postgres"
	"ariga.io/atlas/sql/schema"

	"verifharness/internal/rng"
)

func mkSchema(s *string) *schema.Schema {
	if s == nil {
		return nil
	}
	return &schema.Schema{Name: *s}
}

func sp(s string) *string { return &s }

// ---- descriptors (serialisable; the real schema.* values are built from them)

type dcol struct {
	name    string
	typ     string // int | text | bool | serial | enum
	enum    string // enum type name (typ == enum)
	eschema *string
	null    bool
	def     string // literal default ("" = none)
	comment string
}

type didx struct {
	name    string
	cols    []string
	unique  bool
	uconst  bool // PG: UNIQUE constraint (postgres.Constraint{T:"u"})
	comment string
}

type dfk struct {
	sym     string
	cols    []string
	ref     string // referenced table name
	rschema *string
	rcols   []string
}

type dchk struct{ name, expr string }

type dtab struct {
	schema  *string
	name    string
	cols    []dcol
	pk      []string
	idx     []didx
	fks     []dfk
	chks    []dchk
	comment string
}

type dsub struct {
	k      string // AC DC MC RC AI DI MI RI AF DF MF AK DK MK APK DPK MPK ATC MTC
	col    dcol
	col2   dcol // MC/RC: to
	chg    string
	idx    didx
	idx2   didx
	fk     dfk
	fk2    dfk
	chk    dchk
	chk2   dchk
	pk     []string
	pk2    []string
	cm, c2 string
}

type dchange struct {
	k       string // AT DT RT MT AO DO MO RO AS DS MS
	t       dtab
	t2      dtab
	subs    []dsub
	ename   string
	ename2  string
	eschema *string
	vals    []string
	vals2   []string
	sname   string
	flag    bool // IfExists / IfNotExists
}

// ---- building the real values

type world struct {
	pg     bool
	tables map[string]*schema.Table
	full   map[string]bool // built from its own descriptor (not a stub made for a reference)
}

func (w *world) colType(c dcol) *schema.ColumnType {
	ct := &schema.ColumnType{Null: c.null}
	switch c.typ {
	case "int":
		if w.pg {
			ct.Type = &schema.IntegerType{T: "integer"}
		} else {
			ct.Type = &schema.IntegerType{T: "int"}
		}
	case "text":
		if w.pg {
			ct.Type = &schema.StringType{T: "text"}
		} else {
			ct.Type = &schema.StringType{T: "varchar", Size: 64}
		}
	case "bool":
		if w.pg {
			ct.Type = &schema.BoolType{T: "boolean"}
		} else {
			ct.Type = &schema.BoolType{T: "bool"}
		}
	case "serial":
		ct.Type = &postgres.SerialType{T: "serial"}
	case "enum":
		ct.Type = &schema.EnumType{T: c.enum, Values: []string{"a", "b"}, Schema: mkSchema(c.eschema)}
	}
	return ct
}

func (w *world) column(c dcol) *schema.Column {
	col := &schema.Column{Name: c.name, Type: w.colType(c)}
	if c.def != "" {
		col.Default = &schema.Literal{V: c.def}
	}
	if c.comment != "" {
		col.Attrs = append(col.Attrs, &schema.Comment{Text: c.comment})
	}
	return col
}

func (w *world) index(t *schema.Table, i didx) *schema.Index {
	idx := &schema.Index{Name: i.name, Unique: i.unique || i.uconst, Table: t}
	for n, c := range i.cols {
		col, ok := t.Column(c)
		if !ok {
			col = &schema.Column{Name: c, Type: &schema.ColumnType{Type: &schema.IntegerType{T: "int"}}}
		}
		idx.Parts = append(idx.Parts, &schema.IndexPart{SeqNo: n, C: col})
	}
	if i.uconst && w.pg {
		idx.Attrs = append(idx.Attrs, postgres.UniqueConstraint(i.name))
	}
	if i.comment != "" {
		idx.Attrs = append(idx.Attrs, &schema.Comment{Text: i.comment})
	}
	return idx
}

func (w *world) fk(t *schema.Table, f dfk) *schema.ForeignKey {
	fk := &schema.ForeignKey{Symbol: f.sym, Table: t, OnDelete: schema.Cascade}
	for _, c := range f.cols {
		col, ok := t.Column(c)
		if !ok {
			col = &schema.Column{Name: c, Type: &schema.ColumnType{Type: &schema.IntegerType{T: "int"}, Null: true}}
		}
		fk.Columns = append(fk.Columns, col)
	}
	ref, ok := w.tables[f.ref]
	if !ok {
		ref = &schema.Table{Name: f.ref, Schema: mkSchema(f.rschema)}
		for _, c := range f.rcols {
			ref.Columns = append(ref.Columns, &schema.Column{Name: c, Type: &schema.ColumnType{Type: &schema.IntegerType{T: "int"}}})
		}
		w.tables[f.ref] = ref
	}
	fk.RefTable = ref
	for _, c := range f.rcols {
		col, ok := ref.Column(c)
		if !ok {
			col = &schema.Column{Name: c, Type: &schema.ColumnType{Type: &schema.IntegerType{T: "int"}}}
		}
		fk.RefColumns = append(fk.RefColumns, col)
	}
	return fk
}

func (w *world) check(c dchk) *schema.Check { return &schema.Check{Name: c.name, Expr: c.expr} }

func (w *world) pkey(t *schema.Table, cols []string) *schema.Index {
	return w.index(t, didx{name: "", cols: cols})
}

// table builds (once per name) the real table of a descriptor.
func (w *world) table(d dtab) *schema.Table {
	if t, ok := w.tables[d.name]; ok && (w.full[d.name] || len(d.cols) == 0) {
		return t
	}
	t := &schema.Table{Name: d.name, Schema: mkSchema(d.schema)}
	w.tables[d.name] = t
	w.full[d.name] = len(d.cols) > 0
	for _, c := range d.cols {
		t.Columns = append(t.Columns, w.column(c))
	}
	if len(d.pk) > 0 {
		t.PrimaryKey = w.pkey(t, d.pk)
	}
	for _, i := range d.idx {
		t.Indexes = append(t.Indexes, w.index(t, i))
	}
	for _, c := range d.chks {
		t.Attrs = append(t.Attrs, w.check(c))
	}
	if d.comment != "" {
		t.Attrs = append(t.Attrs, &schema.Comment{Text: d.comment})
	}
	return t
}

func (w *world) linkFKs(d dtab) {
	t := w.tables[d.name]
	if len(t.ForeignKeys) > 0 {
		return
	}
	for _, f := range d.fks {
		t.ForeignKeys = append(t.ForeignKeys, w.fk(t, f))
	}
}

func kindOf(s string) schema.ChangeKind {
	switch s {
	case "type":
		return schema.ChangeType
	case "null":
		return schema.ChangeNull
	case "default":
		return schema.ChangeDefault
	case "comment":
		return schema.ChangeComment
	case "type+null":
		return schema.ChangeType | schema.ChangeNull
	case "null+comment":
		return schema.ChangeNull | schema.ChangeComment
	}
	return schema.NoChange
}

func (w *world) sub(t *schema.Table, s dsub) schema.Change {
	switch s.k {
	case "AC":
		return &schema.AddColumn{C: w.column(s.col)}
	case "DC":
		return &schema.DropColumn{C: w.column(s.col)}
	case "MC":
		return &schema.ModifyColumn{From: w.column(s.col), To: w.column(s.col2), Change: kindOf(s.chg)}
	case "RC":
		return &schema.RenameColumn{From: w.column(s.col), To: w.column(s.col2)}
	case "AI":
		return &schema.AddIndex{I: w.index(t, s.idx)}
	case "DI":
		return &schema.DropIndex{I: w.index(t, s.idx)}
	case "MI":
		k := schema.ChangeParts
		if s.chg == "comment" {
			k = schema.ChangeComment
		} else if s.chg == "parts+comment" {
			k |= schema.ChangeComment
		}
		return &schema.ModifyIndex{From: w.index(t, s.idx), To: w.index(t, s.idx2), Change: k}
	case "RI":
		return &schema.RenameIndex{From: w.index(t, s.idx), To: w.index(t, s.idx2)}
	case "AF":
		return &schema.AddForeignKey{F: w.fk(t, s.fk)}
	case "DF":
		return &schema.DropForeignKey{F: w.fk(t, s.fk)}
	case "MF":
		return &schema.ModifyForeignKey{From: w.fk(t, s.fk), To: w.fk(t, s.fk2), Change: schema.ChangeRefTable}
	case "AK":
		return &schema.AddCheck{C: w.check(s.chk)}
	case "DK":
		return &schema.DropCheck{C: w.check(s.chk)}
	case "MK":
		return &schema.ModifyCheck{From: w.check(s.chk), To: w.check(s.chk2)}
	case "APK":
		return &schema.AddPrimaryKey{P: w.pkey(t, s.pk)}
	case "DPK":
		return &schema.DropPrimaryKey{P: w.pkey(t, s.pk)}
	case "MPK":
		return &schema.ModifyPrimaryKey{From: w.pkey(t, s.pk), To: w.pkey(t, s.pk2), Change: schema.ChangeParts}
	case "ATC":
		return &schema.AddAttr{A: &schema.Comment{Text: s.cm}}
	case "MTC":
		return &schema.ModifyAttr{From: &schema.Comment{Text: s.cm}, To: &schema.Comment{Text: s.c2}}
	}
	panic("sub " + s.k)
}

func (w *world) change(c dchange) schema.Change {
	switch c.k {
	case "AT":
		t := w.table(c.t)
		w.linkFKs(c.t)
		ch := &schema.AddTable{T: t}
		if c.flag {
			ch.Extra = append(ch.Extra, &schema.IfNotExists{})
		}
		return ch
	case "DT":
		t := w.table(c.t)
		w.linkFKs(c.t)
		ch := &schema.DropTable{T: t}
		if c.flag {
			ch.Extra = append(ch.Extra, &schema.IfExists{})
		}
		return ch
	case "RT":
		return &schema.RenameTable{From: w.table(c.t), To: w.table(c.t2)}
	case "MT":
		t := w.table(c.t)
		w.linkFKs(c.t)
		ch := &schema.ModifyTable{T: t}
		for _, s := range c.subs {
			ch.Changes = append(ch.Changes, w.sub(t, s))
		}
		return ch
	case "AO":
		return &schema.AddObject{O: &schema.EnumType{T: c.ename, Values: c.vals, Schema: mkSchema(c.eschema)}}
	case "DO":
		return &schema.DropObject{O: &schema.EnumType{T: c.ename, Values: c.vals, Schema: mkSchema(c.eschema)}}
	case "MO":
		return &schema.ModifyObject{
			From: &schema.EnumType{T: c.ename, Values: c.vals, Schema: mkSchema(c.eschema)},
			To:   &schema.EnumType{T: c.ename, Values: c.vals2, Schema: mkSchema(c.eschema)},
		}
	case "RO":
		return &schema.RenameObject{
			From: &schema.EnumType{T: c.ename, Values: c.vals, Schema: mkSchema(c.eschema)},
			To:   &schema.EnumType{T: c.ename2, Values: c.vals, Schema: mkSchema(c.eschema)},
		}
	case "AS":
		return &schema.AddSchema{S: schema.New(c.sname)}
	case "DS":
		return &schema.DropSchema{S: schema.New(c.sname)}
	case "MS":
		s := schema.New(c.sname)
		return &schema.ModifySchema{S: s, Changes: []schema.Change{&schema.AddAttr{A: &schema.Comment{Text: "note"}}}}
	}
	panic("change " + c.k)
}

// ---- generator

type gen struct {
	r       *rng.R
	skel    bool // only the fragment Qual/RefSkeleton.v models
	acyclic bool // foreign keys only point to tables drawn earlier
	pg      bool
	marker  string
	other   string
	n       int
}

func (g *gen) name(p string) string {
	g.n++
	return fmt.Sprintf("%s%c%d", p, 'a'+byte(g.r.Intn(6)), g.n)
}

func (g *gen) col(sch *string) dcol {
	c := dcol{name: g.name("c_"), typ: rng.Pick(g.r, []string{"int", "int", "text", "bool"}), null: g.r.Bool()}
	if g.r.Chance(1, 4) {
		c.typ, c.enum, c.eschema = "enum", g.name("e_"), sch
	}
	if g.r.Chance(1, 4) {
		c.comment = "note " + strconv.Itoa(g.r.Intn(100))
	}
	if g.r.Chance(1, 4) && c.typ == "int" {
		c.def = strconv.Itoa(g.r.Intn(50))
	}
	return c
}

func (g *gen) idx(t dtab) didx {
	i := didx{name: g.name("i_"), unique: g.r.Chance(1, 3)}
	n := 1 + g.r.Intn(2)
	for k := 0; k < n && k < len(t.cols); k++ {
		i.cols = append(i.cols, t.cols[(k+g.r.Intn(len(t.cols)))%len(t.cols)].name)
	}
	if g.pg && g.r.Chance(1, 5) {
		i.uconst = true
	}
	if g.r.Chance(1, 4) {
		i.comment = "idx note"
	}
	return i
}

func (g *gen) tab(sch *string, prefix string) dtab {
	t := dtab{schema: sch, name: g.name(prefix)}
	for k := 1 + g.r.Intn(3); k > 0; k-- {
		t.cols = append(t.cols, g.col(sch))
	}
	t.cols[0].typ, t.cols[0].null, t.cols[0].def = "int", false, ""
	if g.r.Chance(2, 3) {
		t.pk = []string{t.cols[0].name}
	}
	for k := g.r.Intn(3); k > 0; k-- {
		t.idx = append(t.idx, g.idx(t))
	}
	if g.r.Chance(1, 3) {
		t.chks = append(t.chks, dchk{g.name("k_"), "(" + t.cols[0].name + " > 0)"})
	}
	if g.r.Chance(1, 3) {
		t.comment = "table note"
	}
	return t
}

func (g *gen) fkTo(t, ref dtab) dfk {
	return dfk{sym: g.name("f_"), cols: []string{t.cols[len(t.cols)-1].name}, ref: ref.name, rschema: ref.schema, rcols: []string{ref.cols[0].name}}
}

func (g *gen) subs(t dtab, others []dtab) []dsub {
	var ss []dsub
	kinds := []string{"AC", "DC", "MC", "MC", "RC", "AI", "DI", "MI", "RI", "AF", "DF", "MF", "AK", "DK", "MK", "APK", "DPK", "MPK", "ATC", "MTC"}
	for k := 1 + g.r.Intn(3+2*map[bool]int{true: 1}[g.skel]); k > 0; k-- {
		s := dsub{k: rng.Pick(g.r, kinds)}
		c0 := t.cols[g.r.Intn(len(t.cols))]
		ref := t
		if len(others) > 0 {
			ref = others[g.r.Intn(len(others))]
		} else if g.acyclic && (s.k == "AF" || s.k == "DF" || s.k == "MF") {
			s.k = "AK"
		}
		switch s.k {
		case "AC":
			s.col = g.col(t.schema)
		case "DC":
			s.col = c0
		case "MC":
			s.col, s.col2 = c0, c0
			s.chg = rng.Pick(g.r, []string{"type", "null", "default", "comment", "type+null", "null+comment"})
			if strings.Contains(s.chg, "type") {
				switch {
				case g.pg && g.r.Chance(1, 3) && c0.typ == "int" && !c0.null:
					s.col2.typ, s.col2.def = "serial", ""
				case g.r.Chance(1, 3):
					s.col2.typ, s.col2.enum, s.col2.eschema, s.col2.def = "enum", g.name("e_"), t.schema, ""
				default:
					s.col2.typ, s.col2.def = rng.Pick(g.r, []string{"int", "text"}), ""
					if s.col2.typ == c0.typ {
						s.col2.typ = "bool"
					}
				}
			}
			if strings.Contains(s.chg, "null") {
				s.col2.null = !c0.null
			}
			if s.chg == "default" {
				if g.r.Bool() || c0.def == "" {
					s.col2.typ, s.col.typ, s.col2.def = "int", "int", strconv.Itoa(60+g.r.Intn(30))
				} else {
					s.col2.def = ""
				}
			}
			if strings.Contains(s.chg, "comment") {
				s.col2.comment = "new note"
			}
			if s.col2.typ == "serial" {
				s.col2.null = false
			}
		case "RC":
			s.col, s.col2 = c0, c0
			s.col2.name = g.name("c_")
		case "AI", "DI":
			s.idx = g.idx(t)
		case "MI":
			s.idx = g.idx(t)
			s.idx2 = s.idx
			s.chg = rng.Pick(g.r, []string{"parts", "comment", "parts+comment"})
			if strings.Contains(s.chg, "parts") {
				s.idx2.cols = []string{t.cols[0].name}
			}
			if strings.Contains(s.chg, "comment") {
				s.idx.comment, s.idx2.comment = "old idx note", "new idx note"
			} else {
				s.idx2.comment = s.idx.comment
			}
		case "RI":
			s.idx = g.idx(t)
			s.idx2 = s.idx
			s.idx2.name = g.name("i_")
		case "AF", "DF":
			s.fk = g.fkTo(t, ref)
		case "MF":
			s.fk = g.fkTo(t, ref)
			s.fk2 = s.fk
			s.fk2.rcols = []string{ref.cols[len(ref.cols)-1].name}
		case "AK", "DK":
			s.chk = dchk{g.name("k_"), "(" + c0.name + " <> 3)"}
			if g.r.Chance(1, 6) && s.k == "AK" {
				s.chk.name = ""
			}
		case "MK":
			s.chk = dchk{g.name("k_"), "(" + c0.name + " <> 3)"}
			s.chk2 = dchk{s.chk.name, "(" + c0.name + " <> 4)"}
		case "APK", "DPK":
			s.pk = []string{t.cols[0].name}
		case "MPK":
			s.pk, s.pk2 = []string{t.cols[0].name}, []string{t.cols[len(t.cols)-1].name}
		case "ATC":
			s.cm = "added note"
		case "MTC":
			s.cm, s.c2 = "old note", "new note"
		}
		ss = append(ss, s)
	}
	return ss
}

// changeSet draws a change set on the connected schema (named marker).  cross != "" adds
// one change that lives in / names the other schema.
func (g *gen) changeSet(sch *string, cross string) ([]dchange, string) {
	var cs []dchange
	var tabs []dtab
	for k := 1 + g.r.Intn(3); k > 0; k-- {
		tabs = append(tabs, g.tab(sch, "t_"))
	}
	// foreign keys between the tables.  acyclic: only to tables drawn earlier (no
	// DetachCycles statements, which are M-SORT's, in the skeleton stage's sorted modes).
	for i := range tabs {
		if g.r.Chance(1, 2) {
			j := g.r.Intn(len(tabs))
			if g.acyclic {
				if i == 0 {
					continue
				}
				j = g.r.Intn(i)
			}
			tabs[i].fks = append(tabs[i].fks, g.fkTo(tabs[i], tabs[j]))
		}
	}
	desc := []string{}
	for k := 1 + g.r.Intn(4); k > 0; k-- {
		ti := g.r.Intn(len(tabs))
		t := tabs[ti]
		kinds := []string{"AT", "AT", "DT", "RT", "MT", "MT", "MT", "MT"}
		if g.pg {
			kinds = append(kinds, "AO", "DO", "MO", "RO")
		}
		c := dchange{k: rng.Pick(g.r, kinds), t: t, flag: g.r.Chance(1, 4)}
		switch c.k {
		case "RT":
			c.t2 = dtab{schema: t.schema, name: g.name("t_"), cols: t.cols}
		case "MT":
			if g.acyclic {
				c.subs = g.subs(t, tabs[:ti])
			} else {
				c.subs = g.subs(t, tabs)
			}
		case "AO", "DO", "MO", "RO":
			c.ename, c.ename2, c.eschema = g.name("e_"), g.name("e_"), sch
			c.vals, c.vals2 = []string{"a", "b"}, []string{"a", "b", "c"}
		}
		cs = append(cs, c)
		desc = append(desc, c.k)
	}
	oth := sp(g.other)
	switch cross {
	case "table":
		cs = append(cs, dchange{k: rng.Pick(g.r, []string{"AT", "DT", "MT"}), t: g.tab(oth, "t_")})
		last := &cs[len(cs)-1]
		if last.k == "MT" {
			last.subs = g.subs(last.t, nil)
		}
	case "enum":
		t := g.tab(sch, "t_")
		t.cols = append(t.cols, dcol{name: g.name("c_"), typ: "enum", enum: g.name("e_"), eschema: oth})
		cs = append(cs, dchange{k: "AT", t: t})
	case "object":
		cs = append(cs, dchange{k: "AO", ename: g.name("e_"), eschema: oth, vals: []string{"a"}})
	case "rename":
		t := g.tab(sch, "t_")
		cs = append(cs, dchange{k: "RT", t: t, t2: dtab{schema: oth, name: g.name("t_"), cols: t.cols}})
	case "addschema":
		cs = append(cs, dchange{k: "AS", sname: g.marker})
	case "dropschema":
		cs = append(cs, dchange{k: "DS", sname: g.marker})
	case "modifyschema":
		cs = append(cs, dchange{k: "MS", sname: g.marker})
	}
	if cross != "" {
		// the cross change is not always last
		if g.r.Bool() {
			cs[0], cs[len(cs)-1] = cs[len(cs)-1], cs[0]
		}
		desc = append(desc, "cross="+cross)
	}
	return cs, strings.Join(desc, ",")
}

