package main

import (
	"fmt"
	"strings"

	"verifharness/internal/out"
)

func fromLastCkpt(d dirSpec) []string {
	s := d.sorted()
	start := 0
	for i, f := range s {
		if f.Ckpt {
			start = i
		}
	}
	var v []string
	for _, f := range s[start:] {
		v = append(v, f.Ver)
	}
	return v
}

func eqs(a, b []string) bool {
	if len(a) != len(b) {
		return false
	}
	for i := range a {
		if a[i] != b[i] {
			return false
		}
	}
	return true
}

func has(l []string, x string) bool {
	for _, y := range l {
		if y == x {
			return true
		}
	}
	return false
}

func rowOf(revs []revRow, v string) *revRow {
	for i := range revs {
		if revs[i].Ver == v {
			return &revs[i]
		}
	}
	return nil
}

// oracle evaluates the documented agreement on the CLI's own answers (never on the model's).
func oracle(w *out.W, sc scenario, recs []stepRec) {
	nontrivial := false
	// describe the history up to step i
	desc := func(i int) string {
		var b strings.Builder
		fmt.Fprintf(&b, "start: dir=%s database=%s;", sc.dir, map[bool]string{false: "never touched, empty", true: "never touched, holds table pre_existing"}[sc.dirty])
		for k := 1; k <= i; k++ {
			fmt.Fprintf(&b, " %d) %s", k, recs[k].op)
			if recs[k].apply != nil {
				fmt.Fprintf(&b, " -> %s", recs[k].apply.Plan)
				if recs[k].apply.Failed != "" {
					fmt.Fprintf(&b, " (file %s failed)", recs[k].apply.Failed)
				}
			}
			if recs[k].set != nil {
				fmt.Fprintf(&b, " -> %s", recs[k].set.Text)
			}
			b.WriteString(";")
		}
		fmt.Fprintf(&b, " now dir=%s database=%s `migrate status`: %s", recs[i].dir, recs[i].after, recs[i].status.Text)
		return b.String()
	}
	for i, rec := range recs {
		S := rec.status
		if S.Err == "not-asked" {
			continue
		}
		st := rec.after
		dir := rec.dir.sorted()
		if S.Err == "panic" || (rec.apply != nil && rec.apply.Plan == "panic") || (rec.set != nil && rec.set.Text == "set=panic") {
			w.Violation(sc.id, "panic", "a command panicked: "+desc(i))
			return
		}
		var last *revRow
		if len(st.Revs) > 0 {
			last = &st.Revs[len(st.Revs)-1]
		}
		if st.HasTable && last != nil && S.OK {
			nontrivial = true
		}
		// ---- apply agrees with the status printed just before it --------------------------
		if rec.op != nil && rec.op.Kind == "apply" {
			o, a, before, prev := rec.op, rec.apply, rec.before, recs[i-1].status
			pdir := recs[i-1].dir.sorted()
			var exp []string
			check := true
			switch {
			case len(before.Revs) == 0 && o.Baseline != "":
				found := false
				for _, f := range pdir {
					if !f.Ckpt && f.Ver == o.Baseline {
						found = true
					}
				}
				if !found {
					if a.Plan != "baselinenotfound" {
						w.Violation(sc.id, "baseline", "unknown baseline version not refused: "+desc(i))
						return
					}
					check = false
				}
				for _, f := range pdir {
					if !f.Ckpt && f.Ver > o.Baseline {
						exp = append(exp, f.Ver)
					}
				}
			case len(before.Revs) == 0 && before.Dirty && !o.AllowDirty:
				if a.Plan != "notclean" {
					w.Violation(sc.id, "dirty-not-refused", "first run on a non-clean database was not refused: "+desc(i))
					return
				}
				check = false
			case len(before.Revs) == 0:
				exp = fromLastCkpt(pdir)
			case !prev.OK:
				check = false
			default:
				ooo, pend := vers(prev.J.OutOfOrder), vers(prev.J.Pending)
				switch o.Order {
				case "linear":
					if len(ooo) > 0 {
						if a.Plan != "nonlinear:"+hexes(ooo) {
							w.Violation(sc.id, "out-of-order-not-rejected", fmt.Sprintf("status listed out-of-order files %v but linear apply answered %s: %s", ooo, a.Plan, desc(i)))
							return
						}
						check = false
					}
					exp = pend
				case "linear-skip":
					exp = pend
				case "non-linear":
					exp = append(append([]string{}, ooo...), pend...)
				}
			}
			if check {
				full := exp
				if o.N > 0 && o.N < len(exp) {
					exp = exp[:o.N]
				}
				want := "nopending"
				if len(exp) > 0 {
					want = "files:" + hexes(exp)
				}
				if a.Plan != want {
					cls := "status-apply-disagree"
					if o.N > 0 && len(before.Revs) > 0 {
						cls = "apply-n-not-first-n"
					}
					w.Violation(sc.id, cls, fmt.Sprintf("status before the apply listed %v (documented start for this history), `%s` ran %v: %s", full, o, a.Planned, desc(i)))
					return
				}
				if !o.DryRun && a.IsPlan && a.Failed == "" {
					for _, v := range exp {
						r, f := rowOf(st.Revs, v), recs[i-1].dir.find(v)
						if r == nil || f == nil || r.Applied != r.Total || r.Total != f.NStmts {
							w.Violation(sc.id, "applied-not-recorded", fmt.Sprintf("file %s ran but its revision is not complete: %s", v, desc(i)))
							return
						}
					}
				}
				if !o.DryRun {
					for _, r := range before.Revs {
						if has(exp, r.Ver) {
							continue
						}
						if n := rowOf(st.Revs, r.Ver); n == nil || *n != r {
							w.Violation(sc.id, "unplanned-revision-changed", fmt.Sprintf("revision %s changed although the file was not selected: %s", r.Ver, desc(i)))
							return
						}
					}
				}
			}
		}
		// ---- set ------------------------------------------------------------------------------
		if rec.op != nil && rec.op.Kind == "set" {
			o, before, prev := rec.op, rec.before, recs[i-1].status
			V := o.Arg
			if V == "" && len(dir) > 0 {
				V = dir[len(dir)-1].Ver
			}
			known := o.Arg == "" || rec.dir.find(o.Arg) != nil
			switch {
			case rec.set.OK && !known:
				w.Violation(sc.id, "set-accepted-unknown", "set accepted a version that is not in the directory: "+desc(i))
				return
			case !rec.set.OK && known && !(o.Arg == "" && len(before.Revs) == 0):
				w.Violation(sc.id, "set-refused", "set refused a version of the directory: "+desc(i))
				return
			}
			if rec.set.OK {
				for _, r := range st.Revs {
					if r.Ver <= V && r.Applied != r.Total {
						w.Violation(sc.id, "set-leaves-partial-row", fmt.Sprintf("after `set %s` revision %s is still %d/%d: %s", V, r.Ver, r.Applied, r.Total, desc(i)))
						return
					}
				}
				// "set-version": afterwards V is the recorded current version
				if rec.dir.find(V) != nil {
					if r := rowOf(st.Revs, V); r == nil {
						w.Violation(sc.id, "set-version-not-recorded", fmt.Sprintf("`set %s` succeeded but no revision of %s is recorded afterwards: %s", V, V, desc(i)))
						return
					}
				}
				for _, r := range st.Revs {
					if r.Ver > V {
						w.Violation(sc.id, "set-keeps-newer", fmt.Sprintf("revision %s > %s survived set: %s", r.Ver, V, desc(i)))
						return
					}
				}
				if S.OK {
					for _, v := range vers(S.J.Pending) {
						if v <= V {
							why := ""
							if b := rowOf(before.Revs, v); b != nil && v == V && b.Applied < b.Total {
								why = fmt.Sprintf("set on a partially applied revision (%s was %d/%d): ", v, b.Applied, b.Total)
							}
							w.Violation(sc.id, "set-leaves-pending", fmt.Sprintf("%safter `set %s` version %s is still pending: %s", why, V, v, desc(i)))
							return
						}
					}
					if prev.OK {
						for _, v := range vers(S.J.OutOfOrder) {
							if v <= V && !has(vers(prev.J.OutOfOrder), v) {
								w.Violation(sc.id, "set-new-out-of-order", fmt.Sprintf("after `set %s` version %s became out of order: %s", V, v, desc(i)))
								return
							}
						}
					}
				}
			}
		}
		// ---- status itself --------------------------------------------------------------------------
		if !S.OK {
			lastGone := last != nil && last.Applied < last.Total && rec.dir.find(last.Ver) == nil
			switch {
			case (strings.HasPrefix(S.Err, "missing:") || strings.HasPrefix(S.Err, "filenotfound:")) && lastGone:
			default:
				w.Violation(sc.id, "status-failed", "status gave no answer: "+desc(i))
				return
			}
			continue
		}
		pend, ooo := vers(S.J.Pending), vers(S.J.OutOfOrder)
		if !st.HasTable || last == nil {
			// first run: the latest checkpoint (and only it) is the starting point
			if want := fromLastCkpt(dir); !eqs(pend, want) || len(ooo) > 0 {
				w.Violation(sc.id, "fresh-checkpoint-start", fmt.Sprintf("no revision recorded: status must list %v (from the latest checkpoint), `migrate apply` starts there: %s", want, desc(i)))
				return
			}
		}
		for _, v := range append(append([]string{}, pend...), ooo...) {
			if r := rowOf(st.Revs, v); r != nil && r.Applied == r.Total {
				w.Violation(sc.id, "applied-again", fmt.Sprintf("status lists the fully applied version %s: %s", v, desc(i)))
				return
			}
		}
		if last != nil {
			for _, f := range dir {
				if !f.Ckpt && f.Ver > last.Ver && !has(pend, f.Ver) {
					w.Violation(sc.id, "newer-not-pending", fmt.Sprintf("version %s is newer than the last revision but not pending: %s", f.Ver, desc(i)))
					return
				}
			}
			for k := range st.Revs {
				r := &st.Revs[k]
				if r.Applied >= r.Total || r.Kind&4 != 0 || rec.dir.find(r.Ver) == nil {
					continue
				}
				if r != last {
					if !has(pend, r.Ver) && !has(ooo, r.Ver) {
						w.Violation(sc.id, "nonlinear-partial-not-resumed", fmt.Sprintf("revision %s is partially applied (%d/%d) but not the greatest one, and is never resumed: %s", r.Ver, r.Applied, r.Total, desc(i)))
						return
					}
				} else if len(pend) == 0 || pend[0] != r.Ver {
					w.Violation(sc.id, "partial-not-first", fmt.Sprintf("the partially applied file %s is not the first pending one: %s", r.Ver, desc(i)))
					return
				}
			}
		}
		okWant := len(pend) == 0 && len(ooo) == 0
		if (S.J.Status == "OK") != okWant || (S.J.Status != "OK" && S.J.Status != "PENDING") ||
			(len(ooo) == 0 && len(pend) > 0 && S.J.Next != pend[0]) {
			w.Violation(sc.id, "status-inconsistent", "Status / Next do not describe the pending list: "+desc(i))
			return
		}
		if len(ooo) == 0 {
			wc, wt := 0, 0
			if last != nil && last.Applied < last.Total && last.Kind&4 == 0 {
				if f := rec.dir.find(last.Ver); f != nil {
					wc, wt = last.Applied, f.NStmts
				}
			}
			if S.J.Count != wc || S.J.Total != wt {
				w.Violation(sc.id, "status-count", fmt.Sprintf("Count/Total = %d/%d, the last revision and its file say %d/%d: %s", S.J.Count, S.J.Total, wc, wt, desc(i)))
				return
			}
		}
	}
	if nontrivial {
		w.NonTrivial(sc.id)
	}
}
