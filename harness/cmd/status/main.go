// Command status is the CLI agreement stage of C11: it drives the real
// `atlas migrate status | apply [n] | set [v]` binary ($ATLAS_BIN) on SQLite
// files through real operation sequences, reads the revisions table back with
// an independent SQLite client, prints every question put to the CLI as a
// self-contained query for the extracted model (directory + observed database
// state + command), and evaluates the property's last sentence -- "status,
// apply-with-count and set-version agree with that decision" -- directly on
// what the CLI did.
package main

import (
	"encoding/json"
	"flag"
	"fmt"
	"os"
	"path/filepath"
	"regexp"
	"sort"
	"strings"
	"sync"
	"time"

	"verifharness/internal/clirun"
	"verifharness/internal/execrun"
	"verifharness/internal/out"
	"verifharness/internal/rng"
)

// ---- directories -------------------------------------------------------------

type fileSpec struct {
	Ver    string
	Ckpt   bool
	NStmts int
	Bad    int // index of the statement that fails, -1 = none
}

func (f fileSpec) name() string { return f.Ver + "_f.sql" }

func (f fileSpec) stmts() []string {
	var s []string
	for i := 0; i < f.NStmts; i++ {
		if i == f.Bad {
			s = append(s, fmt.Sprintf("INSERT INTO missing_tbl VALUES (%s%d);", f.Ver, i))
		} else {
			s = append(s, fmt.Sprintf("CREATE TABLE IF NOT EXISTS s_%s_%d (n INTEGER);", f.Ver, i))
		}
	}
	return s
}

func (f fileSpec) content() string {
	var b strings.Builder
	if f.Ckpt {
		b.WriteString(execrun.CkptHeader(f.name()))
	}
	for _, s := range f.stmts() {
		b.WriteString(s + "\n")
	}
	if f.NStmts == 0 {
		b.WriteString("-- nothing to execute in this version\n")
	}
	return b.String()
}

type dirSpec []fileSpec

func (d dirSpec) sorted() dirSpec {
	c := append(dirSpec{}, d...)
	sort.Slice(c, func(i, j int) bool { return c[i].name() < c[j].name() })
	return c
}

func (d dirSpec) find(v string) *fileSpec {
	for i := range d {
		if d[i].Ver == v {
			return &d[i]
		}
	}
	return nil
}

func (d dirSpec) String() string {
	var p []string
	for _, f := range d.sorted() {
		s := f.Ver
		if f.Ckpt {
			s += "(ckpt)"
		}
		if f.Bad >= 0 {
			s += fmt.Sprintf("(bad@%d/%d)", f.Bad, f.NStmts)
		}
		p = append(p, s)
	}
	return "[" + strings.Join(p, " ") + "]"
}

// tokens: what Dir.Files() returns, as the model's input.
func (d dirSpec) tokens() []string {
	s := d.sorted()
	t := []string{fmt.Sprint(len(s))}
	for _, f := range s {
		ck := "0"
		if f.Ckpt {
			ck = "1"
		}
		t = append(t, execrun.Hex(f.Ver), ck, fmt.Sprint(f.NStmts))
		for _, st := range f.stmts() {
			t = append(t, execrun.Hex(st))
		}
	}
	return t
}

// ---- operations ----------------------------------------------------------------

type op struct {
	Kind       string // apply | set | add | del | fix | grow
	N          int
	Order      string
	TxMode     string
	AllowDirty bool
	Baseline   string
	DryRun     bool
	Arg        string // set: version, "" = no argument
	Files      []fileSpec // add
	Ver        string
}

func (o op) String() string {
	switch o.Kind {
	case "apply":
		s := "apply"
		if o.N > 0 {
			s += fmt.Sprint(" ", o.N)
		}
		s += " --exec-order " + o.Order + " --tx-mode " + o.TxMode
		if o.AllowDirty {
			s += " --allow-dirty"
		}
		if o.Baseline != "" {
			s += " --baseline " + o.Baseline
		}
		if o.DryRun {
			s += " --dry-run"
		}
		return s
	case "set":
		return "set " + o.Arg
	case "add":
		return "add " + dirSpec(o.Files).String()
	case "del":
		return "del " + o.Ver
	case "fix":
		return "fix " + o.Ver
	case "grow":
		return "grow " + o.Ver
	}
	return o.Kind
}

type scenario struct {
	id    string
	fam   string
	quiet bool // no status on the never-touched database (the [first] family asks it for every directory)
	dirty bool
	dir   dirSpec
	ops   []op
}

// ---- observed database state ------------------------------------------------------

type revRow struct {
	Ver            string
	Applied, Total int
	Err            bool
	Kind           int
}

type dbState struct {
	HasTable bool
	Dirty    bool
	Revs     []revRow // ordered by version
}

func observe(db string) (dbState, error) {
	var st dbState
	if _, err := os.Stat(db); err != nil {
		return st, nil
	}
	tabs, err := clirun.Query(db, "SELECT name FROM sqlite_master WHERE type='table' AND name NOT LIKE 'sqlite_%'")
	if err != nil {
		return st, err
	}
	for _, t := range tabs {
		if t == "atlas_schema_revisions" {
			st.HasTable = true
		} else {
			st.Dirty = true
		}
	}
	if !st.HasTable {
		return st, nil
	}
	rows, err := clirun.Query(db, "SELECT version, applied, total, ifnull(error,''), type FROM atlas_schema_revisions ORDER BY version")
	if err != nil {
		return st, err
	}
	for _, r := range rows {
		p := strings.Split(r, "|")
		if len(p) < 5 {
			return st, fmt.Errorf("revision row %q", r)
		}
		var rr revRow
		rr.Ver = p[0]
		fmt.Sscan(p[1], &rr.Applied)
		fmt.Sscan(p[2], &rr.Total)
		rr.Err = strings.Join(p[3:len(p)-1], "|") != ""
		fmt.Sscan(p[len(p)-1], &rr.Kind)
		st.Revs = append(st.Revs, rr)
	}
	return st, nil
}

func b2s(b bool) string {
	if b {
		return "1"
	}
	return "0"
}

func (s dbState) tokens() []string {
	t := []string{b2s(s.HasTable), b2s(s.Dirty), fmt.Sprint(len(s.Revs))}
	for _, r := range s.Revs {
		t = append(t, execrun.Hex(r.Ver), fmt.Sprint(r.Applied), fmt.Sprint(r.Total), b2s(r.Err), fmt.Sprint(r.Kind))
	}
	return t
}

func showTable(revs []revRow) string {
	var p []string
	for _, r := range revs {
		p = append(p, fmt.Sprintf("%s:%d:%d:%s:%d", execrun.Hex(r.Ver), r.Applied, r.Total, b2s(r.Err), r.Kind))
	}
	return strings.Join(p, " ")
}

func (s dbState) String() string {
	if !s.HasTable {
		return fmt.Sprintf("{no revisions table, dirty=%v}", s.Dirty)
	}
	var p []string
	for _, r := range s.Revs {
		p = append(p, fmt.Sprintf("%s:%d/%d(type %d)", r.Ver, r.Applied, r.Total, r.Kind))
	}
	return fmt.Sprintf("{revisions [%s], dirty=%v}", strings.Join(p, " "), s.Dirty)
}

// ---- CLI observations ----------------------------------------------------------------

type jfile struct {
	Name, Version string
}

type statusJSON struct {
	Available  []jfile
	OutOfOrder []jfile
	Pending    []jfile
	Applied    []struct {
		Version        string
		Applied, Total int
	}
	Current, Next string
	Count, Total  int
	Status, Error string
}

type statusObs struct {
	OK   bool   // the command answered
	Err  string // class when it did not
	J    statusJSON
	Text string // canonical observation
}

func vers(fs []jfile) []string {
	v := make([]string, len(fs))
	for i, f := range fs {
		v[i] = f.Version
	}
	return v
}

func hexes(vs []string) string {
	h := make([]string, len(vs))
	for i, v := range vs {
		h[i] = execrun.Hex(v)
	}
	return strings.Join(h, ",")
}

var (
	reMissing  = regexp.MustCompile(`missing migration: revision "([^_"]*)_`)
	reNotFound = regexp.MustCompile(`migration file with version "([^"]*)" not found`)
	reOOO      = regexp.MustCompile(`migration files? (.*) (?:was|were) added out of order`)
)

// classify maps the CLI's error text to the enum shared with the model.
func classify(stderr string) string {
	switch {
	case strings.Contains(stderr, "panic:") || strings.Contains(stderr, "goroutine "):
		return "panic"
	case strings.Contains(stderr, "connected database is not clean"):
		return "notclean"
	case reMissing.MatchString(stderr):
		return "missing:" + execrun.Hex(reMissing.FindStringSubmatch(stderr)[1])
	case reNotFound.MatchString(stderr):
		return "filenotfound:" + execrun.Hex(reNotFound.FindStringSubmatch(stderr)[1])
	case reOOO.MatchString(stderr):
		var vs []string
		for _, n := range strings.Split(reOOO.FindStringSubmatch(stderr)[1], ", ") {
			vs = append(vs, strings.SplitN(n, "_", 2)[0])
		}
		return "nonlinear:" + hexes(vs)
	case strings.Contains(stderr, "baseline version"):
		return "baselinenotfound"
	case strings.Contains(stderr, "migration with version"):
		return "notfound"
	case strings.Contains(stderr, "accepts 1 arg(s)"):
		return "args"
	}
	return "other:" + strings.ReplaceAll(strings.TrimSpace(stderr), " ", "_")
}

func runStatus(tmp, mdir, db string) statusObs {
	r := clirun.Run(tmp, nil, "migrate", "status", "--dir", "file://"+mdir, "--url", "sqlite://"+db, "--format", "{{ json . }}")
	var o statusObs
	if r.Exit != 0 {
		o.Err = classify(r.Stderr + r.Stdout)
		o.Text = "status=err:" + o.Err
		return o
	}
	if err := json.Unmarshal([]byte(r.Stdout), &o.J); err != nil {
		o.Err = "other:json"
		o.Text = "status=err:other:json:" + strings.ReplaceAll(r.Stdout, " ", "_")
		return o
	}
	o.OK = true
	j := o.J
	cur := "-"
	switch j.Current {
	case "":
	case "No migration applied yet":
		cur = "none"
	default:
		cur = "v" + execrun.Hex(j.Current)
	}
	next := "-"
	switch j.Next {
	case "":
	case "Already at latest version":
		next = "latest"
	default:
		next = "v" + execrun.Hex(j.Next)
	}
	var ap []string
	for _, a := range j.Applied {
		ap = append(ap, fmt.Sprintf("%s:%d:%d", execrun.Hex(a.Version), a.Applied, a.Total))
	}
	o.Text = fmt.Sprintf("status=%s cur=%s next=%s count=%d total=%d pend=[%s] ooo=[%s] applied=[%s] avail=[%s] err=%s",
		j.Status, cur, next, j.Count, j.Total, hexes(vers(j.Pending)), hexes(vers(j.OutOfOrder)), strings.Join(ap, " "),
		hexes(vers(j.Available)), b2s(j.Error != ""))
	return o
}

type applyJSON struct {
	Pending []jfile
	Applied []struct {
		Name, Version string
		Applied       []string
		Error         *struct{ Stmt, Text string }
	}
	Error string
}

type applyObs struct {
	Plan    string // files:..., nopending, nonlinear:..., notclean, ...
	Planned []string
	Ran     map[string]bool // versions whose file ran to the end
	Failed  string          // version of the file that failed
	IsPlan  bool
	Raw     string
}

func runApply(tmp, mdir, db string, o op) applyObs {
	args := []string{"migrate", "apply"}
	if o.N > 0 {
		args = append(args, fmt.Sprint(o.N))
	}
	args = append(args, "--dir", "file://"+mdir, "--url", "sqlite://"+db, "--format", "{{ json . }}",
		"--exec-order", o.Order, "--tx-mode", o.TxMode)
	if o.AllowDirty {
		args = append(args, "--allow-dirty")
	}
	if o.Baseline != "" {
		args = append(args, "--baseline", o.Baseline)
	}
	if o.DryRun {
		args = append(args, "--dry-run")
	}
	r := clirun.Run(tmp, nil, args...)
	res := applyObs{Ran: map[string]bool{}, Raw: strings.TrimSpace(r.Stderr)}
	var j applyJSON
	if err := json.Unmarshal([]byte(r.Stdout), &j); err == nil && strings.HasPrefix(strings.TrimSpace(r.Stdout), "{") {
		res.IsPlan = true
		res.Planned = vers(j.Pending)
		if len(j.Pending) == 0 {
			res.Plan = "nopending"
		} else {
			res.Plan = "files:" + hexes(res.Planned)
		}
		for _, a := range j.Applied {
			if a.Error != nil {
				res.Failed = a.Version
			} else {
				res.Ran[a.Version] = true
			}
		}
		return res
	}
	res.Plan = classify(r.Stderr + r.Stdout)
	return res
}

type setObs struct {
	Text string
	OK   bool
}

func runSet(tmp, mdir, db string, o op) setObs {
	args := []string{"migrate", "set"}
	if o.Arg != "" {
		args = append(args, o.Arg)
	}
	args = append(args, "--dir", "file://"+mdir, "--url", "sqlite://"+db)
	r := clirun.Run(tmp, nil, args...)
	if r.Exit != 0 {
		return setObs{Text: "set=" + classify(r.Stderr+r.Stdout)}
	}
	return setObs{Text: "set=ok", OK: true}
}

// ---- running a scenario -------------------------------------------------------------------

type query struct {
	toks []string // model input
	obs  string   // what the CLI did
}

// step record for the oracle
type stepRec struct {
	op     *op // nil = initial
	dir    dirSpec
	before dbState // before the op
	after  dbState
	apply  *applyObs
	set    *setObs
	status statusObs // status after the op
}

func writeDir(mdir string, d dirSpec) error {
	files := map[string]string{}
	for _, f := range d {
		files[f.name()] = f.content()
	}
	return clirun.WriteDir(mdir, files)
}

func runScenario(sc scenario) (qs []query, recs []stepRec, err error) {
	base := ""
	if fi, e := os.Stat("/dev/shm"); e == nil && fi.IsDir() {
		base = "/dev/shm" // the SQLite commits fsync; keep them off the disk
	}
	tmp, err := os.MkdirTemp(base, "vst")
	if err != nil {
		return nil, nil, err
	}
	defer os.RemoveAll(tmp)
	db := filepath.Join(tmp, "t.db")
	mdir := filepath.Join(tmp, "m")
	if sc.dirty {
		if err := clirun.Exec(db, "CREATE TABLE pre_existing (id INTEGER)"); err != nil {
			return nil, nil, err
		}
	}
	dir := append(dirSpec{}, sc.dir...)
	if err := writeDir(mdir, dir); err != nil {
		return nil, nil, err
	}
	status := func(st dbState) statusObs {
		so := runStatus(tmp, mdir, db)
		qs = append(qs, query{append(dir.tokens(), "S"), so.Text})
		return so
	}
	st, err := observe(db)
	if err != nil {
		return nil, nil, err
	}
	if sc.quiet {
		recs = append(recs, stepRec{dir: append(dirSpec{}, dir...), before: st, after: st, status: statusObs{Err: "not-asked", Text: "not asked"}})
	} else {
		recs = append(recs, stepRec{dir: append(dirSpec{}, dir...), before: st, after: st, status: status(st)})
	}
	for i := range sc.ops {
		o := sc.ops[i]
		rec := stepRec{op: &sc.ops[i], before: st}
		switch o.Kind {
		case "add":
			for _, f := range o.Files {
				if dir.find(f.Ver) == nil {
					dir = append(dir, f)
				}
			}
		case "del":
			var nd dirSpec
			for _, f := range dir {
				if f.Ver != o.Ver {
					nd = append(nd, f)
				}
			}
			dir = nd
		case "fix":
			if f := dir.find(o.Ver); f != nil {
				f.Bad = -1
			}
		case "grow": // one more statement at the end of the file (a partially applied prefix stays intact)
			if f := dir.find(o.Ver); f != nil {
				f.NStmts++
			}
		case "apply":
			ao := runApply(tmp, mdir, db, o)
			rec.apply = &ao
		case "set":
			so := runSet(tmp, mdir, db, o)
			rec.set = &so
		}
		if o.Kind == "add" || o.Kind == "del" || o.Kind == "fix" || o.Kind == "grow" {
			if err := writeDir(mdir, dir); err != nil {
				return nil, nil, err
			}
		}
		after, err := observe(db)
		if err != nil {
			return nil, nil, err
		}
		rec.after = after
		rec.dir = append(dirSpec{}, dir...)
		switch o.Kind {
		case "apply":
			bl := "-"
			for _, r := range after.Revs {
				if r.Kind&1 != 0 {
					was := false
					for _, b := range st.Revs {
						was = was || b.Ver == r.Ver
					}
					if !was {
						bl = execrun.Hex(r.Ver)
					}
				}
			}
			qs = append(qs, query{append(dir.tokens(), "A", o.Order, execrun.Hex(o.Baseline), b2s(o.AllowDirty), fmt.Sprint(o.N), o.TxMode, b2s(o.DryRun)),
				"plan=" + rec.apply.Plan + " baseline=" + bl + " table=[" + showTable(after.Revs) + "] dirty=" + b2s(after.Dirty)})
		case "set":
			text := rec.set.Text + " table=[" + showTable(after.Revs) + "]"
			qs = append(qs, query{append(dir.tokens(), "T", execrun.Hex(o.Arg)), text})
		}
		st = after
		rec.status = status(st)
		recs = append(recs, rec)
	}
	return qs, recs, nil
}

// ---- main -----------------------------------------------------------------------------------

func main() {
	mode := flag.String("mode", "c11cli", "c11cli")
	tier := flag.String("tier", "quick", "quick|thorough")
	outDir := flag.String("out", "", "output directory")
	flag.Parse()
	if *outDir == "" || *mode != "c11cli" {
		fmt.Fprintln(os.Stderr, "usage: status -mode c11cli -tier T -out DIR")
		os.Exit(2)
	}
	if _, err := os.Stat(clirun.Bin()); err != nil {
		fmt.Fprintln(os.Stderr, "atlas binary not found:", clirun.Bin())
		os.Exit(2)
	}
	w := out.New(*outDir)
	defer w.Close()
	scs := generate(*tier, rng.FromEnv(0xC11))
	// Run in a seeded random order: if the time cap cuts the run short on a loaded machine,
	// every family loses the same share instead of the last families disappearing.
	sh := rng.FromEnv(0x5C11)
	for i := len(scs) - 1; i > 0; i-- {
		j := sh.Intn(i + 1)
		scs[i], scs[j] = scs[j], scs[i]
	}
	w.Exhaust = false
	w.Rule = rule(*tier)
	budget := 40 * time.Second
	if *tier == "thorough" {
		budget = 12 * time.Minute
	}
	deadline := time.Now().Add(budget)
	var mu sync.Mutex
	var fns []func()
	skipped := 0
	for _, sc := range scs {
		sc := sc
		fns = append(fns, func() {
			if time.Now().After(deadline) {
				mu.Lock()
				skipped++
				mu.Unlock()
				return
			}
			qs, recs, err := runScenario(sc)
			mu.Lock()
			defer mu.Unlock()
			if err != nil {
				w.Violation(sc.id, "harness", err.Error())
				return
			}
			toks := []string{b2s(sc.dirty), fmt.Sprint(len(qs))}
			var lines []string
			for i, q := range qs {
				toks = append(toks, q.toks...)
				lines = append(lines, fmt.Sprintf("q%d %s", i, q.obs))
			}
			w.Case(sc.id, strings.Join(toks, " "), lines)
			w.Count("family:" + sc.fam)
			w.Count(fmt.Sprintf("queries:%d", len(qs)))
			oracle(w, sc, recs)
		})
	}
	clirun.Parallel(16, fns)
	w.Set("scenarios_generated", len(scs))
	w.Set("scenarios_skipped_by_time_cap", skipped)
	if skipped > 0 {
		fmt.Fprintf(os.Stderr, "time cap reached: %d of %d scenarios not run\n", skipped, len(scs))
	}
}
