package main

import (
	"fmt"

	"verifharness/internal/rng"
)

var universe = []string{"1", "2", "3", "4"}

// thorough: [first] and [ooo] enumerate 5 versions
var universe5 = []string{"1", "2", "3", "4", "5"}

func rule(tier string) string {
	return "real CLI on SQLite files, one `migrate status --format '{{ json . }}'` after every step, revisions table read by an independent sqlite3 client. " +
		"Families: [first] EVERY directory over versions {1..4} x {file, checkpoint file} (80) on a never-touched database (clean; plus dirty with --allow-dirty): status, apply n (n in 0,1,2), status, apply, status; " +
		"[baseline] every such directory x --baseline v; [ooo] EVERY split of {1..4} into {absent, present at the first apply, added afterwards} x first apply n in {all,1} x the three exec orders: apply, add files, status, apply, status, apply, status; " +
		"[fail] every plain directory over {1,2,3} x every failing (file, statement) x tx-mode {none,file} x continuation {apply again, fix the file and apply, grow the partially applied file by a statement then fix and apply (stale Total), set v for every v, set without version}; " +
		"[set] every directory over {1,2,3} x {file, checkpoint} x apply n in {none,1,all} x set v for every v in {1,2,3,9} and without version, then status, apply, status; " +
		"[nonlinear-fail] out-of-order file that fails under non-linear; [gone] the partially applied file is deleted (with / without other migration files left); [random] seeded random sequences of 5-9 operations (apply n/order/tx-mode/dry-run, set, add file or checkpoint out of order or newer, delete file, fix). " +
		"CLOSED LOOP: the model gets only the start state, the directory of each moment and the commands; it threads its own database state (table exists, rows with hashes, other resources) through the sequence, and after every apply/set also the revisions table and the dirty flag it predicts are compared with what the independent client reads. Thorough: [first]/[ooo] over 5 versions. Non-trivial = scenario in which a revisions table with at least one row was reached and status answered; distinct by scenario id"
}

func mk(v string, ck bool) fileSpec { return fileSpec{Ver: v, Ckpt: ck, NStmts: 2, Bad: -1} }

func apply(n int, order string) op {
	return op{Kind: "apply", N: n, Order: order, TxMode: "file"}
}

// allDirs enumerates every assignment {absent, file, checkpoint} over vs, except the empty directory.
func allDirs(vs []string) []dirSpec {
	pow := 1
	for range vs {
		pow *= 3
	}
	var ds []dirSpec
	for x := 1; x < pow; x++ {
		var d dirSpec
		y := x
		for _, v := range vs {
			switch y % 3 {
			case 1:
				d = append(d, mk(v, false))
			case 2:
				d = append(d, mk(v, true))
			}
			y /= 3
		}
		ds = append(ds, d)
	}
	return ds
}

func generate(tier string, r *rng.R) []scenario {
	var scs []scenario
	add := func(fam string, dirty bool, d dirSpec, ops ...op) {
		scs = append(scs, scenario{id: fmt.Sprintf("c11cli-%d", len(scs)+1), fam: fam, quiet: fam != "first" && fam != "random", dirty: dirty, dir: d, ops: ops})
	}
	thorough := tier == "thorough"
	orders := []string{"linear", "linear-skip", "non-linear"}
	nck := func(d dirSpec) int {
		n := 0
		for _, f := range d {
			if f.Ckpt {
				n++
			}
		}
		return n
	}

	uni := universe
	if thorough {
		uni = universe5
	}
	// [first] first run on a never-touched database, every directory
	for _, d := range allDirs(uni) {
		add("first", false, d, apply(0, "linear"), apply(0, "linear"))
		add("first", false, d, apply(1, "linear"), apply(0, "linear"))
		if len(d) == 4 || thorough {
			add("first", false, d, apply(2, "linear"), apply(0, "linear"))
		}
		if d.find("4") == nil || (thorough && d.find("5") == nil) {
			o := apply(0, "linear")
			o.AllowDirty = true
			add("first", true, d, o)
		}
		if thorough && d.find("5") == nil {
			add("first", true, d, apply(0, "linear")) // refused: not clean
		}
	}
	// [ooo] every split {absent, initial, later}
	pow3 := 1
	for range uni {
		pow3 *= 3
	}
	for x := 0; x < pow3; x++ {
		var init, later dirSpec
		y := x
		for _, v := range uni {
			switch y % 3 {
			case 1:
				init = append(init, mk(v, false))
			case 2:
				later = append(later, mk(v, false))
			}
			y /= 3
		}
		if len(init) == 0 || len(later) == 0 {
			continue
		}
		for _, n := range []int{0, 1} {
			if n == 1 && len(init) < 2 {
				continue
			}
			for _, o := range orders {
				if n == 1 && o == "linear-skip" && !thorough {
					continue
				}
				ops := []op{apply(n, "linear"), {Kind: "add", Files: later}, apply(0, o)}
				if o != "linear" {
					ops = append(ops, apply(0, o))
				}
				add("ooo", false, init, ops...)
			}
		}
		// [set-ooo] `set V` on a history that became non-linear: the initial files are applied, files are added
		// (some below the latest applied version), then V is set to every version of the directory
		if len(init)+len(later) <= 3 || thorough {
			for _, f := range append(append(dirSpec{}, init...), later...) {
				add("set-ooo", false, init, apply(0, "linear"), op{Kind: "add", Files: later}, op{Kind: "set", Arg: f.Ver}, apply(0, "non-linear"))
			}
		}
	}
	// [empty] a version whose file holds no statement (comments only) is applied like any other: it gets its
	// revision, is never pending again, and the versions after it stay in order
	for pos := 0; pos < 3; pos++ {
		for _, ck := range []bool{false, true} {
			d := dirSpec{mk("1", false), mk("2", false), mk("3", false)}
			d[pos].NStmts = 0
			d[pos].Ckpt = ck
			add("empty", false, d, apply(0, "linear"), apply(0, "linear"))
			add("empty", false, d, apply(1, "linear"), apply(1, "linear"), apply(1, "linear"), apply(0, "linear"))
			add("empty", false, d[:pos+1], apply(0, "linear"), op{Kind: "add", Files: d[pos+1:]}, apply(0, "linear"), apply(0, "non-linear"))
		}
	}
	// [set]
	for _, d := range allDirs([]string{"1", "2", "3"}) {
		if nck(d) > 1 && !thorough {
			continue
		}
		for _, n := range []int{-1, 1, 0} {
			if n == 1 && len(d) < 2 {
				continue
			}
			vs := []string{"1", "2", "3", "9", ""}
			if !thorough {
				switch n {
				case -1:
					vs = []string{"2", "3", ""}
				case 0:
					vs = []string{"1", "2", ""}
				}
			}
			for _, v := range vs {
				var ops []op
				if n >= 0 {
					ops = append(ops, apply(n, "linear"))
				}
				ops = append(ops, op{Kind: "set", Arg: v}, apply(0, "linear"))
				add("set", false, d, ops...)
			}
		}
	}
	// [fail]
	for _, d := range allDirs([]string{"1", "2", "3"}) {
		if nck(d) > 0 {
			continue
		}
		for j := range d {
			for k := 0; k < 2; k++ {
				for _, tx := range []string{"none", "file"} {
					bd := append(dirSpec{}, d...)
					bd[j].Bad = k
					first := apply(0, "linear")
					first.TxMode = tx
					conts := [][]op{
						{apply(0, "linear")},
						{{Kind: "fix", Ver: bd[j].Ver}, apply(0, "linear")},
					}
					if tx == "none" {
						// stale Total: the partially applied file grows by a statement before it is fixed and resumed
						conts = append(conts, []op{{Kind: "grow", Ver: bd[j].Ver}, {Kind: "fix", Ver: bd[j].Ver}, apply(0, "linear"), apply(0, "linear")})
					}
					if tx == "none" || thorough {
						conts = append(conts, []op{{Kind: "set"}, apply(0, "linear")})
						for _, f := range d {
							conts = append(conts, []op{{Kind: "set", Arg: f.Ver}, {Kind: "fix", Ver: bd[j].Ver}, apply(0, "linear")})
						}
					}
					for _, c := range conts {
						add("fail", false, bd, append([]op{first}, c...)...)
					}
				}
			}
		}
	}
	// [baseline]
	for i, d := range allDirs(universe) {
		bvs := []string{"2", "3"}
		if thorough {
			bvs = []string{"1", "2", "3", "4", "9"}
		} else if len(d) < 2 || (d.find("4") != nil && i%4 != 0) {
			continue
		}
		for _, bv := range bvs {
			o := apply(0, "linear")
			o.Baseline = bv
			add("baseline", true, d, o, apply(0, "linear"))
		}
	}
	// [nonlinear-fail] an out-of-order file failing midway under non-linear: a partially applied
	// revision that is not the latest one (formerly known finding C11-nonlinear-partial-not-resumed)
	for _, init := range []dirSpec{{mk("1", false), mk("3", false)}, {mk("1", false), mk("3", false), mk("4", false)}, {mk("1", false), mk("4", false)}} {
		for _, k := range []int{0, 1} {
			bad := mk("2", false)
			bad.Bad = k
			nl := apply(0, "non-linear")
			nl.TxMode = "none"
			pre := []op{apply(0, "linear"), {Kind: "add", Files: []fileSpec{bad}}, nl}
			for _, cont := range [][]op{
				{apply(0, "non-linear")},
				{{Kind: "fix", Ver: "2"}, apply(0, "non-linear"), apply(0, "non-linear")},
				{{Kind: "fix", Ver: "2"}, apply(0, "linear")},
				{{Kind: "fix", Ver: "2"}, apply(0, "linear-skip")},
				{{Kind: "set", Arg: init[len(init)-1].Ver}, {Kind: "fix", Ver: "2"}, apply(0, "non-linear")},
			} {
				add("nonlinear-fail", false, init, append(append([]op{}, pre...), cont...)...)
			}
		}
	}
	// [gone] the partially applied file disappears (MissingMigrationError / "migration file with version not found")
	for _, k := range []int{0, 1} {
		bad := mk("1", false)
		bad.Bad = k
		first := apply(0, "linear")
		first.TxMode = "none"
		add("gone", false, dirSpec{bad, mk("2", false)}, first, op{Kind: "del", Ver: "1"}, apply(0, "linear"))
		add("gone", false, dirSpec{bad}, first, op{Kind: "add", Files: []fileSpec{mk("2", true)}}, op{Kind: "del", Ver: "1"}, apply(0, "linear"))
		add("gone", false, dirSpec{bad, mk("3", false)}, first, op{Kind: "add", Files: []fileSpec{mk("2", true)}}, op{Kind: "del", Ver: "1"}, apply(0, "non-linear"),
			op{Kind: "set", Arg: "3"}, apply(0, "linear"))
	}
	// [random]
	nrand := 60
	if thorough {
		nrand = 3000
	}
	for i := 0; i < nrand; i++ {
		var d dirSpec
		for _, v := range universe {
			switch r.Intn(4) {
			case 0, 1:
				f := mk(v, false)
				f.NStmts = 1 + r.Intn(3)
				if r.Chance(1, 6) {
					f.Bad = r.Intn(f.NStmts)
				}
				d = append(d, f)
			case 2:
				d = append(d, mk(v, true))
			}
		}
		if len(d) == 0 {
			d = append(d, mk("2", false))
		}
		cur := append(dirSpec{}, d...)
		var ops []op
		nops := 5 + r.Intn(5)
		for k := 0; k < nops; k++ {
			switch x := r.Intn(10); {
			case x < 4:
				o := apply(r.Intn(3), rng.Pick(r, orders))
				o.TxMode = rng.Pick(r, []string{"none", "file", "all"})
				o.DryRun = r.Chance(1, 8)
				o.AllowDirty = r.Chance(1, 3)
				ops = append(ops, o)
			case x < 6:
				ops = append(ops, op{Kind: "set", Arg: rng.Pick(r, []string{"1", "2", "3", "4", ""})})
			case x < 8:
				v := rng.Pick(r, universe)
				if cur.find(v) != nil {
					ops = append(ops, op{Kind: "fix", Ver: v})
					break
				}
				f := mk(v, r.Chance(1, 5))
				f.NStmts = 1 + r.Intn(3)
				if !f.Ckpt && r.Chance(1, 4) {
					f.Bad = r.Intn(f.NStmts)
				}
				cur = append(cur, f)
				ops = append(ops, op{Kind: "add", Files: []fileSpec{f}})
			case x < 9:
				if len(cur) > 1 {
					v := cur[r.Intn(len(cur))].Ver
					var nd dirSpec
					for _, f := range cur {
						if f.Ver != v {
							nd = append(nd, f)
						}
					}
					cur = nd
					ops = append(ops, op{Kind: "del", Ver: v})
				}
			default:
				if len(cur) > 0 {
					k := "fix"
					if r.Bool() {
						k = "grow"
					}
					ops = append(ops, op{Kind: k, Ver: cur[r.Intn(len(cur))].Ver})
				}
			}
		}
		add("random", r.Chance(1, 5), d, ops...)
	}
	return scs
}
