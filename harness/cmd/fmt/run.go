package main

import (
	"encoding/hex"
	"fmt"
	"os"
	"path/filepath"
	"reflect"
	"regexp"
	"sort"
	"strings"
	"unicode"

	"ariga.io/atlas/sql/migrate"
	"ariga.io/atlas/sql/sqltool"

	"verifharness/internal/out"
)

func hx(s string) string {
	if s == "" {
		return "-"
	}
	return hex.EncodeToString([]byte(s))
}

// ---- formats

type format struct {
	name   string
	f      migrate.Formatter
	open   func(path string) (migrate.Dir, error)
	dialSc bool // the reader hands *LocalFile to FileStmts: the dialect's scanner is used
}

var formats = []format{
	{"atlas", migrate.DefaultFormatter, func(p string) (migrate.Dir, error) { return migrate.NewLocalDir(p) }, true},
	{"golang-migrate", sqltool.GolangMigrateFormatter, func(p string) (migrate.Dir, error) { return sqltool.NewGolangMigrateDir(p) }, false},
	{"goose", sqltool.GooseFormatter, func(p string) (migrate.Dir, error) { return sqltool.NewGooseDir(p) }, false},
	{"flyway", sqltool.FlywayFormatter, func(p string) (migrate.Dir, error) { return sqltool.NewFlywayDir(p) }, false},
	{"liquibase", sqltool.LiquibaseFormatter, func(p string) (migrate.Dir, error) { return sqltool.NewLiquibaseDir(p) }, true},
	{"dbmate", sqltool.DBMateFormatter, func(p string) (migrate.Dir, error) { return sqltool.NewDBMateDir(p) }, false},
}

// ---- scanner option sets (cross-checked on every file against the drivers' ScanStmts / migrate.Stmts)

var optNames = []string{"MatchBegin", "MatchBeginAtomic", "MatchBeginTryCatch", "MatchDollarQuote",
	"BackslashEscapes", "EscapedStringExt", "HashComments", "GoCommand", "BeginEndTerminator", "OmitDelimiter"}

var optSets = map[string]migrate.ScannerOptions{
	"generic":  {MatchBeginAtomic: true, MatchDollarQuote: true},
	"mysql":    {MatchBegin: true, BackslashEscapes: true, HashComments: true},
	"postgres": {MatchBegin: true, MatchBeginAtomic: true, MatchDollarQuote: true, EscapedStringExt: true},
	"sqlite":   {MatchBegin: true},
}

func bits(o migrate.ScannerOptions) string {
	v := reflect.ValueOf(o)
	b := make([]byte, len(optNames))
	for i, n := range optNames {
		b[i] = '0'
		if v.FieldByName(n).Bool() {
			b[i] = '1'
		}
	}
	return string(b)
}

var (
	reNow       = regexp.MustCompile(`[0-9]{14}`)
	reChangeset = regexp.MustCompile(`--changeset atlas:[0-9]{14}-`)
)

// errKind maps an error of the readers to the enum the model prints.
func errKind(err error) string {
	msg := err.Error()
	for _, k := range [][2]string{
		{"unclosed '('", "unclosed-paren"}, {"unexpected ')'", "unexpected-paren"}, {"unclosed quote", "unclosed-quote"},
		{"empty delimiter", "empty-delim"}, {"no input found after delimiter", "no-input-after-delim"},
		{"unexpected dollar quote", "unexpected-dollar"}, {"unclosed dollar-quoted string", "unclosed-dollar"},
		{"unexpected goosePragma", "pragma"},
	} {
		if strings.Contains(msg, k[0]) {
			return k[1]
		}
	}
	return "other"
}

type planCase struct {
	id      string
	d       dialect
	fm      format
	plan    *migrate.Plan
	class   string // oracle class if the round trip fails and no trigger of a known input class applies
	desc    string
	spec    *spec  // generated schema cases: where the hot strings are
	label   string // synthetic plans: the shape
	noModel bool   // oracle only (the extracted scanner is quadratic in the statement length)
}

// effective delimiter the reader will use / the writer writes
func effDelim(fm format, p *migrate.Plan) string {
	if fm.name == "atlas" && p.Delimiter != "" {
		return p.Delimiter
	}
	return ";"
}

func expectedText(fm format, p *migrate.Plan, cmd string) string {
	if effDelim(fm, p) == ";" {
		return cmd + ";"
	}
	return cmd
}

func readerOpts(c *planCase) (string, migrate.ScannerOptions) {
	if c.fm.dialSc {
		return c.d.name, optSets[c.d.name]
	}
	return "generic", optSets["generic"]
}

// runPlanCase formats, writes, reads back, records the observation and evaluates the oracle.
func runPlanCase(w *out.W, tmp string, c *planCase) {
	p := c.plan
	oname, opts := readerOpts(c)
	w.Count("format:" + c.fm.name)
	w.Count("dialect:" + c.d.name)
	w.Count("delim:" + hx(p.Delimiter))
	var obs []string
	files, err := c.fm.f.Format(p)
	if err != nil {
		w.Count("format-error")
		w.ImplOnly(c.id, "format error "+err.Error())
		return
	}
	now := ""
	fobs := []string{fmt.Sprintf("files %d", len(files))}
	dir := filepath.Join(tmp, c.id)
	if err := os.MkdirAll(dir, 0o755); err != nil {
		panic(err)
	}
	defer os.RemoveAll(dir)
	// the templates call now() once per file name and once for the Liquibase changeset ids: a
	// second may tick in between; every timestamp is canonicalised to the first one
	canon := func(s string) string { return s }
	if c.fm.name != "atlas" {
		if len(files) > 0 {
			now = reNow.FindString(files[0].Name())
		}
		canon = func(s string) string { return reNow.ReplaceAllString(s, now) }
	}
	for _, f := range files {
		content := string(f.Bytes())
		if c.fm.name == "liquibase" {
			content = reChangeset.ReplaceAllString(content, "--changeset atlas:"+now+"-")
		}
		fobs = append(fobs, hx(canon(f.Name()))+"="+hx(content))
		if err := os.WriteFile(filepath.Join(dir, f.Name()), f.Bytes(), 0o644); err != nil {
			// names with a slash etc.: not a case
			w.Count("write-error")
			return
		}
	}
	obs = append(obs, strings.Join(fobs, " "))
	kf := keepFiles(c, files)
	// read back
	var (
		got     []string
		readErr error
		names   []string
		upBytes string
	)
	func() {
		defer func() {
			if r := recover(); r != nil {
				readErr = fmt.Errorf("panic: %v", r)
			}
		}()
		d, err := c.fm.open(dir)
		if err != nil {
			readErr = err
			return
		}
		ff, err := d.Files()
		if err != nil {
			readErr = err
			return
		}
		for _, f := range ff {
			names = append(names, f.Name())
			upBytes = string(f.Bytes())
			st, err := migrate.FileStmts(c.d.drv, f)
			if err != nil {
				readErr = err
				return
			}
			got = append(got, st...)
			// the Stmts() method of the file must agree with FileStmts when the generic scanner is used
			if !c.fm.dialSc {
				st2, err2 := f.Stmts()
				if err2 != nil || !reflect.DeepEqual(st, st2) {
					w.Violation(c.id, "file-stmts-differ", fmt.Sprintf("%s: FileStmts and File.Stmts disagree", c.desc))
				}
			}
		}
	}()
	kf.firstGot, kf.firstErr = got, readErr != nil
	ageKept(w, tmp, c)
	dobs := []string{fmt.Sprintf("dir %d", len(names))}
	for _, n := range names {
		dobs = append(dobs, hx(canon(n)))
	}
	obs = append(obs, strings.Join(dobs, " "))
	switch {
	case readErr != nil:
		obs = append(obs, "read err "+errKind(readErr))
	default:
		r := []string{fmt.Sprintf("read ok %d", len(got))}
		for _, t := range got {
			r = append(r, hx(t))
		}
		obs = append(obs, strings.Join(r, " "))
	}
	// cross-check of the option sets the model is given (atlas/liquibase: the dialect's ScanStmts)
	if len(names) == 1 && c.fm.name != "goose" && c.fm.name != "dbmate" {
		a, e1 := (&migrate.Scanner{ScannerOptions: opts}).Scan(upBytes)
		var texts []string
		for _, s := range a {
			texts = append(texts, s.Text)
		}
		if (e1 == nil) != (readErr == nil) || (e1 == nil && !reflect.DeepEqual(texts, got)) {
			w.Violation(c.id, "scanner-options-drift", fmt.Sprintf("%s: Scanner{%s options} differs from the reader's scanner", c.desc, oname))
		}
	}
	// closedness of every command under the reader's options and delimiter, and the decidable
	// hypothesis of C07_roundtrip (Go ports of ClosedModel.v / FmtHyp.v; the extracted model prints
	// the same two lines)
	cd := effDelim(c.fm, p)
	cb := make([]byte, len(p.Changes))
	hcs := make([]hypChange, len(p.Changes))
	for i, ch := range p.Changes {
		cb[i] = '0'
		if scanClosed(opts, cd, ch.Cmd) {
			cb[i] = '1'
			w.Count("cmd-closed:" + c.fm.name)
		} else {
			w.Count("cmd-not-closed:" + c.fm.name)
		}
		rs, _ := ch.ReverseStmts()
		hcs[i] = hypChange{ch.Cmd, ch.Comment, rs}
	}
	cbs := string(cb)
	if cbs == "" {
		cbs = "-"
	}
	obs = append(obs, "closed "+cbs)
	hyp := roundtripHyp(c.fm.name, opts, p.Delimiter, p.Directives, hcs)
	obs = append(obs, fmt.Sprintf("hyp %v", hyp))
	w.Count(fmt.Sprintf("hyp:%s:%v", c.fm.name, hyp))
	// case line
	toks := []string{c.fm.name, bits(opts), hx(now), hx(p.Version), hx(p.Name), hx(p.Delimiter), fmt.Sprint(len(p.Directives))}
	for _, d := range p.Directives {
		toks = append(toks, hx(d))
	}
	toks = append(toks, fmt.Sprint(len(p.Changes)))
	for _, ch := range p.Changes {
		rs, _ := ch.ReverseStmts()
		toks = append(toks, hx(ch.Cmd), hx(ch.Comment), fmt.Sprint(len(rs)))
		for _, r := range rs {
			toks = append(toks, hx(r))
		}
	}
	if c.noModel {
		w.ImplOnly(c.id, c.desc)
	} else {
		w.Case(c.id, strings.Join(toks, " "), obs)
	}

	// ---- oracle: the statements read back are exactly the planned commands
	want := make([]string, len(p.Changes))
	for i, ch := range p.Changes {
		want[i] = expectedText(c.fm, p, ch.Cmd)
	}
	ok := readErr == nil && len(names) == 1 && reflect.DeepEqual(want, got) || len(p.Changes) == 0 && readErr == nil && len(got) == 0
	if ok {
		w.Count("roundtrip:ok")
	} else {
		w.Count("roundtrip:FAIL")
		msg := fmt.Sprintf("%s: ", c.desc)
		switch {
		case readErr != nil:
			msg += "reader error " + errKind(readErr)
		case len(names) != 1:
			msg += fmt.Sprintf("reader returned %d files", len(names))
		default:
			i := 0
			for i < len(want) && i < len(got) && want[i] == got[i] {
				i++
			}
			g, wn := "<none>", "<none>"
			if i < len(got) {
				g = fmt.Sprintf("%q", trunc(got[i], 120))
			}
			if i < len(want) {
				wn = fmt.Sprintf("%q", trunc(want[i], 120))
			}
			msg += fmt.Sprintf("planned %d statements, read %d; first difference at %d: planned %s read %s", len(want), len(got), i, wn, g)
		}
		if dl := effDelim(c.fm, p); dl != ";" && delimInCmd(p, dl) {
			// a custom delimiter that occurs in a command cannot work; the user picks another one
			w.Count("custom-delimiter-occurs-in-command")
		} else {
			w.Violation(c.id, triggerClass(c), msg)
		}
	}
	// the theorem's reading of the real code: C07_roundtrip says that a case satisfying the
	// decidable hypothesis round-trips, for every formatter
	if hyp && !ok {
		w.Violation(c.id, "closed-but-not-roundtrip", c.desc+": roundtrip_hyp holds but the real reader returned other statements (C07_roundtrip would be false of the real code)")
	}
	if ok && len(p.Changes) > 0 {
		key := c.d.name + "/" + c.fm.name + "/" + hx(p.Delimiter) + "/" + c.class
		w.NonTrivial(key)
	}
}

func trunc(s string, n int) string {
	if len(s) > n {
		return s[:n] + "…"
	}
	return s
}

// ---- oracle classes: computed from the INPUT only (never from the outcome), so that a known
// finding mutes exactly one input class.

var identRoles = map[string]bool{"table": true, "column": true, "index": true, "fk": true, "check-name": true,
	"schema": true, "enum-type": true, "rename-to": true}

func classOf(s *spec) string {
	if len(s.feats) == 1 {
		return "rt:" + s.feats[0].role + ":" + s.feats[0].class
	}
	fs := make([]string, len(s.feats))
	for i, f := range s.feats {
		fs[i] = f.role + ":" + f.class
	}
	sort.Strings(fs)
	return "rt:combo:" + strings.Join(fs, "+")
}

func delimInCmd(p *migrate.Plan, dl string) bool {
	for _, ch := range p.Changes {
		if strings.Contains(ch.Cmd+dl[:len(dl)-1], dl) {
			return true
		}
	}
	return false
}

func trailingBackslashes(s string) int {
	n := 0
	for n < len(s) && s[len(s)-1-n] == '\\' {
		n++
	}
	return n
}

// gooseLineHazard: the input classes GooseFile.StmtDecls mishandles (line filter in front of the
// scanner); "" = none.  pragma-word: a line containing Down/StatementBegin/StatementEnd/"-- +goose Up"
// is dropped (ungrouped alternation); line-split: trailing white space (incl. \r) of a line is
// trimmed, an inner line ending in ';' splits the command.
func gooseLineHazard(cmd string) string {
	lines := strings.Split(cmd, "\n")
	for i, l := range lines {
		t := strings.TrimRightFunc(l, unicode.IsSpace)
		if t != l {
			return "goose-line-split"
		}
		if i < len(lines)-1 && strings.HasSuffix(t, ";") {
			return "goose-line-split"
		}
		if strings.HasPrefix(l, "--") && i == len(lines)-1 {
			return "goose-line-split"
		}
	}
	return ""
}

func dbmateLineHazard(cmd string) string {
	if strings.Contains(cmd, "\r") {
		return "dbmate-carriage-return"
	}
	return ""
}

// triggerClass: the oracle class of a failing case, computed from the INPUT only.  The first
// matching input predicate of a known defect class names it; otherwise the case's own class.
func triggerClass(c *planCase) string {
	p := c.plan
	// a raw newline in the Comment text the plan carries: known class only for HAND-MADE plans; a
	// planner that prints a name verbatim into its comment is a new defect, classified by its cause
	for _, ch := range p.Changes {
		if strings.Contains(ch.Comment, "\n") {
			if c.spec != nil {
				role := "?"
				for _, f := range c.spec.feats {
					if strings.ContainsAny(c.spec.hot[f.role], "\n\r") {
						role = f.role
					}
				}
				return "planner-comment-raw-newline:" + c.d.name + ":" + role
			}
			return "comment-newline"
		}
	}
	// the first line of a golang-migrate / flyway file (and of what the DBMate reader keeps) is the
	// first comment: "-- atlas:delimiter X" there is read by Scanner.init as the delimiter directive
	if n := c.fm.name; c.spec == nil && (n == "golang-migrate" || n == "flyway" || n == "dbmate") && len(p.Changes) > 0 &&
		strings.HasPrefix(p.Changes[0].Comment, "atlas:delimiter") {
		return "comment-delimiter-directive"
	}
	if s := c.spec; s != nil {
		for _, f := range s.feats {
			v := s.hot[f.role]
			// Builder.Ident is repaired (C16-ident-double-quote-char); PostgreSQL type names still go
			// (and the schema prefix in front of them) through typeIdent's / schemaPrefix's %q (C16-ident-goquote-escaped, open): a double quote or backslash
			// in an enum type name is Go-escaped, which no SQL scanner reads
			if (f.role == "enum-type" || f.role == "schema") && s.d.name == "postgres" && strings.ContainsAny(v, "\"\\") {
				return "pg-type-ident-goquote"
			}
		}
	}
	if c.fm.name == "liquibase" {
		if len(p.Changes) == 0 {
			return "liquibase-empty-plan"
		}
	}
	if s := c.spec; s != nil && s.d.name == "mysql" {
		for _, f := range s.feats {
			v := s.hot[f.role]
			switch {
			case identRoles[f.role] && c.fm.dialSc && trailingBackslashes(v)%2 == 1:
				return "mysql-ident-trailing-backslash"
			case f.role == "enumval" && (strings.Contains(v, "'") || c.fm.dialSc && trailingBackslashes(v)%2 == 1):
				return "mysql-enum-value-quote"
			case (f.role == "tcomment" || f.role == "ccomment" || f.role == "icomment") && !c.fm.dialSc && strings.Contains(v, `"`):
				return "mysql-dquote-literal-generic-scanner"
			}
		}
	}
	if c.fm.name == "goose" {
		for _, ch := range p.Changes {
			if h := gooseLineHazard(ch.Cmd); h != "" {
				return h
			}
		}
	}
	if c.fm.name == "dbmate" {
		for _, ch := range p.Changes {
			if h := dbmateLineHazard(ch.Cmd); h != "" {
				return h
			}
		}
	}
	if !c.fm.dialSc && (strings.HasPrefix(c.label, "trigger-") || strings.HasPrefix(c.label, "proc-")) {
		return "begin-end-generic-scanner"
	}
	if c.label == "escape-string" {
		return "pg-escape-string"
	}
	return c.class
}

// ---- files returned by a formatter belong to the caller.  The files of case i are kept AS RETURNED
// (not copied) next to a deep copy; after cases i+1 and i+2 were formatted (other formatters, and the
// same formatter on another plan) the kept files must be unchanged and must still read back as the
// statements they read back as right after Format.

type keptFiles struct {
	c        *planCase
	files    []migrate.File
	names    []string
	copies   [][]byte
	firstGot []string
	firstErr bool
	age      int
	later    []string
}

var keptQueue []*keptFiles

func keepFiles(c *planCase, files []migrate.File) *keptFiles {
	k := &keptFiles{c: c, files: files}
	for _, f := range files {
		k.names = append(k.names, f.Name())
		k.copies = append(k.copies, append([]byte(nil), f.Bytes()...))
	}
	keptQueue = append(keptQueue, k)
	return k
}

// ageKept is called after case c has been formatted and read.
func ageKept(w *out.W, tmp string, c *planCase) {
	var rest []*keptFiles
	for _, k := range keptQueue {
		if k.c == c {
			rest = append(rest, k)
			continue
		}
		k.age++
		k.later = append(k.later, c.id)
		if k.age == 1 {
			// the kept formatter on the later plan, too (same formatter, other plan)
			k.c.fm.f.Format(c.plan)
		}
		if k.age >= 2 {
			verifyKept(w, tmp, k)
			continue
		}
		rest = append(rest, k)
	}
	keptQueue = rest
}

func flushKept(w *out.W, tmp string) {
	for _, k := range keptQueue {
		verifyKept(w, tmp, k)
	}
	keptQueue = nil
}

func verifyKept(w *out.W, tmp string, k *keptFiles) {
	w.Count("kept-files-verified")
	changed := ""
	for i, f := range k.files {
		if f.Name() != k.names[i] || string(f.Bytes()) != string(k.copies[i]) {
			changed = fmt.Sprintf("file %d (%q): %d bytes kept, now %q… instead of %q…", i, k.names[i], len(k.copies[i]), trunc(string(f.Bytes()), 60), trunc(string(k.copies[i]), 60))
			break
		}
	}
	// read the kept files (their CURRENT bytes) through the matching reader
	dir := filepath.Join(tmp, k.c.id+"-kept")
	os.MkdirAll(dir, 0o755)
	defer os.RemoveAll(dir)
	for _, f := range k.files {
		os.WriteFile(filepath.Join(dir, f.Name()), f.Bytes(), 0o644)
	}
	var got []string
	failed := false
	func() {
		defer func() {
			if r := recover(); r != nil {
				failed = true
			}
		}()
		d, err := k.c.fm.open(dir)
		if err != nil {
			failed = true
			return
		}
		ff, err := d.Files()
		if err != nil {
			failed = true
			return
		}
		for _, f := range ff {
			st, err := migrate.FileStmts(k.c.d.drv, f)
			if err != nil {
				failed = true
				return
			}
			got = append(got, st...)
		}
	}()
	same := failed == k.firstErr && (failed || reflect.DeepEqual(got, k.firstGot))
	if changed != "" || !same {
		msg := fmt.Sprintf("files of plan %s (%s) kept by the caller changed after the plans %v were formatted", k.c.id, k.c.desc, k.later)
		if changed != "" {
			msg += ": " + changed
		}
		if !same {
			msg += fmt.Sprintf("; read back now: %d statements (error %v), right after Format: %d statements (error %v)", len(got), failed, len(k.firstGot), k.firstErr)
		}
		w.Violation(k.c.id, "formatter-files-not-callers", msg)
	}
}

// memDirCheck: three plans written to ONE MemDir through Planner.WritePlan must read back, file by
// file, as each plan read alone does.
func memDirCheck(w *out.W, ids [3]string, ds [3]dialect, ps [3]*migrate.Plan) {
	w.Count("memdir-triples")
	read := func(d *migrate.MemDir) (map[string][]string, bool) {
		res := map[string][]string{}
		ff, err := d.Files()
		if err != nil {
			return nil, false
		}
		for _, f := range ff {
			var dl dialect
			for k := 0; k < 3; k++ {
				if strings.HasPrefix(f.Name(), fmt.Sprintf("2024010100000%d", k)) {
					dl = ds[k]
				}
			}
			st, err := migrate.FileStmts(dl.drv, f)
			if err != nil {
				st = []string{"<error>"}
			}
			res[f.Name()] = st
		}
		return res, true
	}
	shared := &migrate.MemDir{}
	pl := migrate.NewPlanner(nil, shared, migrate.PlanWithChecksum(false))
	alone := map[string][]string{}
	for k := 0; k < 3; k++ {
		q := clonePlan(ps[k])
		q.Version, q.Name = fmt.Sprintf("2024010100000%d", k), "n"
		if err := pl.WritePlan(q); err != nil {
			return
		}
		single := &migrate.MemDir{}
		q2 := clonePlan(ps[k])
		q2.Version, q2.Name = q.Version, "n"
		if err := migrate.NewPlanner(nil, single, migrate.PlanWithChecksum(false)).WritePlan(q2); err != nil {
			return
		}
		r, ok := read(single)
		if !ok {
			return
		}
		for n, st := range r {
			alone[n] = st
		}
	}
	got, ok := read(shared)
	if !ok || !reflect.DeepEqual(got, alone) {
		for n, st := range alone {
			if !reflect.DeepEqual(got[n], st) {
				w.Violation(ids[0], "memdir-files-interfere", fmt.Sprintf("plans %v written to one MemDir through Planner.WritePlan: file %s reads back %d statements (first %q), alone it reads %d (first %q)",
					ids, n, len(got[n]), trunc(first(got[n]), 80), len(st), trunc(first(st), 80)))
				return
			}
		}
		w.Violation(ids[0], "memdir-files-interfere", fmt.Sprintf("plans %v written to one MemDir: the directory lists other files than the three plans alone", ids))
	}
}

func first(s []string) string {
	if len(s) == 0 {
		return ""
	}
	return s[0]
}
