package main

import (
	"context"
	"database/sql"
	"fmt"
	"strings"

	"ariga.io/atlas/sql/migrate"
	"ariga.io/atlas/sql/schema"
	"ariga.io/atlas/sql/sqlite"
	_ "github.com/mattn/go-sqlite3"

	"verifharness/internal/out"
)

// Plans built from INSPECTED real SQLite databases: the database is created by hand-written SQL
// (legacy schemas: double-quoted string defaults, pre-quoted single-quoted defaults with doubled
// quotes, quoted names with special characters), InspectSchema reads it back, the diff against
// the empty schema (and against a second, changed database) is planned by the real driver and
// goes through the six formatters like every other plan of stage plan.  The defaults reach the
// planner already quoted: sqlx.SingleQuote has to re-quote them.

// dqs: SQLite's double-quoted string literal (a " inside is doubled).
func dqs(s string) string { return `"` + strings.ReplaceAll(s, `"`, `""`) + `"` }
func sqs(s string) string { return "'" + strings.ReplaceAll(s, "'", "''") + "'" }

var inspectedDefaults = []struct{ class, v string }{
	{"plain", "note"},
	{"squote", "it's; a note -- really"},
	{"squote2", "a''b"},
	{"semi", "a;b"},
	{"dashdash", "a -- b"},
	{"cboth", "a /* b */ c"},
	{"hash", "a # b"},
	{"nl", "two\nlines"},
	{"paren", "a (b"},
	{"dollar", "a $$ b"},
	{"bslash", `a\b`},
	{"bslash-end", `ab\`},
	{"dquote", `say "hi"`},
	{"unicode", "é✓"},
	{"squote-end", "ab'"},
}

func openMem(name string, ddl []string) (*sql.DB, migrate.Driver, error) {
	db, err := sql.Open("sqlite3", "file:"+name+"?mode=memory&cache=shared&_fk=1")
	if err != nil {
		return nil, nil, err
	}
	for _, st := range ddl {
		if _, err := db.Exec(st); err != nil {
			db.Close()
			return nil, nil, fmt.Errorf("%s: %w", st, err)
		}
	}
	drv, err := sqlite.Open(db)
	if err != nil {
		db.Close()
		return nil, nil, err
	}
	return db, drv, nil
}

func runInspected(w *out.W, tmp string, thorough bool) {
	ctx := context.Background()
	n := 0
	for di, dv := range inspectedDefaults {
		for qi, quoting := range []string{"double", "single"} {
			lit := dqs(dv.v)
			if quoting == "single" {
				lit = sqs(dv.v)
			}
			ddl1 := []string{
				"CREATE TABLE `notes` (`id` integer NOT NULL PRIMARY KEY, `body` text NOT NULL DEFAULT " + lit + ", `n` integer DEFAULT 7)",
				"CREATE INDEX `notes_body` ON `notes` (`body`)",
			}
			ddl2 := append(append([]string{}, ddl1...),
				"ALTER TABLE `notes` ADD COLUMN `extra` text DEFAULT "+lit,
				"CREATE TABLE `tags` (`t` text DEFAULT "+lit+")")
			name := fmt.Sprintf("c07insp%d_%d", di, qi)
			db1, drv1, err := openMem(name+"a", ddl1)
			if err != nil {
				w.Count("inspected:sqlite-rejects-ddl")
				continue
			}
			db2, drv2, err := openMem(name+"b", ddl2)
			if err != nil {
				db1.Close()
				w.Count("inspected:sqlite-rejects-ddl")
				continue
			}
			s1, err1 := drv1.InspectSchema(ctx, "main", nil)
			s2, err2 := drv2.InspectSchema(ctx, "main", nil)
			if err1 != nil || err2 != nil {
				w.Count("inspected:inspect-error")
				db1.Close()
				db2.Close()
				continue
			}
			for ki, pair := range [][2]*schema.Schema{{schema.New("main"), s1}, {s1, s2}, {schema.New("main"), s2}} {
				changes, err := drv1.SchemaDiff(pair[0], pair[1])
				if err != nil || len(changes) == 0 {
					w.Count("inspected:diff-error-or-empty")
					continue
				}
				for ii, indent := range []string{"", "  "} {
					if !thorough && (di+qi+ki+ii)%2 == 1 {
						continue
					}
					p, err := drv1.PlanChanges(ctx, "p", changes, func(o *migrate.PlanOptions) { o.Indent = indent })
					if err != nil {
						// strconv.Unquote rejects the inspected default (a raw newline, a backslash that is no Go
						// escape): the plan fails, nothing is written - not a round-trip case
						w.Count("inspected:plan-error:" + dv.class + ":" + quoting)
						continue
					}
					n++
					class := "rt:inspected:" + quoting + ":" + dv.class
					desc := fmt.Sprintf("inspected SQLite database, default %s-quoted %q, diff %d, indent=%q", quoting, dv.v, ki, indent)
					variants(w, tmp, fmt.Sprintf("n%d-%d-%d-%d", di, qi, ki, ii), dialects[2], p, class, desc, di+qi+ki, true, nil, "")
				}
			}
			db1.Close()
			db2.Close()
		}
	}
	w.Set("inspected_sqlite_plans", n)
}
