package main

import (
	"fmt"
	"os"
	"path/filepath"
	"reflect"
	"strings"

	"ariga.io/atlas/sql/migrate"

	"verifharness/internal/out"
	"verifharness/internal/rng"
)

// mode read: hand-made third-party files (Goose StatementBegin/End blocks, several sections,
// text before the first pragma, DBMate sections, Liquibase rollback comments) through the
// matching reader vs FmtModel.read; cases with a known expected statement list are also
// checked by the oracle.  Randomly perturbed files (lines dropped / duplicated / swapped)
// exercise the readers' state machines against the model (tie only).
type readCase struct {
	fm      format
	content string
	want    []string // nil = tie only
	desc    string
}

func runReaders(w *out.W, tier, outDir string) {
	w.Rule = "a case is non-trivial when the reader returns >= 1 statement or a pragma error"
	tmp := filepath.Join(outDir, "read")
	os.MkdirAll(tmp, 0o755)
	defer os.RemoveAll(tmp)
	goose, dbmate, liqui, golang, flyway := formats[2], formats[5], formats[4], formats[1], formats[3]
	cases := []readCase{
		{goose, "-- +goose Up\nCREATE TABLE t (a int);\nCREATE TABLE u (a int);\n\n-- +goose Down\nDROP TABLE u;\nDROP TABLE t;\n",
			[]string{"CREATE TABLE t (a int);", "CREATE TABLE u (a int);"}, "goose plain"},
		{goose, "-- +goose Up\n-- +goose StatementBegin\nCREATE FUNCTION f() RETURNS int AS 'SELECT 1;\nSELECT 2;' LANGUAGE sql;\n-- +goose StatementEnd\nCREATE TABLE t (a int);\n-- +goose Down\nDROP TABLE t;\n",
			[]string{"CREATE FUNCTION f() RETURNS int AS 'SELECT 1;\nSELECT 2;' LANGUAGE sql;", "CREATE TABLE t (a int);"}, "goose block with line-final semicolons inside"},
		{goose, "-- +goose Up\n-- +goose StatementBegin\nCREATE TRIGGER tr AFTER INSERT ON t\nBEGIN\n  UPDATE t SET a = 1;\n  DELETE FROM t;\nEND;\n-- +goose StatementEnd\n-- +goose StatementBegin\nSELECT 1;\nSELECT 2;\n-- +goose StatementEnd\n-- +goose Down\nDROP TABLE t;\n",
			[]string{"CREATE TRIGGER tr AFTER INSERT ON t\nBEGIN\n  UPDATE t SET a = 1;\n  DELETE FROM t;\nEND;", "SELECT 1;\nSELECT 2;"}, "goose two blocks"},
		{goose, "-- +goose Up\nCREATE TABLE t (\n  a int,\n  b int\n);\n-- a comment\nCREATE INDEX i ON t (a);\n-- +goose Down\n",
			[]string{"CREATE TABLE t (\n  a int,\n  b int\n);", "CREATE INDEX i ON t (a);"}, "goose multi-line statement and comment"},
		{goose, "-- +goose Up\n-- +goose NO TRANSACTION\nCREATE TABLE t (a int);\n", []string{"CREATE TABLE t (a int);"}, "goose other pragma, no down"},
		{goose, "-- +goose Down\nDROP TABLE t;\n", nil, "goose down before up (pragma error)"},
		{goose, "-- +goose Up\n-- +goose StatementEnd\nSELECT 1;\n", nil, "goose end without begin (pragma error)"},
		{goose, "-- +goose Up\n-- +goose Up\nSELECT 1;\n", nil, "goose up twice (pragma error)"},
		{goose, "SELECT 0;\n-- +goose Up\nSELECT 1;\n-- +goose Down\nSELECT 2;\n", nil, "goose text before the first pragma"},
		{goose, "-- +goose Up\n-- +goose StatementBegin\nSELECT 1;\n-- +goose Down\nSELECT 2;\n", nil, "goose down inside a block (pragma error)"},
		{goose, "-- +goose StatementBegin\nSELECT 1;\n-- +goose StatementEnd\n-- +goose Up\nSELECT 2;\n", nil, "goose block before up (pragma error)"},
		{goose, "-- +goose StatementBegin\nSELECT 1;\n", nil, "goose begin without up (pragma error)"},
		{goose, "-- +goose Up\n-- +goose StatementBegin\n-- +goose StatementBegin\nSELECT 1;\n-- +goose StatementEnd\n", nil, "goose nested begin (pragma error)"},
		{goose, "-- +goose Up\n-- +goose StatementBegin\nSELECT 1;\n-- +goose StatementEnd\n-- +goose StatementEnd\n", nil, "goose end twice (pragma error)"},
		{dbmate, "-- migrate:up\nCREATE TABLE t (a int);\nCREATE TABLE u (a int);\n\n-- migrate:down\nDROP TABLE u;\n",
			[]string{"CREATE TABLE t (a int);", "CREATE TABLE u (a int);"}, "dbmate plain"},
		{dbmate, "-- migrate:up transaction:false\nCREATE TABLE t (a int);\n-- migrate:down\nDROP TABLE t;\n", nil, "dbmate up with option"},
		{dbmate, "SELECT 0;\n-- migrate:up\nSELECT 1;\n-- migrate:down\nSELECT 2;\n-- migrate:up\nSELECT 3;\n", []string{"SELECT 1;"}, "dbmate text before up, second up after down"},
		{dbmate, "-- migrate:up\nCREATE TABLE t (\n  a int\n);\n", []string{"CREATE TABLE t (\n  a int\n);"}, "dbmate no down section"},
		{liqui, "--liquibase formatted sql\n--changeset atlas:1-1\n--comment: create t\nCREATE TABLE t (a int);\n--rollback: DROP TABLE t;\n\n--changeset atlas:1-2\n\nCREATE TABLE u (a int);\n",
			[]string{"CREATE TABLE t (a int);", "CREATE TABLE u (a int);"}, "liquibase two changesets"},
		{golang, "-- create t\nCREATE TABLE t (a int);\n/* block */\nCREATE TABLE u (a text DEFAULT ';');\n",
			[]string{"CREATE TABLE t (a int);", "CREATE TABLE u (a text DEFAULT ';');"}, "golang-migrate comments"},
		{flyway, "CREATE TABLE t (a int);\n\n\nCREATE TABLE u (a int)\n;\n", []string{"CREATE TABLE t (a int);", "CREATE TABLE u (a int)\n;"}, "flyway blank lines"},
	}
	// bufio.Scanner's 64 KiB token limit (repaired, C07-sqltool-scanner-buffer): a line of 65536 bytes
	// or more is read like any other (oracle only: the extracted scanner is quadratic in the statement)
	long := "INSERT INTO t VALUES ('" + strings.Repeat("x", 65536-len("INSERT INTO t VALUES ('');")) + "');"
	cases = append(cases,
		readCase{goose, "-- +goose Up\nSELECT 1;\n" + long + "\nSELECT 2;\n-- +goose Down\nSELECT 3;\n", []string{"SELECT 1;", long, "SELECT 2;"}, "goose 65536-byte line (oracle only)"},
		readCase{dbmate, "-- migrate:up\nSELECT 1;\n" + long + "\nSELECT 2;\n-- migrate:down\nSELECT 3;\n", []string{"SELECT 1;", long, "SELECT 2;"}, "dbmate 65536-byte line (oracle only)"},
	)
	// third-party files as people write them (exhaustive small domain, with required statement lists)
	cases = append(cases, shapeCases()...)
	// statements that end in a comment, all five readers, first/middle/last position
	cases = append(cases, tailCases()...)
	// perturbations of real formatter output
	r := rng.FromEnv(0xC0704)
	n := 400
	if tier == "thorough" {
		n = 6000
	}
	base := &migrate.Plan{Changes: []*migrate.Change{
		{Cmd: "CREATE TABLE t (\n  a int,\n  b text DEFAULT 'x;'\n)", Comment: "create t", Reverse: "DROP TABLE t"},
		{Cmd: "CREATE INDEX i ON t (a)", Comment: "index", Reverse: "DROP INDEX i"},
		{Cmd: "INSERT INTO t VALUES (1, 'a''b')"},
	}}
	extra := []string{"-- +goose StatementBegin", "-- +goose StatementEnd", "-- +goose Up", "-- +goose Down", "-- migrate:up", "-- migrate:down", "", "SELECT 9;", "-- note", "--changeset atlas:9-9", "  ", "x Down y", "download;"}
	for k := 0; k < n; k++ {
		fm := rng.Pick(r, formats[1:])
		files, err := fm.f.Format(base)
		if err != nil || len(files) == 0 {
			continue
		}
		lines := strings.Split(string(files[0].Bytes()), "\n")
		for m := 1 + r.Intn(3); m > 0; m-- {
			i := r.Intn(len(lines))
			switch r.Intn(4) {
			case 0: // drop
				lines = append(lines[:i:i], lines[i+1:]...)
			case 1: // duplicate
				lines = append(lines[:i+1:i+1], lines[i:]...)
			case 2: // insert
				lines = append(lines[:i:i], append([]string{rng.Pick(r, extra)}, lines[i:]...)...)
			case 3: // swap
				j := r.Intn(len(lines))
				lines[i], lines[j] = lines[j], lines[i]
			}
			if len(lines) == 0 {
				lines = []string{""}
			}
		}
		cases = append(cases, readCase{fm, strings.Join(lines, "\n"), nil, fmt.Sprintf("perturbed %s output %d", fm.name, k)})
	}
	for ci, c := range cases {
		id := fmt.Sprintf("r%d", ci)
		dir := filepath.Join(tmp, id)
		os.MkdirAll(dir, 0o755)
		name := fileName(c.fm, "1", "a")
		os.WriteFile(filepath.Join(dir, name), []byte(c.content), 0o644)
		var got []string
		var rerr error
		func() {
			defer func() {
				if p := recover(); p != nil {
					rerr = fmt.Errorf("panic: %v", p)
				}
			}()
			d, err := c.fm.open(dir)
			if err != nil {
				rerr = err
				return
			}
			ff, err := d.Files()
			if err != nil || len(ff) != 1 {
				rerr = fmt.Errorf("files: %v %d", err, len(ff))
				return
			}
			got, rerr = migrate.FileStmts(dialects[1].drv, ff[0])
		}()
		os.RemoveAll(dir)
		obs := "read err "
		if rerr != nil {
			obs += errKind(rerr)
		} else {
			obs = fmt.Sprintf("read ok %d", len(got))
			for _, g := range got {
				obs += " " + hx(g)
			}
		}
		o := optSets["generic"]
		if c.fm.dialSc {
			o = optSets["postgres"]
		}
		if strings.Contains(c.desc, "(oracle only)") {
			w.ImplOnly(id, c.desc)
		} else {
			w.Case(id, strings.Join([]string{c.fm.name, bits(o), hx(c.content)}, " "), []string{obs})
		}
		w.Count("read:" + c.fm.name)
		if len(got) > 0 || rerr != nil {
			w.NonTrivial(c.fm.name + "/" + obs)
		}
		if c.want != nil && (rerr != nil || !reflect.DeepEqual(got, c.want)) {
			cls := "reader-hand-made"
			if i := strings.Index(c.desc, " hazard="); i >= 0 {
				cls = c.desc[i+len(" hazard="):] // input class of a known reader defect (shapes.go: tailHazard)
			}
			w.Violation(id, cls, fmt.Sprintf("%s: expected %q, the reader returned %q (error: %v)", c.desc, c.want, got, rerr))
		}
	}
}
