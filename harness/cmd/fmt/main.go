// Command fmt is the harness of property C07 (plan -> file -> statements round-trips).  Modes:
//
//	plan    real plans of mysql/postgres/sqlite.DefaultPlan over schemas with adversarial
//	        identifiers/comments/defaults/enum values/check expressions, and synthetic plans,
//	        x six formatters x indent x delimiters -> Formatter.Format -> directory -> matching
//	        reader -> migrate.FileStmts; oracle: statements == Plan.Changes[].Cmd.  The case file
//	        carries the plan; the extracted model (FmtModel.v) reproduces file bytes, file
//	        selection, the statements read and scan_closed of every command.
//	quote   the literal/identifier quoting functions (observed through the planners and
//	        verifx.SingleQuote/Builder) vs QuoteModel.v, with the closedness oracle.
//	import  `atlas migrate import` (real CLI) on generated third-party directories.
package main

import (
	"flag"
	"fmt"
	"os"
	"path/filepath"
	"strings"

	"ariga.io/atlas/sql/migrate"

	"verifharness/internal/out"
	"verifharness/internal/rng"
)

func main() {
	mode := flag.String("mode", "plan", "plan|quote|import|files")
	tier := flag.String("tier", "quick", "quick|thorough")
	outDir := flag.String("out", "", "output directory")
	flag.Parse()
	if *outDir == "" {
		fmt.Fprintln(os.Stderr, "missing -out")
		os.Exit(2)
	}
	w := out.New(*outDir)
	switch *mode {
	case "plan":
		runPlans(w, *tier, *outDir)
	case "quote":
		runQuote(w, *tier)
	case "import":
		runImport(w, *tier, *outDir)
	case "files":
		runFiles(w, *tier, *outDir)
	case "read":
		runReaders(w, *tier, *outDir)
	default:
		fmt.Fprintln(os.Stderr, "unknown mode")
		os.Exit(2)
	}
	w.Close()
}

var customDelims = []string{"\n\n", "//", "$$", ";"}

func clonePlan(p *migrate.Plan) *migrate.Plan {
	q := *p
	q.Changes = append([]*migrate.Change(nil), p.Changes...)
	return &q
}

// variants of one plan: every formatter with the default delimiter, and the atlas formatter
// with custom delimiters / directives (k selects which ones in the quick tier).
func variants(w *out.W, tmp string, base string, d dialect, p *migrate.Plan, class, desc string, k int, all bool, sp *spec, label string) {
	for fi, fm := range formats {
		// quick tier: the atlas format always, two of the five sqltool formats in rotation
		if !all && fi > 0 && (k+fi)%5 >= 2 {
			continue
		}
		q := clonePlan(p)
		q.Name, q.Version = "n", ""
		if fm.name == "atlas" {
			q.Version = "20240101000000"
		}
		c := &planCase{id: fmt.Sprintf("%s-f%d", base, fi), d: d, fm: fm, plan: q, class: class, spec: sp, label: label,
			desc: fmt.Sprintf("dialect=%s format=%s delim=default %s", d.name, fm.name, desc)}
		runPlanCase(w, tmp, c)
	}
	for di, dl := range customDelims {
		if !all && di != k%len(customDelims) {
			continue
		}
		q := clonePlan(p)
		q.Name, q.Version, q.Delimiter = "n", "20240101000000", dl
		if (k+di)%2 == 1 {
			q.Directives = []string{"-- atlas:txmode none"}
		}
		c := &planCase{id: fmt.Sprintf("%s-d%d", base, di), d: d, fm: formats[0], plan: q, class: class, spec: sp, label: label,
			desc: fmt.Sprintf("dialect=%s format=atlas delim=%q directives=%d %s", d.name, dl, len(q.Directives), desc)}
		runPlanCase(w, tmp, c)
	}
	if all || k%4 == 0 {
		q := clonePlan(p)
		q.Name, q.Version = "n", "20240101000000"
		q.Directives = []string{"-- atlas:txmode none", "-- atlas:nolint destructive"}
		c := &planCase{id: fmt.Sprintf("%s-dd", base), d: d, fm: formats[0], plan: q, class: class, spec: sp, label: label,
			desc: fmt.Sprintf("dialect=%s format=atlas delim=default directives=2 %s", d.name, desc)}
		runPlanCase(w, tmp, c)
	}
}

func runPlans(w *out.W, tier, outDir string) {
	w.Rule = "a case is non-trivial when the plan has >= 1 change and the real round trip succeeded; keyed by dialect/format/delimiter/input class"
	tmp := filepath.Join(outDir, "dirs")
	if st, err := os.Stat("/dev/shm"); err == nil && st.IsDir() {
		if d, err := os.MkdirTemp("/dev/shm", "c07-"); err == nil {
			tmp = d // memory file system: the stage creates one directory per case
		}
	}
	os.MkdirAll(tmp, 0o755)
	defer os.RemoveAll(tmp)
	thorough := tier == "thorough"
	// 1. exhaustive small domain: one hot string in one role
	n := 0
	for si, s := range singles() {
		if !thorough && s.shape != 0 && si%8 != 0 {
			continue
		}
		for ii, indent := range []string{"", "  "} {
			if !thorough && (si+ii)%2 == 1 && si%8 != 0 {
				continue
			}
			p, err := s.plan(indent)
			if err != nil {
				w.Count("plan-error:" + s.d.name)
				continue
			}
			n++
			desc := fmt.Sprintf("indent=%q shape=%d %s=%q", indent, s.shape, s.feats[0].role, s.hot[s.feats[0].role])
			variants(w, tmp, fmt.Sprintf("s%d-%d", si, ii), s.d, p, classOf(s), desc, si, thorough, s, "")
		}
	}
	w.Set("single_feature_plans", n)
	// 2. seeded random combinations
	r := rng.FromEnv(0xC07)
	nc := 100
	if thorough {
		nc = 3000
	}
	for ci, s := range combos(r, nc) {
		indent := ""
		if r.Bool() {
			indent = "  "
		}
		p, err := s.plan(indent)
		if err != nil {
			w.Count("plan-error:" + s.d.name)
			continue
		}
		var fs []string
		for _, f := range s.feats {
			fs = append(fs, fmt.Sprintf("%s=%q", f.role, s.hot[f.role]))
		}
		variants(w, tmp, fmt.Sprintf("c%d", ci), s.d, p, classOf(s), fmt.Sprintf("indent=%q shape=%d %s", indent, s.shape, strings.Join(fs, " ")), ci, thorough, s, "")
	}
	// 2b. plans from inspected real SQLite databases (already-quoted defaults reach the planner)
	runInspected(w, tmp, thorough)
	// 3. synthetic plans, with adversarial comments
	comments := []string{"", "plain comment", "é starts with a non-ASCII byte", "semi; colon -- and /* markers */ # x", "two\nlines", "quote ' \" ` \\", "atlas:delimiter //"}
	for si, s := range synthPlans() {
		for ci, cm := range comments {
			p := &migrate.Plan{Changes: make([]*migrate.Change, len(s.changes))}
			for i, ch := range s.changes {
				cc := *ch
				if ci > 0 || i%2 == 0 {
					cc.Comment = cm
				}
				p.Changes[i] = &cc
			}
			class := "rt:synth:" + s.label
			variants(w, tmp, fmt.Sprintf("y%d-%d", si, ci), s.d, p, class, fmt.Sprintf("synthetic=%s comment=%q", s.label, cm), si+ci, true, nil, s.label)
		}
	}
	// 3b. bufio.Scanner's 64 KiB line limit in the Goose/DBMate readers: one-line commands around the
	// limit (only these two formats: the extracted scanner is quadratic in the statement length)
	for li, n := range []int{65534, 65535, 65536, 66000} {
		body := strings.Repeat("x", n-len("INSERT INTO t VALUES ('');"))
		p := &migrate.Plan{Changes: []*migrate.Change{
			{Cmd: "CREATE TABLE t (a text)", Comment: "create t"},
			{Cmd: "INSERT INTO t VALUES ('" + body + "')"},
			{Cmd: "CREATE TABLE u (a int)", Comment: "create u"},
		}}
		for _, fi := range []int{2, 5} {
			q := clonePlan(p)
			q.Name = "n"
			// oracle only: the extracted model is quadratic on 64 KiB strings (List.rev, the scanner);
			// the limit itself is tied in the readers stage on files whose long line is cut off
			c := &planCase{id: fmt.Sprintf("l%d-f%d", li, fi), d: dialects[1], fm: formats[fi], plan: q, class: "rt:long-line", noModel: true,
				desc: fmt.Sprintf("dialect=postgres format=%s delim=default one-line command of %d bytes", formats[fi].name, n)}
			runPlanCase(w, tmp, c)
		}
	}
	// 4. the empty plan and one-change plans (template edge cases)
	for di, d := range dialects {
		variants(w, tmp, fmt.Sprintf("e%d", di), d, &migrate.Plan{}, "rt:empty-plan", "empty plan", di, true, nil, "")
		one := &migrate.Plan{Changes: []*migrate.Change{{Cmd: "SELECT 1"}}}
		variants(w, tmp, fmt.Sprintf("o%d", di), d, one, "rt:one-change", "one change, no comment", di, true, nil, "")
		rev := &migrate.Plan{Changes: []*migrate.Change{
			{Cmd: "CREATE TABLE t (a int)", Comment: "create t", Reverse: "DROP TABLE t"},
			{Cmd: "CREATE TABLE u (a int)", Comment: "create u", Reverse: []string{"DROP TABLE u", "SELECT 2"}},
			{Cmd: "CREATE TABLE v (a int)", Reverse: "DROP TABLE v"},
		}}
		variants(w, tmp, fmt.Sprintf("r%d", di), d, rev, "rt:reverse", "plan with reverse statements", di, true, nil, "")
	}
}
