package main

import (
	"fmt"
	"strings"
)

// Third-party files as people write them (exhaustive small domain): three statements; the one at
// position pos is followed, after its ';', by trailing white space ws; line ends LF or CRLF; with or
// without trailing blank lines; for Goose the statement at pos may sit inside a
// StatementBegin/StatementEnd block.  Every reader must still end each statement at its ';':
// the required statement list is the three statements.
func shapeCases() []readCase {
	var out []readCase
	stmts := []string{"CREATE TABLE t1 (a int)", "INSERT INTO t1 VALUES ('x;y', 'it''s')", "CREATE INDEX i1 ON t1 (a)"}
	want := []string{stmts[0] + ";", stmts[1] + ";", stmts[2] + ";"}
	wss := []struct{ n, s string }{{"none", ""}, {"space", " "}, {"tab", "\t"}, {"spaces+tab", "  \t"}}
	eols := []struct{ n, s string }{{"lf", "\n"}, {"crlf", "\r\n"}}
	readers := []format{formats[2], formats[5], formats[3], formats[1], formats[4]}
	for _, fm := range readers {
		for _, ws := range wss {
			for pos := 0; pos < 3; pos++ {
				for _, eol := range eols {
					for _, blank := range []bool{false, true} {
						for _, block := range []bool{false, true} {
							if block && fm.name != "goose" {
								continue
							}
							var sb strings.Builder
							e := eol.s
							switch fm.name {
							case "goose":
								sb.WriteString("-- +goose Up" + e)
							case "dbmate":
								sb.WriteString("-- migrate:up" + e)
							case "liquibase":
								sb.WriteString("--liquibase formatted sql" + e + "--changeset me:1" + e)
							}
							for i, st := range stmts {
								t := ""
								if i == pos {
									t = ws.s
								}
								if block && i == pos {
									sb.WriteString("-- +goose StatementBegin" + e + st + ";" + t + e + "-- +goose StatementEnd" + e)
								} else {
									sb.WriteString(st + ";" + t + e)
								}
							}
							switch fm.name {
							case "goose":
								sb.WriteString(e + "-- +goose Down" + e + "DROP TABLE t1;" + e)
							case "dbmate":
								sb.WriteString(e + "-- migrate:down" + e + "DROP TABLE t1;" + e)
							}
							if blank {
								sb.WriteString(e + e + e)
							}
							out = append(out, readCase{fm, sb.String(), want,
								fmt.Sprintf("shape reader=%s ws-after-semicolon=%s pos=%d eol=%s trailing-blank-lines=%v block=%v", fm.name, ws.n, pos, eol.n, blank, block)})
						}
					}
				}
			}
		}
	}
	// directives as people write them
	g, d := formats[2], formats[5]
	two := []string{"CREATE TABLE t1 (a int);", "CREATE TABLE t2 (a int);"}
	body := "CREATE TABLE t1 (a int);\nCREATE TABLE t2 (a int);\n"
	out = append(out,
		readCase{g, "-- +goose Up \t\n" + body + "-- +goose Down\t\nDROP TABLE t1;\n", two, "shape goose directives with trailing white space"},
		readCase{g, "-- +goose Up\n" + body + "\n\n-- +goose Down\nDROP TABLE t1;\n\n\n", two, "shape goose blank lines around the down directive"},
		readCase{g, "-- +goose Up\n-- +goose StatementBegin \n" + body + "-- +goose StatementEnd\t\n-- +goose Down\n", []string{"CREATE TABLE t1 (a int);\nCREATE TABLE t2 (a int);"}, "shape goose block directives with trailing white space"},
		readCase{d, "-- migrate:up \n" + body + "-- migrate:down\t\nDROP TABLE t1;\n", two, "shape dbmate directives with trailing white space"},
		readCase{d, "-- migrate:up transaction:false\n" + body + "-- migrate:down transaction:false\nDROP TABLE t1;\n", two, "shape dbmate directives with options"},
		readCase{d, "-- migrate:up\r\n" + "CREATE TABLE t1 (a int);\r\nCREATE TABLE t2 (a int);\r\n" + "-- migrate:down\r\nDROP TABLE t1;\r\n", two, "shape dbmate crlf"},
		// not directives for the tools either (goose and dbmate match them at the start of the line, case-sensitively): tie only
		readCase{g, "\t-- +goose Up\n" + body + "\t-- +goose Down\nDROP TABLE t1;\n", nil, "shape goose tab before the directives (tie only)"},
		readCase{g, "-- +goose up\n" + body + "-- +goose down\nDROP TABLE t1;\n", nil, "shape goose lower-case directives (tie only)"},
		readCase{g, "-- +GOOSE Up\n" + body + "-- +goose DOWN\nDROP TABLE t1;\n", nil, "shape goose mixed-case directives (tie only)"},
		readCase{d, "\t-- migrate:up\n" + body + "\t-- migrate:down\nDROP TABLE t1;\n", nil, "shape dbmate tab before the directives (tie only)"},
		readCase{d, "-- Migrate:Up\n" + body + "-- migrate:DOWN\nDROP TABLE t1;\n", nil, "shape dbmate mixed-case directives (tie only)"},
	)
	return out
}

// Statements that end in a comment (round D): three statements; the one at position pos ends in
// one of the five tails below.  file = what follows the statement's last token in the file,
// want = what follows it in the statement text every reader must return (the scanner keeps the
// default delimiter and everything before it; a comment after the ';' belongs to what follows).
var tailShapes = []struct{ n, file, want string }{
	{"line-comment-newline-semicolon", " -- seed row\n;", " -- seed row\n;"},
	{"block-comment-newline-semicolon", " /* seed row */\n;", " /* seed row */\n;"},
	{"delimiter-inside-line-comment", " -- c;\n;", " -- c;\n;"},
	{"blank-lines-semicolon", "\n\n;", "\n\n;"},
	{"comment-after-semicolon", ";  -- trailing", ";"},
}

var tailBases = []string{"CREATE TABLE t1 (a int)", "INSERT INTO t1 VALUES (1)", "CREATE INDEX i1 ON t1 (a)"}

// tailReaders: the five source formats of atlas migrate import
func tailReaders() []format {
	return []format{formats[2], formats[5], formats[3], formats[1], formats[4]}
}

// tailFile: the up file of format fm with tail shape sh at position pos, and the required statements.
func tailFile(fm format, sh, pos int) (string, []string) {
	var sb strings.Builder
	switch fm.name {
	case "goose":
		sb.WriteString("-- +goose Up\n")
	case "dbmate":
		sb.WriteString("-- migrate:up\n")
	case "liquibase":
		sb.WriteString("--liquibase formatted sql\n--changeset me:1\n")
	}
	var want []string
	for i, b := range tailBases {
		if i == pos {
			sb.WriteString(b + tailShapes[sh].file + "\n")
			want = append(want, b+tailShapes[sh].want)
		} else {
			sb.WriteString(b + ";\n")
			want = append(want, b+";")
		}
	}
	switch fm.name {
	case "goose":
		sb.WriteString("\n-- +goose Down\nDROP TABLE t1;\n")
	case "dbmate":
		sb.WriteString("\n-- migrate:down\nDROP TABLE t1;\n")
	}
	return sb.String(), want
}

// tailHazard: input class of a known defect of the source reader met by this file ("" = none).
// GooseFile.StmtDecls decides line by line: a line that ends in ';' ends the statement even when
// the ';' is inside a line comment (goose-line-split), and a ';' followed by a comment does not
// (goose-comment-after-semicolon); pressly/goose ignores a trailing "--" comment in both cases.
func tailHazard(fm format, sh int) string {
	if fm.name != "goose" {
		return ""
	}
	switch tailShapes[sh].n {
	case "delimiter-inside-line-comment":
		return "goose-line-split"
	case "comment-after-semicolon":
		return "goose-comment-after-semicolon"
	}
	return ""
}

func tailDesc(fm format, sh, pos int) string {
	return fmt.Sprintf("tail reader=%s statement-end=%s pos=%d", fm.name, tailShapes[sh].n, pos)
}

func tailCases() []readCase {
	var out []readCase
	for _, fm := range tailReaders() {
		for sh := range tailShapes {
			for pos := 0; pos < 3; pos++ {
				c, want := tailFile(fm, sh, pos)
				d := tailDesc(fm, sh, pos)
				if h := tailHazard(fm, sh); h != "" {
					d += " hazard=" + h
				}
				out = append(out, readCase{fm, c, want, d})
			}
		}
	}
	return out
}
