package main

import "verifharness/internal/out"

func runImport(w *out.W, tier, outDir string) {}
