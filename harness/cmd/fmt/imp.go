package main

import (
	"fmt"
	"os"
	"path/filepath"
	"reflect"
	"sort"
	"strings"

	"ariga.io/atlas/sql/migrate"

	"verifharness/internal/clirun"
	"verifharness/internal/out"
	"verifharness/internal/rng"
)

// one source directory of a third-party format
type impCase struct {
	id          string
	fm          format
	files       map[string]string
	class       string
	desc        string
	hazard      string   // input class of a known defect present in the sources ("" = none)
	want        []string // the statements the source holds (nil = whatever the source reader returns)
	cliValidate bool     // also run atlas migrate validate on the imported directory
}

func readAll(d migrate.Dir, useStmts bool) (names []string, stmts []string, err error) {
	defer func() {
		if r := recover(); r != nil {
			err = fmt.Errorf("panic: %v", r)
		}
	}()
	ff, err := d.Files()
	if err != nil {
		return nil, nil, err
	}
	for _, f := range ff {
		names = append(names, f.Name())
		st, err := f.Stmts()
		if err != nil {
			return names, nil, err
		}
		stmts = append(stmts, st...)
	}
	return names, stmts, nil
}

// body of an up file in the tool's layout
func wrapUp(fm format, up string) string {
	switch fm.name {
	case "goose":
		return "-- +goose Up\n" + up + "\n-- +goose Down\nDROP TABLE zz;\n"
	case "dbmate":
		return "-- migrate:up\n" + up + "\n-- migrate:down\nDROP TABLE zz;\n"
	case "liquibase":
		return "--liquibase formatted sql\n--changeset atlas:1-1\n" + up
	}
	return up
}

func fileName(fm format, version, desc string) string {
	switch fm.name {
	case "golang-migrate":
		return version + "_" + desc + ".up.sql"
	case "flyway":
		return "V" + version + "__" + desc + ".sql"
	}
	return version + "_" + desc + ".sql"
}

func runImport(w *out.W, tier, outDir string) {
	w.Rule = "a case is non-trivial when the source directory has >= 2 files or a statement with a quote/comment and the import preserved the sequence"
	tmp := filepath.Join(outDir, "imp")
	os.MkdirAll(tmp, 0o755)
	defer os.RemoveAll(tmp)
	r := rng.FromEnv(0xC0702)
	stmtsPool := []string{
		"CREATE TABLE t1 (a int);", "CREATE TABLE t2 (a int, b text);", "ALTER TABLE t1 ADD COLUMN b int;",
		"INSERT INTO t1 VALUES ('a;b');", "INSERT INTO t1 VALUES ('it''s');", "CREATE INDEX i1 ON t1 (a); -- trailing",
		"CREATE TABLE \"q;t\" (a int);", "INSERT INTO t1 VALUES ('--x', '/* y */');", "CREATE TABLE t3 (\n  a int,\n  b int\n);",
		"UPDATE t1 SET a = 1 WHERE b = '#';", "CREATE VIEW v AS SELECT $$a;b$$;",
	}
	commentPool := []string{"", "-- plain comment\n", "-- atlas:nolint\n", "/* block; comment */\n", "-- first\n-- second\n", "# hash comment\n"}
	var cases []impCase
	third := formats[1:]
	// 1. version-ordering domain: every pair/triple of versions from a small set, per format
	versions := []string{"1", "2", "10", "02", "1.1", "1.10", "1.2", "20240101000000", "3_1"}
	for _, fm := range third {
		for i := 0; i < len(versions); i++ {
			for j := 0; j < len(versions); j++ {
				if i == j {
					continue
				}
				if fm.name != "flyway" && strings.ContainsAny(versions[i]+versions[j], "._") {
					continue
				}
				files := map[string]string{
					fileName(fm, versions[i], "a"): wrapUp(fm, "CREATE TABLE ta (a int);\n"),
					fileName(fm, versions[j], "b"): wrapUp(fm, "CREATE TABLE tb (a int);\n"),
				}
				c := impCase{fm: fm, files: files, class: "import-order",
					desc: fmt.Sprintf("format=%s versions=[%s %s]", fm.name, versions[i], versions[j])}
				// Flyway orders versions numerically, the imported atlas directory lexically by
				// file name: input class of the known defect = the two orders differ
				if fm.name == "flyway" && (sqltoolLess(versions[i], versions[j]) != (versions[i]+"_" < versions[j]+"_")) {
					c.hazard = "import-flyway-version-order"
				}
				cases = append(cases, c)
			}
		}
	}
	// 2. flyway baseline / repeatable
	fw := formats[3]
	cases = append(cases,
		impCase{fm: fw, class: "import-flyway-kinds", desc: "flyway B2 V1 V3 R", hazard: "import-flyway-repeatable-order",
			files: map[string]string{"B2__base.sql": "CREATE TABLE b (a int);\n", "V1__old.sql": "CREATE TABLE o (a int);\n", "V3__new.sql": "CREATE TABLE n (a int);\n", "R__view.sql": "CREATE VIEW v AS SELECT 1;\n"}},
		impCase{fm: fw, class: "import-flyway-kinds", desc: "flyway R only",
			files: map[string]string{"R__view.sql": "CREATE VIEW v AS SELECT 1;\n", "R__b.sql": "CREATE VIEW w AS SELECT 1;\n"}},
		impCase{fm: fw, class: "import-flyway-kinds", desc: "flyway V1 R U1 (undo ignored)", hazard: "import-flyway-repeatable-order",
			files: map[string]string{"V1__a.sql": "CREATE TABLE a (a int);\n", "U1__a.sql": "DROP TABLE a;\n", "R__r.sql": "CREATE VIEW v AS SELECT 1;\n"}},
	)
	// 3. random content, 1-4 files
	n := 60
	if tier == "thorough" {
		n = 600
	}
	for k := 0; k < n; k++ {
		fm := rng.Pick(r, third)
		files := map[string]string{}
		nf := 1 + r.Intn(4)
		haz := ""
		for f := 0; f < nf; f++ {
			var sb strings.Builder
			ns := 1 + r.Intn(4)
			for s := 0; s < ns; s++ {
				cm := rng.Pick(r, commentPool)
				if fm.name == "liquibase" && s == 0 {
					cm = ""
				}
				sb.WriteString(cm)
				st := rng.Pick(r, stmtsPool)
				if fm.name == "goose" {
					// goose ends a statement at a line-final semicolon: a comment after it is not goose syntax
					st = strings.TrimSuffix(st, " -- trailing")
				}
				sb.WriteString(st)
				sb.WriteString("\n")
			}
			files[fileName(fm, fmt.Sprintf("%d", 100+f), fmt.Sprintf("f%d", f))] = wrapUp(fm, sb.String())
		}
		cases = append(cases, impCase{fm: fm, files: files, class: "import-content", hazard: haz,
			desc: fmt.Sprintf("format=%s files=%d (random content %d)", fm.name, nf, k)})
	}
	// 4. goose StatementBegin/End block and a trigger body
	cases = append(cases,
		impCase{fm: formats[2], class: "import-goose-block", desc: "goose StatementBegin/End block with inner semicolons",
			files: map[string]string{"1_a.sql": "-- +goose Up\n-- +goose StatementBegin\nCREATE FUNCTION f() RETURNS int AS 'SELECT 1; SELECT 2;' LANGUAGE sql;\n-- +goose StatementEnd\nCREATE TABLE t (a int);\n-- +goose Down\nDROP TABLE t;\n"}},
		impCase{fm: formats[2], class: "import-goose-block", desc: "goose StatementBegin/End trigger BEGIN END", hazard: "import-goose-statement-block",
			files: map[string]string{"1_a.sql": "-- +goose Up\n-- +goose StatementBegin\nCREATE TRIGGER tr AFTER INSERT ON t BEGIN UPDATE t SET a = 1; DELETE FROM t; END;\n-- +goose StatementEnd\nCREATE TABLE t (a int);\n-- +goose Down\nDROP TABLE t;\n"}},
	)
	// 5. statements that end in a comment (the import strips the terminator and the formatter
	// appends one: it must land outside the comment), all five source formats, first/middle/last
	for _, fm := range tailReaders() {
		for sh := range tailShapes {
			for pos := 0; pos < 3; pos++ {
				content, want := tailFile(fm, sh, pos)
				cases = append(cases, impCase{fm: fm, class: "import-statement-tail", desc: "import " + tailDesc(fm, sh, pos),
					files: map[string]string{fileName(fm, "1", "a"): content}, want: want, cliValidate: true, hazard: tailHazard(fm, sh)})
			}
		}
	}
	for ci := range cases {
		c := &cases[ci]
		c.id = fmt.Sprintf("i%d", ci)
		src := filepath.Join(tmp, c.id+"-src")
		dst := filepath.Join(tmp, c.id+"-dst")
		os.MkdirAll(src, 0o755)
		os.MkdirAll(dst, 0o755)
		for nme, body := range c.files {
			os.WriteFile(filepath.Join(src, nme), []byte(body), 0o644)
		}
		w.Count("import-format:" + c.fm.name)
		sd, err := c.fm.open(src)
		if err != nil {
			panic(err)
		}
		srcNames, srcStmts, serr := readAll(sd, true)
		res := clirun.Run(tmp, nil, "migrate", "import", "--from", "file://"+src+"?format="+c.fm.name, "--to", "file://"+dst)
		var dstNames, dstStmts []string
		var derr error
		if res.Exit == 0 {
			dd, err := migrate.NewLocalDir(dst)
			if err != nil {
				panic(err)
			}
			dstNames, dstStmts, derr = readAll(dd, true)
			if derr == nil {
				derr = migrate.Validate(dd)
			}
			if derr == nil && c.cliValidate {
				if v := clirun.Run(tmp, nil, "migrate", "validate", "--dir", "file://"+dst); v.Exit != 0 {
					derr = fmt.Errorf("atlas migrate validate exited %d: %s", v.Exit, trunc(strings.TrimSpace(v.Stderr+v.Stdout), 160))
				}
			}
		}
		sort.Strings(srcNames)
		// observation for the model (FmtImportModel.import_dir): the files of the target directory
		{
			var fn []string
			for nme := range c.files {
				fn = append(fn, nme)
			}
			sort.Strings(fn)
			toks := []string{c.fm.name, fmt.Sprint(len(fn))}
			for _, nme := range fn {
				toks = append(toks, hx(nme), hx(c.files[nme]))
			}
			obs := "imp err"
			if res.Exit == 0 {
				dd, _ := migrate.NewLocalDir(dst)
				ff, _ := dd.Files()
				obs = fmt.Sprintf("imp ok %d", len(ff))
				for _, f := range ff {
					obs += " " + hx(f.Name()) + "=" + hx(string(f.Bytes()))
				}
			}
			w.Case(c.id, strings.Join(toks, " "), []string{obs})
		}
		switch {
		case serr != nil:
			w.Count("import:source-unreadable")
			if res.Exit == 0 {
				w.Violation(c.id, c.class, c.desc+": the source reader fails ("+errKind(serr)+") but import succeeded")
			}
		case res.Exit != 0:
			w.Count("import:cli-failed")
			w.Violation(c.id, c.class, fmt.Sprintf("%s: atlas migrate import exited %d: %s", c.desc, res.Exit, trunc(strings.TrimSpace(res.Stderr), 200)))
		case derr != nil:
			w.Violation(c.id, c.class, c.desc+": the imported directory cannot be read/validated: "+trunc(derr.Error(), 200))
		case !reflect.DeepEqual(srcStmts, dstStmts):
			i := 0
			for i < len(srcStmts) && i < len(dstStmts) && srcStmts[i] == dstStmts[i] {
				i++
			}
			g, wn := "<none>", "<none>"
			if i < len(dstStmts) {
				g = fmt.Sprintf("%q", trunc(dstStmts[i], 100))
			}
			if i < len(srcStmts) {
				wn = fmt.Sprintf("%q", trunc(srcStmts[i], 100))
			}
			w.Count("import:sequence-changed")
			cls := c.class
			if c.hazard != "" {
				cls = c.hazard
			}
			w.Violation(c.id, cls, fmt.Sprintf("%s: source has %d statements, imported directory %d (files %v); first difference at %d: source %s imported %s", c.desc, len(srcStmts), len(dstStmts), dstNames, i, wn, g))
		case c.want != nil && c.hazard == "" && !reflect.DeepEqual(dstStmts, c.want):
			w.Count("import:not-the-source-statements")
			w.Violation(c.id, c.class+":source-reader", fmt.Sprintf("%s: the file holds the statements %q; the source reader returned %q and the imported directory reads back %q", c.desc, c.want, srcStmts, dstStmts))
		default:
			w.Count("import:ok")
			if len(c.files) >= 2 || strings.ContainsAny(strings.Join(srcStmts, ""), "'-/") {
				w.NonTrivial(c.fm.name + "/" + c.class + "/" + fmt.Sprint(len(c.files)) + "/" + fmt.Sprint(len(srcStmts)))
			}
		}
		os.RemoveAll(src)
		os.RemoveAll(dst)
	}
}

// sqltoolLess: Flyway's version order (sql/sqltool: flywayVersionCompare), re-implemented for
// the input classification only.
func sqltoolLess(a, b string) bool {
	parse := func(s string) []int {
		var out []int
		for _, p := range strings.Split(strings.ReplaceAll(s, "_", "."), ".") {
			n := 0
			ok := p != ""
			for _, ch := range p {
				if ch < '0' || ch > '9' {
					ok = false
					break
				}
				n = n*10 + int(ch-'0')
			}
			if !ok {
				n = 0
			}
			out = append(out, n)
		}
		return out
	}
	x, y := parse(a), parse(b)
	for i := 0; i < len(x) && i < len(y); i++ {
		if x[i] != y[i] {
			return x[i] < y[i]
		}
	}
	return len(x) < len(y)
}
