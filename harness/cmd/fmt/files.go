package main

import (
	"fmt"
	"os"
	"path/filepath"
	"reflect"
	"sort"
	"strings"

	"verifharness/internal/out"
	"verifharness/internal/rng"
)

// mode files: which files a directory reader selects and in which order (LocalDir.Files,
// GolangMigrateDir.Files, FlywayDir.Files) vs FmtModel.dir_files, with an independent oracle.
func runFiles(w *out.W, tier, outDir string) {
	w.Rule = "a case is non-trivial when the reader returns >= 2 files"
	tmp := filepath.Join(outDir, "files")
	os.MkdirAll(tmp, 0o755)
	defer os.RemoveAll(tmp)
	r := rng.FromEnv(0xC0703)
	versions := []string{"1", "2", "10", "02", "1.1", "1.10", "1.2", "3_1", "20240101000000", "100", "9", "1.0.1"}
	kinds := []string{"V", "V", "V", "B", "R", "U"}
	var sets [][]string
	// flyway: every pair and triple of V versions; random mixes with B/R/U
	for i := range versions {
		for j := range versions {
			if i < j {
				sets = append(sets, []string{"V" + versions[i] + "__a.sql", "V" + versions[j] + "__b.sql"})
			}
		}
	}
	n := 200
	if tier == "thorough" {
		n = 4000
	}
	for k := 0; k < n; k++ {
		var s []string
		seen := map[string]bool{}
		for f := 2 + r.Intn(4); f > 0; f-- {
			v := rng.Pick(r, versions)
			kd := rng.Pick(r, kinds)
			name := kd + v + "__d" + fmt.Sprint(f) + ".sql"
			if kd == "R" {
				name = "R__d" + fmt.Sprint(f) + ".sql"
			}
			if !seen[kd+v] {
				seen[kd+v] = true
				s = append(s, name)
			}
		}
		sets = append(sets, s)
	}
	id := 0
	run := func(fm format, names []string) {
		id++
		cid := fmt.Sprintf("d%d", id)
		dir := filepath.Join(tmp, cid)
		os.MkdirAll(dir, 0o755)
		defer os.RemoveAll(dir)
		for _, nme := range names {
			os.WriteFile(filepath.Join(dir, nme), []byte("SELECT 1;\n"), 0o644)
		}
		d, err := fm.open(dir)
		if err != nil {
			panic(err)
		}
		ff, err := d.Files()
		if err != nil {
			w.Count("files-error")
			return
		}
		var got []string
		for _, f := range ff {
			got = append(got, f.Name())
		}
		toks := []string{fm.name, fmt.Sprint(len(names))}
		for _, nme := range names {
			toks = append(toks, hx(nme))
		}
		obs := []string{fmt.Sprintf("dir %d", len(got))}
		for _, g := range got {
			obs = append(obs, hx(g))
		}
		w.Case(cid, strings.Join(toks, " "), []string{strings.Join(obs, " ")})
		w.Count("files:" + fm.name)
		if len(got) >= 2 {
			w.NonTrivial(fm.name + "/" + strings.Join(got, ","))
		}
		// oracle
		switch fm.name {
		case "flyway":
			// versioned files come in non-decreasing numeric version order; no U file; only V/B/R
			var vs []string
			for _, g := range got {
				if g[0] == 'U' {
					w.Violation(cid, "files-flyway-undo-selected", fmt.Sprintf("FlywayDir.Files returned the undo file %s of %v", g, names))
				}
				if g[0] == 'V' {
					vs = append(vs, strings.SplitN(strings.TrimSuffix(g, ".sql"), "__", 2)[0][1:])
				}
			}
			for i := 1; i < len(vs); i++ {
				if sqltoolLess(vs[i], vs[i-1]) {
					w.Violation(cid, "files-flyway-order", fmt.Sprintf("FlywayDir.Files of %v returns version %s before %s", names, vs[i-1], vs[i]))
				}
			}
		default:
			suffix := ".sql"
			if fm.name == "golang-migrate" {
				suffix = ".up.sql"
			}
			var want []string
			for _, nme := range names {
				if strings.HasSuffix(nme, suffix) {
					want = append(want, nme)
				}
			}
			sort.Strings(want)
			if !reflect.DeepEqual(want, got) {
				w.Violation(cid, "files-selection", fmt.Sprintf("%s reader of %v returns %v, expected %v", fm.name, names, got, want))
			}
		}
	}
	for _, s := range sets {
		run(formats[3], s)
	}
	// the other readers: lexical order, suffix filter
	others := [][]string{
		{"1_a.up.sql", "1_a.down.sql", "2_b.up.sql", "10_c.up.sql", "10_c.down.sql", "readme.md"},
		{"1_a.sql", "2_b.sql", "10_c.sql", "atlas.sum", "notes.txt", "02_d.sql"},
		{"20240101000000_a.sql", "20240101000001_b.sql", "20230101000000_c.sql"},
		{"b.sql", "a.sql", "a.up.sql", "A.sql"},
	}
	for _, fm := range []format{formats[0], formats[1], formats[2], formats[4], formats[5]} {
		for _, s := range others {
			run(fm, s)
		}
	}
}
