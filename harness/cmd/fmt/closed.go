package main

import (
	"regexp"
	"strings"
	"unicode/utf8"

	"ariga.io/atlas/sql/migrate"
)

// Go port of coq/theories/Lex/ClosedModel.v (scan_closed, delim_ok): an independent second
// implementation, compared with the extracted Coq predicate on every command of every case
// (observation line "closed <bits>").  The oracle uses it to test the theorem's statement on
// the real code: closed commands must round-trip.

var reDollarQuoteC = regexp.MustCompile(`^\$([A-Za-zÈ-ÿ_][\wÈ-ÿ]*)*\$`)

func isQuote(r rune) bool { return r == '\'' || r == '"' || r == '`' }

func delimOK(d string) bool {
	if d == "" {
		return false
	}
	for i := 0; i < len(d); i++ {
		b := d[i]
		if b >= 128 || b == '\\' || b == ':' {
			return false
		}
		if !(b == '\n' || b == '\r' || b == '\t' || (b >= 32 && b <= 126)) {
			return false
		}
	}
	b := d[0]
	if b == '(' || b == ')' || isQuote(rune(b)) || b == ' ' {
		return false
	}
	return d[len(d)-1] != ' '
}

func reS(b byte) bool { return b == '\t' || b == '\n' || b == '\f' || b == '\r' || b == ' ' }

func hasPrefixCI(s, upper string) bool {
	if len(s) < len(upper) {
		return false
	}
	for i := 0; i < len(upper); i++ {
		c := s[i]
		if c >= 'a' && c <= 'z' {
			c -= 32
		}
		if c != upper[i] {
			return false
		}
	}
	return true
}

func beginHint(x string) bool {
	i := 0
	for i < len(x) && reS(x[i]) {
		i++
	}
	return hasPrefixCI(x[i:], "BEGIN")
}

// decode = utf8.DecodeRuneInString (the model's decode_rune is tied to it by C08's stage "runes")
func decode(l string) (rune, int) { return utf8.DecodeRuneInString(l) }

// qloop: l = rest of cmd ++ follow; n = bytes of cmd left. Returns (n', offset consumed, ok).
func qloop(q rune, esc bool, n int, l string) (int, string, bool) {
	for {
		if n == 0 {
			return 0, "", false
		}
		r, w := decode(l)
		if w == 0 || n < w {
			return 0, "", false
		}
		n1, l1 := n-w, l[w:]
		switch {
		case r == '\\' && esc:
			if n1 == 0 {
				return 0, "", false
			}
			_, w2 := decode(l1)
			if w2 == 0 || n1 < w2 {
				return 0, "", false
			}
			n, l = n1-w2, l1[w2:]
		case r == q:
			return n1, l1, true
		default:
			n, l = n1, l1
		}
	}
}

func dloop(m string, n int, l string) (int, string, bool) {
	for {
		if n == 0 {
			return 0, "", false
		}
		r, w := decode(l)
		if w == 0 || n < w {
			return 0, "", false
		}
		if r == '$' && strings.HasPrefix(l, m) {
			if n < len(m) {
				return 0, "", false
			}
			return n - len(m), l[len(m):], true
		}
		n, l = n-w, l[w:]
	}
}

func cskip(right string, n int, l string) (int, string, bool) {
	i := strings.Index(l, right)
	if i < 0 {
		return 0, "", false
	}
	k := i + len(right)
	if n < k {
		return 0, "", false
	}
	return n - k, l[k:], true
}

func trimmed(cmd string) bool { return cmd != "" && strings.TrimSpace(cmd) == cmd }

func scanClosed(o migrate.ScannerOptions, d string, cmd string) bool {
	if !trimmed(cmd) {
		return false
	}
	live := d == ";" && (o.MatchBegin || o.MatchBeginAtomic || o.MatchBeginTryCatch)
	n, l := len(cmd), cmd+d+"\n"
	start, depth := true, 0
	prev := -1 // byte before l
	for {
		if n == 0 {
			return depth == 0
		}
		r, w := decode(l)
		if w == 0 || n < w {
			return false
		}
		n1, l1 := n-w, l[w:]
		pv := int(l[w-1])
		switch {
		case r == '(':
			depth++
			n, l, prev = n1, l1, pv
		case r == ')':
			if depth == 0 {
				return false
			}
			depth--
			n, l, prev = n1, l1, pv
		case isQuote(r):
			n2, l2, ok := qloop(r, o.BackslashEscapes, n1, l1)
			if !ok {
				return false
			}
			n, l, prev = n2, l2, int(r)
		case start && w == 1 && hasPrefixCI(l, "DELIMITER"):
			return false
		case depth == 0 && strings.HasPrefix(l, d):
			return false
		case o.MatchDollarQuote && r == '$' && reDollarQuoteC.MatchString(l):
			m := reDollarQuoteC.FindString(l)
			if n < len(m) {
				return false
			}
			n2, l2, ok := dloop(m, n-len(m), l[len(m):])
			if !ok {
				return false
			}
			n, l, prev = n2, l2, '$'
		case r == '#' && o.HashComments:
			if start {
				return false
			}
			n2, l2, ok := cskip("\n", n1, l1)
			if !ok {
				return false
			}
			n, l, prev = n2, l2, '\n'
		case r == '-' && strings.HasPrefix(l1, "-"):
			if start || n1 == 0 {
				return false
			}
			n2, l2, ok := cskip("\n", n1-1, l1[1:])
			if !ok {
				return false
			}
			n, l, prev = n2, l2, '\n'
		case r == '/' && strings.HasPrefix(l1, "*"):
			if start || n1 == 0 {
				return false
			}
			n2, l2, ok := cskip("*/", n1-1, l1[1:])
			if !ok {
				return false
			}
			n, l, prev = n2, l2, '/'
		default:
			if live {
				var lm2 string
				switch {
				case w == 1 && prev >= 0:
					lm2 = string([]byte{byte(prev)}) + l
				case w == 1:
					lm2 = l
				default:
					lm2 = l[w-2:]
				}
				if beginHint(l[w-1:]) || beginHint(lm2) {
					return false
				}
			}
			n, l, prev = n1, l1, pv
		}
		start = false
	}
}
