package main

import (
	"regexp"
	"strings"
	"unicode"
	"unicode/utf8"

	"ariga.io/atlas/sql/migrate"
)

// Go port of coq/theories/Lex/ClosedModel.v (scan_closed, delim_ok): an independent second
// implementation, compared with the extracted Coq predicate on every command of every case
// (observation line "closed <bits>").  The oracle uses it to test the theorem's statement on
// the real code: closed commands must round-trip.

var reDollarQuoteC = regexp.MustCompile(`^\$([A-Za-zÈ-ÿ_][\wÈ-ÿ]*)*\$`)

func isQuote(r rune) bool { return r == '\'' || r == '"' || r == '`' }

func delimOK(d string) bool {
	if d == "" {
		return false
	}
	for i := 0; i < len(d); i++ {
		b := d[i]
		if b >= 128 || b == '\\' || b == ':' {
			return false
		}
		if !(b == '\n' || b == '\r' || b == '\t' || (b >= 32 && b <= 126)) {
			return false
		}
	}
	b := d[0]
	if b == '(' || b == ')' || isQuote(rune(b)) || b == ' ' {
		return false
	}
	return d[len(d)-1] != ' '
}

func reS(b byte) bool { return b == '\t' || b == '\n' || b == '\f' || b == '\r' || b == ' ' }

func hasPrefixCI(s, upper string) bool {
	if len(s) < len(upper) {
		return false
	}
	for i := 0; i < len(upper); i++ {
		c := s[i]
		if c >= 'a' && c <= 'z' {
			c -= 32
		}
		if c != upper[i] {
			return false
		}
	}
	return true
}

func beginHint(x string) bool {
	i := 0
	for i < len(x) && reS(x[i]) {
		i++
	}
	return hasPrefixCI(x[i:], "BEGIN")
}

// decode = utf8.DecodeRuneInString (the model's decode_rune is tied to it by C08's stage "runes")
func decode(l string) (rune, int) { return utf8.DecodeRuneInString(l) }

// qloop: l = rest of cmd ++ follow; n = bytes of cmd left. Returns (n', offset consumed, ok).
func qloop(q rune, esc bool, n int, l string) (int, string, bool) {
	for {
		if n == 0 {
			return 0, "", false
		}
		r, w := decode(l)
		if w == 0 || n < w {
			return 0, "", false
		}
		n1, l1 := n-w, l[w:]
		switch {
		case r == '\\' && esc:
			if n1 == 0 {
				return 0, "", false
			}
			_, w2 := decode(l1)
			if w2 == 0 || n1 < w2 {
				return 0, "", false
			}
			n, l = n1-w2, l1[w2:]
		case r == q:
			return n1, l1, true
		default:
			n, l = n1, l1
		}
	}
}

func dloop(m string, n int, l string) (int, string, bool) {
	for {
		if n == 0 {
			return 0, "", false
		}
		r, w := decode(l)
		if w == 0 || n < w {
			return 0, "", false
		}
		if r == '$' && strings.HasPrefix(l, m) {
			if n < len(m) {
				return 0, "", false
			}
			return n - len(m), l[len(m):], true
		}
		n, l = n-w, l[w:]
	}
}

func cskip(right string, n int, l string) (int, string, bool) {
	i := strings.Index(l, right)
	if i < 0 {
		return 0, "", false
	}
	k := i + len(right)
	if n < k {
		return 0, "", false
	}
	return n - k, l[k:], true
}

func trimmed(cmd string) bool { return cmd != "" && strings.TrimSpace(cmd) == cmd }

func scanClosed(o migrate.ScannerOptions, d string, cmd string) bool {
	return scanClosedF(o, d, cmd, d+"\n")
}

// scanClosedNL: ClosedNLModel.v scan_closed_nl (the delimiter on the next line, d <> ";").
func scanClosedNL(o migrate.ScannerOptions, d string, cmd string) bool {
	return d != ";" && scanClosedF(o, d, cmd, "\n"+d+"\n")
}

func scanClosedF(o migrate.ScannerOptions, d string, cmd string, follow string) bool {
	if !trimmed(cmd) {
		return false
	}
	live := d == ";" && (o.MatchBegin || o.MatchBeginAtomic || o.MatchBeginTryCatch)
	n, l := len(cmd), cmd+follow
	start, depth := true, 0
	prev := -1 // byte before l
	for {
		if n == 0 {
			return depth == 0
		}
		r, w := decode(l)
		if w == 0 || n < w {
			return false
		}
		n1, l1 := n-w, l[w:]
		pv := int(l[w-1])
		switch {
		case r == '(':
			depth++
			n, l, prev = n1, l1, pv
		case r == ')':
			if depth == 0 {
				return false
			}
			depth--
			n, l, prev = n1, l1, pv
		case isQuote(r):
			n2, l2, ok := qloop(r, o.BackslashEscapes, n1, l1)
			if !ok {
				return false
			}
			n, l, prev = n2, l2, int(r)
		case start && w == 1 && hasPrefixCI(l, "DELIMITER"):
			return false
		case depth == 0 && strings.HasPrefix(l, d):
			return false
		case o.MatchDollarQuote && r == '$' && reDollarQuoteC.MatchString(l):
			m := reDollarQuoteC.FindString(l)
			if n < len(m) {
				return false
			}
			n2, l2, ok := dloop(m, n-len(m), l[len(m):])
			if !ok {
				return false
			}
			n, l, prev = n2, l2, '$'
		case r == '#' && o.HashComments:
			if start {
				return false
			}
			n2, l2, ok := cskip("\n", n1, l1)
			if !ok {
				return false
			}
			n, l, prev = n2, l2, '\n'
		case r == '-' && strings.HasPrefix(l1, "-"):
			if start || n1 == 0 {
				return false
			}
			n2, l2, ok := cskip("\n", n1-1, l1[1:])
			if !ok {
				return false
			}
			n, l, prev = n2, l2, '\n'
		case r == '/' && strings.HasPrefix(l1, "*"):
			if start || n1 == 0 {
				return false
			}
			n2, l2, ok := cskip("*/", n1-1, l1[1:])
			if !ok {
				return false
			}
			n, l, prev = n2, l2, '/'
		default:
			if live {
				var lm2 string
				switch {
				case w == 1 && prev >= 0:
					lm2 = string([]byte{byte(prev)}) + l
				case w == 1:
					lm2 = l
				default:
					lm2 = l[w-2:]
				}
				if beginHint(l[w-1:]) || beginHint(lm2) {
					return false
				}
			}
			n, l, prev = n1, l1, pv
		}
		start = false
	}
}

// ---- Go port of Lex/FmtHyp.v: roundtrip_hyp (the decidable hypothesis of C07_roundtrip)

func commentOK(c string) bool  { return !strings.Contains(c, "\n") }
func commentOK2(c string) bool { return commentOK(c) && !strings.HasPrefix(c, "atlas:delimiter") }
func directiveOK(x string) bool {
	return strings.HasPrefix(x, "--") && commentOK(x) && !strings.HasPrefix(x, "-- atlas:delimiter")
}

// modelLines: FmtModel.lines (bufio.ScanLines).
func modelLines(s string) []string {
	if s == "" {
		return nil
	}
	ls := strings.Split(s, "\n")
	if ls[len(ls)-1] == "" {
		ls = ls[:len(ls)-1]
	}
	for i, l := range ls {
		ls[i] = strings.TrimSuffix(l, "\r")
	}
	return ls
}

func toolComment(c string) string {
	if c == "" {
		return ""
	}
	return "-- " + c + "\n"
}

const maxLine = 65535 // bufio.MaxScanTokenSize - 1

func shortLines(text string) bool {
	for _, l := range modelLines(text) {
		if len(l) > maxLine {
			return false
		}
	}
	return true
}

func dbmateOK(up string) bool {
	for _, l := range modelLines(up) {
		if strings.HasPrefix(l, "-- migrate:") {
			return false
		}
	}
	return !strings.Contains(up, "\r")
}

const gooseDelim = "-- ATLAS_DELIM_END"

func gooseEnds(l string) bool { return strings.HasSuffix(l, ";") && !strings.HasPrefix(l, "--") }

func gooseChangeOK(cmd, comment string) bool {
	text := toolComment(comment) + cmd + ";\n"
	ls := modelLines(text)
	for i, l := range ls {
		if strings.HasPrefix(l, "-- +goose") {
			return false
		}
		if strings.TrimRightFunc(l, unicode.IsSpace) != l {
			return false
		}
		if gooseEnds(l) != (i == len(ls)-1) {
			return false
		}
	}
	return !strings.Contains(text, "\r") && !strings.HasPrefix(toolComment(comment), gooseDelim)
}

type hypChange struct {
	cmd, comment string
	reverse      []string
}

func roundtripHyp(format string, o migrate.ScannerOptions, delimiter string, directives []string, cs []hypChange) bool {
	generic := migrate.ScannerOptions{MatchBeginAtomic: true, MatchDollarQuote: true}
	switch format {
	case "atlas":
		d := ";"
		if delimiter != "" {
			d = delimiter
			if !delimOK(d) || d[0] == '-' {
				return false
			}
		}
		for _, x := range directives {
			if !directiveOK(x) {
				return false
			}
		}
		for _, c := range cs {
			if !scanClosed(o, d, c.cmd) || !commentOK(c.comment) {
				return false
			}
		}
		return true
	case "golang-migrate", "flyway", "dbmate":
		up := ""
		for _, c := range cs {
			if !scanClosed(generic, ";", c.cmd) || !commentOK2(c.comment) {
				return false
			}
			up += toolComment(c.comment) + c.cmd + ";\n"
		}
		return format != "dbmate" || dbmateOK(up)
	case "liquibase":
		if len(cs) == 0 {
			return false
		}
		for _, c := range cs {
			// (reverse statements are unconstrained since fix ae3e356: every line gets the
			// "--rollback: " prefix)
			if !scanClosed(o, ";", c.cmd) || !commentOK(c.comment) {
				return false
			}
		}
		return true
	case "goose":
		for _, c := range cs {
			if !gooseChangeOK(c.cmd, c.comment) || !commentOK(c.comment) || !scanClosedNL(generic, gooseDelim, c.cmd+";") {
				return false
			}
		}
		return true
	}
	return false
}
