package main

import (
	"context"
	"fmt"
	"strings"

	"ariga.io/atlas/sql/migrate"
	"ariga.io/atlas/sql/mysql"
	"ariga.io/atlas/sql/postgres"
	"ariga.io/atlas/sql/schema"
	"ariga.io/atlas/sql/sqlite"

	"verifharness/internal/rng"
)

// ---- adversarial strings ("hot" strings), each with the class the oracle reports

type hot struct{ class, s string }

var hots = []hot{
	{"plain", "x1"},
	{"squote", "a'b"},
	{"squote2", "a''b"},
	{"squote-end", "ab'"},
	{"dquote", `a"b`},
	{"dquote-end", `ab"`},
	{"btick", "a`b"},
	{"semi", "a;b"},
	{"semi-end", "ab;"},
	{"dashdash", "a--b"},
	{"dashdash-sp", "a -- b"},
	{"hash", "a#b"},
	{"copen", "a/*b"},
	{"cclose", "a*/b"},
	{"cboth", "a/*b*/c"},
	{"bslash", `a\b`},
	{"bslash-end", `ab\`},
	{"bslash-squote", `a\'b`},
	{"bslash-dquote", `a\"b`},
	{"nl", "a\nb"},
	{"crlf", "a\r\nb"},
	{"nlnl", "a\n\nb"},
	{"nl-start", "\nab"},
	{"nl-end", "ab\n"},
	{"cr", "a\rb"},
	{"cr-end", "ab\r"},
	{"crlf-end", "ab\r\n"},
	{"crlf-start", "\r\nab"},
	{"tab", "a\tb"},
	{"dollar", "a$$b"},
	{"dollartag", "a$t$b"},
	{"begin", "a BEGIN b"},
	{"beginend", "BEGIN x; END"},
	{"begin-atomic", "x BEGIN ATOMIC y"},
	{"delimiter", "DELIMITER //"},
	{"unicode", "é✓b"},
	{"u2028", "a\u2028b"},
	{"nbsp-end", "ab\u00a0"},
	{"paren-open", "a(b"},
	{"paren-close", "a)b"},
	{"space-end", "ab "},
	{"space-start", " ab"},
	{"Down", "CountDown"},
	{"down", "download"},
	{"slashslash", "a//b"},
	{"go", "a\nGO\nb"},
	{"goose-up", "-- +goose Up"},
	{"stmtbegin", "StatementBegin"},
	{"dbmate-up", "-- migrate:up"},
	{"semi-nl", "a;\nb"},
	{"space-nl", "a \nb"},
	{"pct", "a%sb%d"},
	{"atlas-delim", "-- atlas:delimiter \\n\\n"},
	{"nul", "a\x00b"},
	{"bad-utf8", "a\xffb"},
}

var roles = []string{"table", "column", "index", "fk", "check-name", "schema", "enum-type",
	"tcomment", "ccomment", "icomment", "default", "enumval", "check-expr", "rename-to"}

// ---- schema builders

type dialect struct {
	name string
	plan migrate.PlanApplier
	drv  migrate.Driver // real driver type over no connection: only ScanStmts is used
	qo   byte           // identifier quote (closing)
}

var dialects = []dialect{
	{"mysql", mysql.DefaultPlan, &mysql.Driver{}, '`'},
	{"postgres", postgres.DefaultPlan, &postgres.Driver{}, '"'},
	{"sqlite", sqlite.DefaultPlan, &sqlite.Driver{}, '`'},
}

type feature struct{ role, class string }

// spec of one generated change set: which hot string goes where.
type spec struct {
	d     dialect
	feats []feature
	hot   map[string]string // role -> string ("" = benign default)
	shape int               // which change set
}

func (s *spec) get(role, def string) string {
	if v, ok := s.hot[role]; ok {
		return v
	}
	return def
}

func intT(d dialect) schema.Type {
	switch d.name {
	case "postgres", "sqlite":
		return &schema.IntegerType{T: "integer"}
	}
	return &schema.IntegerType{T: "int"}
}
func textT(d dialect) schema.Type {
	switch d.name {
	case "postgres", "sqlite":
		return &schema.StringType{T: "text"}
	}
	return &schema.StringType{T: "varchar", Size: 64}
}

// sqlLit quotes s the way a user writes a string literal in an expression of the dialect.
func sqlLit(d dialect, s string) string {
	s = strings.ReplaceAll(s, "'", "''")
	if d.name == "mysql" {
		s = strings.ReplaceAll(s, `\`, `\\`)
	}
	return "'" + s + "'"
}

// build returns the change set of a spec.
func (s *spec) build() []schema.Change {
	d := s.d
	sc := schema.New(s.get("schema", "main"))
	if d.name == "postgres" && s.get("schema", "") == "" {
		sc = schema.New("public")
	}
	t := schema.NewTable(s.get("table", "users")).SetSchema(sc)
	id := schema.NewColumn("id").SetType(intT(d))
	c1 := schema.NewColumn(s.get("column", "name")).SetType(textT(d)).SetNull(true)
	if v, ok := s.hot["ccomment"]; ok {
		c1.SetComment(v)
	}
	if v, ok := s.hot["default"]; ok {
		// a string default the way the HCL layer hands it to the planner: a quoted literal
		c1.SetDefault(&schema.Literal{V: sqlLit(d, v)})
	}
	t.AddColumns(id, c1)
	t.SetPrimaryKey(schema.NewPrimaryKey(id))
	if v, ok := s.hot["tcomment"]; ok {
		t.SetComment(v)
	}
	idx := schema.NewIndex(s.get("index", "idx_name")).AddColumns(c1)
	if v, ok := s.hot["icomment"]; ok {
		idx.SetComment(v)
	}
	t.AddIndexes(idx)
	if _, ok := s.hot["check-expr"]; ok || s.hot["check-name"] != "" {
		t.AddChecks(&schema.Check{
			Name: s.get("check-name", "chk1"),
			Expr: "(" + quoteIdent(d, s.get("column", "name")) + " <> " + sqlLit(d, s.get("check-expr", "zz")) + ")",
		})
	}
	var enumT *schema.EnumType
	if v, ok := s.hot["enumval"]; ok || s.hot["enum-type"] != "" {
		enumT = &schema.EnumType{T: s.get("enum-type", "status"), Values: []string{"on", s.get("enumval", "off")}, Schema: sc}
		_ = v
		t.AddColumns(schema.NewColumn("st").SetType(enumT))
	}
	// a second table referencing the first
	t2 := schema.NewTable("posts").SetSchema(sc)
	pid := schema.NewColumn("id").SetType(intT(d))
	uid := schema.NewColumn("uid").SetType(intT(d)).SetNull(true)
	t2.AddColumns(pid, uid)
	t2.SetPrimaryKey(schema.NewPrimaryKey(pid))
	fk := schema.NewForeignKey(s.get("fk", "fk_user")).AddColumns(uid).SetRefTable(t).AddRefColumns(id).SetOnDelete(schema.Cascade)
	t2.AddForeignKeys(fk)
	sc.AddTables(t, t2)

	var cs []schema.Change
	switch s.shape {
	case 0: // create everything
		if d.name != "sqlite" && s.hot["schema"] != "" {
			cs = append(cs, &schema.AddSchema{S: sc})
		}
		if enumT != nil && d.name == "postgres" {
			cs = append(cs, &schema.AddObject{O: enumT})
		}
		cs = append(cs, &schema.AddTable{T: t}, &schema.AddTable{T: t2})
	case 1: // alter
		nc := schema.NewColumn(s.get("column", "name") + "2").SetType(textT(d)).SetNull(true)
		if v, ok := s.hot["ccomment"]; ok {
			nc.SetComment(v + "2")
		}
		if v, ok := s.hot["default"]; ok {
			nc.SetDefault(&schema.Literal{V: sqlLit(d, v)})
		}
		nidx := schema.NewIndex(s.get("index", "idx_name") + "2").AddColumns(id)
		nidx.Table = t
		if v, ok := s.hot["icomment"]; ok {
			nidx.SetComment(v)
		}
		mt := &schema.ModifyTable{T: t, Changes: []schema.Change{
			&schema.AddColumn{C: nc},
			&schema.AddIndex{I: nidx},
			&schema.DropIndex{I: idx},
		}}
		if v, ok := s.hot["tcomment"]; ok {
			mt.Changes = append(mt.Changes, &schema.ModifyAttr{From: &schema.Comment{Text: "old"}, To: &schema.Comment{Text: v}})
		}
		if _, ok := s.hot["check-expr"]; ok || s.hot["check-name"] != "" {
			mt.Changes = append(mt.Changes, &schema.AddCheck{C: &schema.Check{
				Name: s.get("check-name", "chk1") + "b",
				Expr: "(" + quoteIdent(d, s.get("column", "name")) + " <> " + sqlLit(d, s.get("check-expr", "zz")) + ")",
			}})
		}
		cs = append(cs, mt)
		cs = append(cs, &schema.ModifyTable{T: t2, Changes: []schema.Change{&schema.DropForeignKey{F: fk}, &schema.AddForeignKey{F: fk}}})
		if enumT != nil && d.name == "postgres" {
			to := &schema.EnumType{T: enumT.T, Values: append(append([]string{}, enumT.Values...), s.get("enumval", "off")+"2"), Schema: sc}
			cs = append(cs, &schema.ModifyObject{From: enumT, To: to})
		}
	case 3: // modify / drop column, drop check, modify index: the SQLite planner rebuilds the table
		// (PRAGMA foreign_keys, CREATE TABLE new_, INSERT ... SELECT, DROP, RENAME), MySQL MODIFY COLUMN,
		// PostgreSQL ALTER COLUMN ... TYPE / SET DEFAULT / COMMENT ON COLUMN
		to := schema.NewColumn(s.get("column", "name")).SetType(intT(d)).SetNull(false)
		if v, ok := s.hot["ccomment"]; ok {
			to.SetComment(v + "x")
		}
		if v, ok := s.hot["default"]; ok {
			to.SetDefault(&schema.Literal{V: sqlLit(d, v+"z")})
		}
		mt := &schema.ModifyTable{T: t, Changes: []schema.Change{
			&schema.ModifyColumn{From: c1, To: to, Change: schema.ChangeType | schema.ChangeNull | schema.ChangeDefault | schema.ChangeComment},
		}}
		extra := schema.NewColumn("extra").SetType(textT(d)).SetNull(true)
		if v, ok := s.hot["default"]; ok {
			extra.SetDefault(&schema.Literal{V: sqlLit(d, v)})
		}
		mt.Changes = append(mt.Changes, &schema.DropColumn{C: extra})
		if _, ok := s.hot["check-expr"]; ok || s.hot["check-name"] != "" {
			for _, a := range t.Attrs {
				if ck, ok := a.(*schema.Check); ok {
					mt.Changes = append(mt.Changes, &schema.DropCheck{C: ck})
				}
			}
		}
		idx2 := schema.NewIndex(s.get("index", "idx_name")).AddColumns(c1, id)
		idx2.Table = t
		if v, ok := s.hot["icomment"]; ok {
			idx2.SetComment(v + "y")
		}
		if d.name == "postgres" {
			mt.Changes = append(mt.Changes, &schema.ModifyIndex{From: idx, To: idx2, Change: schema.ChangeParts})
		} else {
			mt.Changes = append(mt.Changes, &schema.ModifyIndex{From: idx, To: idx2, Change: schema.ChangeParts | schema.ChangeComment})
		}
		cs = append(cs, mt)
		if enumT != nil && d.name == "mysql" {
			to2 := &schema.EnumType{T: enumT.T, Values: append([]string{"zero"}, enumT.Values...)}
			stc, _ := t.Column("st")
			cs = append(cs, &schema.ModifyTable{T: t, Changes: []schema.Change{
				&schema.ModifyColumn{From: stc, To: schema.NewColumn("st").SetType(to2), Change: schema.ChangeType}}})
		}
	case 2: // rename / drop
		to := schema.NewTable(s.get("rename-to", "users_new")).SetSchema(sc)
		to.AddColumns(id, c1)
		cs = append(cs, &schema.RenameTable{From: t, To: to})
		c1to := schema.NewColumn(s.get("rename-to", "name_new")).SetType(textT(d)).SetNull(true)
		cs = append(cs, &schema.ModifyTable{T: t, Changes: []schema.Change{&schema.RenameColumn{From: c1, To: c1to}}})
		cs = append(cs, &schema.DropTable{T: t2}, &schema.DropTable{T: t})
		if enumT != nil && d.name == "postgres" {
			cs = append(cs, &schema.DropObject{O: enumT})
		}
		if d.name != "sqlite" && s.hot["schema"] != "" {
			cs = append(cs, &schema.DropSchema{S: sc})
		}
	}
	return cs
}

func quoteIdent(d dialect, s string) string {
	// the way the check expression's author would write the column: correctly escaped
	q := string(d.qo)
	return q + strings.ReplaceAll(s, q, q+q) + q
}

// plan runs the dialect's planner; a panic or an error is reported, not a crash.
func (s *spec) plan(indent string) (p *migrate.Plan, err error) {
	defer func() {
		if r := recover(); r != nil {
			err = fmt.Errorf("panic: %v", r)
		}
	}()
	return s.d.plan.PlanChanges(context.Background(), "p", s.build(), func(o *migrate.PlanOptions) { o.Indent = indent })
}

// ---- enumeration

// singles: every (dialect, role, hot string, shape) with exactly one hot string.
func singles() []*spec {
	var out []*spec
	for _, d := range dialects {
		for _, r := range roles {
			for _, h := range hots {
				for shape := 0; shape < 4; shape++ {
					if d.name == "sqlite" && (r == "enum-type" || r == "enumval" || r == "schema") {
						continue // no enums / CREATE SCHEMA in SQLite; the type name is written as given
					}
					if !roleInShape(r, shape) {
						continue
					}
					out = append(out, &spec{d: d, feats: []feature{{r, h.class}}, hot: map[string]string{r: h.s}, shape: shape})
				}
			}
		}
	}
	return out
}

func roleInShape(r string, shape int) bool {
	switch r {
	case "rename-to":
		return shape == 2
	case "fk":
		return shape < 2
	case "schema", "enum-type":
		return shape != 3 || r == "enum-type"
	case "default", "ccomment", "icomment", "check-expr", "check-name", "tcomment":
		return shape != 2
	}
	return true
}

// combos: several hot strings at random places.
func combos(r *rng.R, n int) []*spec {
	var out []*spec
	for i := 0; i < n; i++ {
		s := &spec{d: rng.Pick(r, dialects), hot: map[string]string{}, shape: r.Intn(4)}
		k := 2 + r.Intn(3)
		for j := 0; j < k; j++ {
			role := rng.Pick(r, roles)
			if _, dup := s.hot[role]; dup || !roleInShape(role, s.shape) || s.d.name == "sqlite" && (role == "enum-type" || role == "enumval" || role == "schema") {
				continue
			}
			h := rng.Pick(r, hots)
			s.hot[role] = h.s
			s.feats = append(s.feats, feature{role, h.class})
		}
		out = append(out, s)
	}
	return out
}

// ---- synthetic plans: statement shapes with hand-made Cmd/Comment strings

type synth struct {
	d       dialect
	label   string
	changes []*migrate.Change
}

func synthPlans() []synth {
	var out []synth
	my, pg, sl := dialects[0], dialects[1], dialects[2]
	mk := func(d dialect, label string, cmds ...string) {
		s := synth{d: d, label: label}
		for i, c := range cmds {
			s.changes = append(s.changes, &migrate.Change{Cmd: c, Comment: fmt.Sprintf("synthetic %s %d", label, i)})
		}
		out = append(out, s)
	}
	// triggers / routines with BEGIN ... END (the dialect scanners match BEGIN blocks)
	mk(my, "trigger-begin-end",
		"CREATE TABLE `t` (`a` int)",
		"CREATE TRIGGER `tr` BEFORE INSERT ON `t` FOR EACH ROW BEGIN SET NEW.a = 1; SET NEW.a = 2; END",
		"CREATE TABLE `u` (`a` int)")
	mk(my, "proc-begin-end",
		"CREATE PROCEDURE `p`() BEGIN SELECT 'a;b'; SELECT \"x\\\"y\"; END",
		"DROP TABLE `t`")
	mk(my, "trigger-nested-begin",
		"CREATE TRIGGER `tr` BEFORE INSERT ON `t` FOR EACH ROW BEGIN IF NEW.a > 1 THEN BEGIN SET NEW.a = 1; END; END IF; END",
		"CREATE TABLE `u` (`a` int)")
	mk(sl, "trigger-begin-end",
		"CREATE TABLE `t` (`a` integer)",
		"CREATE TRIGGER `tr` AFTER INSERT ON `t` BEGIN UPDATE `t` SET `a` = 1; DELETE FROM `t` WHERE `a` = 2; END",
		"CREATE INDEX `i` ON `t` (`a`)")
	mk(sl, "trigger-case-end",
		"CREATE TRIGGER `tr` AFTER INSERT ON `t` BEGIN UPDATE `t` SET `a` = CASE WHEN `a` > 1 THEN 1 ELSE 2 END; END",
		"CREATE TABLE `u` (`a` integer)")
	mk(pg, "func-dollar",
		`CREATE FUNCTION "f"() RETURNS integer LANGUAGE plpgsql AS $$ BEGIN RETURN 1; END; $$`,
		`CREATE TABLE "t" ("a" integer)`)
	mk(pg, "func-dollar-tag",
		`CREATE FUNCTION "f"() RETURNS text LANGUAGE sql AS $fn$ SELECT 'a;b$$c' $fn$`,
		`CREATE TABLE "t" ("a" integer)`)
	mk(pg, "func-begin-atomic",
		`CREATE FUNCTION "f"() RETURNS integer LANGUAGE sql BEGIN ATOMIC SELECT 1; SELECT 2; END`,
		`CREATE TABLE "t" ("a" integer)`)
	mk(pg, "do-block",
		`DO $$ BEGIN PERFORM 1; END $$`,
		`CREATE TABLE "t" ("a" integer)`)
	mk(pg, "escape-string",
		`INSERT INTO "t" VALUES (E'it\'s; ok')`,
		`CREATE TABLE "u" ("a" integer)`)
	mk(pg, "view",
		`CREATE VIEW "v" AS SELECT 'x;y' AS "a;b", $q$;$q$ AS c FROM "t" -- trailing comment`+"\n"+` WHERE 1 = 1`,
		`CREATE TABLE "u" ("a" integer)`)
	for _, d := range dialects {
		q := string(d.qo)
		mk(d, "inline-comments",
			"CREATE TABLE "+q+"t"+q+" (/* c1; */ "+q+"a"+q+" integer -- c2;\n)",
			"ALTER TABLE "+q+"t"+q+" ADD COLUMN "+q+"b"+q+" integer /* tail */",
			"DROP TABLE "+q+"t"+q)
		mk(d, "literals",
			"INSERT INTO "+q+"t"+q+" VALUES ('a;b', 'c''d', 'e--f', 'g/*h', '#i', '$$')",
			"INSERT INTO "+q+"t"+q+" VALUES ('(', ')')",
			"DROP TABLE "+q+"t"+q)
		mk(d, "begin-words",
			"CREATE TABLE "+q+"begin"+q+" ("+q+"end"+q+" integer)",
			"INSERT INTO "+q+"begin"+q+" VALUES (1)",
			"CREATE TABLE t2 (begin integer, x integer)",
			"DROP TABLE t2")
		mk(d, "multi-line",
			"CREATE TABLE "+q+"t"+q+" (\n  "+q+"a"+q+" integer,\n\n  "+q+"b"+q+" integer\n)",
			"DROP TABLE "+q+"t"+q)
	}
	return out
}
