package main

import (
	"context"
	"fmt"
	"strconv"
	"strings"
	"unicode/utf8"

	"ariga.io/atlas/sql/migrate"
	"ariga.io/atlas/sql/mysql"
	"ariga.io/atlas/sql/postgres"
	"ariga.io/atlas/sql/schema"
	"ariga.io/atlas/sql/verifx"

	"verifharness/internal/out"
	"verifharness/internal/rng"
)

// Go port of QuoteModel.v: qsegs / quoted_token.
func quotedToken(esc bool, tok string) bool {
	n, l := len(tok), tok+";\n"
	for {
		if n == 0 || !isQuote(rune(l[0])) {
			return false
		}
		n2, l2, ok := qloop(rune(l[0]), esc, n-1, l[1:])
		if !ok {
			return false
		}
		if n2 == 0 {
			return true
		}
		n, l = n2, l2
	}
}

// the real quoting functions, reached through the planners (they are unexported).
func pgQuote(s string) (string, bool) {
	e := &schema.EnumType{T: "e", Values: []string{s}, Schema: schema.New("public")}
	p, err := postgres.DefaultPlan.PlanChanges(context.Background(), "p", []schema.Change{&schema.AddObject{O: e}})
	if err != nil || len(p.Changes) != 1 {
		return "", false
	}
	const pre, suf = `CREATE TYPE "public"."e" AS ENUM (`, `)`
	c := p.Changes[0].Cmd
	if !strings.HasPrefix(c, pre) || !strings.HasSuffix(c, suf) {
		return "", false
	}
	return c[len(pre) : len(c)-len(suf)], true
}

func mysqlTable() *schema.Table {
	t := schema.NewTable("t").SetSchema(schema.New("s"))
	t.AddColumns(schema.NewColumn("c").SetType(&schema.IntegerType{T: "int"}))
	return t
}

func mysqlQuote(s string) (string, bool) {
	t := mysqlTable()
	ch := &schema.ModifyTable{T: t, Changes: []schema.Change{&schema.ModifyAttr{From: &schema.Comment{Text: "x"}, To: &schema.Comment{Text: s}}}}
	p, err := mysql.DefaultPlan.PlanChanges(context.Background(), "p", []schema.Change{ch})
	if err != nil || len(p.Changes) != 1 {
		return "", false
	}
	const pre = "ALTER TABLE `s`.`t` COMMENT "
	c := p.Changes[0].Cmd
	if !strings.HasPrefix(c, pre) {
		return "", false
	}
	return c[len(pre):], true
}

func mysqlFormatValues(vs []string) (string, bool) {
	t := schema.NewTable("t").SetSchema(schema.New("s"))
	t.AddColumns(schema.NewColumn("c").SetType(&schema.EnumType{T: "enum", Values: vs}))
	p, err := mysql.DefaultPlan.PlanChanges(context.Background(), "p", []schema.Change{&schema.AddTable{T: t}})
	if err != nil || len(p.Changes) != 1 {
		return "", false
	}
	const pre, suf = "CREATE TABLE `s`.`t` (`c` enum(", ") NOT NULL)"
	c := p.Changes[0].Cmd
	if !strings.HasPrefix(c, pre) || !strings.HasSuffix(c, suf) {
		return "", false
	}
	return c[len(pre) : len(c)-len(suf)], true
}

func builderIdent(qo, qc byte, s string) string {
	b := &verifx.Builder{QuoteOpening: qo, QuoteClosing: qc}
	b.Ident(s)
	return strings.TrimSuffix(b.String(), " ")
}

// non-printable non-ASCII runes of s (strconv.IsPrint), the parameter [np] of the model.
func nonPrintable(s string) []string {
	var out []string
	seen := map[rune]bool{}
	for i := 0; i < len(s); {
		r, w := utf8.DecodeRuneInString(s[i:])
		if !(r == utf8.RuneError && w == 1) && r >= 128 && !strconv.IsPrint(r) && !seen[r] {
			seen[r] = true
			out = append(out, strconv.Itoa(int(r)))
		}
		i += w
	}
	return out
}

func quoteInputs(tier string) []string {
	var ins []string
	seen := map[string]bool{}
	add := func(s string) {
		if !seen[s] {
			seen[s] = true
			ins = append(ins, s)
		}
	}
	for _, h := range hots {
		add(h.s)
	}
	// already-quoted looking inputs
	// defaults that arrive quoted with the double quote (legacy SQLite schemas, SQL schema files)
	for _, s := range []string{`"it's; a note -- really"`, `"a'b"`, `"a''b"`, `"'"`, `"a\"b"`, `"a\nb"`, "\"a\nb\"", `"a\tb"`, `"a\qb"`, `"a\\"`, `"/* x */ # y"`,
		`"a;b"`, `"é✓"`, `"a\x41"`, `"a\u00e9'"`, `""`, `"a" "b"`, `"ab'`, `'ab"`} {
		add(s)
	}
	for _, s := range []string{"'a'", "'a''", "'a\\'", "'a''b'", "'a'b'", `"a"`, `"a""`, `"a\"`, `"a"b"`, "''", `""`, "'", `"`, "'\\''", "'a\\\\'", "'''", "''''", `'\`} {
		add(s)
	}
	// exhaustive small domain
	alpha := []string{"'", `"`, `\`, "a", ";", "\n", "`", "é"}
	maxLen := 4
	if tier == "thorough" {
		maxLen = 5
	}
	var rec func(cur string, k int)
	rec = func(cur string, k int) {
		add(cur)
		if k == 0 {
			return
		}
		for _, a := range alpha {
			rec(cur+a, k-1)
		}
	}
	rec("", maxLen)
	// random longer strings
	r := rng.FromEnv(0xC0701)
	n := 300
	if tier == "thorough" {
		n = 5000
	}
	pool := []string{"'", `"`, `\`, "a", ";", "\n", "`", "é", "--", "/*", "*/", "#", "$$", " ", "\t", "\x00", "\xff", " ", "(", ")", "\r", "\x7f", "\U0001F600", " "}
	for i := 0; i < n; i++ {
		var sb strings.Builder
		for k := 1 + r.Intn(12); k > 0; k-- {
			sb.WriteString(rng.Pick(r, pool))
		}
		add(sb.String())
	}
	return ins
}

func runQuote(w *out.W, tier string) {
	w.Rule = "a case is non-trivial when the quoting function escaped at least one byte or took the pass-through branch"
	generic, my, pg := optSets["generic"], optSets["mysql"], optSets["postgres"]
	emit := func(id, fn string, o migrate.ScannerOptions, args []string, extra []string, outS string, class, desc string, mustClose bool) {
		closed := quotedToken(o.BackslashEscapes, outS)
		toks := []string{fn, bits(o)}
		for _, a := range args {
			toks = append(toks, hx(a))
		}
		toks = append(toks, extra...)
		w.Case(id, strings.Join(toks, " "), []string{fmt.Sprintf("out %s closed=%v", hx(outS), closed)})
		w.Count(fn + ":closed=" + fmt.Sprint(closed))
		if len(args) > 0 && outS != "'"+args[0]+"'" && outS != `"`+args[0]+`"` {
			w.NonTrivial(fn + "/" + hx(args[0]))
		}
		if mustClose && !closed {
			w.Violation(id, class, fmt.Sprintf("%s: output %q is not a closed literal for the scanner", desc, trunc(outS, 80)))
		}
	}
	for i, s := range quoteInputs(tier) {
		pre1 := verifx.IsQuoted(s, '\'')
		pre2 := verifx.IsQuoted(s, '"', '\'')
		// sqlx.SingleQuote (used by the SQLite planner): generic/sqlite scanners.  An input quoted with
		// the double quote (a default inspected from a legacy SQLite schema) goes through strconv.Unquote:
		// its real result is handed to the model ("!" = error)
		{
			var extra []string
			if verifx.IsQuoted(s, '"') && !pre1 {
				if u, uerr := strconv.Unquote(s); uerr != nil {
					extra = []string{"!"}
				} else {
					extra = []string{hx(u)}
				}
				w.Count("single_quote:double-quoted-input")
			}
			q, err := verifx.SingleQuote(s)
			class := "quote-not-closed"
			if pre1 {
				class = "quote-passthrough-prequoted"
			}
			if err != nil {
				w.Count("single_quote:unquote-error")
				emit(fmt.Sprintf("q%d-sq", i), "single_quote", generic, []string{s}, extra, "<err>", class, fmt.Sprintf("sqlx.SingleQuote(%q)", s), false)
			} else {
				emit(fmt.Sprintf("q%d-sq", i), "single_quote", generic, []string{s}, extra, q, class, fmt.Sprintf("sqlx.SingleQuote(%q)", s), true)
			}
		}
		if q, ok := pgQuote(s); ok {
			class := "quote-not-closed"
			if pre1 {
				class = "quote-passthrough-prequoted"
			}
			emit(fmt.Sprintf("q%d-pg", i), "pg_quote", pg, []string{s}, nil, q, class, fmt.Sprintf("postgres quote(%q)", s), true)
		}
		if q, ok := mysqlQuote(s); ok {
			class := "quote-not-closed"
			if pre2 {
				class = "quote-passthrough-prequoted"
			}
			emit(fmt.Sprintf("q%d-my", i), "mysql_quote", my, []string{s}, nonPrintable(s), q, class, fmt.Sprintf("mysql quote(%q)", s), true)
			// the same token under the generic scanner (golang-migrate/flyway/goose/dbmate readers)
			if !pre2 {
				closedG := quotedToken(false, q)
				w.Count(fmt.Sprintf("mysql_quote:generic-closed=%v", closedG))
				if !closedG && !strings.Contains(s, `"`) && !strings.Contains(s, `\`) {
					w.Violation(fmt.Sprintf("q%d-my", i), "quote-not-closed", fmt.Sprintf("mysql quote(%q) = %q is not closed for the generic scanner although the input has no double quote or backslash", s, trunc(q, 80)))
				}
			}
		}
		if q, ok := mysqlFormatValues([]string{"on", s}); ok {
			class := "mysql-enum-value-quote"
			// formatValues(["on", s]) = 'on',<value>: the model gets both values
			closed := quotedToken(true, strings.TrimPrefix(q, "'on',"))
			w.Case(fmt.Sprintf("q%d-fv", i), strings.Join([]string{"format_values", bits(my), hx("on"), hx(s)}, " "),
				[]string{fmt.Sprintf("out %s closed=%v", hx(q), quotedTokenSeq(true, q))})
			w.Count(fmt.Sprintf("format_values:value-closed=%v", closed))
			if !closed && !strings.Contains(s, "'") && !strings.HasSuffix(s, `\`) && !pre2 {
				w.Violation(fmt.Sprintf("q%d-fv", i), "quote-not-closed", fmt.Sprintf("mysql formatValues(%q) = %q not closed although the value has no quote and no trailing backslash", s, trunc(q, 80)))
			} else if !closed {
				w.Violation(fmt.Sprintf("q%d-fv", i), class, fmt.Sprintf("mysql formatValues([on %q]) = %q", s, trunc(q, 80)))
			}
		}
		if s != "" && i%7 == 0 {
			// distinct opening/closing quotes (T-SQL style, no OSS driver): tie only
			q := builderIdent('[', ']', s)
			w.Case(fmt.Sprintf("q%d-idq", i), strings.Join([]string{"ident", bits(generic), hx("["), hx("]"), hx(s)}, " "),
				[]string{fmt.Sprintf("out %s closed=%v", hx(q), quotedToken(false, q))})
		}
		if s != "" {
			for _, qc := range []byte{'`', '"'} {
				q := builderIdent(qc, qc, s)
				o := generic
				closed := quotedToken(false, q)
				w.Case(fmt.Sprintf("q%d-id%c", i, map[byte]byte{'`': 'b', '"': 'd'}[qc]), strings.Join([]string{"ident", bits(o), hx(string(qc)), hx(string(qc)), hx(s)}, " "),
					[]string{fmt.Sprintf("out %s closed=%v", hx(q), closed)})
				w.Count(fmt.Sprintf("ident:closed=%v", closed))
				if !closed {
					class := "quote-not-closed"
					w.Violation(fmt.Sprintf("q%d-id%c", i, map[byte]byte{'`': 'b', '"': 'd'}[qc]), class, fmt.Sprintf("Builder.Ident(%q) with quote %c = %q", s, qc, trunc(q, 80)))
				}
			}
		}
	}
}

// quotedTokenSeq: a comma-separated list of tokens (formatValues output) read as one walk:
// every value must be a closed token; the model prints lit_closed of the whole output, which
// is false because of the commas — so both sides print the per-list conjunction instead.
func quotedTokenSeq(esc bool, q string) bool { return quotedToken(esc, q) }
