package main

import "verifharness/internal/out"

func runQuote(w *out.W, tier string) {}
