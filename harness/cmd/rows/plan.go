// Stage plan: the planner alone (sqlite.DefaultPlan.PlanChanges, no database) on change lists
// built by hand -- including the ones the differ never emits (RenameColumn, duplicate changes
// for a column, DropColumn of a column that is still there, RenameIndex) -- compared with
// RowsModel.PlanChanges statement by statement: kind, table names, and for the row copy the
// toC list and the fromC list (column or IFNULL(column)).
package main

import (
	"context"
	"fmt"
	"regexp"
	"strings"

	"ariga.io/atlas/sql/schema"
	"ariga.io/atlas/sql/sqlite"

	"verifharness/internal/out"
	"verifharness/internal/rng"
)

var (
	reCreateTable = regexp.MustCompile("^CREATE TABLE `([^`]*)`")
	reDropTable   = regexp.MustCompile("^DROP TABLE `([^`]*)`$")
	reRenameTable = regexp.MustCompile("^ALTER TABLE `([^`]*)` RENAME TO `([^`]*)`$")
	reInsert      = regexp.MustCompile("^INSERT INTO `([^`]*)` \\((.*)\\) SELECT (.*) FROM `([^`]*)`$")
	reAddColumn   = regexp.MustCompile("^ALTER TABLE `([^`]*)` ADD COLUMN `([^`]*)`")
	reRenameCol   = regexp.MustCompile("^ALTER TABLE `([^`]*)` RENAME COLUMN `([^`]*)` TO `([^`]*)`$")
	reCreateIndex = regexp.MustCompile("^CREATE (?:UNIQUE )?INDEX `([^`]*)` ON `([^`]*)`")
	reDropIndex   = regexp.MustCompile("^DROP INDEX `([^`]*)`$")
	reIfNull      = regexp.MustCompile("^IFNULL\\(`([^`]*)`, .*\\) AS `([^`]*)`$")
	reIdent       = regexp.MustCompile("^`([^`]*)`$")
)

// splitTop splits a comma separated list at top level (not inside parentheses or quotes).
func splitTop(s string) []string {
	var out []string
	depth, start := 0, 0
	inq := byte(0)
	for i := 0; i < len(s); i++ {
		c := s[i]
		switch {
		case inq != 0:
			if c == inq {
				inq = 0
			}
		case c == '\'' || c == '`' || c == '"':
			inq = c
		case c == '(':
			depth++
		case c == ')':
			depth--
		case c == ',' && depth == 0:
			out = append(out, strings.TrimSpace(s[start:i]))
			start = i + 1
		}
	}
	return append(out, strings.TrimSpace(s[start:]))
}

// createOpts: the option clause of a CREATE TABLE statement, "W" (WITHOUT ROWID) and "S" (STRICT) in
// the order written, "-" when there is none.
func createOpts(cmd string) string {
	i := strings.LastIndexByte(cmd, ')')
	if i < 0 {
		return "?"
	}
	var o string
	for _, f := range strings.Split(strings.ToUpper(cmd[i+1:]), ",") {
		switch strings.Join(strings.Fields(f), " ") {
		case "WITHOUT ROWID":
			o += "W"
		case "STRICT":
			o += "S"
		case "":
		default:
			o += "?"
		}
	}
	if o == "" {
		return "-"
	}
	return o
}

// skeleton renders one planned statement the way the model driver prints an abstract one.
func skeleton(cmd string) string {
	cmd = strings.Join(strings.Fields(cmd), " ")
	switch {
	case cmd == "PRAGMA foreign_keys = off":
		return "PF 0"
	case cmd == "PRAGMA foreign_keys = on":
		return "PF 1"
	}
	if m := reCreateTable.FindStringSubmatch(cmd); m != nil {
		return "CT " + hx(m[1]) + " " + createOpts(cmd)
	}
	if m := reDropTable.FindStringSubmatch(cmd); m != nil {
		return "DT " + hx(m[1])
	}
	if m := reRenameTable.FindStringSubmatch(cmd); m != nil {
		return "RT " + hx(m[1]) + " " + hx(m[2])
	}
	if m := reInsert.FindStringSubmatch(cmd); m != nil {
		var to, from []string
		for _, c := range splitTop(m[2]) {
			if x := reIdent.FindStringSubmatch(c); x != nil {
				to = append(to, hx(x[1]))
			} else {
				to = append(to, "?"+hx(c))
			}
		}
		for _, c := range splitTop(m[3]) {
			if x := reIdent.FindStringSubmatch(c); x != nil {
				from = append(from, "C:"+hx(x[1]))
			} else if x := reIfNull.FindStringSubmatch(c); x != nil && x[1] == x[2] {
				from = append(from, "I:"+hx(x[1]))
			} else {
				from = append(from, "?"+hx(c))
			}
		}
		return "CR " + hx(m[1]) + " [" + strings.Join(to, ",") + "] [" + strings.Join(from, ",") + "] " + hx(m[4])
	}
	if m := reAddColumn.FindStringSubmatch(cmd); m != nil {
		return "AC " + hx(m[1]) + " " + hx(m[2])
	}
	if m := reRenameCol.FindStringSubmatch(cmd); m != nil {
		return "RC " + hx(m[1]) + " " + hx(m[2]) + " " + hx(m[3])
	}
	if m := reCreateIndex.FindStringSubmatch(cmd); m != nil {
		return "CI " + hx(m[2]) + " " + hx(m[1])
	}
	if m := reDropIndex.FindStringSubmatch(cmd); m != nil {
		return "DI " + hx(m[1])
	}
	return "?? " + hx(cmd)
}

// ---- hand-built planner inputs -------------------------------------------------

type pcol struct {
	name          string
	notnull       bool
	dk            int // 0 none, 1 literal, 2 CURRENT_TIMESTAMP, 3 raw expression
	gen, stored   bool
	hasIdx, hasFK bool
}

func (p pcol) build(t *schema.Table) *schema.Column {
	c := &schema.Column{Name: p.name, Type: &schema.ColumnType{Type: &schema.IntegerType{T: "integer"}, Raw: "integer", Null: !p.notnull}}
	switch p.dk {
	case 1:
		c.Default = &schema.Literal{V: "7"}
	case 2:
		c.Default = &schema.Literal{V: "CURRENT_TIMESTAMP"}
	case 3:
		c.Default = &schema.RawExpr{X: "(1 + 2)"}
	}
	if p.gen {
		ty := "VIRTUAL"
		if p.stored {
			ty = "STORED"
		}
		c.Attrs = append(c.Attrs, &schema.GeneratedExpr{Expr: "1", Type: ty})
	}
	if p.hasIdx {
		c.Indexes = []*schema.Index{{Name: "ix_" + p.name, Table: t, Parts: []*schema.IndexPart{{C: c}}}}
	}
	if p.hasFK {
		c.ForeignKeys = []*schema.ForeignKey{{Symbol: "fk_" + p.name, Table: t, Columns: []*schema.Column{c}, RefTable: t, RefColumns: []*schema.Column{c}}}
	}
	return c
}

type ptable struct {
	name            string
	cols            []pcol
	idx             []string
	strict, worowid bool
}

func (p ptable) build() *schema.Table {
	t := &schema.Table{Name: p.name}
	for _, c := range p.cols {
		t.Columns = append(t.Columns, c.build(t))
	}
	for _, n := range p.idx {
		t.Indexes = append(t.Indexes, &schema.Index{Name: n, Table: t, Parts: []*schema.IndexPart{{C: t.Columns[0]}}})
	}
	// the order of the attributes is not the order of the clause
	if p.strict {
		t.Attrs = append(t.Attrs, &sqlite.Strict{})
	}
	if p.worowid {
		t.Attrs = append(t.Attrs, &sqlite.WithoutRowID{})
	}
	return t
}

// atom: one table-level change, built against table t.
type atom struct {
	tag string
	mk  func(t *schema.Table) schema.Change
}

func colOf(t *schema.Table, n string) *schema.Column {
	if c, ok := t.Column(n); ok {
		return c
	}
	return &schema.Column{Name: n, Type: &schema.ColumnType{Type: &schema.IntegerType{T: "integer"}, Raw: "integer", Null: true}}
}

func atoms() []atom {
	var as []atom
	add := func(tag string, mk func(t *schema.Table) schema.Change) { as = append(as, atom{tag, mk}) }
	// AddColumn of a column of the table (a, d) or of a foreign one, in every alterable-relevant variant
	for _, n := range []string{"a", "d"} {
		n := n
		add("add-"+n, func(t *schema.Table) schema.Change { return &schema.AddColumn{C: colOf(t, n)} })
	}
	for i, v := range []pcol{
		{name: "n1"}, {name: "n2", notnull: true, dk: 1}, {name: "n3", dk: 2}, {name: "n4", dk: 3},
		{name: "n5", gen: true}, {name: "n6", gen: true, stored: true}, {name: "n7", hasIdx: true}, {name: "n8", hasFK: true},
	} {
		v := v
		add(fmt.Sprintf("addnew-%d", i), func(t *schema.Table) schema.Change { return &schema.AddColumn{C: v.build(t)} })
	}
	for _, n := range []string{"a", "b", "zz"} {
		n := n
		add("drop-"+n, func(t *schema.Table) schema.Change { return &schema.DropColumn{C: colOf(t, n)} })
		for _, k := range []schema.ChangeKind{schema.ChangeNull, schema.ChangeDefault, schema.ChangeNull | schema.ChangeDefault, schema.ChangeType, schema.ChangeComment, schema.ChangeType | schema.ChangeNull} {
			k := k
			add(fmt.Sprintf("mod-%s-%d", n, k), func(t *schema.Table) schema.Change {
				return &schema.ModifyColumn{From: colOf(t, n), To: colOf(t, n), Change: k}
			})
		}
	}
	for _, p := range [][2]string{{"old", "a"}, {"a", "b"}, {"b", "zz"}, {"old", "g"}} {
		p := p
		add("ren-"+p[0]+"-"+p[1], func(t *schema.Table) schema.Change {
			return &schema.RenameColumn{From: colOf(t, p[0]), To: colOf(t, p[1])}
		})
	}
	ix := func(t *schema.Table, n string) *schema.Index {
		return &schema.Index{Name: n, Table: t, Parts: []*schema.IndexPart{{C: t.Columns[0]}}}
	}
	add("addidx", func(t *schema.Table) schema.Change { return &schema.AddIndex{I: ix(t, "i_new")} })
	add("dropidx", func(t *schema.Table) schema.Change { return &schema.DropIndex{I: ix(t, "i_old")} })
	add("dropidx-auto", func(t *schema.Table) schema.Change {
		return &schema.DropIndex{I: ix(t, "sqlite_autoindex_"+t.Name+"_1")}
	})
	add("renidx", func(t *schema.Table) schema.Change {
		return &schema.RenameIndex{From: ix(t, "i_old"), To: ix(t, "i_ren")}
	})
	add("modidx", func(t *schema.Table) schema.Change {
		return &schema.ModifyIndex{From: ix(t, "i_old"), To: ix(t, "i_old"), Change: schema.ChangeUnique}
	})
	add("addcheck", func(t *schema.Table) schema.Change {
		return &schema.AddCheck{C: &schema.Check{Name: "ck", Expr: "(1)"}}
	})
	add("droppk", func(t *schema.Table) schema.Change { return &schema.DropPrimaryKey{P: ix(t, "pk")} })
	add("addattr", func(t *schema.Table) schema.Change { return &schema.AddAttr{A: &sqlite.Strict{}} })
	return as
}

func planTables() []ptable {
	return []ptable{
		{name: "t", cols: []pcol{{name: "a"}, {name: "b", notnull: true, dk: 1}, {name: "g", gen: true}, {name: "d", notnull: true}}, idx: []string{"i_t"}},
		{name: "u", cols: []pcol{{name: "b", dk: 1}, {name: "a", notnull: true, dk: 3}}},
		{name: "w", cols: []pcol{{name: "a", notnull: true, dk: 1}}, idx: []string{"i_w1", "i_w2"}},
		{name: "v", cols: []pcol{{name: "g", gen: true, stored: true}, {name: "zz", notnull: true, dk: 2}, {name: "a"}}},
		{name: "ts", cols: []pcol{{name: "a"}, {name: "b", notnull: true, dk: 1}}, strict: true},
		{name: "tw", cols: []pcol{{name: "a", notnull: true}, {name: "b"}}, worowid: true, idx: []string{"i_tw"}},
		{name: "tsw", cols: []pcol{{name: "a", notnull: true}, {name: "g", gen: true}, {name: "b", dk: 1}}, strict: true, worowid: true},
	}
}

func runPlan(ctx context.Context, w *out.W, tier, outDir, only string) {
	w.Rule = "planner only: every list of <= 2 table-level changes from a catalogue of 40 atoms (all of AddColumn's alterable variants, Drop/Modify/RenameColumn on present and absent columns, index and other changes) on 4 tables, random longer lists, and schema-level mixes; non-trivial = the copy path or an error"
	w.Exhaust = true
	as := atoms()
	tabs := planTables()
	type job struct {
		id string
		cs func() []schema.Change
	}
	var jobs []job
	modify := func(pt ptable, idxs []int) func() []schema.Change {
		return func() []schema.Change {
			t := pt.build()
			m := &schema.ModifyTable{T: t}
			for _, i := range idxs {
				m.Changes = append(m.Changes, as[i].mk(t))
			}
			return []schema.Change{m}
		}
	}
	for ti, pt := range tabs {
		jobs = append(jobs, job{fmt.Sprintf("p%d-empty", ti), modify(pt, nil)})
		for i := range as {
			jobs = append(jobs, job{fmt.Sprintf("p%d-%s", ti, as[i].tag), modify(pt, []int{i})})
			for j := range as {
				jobs = append(jobs, job{fmt.Sprintf("p%d-%s+%s", ti, as[i].tag, as[j].tag), modify(pt, []int{i, j})})
			}
		}
	}
	n := 1500
	if tier == "thorough" {
		n = 40000
	}
	r := rng.FromEnv(0xC05A)
	for k := 0; k < n; k++ {
		pt := tabs[r.Intn(len(tabs))]
		var idxs []int
		for l := 3 + r.Intn(3); l > 0; l-- {
			idxs = append(idxs, r.Intn(len(as)))
		}
		jobs = append(jobs, job{fmt.Sprintf("q%05d", k), modify(pt, idxs)})
	}
	// schema-level mixes: add / drop / modify / rename in one change set
	for k := 0; k < 300; k++ {
		sub := rng.New(r.U64())
		jobs = append(jobs, job{fmt.Sprintf("s%04d", k), func() []schema.Change {
			var cs []schema.Change
			for l := 1 + sub.Intn(4); l > 0; l-- {
				pt := tabs[sub.Intn(len(tabs))]
				t := pt.build()
				switch sub.Intn(5) {
				case 0:
					cs = append(cs, &schema.AddTable{T: t})
				case 1:
					cs = append(cs, &schema.DropTable{T: t})
				case 2:
					t2 := pt.build()
					t2.Name = t.Name + "_r"
					cs = append(cs, &schema.RenameTable{From: t, To: t2})
				default:
					m := &schema.ModifyTable{T: t}
					for x := sub.Intn(3); x > 0; x-- {
						m.Changes = append(m.Changes, as[sub.Intn(len(as))].mk(t))
					}
					cs = append(cs, m)
				}
			}
			return cs
		}})
	}
	for _, j := range jobs {
		if only != "" && only != j.id {
			continue
		}
		cs := j.cs()
		e := &tieEnc{ctx: ctx}
		e.add(fmt.Sprint(len(cs)))
		for _, c := range cs {
			e.schange(c)
		}
		var obs []string
		plan, err := sqlite.DefaultPlan.PlanChanges(ctx, "x", cs)
		if err != nil {
			obs = []string{"planerr"}
			w.Count("plan:error")
			w.NonTrivial(j.id)
		} else {
			var sk []string
			copyPath := false
			for _, c := range plan.Changes {
				s := skeleton(c.Cmd)
				if strings.HasPrefix(s, "CR ") {
					copyPath = true
				}
				if strings.HasPrefix(s, "?? ") {
					w.Count("plan:unparsed")
				}
				sk = append(sk, s)
				w.Count("plan-stmt:" + s[:2])
			}
			obs = []string{"plan " + strings.Join(sk, " ; ")}
			if copyPath {
				w.NonTrivial(strings.Join(sk, ";"))
				w.Count("plan:copy")
			} else {
				w.Count("plan:no-copy")
			}
		}
		w.Case(j.id, strings.Join(e.w, " "), obs)
	}
}
