// Real-engine side of C05: create and populate a SQLite database, dump it,
// and run the real differ + planner + ApplyChanges the way `atlas schema apply` does.
package main

import (
	"context"
	"database/sql"
	"fmt"
	"os"
	"path/filepath"
	"sort"
	"strings"
	"sync"
	"sync/atomic"

	"ariga.io/atlas/sql/schema"
	"ariga.io/atlas/sql/sqlclient"
	"ariga.io/atlas/sql/sqlite"
	_ "github.com/mattn/go-sqlite3"
)

type ColInfo struct {
	Name    string
	Type    string // declared type, lower case
	NotNull bool
	Dflt    string
	PK      int
	Hidden  int // 0 plain, 2 virtual generated, 3 stored generated
}

type TableDump struct {
	Name     string
	SQL      []string // sqlite_master.sql of the table and of its indexes (sorted)
	Cols     []ColInfo
	HasRowid bool
	RowIDs   []string   // rowid per row (rowid tables), same order as Rows
	Rows     [][]string // quote(col) per column, in Cols order
	Types    [][]string // typeof(col) per column, same shape as Rows
}

type Dump struct {
	Tables map[string]*TableDump
	Names  []string
}

func (t *TableDump) colIdx(n string) int {
	for i, c := range t.Cols {
		if c.Name == n {
			return i
		}
	}
	return -1
}

type querier interface {
	QueryContext(context.Context, string, ...any) (*sql.Rows, error)
}

func dumpDB(ctx context.Context, db querier) (*Dump, error) {
	d := &Dump{Tables: map[string]*TableDump{}}
	rows, err := db.QueryContext(ctx, "SELECT name, sql FROM sqlite_master WHERE type = 'table' AND name NOT LIKE 'sqlite_%' ORDER BY name")
	if err != nil {
		return nil, err
	}
	for rows.Next() {
		var n, s string
		if err := rows.Scan(&n, &s); err != nil {
			rows.Close()
			return nil, err
		}
		d.Tables[n] = &TableDump{Name: n, SQL: []string{s}}
		d.Names = append(d.Names, n)
	}
	rows.Close()
	for _, n := range d.Names {
		t := d.Tables[n]
		rows, err := db.QueryContext(ctx, "SELECT name, coalesce(sql, '') FROM sqlite_master WHERE type = 'index' AND tbl_name = ? ORDER BY name", n)
		if err != nil {
			return nil, err
		}
		for rows.Next() {
			var in, s string
			if err := rows.Scan(&in, &s); err != nil {
				rows.Close()
				return nil, err
			}
			t.SQL = append(t.SQL, in+": "+s)
		}
		rows.Close()
		rows, err = db.QueryContext(ctx, "SELECT name, type, \"notnull\", coalesce(dflt_value, ''), pk, hidden FROM pragma_table_xinfo(?) ORDER BY cid", n)
		if err != nil {
			return nil, err
		}
		for rows.Next() {
			var c ColInfo
			if err := rows.Scan(&c.Name, &c.Type, &c.NotNull, &c.Dflt, &c.PK, &c.Hidden); err != nil {
				rows.Close()
				return nil, err
			}
			c.Type = strings.ToLower(c.Type)
			t.Cols = append(t.Cols, c)
		}
		rows.Close()
		if r, err := db.QueryContext(ctx, "SELECT rowid FROM "+qi(n)+" LIMIT 0"); err == nil {
			t.HasRowid = true
			r.Close()
		}
		var sel []string
		if t.HasRowid {
			sel = append(sel, "rowid")
		}
		for _, c := range t.Cols {
			sel = append(sel, "quote("+qi(c.Name)+")")
		}
		for _, c := range t.Cols {
			sel = append(sel, "typeof("+qi(c.Name)+")")
		}
		q := "SELECT " + strings.Join(sel, ", ") + " FROM " + qi(n)
		if t.HasRowid {
			q += " ORDER BY rowid"
		} else {
			q += " ORDER BY " + strings.Join(sel, ", ")
		}
		rows, err = db.QueryContext(ctx, q)
		if err != nil {
			return nil, fmt.Errorf("dump %s: %w", n, err)
		}
		for rows.Next() {
			vals := make([]sql.NullString, len(sel))
			ptr := make([]any, len(sel))
			for i := range vals {
				ptr[i] = &vals[i]
			}
			if err := rows.Scan(ptr...); err != nil {
				rows.Close()
				return nil, err
			}
			row := make([]string, 0, len(sel))
			for _, v := range vals {
				row = append(row, v.String)
			}
			if t.HasRowid {
				t.RowIDs = append(t.RowIDs, row[0])
				row = row[1:]
			}
			t.Rows = append(t.Rows, row[:len(t.Cols)])
			t.Types = append(t.Types, row[len(t.Cols):])
		}
		if err := rows.Err(); err != nil {
			rows.Close()
			return nil, err
		}
		rows.Close()
	}
	return d, nil
}

func (d *Dump) nrows() int {
	n := 0
	for _, t := range d.Tables {
		n += len(t.Rows)
	}
	return n
}

// equalTable: byte-identical (schema, rowids, rows).
func equalTable(a, b *TableDump) bool {
	if a == nil || b == nil {
		return a == b
	}
	if strings.Join(a.SQL, "\x00") != strings.Join(b.SQL, "\x00") || len(a.Rows) != len(b.Rows) || a.HasRowid != b.HasRowid {
		return false
	}
	if strings.Join(a.RowIDs, ",") != strings.Join(b.RowIDs, ",") {
		return false
	}
	for i := range a.Rows {
		if strings.Join(a.Rows[i], "\x00") != strings.Join(b.Rows[i], "\x00") || strings.Join(a.Types[i], ",") != strings.Join(b.Types[i], ",") {
			return false
		}
	}
	return true
}

func equalDump(a, b *Dump) string {
	if strings.Join(a.Names, "\x00") != strings.Join(b.Names, "\x00") {
		return fmt.Sprintf("tables %q -> %q", a.Names, b.Names)
	}
	for _, n := range a.Names {
		if !equalTable(a.Tables[n], b.Tables[n]) {
			return "table " + n + " differs"
		}
	}
	return ""
}

// ---- opening ---------------------------------------------------------------

var dbSeq int64

type Mode struct {
	Store string // "file" | "mem"
	FK    bool   // _fk=1
	Tx    string // "none" | "file" (the CLI's --tx-mode) | "rawtx" (a plain sql.Tx handed to sqlite.Open) | "prefix"
	K     int    // prefix: number of plan statements executed before the run is cut off
}

func (m Mode) String() string {
	fk := "fk0"
	if m.FK {
		fk = "fk1"
	}
	if m.Tx == "prefix" {
		return fmt.Sprintf("%s/%s/prefix%d", m.Store, fk, m.K)
	}
	return m.Store + "/" + fk + "/" + m.Tx
}

func (m Mode) url(dir string) string {
	id := atomic.AddInt64(&dbSeq, 1)
	fk := "0"
	if m.FK {
		fk = "1"
	}
	if m.Store == "file" {
		return fmt.Sprintf("sqlite://%s?_fk=%s", filepath.Join(dir, fmt.Sprintf("db%d.sqlite", id)), fk)
	}
	return fmt.Sprintf("sqlite://rows%d_%d?mode=memory&cache=shared&_fk=%s", os.Getpid(), id, fk)
}

// populate runs the DDL and the inserts; inserts refused by the engine are skipped.
func populate(ctx context.Context, db *sql.DB, ddl, inserts, extra []string) (skipped int, err error) {
	conn, err := db.Conn(ctx)
	if err != nil {
		return 0, err
	}
	defer conn.Close()
	// Enforce foreign keys while populating so that the data is consistent whatever the mode.
	var was int
	if err := conn.QueryRowContext(ctx, "PRAGMA foreign_keys").Scan(&was); err != nil {
		return 0, err
	}
	if _, err := conn.ExecContext(ctx, "PRAGMA foreign_keys = on"); err != nil {
		return 0, err
	}
	defer conn.ExecContext(ctx, fmt.Sprintf("PRAGMA foreign_keys = %d", was))
	for _, s := range ddl {
		if _, err := conn.ExecContext(ctx, s); err != nil {
			return 0, fmt.Errorf("ddl %q: %w", s, err)
		}
	}
	for _, s := range inserts {
		if _, err := conn.ExecContext(ctx, s); err != nil {
			skipped++
		}
	}
	// views / triggers last: the rows above are inserted without them
	for _, s := range extra {
		if _, err := conn.ExecContext(ctx, s); err != nil {
			return skipped, fmt.Errorf("extra %q: %w", s, err)
		}
	}
	return skipped, nil
}

// desiredSchema loads the desired DDL into a scratch in-memory database and inspects it
// (what `schema apply --to file://x.sql --dev-url sqlite://dev?mode=memory` does).
func desiredSchema(ctx context.Context, ddl []string) (*schema.Schema, error) {
	id := atomic.AddInt64(&dbSeq, 1)
	c, err := sqlclient.Open(ctx, fmt.Sprintf("sqlite://dev%d_%d?mode=memory&cache=shared&_fk=1", os.Getpid(), id))
	if err != nil {
		return nil, err
	}
	defer c.Close()
	c.DB.SetMaxOpenConns(1)
	for _, s := range ddl {
		if _, err := c.DB.ExecContext(ctx, s); err != nil {
			return nil, fmt.Errorf("desired ddl %q: %w", s, err)
		}
	}
	return c.InspectSchema(ctx, "", nil)
}

// applyLikeCLI mirrors cmdapi.applyChanges (cmd/atlas/internal/cmdapi/schema.go).
func applyLikeCLI(ctx context.Context, client *sqlclient.Client, changes []schema.Change, tx string, k int) error {
	switch tx {
	case "none":
		return client.ApplyChanges(ctx, changes)
	case "file":
		t, err := client.Tx(ctx, nil)
		if err != nil {
			return err
		}
		if err := t.ApplyChanges(ctx, changes); err != nil {
			_ = t.Rollback()
			return err
		}
		return t.Commit()
	case "prefix":
		// A run without a transaction that is cut off after k statements (the process is killed, or
		// statement k+1 is refused): the first k statements of the plan, one by one.
		plan, err := client.PlanChanges(ctx, "prefix", changes)
		if err != nil {
			return err
		}
		for i := 0; i < k && i < len(plan.Changes); i++ {
			if _, err := client.DB.ExecContext(ctx, plan.Changes[i].Cmd, plan.Changes[i].Args...); err != nil {
				return fmt.Errorf("prefix statement %d: %w", i, err)
			}
		}
		return errPrefix
	case "rawtx":
		// A library user that hands its own *sql.Tx to sqlite.Open: the pragma
		// bracket of the plan is a no-op inside the transaction.
		t, err := client.DB.BeginTx(ctx, nil)
		if err != nil {
			return err
		}
		drv, err := sqlite.Open(t)
		if err != nil {
			t.Rollback()
			return err
		}
		if err := drv.ApplyChanges(ctx, changes); err != nil {
			t.Rollback()
			return err
		}
		return t.Commit()
	}
	return fmt.Errorf("unknown tx mode %q", tx)
}

var errPrefix = fmt.Errorf("plan cut off (prefix mode)")

// changedTables returns the names of tables that are part of the change set
// (modified, dropped or added).
func changedTables(changes []schema.Change) map[string]string {
	m := map[string]string{}
	for _, c := range changes {
		switch c := c.(type) {
		case *schema.AddTable:
			m[c.T.Name] = "add"
		case *schema.DropTable:
			m[c.T.Name] = "drop"
		case *schema.ModifyTable:
			m[c.T.Name] = "modify"
		case *schema.RenameTable:
			m[c.From.Name] = "rename"
			m[c.To.Name] = "rename"
		}
	}
	return m
}

func sortedKeys[V any](m map[string]V) []string {
	o := make([]string, 0, len(m))
	for k := range m {
		o = append(o, k)
	}
	sort.Strings(o)
	return o
}

// evalDefault returns quote() of what a column of the given declared type holds after
// `INSERT INTO x SELECT <expr>` -- the value IFNULL(col, <default>) yields for a NULL.
func evalDefault(ctx context.Context, typ, expr string, strict bool) (string, error) {
	// the typing rules of a STRICT table matter for an ANY column only
	strict = strict && normType(typ) == "any"
	type res struct {
		q   string
		err error
	}
	key := fmt.Sprint(strict) + typ + "\x00" + expr
	if v, ok := defaultCache.Load(key); ok {
		r := v.(res)
		return r.q, r.err
	}
	q, err := evalDefaultUncached(ctx, typ, expr, strict)
	defaultCache.Store(key, res{q, err})
	return q, err
}

var defaultCache sync.Map

func evalDefaultUncached(ctx context.Context, typ, expr string, strict bool) (string, error) {
	db, err := sql.Open("sqlite3", ":memory:")
	if err != nil {
		return "", err
	}
	defer db.Close()
	db.SetMaxOpenConns(1)
	opt := ""
	if strict {
		opt = " STRICT"
	}
	if _, err := db.ExecContext(ctx, "CREATE TABLE x (c "+typ+")"+opt); err != nil {
		return "", err
	}
	if _, err := db.ExecContext(ctx, "INSERT INTO x SELECT "+expr); err != nil {
		return "", err
	}
	var q string
	err = db.QueryRowContext(ctx, "SELECT quote(c) FROM x").Scan(&q)
	return q, err
}
