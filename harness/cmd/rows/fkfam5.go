// Round 5 (coordinator's second scenario class): ONE change set that re-creates a parent table and at the same time
// removes the child's foreign key to it -- DropForeignKey on the child, the child excluded from the change set (left
// alone), or the child dropped -- with foreign-key enforcement on, an ON DELETE CASCADE / SET NULL / SET DEFAULT action
// and child rows that reference the parent.  Required: every child row and value survives (unless the child itself is
// dropped), i.e. the plan brackets the parent's DROP TABLE whatever the *desired* schema says about the key.
package main

import "fmt"

func fkFamilyCases() []*Case {
	var out []*Case
	rows := []string{
		"INSERT INTO p VALUES (1, 'one', NULL)", "INSERT INTO p VALUES (2, NULL, 2)", "INSERT INTO p VALUES (5, 'it''s', 3)",
		"INSERT INTO c VALUES (10, 1, 'w1')", "INSERT INTO c VALUES (11, 1, NULL)", "INSERT INTO c VALUES (12, 5, 'w3')", "INSERT INTO c VALUES (13, NULL, 'orphan')",
		"INSERT INTO z VALUES ('a', x'00ff')",
	}
	for _, act := range []string{"CASCADE", "SET NULL", "SET DEFAULT"} {
		p := Table{Name: "p", Cols: []Col{{Name: "id", Type: "integer", NotNull: true}, {Name: "v", Type: "text"}, {Name: "n", Type: "integer", Default: "7"}}, PK: []string{"id"}}
		c := Table{Name: "c", Cols: []Col{{Name: "id", Type: "integer", NotNull: true}, {Name: "p_id", Type: "integer", Default: "2"}, {Name: "w", Type: "text", Default: "'d'"}}, PK: []string{"id"},
			FKs: []FK{{Cols: []string{"p_id"}, RefTable: "p", RefCols: []string{"id"}, OnDelete: act}}}
		z := Table{Name: "z", Cols: []Col{{Name: "a", Type: "text"}, {Name: "b", Type: "blob"}}}
		cur := Schema{Tables: []Table{p, c, z}}
		// changes of the parent that force the copy path
		parents := map[string]func(t *Table){
			"notnull-default": func(t *Table) { t.Cols[1].NotNull, t.Cols[1].Default = true, "'x'" },
			"drop-column":     func(t *Table) { t.Cols = t.Cols[:2] },
			"add-check":       func(t *Table) { t.Checks = append(t.Checks, Check{Name: "ck", Expr: "`id` > 0"}) },
		}
		for _, pk := range []string{"notnull-default", "drop-column", "add-check"} {
			for _, child := range []string{"fk-kept", "fk-dropped", "child-excluded", "child-dropped", "child-rebuilt-fk-kept"} {
				des := cur.clone()
				parents[pk](&des.Tables[0])
				cs := &Case{ID: fmt.Sprintf("f-%s-%s-%s", pk, child, map[string]string{"CASCADE": "cascade", "SET NULL": "setnull", "SET DEFAULT": "setdefault"}[act]),
					Cur: cur.clone(), Inserts: rows, Edits: []string{pk + "@p", child + "@c"}}
				switch child {
				case "fk-dropped":
					des.Tables[1].FKs = nil
				case "child-excluded":
					des.Tables = []Table{des.Tables[0], des.Tables[2]}
					cs.Exclude = []string{"c"}
				case "child-dropped":
					des.Tables = []Table{des.Tables[0], des.Tables[2]}
				case "child-rebuilt-fk-kept":
					des.Tables[1].Cols[2].NotNull = true
				}
				cs.Des = des
				out = append(out, cs)
			}
		}
	}
	return out
}
