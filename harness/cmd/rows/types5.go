// Round 5 (coordinator's scenario class): untouched columns whose declared type is not a catalogue
// name.  SQLite derives the affinity from substrings of the type text, so a rebuilt table must declare such
// a column with the same type text, or the row copy converts the stored values.
package main

import "strings"

// oddTypes: type texts outside the catalogue of sqlite.ParseType, or multi-word / mixed-case catalogue ones
var oddTypes = []string{"STRING", "MONEY", "Point3D", "DATETIME2", "VARYING CHARACTER(20)", "NATIVE CHARACTER(70)",
	"UNSIGNED BIG INT", "", "DOUBLE PRECISION", "NVARCHAR(100)", "FLOATING POINT", "CHARINT", "BLOBTEXT", "DECIMAL(10,5)", "Boolean", "xml"}

// oddValues: values whose storage class depends on the affinity of the column they are stored in
var oddValues = []string{"'123'", "'1.5'", "'1e3'", "' 7'", "42", "2.5", "x'00ff'", "'abc'", "NULL"}

// oddTypeBase: one table, every odd type once, every value once in every column; `other` and `n` are there to be
// dropped / modified so that the table is rebuilt for a reason that has nothing to do with the odd columns
func oddTypeBase() (Schema, []string) {
	t := Table{Name: "ty", PK: []string{"id"}, Cols: []Col{{Name: "id", Type: "integer", NotNull: true}}}
	for i, ty := range oddTypes {
		t.Cols = append(t.Cols, Col{Name: "c" + string(rune('a'+i)), Type: ty})
	}
	t.Cols = append(t.Cols, Col{Name: "other", Type: "text"}, Col{Name: "n", Type: "integer", Default: "7"})
	var rows []string
	for i, v := range oddValues {
		vals := []string{string(rune('1' + i))}
		for range oddTypes {
			vals = append(vals, v)
		}
		vals = append(vals, "'o'", "NULL")
		rows = append(rows, "INSERT INTO `ty` VALUES ("+strings.Join(vals, ", ")+")")
	}
	z := Table{Name: "z", Cols: []Col{{Name: "a", Type: "text"}, {Name: "b", Type: "blob"}}}
	return Schema{Tables: []Table{t, z}}, append(rows, "INSERT INTO z VALUES ('a', x'00ff')")
}

// createColTypes: "<hex name>:<hex type>,..." of the column definitions of a CREATE TABLE statement the planner
// printed (state.column: "`name` <type> [NOT] NULL ..."), the type as the model sees it (typeTok)
func createColTypes(cmd string) string {
	i := strings.IndexByte(cmd, '(')
	j := strings.LastIndexByte(cmd, ')')
	if i < 0 || j < i {
		return "?"
	}
	strict := strings.Contains(createOpts(cmd), "S")
	body := cmd[i+1 : j]
	var items []string
	depth, start := 0, 0
	inq := byte(0)
	for k := 0; k < len(body); k++ {
		ch := body[k]
		switch {
		case inq != 0:
			if ch == inq {
				inq = 0
			}
		case ch == '`' || ch == '\'' || ch == '"':
			inq = ch
		case ch == '(':
			depth++
		case ch == ')':
			depth--
		case ch == ',' && depth == 0:
			items = append(items, body[start:k])
			start = k + 1
		}
	}
	items = append(items, body[start:])
	var out []string
	for _, it := range items {
		it = strings.TrimSpace(it)
		if !strings.HasPrefix(it, "`") {
			continue // PRIMARY KEY (...), CONSTRAINT ..., CHECK (...)
		}
		e := strings.IndexByte(it[1:], '`')
		if e < 0 {
			return "?"
		}
		name := it[1 : 1+e]
		rest := strings.TrimSpace(it[2+e:])
		typ := rest
		switch {
		case strings.HasPrefix(rest, "NOT NULL"), strings.HasPrefix(rest, "NULL"):
			typ = ""
		default:
			cut := len(rest)
			for _, kw := range []string{" NOT NULL", " NULL"} {
				if p := strings.Index(rest, kw); p >= 0 && p < cut {
					cut = p
				}
			}
			typ = rest[:cut]
		}
		out = append(out, hx(name)+":"+hx(typeTok(typ, strict)))
	}
	if len(out) == 0 {
		return "-"
	}
	return strings.Join(out, ",")
}
