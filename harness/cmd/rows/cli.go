// Stage cli: the same oracle through the real binary:
//
//	atlas schema apply --auto-approve --url sqlite://<file>?_fk=N --to file://schema.{hcl,sql} --tx-mode {file,none}
package main

import (
	"context"
	"database/sql"
	"errors"
	"fmt"
	"os"
	"path/filepath"
	"runtime"
	"strings"
	"sync"

	"ariga.io/atlas/sql/schema"
	"ariga.io/atlas/sql/sqlclient"
	"ariga.io/atlas/sql/sqlite"

	"verifharness/internal/clirun"
	"verifharness/internal/out"
	"verifharness/internal/rng"
)

func runCLIMode(ctx context.Context, c *Case, m Mode, hcl bool, root string) (res ModeResult) {
	res.Mode = m
	res.Stats = map[string]int{}
	dir, err := os.MkdirTemp(root, "cli-")
	if err != nil {
		res.Skip = "tmp: " + err.Error()
		return
	}
	defer os.RemoveAll(dir)
	path := filepath.Join(dir, "app.db")
	fk := "0"
	if m.FK {
		fk = "1"
	}
	db, err := sql.Open("sqlite3", "file:"+path+"?_fk="+fk)
	if err != nil {
		res.Skip = "open: " + err.Error()
		return
	}
	db.SetMaxOpenConns(1)
	if _, err := populate(ctx, db, c.Cur.ddl(), c.Inserts, c.Cur.Extra); err != nil {
		db.Close()
		res.Skip = "populate: " + err.Error()
		return
	}
	before, err := dumpDB(ctx, db)
	db.Close()
	if err != nil {
		res.Skip = "dump: " + err.Error()
		return
	}
	res.Rows = before.nrows()
	// the desired state file
	des, err := desiredSchema(ctx, c.Des.ddl())
	if err != nil {
		res.Skip = "desired-invalid: " + err.Error()
		return
	}
	var to string
	args := []string{"schema", "apply", "--auto-approve", "--url", "sqlite://" + path + "?_fk=" + fk, "--tx-mode", m.Tx}
	if hcl {
		b, err := sqlite.MarshalHCL(des)
		if err != nil {
			res.Skip = "marshal-hcl: " + err.Error()
			return
		}
		to = filepath.Join(dir, "schema.hcl")
		os.WriteFile(to, b, 0o644)
		// the change set is computed from the state the CLI reads: the HCL document evaluated back
		var s2 schema.Schema
		if err := sqlite.EvalHCLBytes(b, &s2, nil); err != nil {
			res.Skip = "eval-hcl: " + err.Error()
			return
		}
		if os.Getenv("ROWS_DEBUG_HCL") != "" {
			// diagnostic: which tables differ between the SQL desired state and its HCL export re-read
			if c0, err := sqlclient.Open(ctx, "sqlite://"+path+"?_fk="+fk); err == nil {
				if cur0, err := c0.InspectSchema(ctx, "", nil); err == nil {
					d1, _ := c0.SchemaDiff(cur0, des, schema.DiffNormalized())
					cur1, _ := c0.InspectSchema(ctx, "", nil)
					d2, _ := c0.SchemaDiff(cur1, &s2, schema.DiffNormalized())
					a, b2 := changedTables(d1), changedTables(d2)
					if fmt.Sprint(sortedKeys(a)) != fmt.Sprint(sortedKeys(b2)) {
						fmt.Fprintf(os.Stderr, "HCLDIFF %s sql=%v hcl=%v\n%s\n---hcl---\n%s\n", c.ID, sortedKeys(a), sortedKeys(b2), caseText(c), b)
					}
				}
				c0.Close()
			}
		}
		des = &s2
		args = append(args, "--to", "file://"+to)
	} else {
		to = filepath.Join(dir, "schema.sql")
		os.WriteFile(to, []byte(strings.Join(c.Des.ddl(), ";\n")+";\n"), 0o644)
		args = append(args, "--to", "file://"+to, "--dev-url", "sqlite://dev?mode=memory")
	}
	// the change set (read-only, in process): which tables are part of it
	client, err := sqlclient.Open(ctx, "sqlite://"+path+"?_fk="+fk)
	if err != nil {
		res.Skip = "open2: " + err.Error()
		return
	}
	cur, err := client.InspectSchema(ctx, "", nil)
	if err != nil {
		client.Close()
		res.Skip = "inspect: " + err.Error()
		return
	}
	// the CLI diffs with schema.DiffNormalized() (cmdapi.diffOptions)
	changes, err := client.SchemaDiff(cur, des, schema.DiffNormalized())
	if err != nil {
		client.Close()
		res.Skip = "diff-error: " + err.Error()
		return
	}
	res.NChanges = len(changes)
	res.PlanKinds, res.Creates = planKinds(ctx, client, changes)
	client.Close()
	// the model's input (as in the api stage)
	res.TieCase, res.TieSkip = tieCase(ctx, before, cur, changes, m.FK, m.Tx, -1)
	r := clirun.Run(dir, nil, args...)
	var applyErr error
	if r.Exit != 0 {
		applyErr = errors.New(r.Stderr + r.Stdout)
	}
	res.ErrClass = classify(applyErr)
	if applyErr != nil {
		res.ErrText = strings.TrimSpace(r.Stderr)
	}
	db, err = sql.Open("sqlite3", "file:"+path+"?_fk=0")
	if err != nil {
		res.Skip = "reopen: " + err.Error()
		return
	}
	defer db.Close()
	after, err := dumpDB(ctx, db)
	if err != nil {
		res.Skip = "dump-after: " + err.Error()
		return
	}
	res.Before, res.After = before, after
	in := &oracleIn{ctx: ctx, cur: &c.Cur, des: &c.Des, before: before, after: after, changed: changedTables(changes), applyErr: applyErr, mode: m}
	res.Verdicts, res.Stats = in.check()
	if res.Stats["rowid-alias-null-assigned"] > 0 {
		res.TieSkip = "rowid-alias-null"
	}
	if res.TieSkip == "" {
		res.TieObs = withCreates(tieObs(before, after, res.ErrClass), res.Creates)
		if res.TieObs == nil {
			res.TieSkip = "refusal-not-modelled"
		}
	}
	return
}

func runCLI(ctx context.Context, w *out.W, tier, tmp, outDir, only string) {
	wantFKLine = false
	w.Rule = "as in the api stage, through `atlas schema apply --auto-approve` (HCL and SQL desired states, --tx-mode file and none, _fk=1 and 0)"
	n := 90
	if tier == "thorough" {
		n = 1500
	}
	if _, err := os.Stat(clirun.Bin()); err != nil {
		fmt.Fprintln(os.Stderr, "atlas binary missing:", err)
		os.Exit(3)
	}
	var cases []*Case
	// the fixed witnesses first: nothing-in-common rebuild, parent rebuild with cascading children
	bs := fixedBases()
	fixed := []struct {
		id    string
		b     int
		edits []struct {
			k  string
			ti int
		}
	}{
		{"w-no-common-column", 0, []struct {
			k  string
			ti int
		}{{"drop-all-add-one", 3}}},
		{"w-parent-rebuild", 0, []struct {
			k  string
			ti int
		}{{"set-notnull-default", 0}}},
		{"w-parent-child-rebuild", 0, []struct {
			k  string
			ti int
		}{{"drop-notnull", 0}, {"add-check", 1}}},
		{"w-composite-parent-rebuild", 2, []struct {
			k  string
			ti int
		}{{"toggle-without-rowid", 0}}},
	}
	for _, f := range fixed {
		c := &Case{ID: f.id, Cur: bs[f.b].S.clone(), Inserts: bs[f.b].Rows, Des: bs[f.b].S.clone()}
		r := rng.New(3)
		ok := true
		for _, e := range f.edits {
			if !applyEdit(r, &c.Des, e.k, e.ti) {
				ok = false
			}
			c.Edits = append(c.Edits, e.k+"@"+bs[f.b].S.Tables[e.ti].Name)
		}
		if ok {
			cases = append(cases, c)
		}
	}
	// round 5: the two scenario classes of the coordinator through the CLI
	{
		ob, orows := oddTypeBase()
		od := ob.clone()
		t := &od.Tables[0]
		for i := range t.Cols {
			if t.Cols[i].Name == "other" { // dropping a column rebuilds the table; the odd-typed columns are not touched
				t.Cols = append(t.Cols[:i:i], t.Cols[i+1:]...)
				break
			}
		}
		cases = append(cases, &Case{ID: "w-odd-types-rebuild", Cur: ob.clone(), Inserts: orows, Des: od, Edits: []string{"drop-col@ty"}})
		for _, c := range fkFamilyCases() {
			switch c.ID {
			case "f-notnull-default-fk-dropped-cascade", "f-add-check-child-dropped-setnull", "f-drop-column-fk-kept-cascade", "f-drop-column-fk-dropped-setnull", "f-add-check-child-rebuilt-fk-kept-setdefault":
				c.ID = "w" + c.ID
				cases = append(cases, c)
			}
		}
	}
	r := rng.FromEnv(0xC05C)
	for i := 0; i < n; i++ {
		sub := rng.New(r.U64())
		cases = append(cases, genCase(sub, fmt.Sprintf("c%05d", i), 12, 3))
	}
	type job struct {
		c   *Case
		m   Mode
		hcl bool
	}
	results := make([]caseResult, len(cases))
	var wg sync.WaitGroup
	sem := make(chan struct{}, runtime.NumCPU())
	for i, c := range cases {
		if only != "" && c.ID != only {
			continue
		}
		wg.Add(1)
		sem <- struct{}{}
		go func(i int, c *Case) {
			defer wg.Done()
			defer func() { <-sem }()
			cr := caseResult{c: c}
			fixedCase := c.ID[0] == 'w'
			ms := []Mode{{Store: "file", FK: true, Tx: "file"}, {Store: "file", FK: true, Tx: "none"}}
			if fixedCase || i%3 == 0 {
				ms = append(ms, Mode{Store: "file", FK: false, Tx: "file"}, Mode{Store: "file", FK: false, Tx: "none"})
			}
			for k, m := range ms {
				cr.runs = append(cr.runs, runCLIMode(ctx, c, m, (i+k)%2 == 0, tmp))
			}
			results[i] = cr
		}(i, c)
	}
	wg.Wait()
	dbg, _ := os.Create(filepath.Join(outDir, "refused.log"))
	defer dbg.Close()
	viol, _ := os.Create(filepath.Join(outDir, "violations.sql"))
	defer viol.Close()
	for _, cr := range results {
		if cr.c != nil {
			report(w, cr, dbg, viol)
		}
	}
}
