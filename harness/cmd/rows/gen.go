// Random populated databases and edit catalogue for C05.
package main

import (
	"fmt"
	"strconv"
	"strings"

	"verifharness/internal/rng"
)

var typeCat = []string{"integer", "int", "text", "varchar(255)", "real", "blob", "numeric", "boolean", "datetime", "json", "bigint", "double"}
var strictTypes = []string{"integer", "int", "text", "real", "blob", "any"}

func strictOK(t string) bool { return has(strictTypes, t) }

var colNames = []string{"a", "b", "c", "d", "e", "f", "name", "val", "order", "Mixed", "two words", "x1", "note", "k"}

func defaultFor(r *rng.R, typ string) string {
	switch affinity(typ) {
	case "integer":
		return rng.Pick(r, []string{"0", "7", "-1", "(1 + 1)", "42"})
	case "real":
		return rng.Pick(r, []string{"1.5", "0.0", "(2.5 * 2)"})
	case "text":
		return rng.Pick(r, []string{"'d'", "''", "'it''s'", "(lower('DEF'))", "'x y'"})
	case "blob":
		return rng.Pick(r, []string{"x'00ff'", "'blob'", "x''"})
	}
	// numeric affinity (numeric, boolean, datetime, json)
	switch typ {
	case "boolean":
		return rng.Pick(r, []string{"1", "0", "true", "false"})
	case "datetime":
		return rng.Pick(r, []string{"'2020-01-01 00:00:00'", "CURRENT_TIMESTAMP"})
	case "json":
		return rng.Pick(r, []string{"'{}'", "'[]'"})
	}
	return rng.Pick(r, []string{"1", "2.5", "'n'", "'10'"})
}

func genExprFor(dep Col) string {
	switch affinity(dep.Type) {
	case "integer", "real", "numeric":
		return qi(dep.Name) + " + 1"
	case "text":
		return "lower(" + qi(dep.Name) + ")"
	}
	return "length(" + qi(dep.Name) + ")"
}

func freshCol(r *rng.R, t *Table) string {
	for i := 0; i < 50; i++ {
		n := rng.Pick(r, colNames)
		if t.col(n) == nil && !strings.EqualFold(n, "rowid") {
			clash := false
			for _, c := range t.Cols {
				if strings.EqualFold(c.Name, n) {
					clash = true
				}
			}
			if !clash {
				return n
			}
		}
	}
	return fmt.Sprintf("c%d", len(t.Cols)+r.Intn(1000))
}

func plainCols(t *Table) []Col {
	var o []Col
	for _, c := range t.Cols {
		if c.Gen == "" {
			o = append(o, c)
		}
	}
	return o
}

func randCol(r *rng.R, t *Table, strict bool) Col {
	c := Col{Name: freshCol(r, t)}
	if strict {
		c.Type = rng.Pick(r, strictTypes) // includes ANY: values are kept verbatim in a STRICT table
	} else {
		c.Type = rng.Pick(r, typeCat)
	}
	c.NotNull = r.Chance(1, 4)
	if r.Chance(1, 3) {
		c.Default = defaultFor(r, c.Type)
		if strict && strings.HasPrefix(c.Default, "'") && affinity(c.Type) != "text" {
			c.Default = ""
		}
	}
	return c
}

// genBase builds a random schema of 2..5 tables: parents first, children referencing them.
func genBase(r *rng.R) Schema {
	var s Schema
	n := 2 + r.Intn(4)
	for i := 0; i < n; i++ {
		t := Table{Name: fmt.Sprintf("t%d", i)}
		if r.Chance(1, 8) {
			t.Name = rng.Pick(r, []string{"Users", "order", "my table", "new_t0"}) + strconv.Itoa(i)
		}
		if i > 0 && r.Chance(1, 12) {
			// the temporary name the planner would use for the previous table
			t.Name = "new_" + s.Tables[i-1].Name
		}
		t.Strict = r.Chance(1, 6)
		// primary key shape
		switch k := r.Intn(10); {
		case k < 4: // INTEGER PRIMARY KEY (rowid alias)
			t.Cols = append(t.Cols, Col{Name: "id", Type: "integer", NotNull: true})
			t.PK = []string{"id"}
			t.AutoInc = r.Chance(1, 4)
		case k < 6: // composite
			t.Cols = append(t.Cols, Col{Name: "k1", Type: "integer", NotNull: true}, Col{Name: "k2", Type: "text", NotNull: true})
			t.PK = []string{"k1", "k2"}
		case k < 7: // text pk
			t.Cols = append(t.Cols, Col{Name: "code", Type: "text", NotNull: true})
			t.PK = []string{"code"}
		case k < 8: // int (not rowid alias) pk
			t.Cols = append(t.Cols, Col{Name: "id", Type: "int", NotNull: true})
			t.PK = []string{"id"}
		default: // no pk
		}
		if len(t.PK) > 0 && !t.AutoInc && r.Chance(1, 4) {
			t.WithoutRowid = true
		}
		nc := 1 + r.Intn(4)
		for j := 0; j < nc; j++ {
			t.Cols = append(t.Cols, randCol(r, &t, t.Strict))
		}
		// generated column
		if r.Chance(1, 4) {
			ps := plainCols(&t)
			dep := ps[r.Intn(len(ps))]
			g := Col{Name: freshCol(r, &t), Type: dep.Type, Gen: genExprFor(dep), Stored: r.Bool(), GenDep: dep.Name}
			if affinity(dep.Type) == "blob" {
				g.Type = "integer"
				if t.Strict {
					g.Type = "integer"
				}
			}
			t.Cols = append(t.Cols, g)
		}
		// foreign keys to earlier tables / self
		if i > 0 && r.Chance(2, 3) {
			addRandFK(r, &s, &t, s.Tables[r.Intn(len(s.Tables))].Name)
		}
		if len(t.PK) == 1 && r.Chance(1, 5) {
			addRandFK(r, &s, &t, t.Name)
		}
		// unique / index / check
		if r.Chance(1, 4) {
			ps := plainCols(&t)
			c := ps[r.Intn(len(ps))]
			if !has(t.PK, c.Name) {
				t.Uniques = append(t.Uniques, []string{c.Name})
			}
		}
		if r.Chance(1, 2) {
			addRandIdx(r, &t)
		}
		if r.Chance(1, 4) {
			addRandCheck(r, &t)
		}
		s.Tables = append(s.Tables, t)
	}
	// objects the community driver does not see: a view over a table (makes a rebuild of that table
	// fail at RENAME), a trigger that would delete rows of another table if DROP TABLE fired it
	if r.Chance(1, 12) {
		t := s.Tables[r.Intn(len(s.Tables))]
		s.Extra = append(s.Extra, "CREATE VIEW "+qi("v_"+t.Name)+" AS SELECT * FROM "+qi(t.Name))
	}
	if r.Chance(1, 8) && len(s.Tables) > 1 {
		i := r.Intn(len(s.Tables))
		j := (i + 1 + r.Intn(len(s.Tables)-1)) % len(s.Tables)
		s.Extra = append(s.Extra, "CREATE TRIGGER "+qi("trg_"+s.Tables[i].Name)+" AFTER DELETE ON "+qi(s.Tables[i].Name)+" BEGIN DELETE FROM "+qi(s.Tables[j].Name)+"; END")
	}
	return s
}

func addRandIdx(r *rng.R, t *Table) {
	c := t.Cols[r.Intn(len(t.Cols))]
	ix := Idx{Name: fmt.Sprintf("ix_%s_%d", strings.ReplaceAll(t.Name, " ", "_"), len(t.Idx)+r.Intn(100)), Cols: []string{c.Name}, Unique: r.Chance(1, 4), Desc: r.Chance(1, 5)}
	if r.Chance(1, 4) && len(t.Cols) > 1 {
		c2 := t.Cols[r.Intn(len(t.Cols))]
		if c2.Name != c.Name {
			ix.Cols = append(ix.Cols, c2.Name)
		}
	}
	if r.Chance(1, 6) {
		ix.Where = qi(c.Name) + " IS NOT NULL"
	}
	for _, o := range t.Idx {
		if o.Name == ix.Name {
			return
		}
	}
	t.Idx = append(t.Idx, ix)
}

func addRandCheck(r *rng.R, t *Table) {
	ps := plainCols(t)
	c := ps[r.Intn(len(ps))]
	var e string
	switch affinity(c.Type) {
	case "integer", "real", "numeric":
		e = rng.Pick(r, []string{qi(c.Name) + " > -100000000", qi(c.Name) + " >= 0", qi(c.Name) + " <> 13"})
	default:
		e = rng.Pick(r, []string{"length(" + qi(c.Name) + ") < 1000", "length(" + qi(c.Name) + ") < 4"})
	}
	k := Check{Expr: e}
	if r.Bool() {
		k.Name = fmt.Sprintf("ck_%d", len(t.Checks)+r.Intn(100))
	}
	t.Checks = append(t.Checks, k)
}

// addRandFK adds column(s) referencing the primary key of ref (which may be t itself).
func addRandFK(r *rng.R, s *Schema, t *Table, ref string) {
	var p *Table
	if ref == t.Name {
		p = t
	} else {
		p = s.table(ref)
	}
	if p == nil || len(p.PK) == 0 {
		return
	}
	act := rng.Pick(r, []string{"CASCADE", "CASCADE", "SET NULL", "RESTRICT", "NO ACTION", ""})
	fk := FK{RefTable: p.Name, RefCols: append([]string(nil), p.PK...), OnDelete: act}
	if r.Chance(1, 3) {
		fk.OnUpdate = rng.Pick(r, []string{"CASCADE", "SET NULL", "NO ACTION"})
	}
	if r.Chance(1, 2) {
		fk.Name = fmt.Sprintf("fk_%s_%d", strings.ReplaceAll(t.Name, " ", "_"), len(t.FKs))
	}
	for _, pc := range p.PK {
		pcol := p.col(pc)
		n := "ref_" + strings.ReplaceAll(p.Name, " ", "_") + "_" + pc
		if t.col(n) != nil {
			return
		}
		c := Col{Name: n, Type: pcol.Type, NotNull: act != "SET NULL" && r.Chance(1, 3)}
		if ref == t.Name {
			c.NotNull = false
		}
		fk.Cols = append(fk.Cols, n)
		t.Cols = append(t.Cols, c)
	}
	t.FKs = append(t.FKs, fk)
}

// ---- values -----------------------------------------------------------------

var intVals = []string{"0", "1", "-1", "42", "13", "2147483648", "9007199254740993", "-9223372036854775808", "7"}
var realVals = []string{"0.0", "1.5", "-2.25", "1e100", "3.0", "0.1", "123456789.125", "-0.0", "9e999", "1e-320", "0.30000000000000004"}
var textVals = []string{"''", "'a'", "'it''s'", "'héllo'", "'NULL'", "'123'", "' sp '", "'x`y'", "'ABC'", "'long long long long text value'", "'1.0'", "'d'", "'line1' || char(10) || 'line2'", "''''", "'\U0001F600 z\u00fc'", "'tab' || char(9)"}
var blobVals = []string{"x''", "x'00'", "x'deadbeef'", "x'27'", "x'6162'"}

// values whose stored form depends on the typing rules of the table: kept verbatim in an ANY column
// of a STRICT table, converted by NUMERIC affinity in an ordinary one
var anyVals = []string{"'007'", "'1e3'", "' 12'", "'0x10'", "'-0'", "'1.0'", "'abc'", "5", "1.5", "x'00'", "'12abc'", "''"}

func genValue(r *rng.R, c Col, strict bool) string {
	if !c.NotNull && r.Chance(1, 4) {
		return "NULL"
	}
	if c.Type == "any" {
		return rng.Pick(r, anyVals)
	}
	aff := affinity(c.Type)
	if !strict && r.Chance(1, 10) {
		aff = rng.Pick(r, []string{"integer", "real", "text", "blob"})
	}
	switch aff {
	case "integer":
		if r.Chance(1, 2) {
			return strconv.Itoa(r.Intn(2000) - 1000)
		}
		return rng.Pick(r, intVals)
	case "real":
		return rng.Pick(r, realVals)
	case "text":
		return rng.Pick(r, textVals)
	case "blob":
		return rng.Pick(r, blobVals)
	}
	return rng.Pick(r, append(append([]string{}, intVals[:5]...), "2.5", "'n'", "'2021-02-03'", "'{\"a\":1}'"))
}

// genRows returns INSERT statements populating the schema (parents first).  Rows that
// the engine rejects (unique, check, fk) are skipped by the caller.
func genRows(r *rng.R, s *Schema, maxRows int) []string {
	var out []string
	keys := map[string][][]string{} // table -> list of pk tuples inserted (as SQL literals)
	for ti := range s.Tables {
		t := &s.Tables[ti]
		n := r.Intn(maxRows + 1)
		if r.Chance(1, 8) {
			n = 0
		}
		fkOf := map[string]*FK{}
		for fi := range t.FKs {
			for _, c := range t.FKs[fi].Cols {
				fkOf[c] = &t.FKs[fi]
			}
		}
		for i := 0; i < n; i++ {
			var cols, vals []string
			rowv := map[string]string{}
			// choose fk tuples first
			for fi := range t.FKs {
				f := &t.FKs[fi]
				cand := keys[f.RefTable]
				var tup []string
				if len(cand) > 0 && !r.Chance(1, 5) {
					tup = cand[r.Intn(len(cand))]
				}
				for k, c := range f.Cols {
					if tup == nil {
						rowv[c] = "NULL"
					} else {
						rowv[c] = tup[k]
					}
				}
			}
			for _, c := range t.Cols {
				if c.Gen != "" {
					continue
				}
				if t.AutoInc && len(t.PK) == 1 && t.PK[0] == c.Name && r.Chance(1, 2) {
					continue // let AUTOINCREMENT choose
				}
				v, ok := rowv[c.Name]
				switch {
				case ok:
				case has(t.PK, c.Name):
					if affinity(c.Type) == "integer" {
						v = strconv.Itoa(i*3 + 1 + r.Intn(3))
					} else {
						v = fmt.Sprintf("'k%d'", i*2+r.Intn(2))
					}
				case c.Default != "" && r.Chance(1, 6):
					continue // take the default
				default:
					v = genValue(r, c, t.Strict)
				}
				rowv[c.Name] = v
				cols = append(cols, qi(c.Name))
				vals = append(vals, v)
			}
			if len(cols) == 0 {
				out = append(out, "INSERT INTO "+qi(t.Name)+" DEFAULT VALUES")
			} else {
				out = append(out, "INSERT INTO "+qi(t.Name)+" ("+strings.Join(cols, ", ")+") VALUES ("+strings.Join(vals, ", ")+")")
			}
			if len(t.PK) > 0 {
				var tup []string
				okk := true
				for _, p := range t.PK {
					v, ok := rowv[p]
					if !ok {
						okk = false
					}
					tup = append(tup, v)
				}
				if okk {
					keys[t.Name] = append(keys[t.Name], tup)
				}
			}
		}
	}
	return out
}

// ---- edits ------------------------------------------------------------------

type Edit struct {
	Kind string
	Do   func(s *Schema) bool // false = not applicable
}

// dropColDeps removes everything in t that mentions column n.
func dropColDeps(t *Table, n string) {
	var ix []Idx
	for _, i := range t.Idx {
		if !has(i.Cols, n) && !strings.Contains(i.Where, qi(n)) {
			ix = append(ix, i)
		}
	}
	t.Idx = ix
	var us [][]string
	for _, u := range t.Uniques {
		if !has(u, n) {
			us = append(us, u)
		}
	}
	t.Uniques = us
	var fs []FK
	for _, f := range t.FKs {
		if !has(f.Cols, n) {
			fs = append(fs, f)
		}
	}
	t.FKs = fs
	var ks []Check
	for _, k := range t.Checks {
		if !strings.Contains(k.Expr, qi(n)) {
			ks = append(ks, k)
		}
	}
	t.Checks = ks
	var cs []Col
	for _, c := range t.Cols {
		if c.GenDep != n {
			cs = append(cs, c)
		}
	}
	t.Cols = cs
}

// referencedBy reports whether column n of table t is the target of a foreign key.
func referencedBy(s *Schema, t *Table, n string) bool {
	for _, o := range s.Tables {
		for _, f := range o.FKs {
			if f.RefTable == t.Name && has(f.RefCols, n) {
				return true
			}
		}
	}
	return false
}

func tableReferenced(s *Schema, name string) bool {
	for _, o := range s.Tables {
		if o.Name == name {
			continue
		}
		for _, f := range o.FKs {
			if f.RefTable == name {
				return true
			}
		}
	}
	return false
}

// editKinds is the catalogue; each call picks its own target inside table t.
var editKinds = []string{
	"add-col-null", "add-col-default", "add-col-notnull-default", "add-col-notnull-nodefault", "add-col-expr-default",
	"add-col-gen-virtual", "add-col-gen-stored", "add-col-indexed", "add-col-fk",
	"drop-col", "set-notnull-default", "set-notnull-nodefault", "drop-notnull", "change-default", "drop-default",
	"change-type-same-aff", "change-type-other-aff",
	"add-index", "add-unique-index", "drop-index", "add-unique", "drop-unique",
	"add-pk", "drop-pk", "change-pk",
	"add-check", "add-check-strong", "drop-check",
	"toggle-strict", "toggle-without-rowid",
	"add-fk", "drop-fk", "change-fk-action",
	"drop-table", "add-table", "drop-all-add-one", "move-col-last",
	// NOT NULL over existing NULLs: the column is nullable and has a DEFAULT already
	"notnull-keep-default", "notnull-change-default", "notnull-change-type",
	// generated columns changing kind
	"gen-virtual-to-regular", "gen-virtual-to-regular-default", "gen-stored-to-regular", "gen-stored-to-regular-default",
	"regular-to-virtual", "regular-to-stored", "gen-flip-kind", "gen-change-expr",
}

func applyEdit(r *rng.R, s *Schema, kind string, ti int) bool {
	if ti >= len(s.Tables) {
		return false
	}
	t := &s.Tables[ti]
	ps := plainCols(t)
	pickPlainNonPK := func() *Col {
		var cand []string
		for _, c := range ps {
			if !has(t.PK, c.Name) {
				cand = append(cand, c.Name)
			}
		}
		if len(cand) == 0 {
			return nil
		}
		return t.col(cand[r.Intn(len(cand))])
	}
	newCol := func() Col {
		c := randCol(r, t, t.Strict)
		c.NotNull, c.Default = false, ""
		return c
	}
	pickWhere := func(pred func(c *Col) bool) *Col {
		var cand []int
		for i := range t.Cols {
			if pred(&t.Cols[i]) {
				cand = append(cand, i)
			}
		}
		if len(cand) == 0 {
			return nil
		}
		return &t.Cols[cand[r.Intn(len(cand))]]
	}
	nullableWithDefault := func(c *Col) bool {
		return c.Gen == "" && !has(t.PK, c.Name) && !c.NotNull && c.Default != "" && !strings.Contains(c.Default, "CURRENT_")
	}
	genOfKind := func(stored bool) func(c *Col) bool {
		return func(c *Col) bool { return c.Gen != "" && c.Stored == stored }
	}
	switch kind {
	case "notnull-keep-default":
		c := pickWhere(nullableWithDefault)
		if c == nil {
			return false
		}
		c.NotNull = true
	case "notnull-change-default":
		c := pickWhere(nullableWithDefault)
		if c == nil {
			return false
		}
		c.NotNull = true
		old := c.Default
		for i := 0; i < 8 && (c.Default == old || strings.Contains(c.Default, "CURRENT_")); i++ {
			c.Default = defaultFor(r, c.Type)
		}
		if t.Strict && strings.HasPrefix(c.Default, "'") && affinity(c.Type) != "text" {
			c.Default = "3"
		}
		if c.Default == old {
			return false
		}
	case "notnull-change-type":
		// nullability and type change together, the DEFAULT clause stays as it is
		c := pickWhere(func(c *Col) bool { return nullableWithDefault(c) && !referencedBy(s, t, c.Name) })
		if c == nil || t.Strict {
			return false
		}
		for _, f := range t.FKs {
			if has(f.Cols, c.Name) {
				return false
			}
		}
		for _, g := range t.Cols {
			if g.GenDep == c.Name {
				return false
			}
		}
		c.NotNull = true
		if affinity(c.Type) == "text" {
			c.Type = "blob"
		} else {
			c.Type = "text"
		}
	case "gen-virtual-to-regular", "gen-virtual-to-regular-default", "gen-stored-to-regular", "gen-stored-to-regular-default":
		c := pickWhere(genOfKind(strings.HasPrefix(kind, "gen-stored")))
		if c == nil {
			return false
		}
		c.Gen, c.Stored, c.GenDep, c.NotNull = "", false, "", false
		if strings.HasSuffix(kind, "-default") {
			c.Default = defaultFor(r, c.Type)
			if strings.Contains(c.Default, "CURRENT_") || (t.Strict && strings.HasPrefix(c.Default, "'") && affinity(c.Type) != "text") {
				c.Default = "3"
			}
			c.NotNull = r.Bool()
		}
	case "regular-to-virtual", "regular-to-stored":
		c := pickWhere(func(c *Col) bool {
			if c.Gen != "" || has(t.PK, c.Name) || referencedBy(s, t, c.Name) {
				return false
			}
			for _, f := range t.FKs {
				if has(f.Cols, c.Name) {
					return false
				}
			}
			for _, g := range t.Cols {
				if g.GenDep == c.Name {
					return false
				}
			}
			return true
		})
		if c == nil {
			return false
		}
		var dep *Col
		for i := range t.Cols {
			if t.Cols[i].Gen == "" && t.Cols[i].Name != c.Name {
				dep = &t.Cols[i]
				break
			}
		}
		if dep == nil {
			return false
		}
		c.Gen, c.Stored, c.GenDep = genExprFor(*dep), kind == "regular-to-stored", dep.Name
		c.Default, c.NotNull = "", false
	case "gen-flip-kind":
		c := pickWhere(func(c *Col) bool { return c.Gen != "" })
		if c == nil {
			return false
		}
		c.Stored = !c.Stored
	case "gen-change-expr":
		c := pickWhere(func(c *Col) bool { return c.Gen != "" })
		if c == nil {
			return false
		}
		if strings.HasPrefix(c.Gen, "lower(") {
			c.Gen = "upper(" + strings.TrimPrefix(c.Gen, "lower(")
		} else {
			c.Gen = c.Gen + " + 1"
		}
	case "add-col-null":
		t.Cols = append(t.Cols, newCol())
	case "add-col-default":
		c := newCol()
		c.Default = defaultFor(r, c.Type)
		if strings.Contains(c.Default, "(") || c.Default == "CURRENT_TIMESTAMP" {
			c.Default = "5"
		}
		if t.Strict && affinity(c.Type) != "integer" {
			c.Type = "integer"
			c.Default = "5"
		}
		t.Cols = append(t.Cols, c)
	case "add-col-notnull-default":
		c := newCol()
		c.NotNull = true
		c.Type = rng.Pick(r, []string{"integer", "text"})
		if c.Type == "integer" {
			c.Default = "9"
		} else {
			c.Default = "'nd'"
		}
		t.Cols = append(t.Cols, c)
	case "add-col-notnull-nodefault":
		c := newCol()
		c.NotNull = true
		t.Cols = append(t.Cols, c)
	case "add-col-expr-default":
		c := newCol()
		c.Type = "integer"
		c.Default = "(1 + 2)"
		c.NotNull = r.Bool()
		t.Cols = append(t.Cols, c)
	case "add-col-gen-virtual", "add-col-gen-stored":
		dep := ps[r.Intn(len(ps))]
		g := Col{Name: freshCol(r, t), Type: "integer", Gen: "length(" + qi(dep.Name) + ")", Stored: kind == "add-col-gen-stored", GenDep: dep.Name}
		t.Cols = append(t.Cols, g)
	case "add-col-indexed":
		c := newCol()
		t.Cols = append(t.Cols, c)
		t.Idx = append(t.Idx, Idx{Name: fmt.Sprintf("ixn_%d_%d", ti, r.Intn(1000)), Cols: []string{c.Name}, Unique: r.Chance(1, 3)})
	case "add-col-fk":
		if len(s.Tables) < 2 {
			return false
		}
		before := len(t.FKs)
		addRandFK(r, s, t, s.Tables[r.Intn(len(s.Tables))].Name)
		if len(t.FKs) == before {
			return false
		}
		for _, c := range t.FKs[len(t.FKs)-1].Cols {
			t.col(c).NotNull = false
		}
	case "drop-col":
		c := pickPlainNonPK()
		if c == nil || len(ps) < 2 || referencedBy(s, t, c.Name) {
			// also allow dropping a generated column
			for _, g := range t.Cols {
				if g.Gen != "" {
					n := g.Name
					dropColDeps(t, n)
					var cs []Col
					for _, x := range t.Cols {
						if x.Name != n {
							cs = append(cs, x)
						}
					}
					t.Cols = cs
					return true
				}
			}
			return false
		}
		n := c.Name
		dropColDeps(t, n)
		var cs []Col
		for _, x := range t.Cols {
			if x.Name != n {
				cs = append(cs, x)
			}
		}
		t.Cols = cs
		if len(plainCols(t)) == 0 {
			return false
		}
	case "set-notnull-default":
		c := pickPlainNonPK()
		if c == nil {
			return false
		}
		c.NotNull = true
		if c.Default == "" || r.Chance(1, 3) {
			c.Default = defaultFor(r, c.Type)
			if t.Strict && strings.HasPrefix(c.Default, "'") && affinity(c.Type) != "text" {
				c.Default = "3"
			}
		}
	case "set-notnull-nodefault":
		c := pickPlainNonPK()
		if c == nil {
			return false
		}
		c.NotNull = true
		c.Default = ""
	case "drop-notnull":
		c := pickPlainNonPK()
		if c == nil {
			return false
		}
		c.NotNull = false
	case "change-default":
		c := pickPlainNonPK()
		if c == nil {
			return false
		}
		old := c.Default
		for i := 0; i < 5 && c.Default == old; i++ {
			c.Default = defaultFor(r, c.Type)
		}
		if t.Strict && strings.HasPrefix(c.Default, "'") && affinity(c.Type) != "text" {
			c.Default = "3"
		}
	case "drop-default":
		c := pickPlainNonPK()
		if c == nil || c.Default == "" {
			return false
		}
		c.Default = ""
	case "change-type-same-aff":
		c := pickPlainNonPK()
		if c == nil || t.Strict {
			return false
		}
		m := map[string]string{"integer": "bigint", "int": "integer", "bigint": "int", "text": "varchar(255)", "varchar(255)": "text", "real": "double", "double": "real", "numeric": "boolean", "boolean": "numeric", "datetime": "numeric", "json": "numeric", "blob": "blob"}
		c.Type = m[c.Type]
	case "change-type-other-aff":
		c := pickPlainNonPK()
		if c == nil || referencedBy(s, t, c.Name) {
			return false
		}
		old := affinity(c.Type)
		for i := 0; i < 8 && affinity(c.Type) == old; i++ {
			if t.Strict {
				c.Type = rng.Pick(r, strictTypes[:5])
			} else {
				c.Type = rng.Pick(r, typeCat)
			}
		}
		c.Default = ""
		// generated columns depending on it keep their expression
	case "add-index", "add-unique-index":
		before := len(t.Idx)
		addRandIdx(r, t)
		if len(t.Idx) == before {
			return false
		}
		t.Idx[len(t.Idx)-1].Unique = kind == "add-unique-index"
	case "drop-index":
		if len(t.Idx) == 0 {
			return false
		}
		i := r.Intn(len(t.Idx))
		t.Idx = append(t.Idx[:i:i], t.Idx[i+1:]...)
	case "add-unique":
		c := pickPlainNonPK()
		if c == nil {
			return false
		}
		for _, u := range t.Uniques {
			if len(u) == 1 && u[0] == c.Name {
				return false
			}
		}
		t.Uniques = append(t.Uniques, []string{c.Name})
	case "drop-unique":
		if len(t.Uniques) == 0 {
			return false
		}
		t.Uniques = t.Uniques[1:]
	case "add-pk":
		if len(t.PK) > 0 {
			return false
		}
		c := ps[r.Intn(len(ps))]
		t.PK = []string{c.Name}
		t.col(c.Name).NotNull = r.Bool()
	case "drop-pk":
		if len(t.PK) == 0 || tableReferenced(s, t.Name) || t.WithoutRowid {
			return false
		}
		for _, f := range t.FKs {
			if f.RefTable == t.Name {
				return false
			}
		}
		t.PK, t.AutoInc = nil, false
	case "change-pk":
		if len(t.PK) == 0 || tableReferenced(s, t.Name) {
			return false
		}
		for _, f := range t.FKs {
			if f.RefTable == t.Name {
				return false
			}
		}
		c := pickPlainNonPK()
		if c == nil {
			return false
		}
		t.AutoInc = false
		if r.Bool() {
			t.PK = append(t.PK, c.Name)
		} else {
			t.PK = []string{c.Name}
		}
	case "add-check", "add-check-strong":
		addRandCheck(r, t)
		if kind == "add-check-strong" {
			c := ps[r.Intn(len(ps))]
			t.Checks[len(t.Checks)-1].Expr = qi(c.Name) + " IS NOT NULL"
		}
	case "drop-check":
		if len(t.Checks) == 0 {
			return false
		}
		t.Checks = t.Checks[1:]
	case "toggle-strict":
		if !t.Strict {
			for _, c := range t.Cols {
				if !strictOK(c.Type) {
					return false
				}
			}
		}
		t.Strict = !t.Strict
	case "toggle-without-rowid":
		if len(t.PK) == 0 || t.AutoInc {
			return false
		}
		t.WithoutRowid = !t.WithoutRowid
	case "add-fk":
		// constrain an existing column
		if len(s.Tables) < 2 {
			return false
		}
		p := &s.Tables[r.Intn(len(s.Tables))]
		if len(p.PK) != 1 {
			return false
		}
		c := pickPlainNonPK()
		if c == nil {
			return false
		}
		for _, f := range t.FKs {
			if has(f.Cols, c.Name) {
				return false
			}
		}
		t.FKs = append(t.FKs, FK{Cols: []string{c.Name}, RefTable: p.Name, RefCols: []string{p.PK[0]}, OnDelete: rng.Pick(r, []string{"CASCADE", "SET NULL", ""})})
	case "drop-fk":
		if len(t.FKs) == 0 {
			return false
		}
		i := r.Intn(len(t.FKs))
		t.FKs = append(t.FKs[:i:i], t.FKs[i+1:]...)
	case "change-fk-action":
		if len(t.FKs) == 0 {
			return false
		}
		f := &t.FKs[r.Intn(len(t.FKs))]
		old := f.OnDelete
		for i := 0; i < 5 && f.OnDelete == old; i++ {
			f.OnDelete = rng.Pick(r, []string{"CASCADE", "SET NULL", "RESTRICT", "NO ACTION"})
		}
	case "drop-table":
		if len(s.Tables) < 2 {
			return false
		}
		name := t.Name
		if tableReferenced(s, name) && r.Chance(1, 3) {
			// keep the (now dangling) foreign keys of the children: they are not part of the change set
		} else if tableReferenced(s, name) {
			if r.Bool() {
				return false
			}
			// drop the foreign keys pointing at it as well (columns stay)
			for i := range s.Tables {
				var fs []FK
				for _, f := range s.Tables[i].FKs {
					if f.RefTable != name {
						fs = append(fs, f)
					}
				}
				s.Tables[i].FKs = fs
			}
		}
		s.Tables = append(s.Tables[:ti:ti], s.Tables[ti+1:]...)
	case "add-table":
		nt := Table{Name: fmt.Sprintf("added%d", len(s.Tables)), Cols: []Col{{Name: "id", Type: "integer", NotNull: true}, {Name: "v", Type: "text"}}, PK: []string{"id"}}
		if len(t.PK) == 1 {
			nt.Cols = append(nt.Cols, Col{Name: "p", Type: t.col(t.PK[0]).Type})
			nt.FKs = append(nt.FKs, FK{Cols: []string{"p"}, RefTable: t.Name, RefCols: []string{t.PK[0]}, OnDelete: "CASCADE"})
		}
		s.Tables = append(s.Tables, nt)
	case "drop-all-add-one":
		// every column replaced: nothing survives but the rows should
		if len(t.PK) > 0 || len(t.FKs) > 0 || tableReferenced(s, t.Name) {
			return false
		}
		nt := Table{Name: t.Name, Strict: t.Strict}
		c := randCol(r, &nt, t.Strict)
		c.Name = "fresh"
		c.NotNull = false
		nt.Cols = []Col{c}
		*t = nt
	case "move-col-last":
		if len(t.Cols) < 2 {
			return false
		}
		i := r.Intn(len(t.Cols) - 1)
		c := t.Cols[i]
		if c.Gen == "" {
			for _, g := range t.Cols {
				if g.GenDep == c.Name {
					return false
				}
			}
		}
		t.Cols = append(append(t.Cols[:i:i], t.Cols[i+1:]...), c)
	default:
		return false
	}
	return true
}
