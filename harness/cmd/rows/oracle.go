// The C05 oracle, evaluated on dumps of the real database only.
//
//   - every table that the desired schema keeps still exists after a successful apply;
//   - its row count is unchanged;
//   - every column that exists before and after with the same declared type holds the same
//     value in every row (multiset of the rows projected on those columns; the primary key
//     columns are part of the projection whenever they survive).  One documented exception,
//     checked exactly: a column that was nullable and is NOT NULL with a DEFAULT afterwards
//     holds that default where it held NULL (copyRows' IFNULL);
//   - tables that are not in the change set are byte-identical (schema text, rowids, rows);
//   - a refused apply leaves the database unchanged (transactional modes) or, without a
//     transaction, still holds every row of every table.
package main

import (
	"context"
	"fmt"
	"regexp"
	"sort"
	"strings"
)

type Verdict struct{ Class, Msg string }

var reNotNullFailed = regexp.MustCompile(`NOT NULL constraint failed: ([^.\s]+(?: [^.\s]+)*)\.(.+?)\s*$`)

// normType: the declared type as the planner writes it back (sqlite.FormatType drops the
// size / precision arguments: varchar(255) -> varchar); "the same type" of the property is
// equality of this name.
func normType(t string) string {
	t = strings.ToLower(strings.TrimSpace(t))
	if i := strings.IndexByte(t, '('); i >= 0 {
		t = strings.TrimSpace(t[:i])
	}
	return t
}

type oracleIn struct {
	ctx      context.Context
	cur, des *Schema
	before   *Dump
	after    *Dump
	changed  map[string]string
	applyErr error
	mode     Mode
}

// genSame: the column is generated in both specs with the same expression.
func genSame(cur, des *Schema, tbl, col string) (same bool, dep string) {
	a, b := cur.table(tbl), des.table(tbl)
	if a == nil || b == nil {
		return false, ""
	}
	ca, cb := a.col(col), b.col(col)
	if ca == nil || cb == nil || ca.Gen == "" || ca.Gen != cb.Gen {
		return false, ""
	}
	if ca.GenVia != "" {
		// reads another generated column: that one must be the same generated column as well
		if same, _ := genSame(cur, des, tbl, ca.GenVia); !same {
			return false, ""
		}
	}
	return true, ca.GenDep
}

type preserveStats struct {
	surviving    int
	coalesced    int // NULLs that were replaced by the default
	rows         int
	aliasNull    int
	materialised int
}

func isRowidAlias(t *TableDump, i int) bool {
	if !t.HasRowid || t.Cols[i].PK != 1 || t.Cols[i].Type != "integer" {
		return false
	}
	for j, c := range t.Cols {
		if j != i && c.PK > 0 {
			return false
		}
	}
	return true
}

func hasNull(t *TableDump, i int) bool {
	for _, r := range t.Rows {
		if r[i] == "NULL" {
			return true
		}
	}
	return false
}

// preserved compares table tb (before) with ta (after).
func preserved(in *oracleIn, tb, ta *TableDump, specName string, useGen bool) (vs []Verdict, st preserveStats) {
	st.rows = len(tb.Rows)
	type pair struct {
		bi, ai   int
		coalesce bool
		skip     bool
		dflt     string
		name     string
	}
	var ps []pair
	plain := map[string]pair{}
	// STRICT added or removed by the user: an ANY column changes its typing rules with it (verbatim
	// in a STRICT table, NUMERIC affinity otherwise); such a column is not judged
	strictChanged := false
	if a, b := in.cur.table(specName), in.des.table(specName); a != nil && b != nil && a.Strict != b.Strict {
		strictChanged = true
	}
	for bi, cb := range tb.Cols {
		ai := ta.colIdx(cb.Name)
		if ai < 0 {
			continue
		}
		ca := ta.Cols[ai]
		if strictChanged && normType(cb.Type) == "any" {
			plain[cb.Name] = pair{bi: bi, ai: ai, name: cb.Name, skip: true}
			continue
		}
		typeDiffers := normType(ca.Type) != normType(cb.Type)
		if typeDiffers {
			// Round 5: "the same type" is what the user declares.  When the current and the desired schema declare the
			// column with the same type text, the re-created table must declare it that way too: if the planner (or
			// ParseType / FormatType on the way) rewrites the name to one with another affinity, the row copy converts the
			// stored values although the diff shows no change for the column.  Such a column is judged like any other.
			if a, b := in.cur.table(specName), in.des.table(specName); a != nil && b != nil {
				if sa, sb := a.col(cb.Name), b.col(cb.Name); sa != nil && sb != nil && sa.Gen == "" && sb.Gen == "" && sa.Type == sb.Type {
					if affinity(ca.Type) != affinity(cb.Type) {
						vs = append(vs, Verdict{"untouched-type-rewritten", fmt.Sprintf("mode=%s table=%s column %s is declared %q in the current and in the desired schema; the table was re-created with the column declared %q (affinity %s) instead of %q (affinity %s)", in.mode, tb.Name, cb.Name, sa.Type, ca.Type, affinity(ca.Type), cb.Type, affinity(cb.Type))})
					}
					typeDiffers = false
				}
			}
		}
		if typeDiffers {
			// NOT NULL + DEFAULT over existing NULLs together with a type change: the values are
			// converted (not judged), but every NULL must have become the default
			if cb.Hidden == 0 && ca.Hidden == 0 && !cb.NotNull && ca.NotNull && ca.Dflt != "" &&
				!strings.Contains(strings.ToUpper(ca.Dflt), "CURRENT_") && len(tb.Rows) == len(ta.Rows) {
				if d, err := evalDefault(in.ctx, ca.Type, ca.Dflt, strictSQL(ta.SQL[0])); err == nil {
					nb, na := 0, 0
					for _, r := range tb.Rows {
						if r[bi] == "NULL" {
							nb++
						}
					}
					for _, r := range ta.Rows {
						if r[ai] == d {
							na++
						}
					}
					st.coalesced += nb
					if na < nb {
						vs = append(vs, Verdict{"value-changed", fmt.Sprintf("mode=%s table=%s column %s (type changed, NOT NULL DEFAULT): %d NULLs before, only %d rows hold the default %s", in.mode, tb.Name, cb.Name, nb, na, d)})
					}
				}
			}
			continue
		}
		// a column that is regular afterwards is judged whatever it was before: a generated column
		// that becomes a regular one must hold the values it showed
		if ca.Hidden == 0 {
			if cb.Hidden != 0 {
				st.materialised++
			}
			p := pair{bi: bi, ai: ai, name: cb.Name}
			// Engine rule, not the planner's: a column that becomes the rowid alias (single INTEGER
			// PRIMARY KEY of a rowid table) cannot hold NULL; SQLite assigns a fresh rowid instead.
			// Such a column is compared only when it held no NULL.
			if isRowidAlias(ta, ai) && !isRowidAlias(tb, bi) && hasNull(tb, bi) {
				p.skip = true
				plain[cb.Name] = p
				st.aliasNull++
				continue
			}
			if !cb.NotNull && ca.NotNull && ca.Dflt != "" {
				p.coalesce = true
				d, err := evalDefault(in.ctx, ca.Type, ca.Dflt, strictSQL(ta.SQL[0]))
				if err != nil || strings.Contains(strings.ToUpper(ca.Dflt), "CURRENT_") {
					// not evaluable outside the table / not deterministic: the column is left out
					p.skip = true
					plain[cb.Name] = p
					continue
				}
				p.dflt = d
			}
			plain[cb.Name] = p
			ps = append(ps, p)
		}
	}
	// a new column that is the rowid alias gets the rowid of each row (engine rule)
	for ai := range ta.Cols {
		if tb.colIdx(ta.Cols[ai].Name) < 0 && isRowidAlias(ta, ai) && len(tb.Rows) > 0 {
			st.aliasNull++
		}
	}
	if useGen {
		for bi, cb := range tb.Cols {
			ai := ta.colIdx(cb.Name)
			if ai < 0 || cb.Hidden == 0 || ta.Cols[ai].Hidden == 0 || normType(ta.Cols[ai].Type) != normType(cb.Type) {
				continue
			}
			if same, dep := genSame(in.cur, in.des, specName, cb.Name); same {
				if p, ok := plain[dep]; ok && !p.coalesce && !p.skip {
					ps = append(ps, pair{bi: bi, ai: ai, name: cb.Name})
				}
			}
		}
	}
	st.surviving = len(ps)
	where := fmt.Sprintf("mode=%s table=%s", in.mode, tb.Name)
	if len(tb.Rows) != len(ta.Rows) {
		cls := "rows-lost"
		if len(ta.Rows) > len(tb.Rows) {
			cls = "rows-added"
		}
		if len(plain) == 0 && len(ta.Rows) == 0 {
			cls = "rows-lost-no-common-column"
		}
		vs = append(vs, Verdict{cls, fmt.Sprintf("%s rows %d -> %d surviving-columns=%d", where, len(tb.Rows), len(ta.Rows), len(plain))})
		return
	}
	proj := func(rows, types [][]string, before bool) []string {
		out := make([]string, len(rows))
		for i, r := range rows {
			var sb strings.Builder
			for _, p := range ps {
				var v string
				if !before {
					v = r[p.ai]
				} else {
					v = r[p.bi]
					if p.coalesce && v == "NULL" {
						v = p.dflt
						st.coalesced++
					}
					if !p.coalesce && i < len(types) {
						v += ":" + types[i][p.bi] // typeof(), next to quote()
					}
				}
				if !before && !p.coalesce && i < len(types) {
					v += ":" + types[i][p.ai]
				}
				sb.WriteString(v)
				sb.WriteByte(0)
			}
			out[i] = sb.String()
		}
		sort.Strings(out)
		return out
	}
	b, a := proj(tb.Rows, tb.Types, true), proj(ta.Rows, ta.Types, false)
	for i := range b {
		if b[i] != a[i] {
			var names []string
			for _, p := range ps {
				n := p.name
				if p.coalesce {
					n += "(ifnull)"
				}
				names = append(names, n)
			}
			vs = append(vs, Verdict{"value-changed", fmt.Sprintf("%s cols=%v before=%q after=%q", where, names, strings.Split(b[i], "\x00"), strings.Split(a[i], "\x00"))})
			return
		}
	}
	return
}

func (in *oracleIn) check() (vs []Verdict, stats map[string]int) {
	stats = map[string]int{}
	refused := in.applyErr != nil
	if refused {
		// NOT NULL over existing NULLs: a column that is nullable now and NOT NULL with a DEFAULT in the
		// desired state must be migrated (the NULLs take the default); a plan that trips over its own
		// NOT NULL constraint can never succeed
		if m := reNotNullFailed.FindStringSubmatch(in.applyErr.Error()); m != nil {
			tn := strings.TrimPrefix(m[1], "new_")
			ct, dt := in.cur.table(tn), in.des.table(tn)
			if ct != nil && dt != nil {
				cc, dc := ct.col(m[2]), dt.col(m[2])
				if cc != nil && dc != nil && !cc.NotNull && dc.NotNull && dc.Default != "" && dc.Gen == "" {
					vs = append(vs, Verdict{"notnull-default-refused", fmt.Sprintf("mode=%s table=%s column %s is nullable with NULLs and NOT NULL DEFAULT %s in the desired state, the plan fails on its own NOT NULL constraint", in.mode, tn, m[2], dc.Default)})
				}
			}
		}
	}
	if refused && in.mode.Tx != "none" && in.mode.Tx != "prefix" {
		if d := equalDump(in.before, in.after); d != "" {
			vs = append(vs, Verdict{"refused-not-unchanged", fmt.Sprintf("mode=%s %s", in.mode, d)})
		}
		return
	}
	for _, n := range in.before.Names {
		tb := in.before.Tables[n]
		ta := in.after.Tables[n]
		kind, inSet := in.changed[n]
		// a table the desired schema does not have is dropped by the change set -- unless its changes were excluded
		// from the set (Case.Exclude, round 5): then it is an untouched table like any other
		if !refused && in.des.table(n) == nil && inSet {
			stats["dropped-table"]++
			continue
		}
		if refused && kind == "drop" && ta == nil {
			continue
		}
		if ta == nil && refused {
			// the plan may have stopped between DROP TABLE t and RENAME new_t TO t
			// (whatever the temporary table is called: a table that did not exist before, is not
			// wanted by the desired schema, and has the row count of the missing one)
			for _, cand := range in.after.Names {
				if in.before.Tables[cand] == nil && in.des.table(cand) == nil &&
					(ta == nil || len(in.after.Tables[cand].Rows) == len(tb.Rows)) {
					ta = in.after.Tables[cand]
				}
			}
			if ta != nil {
				stats["partial-state-rows-under-temp-name"]++
			}
		}
		if ta == nil {
			vs = append(vs, Verdict{"kept-table-missing", fmt.Sprintf("mode=%s table=%s rows=%d", in.mode, n, len(tb.Rows))})
			continue
		}
		if !inSet {
			if !equalTable(tb, ta) {
				vs = append(vs, Verdict{"untouched-table-changed", fmt.Sprintf("mode=%s table=%s rows %d -> %d", in.mode, n, len(tb.Rows), len(ta.Rows))})
			}
			stats["untouched-table"]++
			if len(tb.Rows) > 0 {
				stats["untouched-table-populated"]++
			}
			continue
		}
		v, st := preserved(in, tb, ta, n, !refused)
		vs = append(vs, v...)
		stats["changed-table"]++
		if st.rows > 0 {
			stats["changed-table-populated"]++
		}
		stats["coalesced-nulls"] += st.coalesced
		stats["rowid-alias-null-assigned"] += st.aliasNull
		stats["generated-to-regular-judged"] += st.materialised
	}
	return
}
