// Schema specification used by the C05 generator: a small abstract syntax of
// SQLite tables that is rendered to DDL (the way a user would write it), so that
// both the populated database and the desired state go through the real
// engine and the real inspector.
package main

import (
	"fmt"
	"strings"
)

type Col struct {
	Name    string
	Type    string // declared type, lower case
	NotNull bool
	Default string // SQL text of the default ("" = none); expressions are parenthesised
	Gen     string // generation expression ("" = plain column)
	Stored  bool   // STORED (else VIRTUAL)
	GenDep  string // the (plain) column the generation expression ultimately reads
	GenVia  string // a generated column the expression reads directly, if any
}

type Idx struct {
	Name   string
	Unique bool
	Cols   []string
	Desc   bool
	Where  string
}

type FK struct {
	Name     string
	Cols     []string
	RefTable string
	RefCols  []string
	OnDelete string
	OnUpdate string
}

type Check struct{ Name, Expr string }

type Table struct {
	Name         string
	Cols         []Col
	PK           []string
	AutoInc      bool
	WithoutRowid bool
	Strict       bool
	Uniques      [][]string // inline UNIQUE constraints (sqlite_autoindex_*)
	Idx          []Idx
	FKs          []FK
	Checks       []Check
}

// Extra: views and triggers of the current database that Atlas (community SQLite driver) does not manage.
type Schema struct {
	Tables []Table
	Extra  []string
}

func (t Table) clone() Table {
	n := t
	n.Cols = append([]Col(nil), t.Cols...)
	n.PK = append([]string(nil), t.PK...)
	n.Uniques = nil
	for _, u := range t.Uniques {
		n.Uniques = append(n.Uniques, append([]string(nil), u...))
	}
	n.Idx = nil
	for _, i := range t.Idx {
		i.Cols = append([]string(nil), i.Cols...)
		n.Idx = append(n.Idx, i)
	}
	n.FKs = nil
	for _, f := range t.FKs {
		f.Cols = append([]string(nil), f.Cols...)
		f.RefCols = append([]string(nil), f.RefCols...)
		n.FKs = append(n.FKs, f)
	}
	n.Checks = append([]Check(nil), t.Checks...)
	return n
}

func (s Schema) clone() Schema {
	var n Schema
	n.Extra = append([]string(nil), s.Extra...)
	for _, t := range s.Tables {
		n.Tables = append(n.Tables, t.clone())
	}
	return n
}

func (s *Schema) table(n string) *Table {
	for i := range s.Tables {
		if s.Tables[i].Name == n {
			return &s.Tables[i]
		}
	}
	return nil
}

func (t *Table) col(n string) *Col {
	for i := range t.Cols {
		if t.Cols[i].Name == n {
			return &t.Cols[i]
		}
	}
	return nil
}

func has(l []string, s string) bool {
	for _, x := range l {
		if x == s {
			return true
		}
	}
	return false
}

func qi(s string) string { return "`" + strings.ReplaceAll(s, "`", "``") + "`" }

func qis(l []string) string {
	o := make([]string, len(l))
	for i, s := range l {
		o[i] = qi(s)
	}
	return strings.Join(o, ", ")
}

// affinity of a declared type by SQLite's rules (https://www.sqlite.org/datatype3.html 3.1).
func affinity(t string) string {
	t = strings.ToUpper(t)
	switch {
	case strings.Contains(t, "INT"):
		return "integer"
	case strings.Contains(t, "CHAR"), strings.Contains(t, "CLOB"), strings.Contains(t, "TEXT"):
		return "text"
	case strings.Contains(t, "BLOB"), t == "":
		return "blob"
	case strings.Contains(t, "REAL"), strings.Contains(t, "FLOA"), strings.Contains(t, "DOUB"):
		return "real"
	}
	return "numeric"
}

func colDDL(t *Table, c Col) string {
	var b strings.Builder
	fmt.Fprintf(&b, "%s %s", qi(c.Name), c.Type)
	if t.AutoInc && len(t.PK) == 1 && t.PK[0] == c.Name {
		b.WriteString(" NOT NULL PRIMARY KEY AUTOINCREMENT")
		return b.String()
	}
	if c.NotNull {
		b.WriteString(" NOT NULL")
	} else {
		b.WriteString(" NULL")
	}
	if c.Default != "" {
		b.WriteString(" DEFAULT " + c.Default)
	}
	if c.Gen != "" {
		b.WriteString(" AS (" + c.Gen + ")")
		if c.Stored {
			b.WriteString(" STORED")
		} else {
			b.WriteString(" VIRTUAL")
		}
	}
	return b.String()
}

// ddl renders the CREATE TABLE and CREATE INDEX statements of a table.
func (t *Table) ddl() []string {
	var parts []string
	for _, c := range t.Cols {
		parts = append(parts, colDDL(t, c))
	}
	if len(t.PK) > 0 && !t.AutoInc {
		parts = append(parts, "PRIMARY KEY ("+qis(t.PK)+")")
	}
	for _, u := range t.Uniques {
		parts = append(parts, "UNIQUE ("+qis(u)+")")
	}
	for _, f := range t.FKs {
		s := ""
		if f.Name != "" {
			s = "CONSTRAINT " + qi(f.Name) + " "
		}
		s += "FOREIGN KEY (" + qis(f.Cols) + ") REFERENCES " + qi(f.RefTable) + " (" + qis(f.RefCols) + ")"
		if f.OnUpdate != "" {
			s += " ON UPDATE " + f.OnUpdate
		}
		if f.OnDelete != "" {
			s += " ON DELETE " + f.OnDelete
		}
		parts = append(parts, s)
	}
	for _, k := range t.Checks {
		s := ""
		if k.Name != "" {
			s = "CONSTRAINT " + qi(k.Name) + " "
		}
		parts = append(parts, s+"CHECK ("+k.Expr+")")
	}
	var opts []string
	if t.WithoutRowid {
		opts = append(opts, "WITHOUT ROWID")
	}
	if t.Strict {
		opts = append(opts, "STRICT")
	}
	stmt := "CREATE TABLE " + qi(t.Name) + " (\n  " + strings.Join(parts, ",\n  ") + "\n)"
	if len(opts) > 0 {
		stmt += " " + strings.Join(opts, ", ")
	}
	out := []string{stmt}
	for _, i := range t.Idx {
		s := "CREATE "
		if i.Unique {
			s += "UNIQUE "
		}
		cols := make([]string, len(i.Cols))
		for k, c := range i.Cols {
			cols[k] = qi(c)
			if i.Desc && k == len(i.Cols)-1 {
				cols[k] += " DESC"
			}
		}
		s += "INDEX " + qi(i.Name) + " ON " + qi(t.Name) + " (" + strings.Join(cols, ", ") + ")"
		if i.Where != "" {
			s += " WHERE " + i.Where
		}
		out = append(out, s)
	}
	return out
}

// ddl of the whole schema; parents first is not required by SQLite (a foreign key
// may name a table that does not exist yet).
func (s *Schema) ddl() []string {
	var out []string
	for i := range s.Tables {
		out = append(out, s.Tables[i].ddl()...)
	}
	return out
}
