// Correspondence (tie) with the extracted Gallina model Sqlite/RowsModel.v: the case line
// carries the engine state before (tables, columns, rows), the connection state, and the
// *real* change list the differ produced (the planner's input); the observation is the
// outcome and the rows of every table afterwards.
package main

import (
	"context"
	"encoding/hex"
	"fmt"
	"sort"
	"strings"

	"ariga.io/atlas/sql/schema"
	"ariga.io/atlas/sql/sqlite"
	"ariga.io/atlas/sql/verifx"
)

func hx(s string) string {
	if s == "" {
		return "-"
	}
	return hex.EncodeToString([]byte(s))
}

func b01(b bool) string {
	if b {
		return "1"
	}
	return "0"
}

func valTok(q string) string {
	if q == "NULL" {
		return "N"
	}
	return "V" + hx(q)
}

type tieEnc struct {
	ctx         context.Context
	w           []string
	skip        string
	strictTable bool // the table whose columns are being encoded is STRICT
}

// typeTok: the declared type as the model sees it.  ANY means two different things: values are kept
// verbatim in a STRICT table and get NUMERIC affinity in an ordinary one.
func typeTok(typ string, strict bool) string {
	n := normType(typ)
	if n == "any" {
		if strict {
			return "any/strict"
		}
		return "any/plain"
	}
	return n
}

// strictSQL: the CREATE TABLE text ends with the STRICT option.
func strictSQL(sql string) bool {
	i := strings.LastIndexByte(sql, ')')
	return i >= 0 && strings.Contains(strings.ToUpper(sql[i:]), "STRICT")
}

func (e *tieEnc) add(t ...string) { e.w = append(e.w, t...) }

func (e *tieEnc) defval(typ, expr string) string {
	if expr == "" {
		return "N"
	}
	if strings.Contains(strings.ToUpper(expr), "CURRENT_") {
		// not a constant: a non-NULL placeholder; the column is masked on both sides
		return valTok("'?'")
	}
	q, err := evalDefault(e.ctx, typ, expr, e.strictTable)
	if err != nil {
		e.skip = "default-not-evaluable"
		return "N"
	}
	return valTok(q)
}

// column of the engine state, from PRAGMA table_xinfo
func (e *tieEnc) stateCol(c ColInfo) {
	dk := "0"
	if c.Dflt != "" {
		dk = "1"
	}
	if strings.Contains(strings.ToUpper(c.Dflt), "CURRENT_") {
		dk = "2"
	}
	e.add(hx(c.Name), hx(typeTok(c.Type, e.strictTable)), b01(c.NotNull), dk, e.defval(c.Type, c.Dflt), b01(c.Hidden >= 2), b01(c.Hidden == 3), "0", "0")
}

func defaultText(c *schema.Column) (kind string, text string) {
	switch x := c.Default.(type) {
	case *schema.Literal:
		k := "1"
		if x.V == "CURRENT_TIME" || x.V == "CURRENT_DATE" || x.V == "CURRENT_TIMESTAMP" {
			k = "2"
		}
		return k, x.V
	case *schema.RawExpr:
		return "3", x.X
	}
	return "0", ""
}

// plannerDefaultSQL is the SQL text sql/sqlite/migrate.go: defaultValue renders for the column's
// DEFAULT (in CREATE TABLE, ADD COLUMN and inside IFNULL): literals of non-numeric types are
// single-quoted unless they already are.  (Rendering of SQL text is outside the model; only the
// value this text evaluates to enters it, as rc_defval.)
func plannerDefaultSQL(c *schema.Column) string {
	switch x := c.Default.(type) {
	case *schema.Literal:
		switch c.Type.Type.(type) {
		case *schema.BoolType, *schema.DecimalType, *schema.IntegerType, *schema.FloatType:
			return x.V
		}
		s, err := verifx.SingleQuote(x.V)
		if err != nil {
			return x.V
		}
		return s
	case *schema.RawExpr:
		return verifx.MayWrap(x.X)
	}
	return ""
}

// column of a schema.Table handed to the planner
func (e *tieEnc) planCol(c *schema.Column) {
	// the declared type the planner writes (state.column: FormatType(c.Type.Type))
	typ := strings.ToLower(c.Type.Raw)
	if f, err := sqlite.FormatType(c.Type.Type); err == nil {
		typ = strings.ToLower(f)
	}
	dk, txt := defaultText(c)
	var gx schema.GeneratedExpr
	gen, stored := false, false
	for _, a := range c.Attrs {
		if g, ok := a.(*schema.GeneratedExpr); ok {
			gen, gx = true, *g
			stored = strings.EqualFold(gx.Type, "STORED")
		}
	}
	_ = txt
	e.add(hx(c.Name), hx(typeTok(typ, e.strictTable)), b01(!c.Type.Null), dk, e.defval(typ, plannerDefaultSQL(c)), b01(gen), b01(stored), b01(len(c.Indexes) > 0), b01(len(c.ForeignKeys) > 0))
}

func actionTok(a schema.ReferenceOption) string {
	switch strings.ToUpper(string(a)) {
	case "RESTRICT":
		return "1"
	case "CASCADE":
		return "2"
	case "SET NULL":
		return "3"
	case "SET DEFAULT":
		return "4"
	}
	return "0"
}

func (e *tieEnc) fk(f *schema.ForeignKey) {
	e.add(fmt.Sprint(len(f.Columns)))
	for _, c := range f.Columns {
		e.add(hx(c.Name))
	}
	e.add(hx(f.RefTable.Name), fmt.Sprint(len(f.RefColumns)))
	for _, c := range f.RefColumns {
		e.add(hx(c.Name))
	}
	e.add(actionTok(f.OnDelete))
}

func hasTableAttr(t *schema.Table, strict bool) bool {
	for _, a := range t.Attrs {
		switch a.(type) {
		case *sqlite.Strict:
			if strict {
				return true
			}
		case *sqlite.WithoutRowID:
			if !strict {
				return true
			}
		}
	}
	return false
}

func (e *tieEnc) tdef(t *schema.Table) {
	e.strictTable = hasTableAttr(t, true)
	e.add(hx(t.Name), b01(e.strictTable), b01(hasTableAttr(t, false)), fmt.Sprint(len(t.Columns)))
	for _, c := range t.Columns {
		e.planCol(c)
	}
	e.add(fmt.Sprint(len(t.ForeignKeys)))
	for _, f := range t.ForeignKeys {
		e.fk(f)
	}
	e.add(fmt.Sprint(len(t.Indexes)))
	for _, i := range t.Indexes {
		e.add(hx(i.Name))
	}
}

func (e *tieEnc) tchange(c schema.Change) {
	switch c := c.(type) {
	case *schema.AddColumn:
		e.add("AC")
		e.planCol(c.C)
	case *schema.DropColumn:
		e.add("DC", hx(c.C.Name))
	case *schema.ModifyColumn:
		e.add("MC", hx(c.To.Name), fmt.Sprint(uint64(c.Change)))
	case *schema.RenameColumn:
		e.add("RC", hx(c.From.Name), hx(c.To.Name))
	case *schema.AddIndex:
		e.add("AI", hx(c.I.Name))
	case *schema.DropIndex:
		e.add("DI", hx(c.I.Name))
	case *schema.RenameIndex:
		e.add("RI", hx(c.From.Name), hx(c.To.Name))
	default:
		e.add("OC", "0")
	}
}

func (e *tieEnc) schange(c schema.Change) {
	switch c := c.(type) {
	case *schema.AddTable:
		e.add("AT")
		e.tdef(c.T)
	case *schema.DropTable:
		e.add("DT")
		e.tdef(c.T)
	case *schema.ModifyTable:
		e.add("MT")
		e.tdef(c.T)
		e.add(fmt.Sprint(len(c.Changes)))
		for _, x := range c.Changes {
			e.tchange(x)
		}
	case *schema.RenameTable:
		e.add("RT", hx(c.From.Name), hx(c.To.Name))
	default:
		e.add("UN")
	}
}

// tieCase encodes the run for the model; cur is the inspected current schema (foreign keys of the state).
// txTok: how the plan is run -- 0: on the connection (--tx-mode none), 1: through client.Tx = sqlite.OpenTx
// (--tx-mode file), 2: inside a plain sql.Tx.  fk is the connection's own setting (_fk); what OpenTx does
// with it is the model's business (RowsModel.schema_apply).
// wantFKLine: the api/exhaust stages also compare the connection's foreign_keys setting after a
// successful run (the cli stage reads the database through another connection).
var wantFKLine = true

func txTok(tx string) int {
	switch tx {
	case "file":
		return 1
	case "rawtx":
		return 2
	}
	return 0
}

func tieCase(ctx context.Context, before *Dump, cur *schema.Schema, changes []schema.Change, fk bool, tx string, k int) (string, string) {
	return tieCaseF(ctx, before, cur, changes, fk, tx, k, 0, 0)
}

// tieCaseFault: --tx-mode file with one failing statement.  fcode: 1 OpenTx's pragma query, 2 its
// PRAGMA foreign_keys = off, 3 BEGIN, 4 the first foreign_key_check, 5 statement fidx of the plan,
// 6 the second foreign_key_check, 7 COMMIT, 8 the restoring pragma (RowsModel.fault).
func tieCaseFault(ctx context.Context, before *Dump, cur *schema.Schema, changes []schema.Change, fk bool, fcode, fidx int) (string, string) {
	return tieCaseF(ctx, before, cur, changes, fk, "file", -1, fcode, fidx)
}

func tieCaseF(ctx context.Context, before *Dump, cur *schema.Schema, changes []schema.Change, fk bool, tx string, k int, fcode, fidx int) (string, string) {
	e := &tieEnc{ctx: ctx}
	// k >= 0: only the first k statements of the plan are executed
	showFK := "0"
	if (tx == "none" || tx == "file") && wantFKLine {
		showFK = "1"
	}
	e.add(b01(fk), fmt.Sprint(txTok(tx)), fmt.Sprint(k), showFK, fmt.Sprint(fcode), fmt.Sprint(fidx), fmt.Sprint(len(before.Names)))
	// tables in creation order would need sqlite_master.rowid; the model does not depend on the order
	for _, n := range before.Names {
		t := before.Tables[n]
		e.strictTable = strictSQL(t.SQL[0])
		e.add(hx(n), fmt.Sprint(len(t.Cols)))
		for _, c := range t.Cols {
			e.stateCol(c)
		}
		var fks []*schema.ForeignKey
		if st, ok := cur.Table(n); ok {
			fks = st.ForeignKeys
		}
		e.add(fmt.Sprint(len(fks)))
		for _, f := range fks {
			e.fk(f)
		}
		e.add(fmt.Sprint(len(t.Rows)))
		for _, r := range t.Rows {
			for _, v := range r {
				e.add(valTok(v))
			}
		}
	}
	e.add(fmt.Sprint(len(changes)))
	for _, c := range changes {
		e.schange(c)
	}
	return strings.Join(e.w, " "), e.skip
}

// tieObs prints the observation lines of the real run.
func tieObs(before, after *Dump, errClass string) []string {
	head := "res ok"
	switch errClass {
	case "":
	case "prefix":
		head = "res prefix"
	case "refused-notnull":
		return []string{"res ENotNull"}
	case "refused-add-notnull":
		return []string{"res EAddNotNull"}
	case "refused-exists":
		return []string{"res EExists"}
	case "refused-no-such-table":
		return []string{"res ENoSuchTable"}
	case "refused-no-such-column":
		return []string{"res ENoSuchColumn"}
	case "refused-generated":
		return []string{"res EGenerated"}
	case "refused-arity":
		return []string{"res EArity"}
	case "refused-unique", "refused-check", "refused-fk", "refused-fk-mismatch", "refused-strict-type",
		"refused-no-such-index", "refused-default-type", "refused-fkcheck-scan", "refused-datatype", "refused-view", "refused-trigger":
		// constraints the abstract engine does not model: the run is left to the oracle
		return nil
	default:
		// a refusal the planner is not expected to provoke (syntax error, non-constant default in
		// ADD COLUMN, ...): the model never prints this, so the run shows up as a disagreement
		return []string{"res unexpected-refusal:" + errClass}
	}
	out := []string{head}
	names := append([]string(nil), after.Names...)
	sort.Strings(names)
	for _, n := range names {
		t := after.Tables[n]
		tb := before.Tables[n]
		if tb == nil && strings.HasPrefix(n, "new_") {
			tb = before.Tables[n[4:]] // the temporary twin of a table that is being rebuilt
		}
		var cols []string
		mask := make([]int, len(t.Cols)) // 0 none, 1 declared type changed, 2 generated, 3 non-constant default
		for i, c := range t.Cols {
			cols = append(cols, hx(c.Name))
			if c.Hidden >= 2 {
				mask[i] = 2
			} else if strings.Contains(strings.ToUpper(c.Dflt), "CURRENT_") {
				mask[i] = 3
			} else if tb != nil {
				if bi := tb.colIdx(c.Name); bi >= 0 && typeTok(tb.Cols[bi].Type, strictSQL(tb.SQL[0])) != typeTok(c.Type, strictSQL(t.SQL[0])) {
					mask[i] = 1
				}
			}
		}
		rows := make([]string, len(t.Rows))
		for k, r := range t.Rows {
			vs := make([]string, len(r))
			for i, v := range r {
				switch {
				case mask[i] >= 1:
					vs[i] = "*"
				default:
					vs[i] = valTok(v)
				}
			}
			rows[k] = strings.Join(vs, ",")
		}
		sort.Strings(rows)
		out = append(out, fmt.Sprintf("tbl %s cols=%s n=%d rows=%s", hx(n), strings.Join(cols, ","), len(rows), strings.Join(rows, ";")))
	}
	return out
}

// typeChanged: some column has another declared type afterwards.
func typeChanged(before, after *Dump) bool {
	for n, t := range after.Tables {
		tb := before.Tables[n]
		if tb == nil {
			continue
		}
		for _, c := range t.Cols {
			if bi := tb.colIdx(c.Name); bi >= 0 && normType(tb.Cols[bi].Type) != normType(c.Type) {
				return true
			}
		}
	}
	return false
}
