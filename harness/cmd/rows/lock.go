// Stage lock: Driver.ApplyChanges in process, with a *real* lock: a second connection holds
// BEGIN IMMEDIATE on the database file (busy_timeout 0) during exactly one statement of the plan --
// for the first k executions of that statement, so a layer that retries meets the lock again.
// SQLite answers "database is locked"; statements that need no lock (the pragmas) go through.
//
// Oracle: a refused statement is never "executed".  ApplyChanges returns nil => the database equals
// the fault-free result; it returns an error => without a transaction the database is in a prefix
// state in which every row of every modified table is in t or new_t (the partial-state oracle),
// inside sqlite.OpenTx's transaction (rolled back) it is byte-identical to the one before.
package main

import (
	"context"
	"database/sql"
	"fmt"
	"os"
	"path/filepath"
	"strings"

	"ariga.io/atlas/sql/schema"
	"ariga.io/atlas/sql/sqlclient"
	"ariga.io/atlas/sql/sqlite"

	"verifharness/internal/out"
	"verifharness/internal/rng"
)

type lockExec struct {
	inner    schema.ExecQuerier
	path     string
	target   string // whitespace-normalised statement text
	k        int
	seen     int
	acquired int
	failed   int // the lock could not be taken (the main connection already holds the write lock)
	stmts    []string
}

func normSQL(q string) string { return strings.Join(strings.Fields(q), " ") }

func (l *lockExec) QueryContext(ctx context.Context, q string, args ...any) (*sql.Rows, error) {
	return l.inner.QueryContext(ctx, q, args...)
}

func (l *lockExec) ExecContext(ctx context.Context, q string, args ...any) (sql.Result, error) {
	n := normSQL(q)
	l.stmts = append(l.stmts, n)
	if l.target == "" || n != l.target || l.seen >= l.k {
		return l.inner.ExecContext(ctx, q, args...)
	}
	l.seen++
	other, err := sql.Open("sqlite3", "file:"+l.path+"?_busy_timeout=0")
	if err != nil {
		return l.inner.ExecContext(ctx, q, args...)
	}
	defer other.Close()
	other.SetMaxOpenConns(1)
	if _, err := other.ExecContext(ctx, "BEGIN IMMEDIATE"); err != nil {
		l.failed++
		return l.inner.ExecContext(ctx, q, args...)
	}
	l.acquired++
	r, err := l.inner.ExecContext(ctx, q, args...)
	other.ExecContext(ctx, "ROLLBACK")
	return r, err
}

func runLock(ctx context.Context, w *out.W, tier, tmp, outDir, only string) {
	w.Rule = "in process: a second connection holds BEGIN IMMEDIATE during one statement of Driver.ApplyChanges (first k executions of it, k = 1 and 3), for every statement of rebuild / alter plans on the populated parent-child bases, with and without sqlite.OpenTx; non-trivial = the lock was actually held"
	w.Exhaust = true
	type E = struct {
		k  string
		ti int
	}
	cases := []faultCase{
		{"l-parent-rebuild", 0, []E{{"set-notnull-default", 0}}},
		{"l-middle-rebuild", 0, []E{{"add-check", 1}}},
		{"l-rebuild-then-alter", 0, []E{{"drop-notnull", 0}, {"add-check", 1}, {"add-index", 2}, {"add-col-null", 3}}},
		{"l-composite-parent", 2, []E{{"toggle-without-rowid", 0}}},
		{"l-generated-to-regular", 1, []E{{"gen-virtual-to-regular", 0}}},
	}
	bs := fixedBases()
	viol, _ := os.Create(filepath.Join(outDir, "violations.sql"))
	defer viol.Close()
	for _, fc := range cases {
		c := &Case{ID: fc.id, Cur: bs[fc.base].S.clone(), Inserts: bs[fc.base].Rows, Des: bs[fc.base].S.clone()}
		r := rng.New(3)
		ok := true
		for _, e := range fc.edits {
			if !applyEdit(r, &c.Des, e.k, e.ti) {
				ok = false
			}
			c.Edits = append(c.Edits, e.k+"@"+bs[fc.base].S.Tables[e.ti].Name)
		}
		if !ok {
			w.Count("skip:edit-not-applicable")
			continue
		}
		for _, tx := range []string{"none", "file"} {
			if only != "" && only != c.ID {
				continue
			}
			lockCaseMode(ctx, w, c, tx, tmp, viol)
		}
	}
}

// lockRun applies the changes on a fresh copy of the database; target == "" is the fault-free run.
func lockRun(ctx context.Context, c *Case, dir, tx, target string, k int) (before, after *Dump, le *lockExec, applyErr error, changed map[string]string, err error) {
	f, _ := os.CreateTemp(dir, "lock-*.db")
	path := f.Name()
	f.Close()
	defer os.Remove(path)
	defer os.Remove(path + "-journal")
	db, err := sql.Open("sqlite3", "file:"+path+"?_fk=1&_busy_timeout=0")
	if err != nil {
		return
	}
	defer db.Close()
	db.SetMaxOpenConns(1)
	if _, err = populate(ctx, db, c.Cur.ddl(), c.Inserts, c.Cur.Extra); err != nil {
		return
	}
	if before, err = dumpDB(ctx, db); err != nil {
		return
	}
	des, err := desiredSchema(ctx, c.Des.ddl())
	if err != nil {
		return
	}
	idrv, err := sqlite.Open(db)
	if err != nil {
		return
	}
	cur, err := idrv.InspectSchema(ctx, "", nil)
	if err != nil {
		return
	}
	changes, err := idrv.SchemaDiff(cur, des, schema.DiffNormalized())
	if err != nil {
		return
	}
	changed = changedTables(changes)
	le = &lockExec{path: path, target: target, k: k}
	switch tx {
	case "none":
		le.inner = db
		drv, _ := sqlite.Open(le)
		applyErr = drv.ApplyChanges(ctx, changes)
	case "file":
		var t *sqlclient.Tx
		t, applyErr = sqlite.OpenTx(ctx, db, nil)
		if applyErr != nil {
			break
		}
		le.inner = t
		drv, _ := sqlite.Open(le)
		if applyErr = drv.ApplyChanges(ctx, changes); applyErr != nil {
			t.Rollback()
		} else {
			applyErr = t.Commit()
		}
	}
	after, err = dumpDB(ctx, db)
	return
}

func lockCaseMode(ctx context.Context, w *out.W, c *Case, tx, dir string, viol *os.File) {
	_, afterRef, ref, refErr, _, err := lockRun(ctx, c, dir, tx, "", 0)
	if err != nil || refErr != nil {
		w.Count("skip:reference-run-failed")
		return
	}
	reported := false
	for i, st := range ref.stmts {
		// a statement text may occur more than once in a plan: the first k executions of it are locked
		first := true
		for j := 0; j < i; j++ {
			if ref.stmts[j] == st {
				first = false
			}
		}
		if !first {
			continue
		}
		for _, k := range []int{1, 3} {
			id := fmt.Sprintf("%s/file/fk1/%s/lock%02d-x%d", c.ID, tx, i, k)
			before, after, le, applyErr, changed, err := lockRun(ctx, c, dir, tx, st, k)
			if err != nil {
				w.Count("skip:lock-run")
				continue
			}
			short := st
			if len(short) > 70 {
				short = short[:70] + "..."
			}
			w.ImplOnly(id, fmt.Sprintf("locked=%d err=%v stmt=%s", le.acquired, applyErr != nil, short))
			w.Count(fmt.Sprintf("lock:%s:acquired=%d", tx, le.acquired))
			if le.acquired > 0 {
				w.NonTrivial(id)
			}
			if applyErr != nil {
				w.Count("lock:" + tx + ":refused")
			} else {
				w.Count("lock:" + tx + ":applied")
			}
			var vs []Verdict
			m := Mode{Store: "file", FK: true, Tx: tx}
			where := fmt.Sprintf("mode=file/fk1/%s lock held during the first %d execution(s) of: %s", tx, k, short)
			switch {
			case applyErr == nil:
				if d := equalDump(afterRef, after); d != "" {
					cls := "lock-success-not-applied"
					for _, n := range before.Names {
						if t := after.Tables[n]; t != nil && afterRef.Tables[n] != nil && len(t.Rows) < len(afterRef.Tables[n].Rows) {
							cls = "lock-rows-lost"
						}
					}
					vs = append(vs, Verdict{cls, fmt.Sprintf("%s: ApplyChanges returned nil but the database is not the fault-free result (%s)", where, diffSummary(afterRef, after))})
				}
			case tx == "file":
				if d := equalDump(before, after); d != "" {
					vs = append(vs, Verdict{"refused-not-unchanged", fmt.Sprintf("%s: error returned, transaction rolled back, but %s", where, d)})
				}
			default:
				in := &oracleIn{ctx: ctx, cur: &c.Cur, des: &c.Des, before: before, after: after, changed: changed, applyErr: applyErr, mode: m}
				var st map[string]int
				vs, st = in.check()
				for k, v := range st {
					w.Dist[k] += v
				}
			}
			for _, v := range vs {
				w.Violation(id, v.Class, v.Msg+fmt.Sprintf(" edits=%v", c.Edits))
				if !reported {
					reported = true
					fmt.Fprintf(viol, "-- VIOLATION %s %s %s\n%s\n", id, v.Class, v.Msg, caseText(c))
				}
			}
		}
	}
}
