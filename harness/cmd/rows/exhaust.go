// Small-domain sweep: fixed bases x every edit kind (several targets each) and
// every ordered pair of edit kinds on the parent/child base.
package main

import (
	"context"
	"fmt"
	"strings"

	"verifharness/internal/out"
	"verifharness/internal/rng"
)

func fixedBases() []struct {
	S    Schema
	Rows []string
} {
	type B = struct {
		S    Schema
		Rows []string
	}
	var bs []B
	// 0: parent / child (cascade) / grandchild (set null) / bystander
	p := Table{Name: "p", Cols: []Col{{Name: "id", Type: "integer", NotNull: true}, {Name: "v", Type: "text"}, {Name: "n", Type: "integer", Default: "7"}}, PK: []string{"id"}}
	c := Table{Name: "c", Cols: []Col{{Name: "id", Type: "integer", NotNull: true}, {Name: "p_id", Type: "integer"}, {Name: "w", Type: "text", Default: "'d'"}}, PK: []string{"id"},
		FKs: []FK{{Cols: []string{"p_id"}, RefTable: "p", RefCols: []string{"id"}, OnDelete: "CASCADE"}}}
	g := Table{Name: "g", Cols: []Col{{Name: "id", Type: "integer", NotNull: true}, {Name: "c_id", Type: "integer"}, {Name: "x", Type: "real"}}, PK: []string{"id"},
		FKs: []FK{{Name: "g_c", Cols: []string{"c_id"}, RefTable: "c", RefCols: []string{"id"}, OnDelete: "SET NULL"}}}
	z := Table{Name: "z", Cols: []Col{{Name: "a", Type: "text"}, {Name: "b", Type: "blob"}}}
	bs = append(bs, B{Schema{Tables: []Table{p, c, g, z}}, []string{
		"INSERT INTO p VALUES (1, 'one', NULL)", "INSERT INTO p VALUES (2, NULL, 2)", "INSERT INTO p VALUES (5, 'it''s', 3)",
		"INSERT INTO c VALUES (10, 1, 'w1')", "INSERT INTO c VALUES (11, 1, NULL)", "INSERT INTO c VALUES (12, 5, 'w3')", "INSERT INTO c VALUES (13, NULL, 'orphan')",
		"INSERT INTO g VALUES (100, 10, 1.5)", "INSERT INTO g VALUES (101, 12, NULL)", "INSERT INTO g VALUES (102, NULL, 0.25)",
		"INSERT INTO z VALUES ('a', x'00ff')", "INSERT INTO z VALUES (NULL, NULL)", "INSERT INTO z VALUES ('a', x'00ff')",
	}})
	// 1: no primary key, generated columns, unique, check, index
	t := Table{Name: "t", Cols: []Col{{Name: "a", Type: "text"}, {Name: "b", Type: "integer", Default: "0"}, {Name: "c", Type: "real", NotNull: true, Default: "1.5"},
		{Name: "gv", Type: "text", Gen: "lower(`a`)", GenDep: "a"}, {Name: "gs", Type: "integer", Gen: "`b` + 1", Stored: true, GenDep: "b"}},
		Uniques: [][]string{{"b"}}, Checks: []Check{{Name: "ck", Expr: "`b` <> 13"}}, Idx: []Idx{{Name: "ix_t_a", Cols: []string{"a"}}}}
	bs = append(bs, B{Schema{Tables: []Table{t, z}}, []string{
		"INSERT INTO t (a, b, c) VALUES ('A', 1, 1.0)", "INSERT INTO t (a, b, c) VALUES (NULL, 2, 2.5)", "INSERT INTO t (a, b, c) VALUES ('B', NULL, 3.0)", "INSERT INTO t (a, b, c) VALUES ('B', NULL, 3.0)",
		"INSERT INTO z VALUES ('a', x'00ff')",
	}})
	// 2: composite key WITHOUT ROWID parent, child with composite fk (restrict), self reference
	wp := Table{Name: "wp", Cols: []Col{{Name: "k1", Type: "integer", NotNull: true}, {Name: "k2", Type: "text", NotNull: true}, {Name: "v", Type: "numeric"}}, PK: []string{"k1", "k2"}, WithoutRowid: true}
	wc := Table{Name: "wc", Cols: []Col{{Name: "id", Type: "integer", NotNull: true}, {Name: "r1", Type: "integer"}, {Name: "r2", Type: "text"}, {Name: "up", Type: "integer"}, {Name: "s", Type: "text", NotNull: true, Default: "'s'"}}, PK: []string{"id"}, AutoInc: true,
		FKs: []FK{{Cols: []string{"r1", "r2"}, RefTable: "wp", RefCols: []string{"k1", "k2"}, OnDelete: "RESTRICT"}, {Name: "self", Cols: []string{"up"}, RefTable: "wc", RefCols: []string{"id"}, OnDelete: "CASCADE"}}}
	bs = append(bs, B{Schema{Tables: []Table{wp, wc}}, []string{
		"INSERT INTO wp VALUES (1, 'a', 1)", "INSERT INTO wp VALUES (1, 'b', 'txt')", "INSERT INTO wp VALUES (2, 'a', NULL)",
		"INSERT INTO wc (id, r1, r2, up, s) VALUES (1, 1, 'a', NULL, 'x')", "INSERT INTO wc (id, r1, r2, up, s) VALUES (2, 1, 'b', 1, 'y')", "INSERT INTO wc (id, r1, r2, up, s) VALUES (7, NULL, NULL, 2, 'z')",
	}})
	// 3: the four option combinations over the same columns; the stored form of a value depends on the
	// typing rules of the table (ANY with number-looking text, TEXT holding integers, INTEGER holding
	// text, REAL holding integers, BLOB, NUMERIC)
	opt := func(name string, strict, worowid bool) (Table, []string) {
		t := Table{Name: name, Strict: strict, WithoutRowid: worowid, PK: []string{"id"},
			Cols: []Col{{Name: "id", Type: "integer", NotNull: true}, {Name: "t", Type: "text"}, {Name: "i", Type: "integer"},
				{Name: "r", Type: "real"}, {Name: "b", Type: "blob"}, {Name: "n", Type: "text", Default: "'d'"}}}
		var rows []string
		if strict {
			t.Cols = append(t.Cols, Col{Name: "a", Type: "any"})
			rows = []string{
				"INSERT INTO " + qi(name) + " VALUES (1, '123', 7, 5.0, x'00ff', NULL, '007')",
				"INSERT INTO " + qi(name) + " VALUES (2, '1e3', -1, 1.5, x'', 'x', '1e3')",
				"INSERT INTO " + qi(name) + " VALUES (3, ' 12', NULL, 2.0, NULL, NULL, ' 12')",
				"INSERT INTO " + qi(name) + " VALUES (4, '', 0, 0.0, x'31', 'y', 12)",
				"INSERT INTO " + qi(name) + " VALUES (5, NULL, 9, NULL, x'27', 'z', 1.5)",
				"INSERT INTO " + qi(name) + " VALUES (6, 'abc', 10, 3.0, x'00', NULL, x'3030')",
			}
		} else {
			t.Cols = append(t.Cols, Col{Name: "a", Type: "numeric"})
			rows = []string{
				"INSERT INTO " + qi(name) + " VALUES (1, 123, 'abc', 5, x'00ff', NULL, '007')",
				"INSERT INTO " + qi(name) + " VALUES (2, 1e3, '12', 1, 'txt', 'x', 'abc')",
				"INSERT INTO " + qi(name) + " VALUES (3, ' 12', NULL, '2.5', NULL, NULL, ' 12x')",
				"INSERT INTO " + qi(name) + " VALUES (4, x'3132', 1.5, 'r', 12, 'y', 12)",
				"INSERT INTO " + qi(name) + " VALUES (5, NULL, ' 7', NULL, 1.5, 'z', 1.5)",
				"INSERT INTO " + qi(name) + " VALUES (6, 1.0, 9007199254740993, 9007199254740993, '', NULL, x'3030')",
			}
		}
		return t, rows
	}
	var ots []Table
	var orows []string
	for _, o := range []struct {
		n    string
		s, w bool
	}{{"o_plain", false, false}, {"o_strict", true, false}, {"o_worowid", false, true}, {"o_both", true, true}} {
		t, rows := opt(o.n, o.s, o.w)
		ots = append(ots, t)
		orows = append(orows, rows...)
	}
	// three generated columns, the first one refers to the last one (a forward reference, which SQLite
	// allows) with another generated column in between: the inspector has to find each expression
	fw := Table{Name: "o_gen", PK: []string{"id"}, Cols: []Col{{Name: "id", Type: "integer", NotNull: true}, {Name: "a", Type: "integer"},
		{Name: "g1", Type: "integer", Gen: "`g3` + 1", GenDep: "a", GenVia: "g3"}, {Name: "g2", Type: "integer", Gen: "`a` * 2", Stored: true, GenDep: "a"},
		{Name: "g3", Type: "integer", Gen: "`a` + 10", GenDep: "a"}, {Name: "w", Type: "text", Default: "'d'"}}}
	ots = append(ots, fw)
	orows = append(orows, "INSERT INTO `o_gen` (id, a, w) VALUES (1, 1, 'x')", "INSERT INTO `o_gen` (id, a, w) VALUES (2, NULL, NULL)",
		"INSERT INTO `o_gen` (id, a, w) VALUES (3, -5, NULL)", "INSERT INTO `o_gen` (id, a, w) VALUES (4, 100, 'y')")
	bs = append(bs, B{Schema{Tables: ots}, orows})
	// 4: untouched columns with type names outside the catalogue (types5.go)
	os4, or4 := oddTypeBase()
	bs = append(bs, B{os4, or4})
	return bs
}

func runExhaust(ctx context.Context, w *out.W, tier, tmp, outDir, only string) {
	w.Rule = "fixed populated bases x every edit kind x table x 2 target choices (singles; 8 in thorough) and every ordered pair of edit kinds (pairs); non-trivial as in the api stage"
	w.Exhaust = true
	seeds := 2
	pairSeeds := 1
	if tier == "thorough" {
		seeds, pairSeeds = 8, 4
	}
	var cases []*Case
	add := func(id string, b Schema, rows []string, edits []struct {
		k  string
		ti int
	}, seed uint64) {
		if only != "" && only != id {
			return
		}
		c := &Case{ID: id, Cur: b.clone(), Inserts: rows, Des: b.clone()}
		r := rng.New(seed)
		for _, e := range edits {
			if e.ti >= len(c.Des.Tables) {
				return
			}
			tn := c.Des.Tables[e.ti].Name
			save := c.Des.clone()
			if !applyEdit(r, &c.Des, e.k, e.ti) {
				c.Des = save
				return
			}
			c.Edits = append(c.Edits, e.k+"@"+tn)
		}
		cases = append(cases, c)
	}
	type E = struct {
		k  string
		ti int
	}
	for bi, b := range fixedBases() {
		for ti := range b.S.Tables {
			for _, k := range editKinds {
				for s := 0; s < seeds; s++ {
					add(fmt.Sprintf("x%d-%s-%d-%d", bi, k, ti, s), b.S, b.Rows, []E{{k, ti}}, uint64(s*7919+ti*31+1))
				}
			}
		}
		if bi >= 3 {
			continue // the option base: every edit kind on each of its four tables, no pairs
		}
		// pairs: on the first two tables of each base (parent, child)
		for _, k1 := range editKinds {
			for _, k2 := range editKinds {
				for s := 0; s < pairSeeds; s++ {
					add(fmt.Sprintf("y%d-%s-%s-%d", bi, k1, k2, s), b.S, b.Rows, []E{{k1, 0}, {k2, 1}}, uint64(s*104729+5))
					if k1 <= k2 {
						add(fmt.Sprintf("z%d-%s-%s-%d", bi, k1, k2, s), b.S, b.Rows, []E{{k1, s % 2}, {k2, s % 2}}, uint64(s*1299709+9))
					}
				}
			}
		}
	}
	// the foreign-key family (fkfam5.go): every case on every connection / tx combination
	for _, c := range fkFamilyCases() {
		if only == "" || only == c.ID {
			cases = append(cases, c)
		}
	}
	ms := []Mode{{Store: "mem", FK: true, Tx: "none"}, {Store: "mem", FK: true, Tx: "file"}, {Store: "mem", FK: false, Tx: "file"}}
	runCases(ctx, w, cases, func(i int) []Mode {
		if strings.HasPrefix(cases[i].ID, "f-") {
			return []Mode{{Store: "mem", FK: true, Tx: "none"}, {Store: "mem", FK: true, Tx: "file"}, {Store: "mem", FK: false, Tx: "none"},
				{Store: "mem", FK: false, Tx: "file"}, {Store: "file", FK: true, Tx: "file"}, {Store: "file", FK: true, Tx: "none"}}
		}
		if strings.HasPrefix(cases[i].ID, "x4-") {
			return []Mode{{Store: "mem", FK: true, Tx: "none"}, {Store: "file", FK: false, Tx: "file"}}[i%2 : i%2+1]
		}
		if strings.HasPrefix(cases[i].ID, "x3-") {
			if tier != "thorough" {
				return []Mode{{Store: "mem", FK: true, Tx: "none"}, {Store: "file", FK: false, Tx: "file"}}
			}
			return []Mode{{Store: "mem", FK: true, Tx: "none"}, {Store: "mem", FK: true, Tx: "file"}, {Store: "file", FK: false, Tx: "file"}}
		}
		if cases[i].ID[0] == 'x' {
			return append(ms, Mode{Store: "mem", FK: false, Tx: "none"}, Mode{Store: "file", FK: true, Tx: "file"}, Mode{Store: "mem", FK: true, Tx: "rawtx"},
				Mode{Store: "mem", FK: true, Tx: "prefix", K: 1 + i%4}, Mode{Store: "mem", FK: i%2 == 0, Tx: "prefix", K: 3 + i%5})
		}
		return ms[i%3 : i%3+1]
	}, tmp, outDir)
}
