// Stage fault: `atlas schema apply` through the sqlitefault:// scheme (verif hook in cmd/atlas), with
// one statement failing with "database is locked" -- enumerated over *every* statement the run
// sends: the inspection queries, OpenTx's `PRAGMA foreign_keys`, `PRAGMA foreign_keys = off`,
// `PRAGMA foreign_key_check`, each statement of the plan, the second foreign_key_check and the
// restoring `PRAGMA foreign_keys = on` (BEGIN and COMMIT are issued inside go-sqlite3 and do not
// pass through the hook).  Rebuild plans on _fk=1 databases whose CASCADE / SET NULL children are not
// part of the change set.
//
// Oracle.  --tx-mode file: after a faulted run the database is byte-identical to the one before, or
// to the one a fault-free run leaves (only when the run got as far as COMMIT); a run that reports
// success has applied everything.  --tx-mode none: the partial-state oracle of the other stages
// (every row is in its table or in the temporary twin).
package main

import (
	"context"
	"database/sql"
	"errors"
	"fmt"
	"io"
	"os"
	"path/filepath"
	"regexp"
	"runtime"
	"sort"
	"strings"
	"sync"

	"ariga.io/atlas/sql/schema"
	"ariga.io/atlas/sql/sqlclient"

	"verifharness/internal/clirun"
	"verifharness/internal/out"
	"verifharness/internal/rng"
)

type faultCase struct {
	id    string
	base  int
	edits []struct {
		k  string
		ti int
	}
}

func copyFile(dst, src string) error {
	in, err := os.Open(src)
	if err != nil {
		return err
	}
	defer in.Close()
	o, err := os.Create(dst)
	if err != nil {
		return err
	}
	defer o.Close()
	_, err = io.Copy(o, in)
	return err
}

func dumpFile(ctx context.Context, path string) (*Dump, error) {
	db, err := sql.Open("sqlite3", "file:"+path+"?_fk=0")
	if err != nil {
		return nil, err
	}
	defer db.Close()
	db.SetMaxOpenConns(1)
	return dumpDB(ctx, db)
}

// faultRegex matches exactly the statement whose whitespace-normalised text is s.
func faultRegex(s string) string {
	ws := strings.Fields(s)
	for i := range ws {
		ws[i] = regexp.QuoteMeta(ws[i])
	}
	return `^\s*` + strings.Join(ws, `\s+`) + `\s*$`
}

type faultRun struct {
	idx      int
	stmt     string
	exit     int
	stderr   string
	got      *Dump
	state    string // before | after | other
	verdicts []Verdict
	stats    map[string]int
	tieCase  string
	tieObs   []string
	kind     string
}

// how many leading matches of a statement kind fail in the persistent runs
var persistentKs = []int{1, 3}

func runFault(ctx context.Context, w *out.W, tier, tmp, outDir, only string) {
	if tier == "thorough" {
		persistentKs = []int{1, 2, 3, 5}
	}
	w.Rule = "every statement `schema apply` sends through sqlitefault:// fails once (one run per statement), for rebuild / drop plans on populated parent-child databases, _fk=1 (and 0), --tx-mode file and none; non-trivial = a fault at a statement of the opener, the plan or the closer"
	w.Exhaust = true
	wantFKLine = false
	if _, err := os.Stat(clirun.Bin()); err != nil {
		fmt.Fprintln(os.Stderr, "atlas binary missing:", err)
		os.Exit(3)
	}
	type E = struct {
		k  string
		ti int
	}
	cases := []faultCase{
		{"f-parent-rebuild", 0, []E{{"set-notnull-default", 0}}},
		{"f-middle-rebuild", 0, []E{{"add-check", 1}}},
		{"f-rebuild-then-alter", 0, []E{{"drop-notnull", 0}, {"add-check", 1}, {"add-index", 2}, {"add-col-null", 3}}},
		{"f-composite-parent", 2, []E{{"toggle-without-rowid", 0}}},
		{"f-alter-only", 0, []E{{"add-col-null", 3}}},
		{"f-generated-to-regular", 1, []E{{"gen-virtual-to-regular", 0}}},
	}
	if tier == "thorough" {
		cases = append(cases,
			faultCase{"f-drop-parent-dangling", 0, []E{{"drop-fk", 2}, {"change-type-same-aff", 1}}},
			faultCase{"f-self-reference", 2, []E{{"add-check", 1}}},
			faultCase{"f-notnull-keep-default", 0, []E{{"notnull-keep-default", 0}, {"notnull-keep-default", 1}}},
		)
	}
	bs := fixedBases()
	dbg, _ := os.Create(filepath.Join(outDir, "refused.log"))
	defer dbg.Close()
	viol, _ := os.Create(filepath.Join(outDir, "violations.sql"))
	defer viol.Close()
	for _, fc := range cases {
		c := &Case{ID: fc.id, Cur: bs[fc.base].S.clone(), Inserts: bs[fc.base].Rows, Des: bs[fc.base].S.clone()}
		r := rng.New(3)
		ok := true
		for _, e := range fc.edits {
			if !applyEdit(r, &c.Des, e.k, e.ti) {
				ok = false
			}
			c.Edits = append(c.Edits, e.k+"@"+bs[fc.base].S.Tables[e.ti].Name)
		}
		if !ok {
			w.Count("skip:edit-not-applicable")
			continue
		}
		modes := []Mode{{Store: "file", FK: true, Tx: "file"}, {Store: "file", FK: true, Tx: "none"}}
		if fc.id == "f-parent-rebuild" {
			modes = append(modes, Mode{Store: "file", FK: false, Tx: "file"})
		}
		for _, m := range modes {
			if only != "" && !strings.HasPrefix(only, c.ID+"/"+m.String()) && only != c.ID {
				continue
			}
			faultCaseMode(ctx, w, c, m, tmp, dbg, viol)
		}
	}
}

func faultCaseMode(ctx context.Context, w *out.W, c *Case, m Mode, root string, dbg, viol *os.File) {
	dir, err := os.MkdirTemp(root, "fault-")
	if err != nil {
		panic(err)
	}
	defer os.RemoveAll(dir)
	fk := "0"
	if m.FK {
		fk = "1"
	}
	orig := filepath.Join(dir, "orig.db")
	db, err := sql.Open("sqlite3", "file:"+orig+"?_fk="+fk)
	if err != nil {
		panic(err)
	}
	db.SetMaxOpenConns(1)
	if _, err := populate(ctx, db, c.Cur.ddl(), c.Inserts, c.Cur.Extra); err != nil {
		db.Close()
		w.Count("skip:populate")
		return
	}
	db.Close()
	before, err := dumpFile(ctx, orig)
	if err != nil {
		w.Count("skip:dump")
		return
	}
	want := filepath.Join(dir, "schema.sql")
	os.WriteFile(want, []byte(strings.Join(c.Des.ddl(), ";\n")+";\n"), 0o644)
	// the change set and the plan (in process, read-only)
	des, err := desiredSchema(ctx, c.Des.ddl())
	if err != nil {
		w.Count("skip:desired-invalid")
		return
	}
	client, err := sqlclient.Open(ctx, "sqlite://"+orig+"?_fk="+fk)
	if err != nil {
		w.Count("skip:open")
		return
	}
	cur, err := client.InspectSchema(ctx, "", nil)
	var changes []schema.Change
	if err == nil {
		changes, err = client.SchemaDiff(cur, des, schema.DiffNormalized())
	}
	nPlan := -1
	var creates []string
	if err == nil {
		if p, perr := client.PlanChanges(ctx, "x", changes); perr == nil {
			nPlan = len(p.Changes)
			_, creates = planKinds(ctx, client, changes)
		}
	}
	client.Close()
	if err != nil || nPlan < 0 {
		w.Count("skip:diff")
		return
	}
	changed := changedTables(changes)
	run := func(name string, env []string) (clirun.Result, string) {
		path := filepath.Join(dir, name)
		copyFile(path, orig)
		args := []string{"schema", "apply", "--auto-approve", "--url", "sqlitefault://" + path + "?_fk=" + fk,
			"--to", "file://" + want, "--dev-url", "sqlite://dev?mode=memory", "--tx-mode", m.Tx}
		sub, _ := os.MkdirTemp(dir, "run-")
		return clirun.Run(sub, env, args...), path
	}
	// reference run: no fault, statements logged
	logp := filepath.Join(dir, "stmts.log")
	ref, refPath := run("ref.db", []string{"VERIF_SQL_LOG=" + logp})
	if ref.Exit != 0 {
		w.Count("skip:reference-run-failed")
		fmt.Fprintf(dbg, "%s/%s reference run failed: %s\n", c.ID, m, strings.TrimSpace(ref.Stderr))
		return
	}
	afterRef, err := dumpFile(ctx, refPath)
	if err != nil {
		w.Count("skip:dump")
		return
	}
	lb, _ := os.ReadFile(logp)
	var stmts []string
	for _, l := range strings.Split(strings.TrimSpace(string(lb)), "\n") {
		if len(l) > 5 {
			stmts = append(stmts, l[5:])
		}
	}
	// where the apply starts in the log
	tail := nPlan
	if m.Tx == "file" {
		tail = nPlan + 1
		if m.FK {
			tail = nPlan + 5
		}
	}
	start := len(stmts) - tail
	if start < 0 || (m.Tx == "file" && stmts[start] != "PRAGMA foreign_keys") {
		start = -1 // layout not recognised: oracle only
		w.Count("fault:layout-not-recognised")
	}
	runs := make([]faultRun, len(stmts))
	var wg sync.WaitGroup
	sem := make(chan struct{}, runtime.NumCPU())
	for i := range stmts {
		wg.Add(1)
		sem <- struct{}{}
		go func(i int) {
			defer wg.Done()
			defer func() { <-sem }()
			fr := faultRun{idx: i, stmt: stmts[i], stats: map[string]int{}}
			re := faultRegex(stmts[i])
			n := 0
			rx := regexp.MustCompile(re)
			for j := 0; j <= i; j++ {
				if rx.MatchString(stmts[j]) {
					n++
				}
			}
			res, path := run(fmt.Sprintf("f%03d.db", i), []string{fmt.Sprintf("VERIF_SQL_FAULT=%s@%d", re, n)})
			fr.exit, fr.stderr = res.Exit, strings.TrimSpace(res.Stderr)
			got, err := dumpFile(ctx, path)
			os.Remove(path)
			if err != nil {
				fr.kind = "dump-error"
				runs[i] = fr
				return
			}
			fr.got = got
			switch {
			case equalDump(before, got) == "":
				fr.state = "before"
			case equalDump(afterRef, got) == "":
				fr.state = "after"
			default:
				fr.state = "other"
			}
			// which step of the model the statement is
			fcode, fidx := 0, 0
			fr.kind = "inspect"
			if start >= 0 && i >= start {
				o := i - start
				switch {
				case m.Tx == "none":
					fcode, fidx, fr.kind = 5, o, "plan"
				case o == 0:
					fcode, fr.kind = 1, "open-query"
				case m.FK && o == 1:
					fcode, fr.kind = 2, "open-set-off"
				case m.FK && o == 2:
					fcode, fr.kind = 4, "open-check"
				case m.FK && o < 3+nPlan:
					fcode, fidx, fr.kind = 5, o-3, "plan"
				case m.FK && o == 3+nPlan:
					fcode, fr.kind = 6, "close-check"
				case m.FK:
					fcode, fr.kind = 8, "close-restore"
				default:
					fcode, fidx, fr.kind = 5, o-1, "plan"
				}
			}
			mode := fmt.Sprintf("%s/fault%d", m, i)
			short := fr.stmt
			if len(short) > 70 {
				short = short[:70] + "..."
			}
			if m.Tx == "file" {
				switch {
				case fr.state == "other":
					cls := "fault-partial-state"
					for _, n := range before.Names {
						if t := got.Tables[n]; t != nil && afterRef.Tables[n] != nil &&
							len(t.Rows) < len(before.Tables[n].Rows) && len(t.Rows) < len(afterRef.Tables[n].Rows) {
							cls = "fault-rows-lost"
						}
					}
					fr.verdicts = append(fr.verdicts, Verdict{cls, fmt.Sprintf("mode=%s step=%s exit=%d: the database is neither the one before nor the one a fault-free run leaves (%s); failed statement: %s", mode, fr.kind, fr.exit, diffSummary(before, got), short)})
				case fr.exit == 0 && fr.state != "after" && equalDump(before, afterRef) != "":
					fr.verdicts = append(fr.verdicts, Verdict{"fault-success-not-applied", fmt.Sprintf("mode=%s step=%s: exit 0 but nothing applied; failed statement: %s", mode, fr.kind, short)})
				}
				if fcode != 0 && start >= 0 {
					fr.tieCase, _ = tieCaseFault(ctx, before, cur, changes, m.FK, fcode, fidx)
					// the state as far as the model can tell tables apart (columns and rows)
					ms := "other"
					switch {
					case sameForModel(before, got):
						ms = "before"
					case sameForModel(afterRef, got):
						ms = "after"
					}
					fr.tieObs = []string{fmt.Sprintf("res fault err=%s state=%s", b01(fr.exit != 0), ms)}
				}
			} else {
				var applyErr error
				if fr.exit != 0 {
					applyErr = errors.New(fr.stderr)
				}
				if fr.exit == 0 && fr.state != "after" && equalDump(before, afterRef) != "" {
					fr.verdicts = append(fr.verdicts, Verdict{"fault-success-not-applied", fmt.Sprintf("mode=%s step=%s: exit 0 but the database is not the fault-free result (%s); failed statement: %s", mode, fr.kind, diffSummary(afterRef, got), short)})
				} else {
					mm := m
					mm.Tx = "none"
					in := &oracleIn{ctx: ctx, cur: &c.Cur, des: &c.Des, before: before, after: got, changed: changed, applyErr: applyErr, mode: mm}
					fr.verdicts, fr.stats = in.check()
				}
				if fcode == 5 && fr.exit != 0 {
					fr.tieCase, _ = tieCase(ctx, before, cur, changes, m.FK, "none", fidx)
					fr.tieObs = withCreates(tieObs(before, got, "prefix"), creates)
				}
			}
			runs[i] = fr
		}(i)
	}
	wg.Wait()
	reported := false
	for _, fr := range runs {
		id := fmt.Sprintf("%s/%s/fault%03d", c.ID, m, fr.idx)
		w.Count("fault-step:" + fr.kind)
		w.Count("fault-state:" + m.Tx + ":" + fr.state)
		if fr.exit == 0 {
			w.Count("fault-exit:0")
		} else {
			w.Count("fault-exit:nonzero")
		}
		for k, v := range fr.stats {
			w.Dist[k] += v
		}
		if fr.kind != "inspect" {
			w.NonTrivial(id)
		}
		if fr.tieCase != "" && fr.tieObs != nil {
			w.Case(id, fr.tieCase, fr.tieObs)
		} else {
			w.ImplOnly(id, fmt.Sprintf("step=%s exit=%d state=%s stmt=%s", fr.kind, fr.exit, fr.state, fr.stmt))
		}
		for _, v := range fr.verdicts {
			w.Violation(id, v.Class, v.Msg+fmt.Sprintf(" edits=%v", c.Edits))
			if !reported {
				reported = true
				fmt.Fprintf(viol, "-- VIOLATION %s %s %s\n-- VERIF_SQL_FAULT='%s' (statement %d of the run)\n%s\n", id, v.Class, v.Msg, faultRegex(fr.stmt), fr.idx, caseText(c))
			}
		}
	}
	// Persistent faults: the 1st..k-th statement of one kind fails (a lock that does not go away, a
	// retry layer meets the same error again) while everything else succeeds.  A refused statement is
	// never "executed": exit 0 means the database equals the fault-free result; otherwise it is
	// unchanged (--tx-mode file) or in a prefix state with every row in t or new_t (none).
	kinds := []struct{ name, re string }{
		{"copy", "^INSERT INTO .new_"}, {"create-new", "^CREATE TABLE .new_"}, {"drop", "^DROP TABLE"},
		{"rename", "RENAME TO"}, {"add-column", "ADD COLUMN"}, {"create-index", "^CREATE (UNIQUE )?INDEX"},
		{"pragma-off", "^PRAGMA foreign_keys = off"}, {"pragma-on", "^PRAGMA foreign_keys = on"},
		{"pragma-query", "^PRAGMA foreign_keys$"}, {"fk-check", "^PRAGMA foreign_key_check"},
	}
	type prun struct {
		kind     string
		k        int
		spec     string
		exit     int
		state    string
		verdicts []Verdict
		stats    map[string]int
	}
	var pruns []*prun
	for _, kd := range kinds {
		rx := regexp.MustCompile(kd.re)
		hit := false
		for _, st := range stmts {
			if rx.MatchString(st) {
				hit = true
			}
		}
		if !hit {
			continue
		}
		for _, k := range persistentKs {
			var specs []string
			for j := 1; j <= k; j++ {
				specs = append(specs, fmt.Sprintf("%s@%d", kd.re, j))
			}
			pruns = append(pruns, &prun{kind: kd.name, k: k, spec: strings.Join(specs, ","), stats: map[string]int{}})
		}
	}
	for pi := range pruns {
		wg.Add(1)
		sem <- struct{}{}
		go func(pr *prun, pi int) {
			defer wg.Done()
			defer func() { <-sem }()
			res, path := run(fmt.Sprintf("p%03d.db", pi), []string{"VERIF_SQL_FAULT=" + pr.spec})
			pr.exit = res.Exit
			got, err := dumpFile(ctx, path)
			os.Remove(path)
			if err != nil {
				pr.state = "dump-error"
				return
			}
			switch {
			case equalDump(before, got) == "":
				pr.state = "before"
			case equalDump(afterRef, got) == "":
				pr.state = "after"
			default:
				pr.state = "other"
			}
			mode := fmt.Sprintf("%s/persistent-%s-x%d", m, pr.kind, pr.k)
			switch {
			case pr.exit == 0 && pr.state != "after" && equalDump(before, afterRef) != "":
				cls := "fault-success-not-applied"
				for _, n := range before.Names {
					if t := got.Tables[n]; t != nil && afterRef.Tables[n] != nil && len(t.Rows) < len(afterRef.Tables[n].Rows) {
						cls = "fault-rows-lost"
					}
				}
				pr.verdicts = append(pr.verdicts, Verdict{cls, fmt.Sprintf("mode=%s: exit 0 but the database is not the fault-free result (%s); VERIF_SQL_FAULT='%s'", mode, diffSummary(afterRef, got), pr.spec)})
			case pr.exit != 0 && m.Tx == "file" && pr.state == "other":
				pr.verdicts = append(pr.verdicts, Verdict{"fault-partial-state", fmt.Sprintf("mode=%s exit=%d: the database is neither the one before nor the fault-free result (%s); VERIF_SQL_FAULT='%s'", mode, pr.exit, diffSummary(before, got), pr.spec)})
			case pr.exit != 0 && m.Tx == "none":
				mm := m
				mm.Tx = "none"
				in := &oracleIn{ctx: ctx, cur: &c.Cur, des: &c.Des, before: before, after: got, changed: changed, applyErr: errors.New(res.Stderr), mode: mm}
				pr.verdicts, pr.stats = in.check()
			}
		}(pruns[pi], pi)
	}
	wg.Wait()
	for _, pr := range pruns {
		id := fmt.Sprintf("%s/%s/persistent-%s-x%d", c.ID, m, pr.kind, pr.k)
		w.ImplOnly(id, fmt.Sprintf("exit=%d state=%s", pr.exit, pr.state))
		w.NonTrivial(id)
		w.Count("persistent:" + pr.kind)
		w.Count("persistent-state:" + m.Tx + ":" + pr.state)
		for _, v := range pr.verdicts {
			w.Violation(id, v.Class, v.Msg+fmt.Sprintf(" edits=%v", c.Edits))
			if !reported {
				reported = true
				fmt.Fprintf(viol, "-- VIOLATION %s %s %s\n%s\n", id, v.Class, v.Msg, caseText(c))
			}
		}
	}
}

// diffSummary: per table, the row counts that differ.
func diffSummary(a, b *Dump) string {
	var out []string
	for _, n := range a.Names {
		tb := b.Tables[n]
		switch {
		case tb == nil:
			out = append(out, n+": missing")
		case len(tb.Rows) != len(a.Tables[n].Rows):
			out = append(out, fmt.Sprintf("%s: rows %d -> %d", n, len(a.Tables[n].Rows), len(tb.Rows)))
		case !equalTable(a.Tables[n], tb):
			out = append(out, n+": content differs")
		}
	}
	for _, n := range b.Names {
		if a.Tables[n] == nil {
			out = append(out, n+": new")
		}
	}
	return strings.Join(out, ", ")
}

// sameForModel: equal names, columns (name, type, NOT NULL, default, kind) and rows -- what the
// abstract engine knows of a table.
func sameForModel(a, b *Dump) bool {
	if strings.Join(a.Names, "\x00") != strings.Join(b.Names, "\x00") {
		return false
	}
	for _, n := range a.Names {
		ta, tb := a.Tables[n], b.Tables[n]
		if len(ta.Cols) != len(tb.Cols) || len(ta.Rows) != len(tb.Rows) {
			return false
		}
		for i := range ta.Cols {
			x, y := ta.Cols[i], tb.Cols[i]
			if x.Name != y.Name || normType(x.Type) != normType(y.Type) || x.NotNull != y.NotNull || x.Dflt != y.Dflt || (x.Hidden >= 2) != (y.Hidden >= 2) {
				return false
			}
		}
		ra, rb := make([]string, len(ta.Rows)), make([]string, len(tb.Rows))
		for i := range ta.Rows {
			ra[i], rb[i] = strings.Join(ta.Rows[i], "\x00"), strings.Join(tb.Rows[i], "\x00")
		}
		sort.Strings(ra)
		sort.Strings(rb)
		if strings.Join(ra, "\x01") != strings.Join(rb, "\x01") {
			return false
		}
	}
	return true
}
