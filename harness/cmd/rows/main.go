// Command rows: C05 ("planned table changes never lose rows or values of columns that
// survive").  Generates populated SQLite databases and edited desired schemas, runs the
// real differ + planner + executor (sqlclient / sqlite.Driver.ApplyChanges, and the real CLI
// in -mode cli) and evaluates the property on dumps of the real database.
package main

import (
	"context"
	"flag"
	"fmt"
	"os"
	"path/filepath"
	"regexp"
	"runtime"
	"strings"
	"sync"

	"ariga.io/atlas/sql/schema"
	"ariga.io/atlas/sql/sqlclient"

	"verifharness/internal/out"
	"verifharness/internal/rng"
)

type Case struct {
	ID      string
	Cur     Schema
	Des     Schema
	Inserts []string
	Edits   []string
	Exclude []string // tables whose changes are left out of the change set (`--exclude`): they must be left alone
}

type ModeResult struct {
	Mode      Mode
	Skip      string // reason the run does not count (desired schema invalid, differ error)
	ErrClass  string // "" = applied
	ErrText   string
	NChanges  int
	Verdicts  []Verdict
	Stats     map[string]int
	Rows      int
	PlanKinds []string
	Creates   []string // "create <name> <options>" per CREATE TABLE of the plan
	Changes   []schema.Change
	Before    *Dump
	After     *Dump
	TieCase   string
	TieObs    []string
	TieSkip   string
}

var errClasses = []struct{ re, cls string }{
	{`error in view`, "refused-view"},
	{`error in trigger`, "refused-trigger"},
	{`Cannot add a NOT NULL column`, "refused-add-notnull"},
	{`NOT NULL constraint failed`, "refused-notnull"},
	{`UNIQUE constraint failed`, "refused-unique"},
	{`CHECK constraint failed`, "refused-check"},
	{`FOREIGN KEY constraint failed`, "refused-fk"},
	{`foreign key mismatch`, "refused-fk-mismatch"},
	{`cannot store`, "refused-strict-type"},
	{`syntax error`, "refused-syntax"},
	{`already exists`, "refused-exists"},
	{`no such column`, "refused-no-such-column"},
	{`no such table`, "refused-no-such-table"},
	{`no such index`, "refused-no-such-index"},
	{`cannot INSERT into generated column`, "refused-generated"},
	{`non-constant default`, "refused-add-nonconstant"},
	{`values for \d+ columns`, "refused-arity"},
	{`type mismatch on DEFAULT`, "refused-default-type"},
	{`foreign_key_check' pragma: scanning rows`, "refused-fkcheck-scan"},
	{`error in (table|index|view|trigger)`, "refused-schema-error"},
	{`datatype mismatch`, "refused-datatype"},
}

func classify(err error) string {
	if err == nil {
		return ""
	}
	for _, c := range errClasses {
		if regexp.MustCompile(c.re).MatchString(err.Error()) {
			return c.cls
		}
	}
	return "refused-other"
}

func planKinds(ctx context.Context, client *sqlclient.Client, changes []schema.Change) ([]string, []string) {
	p, err := client.PlanChanges(ctx, "x", changes)
	if err != nil {
		return []string{"plan-error"}, nil
	}
	var ks, creates []string
	for _, c := range p.Changes {
		if m := reCreateTable.FindStringSubmatch(strings.Join(strings.Fields(c.Cmd), " ")); m != nil {
			creates = append(creates, "create "+hx(m[1])+" "+createOpts(c.Cmd)+" "+createColTypes(c.Cmd))
		}
		f := strings.Fields(c.Cmd)
		k := strings.ToUpper(f[0])
		if len(f) > 1 && (k == "CREATE" || k == "DROP" || k == "ALTER" || k == "INSERT") {
			k += "-" + strings.ToUpper(f[1])
		}
		if strings.Contains(c.Cmd, "IFNULL(") {
			k += "+IFNULL"
		}
		ks = append(ks, k)
	}
	return ks, creates
}

func runMode(ctx context.Context, c *Case, m Mode, dir string) (res ModeResult) {
	res.Mode = m
	res.Stats = map[string]int{}
	client, err := sqlclient.Open(ctx, m.url(dir))
	if err != nil {
		res.Skip = "open: " + err.Error()
		return
	}
	defer client.Close()
	if _, err := populate(ctx, client.DB, c.Cur.ddl(), c.Inserts, c.Cur.Extra); err != nil {
		res.Skip = "populate: " + err.Error()
		return
	}
	des, err := desiredSchema(ctx, c.Des.ddl())
	if err != nil {
		res.Skip = "desired-invalid: " + err.Error()
		return
	}
	before, err := dumpDB(ctx, client.DB)
	if err != nil {
		res.Skip = "dump: " + err.Error()
		return
	}
	res.Rows = before.nrows()
	cur, err := client.InspectSchema(ctx, "", nil)
	if err != nil {
		res.Skip = "inspect: " + err.Error()
		return
	}
	// file databases are diffed like the CLI does (schema.DiffNormalized()), the others with the default mode
	var dopts []schema.DiffOption
	if m.Store == "file" {
		dopts = append(dopts, schema.DiffNormalized())
	}
	changes, err := client.SchemaDiff(cur, des, dopts...)
	if err != nil {
		res.Skip = "diff-error: " + err.Error()
		return
	}
	if len(c.Exclude) > 0 {
		var keep []schema.Change
		for _, ch := range changes {
			n := ""
			switch ch := ch.(type) {
			case *schema.AddTable:
				n = ch.T.Name
			case *schema.DropTable:
				n = ch.T.Name
			case *schema.ModifyTable:
				n = ch.T.Name
			}
			if !has(c.Exclude, n) {
				keep = append(keep, ch)
			}
		}
		changes = keep
	}
	res.NChanges = len(changes)
	res.Changes = changes
	res.PlanKinds, res.Creates = planKinds(ctx, client, changes)
	if len(res.PlanKinds) == 1 && res.PlanKinds[0] == "plan-error" {
		res.Skip = "plan-error"
		// still apply: an error must leave the database alone
	}
	// the model's input: the state before, the connection's own foreign_keys setting, how the plan
	// is run, the differ's change list
	kk := -1
	if m.Tx == "prefix" {
		kk = m.K
	}
	res.TieCase, res.TieSkip = tieCase(ctx, before, cur, changes, m.FK, m.Tx, kk)
	applyErr := applyLikeCLI(ctx, client, changes, m.Tx, m.K)
	res.ErrClass = classify(applyErr)
	if applyErr == errPrefix {
		res.ErrClass = "prefix"
	} else if m.Tx == "prefix" && applyErr != nil {
		res.TieSkip = "prefix-statement-refused"
	}
	if applyErr != nil {
		res.ErrText = applyErr.Error()
	}
	fkAfter := -1
	if m.Tx == "none" || m.Tx == "file" {
		// the connection's setting after the run (OpenTx / the plan's bracket have touched it)
		if err := client.DB.QueryRowContext(ctx, "PRAGMA foreign_keys").Scan(&fkAfter); err != nil {
			fkAfter = -1
		}
	}
	after, err := dumpDB(ctx, client.DB)
	if err != nil {
		res.Skip = "dump-after: " + err.Error()
		return
	}
	res.Before, res.After = before, after
	in := &oracleIn{ctx: ctx, cur: &c.Cur, des: &c.Des, before: before, after: after, changed: changedTables(changes), applyErr: applyErr, mode: m}
	res.Verdicts, res.Stats = in.check()
	if m.Tx == "rawtx" && m.FK {
		// The engine-side premise of the property does not hold here (a plain sql.Tx with
		// enforcement on: the plan's pragma bracket is a no-op, PlanChanges says so).  What the
		// oracle sees is counted, not reported: it is the necessity witness of
		// C05_others_untouched_without_pragma_refuted on the real engine.
		for _, v := range res.Verdicts {
			res.Stats["premise-violated:"+v.Class]++
		}
		res.Verdicts = nil
	}
	if res.Stats["rowid-alias-null-assigned"] > 0 || aliasRisk(&c.Des, before) {
		res.TieSkip = "rowid-alias-null"
	}
	if m.Tx == "prefix" {
		// the temporary twin of a table may already hold rowids the engine assigned
		for n, ta := range after.Tables {
			tb := before.Tables[strings.TrimPrefix(n, "new_")]
			if !strings.HasPrefix(n, "new_") || tb == nil {
				continue
			}
			for ai := range ta.Cols {
				bi := tb.colIdx(ta.Cols[ai].Name)
				if isRowidAlias(ta, ai) && len(tb.Rows) > 0 && (bi < 0 || (!isRowidAlias(tb, bi) && hasNull(tb, bi))) {
					res.TieSkip = "rowid-alias-null"
				}
			}
		}
	}
	if res.TieSkip == "" && m.Tx == "rawtx" && m.FK && typeChanged(before, after) {
		// foreign-key matching on masked (converted) values is meaningless
		res.TieSkip = "rawtx-type-change"
	}
	if res.TieSkip == "" {
		res.TieObs = withCreates(tieObs(before, after, res.ErrClass), res.Creates)
		if res.TieObs == nil {
			res.TieSkip = "refusal-not-modelled"
		} else if res.ErrClass == "" && fkAfter >= 0 {
			res.TieObs = append(res.TieObs, fmt.Sprintf("fk %d", fkAfter))
		}
	}
	return
}

func genCase(r *rng.R, id string, maxRows, maxEdits int) *Case {
	c := &Case{ID: id}
	c.Cur = genBase(r)
	c.Inserts = genRows(r, &c.Cur, maxRows)
	c.Des = c.Cur.clone()
	n := 1 + r.Intn(maxEdits)
	for tries := 0; len(c.Edits) < n && tries < 40; tries++ {
		if len(c.Des.Tables) == 0 {
			break
		}
		k := rng.Pick(r, editKinds)
		ti := r.Intn(len(c.Des.Tables))
		tn := c.Des.Tables[ti].Name
		save := c.Des.clone()
		if applyEdit(r, &c.Des, k, ti) {
			c.Edits = append(c.Edits, k+"@"+tn)
		} else {
			c.Des = save
		}
	}
	return c
}

func caseText(c *Case) string {
	var b strings.Builder
	fmt.Fprintf(&b, "-- case %s edits=%v\n-- current\n", c.ID, c.Edits)
	for _, s := range c.Cur.ddl() {
		b.WriteString(s + ";\n")
	}
	for _, s := range c.Inserts {
		b.WriteString(s + ";\n")
	}
	for _, s := range c.Cur.Extra {
		b.WriteString(s + ";\n")
	}
	b.WriteString("-- desired\n")
	for _, s := range c.Des.ddl() {
		b.WriteString(s + ";\n")
	}
	return b.String()
}

func main() {
	mode := flag.String("mode", "api", "api | cli | exhaust")
	tier := flag.String("tier", "quick", "quick | thorough")
	outDir := flag.String("out", "work/C05/api", "output directory")
	only := flag.String("only", "", "run only this case id (replay)")
	flag.Parse()
	w := out.New(*outDir)
	defer w.Close()
	tmp, err := os.MkdirTemp("", "rows-c05-")
	if err != nil {
		panic(err)
	}
	defer os.RemoveAll(tmp)
	ctx := context.Background()
	switch *mode {
	case "api":
		runAPI(ctx, w, *tier, tmp, *outDir, *only)
	case "exhaust":
		runExhaust(ctx, w, *tier, tmp, *outDir, *only)
	case "cli":
		runCLI(ctx, w, *tier, tmp, *outDir, *only)
	case "plan":
		runPlan(ctx, w, *tier, *outDir, *only)
	case "fault":
		runFault(ctx, w, *tier, tmp, *outDir, *only)
	case "lock":
		runLock(ctx, w, *tier, tmp, *outDir, *only)
	default:
		fmt.Fprintln(os.Stderr, "unknown mode", *mode)
		os.Exit(2)
	}
}

var apiModes = []Mode{
	{Store: "mem", FK: true, Tx: "none"}, {Store: "mem", FK: true, Tx: "file"}, {Store: "mem", FK: false, Tx: "none"}, {Store: "mem", FK: false, Tx: "file"},
	{Store: "file", FK: true, Tx: "file"}, {Store: "file", FK: true, Tx: "none"}, {Store: "file", FK: false, Tx: "file"},
}

type caseResult struct {
	c    *Case
	runs []ModeResult
}

// runCases runs the cases on all modes in parallel and reports in case order.
func runCases(ctx context.Context, w *out.W, cases []*Case, modes func(i int) []Mode, tmp, outDir string) {
	results := make([]caseResult, len(cases))
	var wg sync.WaitGroup
	sem := make(chan struct{}, runtime.NumCPU())
	for i := range cases {
		wg.Add(1)
		sem <- struct{}{}
		go func(i int) {
			defer wg.Done()
			defer func() { <-sem }()
			cr := caseResult{c: cases[i]}
			for _, m := range modes(i) {
				cr.runs = append(cr.runs, runMode(ctx, cases[i], m, tmp))
			}
			results[i] = cr
		}(i)
	}
	wg.Wait()
	dbg, _ := os.Create(filepath.Join(outDir, "refused.log"))
	defer dbg.Close()
	viol, _ := os.Create(filepath.Join(outDir, "violations.sql"))
	defer viol.Close()
	for _, cr := range results {
		report(w, cr, dbg, viol)
	}
}

func report(w *out.W, cr caseResult, dbg, viol *os.File) {
	c := cr.c
	for _, e := range c.Edits {
		w.Count("edit:" + e[:strings.IndexByte(e, '@')])
	}
	reported := false
	for _, r := range cr.runs {
		id := c.ID + "/" + r.Mode.String()
		if r.Skip != "" && r.Before == nil {
			w.Count("skip:" + strings.SplitN(r.Skip, ":", 2)[0])
			if !strings.HasPrefix(r.Skip, "desired-invalid") {
				fmt.Fprintf(dbg, "%s SKIP %s\n", id, r.Skip)
			}
			continue
		}
		if r.TieCase != "" && r.TieSkip == "" {
			w.Case(id, r.TieCase, r.TieObs)
			w.Count("tie:compared")
		} else {
			w.ImplOnly(id, fmt.Sprintf("edits=%v rows=%d changes=%d plan=%v err=%s", c.Edits, r.Rows, r.NChanges, r.PlanKinds, r.ErrClass))
			w.Count("tie:skip-" + r.TieSkip)
		}
		w.Count("mode:" + r.Mode.String())
		if r.NChanges == 0 {
			w.Count("no-changes")
		}
		if r.ErrClass == "prefix" {
			w.Count("prefix-run")
		} else if r.ErrClass != "" {
			w.Count(r.ErrClass)
			if os.Getenv("ROWS_DEBUG_ERR") != "" {
				fmt.Fprintf(dbg, "%s %s: %s\n", id, r.ErrClass, r.ErrText)
			}
			if r.ErrClass == "refused-no-such-table" || r.ErrClass == "refused-other" || r.ErrClass == "refused-syntax" || r.ErrClass == "refused-schema-error" || r.ErrClass == "refused-no-such-column" {
				fmt.Fprintf(dbg, "%s %s edits=%v: %s\n", id, r.ErrClass, c.Edits, r.ErrText)
				if r.ErrClass == "refused-other" || r.ErrClass == "refused-syntax" {
					fmt.Fprintf(dbg, "%s\n", caseText(c))
				}
			}
		} else {
			w.Count("applied")
			if r.Rows > 0 && r.NChanges > 0 {
				w.Count("applied-populated")
			}
		}
		copyPath, ifnull, alter := false, false, false
		for _, k := range r.PlanKinds {
			w.Count("stmt:" + k)
			if strings.HasPrefix(k, "INSERT") {
				copyPath = true
			}
			if strings.HasSuffix(k, "+IFNULL") {
				ifnull = true
			}
			if k == "ALTER-TABLE" {
				alter = true
			}
		}
		for k, v := range r.Stats {
			w.Dist[k] += v
		}
		// non-trivial: populated database, a plan that touches a populated table through the
		// copy path or ALTER, applied or refused
		if r.Rows > 0 && (copyPath || alter) {
			key := fmt.Sprintf("%v|%v|%v|%s|%s", c.Edits, copyPath, ifnull, r.ErrClass, r.Mode)
			w.NonTrivial(key)
		}
		for _, v := range r.Verdicts {
			w.Violation(id, v.Class, v.Msg+fmt.Sprintf(" edits=%v", c.Edits))
			if !reported {
				reported = true
				fmt.Fprintf(viol, "-- VIOLATION %s %s %s\n%s\n", id, v.Class, v.Msg, caseText(c))
			}
		}
	}
}

func runAPI(ctx context.Context, w *out.W, tier, tmp, outDir, only string) {
	n := 400
	if tier == "thorough" {
		n = 12000
	}
	w.Rule = "a run is non-trivial when the database holds rows and the plan contains a row copy (INSERT INTO new_t ... SELECT) or an ALTER TABLE; keyed by (edit kinds, copy path, IFNULL, outcome, mode)"
	r := rng.FromEnv(0xC05)
	var cases []*Case
	for i := 0; i < n; i++ {
		sub := rng.New(r.U64())
		id := fmt.Sprintf("r%05d", i)
		c := genCase(sub, id, 20, 4)
		if only != "" && only != id {
			continue
		}
		cases = append(cases, c)
	}
	runCases(ctx, w, cases, func(i int) []Mode {
		// every case on the four in-memory combinations, file databases on a rotating mode
		ms := append([]Mode(nil), apiModes[:4]...)
		ms = append(ms, apiModes[4+i%3])
		return ms
	}, tmp, outDir)
}

// aliasRisk: some desired table makes a column the rowid alias (single INTEGER PRIMARY KEY of a rowid
// table) that is not the alias now and holds NULLs (or does not exist yet) in a populated table: the
// engine assigns rowids there, which the model does not have.
func aliasRisk(des *Schema, before *Dump) bool {
	for i := range des.Tables {
		t := &des.Tables[i]
		if len(t.PK) != 1 || t.WithoutRowid {
			continue
		}
		c := t.col(t.PK[0])
		tb := before.Tables[t.Name]
		if c == nil || strings.ToLower(c.Type) != "integer" || tb == nil || len(tb.Rows) == 0 {
			continue
		}
		bi := tb.colIdx(c.Name)
		if bi < 0 || (!isRowidAlias(tb, bi) && hasNull(tb, bi)) {
			return true
		}
	}
	return false
}

// withCreates inserts the "create" lines after the result line of an applied / cut-off run.
func withCreates(obs, creates []string) []string {
	if len(obs) == 0 || (obs[0] != "res ok" && obs[0] != "res prefix") {
		return obs
	}
	out := append([]string{obs[0]}, creates...)
	return append(out, obs[1:]...)
}
