// Stage gen: the destructive analyzer itself, engine-free.  sqlcheck.Pass values are built
// in-process from explicit multi-schema change lists (no database, no CLI), the real
// destructive.New / Analyzer.Analyze run on them, and the property is evaluated from an
// independent replay of the change list (gsim below: which incarnation of a schema / table /
// column each Drop change removes -- one that existed before the file, or one the file created).
package main

import (
	"context"
	"fmt"
	"sort"
	"strconv"
	"strings"

	"ariga.io/atlas/schemahcl"
	"ariga.io/atlas/sql/migrate"
	"ariga.io/atlas/sql/schema"
	"ariga.io/atlas/sql/sqlcheck"
	"ariga.io/atlas/sql/sqlcheck/destructive"
	"ariga.io/atlas/sql/sqlclient"

	"verifharness/internal/out"
	"verifharness/internal/rng"
)

type gcol struct {
	name string
	gen  *string // GeneratedExpr.Type, nil = no such attribute
}
type gsch struct {
	name string
	ntab int
}
type gtab struct {
	schema *string // nil = T.Schema is nil
	name   string
	cols   []gcol
}
type gtch struct {
	k     string // +c -c rc oc
	c, c2 gcol
	kind  int
	n     string
}
type gch struct {
	k     string // +s -s +t -t ~t rt o
	s     gsch
	t, t2 gtab
	cs    []gtch
	kind  int
}
type gsc struct {
	pos int
	chs []gch
}
type gattr struct {
	key string
	val bool
}
type gblock struct {
	typ   string
	attrs []gattr
}
type gcase struct {
	id, label string
	nilRes    bool
	cfg       []gblock
	cl        []gsc
}

func hopt(s *string) string {
	if s == nil {
		return "!"
	}
	return hx(*s)
}
func (c gcol) tok() string { return hx(c.name) + " " + hopt(c.gen) }
func (t gtab) tok() string {
	p := []string{hopt(t.schema), hx(t.name), strconv.Itoa(len(t.cols))}
	for _, c := range t.cols {
		p = append(p, c.tok())
	}
	return strings.Join(p, " ")
}
func (c gtch) tok() string {
	switch c.k {
	case "+c", "-c":
		return c.k + " " + c.c.tok()
	case "rc":
		return "rc " + c.c.tok() + " " + c.c2.tok()
	}
	return fmt.Sprintf("oc %d %s", c.kind, hx(c.n))
}
func (c gch) tok() string {
	switch c.k {
	case "+s", "-s":
		return fmt.Sprintf("%s %s %d", c.k, hx(c.s.name), c.s.ntab)
	case "+t", "-t":
		return c.k + " " + c.t.tok()
	case "~t":
		p := []string{"~t", c.t.tok(), strconv.Itoa(len(c.cs))}
		for _, x := range c.cs {
			p = append(p, x.tok())
		}
		return strings.Join(p, " ")
	case "rt":
		return "rt " + c.t.tok() + " " + c.t2.tok()
	}
	return fmt.Sprintf("o %d", c.kind)
}
func (c *gcase) line() string {
	var p []string
	if c.nilRes {
		p = append(p, "nil")
	} else {
		p = append(p, strconv.Itoa(len(c.cfg)))
		for _, b := range c.cfg {
			p = append(p, hx(b.typ), strconv.Itoa(len(b.attrs)))
			for _, a := range b.attrs {
				v := "0"
				if a.val {
					v = "1"
				}
				p = append(p, hx(a.key), v)
			}
		}
	}
	p = append(p, strconv.Itoa(len(c.cl)))
	for _, sc := range c.cl {
		p = append(p, strconv.Itoa(sc.pos), strconv.Itoa(len(sc.chs)))
		for _, ch := range sc.chs {
			p = append(p, ch.tok())
		}
	}
	return strings.Join(p, " ")
}

// ---------------------------------------------------------------- building the real values

func mkCol(c gcol) *schema.Column {
	col := schema.NewColumn(c.name)
	col.Attrs = append(col.Attrs, &schema.Comment{Text: "c"})
	if c.gen != nil {
		col.Attrs = append(col.Attrs, &schema.GeneratedExpr{Expr: "1", Type: *c.gen}, &schema.GeneratedExpr{Expr: "2", Type: "STORED"})
	}
	return col
}
func mkTab(t gtab) *schema.Table {
	tb := schema.NewTable(t.name)
	if t.schema != nil {
		tb.Schema = schema.New(*t.schema)
	}
	for _, c := range t.cols {
		tb.Columns = append(tb.Columns, mkCol(c))
	}
	return tb
}
func mkSch(s gsch) *schema.Schema {
	sc := schema.New(s.name)
	for i := 0; i < s.ntab; i++ {
		sc.Tables = append(sc.Tables, schema.NewTable(fmt.Sprintf("x%d", i)))
	}
	return sc
}
func mkTch(c gtch) schema.Change {
	switch c.k {
	case "+c":
		return &schema.AddColumn{C: mkCol(c.c)}
	case "-c":
		return &schema.DropColumn{C: mkCol(c.c)}
	case "rc":
		return &schema.RenameColumn{From: mkCol(c.c), To: mkCol(c.c2)}
	}
	switch c.kind {
	case 0:
		return &schema.AddIndex{I: schema.NewIndex(c.n)}
	case 1:
		return &schema.DropIndex{I: schema.NewIndex(c.n)}
	case 2:
		return &schema.AddForeignKey{F: &schema.ForeignKey{Symbol: c.n}}
	case 3:
		return &schema.DropForeignKey{F: &schema.ForeignKey{Symbol: c.n}}
	case 4:
		return &schema.ModifyColumn{From: schema.NewColumn(c.n), To: schema.NewColumn(c.n), Change: schema.ChangeType}
	case 5:
		return &schema.AddCheck{C: &schema.Check{Name: c.n}}
	}
	return &schema.DropCheck{C: &schema.Check{Name: c.n}}
}
func mkCh(c gch) schema.Change {
	switch c.k {
	case "+s":
		return &schema.AddSchema{S: mkSch(c.s)}
	case "-s":
		return &schema.DropSchema{S: mkSch(c.s)}
	case "+t":
		return &schema.AddTable{T: mkTab(c.t)}
	case "-t":
		return &schema.DropTable{T: mkTab(c.t)}
	case "~t":
		m := &schema.ModifyTable{T: mkTab(c.t)}
		for _, x := range c.cs {
			m.Changes = append(m.Changes, mkTch(x))
		}
		return m
	case "rt":
		return &schema.RenameTable{From: mkTab(c.t), To: mkTab(c.t2)}
	}
	switch c.kind {
	case 0:
		return &schema.ModifySchema{S: schema.New("s1")}
	case 1:
		return &schema.AddView{V: schema.NewView("t", "select 1")}
	case 2:
		return &schema.DropView{V: schema.NewView("t", "select 1")}
	}
	return &schema.AddFunc{F: &schema.Func{Name: "t"}}
}

type gdiagObs struct {
	code  string
	pos   int
	names []string
	ntab  int
	text  string
}
type gobs struct {
	panicked bool
	newErr   bool
	err      bool
	errText  string
	reports  int
	repText  string
	diags    []gdiagObs
}

// quotedNames returns the Go-quoted strings of a diagnostic text, unquoted.
func quotedNames(text string) []string {
	var ns []string
	for i := 0; i < len(text); {
		if text[i] != '"' {
			i++
			continue
		}
		q, err := strconv.QuotedPrefix(text[i:])
		if err != nil {
			i++
			continue
		}
		u, _ := strconv.Unquote(q)
		ns = append(ns, u)
		i += len(q)
	}
	return ns
}

func runGeneric(c *gcase) (o gobs) {
	defer func() {
		if r := recover(); r != nil {
			o = gobs{panicked: true}
		}
	}()
	var res *schemahcl.Resource
	if !c.nilRes {
		res = &schemahcl.Resource{}
		for _, b := range c.cfg {
			ch := &schemahcl.Resource{Type: b.typ}
			for _, a := range b.attrs {
				ch.Attrs = append(ch.Attrs, schemahcl.BoolAttr(a.key, a.val))
			}
			res.Children = append(res.Children, ch)
		}
	}
	az, err := destructive.New(res)
	if err != nil {
		return gobs{newErr: true}
	}
	file := &sqlcheck.File{File: migrate.NewLocalFile("1.sql", nil)}
	for _, sc := range c.cl {
		ch := &sqlcheck.Change{Stmt: &migrate.Stmt{Pos: sc.pos, Text: "stmt"}}
		for _, x := range sc.chs {
			ch.Changes = append(ch.Changes, mkCh(x))
		}
		file.Changes = append(file.Changes, ch)
	}
	pass := &sqlcheck.Pass{
		File: file,
		Dev:  &sqlclient.Client{},
		Reporter: sqlcheck.ReportWriterFunc(func(r sqlcheck.Report) {
			o.reports++
			o.repText = r.Text
			for _, d := range r.Diagnostics {
				g := gdiagObs{code: d.Code, pos: d.Pos, names: quotedNames(d.Text), text: d.Text}
				if d.Code == "DS101" {
					switch {
					case strings.HasPrefix(d.Text, "Dropping schema "):
						g.ntab = 0
					case strings.HasSuffix(d.Text, " with 1 table"):
						g.ntab = 1
					default:
						f := strings.Fields(d.Text)
						if len(f) >= 2 {
							g.ntab, _ = strconv.Atoi(f[len(f)-2])
						}
					}
				}
				o.diags = append(o.diags, g)
			}
		}),
	}
	if err := az.Analyze(context.Background(), pass); err != nil {
		o.err = true
		o.errText = err.Error()
	}
	return o
}

func (o *gobs) obs() string {
	if o.panicked {
		return "panic"
	}
	if o.newErr {
		return "newerr"
	}
	var ds []string
	for _, d := range o.diags {
		var ns []string
		for _, n := range d.names {
			ns = append(ns, hx(n))
		}
		if d.code == "DS101" {
			ds = append(ds, fmt.Sprintf("%s@%d(%s#%d)", d.code, d.pos, strings.Join(ns, ","), d.ntab))
		} else {
			ds = append(ds, fmt.Sprintf("%s@%d(%s)", d.code, d.pos, strings.Join(ns, ",")))
		}
	}
	e := 0
	if o.err {
		e = 1
	}
	return fmt.Sprintf("err=%d rep=%d [%s]", e, o.reports, strings.Join(ds, ";"))
}

// ---------------------------------------------------------------- ground truth (independent of atlas)

type tri int

const (
	unk tri = iota
	yes
	no
)

type gsimC struct {
	ex             tri
	fresh, renamed bool
}
type gsimT struct {
	ex             tri
	fresh, renamed bool
	cols           map[string]*gsimC
	closed         bool // columns without an entry are known to be absent
}
type gsimS struct {
	ex     tri
	fresh  bool
	tabs   map[string]*gsimT
	closed bool
}

// a Drop change and the incarnation it removes
type gdrop struct {
	pos     int
	code    string
	schema  string
	table   string
	name    string
	pre     bool // existed before the file
	renamed bool
	virtual bool
	key     string
}

type gtruth struct {
	bad   string // non-empty: no catalogue has this change list as its history
	drops []gdrop
	nDrop map[string]int
	nAdd  map[string]int
}

func isVirtual(c gcol) bool { return c.gen != nil && strings.ToUpper(*c.gen) == "VIRTUAL" }

func gsim(cl []gsc) (tr gtruth) {
	tr.nDrop, tr.nAdd = map[string]int{}, map[string]int{}
	ss := map[string]*gsimS{}
	sch := func(n string) *gsimS {
		if ss[n] == nil {
			ss[n] = &gsimS{tabs: map[string]*gsimT{}}
		}
		return ss[n]
	}
	bad := func(f string, a ...any) {
		if tr.bad == "" {
			tr.bad = fmt.Sprintf(f, a...)
		}
	}
	// the schema of a table change must exist
	live := func(n string) *gsimS {
		s := sch(n)
		switch s.ex {
		case no:
			bad("table change in absent schema %s", n)
		case unk:
			s.ex = yes
		}
		return s
	}
	// the table of a ModifyTable / DropTable / RenameTable(from) must exist
	liveTab := func(s *gsimS, n string) *gsimT {
		t := s.tabs[n]
		if t == nil {
			if s.closed {
				bad("table %s is absent", n)
			}
			t = &gsimT{ex: yes, cols: map[string]*gsimC{}}
			s.tabs[n] = t
		}
		switch t.ex {
		case no:
			bad("table %s is absent", n)
		case unk:
			t.ex = yes
		}
		return t
	}
	liveCol := func(t *gsimT, n string) *gsimC {
		c := t.cols[n]
		if c == nil {
			if t.closed {
				bad("column %s is absent", n)
			}
			c = &gsimC{ex: yes}
			t.cols[n] = c
		}
		if c.ex == no {
			bad("column %s is absent", n)
		}
		c.ex = yes
		return c
	}
	for _, sc := range cl {
		for _, ch := range sc.chs {
			switch ch.k {
			case "+s":
				s := sch(ch.s.name)
				if s.ex == yes {
					bad("schema %s added twice", ch.s.name)
				}
				tr.nAdd["s/"+ch.s.name]++
				*s = gsimS{ex: yes, fresh: true, tabs: map[string]*gsimT{}, closed: true}
			case "-s":
				s := sch(ch.s.name)
				if s.ex == no {
					bad("schema %s dropped twice", ch.s.name)
				}
				key := "s/" + ch.s.name
				tr.nDrop[key]++
				tr.drops = append(tr.drops, gdrop{pos: sc.pos, code: "DS101", schema: ch.s.name, name: ch.s.name, pre: !s.fresh, key: key})
				*s = gsimS{ex: no, tabs: map[string]*gsimT{}, closed: true}
			case "+t":
				if ch.t.schema == nil {
					bad("nil schema")
					continue
				}
				s := live(*ch.t.schema)
				t := s.tabs[ch.t.name]
				if t != nil && t.ex == yes {
					bad("table %s added twice", ch.t.name)
				}
				tr.nAdd["t/"+*ch.t.schema+"/"+ch.t.name]++
				nt := &gsimT{ex: yes, fresh: true, cols: map[string]*gsimC{}, closed: true}
				for _, c := range ch.t.cols {
					if nt.cols[c.name] != nil {
						bad("duplicate column")
					}
					nt.cols[c.name] = &gsimC{ex: yes, fresh: true}
					tr.nAdd["c/"+*ch.t.schema+"/"+ch.t.name+"/"+c.name]++
				}
				s.tabs[ch.t.name] = nt
			case "-t":
				if ch.t.schema == nil {
					bad("nil schema")
					continue
				}
				s := live(*ch.t.schema)
				t := liveTab(s, ch.t.name)
				key := "t/" + *ch.t.schema + "/" + ch.t.name
				tr.nDrop[key]++
				tr.drops = append(tr.drops, gdrop{pos: sc.pos, code: "DS102", schema: *ch.t.schema, table: ch.t.name, name: ch.t.name, pre: !t.fresh, renamed: t.renamed, key: key})
				s.tabs[ch.t.name] = &gsimT{ex: no, cols: map[string]*gsimC{}, closed: true}
			case "~t":
				if ch.t.schema == nil {
					bad("nil schema")
					continue
				}
				s := live(*ch.t.schema)
				t := liveTab(s, ch.t.name)
				for _, x := range ch.cs {
					ck := "c/" + *ch.t.schema + "/" + ch.t.name + "/"
					switch x.k {
					case "+c":
						if c := t.cols[x.c.name]; c != nil && c.ex == yes {
							bad("column %s added twice", x.c.name)
						}
						tr.nAdd[ck+x.c.name]++
						t.cols[x.c.name] = &gsimC{ex: yes, fresh: true}
					case "-c":
						c := liveCol(t, x.c.name)
						tr.nDrop[ck+x.c.name]++
						tr.drops = append(tr.drops, gdrop{pos: sc.pos, code: "DS103", schema: *ch.t.schema, table: ch.t.name, name: x.c.name,
							pre: !c.fresh && !t.fresh, renamed: c.renamed || t.renamed, virtual: isVirtual(x.c), key: ck + x.c.name})
						t.cols[x.c.name] = &gsimC{ex: no}
					case "rc":
						c := liveCol(t, x.c.name)
						if d := t.cols[x.c2.name]; (d != nil && d.ex == yes) || x.c.name == x.c2.name {
							bad("rename onto an existing column")
						}
						t.cols[x.c2.name] = &gsimC{ex: yes, fresh: c.fresh, renamed: true}
						t.cols[x.c.name] = &gsimC{ex: no}
					}
				}
			case "rt":
				if ch.t.schema == nil || ch.t2.schema == nil || *ch.t.schema != *ch.t2.schema {
					bad("rename across schemas")
					continue
				}
				s := live(*ch.t.schema)
				t := liveTab(s, ch.t.name)
				if u := s.tabs[ch.t2.name]; (u != nil && u.ex == yes) || ch.t.name == ch.t2.name {
					bad("rename onto an existing table")
				}
				t.renamed = true
				s.tabs[ch.t2.name] = t
				s.tabs[ch.t.name] = &gsimT{ex: no, cols: map[string]*gsimC{}, closed: true}
			}
		}
	}
	return tr
}

func expectedError(c *gcase) bool {
	for _, b := range c.cfg {
		if b.typ == "destructive" {
			for _, a := range b.attrs {
				if a.key == "error" {
					return a.val
				}
			}
			return true
		}
	}
	return true
}

func expectedText(d gdiagObs) string {
	q := func(s string) string { return strconv.Quote(s) }
	switch d.code {
	case "DS101":
		if len(d.names) != 1 {
			return ""
		}
		switch {
		case d.ntab == 0:
			return "Dropping schema " + q(d.names[0])
		case d.ntab == 1:
			return "Dropping non-empty schema " + q(d.names[0]) + " with 1 table"
		}
		return fmt.Sprintf("Dropping non-empty schema %s with %d tables", q(d.names[0]), d.ntab)
	case "DS102":
		if len(d.names) != 1 {
			return ""
		}
		return "Dropping table " + q(d.names[0])
	case "DS103":
		switch n := len(d.names); {
		case n == 1:
			return "Dropping non-virtual column " + q(d.names[0])
		case n > 1:
			var qs []string
			for _, x := range d.names {
				qs = append(qs, q(x))
			}
			return "Dropping non-virtual columns " + strings.Join(qs[:n-1], ", ") + " and " + qs[n-1]
		}
	}
	return ""
}

func oracleGeneric(w *out.W, c *gcase, o *gobs) {
	if o.panicked || o.newErr {
		w.Count("gen-oracle/no-result")
		return
	}
	show := o.obs()
	// report / error shape
	wantErr := len(o.diags) > 0 && expectedError(c)
	if o.err != wantErr || (o.err && o.errText != "destructive changes detected") {
		w.Violation(c.id, "exit-status", fmt.Sprintf("error=%v (%q) with %d diagnostic(s) and option error=%v tags=[] case: %s", o.err, o.errText, len(o.diags), expectedError(c), c.line()))
	}
	if (o.reports != 0) != (len(o.diags) > 0) || o.reports > 1 || (o.reports == 1 && o.repText != "destructive changes detected") {
		w.Violation(c.id, "report-shape", fmt.Sprintf("%d report(s) %q for %d diagnostic(s) tags=[] case: %s", o.reports, o.repText, len(o.diags), c.line()))
	}
	positions := map[int]bool{}
	for _, sc := range c.cl {
		positions[sc.pos] = true
	}
	for _, d := range o.diags {
		if !positions[d.pos] {
			w.Violation(c.id, "spurious-diagnostic", fmt.Sprintf("diagnostic %s at %d: no statement there tags=[] case: %s", d.code, d.pos, c.line()))
		}
		if d.text != expectedText(d) {
			w.Violation(c.id, "report-shape", fmt.Sprintf("diagnostic text %q tags=[] case: %s", d.text, c.line()))
		}
	}
	tr := gsim(c.cl)
	if tr.bad != "" {
		w.Count("gen-oracle/impossible-history")
		return
	}
	w.Count("gen-oracle/judged")
	has := func(code string, pos int, name string) bool {
		for _, d := range o.diags {
			if d.code == code && d.pos == pos {
				for _, n := range d.names {
					if n == name {
						return true
					}
				}
			}
		}
		return false
	}
	hasSchema := func(name string) bool {
		for _, d := range o.diags {
			if d.code == "DS101" && len(d.names) == 1 && d.names[0] == name {
				return true
			}
		}
		return false
	}
	tagsOf := func(dr gdrop) string {
		var t []string
		if dr.pre && tr.nDrop[dr.key] >= 2 {
			t = append(t, "readded")
		}
		switch {
		case !dr.pre && dr.renamed && tr.nAdd[dr.key] == 0:
			t = append(t, "renamed") // the file never adds an object under this name: it got it by a rename
		case !dr.pre && (tr.nAdd[dr.key] >= 2 || (dr.renamed && tr.nAdd[dr.key] >= 1)):
			t = append(t, "recreated")
		}
		return strings.Join(t, ",")
	}
	// completeness: every Drop of an incarnation that existed before the file is reported on its statement
	for _, dr := range tr.drops {
		if !dr.pre || dr.virtual {
			continue
		}
		w.Count("gen-oracle/pre-existing-drop/" + dr.code)
		ok := has(dr.code, dr.pos, dr.name)
		if !ok && dr.code != "DS101" && hasSchema(dr.schema) {
			ok = true // the whole schema is reported as dropped
			w.Count("gen-oracle/covered-by-DS101")
		}
		if !ok {
			class := map[string]string{"DS101": "complete-schema", "DS102": "complete-table", "DS103": "complete-column"}[dr.code]
			w.Violation(c.id, class, fmt.Sprintf("API level: the change at %d drops %s, which existed before the file, and carries no %s; got %s tags=[%s] case: %s",
				dr.pos, dr.key, dr.code, show, tagsOf(dr), c.line()))
		}
	}
	// soundness: a diagnostic names an object that some Drop change at that position removes, and not only
	// incarnations the file itself created (virtual columns are never reported)
	for _, d := range o.diags {
		for _, n := range d.names {
			var match, pre []gdrop
			for _, dr := range tr.drops {
				if dr.code == d.code && dr.pos == d.pos && dr.name == n {
					match = append(match, dr)
					if dr.pre && !dr.virtual {
						pre = append(pre, dr)
					}
				}
			}
			switch {
			case len(match) == 0:
				w.Violation(c.id, "spurious-diagnostic", fmt.Sprintf("API level: %s at %d names %q, which no change of that statement drops; got %s tags=[] case: %s", d.code, d.pos, n, show, c.line()))
			case len(pre) == 0:
				tg := tagsOf(match[0])
				if match[0].virtual {
					tg = "virtual"
				}
				w.Violation(c.id, "sound-false-positive", fmt.Sprintf("API level: %s at %d names %s, an object the file itself created (or a virtual column); got %s tags=[%s] case: %s",
					d.code, d.pos, match[0].key, show, tg, c.line()))
			}
		}
	}
}

// ---------------------------------------------------------------- generator

func sp(s string) *string { return &s }

func genGeneric(tier string) []*gcase {
	var cases []*gcase
	add := func(label string, cfgNil bool, cfg []gblock, stmts [][]gch) {
		c := &gcase{id: fmt.Sprintf("g%s%d", label, len(cases)+1), label: label, nilRes: cfgNil, cfg: cfg}
		for i, s := range stmts {
			c.cl = append(c.cl, gsc{pos: 7*i + i*i, chs: s})
		}
		cases = append(cases, c)
	}
	v, vl, st, em := "VIRTUAL", "virtual", "STORED", ""
	_ = em
	s1, s2 := "s1", "s2"
	a, b, gv := gcol{name: "a"}, gcol{name: "b"}, gcol{name: "g", gen: &v}
	T := func(s *string, n string, cols ...gcol) gtab { return gtab{schema: s, name: n, cols: cols} }
	// alphabet of single changes over {s1,s2} x {t,u} x {a,b,g}
	alpha := []gch{
		{k: "+s", s: gsch{s1, 0}},
		{k: "-s", s: gsch{s1, 2}},
		{k: "-s", s: gsch{s2, 0}},
		{k: "+t", t: T(&s1, "t", a, b)},
		{k: "+t", t: T(&s1, "t")},
		{k: "-t", t: T(&s1, "t", a, b)},
		{k: "+t", t: T(&s2, "t", a)},
		{k: "-t", t: T(&s2, "t", a)},
		{k: "-t", t: T(&s1, "u")},
		{k: "~t", t: T(&s1, "t", a, b), cs: []gtch{{k: "-c", c: a}}},
		{k: "~t", t: T(&s1, "t", a, b), cs: []gtch{{k: "+c", c: a}}},
		{k: "~t", t: T(&s1, "t", a, b), cs: []gtch{{k: "-c", c: a}, {k: "-c", c: b}}},
		{k: "~t", t: T(&s1, "t", a, b), cs: []gtch{{k: "-c", c: b}, {k: "+c", c: b}}},
		{k: "~t", t: T(&s2, "t", a), cs: []gtch{{k: "-c", c: a}}},
		{k: "~t", t: T(&s1, "t", a, gv), cs: []gtch{{k: "-c", c: gv}}},
		{k: "rt", t: T(&s1, "t", a, b), t2: T(&s1, "u", a, b)},
		{k: "~t", t: T(&s1, "t", a, b), cs: []gtch{{k: "rc", c: a, c2: b}}},
	}
	maxLen := 3
	if tier == "thorough" {
		maxLen = 4
	}
	var rec func(prefix [][]gch, n int)
	rec = func(prefix [][]gch, n int) {
		if len(prefix) > 0 {
			add("E", true, nil, prefix)
		}
		if n == 0 {
			return
		}
		for _, x := range alpha {
			next := append(append([][]gch{}, prefix...), []gch{x})
			rec(next, n-1)
		}
	}
	rec(nil, maxLen)
	// options: every shape of the configuration x a destructive and a clean file
	drop := [][]gch{{{k: "-t", t: T(&s1, "t", a)}}}
	clean := [][]gch{{{k: "+t", t: T(&s1, "t", a)}}}
	cfgs := []struct {
		nilRes bool
		cfg    []gblock
	}{
		{true, nil}, {false, nil},
		{false, []gblock{{"destructive", nil}}},
		{false, []gblock{{"destructive", []gattr{{"error", true}}}}},
		{false, []gblock{{"destructive", []gattr{{"error", false}}}}},
		{false, []gblock{{"destructive", []gattr{{"error", false}, {"error", true}}}}},
		{false, []gblock{{"destructive", []gattr{{"force", true}, {"error", false}}}}},
		{false, []gblock{{"destructive", []gattr{{"errors", false}}}}},
		{false, []gblock{{"data_depend", []gattr{{"error", false}}}}},
		{false, []gblock{{"data_depend", []gattr{{"error", false}}}, {"destructive", []gattr{{"error", false}}}}},
		{false, []gblock{{"destructive", nil}, {"destructive", []gattr{{"error", false}}}}},
		{false, []gblock{{"destructive", []gattr{{"error", false}}}, {"destructive", []gattr{{"error", true}}}}},
		{false, []gblock{{"Destructive", []gattr{{"error", false}}}}},
	}
	for _, cf := range cfgs {
		add("O", cf.nilRes, cf.cfg, drop)
		add("O", cf.nilRes, cf.cfg, clean)
	}
	// hand-written shapes MySQL/PostgreSQL files produce
	hand := [][][]gch{
		// DROP SCHEMA with its tables: DropTable silenced, DS101 with the table count
		{{{k: "-t", t: T(&s1, "t", a)}}, {{k: "-t", t: T(&s1, "u", a)}}, {{k: "-s", s: gsch{s1, 0}}}},
		{{{k: "-s", s: gsch{s1, 1}}}}, {{{k: "-s", s: gsch{s1, 12}}}},
		// the table of a schema that is dropped, re-created and dropped again: the schema's DS101 is lost (finding readded),
		// the table's DS102 must stay (SchemaSpan is Temporary, not Dropped) -- mutant M21
		{{{k: "-t", t: T(&s1, "t", a)}}, {{k: "-s", s: gsch{s1, 0}}}, {{k: "+s", s: gsch{s1, 0}}}, {{k: "-s", s: gsch{s1, 0}}}},
		{{{k: "~t", t: T(&s1, "t", a), cs: []gtch{{k: "-c", c: a}}}}, {{k: "-t", t: T(&s1, "t", a)}}, {{k: "-s", s: gsch{s1, 1}}}, {{k: "+s", s: gsch{s1, 0}}}, {{k: "-s", s: gsch{s1, 0}}}},
		// temporary schema with tables
		{{{k: "+s", s: gsch{s1, 0}}}, {{k: "+t", t: T(&s1, "t", a)}}, {{k: "-t", t: T(&s1, "t", a)}}, {{k: "-s", s: gsch{s1, 0}}}},
		// one statement, many changes (DROP TABLE a, b / ALTER TABLE with several drops)
		{{{k: "-t", t: T(&s1, "t", a)}, {k: "-t", t: T(&s2, "t", a)}, {k: "-t", t: T(&s1, "u", a)}}},
		{{{k: "~t", t: T(&s1, "t", a, b), cs: []gtch{{k: "-c", c: a}, {k: "oc", kind: 1, n: "a"}, {k: "-c", c: b}, {k: "-c", c: gcol{name: "c"}}, {k: "+c", c: gcol{name: "d"}}}}}},
		// virtual spellings
		{{{k: "~t", t: T(&s1, "t"), cs: []gtch{{k: "-c", c: gcol{name: "a", gen: &vl}}, {k: "-c", c: gcol{name: "b", gen: &st}}, {k: "-c", c: gcol{name: "c", gen: &em}}, {k: "-c", c: gcol{name: "d", gen: sp("Virtual")}}, {k: "-c", c: gcol{name: "e", gen: sp("VIRTUAL ")}}}}}},
		// renames
		{{{k: "+t", t: T(&s1, "t", a)}}, {{k: "rt", t: T(&s1, "t", a), t2: T(&s1, "u", a)}}, {{k: "-t", t: T(&s1, "u", a)}}},
		{{{k: "~t", t: T(&s1, "t"), cs: []gtch{{k: "+c", c: a}}}}, {{k: "~t", t: T(&s1, "t"), cs: []gtch{{k: "rc", c: a, c2: b}}}}, {{k: "~t", t: T(&s1, "t"), cs: []gtch{{k: "-c", c: b}}}}},
		// index / foreign key / check changes named like columns
		{{{k: "~t", t: T(&s1, "t"), cs: []gtch{{k: "oc", kind: 0, n: "a"}, {k: "oc", kind: 2, n: "a"}, {k: "oc", kind: 5, n: "a"}}}}, {{k: "~t", t: T(&s1, "t"), cs: []gtch{{k: "-c", c: a}}}}},
		{{{k: "~t", t: T(&s1, "t"), cs: []gtch{{k: "-c", c: a}}}}, {{k: "~t", t: T(&s1, "t"), cs: []gtch{{k: "oc", kind: 1, n: "a"}, {k: "oc", kind: 3, n: "a"}, {k: "oc", kind: 6, n: "a"}, {k: "oc", kind: 4, n: "a"}}}}},
		// nil schema: panic only when a span is asked for
		{{{k: "+t", t: T(nil, "t", a)}}},
		{{{k: "+t", t: T(nil, "t", a)}}, {{k: "-s", s: gsch{s1, 0}}}},
		{{{k: "-t", t: T(nil, "t", a)}}},
		{{{k: "~t", t: T(nil, "t", a), cs: []gtch{{k: "+c", c: a}}}}},
		{{{k: "~t", t: T(nil, "t", a), cs: []gtch{{k: "+c", c: a}}}}, {{k: "~t", t: T(&s1, "t", a), cs: []gtch{{k: "-c", c: a}}}}},
		{{{k: "rt", t: T(nil, "t", a), t2: T(nil, "u", a)}}, {{k: "-t", t: T(&s1, "t", a)}}},
		// names that need quoting
		{{{k: "-t", t: T(&s1, "a\"b, c and d")}}, {{k: "~t", t: T(&s1, "t"), cs: []gtch{{k: "-c", c: gcol{name: "x\", \"y"}}, {k: "-c", c: gcol{name: " and "}}, {k: "-c", c: gcol{name: "\xff\n"}}}}}},
		{{{k: "-s", s: gsch{"", 0}}}, {{k: "-t", t: T(sp(""), "")}}},
		// other top-level changes
		{{{k: "o", kind: 0}, {k: "o", kind: 1}, {k: "o", kind: 2}, {k: "o", kind: 3}}},
	}
	for _, h := range hand {
		add("H", true, nil, h)
		add("H", false, []gblock{{"destructive", []gattr{{"error", false}}}}, h)
	}
	// seeded random multi-change statements
	r := rng.FromEnv(0x6e18)
	nRand := 1500
	if tier == "thorough" {
		nRand = 30000
	}
	schemas := []*string{&s1, &s2, &s1, nil}
	tabs := []string{"t", "u", "s1"}
	colsU := []gcol{a, b, gv, {name: "t"}, {name: "c", gen: &st}}
	for i := 0; i < nRand; i++ {
		pickCols := func() []gcol {
			var cs []gcol
			for _, c := range colsU {
				if r.Chance(1, 3) {
					cs = append(cs, c)
				}
			}
			return cs
		}
		pickTab := func() gtab {
			s := schemas[r.Intn(len(schemas)-1)]
			if r.Chance(1, 60) {
				s = nil
			}
			return gtab{schema: s, name: rng.Pick(r, tabs), cols: pickCols()}
		}
		var stmts [][]gch
		for n := 1 + r.Intn(6); n > 0; n-- {
			var chs []gch
			for m := 1 + r.Intn(5)/3; m > 0; m-- {
				switch k := r.Intn(20); {
				case k < 2:
					chs = append(chs, gch{k: "+s", s: gsch{*schemas[r.Intn(2)], r.Intn(3)}})
				case k < 4:
					chs = append(chs, gch{k: "-s", s: gsch{*schemas[r.Intn(2)], r.Intn(4)}})
				case k < 7:
					chs = append(chs, gch{k: "+t", t: pickTab()})
				case k < 10:
					chs = append(chs, gch{k: "-t", t: pickTab()})
				case k < 17:
					var cs []gtch
					for q := 1 + r.Intn(3); q > 0; q-- {
						switch j := r.Intn(10); {
						case j < 3:
							cs = append(cs, gtch{k: "+c", c: rng.Pick(r, colsU)})
						case j < 7:
							cs = append(cs, gtch{k: "-c", c: rng.Pick(r, colsU)})
						case j < 8:
							cs = append(cs, gtch{k: "rc", c: rng.Pick(r, colsU), c2: rng.Pick(r, colsU)})
						default:
							cs = append(cs, gtch{k: "oc", kind: r.Intn(7), n: rng.Pick(r, colsU).name})
						}
					}
					chs = append(chs, gch{k: "~t", t: pickTab(), cs: cs})
				case k < 18:
					t1 := pickTab()
					t2 := t1
					t2.name = rng.Pick(r, tabs)
					chs = append(chs, gch{k: "rt", t: t1, t2: t2})
				default:
					chs = append(chs, gch{k: "o", kind: r.Intn(4)})
				}
			}
			stmts = append(stmts, chs)
		}
		if r.Chance(1, 4) {
			add("R", false, []gblock{{"destructive", []gattr{{"error", r.Bool()}}}}, stmts)
		} else {
			add("R", true, nil, stmts)
		}
	}
	// seeded random VALID histories: a walk on a concrete catalogue (two schemas with tables and columns, a third
	// schema absent), so that every case is judged by the oracle
	nWalk := 1200
	if tier == "thorough" {
		nWalk = 20000
	}
	for i := 0; i < nWalk; i++ {
		type wt struct{ cols []string }
		cat := map[string]map[string]*wt{
			"s1": {"t": {cols: []string{"a", "b"}}, "u": {cols: []string{"a"}}},
			"s2": {"t": {cols: []string{"a", "g"}}},
		}
		names := []string{"s1", "s2", "s3"}
		tnames := []string{"t", "u", "v"}
		cnames := []string{"a", "b", "c", "g"}
		mkT := func(sn, tn string) gtab {
			sn2 := sn
			g := gtab{schema: &sn2, name: tn}
			if w := cat[sn][tn]; w != nil {
				for _, c := range w.cols {
					col := gcol{name: c}
					if c == "g" {
						col.gen = &v
					}
					g.cols = append(g.cols, col)
				}
			}
			return g
		}
		has := func(l []string, x string) bool {
			for _, y := range l {
				if y == x {
					return true
				}
			}
			return false
		}
		var stmts [][]gch
		for n := 2 + r.Intn(6); n > 0; n-- {
			sn := rng.Pick(r, names)
			tn := rng.Pick(r, tnames)
			cn := rng.Pick(r, cnames)
			sc := cat[sn]
			switch k := r.Intn(12); {
			case k == 0:
				if sc == nil {
					cat[sn] = map[string]*wt{}
					stmts = append(stmts, []gch{{k: "+s", s: gsch{sn, 0}}})
				}
			case k == 1:
				if sc != nil {
					var chs []gch
					if r.Bool() { // PostgreSQL style: the tables first
						for _, x := range tnames {
							if sc[x] != nil {
								chs = append(chs, gch{k: "-t", t: mkT(sn, x)})
								delete(sc, x)
							}
						}
					}
					chs = append(chs, gch{k: "-s", s: gsch{sn, len(sc)}})
					delete(cat, sn)
					stmts = append(stmts, chs)
				}
			case k < 4:
				if sc != nil && sc[tn] == nil {
					w := &wt{cols: []string{"a"}}
					if r.Bool() {
						w.cols = append(w.cols, cn)
						if cn == "a" {
							w.cols = w.cols[:1]
						}
					}
					sc[tn] = w
					stmts = append(stmts, []gch{{k: "+t", t: mkT(sn, tn)}})
				}
			case k < 6:
				if sc != nil && sc[tn] != nil {
					g := mkT(sn, tn)
					delete(sc, tn)
					stmts = append(stmts, []gch{{k: "-t", t: g}})
				}
			case k < 8:
				if sc != nil && sc[tn] != nil && !has(sc[tn].cols, cn) {
					g := mkT(sn, tn)
					sc[tn].cols = append(sc[tn].cols, cn)
					col := gcol{name: cn}
					if cn == "g" {
						col.gen = &v
					}
					stmts = append(stmts, []gch{{k: "~t", t: g, cs: []gtch{{k: "+c", c: col}}}})
				}
			case k < 10:
				if sc != nil && sc[tn] != nil && len(sc[tn].cols) > 1 {
					g := mkT(sn, tn)
					var cs []gtch
					for q := 1 + r.Intn(2); q > 0 && len(sc[tn].cols) > 1; q-- {
						j := r.Intn(len(sc[tn].cols))
						c := sc[tn].cols[j]
						sc[tn].cols = append(append([]string{}, sc[tn].cols[:j]...), sc[tn].cols[j+1:]...)
						col := gcol{name: c}
						if c == "g" {
							col.gen = &v
						}
						cs = append(cs, gtch{k: "-c", c: col})
					}
					stmts = append(stmts, []gch{{k: "~t", t: g, cs: cs}})
				}
			case k == 10:
				to := rng.Pick(r, tnames)
				if sc != nil && sc[tn] != nil && sc[to] == nil {
					g1 := mkT(sn, tn)
					sc[to] = sc[tn]
					delete(sc, tn)
					stmts = append(stmts, []gch{{k: "rt", t: g1, t2: mkT(sn, to)}})
				}
			default:
				to := rng.Pick(r, cnames)
				if sc != nil && sc[tn] != nil && has(sc[tn].cols, cn) && !has(sc[tn].cols, to) && cn != "g" && to != "g" {
					g := mkT(sn, tn)
					for j, c := range sc[tn].cols {
						if c == cn {
							sc[tn].cols[j] = to
						}
					}
					stmts = append(stmts, []gch{{k: "~t", t: g, cs: []gtch{{k: "rc", c: gcol{name: cn}, c2: gcol{name: to}}}}})
				}
			}
		}
		if len(stmts) > 0 {
			add("W", true, nil, stmts)
		}
	}
	return cases
}

func mainGeneric(w *out.W, tier string) {
	cases := genGeneric(tier)
	w.Exhaust = true
	w.Rule = "non-trivial = destructive.Analyze returns a diagnostic or panics, or the change list holds a Drop change; key = case line"
	for _, c := range cases {
		o := runGeneric(c)
		line := c.line()
		obs := o.obs()
		w.Case(c.id, line, []string{obs})
		w.Count("label/" + c.label)
		switch {
		case o.panicked:
			w.Count("outcome/panic")
			w.NonTrivial(line)
		case len(o.diags) > 0:
			w.Count("outcome/diagnostics")
			w.NonTrivial(line)
		default:
			w.Count("outcome/clean")
			if strings.Contains(line, " -s ") || strings.Contains(line, " -t ") || strings.Contains(line, " -c ") {
				w.NonTrivial(line)
			}
		}
		codes := map[string]bool{}
		for _, d := range o.diags {
			codes[d.code] = true
		}
		var cs []string
		for k := range codes {
			cs = append(cs, k)
		}
		sort.Strings(cs)
		for _, k := range cs {
			w.Count("code/" + k)
		}
		oracleGeneric(w, c, &o)
	}
}
