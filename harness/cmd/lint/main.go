// Command lint is the C18 harness: it generates migration directories (random
// schema evolutions written as SQLite SQL in several styles, and exhaustive
// short files over small statement alphabets), runs the real CLI
// `atlas migrate lint --latest N --format '{{ json . }}'` on them, records the
// destructive diagnostics and the exit status, and evaluates the property from
// the generator's own ground truth (sim.go).
package main

import (
	"encoding/json"
	"flag"
	"fmt"
	"os"
	"path/filepath"
	"regexp"
	"runtime"
	"sort"
	"strings"
	"sync"
	"time"

	"verifharness/internal/clirun"
	"verifharness/internal/out"
)

type pst struct {
	pos, line int
	s         stmt
	comments  []string // stage nl: the comment group the scanner hands to the statement
}

type mfile struct {
	id    int
	name  string
	ckpt  bool
	stmts []pst
	text  string
	hdr   []string // stage nl: header comment lines (trimmed)
}

type mdir struct {
	files []mfile
	label string
}

type tcase struct {
	id     string
	label  string
	dir    *mdir
	dirKey string
	latest int
	nl     *nlCase // stage nl only
}

// buildFile renders the statements; style bits vary the layout (comments, blank
// lines, multi-line CREATE) so that byte offsets, statement indexes and lines differ.
func buildFile(id int, ckpt bool, ss []stmt, style int) mfile {
	var b strings.Builder
	f := mfile{id: id, name: fmt.Sprintf("%02d_f.sql", id), ckpt: ckpt}
	if ckpt {
		b.WriteString("-- atlas:checkpoint\n\n")
	} else if style&1 == 1 {
		b.WriteString("-- migration file\n\n")
	}
	for k, s := range ss {
		if style&2 == 2 && k%2 == 1 {
			b.WriteString("\n")
		}
		if style&4 == 4 && k%3 == 0 {
			fmt.Fprintf(&b, "-- step %d\n", k)
		}
		if style&8 == 8 {
			s.multi = true
		}
		text := b.String()
		f.stmts = append(f.stmts, pst{pos: len(text), line: strings.Count(text, "\n") + 1, s: s})
		b.WriteString(layout(s.sql(), style, k))
		b.WriteString(";\n")
	}
	f.text = b.String()
	return f
}

// layout varies the white space and the letter case of a statement's keywords without changing its meaning:
// SQL is free-form, so `DROP\n  TABLE t`, `DROP\tTABLE t` and `drop table t` are the statement `DROP TABLE t`.
func layout(sql string, style, k int) string {
	if style&16 == 0 {
		return sql
	}
	i := strings.IndexByte(sql, ' ')
	if i < 0 {
		return sql
	}
	switch (style>>5 + k) % 4 {
	case 0:
		return sql[:i] + "\n  " + sql[i+1:]
	case 1:
		return sql[:i] + "\t" + sql[i+1:]
	case 2:
		j := strings.IndexByte(sql[i+1:], ' ')
		if j < 0 {
			return strings.ToLower(sql[:i]) + sql[i:]
		}
		return strings.ToLower(sql[:i+1+j]) + sql[i+1+j:]
	}
	return sql[:i] + "  " + sql[i+1:]
}

func (c *tcase) line() string {
	var b strings.Builder
	fmt.Fprintf(&b, "%d %d", c.latest, len(c.dir.files))
	for _, f := range c.dir.files {
		fmt.Fprintf(&b, " %d %d %d", f.id, b01(f.ckpt), len(f.stmts))
		for _, p := range f.stmts {
			fmt.Fprintf(&b, " %d %s", p.pos, p.s.tokens())
		}
	}
	if c.nl != nil {
		b.WriteString(nlLine(c.dir))
	}
	return b.String()
}

// ---------------------------------------------------------------- real CLI

type diagObs struct {
	code  string
	pos   int
	names []string
}

type fileObs struct {
	id    int
	diags []diagObs
	err   bool // FileReport.Error mentions the destructive analyzer
}

type result struct {
	exit    int
	loadErr int // file id of the replay error, 0 if none
	files   []fileObs
	obs     string
	err     error
}

var quoted = regexp.MustCompile(`"([^"]*)"`)

type jsonReport struct {
	Steps []struct {
		Name  string
		Error string
	}
	Files []struct {
		Name    string
		Error   string
		Reports []struct {
			Text        string
			Diagnostics []struct {
				Pos  int
				Text string
				Code string
			}
		}
	}
}

func fileID(name string) int {
	var id int
	fmt.Sscanf(name, "%d_", &id)
	return id
}

func runLint(dirPath string, latest int, work string) (r result) {
	os.MkdirAll(work, 0o755)
	defer os.RemoveAll(work)
	return runLintArgs(work, "migrate", "lint", "--dir", "file://"+dirPath,
		"--dev-url", "sqlite://dev?mode=memory", "--latest", fmt.Sprint(latest), "--format", "{{ json . }}")
}

// runLintArgs runs the CLI with the given arguments in work and reads the JSON report.
func runLintArgs(work string, args ...string) (r result) {
	var res clirun.Result
	for attempt := 0; attempt < 4; attempt++ {
		res = clirun.Run(work, nil, args...)
		if res.Exit != -1 {
			break
		}
		// the process could not be started or was killed (machine overload): not an observation of atlas
		time.Sleep(time.Duration(200*(attempt+1)) * time.Millisecond)
	}
	r.exit = res.Exit
	// the two refusals of migrateLintRun's detector switch (stage env)
	switch {
	case res.Exit != 0 && strings.Contains(res.Stderr, "--latest or --git-base is required"):
		r.obs = fmt.Sprintf("exit=%d err=required", r.exit)
		return
	case res.Exit != 0 && strings.Contains(res.Stderr, "--latest and --git-base are mutually exclusive"):
		r.obs = fmt.Sprintf("exit=%d err=exclusive", r.exit)
		return
	}
	var rep jsonReport
	if err := json.Unmarshal([]byte(res.Stdout), &rep); err != nil {
		r.err = fmt.Errorf("no JSON report (exit %d): %s | %s", res.Exit, trunc(res.Stdout, 200), trunc(res.Stderr, 300))
		return
	}
	for _, s := range rep.Steps {
		if s.Name == "Replay Migration Files" && s.Error != "" {
			for _, f := range rep.Files {
				if f.Error != "" {
					r.loadErr = fileID(f.Name)
				}
			}
			if r.loadErr == 0 {
				r.err = fmt.Errorf("replay error without file: %s", s.Error)
				return
			}
			r.obs = fmt.Sprintf("exit=%d loaderr=%d", r.exit, r.loadErr)
			return
		}
		if s.Error != "" && !strings.HasPrefix(s.Name, "Analyze ") {
			r.err = fmt.Errorf("step %q failed: %s", s.Name, s.Error)
			return
		}
	}
	var parts []string
	for _, f := range rep.Files {
		fo := fileObs{id: fileID(f.Name), err: strings.Contains(f.Error, "destructive changes detected")}
		for _, rp := range f.Reports {
			for _, d := range rp.Diagnostics {
				if !strings.HasPrefix(d.Code, "DS") {
					continue
				}
				do := diagObs{code: d.Code, pos: d.Pos}
				for _, m := range quoted.FindAllStringSubmatch(d.Text, -1) {
					do.names = append(do.names, m[1])
				}
				fo.diags = append(fo.diags, do)
			}
		}
		r.files = append(r.files, fo)
		ds := make([]string, len(fo.diags))
		for i, d := range fo.diags {
			ds[i] = fmt.Sprintf("%s@%d(%s)", d.code, d.pos, strings.Join(d.names, ","))
		}
		parts = append(parts, fmt.Sprintf("%d:[%s]", fo.id, strings.Join(ds, ";")))
	}
	r.obs = strings.TrimSpace(fmt.Sprintf("exit=%d %s", r.exit, strings.Join(parts, " ")))
	return
}

func trunc(s string, n int) string {
	if len(s) > n {
		return s[:n] + "…"
	}
	return s
}

// ---------------------------------------------------------------- ground truth + oracle

type window struct{ i int; x string } // statements i..i+3: ct new_x ; copy (no schema change) ; dt x ; rt new_x -> x

// windows finds, greedily from the left (as the pre-pass walks), the 4-statement groups that are the
// documented rebuild idiom: CREATE new_x, a statement that leaves the catalogue unchanged, DROP x,
// RENAME new_x TO x.  st[j] is the catalogue before statement j.
func windows(ss []pst, st []state) []window {
	var ws []window
	for i := 0; i+3 < len(ss); i++ {
		a, c, d := ss[i].s, ss[i+2].s, ss[i+3].s
		if a.k == "ct" && strings.HasPrefix(a.t, "new_") {
			x := strings.TrimPrefix(a.t, "new_")
			if c.k == "dt" && c.t == x && d.k == "rt" && d.t == a.t && d.u == x && sameCatalogue(st[i+1], st[i+2]) {
				ws = append(ws, window{i, x})
				i += 3
			}
		}
	}
	return ws
}

type truth struct {
	ok     bool    // every statement executes
	states []state // states[j] = catalogue before statement j; states[n] = after the file
}

func replay(pre state, f *mfile) truth {
	t := truth{ok: true, states: []state{pre}}
	cur := pre
	for _, p := range f.stmts {
		n, ok := cur.apply(p.s)
		if !ok {
			t.ok = false
			return t
		}
		cur = n
		t.states = append(t.states, cur)
	}
	return t
}

func colNames(t stab, realOnly bool) []string {
	var out []string
	for _, c := range t.cols {
		if !realOnly || !c.virt {
			out = append(out, c.name)
		}
	}
	return out
}

func contains(l []string, s string) bool {
	for _, x := range l {
		if x == s {
			return true
		}
	}
	return false
}

// oracle evaluates the property text on the CLI observation of one case.
func oracle(w *out.W, c *tcase, r *result) {
	files := c.dir.files
	n := c.latest
	if n > len(files) {
		n = len(files)
	}
	featStart := len(files) - n
	// Ground truth: checkpoint files carry no change of their own, except a checkpoint that
	// opens the directory (it establishes the state).
	cur := state{}
	type fileTruth struct {
		f   *mfile
		pre state
		t   truth
	}
	var fts []fileTruth
	valid := true
	for i := range files {
		f := &files[i]
		if f.ckpt && i > 0 {
			fts = append(fts, fileTruth{f: f, pre: cur, t: truth{ok: true}})
			continue
		}
		t := replay(cur, f)
		fts = append(fts, fileTruth{f: f, pre: cur, t: t})
		if !t.ok {
			valid = false
			break
		}
		cur = t.states[len(t.states)-1]
	}
	if r.loadErr != 0 {
		w.Count("oracle/load-error")
		if r.exit == 0 {
			w.Violation(c.id, "exit-status", fmt.Sprintf("replay error in file %d but exit status 0", r.loadErr))
		}
		return
	}
	if !valid {
		// the tie decides whether a load error was due; nothing to say about diagnostics.
		w.Count("oracle/invalid-sql-no-loaderr")
		return
	}
	obs := map[int]*fileObs{}
	for i := range r.files {
		obs[r.files[i].id] = &r.files[i]
	}
	anyRequired, anyDiag := false, false
	for k := featStart; k < len(files); k++ {
		ft := fts[k]
		f := ft.f
		fo := obs[f.id]
		if fo == nil {
			w.Violation(c.id, "missing-file-report", fmt.Sprintf("file %s has no report", f.name))
			continue
		}
		if len(fo.diags) > 0 {
			anyDiag = true
		}
		posOK := map[int]bool{0: k == featStart && featStart == 0}
		for _, p := range f.stmts {
			posOK[p.pos] = true
		}
		for _, d := range fo.diags {
			if !posOK[d.pos] {
				w.Violation(c.id, "position", fmt.Sprintf("file %s: %s at byte %d is not the start of a statement", f.name, d.code, d.pos))
			}
		}
		if f.ckpt {
			// a checkpoint file only adds objects (on the clean database)
			if len(fo.diags) > 0 || fo.err {
				w.Violation(c.id, "sound-false-positive", fmt.Sprintf("file %s (checkpoint) got %v tags=[]", f.name, fo.diags))
			}
			continue
		}
		st := ft.t.states
		nst := len(f.stmts)
		pre, post := st[0], st[nst]
		ws := windows(f.stmts, st)
		winOf := func(j int) *window {
			for a := range ws {
				if ws[a].i <= j && j <= ws[a].i+3 {
					return &ws[a]
				}
			}
			return nil
		}
		accept := func(j int) map[int]bool {
			m := map[int]bool{f.stmts[j].pos: true}
			if wd := winOf(j); wd != nil {
				m[f.stmts[wd.i].pos] = true
			}
			if k == featStart && featStart == 0 && nst > 10 {
				m[0] = true
			}
			return m
		}
		hasDiag := func(code, name string, at map[int]bool) bool {
			for _, d := range fo.diags {
				if d.code == code && contains(d.names, name) && at[d.pos] {
					return true
				}
			}
			return false
		}
		// the only known cause of a missed drop: the same name is removed more than once in the file
		tagsFor := func(removals int) string {
			if removals >= 2 {
				return "readded"
			}
			return ""
		}
		// logical steps: a statement, or a whole rebuild group
		type unit struct{ lo, hi int }
		var units []unit
		for j := 0; j < nst; j++ {
			if wd := winOf(j); wd != nil && wd.i == j {
				units = append(units, unit{j, j + 3})
				j += 3
				continue
			}
			units = append(units, unit{j, j})
		}
		unitPos := func(u unit) map[int]bool {
			m := map[int]bool{}
			for j := u.lo; j <= u.hi; j++ {
				m[f.stmts[j].pos] = true
			}
			if k == featStart && featStart == 0 && nst > 10 {
				m[0] = true
			}
			return m
		}
		sql := func() string {
			var q []string
			for _, p := range f.stmts {
				q = append(q, p.s.sql())
			}
			return trunc(strings.ReplaceAll(strings.Join(q, "; "), "\n", " "), 700)
		}
		// every diagnostic sits on a statement that removes the object it names ("on the statement that causes it")
		for _, d := range fo.diags {
			okPos := false
			for j := 0; j < nst && !okPos; j++ {
				if !accept(j)[d.pos] {
					continue
				}
				for _, t := range st[j] {
					b := st[j+1].find(t.name)
					if d.code == "DS102" && b < 0 && contains(d.names, t.name) {
						okPos = true
					}
					if d.code == "DS103" {
						for _, cn := range colNames(t, false) {
							if contains(d.names, cn) && (b < 0 || st[j+1][b].col(cn) < 0) {
								okPos = true
							}
						}
					}
				}
			}
			if !okPos {
				w.Violation(c.id, "spurious-diagnostic", fmt.Sprintf("file %s: %v is not on a statement that removes what it names; sql: %s", f.name, d, sql()))
			}
		}
		required := false
		_ = post
		// completeness: the FIRST step that removes a table name present since before the file must carry DS102
		// (the name may come back later in the file: the data is gone all the same)
		for _, t := range pre {
			first, removals := -1, 0
			for ui, u := range units {
				if st[u.lo].find(t.name) >= 0 && st[u.hi+1].find(t.name) < 0 {
					removals++
					if first < 0 {
						first = ui
					}
				}
			}
			if first < 0 {
				continue
			}
			required = true
			if !hasDiag("DS102", t.name, unitPos(units[first])) {
				w.Violation(c.id, "complete-table", fmt.Sprintf("file %s: statement %d drops table %s, which existed before the file, and carries no DS102; got %v tags=[%s] sql: %s",
					f.name, units[first].lo+1, t.name, fo.diags, tagsFor(removals), sql()))
			}
		}
		// ... and the first step that removes a column present since before the file (non-virtual when dropped)
		// must carry DS103 naming it, or DS102 naming its table when the whole table goes
		for _, t := range pre {
			for _, c0 := range t.cols {
				cn := c0.name
				present := func(s state) (bool, bool) { // column present, virtual
					a := s.find(t.name)
					if a < 0 {
						return false, false
					}
					ci := s[a].col(cn)
					if ci < 0 {
						return false, false
					}
					return true, s[a].cols[ci].virt
				}
				first, removals := -1, 0
				for ui, u := range units {
					pb, _ := present(st[u.lo])
					pa, _ := present(st[u.hi+1])
					if pb && !pa {
						removals++
						if first < 0 {
							first = ui
						}
					}
				}
				if first < 0 {
					continue
				}
				u := units[first]
				if _, virt := present(st[u.lo]); virt {
					continue
				}
				required = true
				ok := false
				if st[u.hi+1].find(t.name) < 0 {
					ok = hasDiag("DS102", t.name, unitPos(u))
					// the expected diagnostic is the table's: the cause tag is about the table name
					removals = 0
					for _, u2 := range units {
						if st[u2.lo].find(t.name) >= 0 && st[u2.hi+1].find(t.name) < 0 {
							removals++
						}
					}
				} else {
					ok = hasDiag("DS103", cn, unitPos(u))
				}
				if !ok {
					w.Violation(c.id, "complete-column", fmt.Sprintf("file %s: statement %d drops column %s.%s, which existed before the file, and carries no DS103 (DS102 if the table goes); got %v tags=[%s] sql: %s",
						f.name, u.lo+1, t.name, cn, fo.diags, tagsFor(removals), sql()))
				}
			}
		}
		if required {
			anyRequired = true
			w.Count("oracle/file-destructive")
		}
		if len(fo.diags) > 0 && !fo.err {
			w.Violation(c.id, "exit-status", fmt.Sprintf("file %s has destructive diagnostics %v but its report carries no error", f.name, fo.diags))
		}
		if len(fo.diags) == 0 && fo.err {
			w.Violation(c.id, "exit-status", fmt.Sprintf("file %s has no destructive diagnostic but carries the destructive error", f.name))
		}
		// soundness: the file never removes a name that existed before it
		sound := true
		for j := 0; j < nst && sound; j++ {
			for _, t := range st[j] {
				b := st[j+1].find(t.name)
				pa := pre.find(t.name)
				if b < 0 {
					if pa >= 0 {
						sound = false
					}
					continue
				}
				if pa < 0 {
					continue
				}
				for _, cn := range colNames(t, false) {
					if st[j+1][b].col(cn) < 0 && pre[pa].col(cn) >= 0 {
						sound = false
					}
				}
			}
		}
		if sound {
			w.Count("oracle/file-sound-class")
			for _, d := range fo.diags {
				w.Violation(c.id, "sound-false-positive", fmt.Sprintf("file %s only adds objects / drops objects it created, but got %v tags=[%s] sql: %s",
					f.name, d, strings.Join(diagTags(st, ws, nst, d), ","), sql()))
			}
		}
	}
	_ = anyRequired
	if anyDiag && r.exit == 0 {
		w.Violation(c.id, "exit-status", "destructive diagnostics reported but the exit status is 0")
	}
	if !anyDiag && r.exit != 0 {
		w.Violation(c.id, "exit-status", fmt.Sprintf("no destructive diagnostic and no replay error, but exit status %d", r.exit))
	}
}

// diagTags: causes, from the ground truth alone, that are known to make the analyzer flag the
// in-file object named by d: its name is created twice in the file ("recreated"), or it is created
// in the copy slot (second statement) of a rebuild group ("hidden").
func diagTags(st []state, ws []window, nst int, d diagObs) []string {
	var tags []string
	added := map[string][]int{}
	for j := 0; j < nst; j++ {
		for _, t := range st[j+1] {
			a := st[j].find(t.name)
			for _, c := range t.cols {
				if a < 0 || st[j][a].col(c.name) < 0 {
					added["c:"+c.name] = append(added["c:"+c.name], j)
				}
			}
			if a < 0 {
				added["t:"+t.name] = append(added["t:"+t.name], j)
			}
		}
	}
	pfx := "t:"
	if d.code == "DS103" {
		pfx = "c:"
	}
	for _, n := range d.names {
		js := added[pfx+n]
		if len(js) >= 2 {
			tags = append(tags, "recreated")
		}
		_ = js
	}
	sort.Strings(tags)
	return uniq(tags)
}

func sameCatalogue(a, b state) bool { return fmt.Sprint(a) == fmt.Sprint(b) }

func uniq(l []string) []string {
	var out []string
	for i, s := range l {
		if i == 0 || l[i-1] != s {
			out = append(out, s)
		}
	}
	return out
}

// ---------------------------------------------------------------- main

func main() {
	mode := flag.String("mode", "rand", "rand|exh|nl|gen|env")
	tier := flag.String("tier", "quick", "quick|thorough")
	outDir := flag.String("out", "", "output directory")
	flag.Parse()
	if *outDir == "" {
		fmt.Fprintln(os.Stderr, "missing -out")
		os.Exit(2)
	}
	w := out.New(*outDir)
	defer w.Close()
	if *mode == "gen" { // in-process stage: no CLI, no database (generic.go)
		mainGeneric(w, *tier)
		return
	}
	if *mode == "env" { // project file + explicit flags (envflags.go)
		if !mainEnv(w, *tier) {
			w.Close()
			os.Exit(1)
		}
		return
	}
	tmpRoot := os.Getenv("TMPDIR")
	if tmpRoot == "" {
		tmpRoot = os.TempDir()
	}
	tmpRoot, _ = os.MkdirTemp(tmpRoot, "c18-")
	defer os.RemoveAll(tmpRoot)
	if _, err := os.Stat(clirun.Bin()); err != nil {
		fmt.Fprintln(os.Stderr, "ATLAS_BIN not found:", clirun.Bin())
		os.Exit(2)
	}
	var cases []*tcase
	switch *mode {
	case "rand":
		cases = genRand(*tier)
	case "exh":
		cases = genExh(*tier)
		w.Exhaust = true
	case "nl":
		cases = genNolint(*tier)
		w.Exhaust = true
	default:
		fmt.Fprintln(os.Stderr, "unknown mode")
		os.Exit(2)
	}
	// each directory is written once, by the first case that uses it
	type dirSlot struct {
		once sync.Once
		path string
		err  error
	}
	slots := map[*mdir]*dirSlot{}
	for _, c := range cases {
		if slots[c.dir] == nil {
			slots[c.dir] = &dirSlot{path: filepath.Join(tmpRoot, fmt.Sprintf("d%d", len(slots)+1), "m")}
		}
	}
	dirFor := func(d *mdir) (string, error) {
		sl := slots[d]
		sl.once.Do(func() {
			fm := map[string]string{}
			for _, f := range d.files {
				fm[f.name] = f.text
			}
			sl.err = clirun.WriteDir(sl.path, fm)
		})
		return sl.path, sl.err
	}
	results := make([]result, len(cases))
	var wg sync.WaitGroup
	sem := make(chan struct{}, runtime.NumCPU())
	for i := range cases {
		wg.Add(1)
		sem <- struct{}{}
		go func(i int) {
			defer wg.Done()
			defer func() { <-sem }()
			p, err := dirFor(cases[i].dir)
			if err != nil {
				results[i] = result{err: err}
				return
			}
			results[i] = runLint(p, cases[i].latest, filepath.Join(tmpRoot, "w"+cases[i].id))
		}(i)
	}
	wg.Wait()
	w.Rule = "non-trivial = the CLI reports at least one destructive diagnostic, or a replay error, or the analysed window holds a statement removing a table/column name; key = case line"
	bad := 0
	for i, c := range cases {
		r := &results[i]
		if r.err != nil {
			bad++
			fmt.Fprintf(os.Stderr, "case %s (%s): harness error: %v\n", c.id, c.label, r.err)
			w.Violation(c.id, "harness-error", r.err.Error())
			continue
		}
		line := c.line()
		w.Case(c.id, line, []string{r.obs})
		w.Count("label/" + c.label)
		w.Count(fmt.Sprintf("latest/%d", c.latest))
		w.Count(fmt.Sprintf("exit/%d", r.exit))
		switch {
		case r.loadErr != 0:
			w.Count("outcome/load-error")
			w.NonTrivial(line)
		case strings.Contains(r.obs, "DS10"):
			w.Count("outcome/diagnostics")
			w.NonTrivial(line)
		default:
			w.Count("outcome/clean")
			if strings.Contains(line, " dt ") || strings.Contains(line, " dc ") || strings.Contains(line, " rt ") {
				w.NonTrivial(line)
			}
		}
		if strings.Contains(r.obs, "DS102") {
			w.Count("code/DS102")
		}
		if strings.Contains(r.obs, "DS103") {
			w.Count("code/DS103")
		}
		if c.nl != nil {
			w.Count("shape/" + c.nl.shape)
			oracleNolint(w, c, r)
		} else {
			oracle(w, c, r)
		}
	}
	if bad > 0 {
		w.Close()
		os.Exit(1)
	}
}
