package main

// Abstract SQLite statements, their SQL text, their model tokens, and the
// generator's own catalogue simulator (ground truth for the oracle and for
// producing valid SQL).  The simulator is deliberately independent of atlas.

import (
	"encoding/hex"
	"fmt"
	"strings"
)

type scol struct {
	name string
	virt bool
	sig  int
}

type sidx struct {
	name string
	cols []string
}

type stab struct {
	name string
	cols []scol
	idxs []sidx
}

type state []stab

func (st state) clone() state {
	out := make(state, len(st))
	for i, t := range st {
		nt := stab{name: t.name, cols: append([]scol(nil), t.cols...)}
		for _, ix := range t.idxs {
			nt.idxs = append(nt.idxs, sidx{ix.name, append([]string(nil), ix.cols...)})
		}
		out[i] = nt
	}
	return out
}

func (st state) find(n string) int {
	for i, t := range st {
		if t.name == n {
			return i
		}
	}
	return -1
}

func (t *stab) col(n string) int {
	for i, c := range t.cols {
		if c.name == n {
			return i
		}
	}
	return -1
}

func (st state) hasIdx(n string) bool {
	for _, t := range st {
		for _, ix := range t.idxs {
			if ix.name == n {
				return true
			}
		}
	}
	return false
}

func (st state) names() []string {
	var out []string
	for _, t := range st {
		out = append(out, t.name)
	}
	return out
}

// stmt kinds: ct dt ac dc rt rc ci di is ok bad
type stmt struct {
	k     string
	t, u  string // table, second table (rename target / insert source)
	c, d  string // column, new column name
	i     string // index
	cols  []scol
	col   scol
	names []string
	multi bool // render CREATE TABLE over several lines
}

func hx(s string) string {
	if s == "" {
		return "-"
	}
	return hex.EncodeToString([]byte(s))
}

func b01(b bool) int {
	if b {
		return 1
	}
	return 0
}

func colTok(c scol) string { return fmt.Sprintf("%s %d %d", hx(c.name), b01(c.virt), c.sig) }

func (s stmt) tokens() string {
	switch s.k {
	case "ct":
		var b strings.Builder
		fmt.Fprintf(&b, "ct %s %d", hx(s.t), len(s.cols))
		for _, c := range s.cols {
			b.WriteString(" " + colTok(c))
		}
		return b.String()
	case "dt":
		return "dt " + hx(s.t)
	case "ac":
		return "ac " + hx(s.t) + " " + colTok(s.col)
	case "dc":
		return "dc " + hx(s.t) + " " + hx(s.c)
	case "rt":
		return "rt " + hx(s.t) + " " + hx(s.u)
	case "rc":
		return "rc " + hx(s.t) + " " + hx(s.c) + " " + hx(s.d)
	case "ci":
		var b strings.Builder
		fmt.Fprintf(&b, "ci %s %s %d", hx(s.i), hx(s.t), len(s.names))
		for _, n := range s.names {
			b.WriteString(" " + hx(n))
		}
		return b.String()
	case "di":
		return "di " + hx(s.i)
	case "is":
		return "is " + hx(s.t) + " " + hx(s.u)
	case "ok":
		return "ok"
	case "bad":
		return "bad"
	}
	panic("kind " + s.k)
}

func colSQL(c scol) string {
	if c.virt {
		return fmt.Sprintf("`%s` int GENERATED ALWAYS AS (`id` + 1) VIRTUAL", c.name)
	}
	switch c.sig {
	case 1:
		return fmt.Sprintf("`%s` integer NOT NULL", c.name)
	case 2:
		return fmt.Sprintf("`%s` text NULL", c.name)
	case 3:
		return fmt.Sprintf("`%s` int NULL DEFAULT 7", c.name)
	case 4:
		return fmt.Sprintf("`%s` real NULL", c.name)
	case 5:
		return fmt.Sprintf("`%s` int GENERATED ALWAYS AS (`id` * 2) STORED", c.name)
	}
	panic("sig")
}

func (s stmt) sql() string {
	switch s.k {
	case "ct":
		parts := make([]string, len(s.cols))
		for i, c := range s.cols {
			parts[i] = colSQL(c)
		}
		if s.multi {
			return fmt.Sprintf("CREATE TABLE `%s` (\n  %s\n)", s.t, strings.Join(parts, ",\n  "))
		}
		return fmt.Sprintf("CREATE TABLE `%s` (%s)", s.t, strings.Join(parts, ", "))
	case "dt":
		return fmt.Sprintf("DROP TABLE `%s`", s.t)
	case "ac":
		return fmt.Sprintf("ALTER TABLE `%s` ADD COLUMN %s", s.t, colSQL(s.col))
	case "dc":
		return fmt.Sprintf("ALTER TABLE `%s` DROP COLUMN `%s`", s.t, s.c)
	case "rt":
		return fmt.Sprintf("ALTER TABLE `%s` RENAME TO `%s`", s.t, s.u)
	case "rc":
		return fmt.Sprintf("ALTER TABLE `%s` RENAME COLUMN `%s` TO `%s`", s.t, s.c, s.d)
	case "ci":
		q := make([]string, len(s.names))
		for i, n := range s.names {
			q[i] = "`" + n + "`"
		}
		return fmt.Sprintf("CREATE INDEX `%s` ON `%s` (%s)", s.i, s.t, strings.Join(q, ", "))
	case "di":
		return fmt.Sprintf("DROP INDEX `%s`", s.i)
	case "is":
		return fmt.Sprintf("INSERT INTO `%s` (`id`) SELECT `id` FROM `%s`", s.t, s.u)
	case "ok":
		return "PRAGMA foreign_keys = off"
	case "bad":
		return "INSERT INTO `no_such_table` VALUES (1)"
	}
	panic("kind " + s.k)
}

func dupNames(cs []scol) bool {
	seen := map[string]bool{}
	for _, c := range cs {
		if seen[c.name] {
			return true
		}
		seen[c.name] = true
	}
	return false
}

func hasReal(cs []scol) bool {
	for _, c := range cs {
		if !c.virt {
			return true
		}
	}
	return false
}

// apply returns the catalogue after the statement and whether SQLite accepts it.
func (st state) apply(s stmt) (state, bool) {
	n := st.clone()
	switch s.k {
	case "ct":
		if n.find(s.t) >= 0 || n.hasIdx(s.t) || dupNames(s.cols) || !hasReal(s.cols) {
			return st, false
		}
		return append(n, stab{name: s.t, cols: append([]scol(nil), s.cols...)}), true
	case "dt":
		i := n.find(s.t)
		if i < 0 {
			return st, false
		}
		return append(n[:i], n[i+1:]...), true
	case "ac":
		i := n.find(s.t)
		if i < 0 || n[i].col(s.col.name) >= 0 {
			return st, false
		}
		n[i].cols = append(n[i].cols, s.col)
		return n, true
	case "dc":
		i := n.find(s.t)
		if i < 0 {
			return st, false
		}
		j := n[i].col(s.c)
		if j < 0 {
			return st, false
		}
		for _, ix := range n[i].idxs {
			for _, c := range ix.cols {
				if c == s.c {
					return st, false
				}
			}
		}
		rest := append(append([]scol(nil), n[i].cols[:j]...), n[i].cols[j+1:]...)
		if !hasReal(rest) {
			return st, false
		}
		n[i].cols = rest
		return n, true
	case "rt":
		i := n.find(s.t)
		if i < 0 || n.find(s.u) >= 0 || n.hasIdx(s.u) {
			return st, false
		}
		n[i].name = s.u
		return n, true
	case "rc":
		i := n.find(s.t)
		if i < 0 {
			return st, false
		}
		j := n[i].col(s.c)
		if j < 0 || n[i].col(s.d) >= 0 {
			return st, false
		}
		n[i].cols[j].name = s.d
		for a := range n[i].idxs {
			for b := range n[i].idxs[a].cols {
				if n[i].idxs[a].cols[b] == s.c {
					n[i].idxs[a].cols[b] = s.d
				}
			}
		}
		return n, true
	case "ci":
		i := n.find(s.t)
		if i < 0 || n.hasIdx(s.i) || n.find(s.i) >= 0 {
			return st, false
		}
		for _, c := range s.names {
			if n[i].col(c) < 0 {
				return st, false
			}
		}
		n[i].idxs = append(n[i].idxs, sidx{s.i, append([]string(nil), s.names...)})
		return n, true
	case "di":
		if !n.hasIdx(s.i) {
			return st, false
		}
		for a := range n {
			var keep []sidx
			for _, ix := range n[a].idxs {
				if ix.name != s.i {
					keep = append(keep, ix)
				}
			}
			n[a].idxs = keep
		}
		return n, true
	case "is":
		if n.find(s.t) < 0 || n.find(s.u) < 0 {
			return st, false
		}
		return n, true
	case "ok":
		return n, true
	case "bad":
		return st, false
	}
	panic("kind " + s.k)
}
