package main

// Stage "nl" (round 3): `atlas:nolint` directives.  Every case is a two-file directory: file 1 creates
// tables t(id,a,b) and u(id,a); file 2 (the analysed one, --latest 1) is one of five small shapes
// (DROP TABLE, DROP COLUMN, the rebuild idiom omitting a column, two destructive statements, purely
// additive) carrying nolint directives in every placement x argument list x spelling.  The real CLI is
// run on it; the oracle judges, from what the generator wrote (not from atlas), whether every destructive
// statement that no applicable directive covers is still reported, and whether a covered one is silenced.

import (
	"fmt"
	"sort"
	"strings"

	"verifharness/internal/out"
	"verifharness/internal/rng"
)

// nlDirective is one comment as the generator wrote it.
type nlDirective struct {
	words     []string // names after atlas:nolint; empty = bare
	spell     int
	place     string // stmt | hdr | prevtrail (same line, after the `;` of the statement it is attached to)
	at        int    // statement index it is written for (stmt, prevtrail); -1 for hdr
	lookalike string // non-empty: not a directive at all (text to write), must not silence anything
}

// covers: the user's reading of the directive, from the documented forms: a bare directive silences
// everything, a class name silences the class, a code silences exactly that code.
func (d nlDirective) covers(code string) bool {
	if d.lookalike != "" {
		return false
	}
	return len(d.words) == 0 || contains(d.words, "destructive") || contains(d.words, code)
}

const (
	spPlain = iota
	spTrailingBlank
	spTwoBlanks
	spTabs
	spBlankTab
	spBlock
	spBlockTight
	spNoSpace
	spInnerTab
	spNBSP  // a no-break space (U+00A0) where the blank should be
	spColon // `atlas:nolint: names`
	spComma // names separated by a comma
	nSpell
)

// text returns the comment as written in the file (without the newline that ends a line comment).
func (d nlDirective) text() string {
	if d.lookalike != "" {
		return d.lookalike
	}
	args := func(first, sep string) string {
		if len(d.words) == 0 {
			return ""
		}
		return first + strings.Join(d.words, sep)
	}
	switch d.spell {
	case spPlain:
		return "-- atlas:nolint" + args(" ", " ")
	case spTrailingBlank:
		return "-- atlas:nolint" + args(" ", " ") + " "
	case spTwoBlanks:
		if len(d.words) == 0 {
			return "-- atlas:nolint  "
		}
		return "-- atlas:nolint" + args("  ", "  ")
	case spTabs:
		if len(d.words) == 0 {
			return "-- atlas:nolint\t"
		}
		return "-- atlas:nolint" + args("\t", "\t")
	case spBlankTab:
		return "-- atlas:nolint \t" + args("", " ")
	case spBlock:
		return "/*atlas:nolint" + args(" ", " ") + " */"
	case spBlockTight:
		return "/*atlas:nolint" + args(" ", " ") + "*/"
	case spNoSpace:
		return "--atlas:nolint" + args(" ", " ")
	case spInnerTab:
		if len(d.words) >= 2 {
			return "-- atlas:nolint " + d.words[0] + "\t" + strings.Join(d.words[1:], " ")
		}
		return "-- atlas:nolint" + args(" ", " ") + "\t"
	case spNBSP:
		if len(d.words) == 0 {
			return "-- atlas:nolint\u00a0"
		}
		return "-- atlas:nolint" + args("\u00a0", " ")
	case spColon:
		return "-- atlas:nolint:" + args(" ", " ")
	case spComma:
		return "-- atlas:nolint" + args(" ", ",")
	}
	panic("spell")
}

func (d nlDirective) isBlock() bool {
	return strings.HasPrefix(d.text(), "/*")
}

// sepCause: something other than a blank stands where the documented form has a blank, and names are
// affected by it: "tab", "nonblank" (no-break space, colon, comma), or "".
func (d nlDirective) sepCause() string {
	if d.lookalike != "" || len(d.words) == 0 {
		return ""
	}
	switch {
	case d.spell == spTabs, d.spell == spBlankTab, d.spell == spInnerTab && len(d.words) >= 2:
		return "tab"
	case d.spell == spNBSP, d.spell == spColon, d.spell == spComma && len(d.words) >= 2:
		return "nonblank"
	}
	return ""
}

func (d nlDirective) usesTab() bool { return d.sepCause() != "" }

type nlExpect struct {
	code string
	at   int // statement index the diagnostic belongs to (the CREATE for a rebuild group)
	name string
}

type nlCase struct {
	dirs   []nlDirective
	expect []nlExpect // diagnostics of file 2 without any directive
	shape  string
}

type nlShape struct {
	name   string
	stmts  []stmt
	target int // statement the directive is written for
	next   int // the statement after the target (after the whole group for the rebuild), -1 if none
	expect []nlExpect
}

func nlShapes() []nlShape {
	a := scol{"a", false, 2}
	c := scol{"c", false, 3}
	addC := stmt{k: "ac", t: "u", col: c}
	ctV := stmt{k: "ct", t: "v", cols: []scol{idCol, a}}
	return []nlShape{
		{"droptable", []stmt{addC, {k: "dt", t: "t"}, ctV}, 1, 2, []nlExpect{{"DS102", 1, "t"}}},
		{"dropcolumn", []stmt{addC, {k: "dc", t: "t", c: "b"}, ctV}, 1, 2, []nlExpect{{"DS103", 1, "b"}}},
		{"rebuild", []stmt{addC, {k: "ct", t: "new_t", cols: []scol{idCol, a}}, {k: "is", t: "new_t", u: "t"}, {k: "dt", t: "t"},
			{k: "rt", t: "new_t", u: "t"}, ctV}, 1, 5, []nlExpect{{"DS103", 1, "b"}}},
		{"two", []stmt{{k: "dt", t: "t"}, {k: "dc", t: "u", c: "a"}}, 0, 1, []nlExpect{{"DS102", 0, "t"}, {"DS103", 1, "a"}}},
		{"additive", []stmt{addC, ctV}, 1, -1, nil},
	}
}

// buildNolintFile writes file 2.  Header directives form the leading comment group (ended by a blank
// line); a statement's directives are the comment lines directly above it; a `prevtrail` directive is
// written on the line of its statement, after the `;`.
// What the statement scanner hands to the analysis is recorded next to it (mfile.hdr, pst.comments):
// a comment group directly before a statement belongs to that statement, so a trailing comment is
// handed to the *following* statement.
func buildNolintFile(id int, ss []stmt, dirs []nlDirective) mfile {
	var b strings.Builder
	f := mfile{id: id, name: fmt.Sprintf("%02d_f.sql", id)}
	hasHdr := false
	for _, d := range dirs {
		if d.place == "hdr" {
			b.WriteString(d.text() + "\n")
			f.hdr = append(f.hdr, strings.TrimSpace(d.text()))
			hasHdr = true
		}
	}
	if hasHdr {
		b.WriteString("\n")
	}
	var carry []string // trailing comment of the previous line
	for k, s := range ss {
		comments := carry
		carry = nil
		for _, d := range dirs {
			if d.place == "stmt" && d.at == k {
				b.WriteString(d.text() + "\n")
				if d.isBlock() {
					comments = append(comments, d.text())
				} else {
					comments = append(comments, d.text()+"\n")
				}
			}
		}
		text := b.String()
		f.stmts = append(f.stmts, pst{pos: len(text), line: strings.Count(text, "\n") + 1, s: s, comments: comments})
		b.WriteString(s.sql())
		b.WriteString(";")
		for _, d := range dirs {
			if d.place == "prevtrail" && d.at == k {
				b.WriteString(" " + d.text())
				carry = append(carry, d.text()+"\n")
			}
		}
		b.WriteString("\n")
	}
	f.text = b.String()
	return f
}

// nlLine: the directive part of the case line (after the directory): per file with comments, its id, the
// header comment lines and, per statement position, the comments handed to the statement (hex).
func nlLine(d *mdir) string {
	var b strings.Builder
	var fs []*mfile
	for i := range d.files {
		f := &d.files[i]
		n := len(f.hdr)
		for _, p := range f.stmts {
			n += len(p.comments)
		}
		if n > 0 {
			fs = append(fs, f)
		}
	}
	fmt.Fprintf(&b, " nl %d", len(fs))
	for _, f := range fs {
		fmt.Fprintf(&b, " %d %d", f.id, len(f.hdr))
		for _, h := range f.hdr {
			b.WriteString(" " + hx(h))
		}
		k := 0
		for _, p := range f.stmts {
			if len(p.comments) > 0 {
				k++
			}
		}
		fmt.Fprintf(&b, " %d", k)
		for _, p := range f.stmts {
			if len(p.comments) == 0 {
				continue
			}
			fmt.Fprintf(&b, " %d %d", p.pos, len(p.comments))
			for _, c := range p.comments {
				b.WriteString(" " + hx(c))
			}
		}
	}
	return b.String()
}

var nlArgs = [][]string{
	nil,
	{"destructive"},
	{"DS102"},
	{"DS103"},
	{"DS1"},
	{"DS101"},
	{"incompatible"},
	{"BC102"},
	{"naming"},
	{"incompatible", "naming"},
	{"incompatible", "DS102"},
	{"DS102", "DS103"},
	{"naming", "destructive"},
	{"destructive", "incompatible"},
}

func genNolint(tier string) []*tcase {
	a := scol{"a", false, 2}
	bcol := scol{"b", false, 3}
	init := []stmt{
		{k: "ct", t: "t", cols: []scol{idCol, a, bcol}},
		{k: "ct", t: "u", cols: []scol{idCol, a}},
	}
	f1 := buildFile(1, false, init, 0)
	var cases []*tcase
	n := 0
	add := func(label string, sh nlShape, dirs []nlDirective) {
		n++
		d := &mdir{files: []mfile{f1, buildNolintFile(2, sh.stmts, dirs)}, label: label}
		cases = append(cases, &tcase{id: fmt.Sprintf("%s%d", label, n), label: label, dir: d, latest: 1,
			nl: &nlCase{dirs: dirs, expect: sh.expect, shape: sh.name}})
	}
	shapes := nlShapes()
	for _, sh := range shapes {
		// no directive at all
		add("nlNone", sh, nil)
		for _, ws := range nlArgs {
			// on the statement: every spelling
			for sp := 0; sp < nSpell; sp++ {
				if (sp == spInnerTab || sp == spComma) && len(ws) == 0 {
					continue
				}
				add("nlStmt", sh, []nlDirective{{words: ws, spell: sp, place: "stmt", at: sh.target}})
			}
			// file header: line comments only, the header lines are trimmed
			for _, sp := range []int{spPlain, spTwoBlanks, spTabs, spNoSpace, spInnerTab, spNBSP, spColon} {
				if sp == spInnerTab && len(ws) < 2 {
					continue
				}
				add("nlHdr", sh, []nlDirective{{words: ws, spell: sp, place: "hdr", at: -1}})
			}
			// on the previous / next statement, and trailing on the previous statement's line
			for _, sp := range []int{spPlain, spTabs} {
				if sh.target > 0 {
					add("nlPrev", sh, []nlDirective{{words: ws, spell: sp, place: "stmt", at: sh.target - 1}})
				}
				if sh.next >= 0 {
					add("nlNext", sh, []nlDirective{{words: ws, spell: sp, place: "stmt", at: sh.next}})
				}
			}
			if sh.target > 0 {
				add("nlTrail", sh, []nlDirective{{words: ws, spell: spPlain, place: "prevtrail", at: sh.target - 1}})
			}
			add("nlTrail", sh, []nlDirective{{words: ws, spell: spPlain, place: "prevtrail", at: sh.target}})
		}
		// several directives for one statement: two on the statement, header + statement, two header lines
		pairArgs := [][]string{nil, {"destructive"}, {"DS102"}, {"DS103"}, {"incompatible"}, {"incompatible", "naming"}}
		if sh.name == "rebuild" && tier != "thorough" {
			continue
		}
		if tier == "thorough" {
			pairArgs = nlArgs
		}
		for _, w1 := range pairArgs {
			for _, w2 := range pairArgs {
				add("nlPair", sh, []nlDirective{{words: w1, place: "stmt", at: sh.target}, {words: w2, place: "stmt", at: sh.target}})
				add("nlPair", sh, []nlDirective{{words: w1, place: "hdr", at: -1}, {words: w2, place: "stmt", at: sh.target}})
				add("nlPair", sh, []nlDirective{{words: w1, place: "hdr", at: -1}, {words: w2, place: "hdr", at: -1}})
				add("nlPair", sh, []nlDirective{{words: w1, spell: spBlock, place: "stmt", at: sh.target}, {words: w2, spell: spTrailingBlank, place: "stmt", at: sh.target}})
			}
		}
		// comments that are not directives
		for _, la := range []string{"/* atlas:nolint */", "-- atlas: nolint", "-- atlas:nolinter", "-- Atlas:nolint", "-- atlas:lint nolint",
			"-- see atlas:nolint docs", "-- do not add atlas:nolint", "/*\natlas:nolint\n*/", "-- nolint"} {
			add("nlLook", sh, []nlDirective{{lookalike: la, place: "stmt", at: sh.target}})
			if strings.HasPrefix(la, "--") {
				add("nlLook", sh, []nlDirective{{lookalike: la, place: "hdr", at: -1}})
			}
		}
	}
	// seeded random files: 1..3 directives, any placement / argument list / spelling.  Files in which two
	// different known causes (tab, trailing comment, bare + other) would meet are skipped, so that every
	// oracle hit keeps one cause tag.
	r := rng.FromEnv(0xC183)
	nr := 300
	if tier == "thorough" {
		nr = 6000
	}
	for k := 0; k < nr; {
		sh := rng.Pick(r, shapes)
		var dirs []nlDirective
		for i, nd := 0, 1+r.Intn(3); i < nd; i++ {
			ws := rng.Pick(r, nlArgs)
			switch r.Intn(4) {
			case 0:
				sp := rng.Pick(r, []int{spPlain, spTwoBlanks, spTabs, spNoSpace, spInnerTab})
				if sp == spInnerTab && len(ws) < 2 {
					sp = spPlain
				}
				dirs = append(dirs, nlDirective{words: ws, spell: sp, place: "hdr", at: -1})
			case 1:
				dirs = append(dirs, nlDirective{words: ws, place: "prevtrail", at: r.Intn(len(sh.stmts))})
			default:
				sp := r.Intn(nSpell)
				if (sp == spInnerTab || sp == spComma) && len(ws) == 0 {
					sp = spPlain
				}
				dirs = append(dirs, nlDirective{words: ws, spell: sp, place: "stmt", at: r.Intn(len(sh.stmts))})
			}
		}
		if !nlSingleCause(sh, dirs) {
			continue
		}
		k++
		add("nlRand", sh, dirs)
	}
	return cases
}

// nlSingleCause: at most one of the known causes is present in the file.
func nlSingleCause(sh nlShape, dirs []nlDirective) bool {
	causes := map[string]bool{}
	for _, d := range dirs {
		if c := d.sepCause(); c != "" {
			causes[c] = true
		}
		if d.place == "prevtrail" {
			causes["trailing"] = true
			if len(dirs) > 1 {
				return false
			}
		}
	}
	for j := range sh.stmts {
		bare, n := false, 0
		for _, d := range dirs {
			if d.place == "hdr" || d.place == "stmt" && d.at == j {
				n++
				if len(d.words) == 0 {
					bare = true
				}
			}
		}
		if bare && n >= 2 {
			causes["bare-with-other"] = true
		}
	}
	return len(causes) <= 1
}

// oracleNolint judges one case on the CLI observation only.
func oracleNolint(w *out.W, c *tcase, r *result) {
	nl := c.nl
	f := &c.dir.files[1]
	if r.loadErr != 0 {
		w.Violation(c.id, "nolint-load-error", fmt.Sprintf("file %d cannot be replayed although every statement is valid SQL", r.loadErr))
		return
	}
	var fo *fileObs
	for i := range r.files {
		if r.files[i].id == f.id {
			fo = &r.files[i]
		}
	}
	var got []diagObs
	foErr := false
	if fo != nil {
		got = fo.diags
		foErr = fo.err
	}
	observed := func(e nlExpect) bool {
		for _, d := range got {
			if d.code == e.code && d.pos == f.stmts[e.at].pos && contains(d.names, e.name) {
				return true
			}
		}
		return false
	}
	text := strings.ReplaceAll(strings.ReplaceAll(f.text, "\n", "\\n"), "\t", "\\t")
	for _, e := range nl.expect {
		var app []nlDirective // directives that apply to the statement: header ones and those written above it
		tags := map[string]bool{}
		for _, d := range nl.dirs {
			switch {
			case d.place == "hdr", d.place == "stmt" && d.at == e.at:
				app = append(app, d)
			case d.place == "prevtrail" && d.at == e.at-1:
				tags["trailing-prev"] = true
			}
		}
		covered, bare, real := false, false, 0
		for _, d := range app {
			if d.covers(e.code) {
				covered = true
			}
			if d.lookalike == "" {
				real++
				if len(d.words) == 0 {
					bare = true
				}
			}
			if c := d.sepCause(); c != "" {
				tags[c] = true
			}
			if d.place == "hdr" && d.lookalike != "" && strings.HasSuffix(d.lookalike, "atlas:nolint") {
				tags["mention"] = true
			}
		}
		if bare && real >= 2 {
			tags["bare-with-other"] = true
		}
		var tl []string
		for t := range tags {
			tl = append(tl, t)
		}
		sort.Strings(tl)
		obs := observed(e)
		switch {
		case !covered && !obs:
			w.Count("oracle/nolint-uncovered-silenced")
			w.Violation(c.id, "nolint-silenced", fmt.Sprintf("statement %d (%s) is destructive (%s %q) and no nolint directive that covers %s applies to it, yet it is not reported; got %v exit %d tags=[%s] file: %s",
				e.at+1, f.stmts[e.at].s.sql(), e.code, e.name, e.code, got, r.exit, strings.Join(tl, ","), text))
		case covered && obs:
			w.Count("oracle/nolint-covered-reported")
			w.Violation(c.id, "nolint-not-honoured", fmt.Sprintf("statement %d carries a nolint directive covering %s and is reported all the same; got %v tags=[%s] file: %s",
				e.at+1, e.code, got, strings.Join(tl, ","), text))
		case covered:
			w.Count("oracle/nolint-covered-silenced")
		default:
			w.Count("oracle/nolint-uncovered-reported")
		}
	}
	// nothing else is reported (additive statements stay clean with any directive)
	for _, d := range got {
		known := false
		for _, e := range nl.expect {
			if d.code == e.code && d.pos == f.stmts[e.at].pos {
				known = true
			}
		}
		if !known {
			w.Violation(c.id, "sound-false-positive", fmt.Sprintf("file %s: %v is not on a destructive statement tags=[] file: %s", f.name, d, text))
		}
	}
	if (len(got) > 0) != foErr {
		w.Violation(c.id, "exit-status", fmt.Sprintf("file %s: destructive diagnostics %v but destructive error=%v", f.name, got, foErr))
	}
	if (len(got) > 0) != (r.exit != 0) {
		w.Violation(c.id, "exit-status", fmt.Sprintf("destructive diagnostics %v but exit status %d; file: %s", got, r.exit, text))
	}
	for _, fo2 := range r.files {
		if fo2.id != f.id && (len(fo2.diags) > 0 || fo2.err) {
			w.Violation(c.id, "sound-false-positive", fmt.Sprintf("file %d outside the analysed window is reported tags=[]", fo2.id))
		}
	}
}
