// Stage env: lint options from the project file (`atlas.hcl`, --env x: lint { latest, git { base },
// destructive { error }, format }) together with explicit command-line flags.  The explicit flag must
// win (cmdapi.maySetFlag never overwrites a flag the user gave): every destructive file inside the
// EFFECTIVE window -- the flag's when given, else the project file's -- is flagged.
package main

import (
	"fmt"
	"os"
	"path/filepath"
	"strings"

	"verifharness/internal/clirun"
	"verifharness/internal/out"
)

type envCase struct {
	id, label  string
	cfgLatest  int    // -1 = no `latest` in the project file
	cfgGit     string // "" = no git block
	cfgErr     int    // -1 none, 0/1 = destructive { error = false/true }
	cfgFormat  int    // 0 none, 1 lint { log = json }, 2 format { migrate { lint = json } }, 3 lint { log = "CONFIG" }
	flagLatest int    // -1 = no --latest
	flagGit    string // "" = no --git-base
	flagFormat bool   // --format '{{ json . }}'
}

func (c *envCase) line(d *mdir) string {
	var b strings.Builder
	cl := c.cfgLatest
	if cl < 0 {
		cl = 0
	}
	fmt.Fprintf(&b, "%d %s ", cl, hx(c.cfgGit))
	if c.cfgErr >= 0 {
		fmt.Fprintf(&b, "1 %s 1 %s %d ", hx("destructive"), hx("error"), c.cfgErr)
	} else {
		b.WriteString("0 ")
	}
	if c.flagLatest >= 0 {
		fmt.Fprintf(&b, "%d ", c.flagLatest)
	} else {
		b.WriteString("! ")
	}
	if c.flagGit != "" {
		b.WriteString(hx(c.flagGit) + " ")
	} else {
		b.WriteString("! ")
	}
	fmt.Fprintf(&b, "%d", len(d.files))
	for _, f := range d.files {
		fmt.Fprintf(&b, " %d %d %d", f.id, b01(f.ckpt), len(f.stmts))
		for _, p := range f.stmts {
			fmt.Fprintf(&b, " %d %s", p.pos, p.s.tokens())
		}
	}
	return b.String()
}

func (c *envCase) hcl(dirPath string) string {
	var b strings.Builder
	fmt.Fprintf(&b, "env \"x\" {\n  dev = \"sqlite://dev?mode=memory\"\n  migration {\n    dir = \"file://%s\"\n  }\n  lint {\n", dirPath)
	if c.cfgLatest >= 0 {
		fmt.Fprintf(&b, "    latest = %d\n", c.cfgLatest)
	}
	if c.cfgGit != "" {
		fmt.Fprintf(&b, "    git {\n      base = %q\n      dir = \".\"\n    }\n", c.cfgGit)
	}
	if c.cfgErr >= 0 {
		fmt.Fprintf(&b, "    destructive {\n      error = %v\n    }\n", c.cfgErr == 1)
	}
	switch c.cfgFormat {
	case 1:
		b.WriteString("    log = \"{{ json . }}\"\n")
	case 3:
		b.WriteString("    log = \"CONFIG\"\n")
	}
	b.WriteString("  }\n")
	if c.cfgFormat == 2 {
		b.WriteString("  format {\n    migrate {\n      lint = \"{{ json . }}\"\n    }\n  }\n")
	}
	b.WriteString("}\n")
	return b.String()
}

func mainEnv(w *out.W, tier string) bool {
	w.Exhaust = true
	w.Rule = "non-trivial = the effective window (flag if given, else project file) holds the destructive file, or the CLI refuses the option combination; key = case line"
	tmpRoot, _ := os.MkdirTemp(os.Getenv("TMPDIR"), "c18env-")
	defer os.RemoveAll(tmpRoot)
	if _, err := os.Stat(clirun.Bin()); err != nil {
		fmt.Fprintln(os.Stderr, "ATLAS_BIN not found:", clirun.Bin())
		return false
	}
	cols := []scol{{name: "id", sig: 1}, {name: "a", sig: 2}}
	d := &mdir{label: "env"}
	d.files = []mfile{
		buildFile(1, false, []stmt{{k: "ct", t: "t", cols: cols}, {k: "ct", t: "u", cols: cols}}, 0),
		buildFile(2, false, []stmt{{k: "dt", t: "u"}}, 0), // the destructive file
		buildFile(3, false, []stmt{{k: "ac", t: "t", col: scol{name: "c", sig: 3}}}, 0),
	}
	const destructiveFile = 2
	dirPath := filepath.Join(tmpRoot, "m")
	fm := map[string]string{}
	for _, f := range d.files {
		fm[f.name] = f.text
	}
	if err := clirun.WriteDir(dirPath, fm); err != nil {
		fmt.Fprintln(os.Stderr, err)
		return false
	}
	var cases []*envCase
	add := func(c envCase) {
		c.id = fmt.Sprintf("env%s%d", c.label, len(cases)+1)
		cases = append(cases, &c)
	}
	// {config only, flag only, both with the flag wider, both with the flag narrower, both equal, neither, --latest 0} x window sizes
	for _, cl := range []int{-1, 1, 2, 3} {
		for _, fl := range []int{-1, 0, 1, 2, 3, 4} {
			lab := "B"
			switch {
			case cl < 0 && fl < 0:
				lab = "N"
			case cl < 0:
				lab = "F"
			case fl < 0:
				lab = "C"
			case fl > cl:
				lab = "W"
			case fl < cl:
				lab = "S"
			}
			add(envCase{label: lab, cfgLatest: cl, cfgErr: -1, flagLatest: fl, flagFormat: true})
		}
	}
	// destructive { error = ... } from the project file with either source of the window
	add(envCase{label: "E", cfgLatest: 1, cfgErr: 0, flagLatest: 2, flagFormat: true})
	add(envCase{label: "E", cfgLatest: 2, cfgErr: 0, flagLatest: -1, flagFormat: true})
	add(envCase{label: "E", cfgLatest: -1, cfgErr: 0, flagLatest: 3, flagFormat: true})
	add(envCase{label: "E", cfgLatest: 1, cfgErr: 1, flagLatest: 2, flagFormat: true})
	add(envCase{label: "E", cfgLatest: 3, cfgErr: 0, flagLatest: 1, flagFormat: true})
	// git base against latest: the two sources must not be mixed silently
	add(envCase{label: "G", cfgLatest: -1, cfgGit: "master", cfgErr: -1, flagLatest: 2, flagFormat: true})
	add(envCase{label: "G", cfgLatest: 1, cfgErr: -1, flagLatest: -1, flagGit: "master", flagFormat: true})
	add(envCase{label: "G", cfgLatest: 2, cfgGit: "master", cfgErr: -1, flagLatest: -1, flagFormat: true})
	// format from the project file / overridden by the flag
	add(envCase{label: "T", cfgLatest: 2, cfgErr: -1, cfgFormat: 1, flagLatest: -1})
	add(envCase{label: "T", cfgLatest: 1, cfgErr: -1, cfgFormat: 2, flagLatest: 2})
	add(envCase{label: "T", cfgLatest: 1, cfgErr: -1, cfgFormat: 3, flagLatest: 2, flagFormat: true})
	add(envCase{label: "T", cfgLatest: 2, cfgErr: -1, cfgFormat: 3, flagLatest: 1, flagFormat: true})

	results := make([]result, len(cases))
	var jobs []func()
	for i := range cases {
		i := i
		jobs = append(jobs, func() {
			c := cases[i]
			work := filepath.Join(tmpRoot, "w"+c.id)
			os.MkdirAll(work, 0o755)
			os.WriteFile(filepath.Join(work, "atlas.hcl"), []byte(c.hcl(dirPath)), 0o644)
			args := []string{"migrate", "lint", "--env", "x", "-c", "file://" + filepath.Join(work, "atlas.hcl")}
			if c.flagLatest >= 0 {
				args = append(args, "--latest", fmt.Sprint(c.flagLatest))
			}
			if c.flagGit != "" {
				args = append(args, "--git-base", c.flagGit)
			}
			if c.flagFormat {
				args = append(args, "--format", "{{ json . }}")
			}
			results[i] = runLintArgs(work, args...)
		})
	}
	clirun.Parallel(8, jobs)
	ok := true
	for i, c := range cases {
		r := &results[i]
		if r.err != nil {
			// no JSON report: for the format cases this is itself the failure (the project file overwrote --format)
			if c.cfgFormat == 3 {
				w.Violation(c.id, "window-flag-precedence", fmt.Sprintf("explicit --format was not honoured (project file lint.log = \"CONFIG\"): %v tags=[]", r.err))
				w.Case(c.id, c.line(d), []string{"no-json"})
				continue
			}
			ok = false
			fmt.Fprintf(os.Stderr, "case %s: harness error: %v\n", c.id, r.err)
			w.Violation(c.id, "harness-error", r.err.Error())
			continue
		}
		line := c.line(d)
		w.Case(c.id, line, []string{r.obs})
		w.Count("label/" + c.label)
		w.Count(fmt.Sprintf("exit/%d", r.exit))
		// ground truth: the effective options, from what the generator wrote
		eff, src := c.cfgLatest, "project file"
		if eff < 0 {
			eff = 0
		}
		if c.flagLatest >= 0 {
			eff, src = c.flagLatest, "flag"
		}
		git := c.cfgGit
		if c.flagGit != "" {
			git = c.flagGit
		}
		werr := c.cfgErr != 0
		desc := fmt.Sprintf("project file latest=%d git=%q error=%d, flags latest=%d git=%q => effective latest %d (%s)", c.cfgLatest, c.cfgGit, c.cfgErr, c.flagLatest, c.flagGit, eff, src)
		switch {
		case eff == 0 && git == "":
			w.NonTrivial(line)
			if r.obs != "exit=1 err=required" {
				w.Violation(c.id, "window-flag-precedence", fmt.Sprintf("%s: expected the `--latest or --git-base is required` refusal, got %s tags=[]", desc, r.obs))
			}
			continue
		case eff > 0 && git != "":
			w.NonTrivial(line)
			if r.obs != "exit=1 err=exclusive" {
				w.Violation(c.id, "window-flag-precedence", fmt.Sprintf("%s: expected the `mutually exclusive` refusal, got %s tags=[]", desc, r.obs))
			}
			continue
		case eff == 0:
			continue // git detector: not generated
		}
		first := len(d.files) - eff + 1 // id of the first analysed file
		if first < 1 {
			first = 1
		}
		inWindow := destructiveFile >= first
		if inWindow {
			w.NonTrivial(line)
			w.Count("window/holds-destructive-file")
		} else {
			w.Count("window/clean")
		}
		var analysed []int
		flagged := false
		for _, f := range r.files {
			analysed = append(analysed, f.id)
			if f.id == destructiveFile {
				for _, dg := range f.diags {
					if dg.code == "DS102" && len(dg.names) == 1 && dg.names[0] == "u" {
						flagged = true
					}
				}
			} else if len(f.diags) > 0 {
				w.Violation(c.id, "sound-false-positive", fmt.Sprintf("%s: additive file %d got %v tags=[]", desc, f.id, f.diags))
			}
		}
		var want []int
		for id := first; id <= len(d.files); id++ {
			want = append(want, id)
		}
		if fmt.Sprint(analysed) != fmt.Sprint(want) {
			w.Violation(c.id, "window-flag-precedence", fmt.Sprintf("%s: analysed files %v, the effective window is %v; got %s tags=[]", desc, analysed, want, r.obs))
		}
		if inWindow && !flagged {
			w.Violation(c.id, "complete-table", fmt.Sprintf("%s: file 2 (DROP TABLE u) lies in the effective window and carries no DS102; got %s tags=[]", desc, r.obs))
		}
		wantExit := 0
		if inWindow && werr {
			wantExit = 1
		}
		if r.exit != wantExit {
			w.Violation(c.id, "exit-status", fmt.Sprintf("%s: exit %d, expected %d; got %s tags=[]", desc, r.exit, wantExit, r.obs))
		}
	}
	return ok
}
