package main

import (
	"fmt"
	"strings"

	"verifharness/internal/rng"
)

// ---------------------------------------------------------------- random schema evolutions

type gen struct {
	r     *rng.R
	st    state
	fresh int
	label map[string]bool
}

var (
	idCol    = scol{"id", false, 1}
	colPool  = []string{"a", "b", "c", "d", "e"}
	virtPool = []string{"v", "w"}
	tabPool  = []string{"t1", "t2", "t3", "t4", "t5", "users", "new_orders"}
)

func (g *gen) rcol(name string, allowStored bool) scol {
	if allowStored && g.r.Chance(1, 8) {
		return scol{name, false, 5}
	}
	return scol{name, false, 2 + g.r.Intn(3)}
}

func (g *gen) newCols() []scol {
	cols := []scol{idCol}
	for _, n := range colPool {
		if g.r.Chance(1, 2) {
			cols = append(cols, g.rcol(n, true))
		}
	}
	for _, n := range virtPool {
		if g.r.Chance(1, 4) {
			cols = append(cols, scol{n, true, 9})
		}
	}
	return cols
}

// emit applies the statement to the ground truth if SQLite would accept it.
func (g *gen) emit(out *[]stmt, s stmt) bool {
	n, ok := g.st.apply(s)
	if !ok {
		return false
	}
	g.st = n
	*out = append(*out, s)
	return true
}

func (g *gen) pickTable() (stab, bool) {
	if len(g.st) == 0 {
		return stab{}, false
	}
	return g.st[g.r.Intn(len(g.st))], true
}

func (g *gen) freshName(prefix string) string {
	g.fresh++
	return fmt.Sprintf("%s%d", prefix, g.fresh)
}

func (g *gen) droppable(t stab) []scol {
	var out []scol
	for _, c := range t.cols {
		if c.name == "id" {
			continue
		}
		used := false
		for _, ix := range t.idxs {
			if contains(ix.cols, c.name) {
				used = true
			}
		}
		if !used {
			out = append(out, c)
		}
	}
	return out
}

func (g *gen) missingCol(t stab) (string, bool) {
	for _, n := range append(append([]string{}, colPool...), virtPool...) {
		if t.col(n) < 0 && g.r.Chance(1, 2) {
			return n, true
		}
	}
	return "", false
}

func (g *gen) filler(out *[]stmt, n int) {
	for i := 0; i < n; i++ {
		g.emit(out, stmt{k: "ok"})
	}
}

// op appends one schema-evolution step in a randomly chosen style.
func (g *gen) op(out *[]stmt) {
	r := g.r
	switch k := r.Intn(22); {
	case k < 2: // create table
		var cand []string
		for _, n := range tabPool {
			if g.st.find(n) < 0 {
				cand = append(cand, n)
			}
		}
		if len(cand) > 0 {
			g.emit(out, stmt{k: "ct", t: rng.Pick(r, cand), cols: g.newCols()})
			g.label["create"] = true
		}
	case k < 4: // plain DROP TABLE
		if t, ok := g.pickTable(); ok && len(g.st) > 1 {
			g.emit(out, stmt{k: "dt", t: t.name})
			g.label["drop-table"] = true
		}
	case k < 6: // ADD COLUMN
		if t, ok := g.pickTable(); ok {
			if n, ok := g.missingCol(t); ok {
				c := g.rcol(n, false)
				if contains(virtPool, n) {
					c = scol{n, true, 9}
				}
				g.emit(out, stmt{k: "ac", t: t.name, col: c})
				g.label["add-column"] = true
			}
		}
	case k < 9: // ALTER ... DROP COLUMN
		if t, ok := g.pickTable(); ok {
			if ds := g.droppable(t); len(ds) > 0 {
				g.emit(out, stmt{k: "dc", t: t.name, c: rng.Pick(r, ds).name})
				g.label["drop-column"] = true
			}
		}
	case k < 13: // table rebuild (new_/copy/drop/rename) and its near misses
		if t, ok := g.pickTable(); ok {
			g.rebuild(out, t)
		}
	case k < 15: // temporary table created and dropped in the file
		g.temp(out)
	case k < 16: // rename table
		if t, ok := g.pickTable(); ok {
			g.emit(out, stmt{k: "rt", t: t.name, u: g.freshName("r")})
			g.label["rename-table"] = true
		}
	case k < 17: // rename column
		if t, ok := g.pickTable(); ok {
			if ds := g.droppable(t); len(ds) > 0 {
				g.emit(out, stmt{k: "rc", t: t.name, c: rng.Pick(r, ds).name, d: g.freshName("k")})
				g.label["rename-column"] = true
			}
		}
	case k < 18: // index
		if t, ok := g.pickTable(); ok {
			if r.Chance(1, 3) && len(t.idxs) > 0 {
				g.emit(out, stmt{k: "di", i: t.idxs[0].name})
			} else if cs := colNames(t, true); len(cs) > 1 {
				g.emit(out, stmt{k: "ci", i: g.freshName("ix"), t: t.name, names: []string{cs[1+r.Intn(len(cs)-1)]}})
			}
			g.label["index"] = true
		}
	case k < 19:
		g.filler(out, 1+r.Intn(2))
	case k < 20: // a pre-existing name dropped, re-created and dropped again
		if t, ok := g.pickTable(); ok && len(g.st) > 1 {
			if r.Bool() {
				g.emit(out, stmt{k: "dt", t: t.name})
				g.emit(out, stmt{k: "ct", t: t.name, cols: g.newCols()})
				if r.Chance(2, 3) {
					g.emit(out, stmt{k: "dt", t: t.name})
				}
				g.label["drop-create-drop"] = true
			} else if ds := g.droppable(t); len(ds) > 0 {
				c := rng.Pick(r, ds)
				if c.sig == 5 {
					c.sig = 2
				}
				g.emit(out, stmt{k: "dc", t: t.name, c: c.name})
				g.emit(out, stmt{k: "ac", t: t.name, col: c})
				if r.Chance(2, 3) {
					g.emit(out, stmt{k: "dc", t: t.name, c: c.name})
				}
				g.label["col-drop-add-drop"] = true
			}
		}
	default: // a new name created, dropped and created again
		if r.Bool() {
			n := g.freshName("tmp")
			g.emit(out, stmt{k: "ct", t: n, cols: g.newCols()})
			g.emit(out, stmt{k: "dt", t: n})
			g.emit(out, stmt{k: "ct", t: n, cols: g.newCols()})
			g.label["create-drop-create"] = true
		} else if t, ok := g.pickTable(); ok {
			if n, ok := g.missingCol(t); ok && !contains(virtPool, n) {
				c := g.rcol(n, false)
				g.emit(out, stmt{k: "ac", t: t.name, col: c})
				g.emit(out, stmt{k: "dc", t: t.name, c: n})
				g.emit(out, stmt{k: "ac", t: t.name, col: c})
				g.label["col-add-drop-add"] = true
			}
		}
	}
}

func (g *gen) rebuild(out *[]stmt, t stab) {
	r := g.r
	nn := "new_" + t.name
	if g.st.find(nn) >= 0 {
		return
	}
	cols := []scol{idCol}
	for _, c := range t.cols[1:] {
		switch r.Intn(6) {
		case 0, 1: // omit the column
		case 2:
			if !c.virt && c.sig != 5 {
				c.sig = 2 + (c.sig-1)%3
			}
			cols = append(cols, c)
		default:
			cols = append(cols, c)
		}
	}
	if n, ok := g.missingCol(t); ok {
		if contains(virtPool, n) {
			cols = append(cols, scol{n, true, 9})
		} else {
			cols = append(cols, g.rcol(n, true))
		}
	}
	if r.Chance(1, 3) {
		g.filler(out, 1)
	}
	variant := r.Intn(12)
	g.emit(out, stmt{k: "ct", t: nn, cols: cols})
	switch variant {
	case 0: // something else in the copy slot
		done := false
		if o, ok := g.pickTable(); ok && o.name != t.name && o.name != nn && r.Bool() {
			done = g.emit(out, stmt{k: "dt", t: o.name})
		}
		if !done {
			if ds := g.droppable(t); len(ds) > 0 && r.Bool() {
				done = g.emit(out, stmt{k: "dc", t: t.name, c: ds[0].name})
			}
		}
		if !done {
			g.emit(out, stmt{k: "ct", t: g.freshName("tmp"), cols: []scol{idCol}})
		}
		g.label["rebuild-hidden"] = true
	case 1: // no copy statement at all (3 statements)
		g.label["rebuild-3"] = true
	case 2: // two copy statements (5 statements)
		g.emit(out, stmt{k: "is", t: nn, u: t.name})
		g.emit(out, stmt{k: "ok"})
		g.label["rebuild-5"] = true
	default:
		g.emit(out, stmt{k: "is", t: nn, u: t.name})
		g.label["rebuild"] = true
	}
	g.emit(out, stmt{k: "dt", t: t.name})
	if variant == 3 {
		g.emit(out, stmt{k: "rt", t: nn, u: t.name + "x"})
		g.label["rebuild-prefix-rename"] = true
	} else {
		g.emit(out, stmt{k: "rt", t: nn, u: t.name})
	}
	if r.Chance(1, 3) {
		g.filler(out, 1)
	}
}

func (g *gen) temp(out *[]stmt) {
	r := g.r
	var n string
	switch r.Intn(4) {
	case 0:
		n = g.freshName("new_tmp")
	case 1:
		if t, ok := g.pickTable(); ok {
			n = g.freshName("new_" + t.name + "_")
		} else {
			n = g.freshName("tmp")
		}
	default:
		n = g.freshName("tmp")
	}
	cols := g.newCols()
	g.emit(out, stmt{k: "ct", t: n, cols: cols})
	for i, k := 0, r.Intn(4); i < k; i++ {
		switch r.Intn(6) {
		case 0:
			g.emit(out, stmt{k: "ok"})
		case 1:
			if t, ok := g.pickTable(); ok {
				g.emit(out, stmt{k: "is", t: n, u: t.name})
			}
		case 2:
			if tt := g.st[g.st.find(n)]; len(g.droppable(tt)) > 0 {
				g.emit(out, stmt{k: "dc", t: n, c: g.droppable(tt)[0].name})
			}
		case 3:
			if c, ok := g.missingCol(g.st[g.st.find(n)]); ok && !contains(virtPool, c) {
				g.emit(out, stmt{k: "ac", t: n, col: g.rcol(c, false)})
			}
		case 4:
			m := g.freshName("tmp")
			if g.emit(out, stmt{k: "rt", t: n, u: m}) {
				n = m
			}
		default:
			// an unrelated additive change in between
			if t, ok := g.pickTable(); ok && t.name != n {
				if c, ok := g.missingCol(t); ok && !contains(virtPool, c) {
					g.emit(out, stmt{k: "ac", t: t.name, col: g.rcol(c, false)})
				}
			}
		}
	}
	g.emit(out, stmt{k: "dt", t: n})
	g.label["temp"] = true
}

func checkpointStmts(st state) []stmt {
	var out []stmt
	for _, t := range st {
		out = append(out, stmt{k: "ct", t: t.name, cols: append([]scol(nil), t.cols...)})
		for _, ix := range t.idxs {
			out = append(out, stmt{k: "ci", i: ix.name, t: t.name, names: append([]string(nil), ix.cols...)})
		}
	}
	return out
}

func genDir(r *rng.R, k int) *mdir {
	g := &gen{r: r, label: map[string]bool{}}
	d := &mdir{}
	nfiles := 2 + r.Intn(4)
	id := 0
	add := func(ckpt bool, ss []stmt) {
		id++
		d.files = append(d.files, buildFile(id, ckpt, ss, r.Intn(128)))
	}
	ckFirst := r.Chance(1, 25)
	for i := 0; i < nfiles; i++ {
		var ss []stmt
		long := r.Chance(1, 6)
		switch {
		case i == 0:
			for j, n := 0, 2+r.Intn(3); j < n; j++ {
				g.emit(&ss, stmt{k: "ct", t: tabPool[j], cols: g.newCols()})
			}
			if r.Chance(1, 3) {
				g.temp(&ss)
			}
			if r.Chance(1, 4) {
				g.op(&ss)
			}
			if ckFirst {
				g.label["ckpt-first"] = true
				add(true, checkpointStmts(g.st))
				continue
			}
		default:
			for j, n := 0, 1+r.Intn(3); j < n; j++ {
				if long {
					g.filler(&ss, 1+r.Intn(4))
				}
				g.op(&ss)
			}
		}
		if long {
			g.filler(&ss, 11)
			g.label["long"] = true
		}
		if len(ss) == 0 {
			g.filler(&ss, 1)
		}
		if i > 0 && r.Chance(1, 30) {
			ss = append(ss, stmt{k: rng.Pick(r, []string{"bad", "dt"}), t: "nosuch"})
			g.label["failing"] = true
			add(false, ss)
			break
		}
		add(false, ss)
		if i < nfiles-1 && r.Chance(1, 6) {
			add(true, checkpointStmts(g.st))
			g.label["ckpt"] = true
		}
	}
	var ls []string
	for _, n := range []string{"rebuild-hidden", "rebuild-prefix-rename", "drop-create-drop", "col-drop-add-drop", "create-drop-create",
		"col-add-drop-add", "rebuild-3", "rebuild-5", "rebuild", "temp", "ckpt-first", "ckpt", "failing", "long", "drop-table", "drop-column", "rename-table", "rename-column"} {
		if g.label[n] {
			ls = append(ls, n)
			break
		}
	}
	if len(ls) == 0 {
		ls = []string{"additive"}
	}
	d.label = strings.Join(ls, "+")
	return d
}

func genRand(tier string) []*tcase {
	r := rng.FromEnv(0xC18)
	ndirs := 170
	if tier == "thorough" {
		ndirs = 2500
	}
	var cases []*tcase
	for k := 0; k < ndirs; k++ {
		d := genDir(r, k)
		n := len(d.files)
		seen := map[int]bool{}
		for _, l := range []int{1, 2, 3, n, n + 1} {
			if l < 1 || seen[l] || (l > n && seen[n] && l != n+1) {
				continue
			}
			seen[l] = true
			cases = append(cases, &tcase{id: fmt.Sprintf("r%d.%d", k, l), label: d.label, dir: d, latest: l})
		}
	}
	return cases
}

// ---------------------------------------------------------------- exhaustive short files

// genExh: on a fixed two-table start (file 1), file 2 is every sequence of length <= L over a
// statement alphabet; analysed with --latest 1 (statement-by-statement path) -- plus, for the
// sequences of the rebuild alphabet, as the *first* file (the whole-file path when > 10 statements).
func genExh(tier string) []*tcase {
	a := scol{"a", false, 2}
	b := scol{"b", false, 3}
	v := scol{"v", true, 9}
	x := scol{"x", false, 2}
	init := []stmt{
		{k: "ct", t: "t", cols: []scol{idCol, a, b}},
		{k: "ct", t: "u", cols: []scol{idCol, a, v}},
	}
	alphaA := []stmt{
		{k: "dt", t: "t"},
		{k: "ct", t: "t", cols: []scol{idCol, a}},
		{k: "dc", t: "t", c: "b"},
		{k: "ac", t: "t", col: b},
		{k: "dc", t: "u", c: "v"},
		{k: "ct", t: "tmp", cols: []scol{idCol, x}},
		{k: "dt", t: "tmp"},
		{k: "dc", t: "tmp", c: "x"},
		{k: "rt", t: "t", u: "tmp"},
		{k: "ci", i: "ix", t: "t", names: []string{"a"}},
		{k: "di", i: "ix"},
		{k: "ok"},
	}
	alphaB := []stmt{
		{k: "ct", t: "new_t", cols: []scol{idCol, a}},
		{k: "is", t: "new_t", u: "t"},
		{k: "dt", t: "t"},
		{k: "rt", t: "new_t", u: "t"},
		{k: "rt", t: "new_t", u: "t2"},
		{k: "dt", t: "u"},
		{k: "dt", t: "new_t"},
	}
	alphaB = append(alphaB, stmt{k: "ct", t: "tmp", cols: []scol{idCol}}, stmt{k: "dt", t: "tmp"})
	la, lb := 3, 5
	if tier == "thorough" {
		la, lb = 5, 7
	}
	var cases []*tcase
	f1 := buildFile(1, false, init, 0)
	start, _ := state{}.apply(init[0])
	start, _ = start.apply(init[1])
	var rec func(alpha []stmt, seq []stmt, cur state, depth int, tag string)
	n := 0
	rec = func(alpha []stmt, seq []stmt, cur state, depth int, tag string) {
		if len(seq) > 0 {
			n++
			d := &mdir{files: []mfile{f1, buildFile(2, false, seq, n%128)}, label: tag}
			cases = append(cases, &tcase{id: fmt.Sprintf("%s%d", tag, n), label: tag, dir: d, latest: 1})
		}
		if depth == 0 {
			return
		}
		for _, s := range alpha {
			next, ok := cur.apply(s)
			ext := append(append([]stmt(nil), seq...), s)
			if !ok {
				// a statement SQLite rejects ends the file: keep it for the short prefixes only
				if len(seq) <= 1 {
					rec(alpha, ext, cur, 0, tag)
				}
				continue
			}
			rec(alpha, ext, next, depth-1, tag)
		}
	}
	rec(alphaA, nil, start, la, "exhA")
	rec(alphaB, nil, start, lb, "exhB")
	// the rebuild idiom at every offset of a longer file (before / after fillers), and as last statements
	for pre := 0; pre <= 2; pre++ {
		for post := 0; post <= 1; post++ {
			for _, mid := range []stmt{{k: "is", t: "new_t", u: "t"}, {k: "ok"}, {k: "dt", t: "u"}} {
				var ss []stmt
				for i := 0; i < pre; i++ {
					ss = append(ss, stmt{k: "ok"})
				}
				ss = append(ss, alphaB[0], mid, alphaB[2], alphaB[3])
				for i := 0; i < post; i++ {
					ss = append(ss, stmt{k: "ok"})
				}
				n++
				d := &mdir{files: []mfile{f1, buildFile(2, false, ss, n%128)}, label: "exhW"}
				cases = append(cases, &tcase{id: fmt.Sprintf("exhW%d", n), label: "exhW", dir: d, latest: 1})
			}
		}
	}
	// the rebuild that omits column b, then the column is added back ("change the type by hand")
	for _, tail := range [][]stmt{
		{{k: "ac", t: "t", col: b}},
		{{k: "ac", t: "t", col: scol{"b", false, 2}}, {k: "ok"}},
		{{k: "ok"}, {k: "ac", t: "t", col: b}, {k: "dc", t: "t", c: "b"}},
	} {
		ss := []stmt{alphaB[0], alphaB[1], alphaB[2], alphaB[3]}
		ss = append(ss, tail...)
		n++
		d := &mdir{files: []mfile{f1, buildFile(2, false, ss, n%128)}, label: "exhW"}
		cases = append(cases, &tcase{id: fmt.Sprintf("exhW%d", n), label: "exhW", dir: d, latest: 1})
	}
	// first-file paths: one file only, 10 and 11 statements, with a drop of an in-file table.
	for _, fill := range []int{0, 6, 7, 8} {
		ss := append([]stmt(nil), init...)
		ss = append(ss, stmt{k: "dc", t: "t", c: "b"}, stmt{k: "dt", t: "u"})
		for i := 0; i < fill; i++ {
			ss = append(ss, stmt{k: "ok"})
		}
		for _, latest := range []int{1, 2} {
			n++
			d := &mdir{files: []mfile{buildFile(1, false, ss, n%128)}, label: "exhF"}
			cases = append(cases, &tcase{id: fmt.Sprintf("exhF%d", n), label: "exhF", dir: d, latest: latest})
		}
	}
	// first file with a re-created name: 9, 10, 11 statements (statement-by-statement vs whole-file path)
	for _, fill := range []int{4, 5, 6} {
		ss := append([]stmt(nil), init...)
		ss = append(ss, stmt{k: "ct", t: "tmp", cols: []scol{idCol}}, stmt{k: "dt", t: "tmp"}, stmt{k: "ct", t: "tmp", cols: []scol{idCol, a}})
		for i := 0; i < fill; i++ {
			ss = append(ss, stmt{k: "ok"})
		}
		n++
		d := &mdir{files: []mfile{buildFile(1, false, ss, n%128)}, label: "exhF"}
		cases = append(cases, &tcase{id: fmt.Sprintf("exhF%d", n), label: "exhF", dir: d, latest: 1})
	}
	return cases
}
