package main

import (
	"fmt"
	"os"

	"verifharness/internal/out"
)

func runAPI(w *out.W, tier string) {
	fmt.Fprintln(os.Stderr, "api mode: not built yet")
	os.Exit(2)
}
