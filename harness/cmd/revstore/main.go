// Command revstore checks property C12 ("an edited applied prefix is refused,
// cleanly") on what users run: the real `atlas migrate apply` binary
// ($ATLAS_BIN) whose revisions go through the Ent storage layer (EntRevisions
// of cmd/atlas/internal/migrate) into a real SQLite file.
//
//	-mode cli    exhaustive small histories: a file of n<=4 statements fails at
//	             statement k+1 (k applied), is edited (applied part / tail only /
//	             not at all) and re-hashed with `migrate hash`, then apply, apply,
//	             status.
//	-mode fault  the same histories while the database driver fails the i-th
//	             SELECT or the j-th upsert of atlas_schema_revisions (scheme
//	             sqlitefault:// of the verif build, cmd/atlas/verif_sqlfault.go),
//	             during the resuming run or during the first run.
//
// Observed with an independent client (database/sql + go-sqlite3): exit class,
// the statements that ran (rows the statements themselves wrote into `journal`)
// and the rows of atlas_schema_revisions. The property oracle is evaluated on
// these observations; the same histories go through the extracted model
// (ocaml/revstore) and the projected observables are compared.
package main

import (
	"flag"
	"fmt"
	"os"
	"path/filepath"
	"regexp"
	"runtime"
	"strconv"
	"strings"

	"ariga.io/atlas/sql/migrate"

	"verifharness/internal/clirun"
	"verifharness/internal/execrun"
	"verifharness/internal/out"
)

// ---------------------------------------------------------------- histories

type hist struct {
	id string
	// scen: "" = one file (1_a.sql), one failure; "double" = the same file fails twice (at k+1, then, after
	// the file became mid, at k2+1) before the edit; "nonlinear" = 1_a.sql (complete) and 3_c.sql (fails at
	// k+1); with the edit of 3_c.sql a file 2_b.sql is added below it and the following runs use
	// --exec-order non-linear: 2_b.sql runs first, the partially applied file second.
	scen   string
	mid    []int // double: the file at the second attempt (a tail edit of old)
	k2     int   // double: the second attempt stops at statement k2+1 of mid
	n, k   int   // the original file has statements 1..n; run 1 stops at statement k+1
	old    []int // statement ids of the original file
	new    []int // statement ids after the edit
	edit   string
	mode2  string // tx-mode of runs 2..4 (run 1 is always none: only then a partial revision exists)
	second bool   // a following file 2_b.sql with one statement
	fault1 string // storage fault during run 1 ("" | r@i | w@j)
	fault2 string // storage fault during run 2
}

func (h hist) desc() string {
	s := fmt.Sprintf("old=%v fails-at=%d edit=%s new=%v tx-mode=%s second-file=%v fault-run1=%q fault-run2=%q",
		h.old, h.k+1, h.edit, h.new, h.mode2, h.second, h.fault1, h.fault2)
	switch h.scen {
	case "double":
		s = fmt.Sprintf("scenario=double-failure second-attempt-file=%v fails-at=%d ", h.mid, h.k2+1) + s
	case "nonlinear":
		s = "scenario=non-linear (1_a.sql applied, 3_c.sql partial, 2_b.sql added with the edit, --exec-order non-linear) " + s
	}
	return s
}

// ver / mainFile: the edited file. base: index of the run that precedes the resuming run.
// ref: the statements the stored partial hashes were computed from.
func (h hist) ver() string {
	if h.scen == "nonlinear" {
		return "3"
	}
	return "1"
}

func (h hist) mainFile() string {
	if h.scen == "nonlinear" {
		return "3_c.sql"
	}
	return "1_a.sql"
}

func (h hist) base() int {
	if h.scen == "double" {
		return 1
	}
	return 0
}

func (h hist) ref() []int {
	if h.scen == "double" {
		return h.mid
	}
	return h.old
}

func (h hist) order() string {
	if h.scen == "nonlinear" {
		return "non-linear"
	}
	return "linear"
}

const (
	secondStmt = 9  // the statement of a following file 2_b.sql (scen "")
	firstStmt  = 51 // nonlinear: the statement of 1_a.sql
	addedStmt  = 61 // nonlinear: the statement of the file 2_b.sql added out of order
)

func stmtText(id int) string { return fmt.Sprintf("INSERT INTO journal VALUES (%d);", id) }

func content(ids []int) string {
	var b strings.Builder
	for _, id := range ids {
		b.WriteString(stmtText(id) + "\n")
	}
	return b.String()
}

func (h hist) files(ids []int) map[string]string {
	m := map[string]string{h.mainFile(): content(ids)}
	if h.second {
		m["2_b.sql"] = content([]int{secondStmt})
	}
	if h.scen == "nonlinear" {
		m["1_a.sql"] = content([]int{firstStmt})
	}
	return m
}

func seq(n int) []int {
	l := make([]int, n)
	for i := range l {
		l[i] = i + 1
	}
	return l
}

type edit struct {
	kind string
	res  []int
}

// edits of a file whose first k statements are applied: of the applied part
// (index < k), of the tail only (index >= k), or none. Fresh statements get ids >= 21.
func edits(old []int, k int) []edit {
	var es []edit
	seen := map[string]bool{}
	add := func(kind string, l []int) {
		key := fmt.Sprint(l)
		if seen[key] {
			return
		}
		seen[key] = true
		es = append(es, edit{kind, append([]int{}, l...)})
	}
	area := func(i int) string {
		if i < k {
			return "prefix"
		}
		return "tail"
	}
	n := len(old)
	add("none", old)
	for i := 0; i < n; i++ {
		l := append([]int{}, old...)
		l[i] = 21 + i
		add(fmt.Sprintf("%s-change@%d", area(i), i), l)
	}
	for i := 0; i < n; i++ {
		add(fmt.Sprintf("%s-delete@%d", area(i), i), append(append([]int{}, old[:i]...), old[i+1:]...))
	}
	for i := 0; i <= n; i++ {
		l := append(append(append([]int{}, old[:i]...), 31+i), old[i:]...)
		add(fmt.Sprintf("%s-insert@%d", area(i), i), l)
	}
	for i := 0; i+1 < n; i++ {
		l := append([]int{}, old...)
		l[i], l[i+1] = l[i+1], l[i]
		add(fmt.Sprintf("%s-swap@%d", area(i), i), l)
	}
	for m := 0; m < n; m++ {
		a := "tail"
		if m < k {
			a = "prefix"
		}
		add(fmt.Sprintf("%s-truncate@%d", a, m), old[:m])
	}
	return es
}

// ---------------------------------------------------------------- running the CLI

type rowObs struct {
	version        string
	applied, total int
	nhashes        int
	err            bool
	typ            string
	sig            string // every column a refused run must leave alone
}

func (r rowObs) show() string {
	e := "0"
	if r.err {
		e = "1"
	}
	return fmt.Sprintf("%s:%d:%d:%d:%s:%s", execrun.Hex(r.version), r.applied, r.total, r.nhashes, e, r.typ)
}

type runObs struct {
	outcome string
	exit    int
	delta   []int // journal rows added (and still there) after the run
	rows    []rowObs
	faultOn bool   // the injected fault fired
	bits    string // fault stream seen by the storage/engine calls (fault stage)
	stderr  string
	sqllog  []string // classified calls (fault stage)
}

func (o runObs) table() string {
	p := make([]string, len(o.rows))
	for i, r := range o.rows {
		p[i] = r.show()
	}
	return strings.Join(p, " ")
}

func (o runObs) row(v string) (rowObs, bool) {
	for _, r := range o.rows {
		if r.version == v {
			return r, true
		}
	}
	return rowObs{}, false
}

var reHistory = regexp.MustCompile(`history changed: statement (\d+) from file`)

func classify(r clirun.Result) string {
	all := r.Stderr + "\n" + r.Stdout
	switch {
	case strings.Contains(all, "panic:") || strings.Contains(all, "goroutine "):
		return "panic"
	case r.Exit == 0 && strings.Contains(all, "No migration files to execute"):
		return "nopending"
	case r.Exit == 0:
		return "done"
	}
	if m := reHistory.FindStringSubmatch(all); m != nil {
		return "history:" + m[1]
	}
	switch {
	case strings.Contains(all, "executing statement"):
		return "stmterr"
	case strings.Contains(all, "write revision"):
		return "writeerr"
	case strings.Contains(all, "read revision"), strings.Contains(all, "database is locked"):
		return "readerr"
	case strings.Contains(all, "checksum"):
		return "checksum"
	}
	s := strings.Join(strings.Fields(r.Stderr), " ")
	if len(s) > 120 {
		s = s[:120]
	}
	return fmt.Sprintf("other(exit=%d):%s", r.Exit, s)
}

func readJournal(db string) ([]int, error) {
	rows, err := clirun.Query(db, "SELECT id FROM journal ORDER BY rowid")
	if err != nil {
		return nil, err
	}
	var j []int
	for _, r := range rows {
		v, _ := strconv.Atoi(r)
		j = append(j, v)
	}
	return j, nil
}

func readRows(db string) ([]rowObs, error) {
	if !clirun.TableExists(db, "atlas_schema_revisions") {
		return nil, nil
	}
	rr, err := clirun.Query(db, "SELECT version, applied, total, ifnull(partial_hashes,''), ifnull(error,''), type, hex(description), hex(ifnull(error_stmt,'')), hash FROM atlas_schema_revisions WHERE version <> '.atlas_cloud_identifier' ORDER BY version")
	if err != nil {
		return nil, err
	}
	var rows []rowObs
	for _, r := range rr {
		p := strings.Split(r, "|")
		if len(p) != 9 {
			return nil, fmt.Errorf("unexpected revision row %q", r)
		}
		a, _ := strconv.Atoi(p[1])
		t, _ := strconv.Atoi(p[2])
		rows = append(rows, rowObs{version: p[0], applied: a, total: t, nhashes: strings.Count(p[3], "h1:"),
			err: p[4] != "", typ: p[5], sig: r})
	}
	return rows, nil
}

var (
	reRead  = regexp.MustCompile("^SELECT .* FROM `atlas_schema_revisions`")
	reWrite = regexp.MustCompile("^INSERT INTO `atlas_schema_revisions`")
	reExec  = regexp.MustCompile("^INSERT INTO journal")
)

// faultSpec turns "r@2" / "w@3" into the VERIF_SQL_FAULT value.
func faultSpec(f string) string {
	if f == "" {
		return ""
	}
	re := "^SELECT .* FROM .atlas_schema_revisions."
	if f[0] == 'w' {
		re = "^INSERT INTO .atlas_schema_revisions."
	}
	return re + f[1:]
}

// leanEnv: Go runtime settings of the child process only (fewer threads, no GC cycles); they halve
// the start-up cost of the 54 MB binary and do not change what it does.
var leanEnv = []string{"GOMAXPROCS=1", "GOGC=off"}

func runCLI(tmp string, env []string, args ...string) clirun.Result {
	return clirun.Run(tmp, append(append([]string{}, leanEnv...), env...), args...)
}

// apply runs `atlas migrate apply`. With useFault the database is opened through the
// sqlitefault:// scheme and the calls that reached the driver are read back from its log.
func apply(tmp, db, mdir, mode, order, fault string, useFault bool) (runObs, error) {
	before, err := readJournal(db)
	if err != nil {
		return runObs{}, err
	}
	scheme := "sqlite://"
	var env []string
	logp := filepath.Join(tmp, "sql.log")
	if useFault {
		scheme = "sqlitefault://"
		os.Remove(logp)
		env = append(env, "VERIF_SQL_LOG="+logp)
		if fault != "" {
			env = append(env, "VERIF_SQL_FAULT="+faultSpec(fault))
		}
	}
	args := []string{"migrate", "apply", "--dir", "file://" + mdir, "--url", scheme + db, "--tx-mode", mode, "--allow-dirty"}
	if order != "linear" {
		args = append(args, "--exec-order", order)
	}
	r := runCLI(tmp, env, args...)
	o := runObs{outcome: classify(r), exit: r.Exit, stderr: r.Stderr}
	after, err := readJournal(db)
	if err != nil {
		return o, err
	}
	if len(after) < len(before) {
		return o, fmt.Errorf("journal shrank: %v -> %v", before, after)
	}
	o.delta = after[len(before):]
	if o.rows, err = readRows(db); err != nil {
		return o, err
	}
	if useFault {
		b, _ := os.ReadFile(logp)
		var bits strings.Builder
		for _, l := range strings.Split(string(b), "\n") {
			if len(l) < 6 {
				continue
			}
			tag, q := strings.TrimSpace(l[:5]), l[5:]
			kind := ""
			switch {
			case reRead.MatchString(q):
				kind = "r"
			case reWrite.MatchString(q):
				kind = "w"
			case reExec.MatchString(q):
				kind = "x"
			default:
				continue
			}
			if tag == "FAIL" {
				o.faultOn = true
			}
			if tag == "ok" {
				bits.WriteByte('0')
			} else {
				bits.WriteByte('1')
			}
			o.sqllog = append(o.sqllog, kind+":"+tag)
		}
		o.bits = bits.String()
	}
	return o, nil
}

type result struct {
	h      hist
	runs   []runObs // the applies: first run, resuming run, one (cli) or two (fault) more
	status string   // OK | PENDING | err
	toks   []string
	err    error
	hashOK bool
}

// Fault streams of the cli stage (no storage faults; only the statement the trigger refuses fails):
// a run starts with ReadRevisions x2; every file is ReadRevision, WriteRevision, then
// (ExecContext, WriteRevision) per statement that succeeds, then the failing ExecContext
// or the final WriteRevision.
func fileStream(nOK int, fails bool) string {
	s := "00" + strings.Repeat("00", nOK)
	if fails {
		return s + "1"
	}
	return s + "0"
}

func dirTokens(mdir string) ([]string, error) {
	d, err := migrate.NewLocalDir(mdir)
	if err != nil {
		return nil, err
	}
	files, err := d.Files()
	if err != nil {
		return nil, err
	}
	toks := []string{fmt.Sprint(len(files))}
	for _, f := range files {
		stmts, err := f.StmtDecls()
		if err != nil {
			return nil, err
		}
		toks = append(toks, execrun.Hex(f.Version()), "0", fmt.Sprint(len(stmts)))
		for _, s := range stmts {
			toks = append(toks, execrun.Hex(s.Text))
		}
	}
	return toks, nil
}

// scratch prefers a memory file system: every revision write of tx-mode none is its own
// SQLite transaction (journal file + fsync), which dominates the run time on a disk.
func scratch() string {
	if st, err := os.Stat("/dev/shm"); err == nil && st.IsDir() {
		return "/dev/shm"
	}
	return ""
}

func runHist(h hist, useFault bool) (res result) {
	res.h = h
	tmp, err := os.MkdirTemp(scratch(), "vrs")
	if err != nil {
		res.err = err
		return
	}
	defer os.RemoveAll(tmp)
	db := filepath.Join(tmp, "t.db")
	mdir := filepath.Join(tmp, "m")
	fail := func(e error) result { res.err = e; return res }
	// A failure is a property of the database, not of the file: a trigger refuses the row of one
	// statement. It is dropped ("the operator fixed the database") before the next attempt.
	trigger := func(id int) error {
		return clirun.Exec(db, fmt.Sprintf("CREATE TRIGGER stop BEFORE INSERT ON journal WHEN NEW.id = %d BEGIN SELECT RAISE(ABORT, 'stop'); END", id))
	}
	// rewrite the edited file and re-hash the directory with the CLI
	rewrite := func(ids []int) error {
		c := content(ids)
		if len(ids) == 0 {
			c = "-- emptied\n" // a file without statements: keep the file (a comment only)
		}
		if err := os.WriteFile(filepath.Join(mdir, h.mainFile()), []byte(c), 0o644); err != nil {
			return err
		}
		if hr := runCLI(tmp, nil, "migrate", "hash", "--dir", "file://"+mdir); hr.Exit != 0 {
			return fmt.Errorf("migrate hash failed: %s", hr.Stderr)
		}
		return nil
	}
	bitsOf := func(o runObs, predicted string) string {
		b := predicted
		if useFault {
			b = o.bits
		}
		if strings.Trim(b, "0") == "" {
			return "-"
		}
		return b
	}
	addRun := func(mode, order string, o runObs, predicted string) bool {
		dt, err := dirTokens(mdir)
		if err != nil {
			res.err = err
			return false
		}
		res.toks = append(res.toks, mode, order, bitsOf(o, predicted))
		res.toks = append(res.toks, dt...)
		res.runs = append(res.runs, o)
		return true
	}
	if err := clirun.Exec(db, "CREATE TABLE journal (id INTEGER)"); err != nil {
		return fail(err)
	}
	if err := clirun.WriteDir(mdir, h.files(h.old)); err != nil {
		return fail(err)
	}
	// run 1: stops at statement k+1 (tx-mode none: only then a partial revision exists)
	if err := trigger(h.old[h.k]); err != nil {
		return fail(err)
	}
	o, err := apply(tmp, db, mdir, "none", "linear", h.fault1, useFault)
	if err != nil {
		return fail(err)
	}
	pred := "00"
	if h.scen == "nonlinear" {
		pred += fileStream(1, false)
	}
	if !addRun("none", "linear", o, pred+fileStream(h.k, true)) {
		return
	}
	if err := clirun.Exec(db, "DROP TRIGGER stop"); err != nil {
		return fail(err)
	}
	if h.scen == "double" {
		// second attempt on the (tail-edited) file: applies statements k+1..k2, stops at k2+1
		if err := rewrite(h.mid); err != nil {
			return fail(err)
		}
		if err := trigger(h.mid[h.k2]); err != nil {
			return fail(err)
		}
		o, err := apply(tmp, db, mdir, "none", "linear", "", useFault)
		if err != nil {
			return fail(err)
		}
		if !addRun("none", "linear", o, "00"+fileStream(h.k2-h.k, true)) {
			return
		}
		if err := clirun.Exec(db, "DROP TRIGGER stop"); err != nil {
			return fail(err)
		}
	}
	if h.scen == "nonlinear" {
		if err := os.WriteFile(filepath.Join(mdir, "2_b.sql"), []byte(content([]int{addedStmt})), 0o644); err != nil {
			return fail(err)
		}
	}
	// the edit, re-hashed with `atlas migrate hash`
	if err := rewrite(h.new); err != nil {
		return fail(err)
	}
	res.hashOK = true
	// the resuming run and one more (fault stage: the run after the fault is gone)
	for i := 0; i < 2; i++ {
		f := ""
		if i == 0 {
			f = h.fault2
		}
		o, err := apply(tmp, db, mdir, h.mode2, h.order(), f, useFault)
		if err != nil {
			return fail(err)
		}
		if !addRun(h.mode2, h.order(), o, "") {
			return
		}
	}
	sr := runCLI(tmp, nil, "migrate", "status", "--dir", "file://"+mdir, "--url", "sqlite://"+db)
	all := sr.Stdout + sr.Stderr
	switch {
	case strings.Contains(all, "panic:") || strings.Contains(all, "goroutine "):
		res.status = "panic"
	case sr.Exit == 0 && strings.Contains(all, "Migration Status: OK"):
		res.status = "OK"
	case sr.Exit == 0 && strings.Contains(all, "Migration Status: PENDING"):
		res.status = "PENDING"
	default:
		res.status = "err"
	}
	return
}

func (r result) caseLine() string {
	return strings.Join(append([]string{fmt.Sprint(len(r.runs))}, r.toks...), " ")
}

func (r result) obsLines() []string {
	var ls []string
	for i, o := range r.runs {
		js := make([]string, len(o.delta))
		for j, id := range o.delta {
			js[j] = execrun.Hex(stmtText(id))
		}
		ls = append(ls, fmt.Sprintf("run%d outcome=%s journal=[%s] table=[%s]", i, o.outcome, strings.Join(js, ","), o.table()))
	}
	return append(ls, "status="+r.status)
}

// ---------------------------------------------------------------- oracle (on the real observations)

func eqInts(a, b []int) bool {
	if len(a) != len(b) {
		return false
	}
	for i := range a {
		if a[i] != b[i] {
			return false
		}
	}
	return true
}

func isPrefix(p, l []int) bool { return len(p) <= len(l) && eqInts(p, l[:len(p)]) }

func failed(o runObs) bool { return o.exit != 0 }

// oracle states C12 on what the real binary did. Everything is relative to the revision
// row as it was read from the database before the resuming run (kp = its applied) and to the
// statements that were in the file when those kp statements were applied (ref).
func oracle(w *out.W, r result) {
	h, id := r.h, r.h.id
	ver, base, ref := h.ver(), h.base(), h.ref()
	bad := func(class, msg string) { w.Violation(id, class, msg+": "+h.desc()) }
	for i, o := range r.runs {
		if o.outcome == "panic" || o.exit == 2 && strings.Contains(o.stderr, "runtime error") {
			bad("panic", fmt.Sprintf("apply run %d crashed", i+1))
			return
		}
		if strings.HasPrefix(o.outcome, "other") || o.outcome == "checksum" {
			bad("unexpected-error", fmt.Sprintf("apply run %d ended unexpectedly (%s)", i+1, o.outcome))
			return
		}
		if failed(o) && o.exit != 1 {
			bad("panic", fmt.Sprintf("apply run %d exited %d (a refused or failed run exits 1)", i+1, o.exit))
			return
		}
	}
	if r.status == "panic" {
		bad("panic", "migrate status crashed")
		return
	}
	r1 := r.runs[0]
	if h.fault1 == "" {
		// the setup: run 1 stops at statement k+1 with k statements applied and recorded
		want1 := h.old[:h.k]
		if h.scen == "nonlinear" {
			want1 = append([]int{firstStmt}, want1...)
		}
		row, ok := r1.row(ver)
		if r1.outcome != "stmterr" || !eqInts(r1.delta, want1) || !ok || row.applied != h.k || row.total != h.n || row.nhashes != h.k || !row.err {
			bad("first-run-not-recorded", fmt.Sprintf("first run: outcome=%s journal=%v table=[%s], want stmterr, %v, %s:%d:%d:%d:1", r1.outcome, r1.delta, r1.table(), want1, ver, h.k, h.n, h.k))
			return
		}
		if h.scen == "double" {
			// the second attempt resumes at k+1, applies up to k2 and records exactly that
			ra := r.runs[1]
			row, ok := ra.row(ver)
			if ra.outcome != "stmterr" || !eqInts(ra.delta, h.mid[h.k:h.k2]) || !ok || row.applied != h.k2 || row.total != len(h.mid) || row.nhashes != h.k2 || !row.err {
				bad("second-failure-not-recorded", fmt.Sprintf("second attempt: outcome=%s journal=%v table=[%s], want stmterr, %v, %s:%d:%d:%d:1", ra.outcome, ra.delta, ra.table(), h.mid[h.k:h.k2], ver, h.k2, len(h.mid), h.k2))
				return
			}
		}
	} else if !failed(r1) && r1.faultOn {
		bad("fault-swallowed", "first run succeeded although a revision read/write failed")
		return
	}
	// state before the resuming run
	before := r.runs[base]
	row0, has0 := before.row(ver)
	kp := 0
	if has0 {
		kp = row0.applied
	}
	if has0 && row0.nhashes != kp && row0.applied != row0.total {
		bad("hashes-not-recorded", fmt.Sprintf("before the resuming run the revision has applied=%d but %d partial hashes", kp, row0.nhashes))
		return
	}
	changed := kp >= 1 && !isPrefix(ref[:kp], h.new)
	var extraFirst []int // statements of other files the resuming run executes before the edited file
	if h.scen == "nonlinear" {
		extraFirst = []int{addedStmt}
	}
	wantTail := func(k int) []int {
		t := append(append([]int{}, extraFirst...), h.new[k:]...)
		if h.second {
			t = append(t, secondStmt)
		}
		return t
	}
	if changed {
		// refused; nothing of the file executed; the stored revision is what it was -- in every run, with or without fault
		firstDiff := 0
		for firstDiff < len(h.new) && h.new[firstDiff] == ref[firstDiff] {
			firstDiff++
		}
		prev := before
		for i := base + 1; i < len(r.runs); i++ {
			o := r.runs[i]
			var wantDelta []int
			if i == base+1 {
				wantDelta = extraFirst
			}
			if !eqInts(o.delta, wantDelta) {
				bad("executed-on-refuse", fmt.Sprintf("apply run %d executed %v (want %v) although the applied part (first %d statements) was edited", i+1, o.delta, wantDelta, kp))
				return
			}
			if !failed(o) {
				bad("not-refused", fmt.Sprintf("apply run %d exited 0 (%s) although the applied part was edited", i+1, o.outcome))
				return
			}
			fault := i == base+1 && h.fault2 != "" && o.faultOn
			if !fault && !strings.HasPrefix(o.outcome, "history:") {
				bad("not-refused", fmt.Sprintf("apply run %d ended with %s, want the history-changed error", i+1, o.outcome))
				return
			}
			if strings.HasPrefix(o.outcome, "history:") {
				n, _ := strconv.Atoi(strings.TrimPrefix(o.outcome, "history:"))
				if n != firstDiff+1 {
					bad("wrong-attribution", fmt.Sprintf("apply run %d reports statement %d as changed, the first edited applied statement is %d (applied are 1..%d)", i+1, n, firstDiff+1, kp))
					return
				}
			}
			for _, pr := range prev.rows {
				if or, ok := o.row(pr.version); !ok || or.sig != pr.sig {
					bad("history-touched", fmt.Sprintf("apply run %d rewrote a revision on refusal: %q -> [%s]", i+1, pr.sig, o.table()))
					return
				}
			}
			for _, or := range o.rows {
				if _, ok := prev.row(or.version); ok {
					continue
				}
				// a new revision: only that of the out-of-order file that ran (completely) before the refused one
				if !(h.scen == "nonlinear" && i == base+1 && or.version == "2" && or.applied == 1 && or.total == 1 && !or.err && or.nhashes == 0) {
					bad("history-touched", fmt.Sprintf("apply run %d added a revision on refusal: [%s] -> [%s]", i+1, prev.table(), o.table()))
					return
				}
			}
			prev = o
		}
		if r.status == "OK" {
			bad("status-ok-on-refuse", "migrate status says OK while the partially applied file is refused")
		}
		return
	}
	// the applied part is intact (tail edit or none): resumes at statement kp+1
	r2 := r.runs[base+1]
	settled := base + 2 // index of the run that must find nothing to do
	if h.fault2 != "" && r2.faultOn {
		// storage fault during the resuming run: it fails without executing anything it should not,
		// and the stored revision is not replaced by a fresh one
		if !failed(r2) {
			bad("fault-swallowed", fmt.Sprintf("resuming run exited 0 (%s) although a revision read/write failed", r2.outcome))
			return
		}
		if !isPrefix(r2.delta, wantTail(kp)) {
			bad("wrong-tail", fmt.Sprintf("resuming run with a storage fault executed %v, want a prefix of %v", r2.delta, wantTail(kp)))
			return
		}
		row2, has2 := r2.row(ver)
		// tx-mode file: one transaction per file. Either the failing file is the first one (everything is
		// rolled back: no statement left behind, revision untouched) or the first file was committed as a
		// whole (its complete tail ran, its revision is complete) and the following file was rolled back.
		file1Committed := false
		if h.mode2 == "file" {
			file1Committed = h.second && has2 && row2.applied == len(h.new) && row2.total == len(h.new) && row2.nhashes == 0 &&
				eqInts(r2.delta, h.new[kp:])
			if !file1Committed && len(r2.delta) != 0 {
				bad("wrong-tail", fmt.Sprintf("failed run in tx-mode file left statements %v behind", r2.delta))
				return
			}
			if _, has22 := r2.row("2"); has22 {
				bad("history-touched", fmt.Sprintf("failed run in tx-mode file left a revision of the rolled-back file: [%s]", r2.table()))
				return
			}
		}
		if has0 && (!has2 || row2.applied < kp || row2.applied > kp+len(r2.delta)) {
			bad("revision-replaced", fmt.Sprintf("storage fault during the resuming run: revision went from [%s] to [%s] with %v executed", before.table(), r2.table(), r2.delta))
			return
		}
		if h.mode2 == "file" && !file1Committed && has0 && row2.sig != row0.sig {
			bad("history-touched", fmt.Sprintf("failed run in tx-mode file changed the revision: %q -> %q", row0.sig, row2.sig))
			return
		}
		// after the fault is gone: resumes from what is recorded now
		kp2 := 0
		if has2 {
			kp2 = row2.applied
		}
		r3 := r.runs[base+2]
		want := append([]int{}, h.new[kp2:]...)
		if row22, has22 := r2.row("2"); h.second && !(has22 && row22.applied == 1) {
			want = append(want, secondStmt)
		}
		if !(r3.outcome == "done" || r3.outcome == "nopending") || !eqInts(r3.delta, want) {
			bad("not-resumed", fmt.Sprintf("after the storage fault was gone apply ended with %s and executed %v, want %v (revision before it: [%s])", r3.outcome, r3.delta, want, r2.table()))
			return
		}
		if !complete(r3, h, kp2, false) {
			bad("rev-incomplete", fmt.Sprintf("after the resume the revisions are [%s], want applied=total=%d without error", r3.table(), len(h.new)))
			return
		}
		settled = base + 3
	} else {
		if r2.outcome != "done" {
			bad("not-resumed", fmt.Sprintf("the applied part (%d statements) is intact but apply ended with %s", kp, r2.outcome))
			return
		}
		if !eqInts(r2.delta, wantTail(kp)) {
			bad("wrong-tail", fmt.Sprintf("resuming run executed %v, want %v", r2.delta, wantTail(kp)))
			return
		}
		if !complete(r2, h, kp, true) {
			bad("rev-incomplete", fmt.Sprintf("after the resume the revisions are [%s], want applied=total=%d, no partial hashes, no error", r2.table(), len(h.new)))
			return
		}
	}
	for i := settled; i < len(r.runs); i++ {
		o := r.runs[i]
		if o.outcome != "nopending" || len(o.delta) != 0 {
			bad("not-settled", fmt.Sprintf("apply run %d after a completed resume ended with %s and executed %v, want nothing to do", i+1, o.outcome, o.delta))
			return
		}
		if o.table() != r.runs[i-1].table() {
			bad("not-settled", fmt.Sprintf("apply run %d with nothing to do changed the revisions: [%s] -> [%s]", i+1, r.runs[i-1].table(), o.table()))
			return
		}
	}
	if r.status != "OK" {
		bad("status-not-ok", fmt.Sprintf("migrate status says %s after the completed resume, revisions [%s]", r.status, r.runs[len(r.runs)-1].table()))
	}
}

func contains(l []int, x int) bool {
	for _, y := range l {
		if y == x {
			return true
		}
	}
	return false
}

// complete: every file has a revision with applied = total = its statement count and no error
// (kp = statements recorded as applied before the resume).
func complete(o runObs, h hist, kp int, strictHashes bool) bool {
	want := map[string]int{h.ver(): len(h.new)}
	if h.second {
		want["2"] = 1
	}
	if h.scen == "nonlinear" {
		want["1"], want["2"] = 1, 1
	}
	if len(o.rows) != len(want) {
		return false
	}
	for _, r := range o.rows {
		n, ok := want[r.version]
		if !ok {
			return false
		}
		// the error text of the failed attempt is cleared by the first statement that succeeds;
		// when the edit removed the whole tail nothing runs and the (complete) revision keeps it
		errLeft := r.err && !(r.version == h.ver() && len(h.new) == kp)
		if r.applied != n || r.total != n || errLeft || strictHashes && r.nhashes != 0 {
			return false
		}
	}
	return true
}

// ---------------------------------------------------------------- generators

func genCLI(tier string) []hist {
	maxN := 4
	var hs []hist
	for n := 1; n <= maxN; n++ {
		for k := 0; k < n; k++ {
			for _, e := range edits(seq(n), k) {
				for _, mode := range []string{"none", "file"} {
					for second := 0; second < 2; second++ {
						if second == 1 && (n > 3 || mode == "file" && tier != "thorough" && n > 2) {
							continue
						}
						if tier != "thorough" && n == 4 && (mode == "file" || k == 0) {
							continue // quick: 4-statement files under tx-mode none with k >= 1 only
						}
						hs = append(hs, hist{n: n, k: k, old: seq(n), new: e.res, edit: e.kind, mode2: mode, second: second == 1})
					}
				}
			}
		}
	}
	hs = append(hs, genDouble(tier)...)
	hs = append(hs, genNonLinear(tier)...)
	return hs
}

// genDouble: the same file fails partially twice. Attempt 1 stops at k+1 (k >= 1); the tail is left as it is,
// or its failing statement is replaced, or a statement is inserted before it (mid); attempt 2 applies
// statements k+1..k2 of mid and stops at k2+1; then every edit of mid: of a statement applied by attempt 1
// (index < k), by attempt 2 (k <= index < k2) -- both "prefix" -- or of the tail only, or none.
func genDouble(tier string) []hist {
	var hs []hist
	maxN := 3
	if tier == "thorough" {
		maxN = 4
	}
	for n := 3; n <= maxN; n++ {
		old := seq(n)
		for k := 1; k+1 < n; k++ {
			mids := [][]int{old}
			ch := append([]int{}, old...)
			ch[k] = 41
			mids = append(mids, ch)
			mids = append(mids, append(append(append([]int{}, old[:k]...), 42), old[k:]...))
			for mi, mid := range mids {
				for k2 := k + 1; k2 < len(mid); k2++ {
					for _, e := range edits(mid, k2) {
						for _, mode := range []string{"none", "file"} {
							if tier != "thorough" && mode == "file" && !(mi == 1 && strings.Contains(e.kind, "change")) {
								continue
							}
							kind := e.kind
							if strings.HasPrefix(kind, "prefix-") {
								// which attempt applied the first statement the edit touches
								i := 0
								for i < len(e.res) && i < len(mid) && e.res[i] == mid[i] {
									i++
								}
								if i < k {
									kind += "(attempt1)"
								} else {
									kind += "(attempt2)"
								}
							}
							hs = append(hs, hist{scen: "double", n: n, k: k, old: old, mid: mid, k2: k2, new: e.res, edit: kind, mode2: mode})
						}
					}
				}
			}
		}
	}
	return hs
}

// genNonLinear: the refused file is not the first file of the run (see hist.scen).
func genNonLinear(tier string) []hist {
	var hs []hist
	maxN := 3
	if tier == "thorough" {
		maxN = 4
	}
	for n := 2; n <= maxN; n++ {
		for k := 1; k < n; k++ {
			for _, e := range edits(seq(n), k) {
				for _, mode := range []string{"none", "file"} {
					if tier != "thorough" && mode == "file" && n > 2 {
						continue
					}
					hs = append(hs, hist{scen: "nonlinear", n: n, k: k, old: seq(n), new: e.res, edit: e.kind, mode2: mode})
				}
			}
		}
	}
	return hs
}

func genFault(tier string) []hist {
	maxN := 3
	if tier == "thorough" {
		maxN = 4
	}
	var hs []hist
	keep := func(kind string, n, k int) bool {
		if tier == "thorough" {
			return true
		}
		// quick: one edit of each kind per area, at the first index of the area
		for _, p := range []string{"none", "prefix-change@0", "prefix-delete@0", "prefix-insert@0", fmt.Sprintf("prefix-truncate@%d", k-1),
			fmt.Sprintf("tail-change@%d", k), fmt.Sprintf("tail-delete@%d", k), fmt.Sprintf("tail-insert@%d", n), fmt.Sprintf("tail-truncate@%d", k)} {
			if kind == p {
				return true
			}
		}
		return false
	}
	for n := 1; n <= maxN; n++ {
		for k := 0; k < n; k++ {
			if tier != "thorough" && k == 0 && n != 2 {
				continue
			}
			for _, e := range edits(seq(n), k) {
				if !keep(e.kind, n, k) {
					continue
				}
				if tier != "thorough" && k == 0 && !(e.kind == "none" || e.kind == "tail-change@0" || e.kind == "tail-truncate@0") {
					continue // nothing applied yet: every edit is a tail edit; quick keeps three
				}
				for _, mode := range []string{"none", "file"} {
					for second := 0; second < 2; second++ {
						if second == 1 && !(n == 2 && k == 1 || tier == "thorough" && n <= 3) {
							continue
						}
						prefixEdit := strings.HasPrefix(e.kind, "prefix-") && k >= 1
						if tier != "thorough" && mode == "file" && prefixEdit && e.kind != "prefix-change@0" {
							continue // a refused run does the same under both modes: quick keeps one prefix edit for tx-mode file
						}
						// a fault at every read and every write of the resuming run
						for i := 1; i <= 3+second; i++ {
							if tier != "thorough" && i <= 2 && !(e.kind == "none" || e.kind == "prefix-change@0" || e.kind == fmt.Sprintf("tail-change@%d", k)) {
								continue // the two ReadRevisions calls precede Execute: quick keeps them for three edits
							}
							hs = append(hs, hist{n: n, k: k, old: seq(n), new: e.res, edit: e.kind, mode2: mode, second: second == 1, fault2: fmt.Sprintf("r@%d", i)})
						}
						nw := len(e.res) - k + 2 + 2*second
						if prefixEdit {
							nw = 2 // a refused run writes the revision twice (mark as started, deferred)
						}
						for j := 1; j <= nw; j++ {
							hs = append(hs, hist{n: n, k: k, old: seq(n), new: e.res, edit: e.kind, mode2: mode, second: second == 1, fault2: fmt.Sprintf("w@%d", j)})
						}
					}
				}
				// a fault at every read and every write of the first run
				if e.kind == "none" || e.kind == "prefix-change@0" || e.kind == fmt.Sprintf("tail-insert@%d", n) || tier == "thorough" {
					for i := 1; i <= 3; i++ {
						hs = append(hs, hist{n: n, k: k, old: seq(n), new: e.res, edit: e.kind, mode2: "none", fault1: fmt.Sprintf("r@%d", i)})
					}
					for j := 1; j <= k+2; j++ {
						hs = append(hs, hist{n: n, k: k, old: seq(n), new: e.res, edit: e.kind, mode2: "none", fault1: fmt.Sprintf("w@%d", j)})
					}
				}
			}
		}
	}
	return hs
}

func main() {
	mode := flag.String("mode", "cli", "cli|fault")
	tier := flag.String("tier", "quick", "quick|thorough")
	outDir := flag.String("out", "", "output directory")
	flag.Parse()
	if *outDir == "" {
		fmt.Fprintln(os.Stderr, "missing -out")
		os.Exit(2)
	}
	w := out.New(*outDir)
	defer w.Close()
	w.Exhaust = true
	if *mode == "c09" {
		runC09(w, *tier) // C09 stage cli: c09.go
		return
	}
	var hs []hist
	useFault := false
	switch *mode {
	case "cli":
		hs = genCLI(*tier)
		w.Rule = "exhaustive: file of n=1..4 distinct statements x first run fails at statement k+1 (k=0..n-1, tx-mode none) x every edit (none; change/delete/insert/swap at every index, truncate to every length -- classified prefix (index < k) or tail) x tx-mode of the following runs {none,file} x {no, one} following file; history = apply, edit + `migrate hash`, apply, apply, status on a real SQLite file through the real binary. Non-trivial = k>=1 and the file was edited (the stored partial hashes decide); distinct by (n,k,new,mode,second)"
	case "fault":
		hs = genFault(*tier)
		useFault = true
		w.Rule = "exhaustive: histories as in stage cli (n<=3, one edit of each kind per area) x a storage fault (database is locked) at the i-th SELECT / j-th upsert of atlas_schema_revisions, for every i and j reached, during the resuming run (tx-mode none and file) or during the first run; then apply and status without fault. Non-trivial = the fault fired; distinct by (n,k,new,mode,second,fault)"
	default:
		fmt.Fprintln(os.Stderr, "unknown mode")
		os.Exit(2)
	}
	for i := range hs {
		hs[i].id = fmt.Sprintf("%s-%d", *mode, i+1)
	}
	if useFault {
		// the binary under test must carry the add-only hook cmd/atlas/verif_sqlfault.go
		tmp, _ := os.MkdirTemp(scratch(), "vrsp")
		os.MkdirAll(filepath.Join(tmp, "m"), 0o755)
		pr := runCLI(tmp, nil, "migrate", "apply", "--dir", "file://"+filepath.Join(tmp, "m"), "--url", "sqlitefault://"+filepath.Join(tmp, "p.db"))
		os.RemoveAll(tmp)
		if strings.Contains(pr.Stderr+pr.Stdout, "unknown driver") {
			w.Violation("fault-0", "hook-missing", "the CLI under test does not know the sqlitefault:// scheme: add notes/hooks/cmd_atlas_verif_sqlfault.go as cmd/atlas/verif_sqlfault.go to the atlas tree (add-only, //go:build verif)")
			return
		}
	}
	results := make([]result, len(hs))
	jobs := make([]func(), len(hs))
	for i := range hs {
		i := i
		jobs[i] = func() { results[i] = runHist(hs[i], useFault) }
	}
	// the work is process starts of the CLI (mostly waiting): two per core
	nw := 2 * runtime.NumCPU()
	if nw > 32 {
		nw = 32
	}
	clirun.Parallel(nw, jobs)
	for _, r := range results {
		h := r.h
		if r.err != nil {
			w.Violation(h.id, "harness", "harness error: "+r.err.Error()+": "+h.desc())
			continue
		}
		if useFault && (h.fault1 != "" && !r.runs[0].faultOn || h.fault2 != "" && !r.runs[h.base()+1].faultOn) {
			w.Count("fault:not-reached")
			continue // the run makes fewer storage calls than the fault position: same as the fault-free history
		}
		w.Case(h.id, r.caseLine(), r.obsLines())
		w.Count("edit:" + strings.SplitN(h.edit, "@", 2)[0])
		if h.scen != "" {
			w.Count("scenario:" + h.scen)
		}
		w.Count(fmt.Sprintf("k:%d", h.k))
		w.Count("mode:" + h.mode2)
		w.Count("resuming-run:" + strings.SplitN(r.runs[h.base()+1].outcome, ":", 2)[0])
		if useFault {
			f := h.fault2
			if h.fault1 != "" {
				f = "first-run-" + h.fault1
			}
			w.Count("fault:" + f[:len(f)-2])
			w.NonTrivial(fmt.Sprintf("%d|%d|%v|%s|%v|%s|%s", h.n, h.k, h.new, h.mode2, h.second, h.fault1, h.fault2))
		} else if h.k >= 1 && h.edit != "none" {
			w.NonTrivial(fmt.Sprintf("%s|%d|%d|%v|%d|%v|%s|%v", h.scen, h.n, h.k, h.mid, h.k2, h.new, h.mode2, h.second))
		}
		oracle(w, r)
	}
}
