// Mode c09 (C09 stage "cli"): property C09 on what `atlas migrate apply` really runs the executor
// with -- the Ent revision store (EntRevisions: ReadRevisions order, WriteRevision upsert) and the
// transaction multiplexer (tx.driverFor / modeFor / mayRollback / mayCommit / commit) -- on a real
// SQLite file through the real binary, with ordinary errors ("database is locked") injected by the
// sqlitefault:// scheme of the verif build at chosen SELECTs / upserts of atlas_schema_revisions
// and at chosen migration statements (several per process).
//
// A history = a directory (files x statements, optional `-- atlas:txmode` directive per file) and
// a list of attempts; an attempt = optional tail edit of the partially applied file (append a
// statement / drop the last, not yet executed one; re-hashed), tx-mode, count argument, injected
// faults. Every history ends with two attempts without faults and `migrate status`.
//
// Oracle (C09, on the observations of the real runs only): in order, once, never over-claims,
// resume at the first statement that is not recorded; stop on fault; complete after a clean run.
package main

import (
	"fmt"
	"os"
	"path/filepath"
	"runtime"
	"strings"

	"ariga.io/atlas/sql/migrate"

	"verifharness/internal/clirun"
	"verifharness/internal/execrun"
	"verifharness/internal/out"
)

type cfile struct {
	ver   string
	dir   string // "" | none | file | all | bogus
	stmts []int
}

func (f cfile) name() string { return f.ver + "_f.sql" }

func (f cfile) content() string {
	var b strings.Builder
	if f.dir != "" {
		b.WriteString("-- atlas:txmode " + f.dir + "\n\n")
	}
	if len(f.stmts) == 0 {
		b.WriteString("-- emptied\n")
	}
	b.WriteString(content(f.stmts))
	return b.String()
}

type attempt struct {
	mode   string
	count  int
	faults []string // x@n | w@n | r@n (n-th journal insert / revisions upsert / revisions SELECT of the process)
	edit   string   // "" | append | drop-last: applied to the partially applied file before the attempt
}

type chist struct {
	id       string
	family   string
	files    []cfile
	attempts []attempt
	badDir   bool // the directory carries an invalid / conflicting directive
}

type cres struct {
	h      chist
	runs   []runObs
	dirs   [][]cfile // directory at each attempt
	edited []string  // what the edit of each attempt did
	status string
	toks   []string
	err    error
}

func (h chist) desc() string {
	var fs []string
	for _, f := range h.files {
		d := ""
		if f.dir != "" {
			d = "(txmode " + f.dir + ")"
		}
		fs = append(fs, fmt.Sprintf("%s%v%s", f.ver, f.stmts, d))
	}
	var as []string
	for _, a := range h.attempts {
		s := "--tx-mode " + a.mode
		if a.count > 0 {
			s += fmt.Sprintf(" count=%d", a.count)
		}
		if a.edit != "" {
			s = "edit:" + a.edit + " " + s
		}
		if len(a.faults) > 0 {
			s += " faults=" + strings.Join(a.faults, "+")
		}
		as = append(as, s)
	}
	return fmt.Sprintf("%s dir=[%s] attempts=[%s]", h.family, strings.Join(fs, " "), strings.Join(as, " ; "))
}

func c09FaultSpec(fs []string) string {
	var ps []string
	for _, f := range fs {
		re := ""
		switch f[0] {
		case 'r':
			re = "^SELECT .* FROM .atlas_schema_revisions."
		case 'w':
			re = "^INSERT INTO .atlas_schema_revisions."
		case 'x':
			re = "^INSERT INTO journal"
		}
		ps = append(ps, re+f[1:])
	}
	return strings.Join(ps, ",")
}

func classifyC09(r clirun.Result) string {
	all := r.Stderr + "\n" + r.Stdout
	if r.Exit != 0 && !strings.Contains(all, "panic:") &&
		(strings.Contains(all, "txmode directive") || strings.Contains(all, "unknown txmode") || strings.Contains(all, "in file directive")) {
		return "directive"
	}
	return classify(r)
}

func writeC09Dir(mdir string, files []cfile) error {
	m := map[string]string{}
	for _, f := range files {
		m[f.name()] = f.content()
	}
	return clirun.WriteDir(mdir, m)
}

func c09DirTokens(files []cfile) ([]string, error) {
	toks := []string{fmt.Sprint(len(files))}
	for _, f := range files {
		lf := migrate.NewLocalFile(f.name(), []byte(f.content()))
		stmts, err := lf.StmtDecls()
		if err != nil {
			return nil, err
		}
		d := f.dir
		switch d {
		case "":
			d = "-"
		case "none", "file", "all":
		default:
			d = "bad"
		}
		toks = append(toks, execrun.Hex(lf.Version()), d, fmt.Sprint(len(stmts)))
		for _, s := range stmts {
			toks = append(toks, execrun.Hex(s.Text))
		}
	}
	return toks, nil
}

func applyC09(tmp, db, mdir string, a attempt) (runObs, error) {
	before, err := readJournal(db)
	if err != nil {
		return runObs{}, err
	}
	logp := filepath.Join(tmp, "sql.log")
	os.Remove(logp)
	env := []string{"VERIF_SQL_LOG=" + logp}
	if len(a.faults) > 0 {
		env = append(env, "VERIF_SQL_FAULT="+c09FaultSpec(a.faults))
	}
	args := []string{"migrate", "apply"}
	if a.count > 0 {
		args = append(args, fmt.Sprint(a.count))
	}
	args = append(args, "--dir", "file://"+mdir, "--url", "sqlitefault://"+db, "--tx-mode", a.mode, "--allow-dirty")
	r := runCLI(tmp, env, args...)
	o := runObs{outcome: classifyC09(r), exit: r.Exit, stderr: r.Stderr}
	after, err := readJournal(db)
	if err != nil {
		return o, err
	}
	if len(after) < len(before) || !eqInts(after[:len(before)], before) {
		return o, fmt.Errorf("journal is not an extension: %v -> %v", before, after)
	}
	o.delta = after[len(before):]
	if o.rows, err = readRows(db); err != nil {
		return o, err
	}
	b, _ := os.ReadFile(logp)
	var bits strings.Builder
	for _, l := range strings.Split(string(b), "\n") {
		if len(l) < 6 {
			continue
		}
		tag, q := strings.TrimSpace(l[:5]), l[5:]
		kind := ""
		switch {
		case reRead.MatchString(q):
			kind = "r"
		case reWrite.MatchString(q):
			kind = "w"
		case reExec.MatchString(q):
			kind = "x"
		default:
			continue
		}
		if tag == "FAIL" {
			o.faultOn = true
		}
		if tag == "ok" {
			bits.WriteByte('0')
		} else {
			bits.WriteByte('1')
		}
		o.sqllog = append(o.sqllog, kind+":"+tag)
	}
	o.bits = bits.String()
	return o, nil
}

func copyFiles(fs []cfile) []cfile {
	c := make([]cfile, len(fs))
	for i, f := range fs {
		c[i] = cfile{f.ver, f.dir, append([]int{}, f.stmts...)}
	}
	return c
}

func runC09Hist(h chist) (res cres) {
	res.h = h
	tmp, err := os.MkdirTemp(scratch(), "vc9")
	if err != nil {
		res.err = err
		return
	}
	defer os.RemoveAll(tmp)
	db := filepath.Join(tmp, "t.db")
	mdir := filepath.Join(tmp, "m")
	if err := clirun.Exec(db, "CREATE TABLE journal (id INTEGER)"); err != nil {
		res.err = err
		return
	}
	files := copyFiles(h.files)
	var last runObs
	fresh := 71
	for ai, a := range h.attempts {
		did := ""
		if a.edit != "" && ai > 0 {
			// the partially applied file, as the revisions table (read with the independent client) shows it
			jr, _ := readJournal(db)
			for fi := range files {
				row, ok := last.row(files[fi].ver)
				if !ok || row.applied >= row.total {
					continue
				}
				switch a.edit {
				case "append":
					files[fi].stmts = append(files[fi].stmts, fresh)
					fresh++
					did = "append@" + files[fi].ver
				case "drop-last":
					n := len(files[fi].stmts)
					if n > row.applied && n > 1 && !contains(jr, files[fi].stmts[n-1]) {
						files[fi].stmts = files[fi].stmts[:n-1]
						did = "drop-last@" + files[fi].ver
					}
				}
				break
			}
		}
		res.edited = append(res.edited, did)
		if ai == 0 || did != "" {
			if err := writeC09Dir(mdir, files); err != nil {
				res.err = err
				return
			}
		}
		o, err := applyC09(tmp, db, mdir, a)
		if err != nil {
			res.err = err
			return
		}
		dt, err := c09DirTokens(files)
		if err != nil {
			res.err = err
			return
		}
		bits := o.bits
		if strings.Trim(bits, "0") == "" {
			bits = "-"
		}
		res.toks = append(res.toks, a.mode, fmt.Sprint(a.count), bits)
		res.toks = append(res.toks, dt...)
		res.runs = append(res.runs, o)
		res.dirs = append(res.dirs, copyFiles(files))
		last = o
	}
	sr := runCLI(tmp, nil, "migrate", "status", "--dir", "file://"+mdir, "--url", "sqlite://"+db)
	all := sr.Stdout + sr.Stderr
	switch {
	case strings.Contains(all, "panic:") || strings.Contains(all, "goroutine "):
		res.status = "panic"
	case sr.Exit == 0 && strings.Contains(all, "Migration Status: OK"):
		res.status = "OK"
	case sr.Exit == 0 && strings.Contains(all, "Migration Status: PENDING"):
		res.status = "PENDING"
	default:
		res.status = "err"
	}
	return
}

func (r cres) caseLine() string {
	return strings.Join(append([]string{fmt.Sprint(len(r.runs))}, r.toks...), " ")
}

func (r cres) obsLines() []string {
	var ls []string
	for i, o := range r.runs {
		js := make([]string, len(o.delta))
		for j, id := range o.delta {
			js[j] = execrun.Hex(stmtText(id))
		}
		ls = append(ls, fmt.Sprintf("run%d outcome=%s journal=[%s] table=[%s]", i, o.outcome, strings.Join(js, ","), o.table()))
	}
	return append(ls, "status="+r.status)
}

func planOf(files []cfile) []int {
	var p []int
	for _, f := range files {
		p = append(p, f.stmts...)
	}
	return p
}

// matchStutter: j = plan[:e] in order where a statement may be repeated directly after itself.
func matchStutter(j, plan []int) (e, reps int, ok bool) {
	for _, x := range j {
		switch {
		case e > 0 && x == plan[e-1]:
			reps++
		case e < len(plan) && x == plan[e]:
			e++
		default:
			return e, reps, false
		}
	}
	return e, reps, true
}

// oracleC09 states C09 on what the real binary did.
func oracleC09(w *out.W, r cres) {
	h, id := r.h, r.h.id
	bad := func(class, msg string) { w.Violation(id, class, msg+": "+h.desc()) }
	for i, o := range r.runs {
		if o.outcome == "panic" || o.exit == 2 && strings.Contains(o.stderr, "runtime error") {
			bad("panic", fmt.Sprintf("apply run %d crashed", i+1))
			return
		}
		if strings.HasPrefix(o.outcome, "other") || o.outcome == "checksum" || strings.HasPrefix(o.outcome, "history:") {
			bad("unexpected-error", fmt.Sprintf("apply run %d ended unexpectedly (%s)", i+1, o.outcome))
			return
		}
	}
	var journal []int // committed effects, cumulative
	claimedBefore := 0
	unrecorded := 0 // failed revision writes directly after a statement that succeeded (all runs so far)
	for i, o := range r.runs {
		a, files := h.attempts[i], r.dirs[i]
		plan := planOf(files)
		// stop on fault: a run in which a call failed does not exit 0, and nothing is executed after the failure
		failedAt := -1
		for k, c := range o.sqllog {
			if !strings.HasSuffix(c, ":ok") {
				if failedAt < 0 {
					failedAt = k
				}
			} else if failedAt >= 0 && strings.HasPrefix(c, "x:") {
				bad("continued-after-fault", fmt.Sprintf("apply run %d executed a statement after a failed call (calls %v)", i+1, o.sqllog))
				return
			}
			if k > 0 && c == "w:FAIL" && o.sqllog[k-1] == "x:ok" {
				unrecorded++
			}
		}
		if failedAt >= 0 && o.exit == 0 {
			bad("fault-swallowed", fmt.Sprintf("apply run %d exited 0 (%s) although a call failed (calls %v)", i+1, o.outcome, o.sqllog))
			return
		}
		// resume at the first statement that is not recorded; in order; nothing skipped
		if len(o.delta) > 0 {
			end := claimedBefore + len(o.delta)
			if end > len(plan) || !eqInts(o.delta, plan[claimedBefore:end]) {
				bad("skip-or-reorder", fmt.Sprintf("apply run %d left the effects of %v; the revisions before it claimed the first %d statements of the plan %v, so it must continue with statement %d", i+1, o.delta, claimedBefore, plan, claimedBefore+1))
				return
			}
		}
		journal = append(journal, o.delta...)
		e, reps, ok := matchStutter(journal, plan)
		if !ok {
			bad("skip-or-reorder", fmt.Sprintf("after apply run %d the executed statements %v are not the plan %v in order", i+1, journal, plan))
			return
		}
		if reps > unrecorded {
			bad("too-many-repeats", fmt.Sprintf("after apply run %d %d statement(s) were executed twice (%v) but only %d progress write(s) failed directly after a statement", i+1, reps, journal, unrecorded))
			return
		}
		// never over-claims: every revision belongs to a file, claims at most its statements, and every claimed statement was executed
		claimed := 0
		prefixOpen := false
		for _, f := range files {
			row, has := o.row(f.ver)
			if !has {
				prefixOpen = true
				continue
			}
			if prefixOpen || row.applied > len(f.stmts) {
				bad("overclaim", fmt.Sprintf("after apply run %d the revisions [%s] do not describe a prefix of the directory", i+1, o.table()))
				return
			}
			for _, s := range f.stmts[:row.applied] {
				if !contains(journal, s) {
					bad("overclaim", fmt.Sprintf("after apply run %d revision %s claims %d statements but statement %d was not executed (executed: %v)", i+1, f.ver, row.applied, s, journal))
					return
				}
			}
			if row.applied < len(f.stmts) {
				prefixOpen = true
			}
			claimed += row.applied
		}
		if len(o.rows) > len(files) {
			bad("overclaim", fmt.Sprintf("after apply run %d there are revisions of unknown files: [%s]", i+1, o.table()))
			return
		}
		if claimed > e || e > claimed+1 {
			bad("claim-gap", fmt.Sprintf("after apply run %d the revisions claim %d statements, %d were executed (at most one may be unrecorded)", i+1, claimed, e))
			return
		}
		claimedBefore = claimed
		_ = a
	}
	n := len(r.runs)
	final, prev := r.runs[n-1], r.runs[n-2]
	files := r.dirs[n-1]
	plan := planOf(files)
	if h.badDir {
		if final.outcome != "directive" || prev.outcome != "directive" {
			bad("directive-accepted", fmt.Sprintf("the runs without faults ended with %s, %s although a txmode directive is invalid", prev.outcome, final.outcome))
		}
		return
	}
	if !(prev.outcome == "done" || prev.outcome == "nopending") || final.outcome != "nopending" || len(final.delta) != 0 {
		bad("not-completed", fmt.Sprintf("the two runs without faults ended with %s, %s (last executed %v), want done|nopending, nopending; revisions [%s]", prev.outcome, final.outcome, final.delta, final.table()))
		return
	}
	if e, _, _ := matchStutter(journal, plan); e != len(plan) {
		bad("not-completed", fmt.Sprintf("after a run without faults reported success only %v of the plan %v were executed; revisions [%s]", journal, plan, final.table()))
		return
	}
	for _, f := range files {
		row, has := final.row(f.ver)
		// (the partial hashes may remain when the final clean-up write of the file failed; that is harmless)
		// (the error text of a failed attempt is cleared by the next statement that succeeds: when the edit
		// dropped the whole remaining tail nothing runs and the now complete revision keeps it)
		errLeft := row.err
		for _, e := range r.edited {
			if e == "drop-last@"+f.ver {
				errLeft = false
			}
		}
		if !has || row.applied != len(f.stmts) || row.total != len(f.stmts) || errLeft {
			bad("rev-incomplete", fmt.Sprintf("after completion the revisions are [%s], want applied=total=%d and no error for file %s", final.table(), len(f.stmts), f.ver))
			return
		}
	}
	if final.table() != prev.table() {
		bad("not-settled", fmt.Sprintf("a run with nothing to do changed the revisions: [%s] -> [%s]", prev.table(), final.table()))
		return
	}
	if r.status != "OK" {
		bad("status-not-ok", fmt.Sprintf("migrate status says %s after completion, revisions [%s]", r.status, final.table()))
	}
}

// ---------------------------------------------------------------- generator

type cconf struct {
	mode  string
	files []cfile
	bad   bool
}

func mk(ver, dir string, first, n int) cfile {
	f := cfile{ver: ver, dir: dir}
	for i := 0; i < n; i++ {
		f.stmts = append(f.stmts, first+i)
	}
	return f
}

// every single fault position of a run over files (upper bounds; unreachable ones are dropped after the run)
func faultPositions(files []cfile) []string {
	ns := len(planOf(files))
	var fs []string
	for i := 1; i <= 2+len(files); i++ {
		fs = append(fs, fmt.Sprintf("r@%d", i))
	}
	for i := 1; i <= ns+2*len(files); i++ {
		fs = append(fs, fmt.Sprintf("w@%d", i))
	}
	for i := 1; i <= ns; i++ {
		fs = append(fs, fmt.Sprintf("x@%d", i))
	}
	return fs
}

func genC09(tier string) []chist {
	thorough := tier == "thorough"
	confs := []cconf{
		{"none", []cfile{mk("1", "", 1, 3)}, false},
		{"none", []cfile{mk("1", "", 1, 2), mk("2", "", 3, 2)}, false},
		{"file", []cfile{mk("1", "", 1, 3)}, false},
		{"file", []cfile{mk("1", "", 1, 2), mk("2", "", 3, 2)}, false},
		{"all", []cfile{mk("1", "", 1, 2), mk("2", "", 3, 2)}, false},
		{"file", []cfile{mk("1", "none", 1, 3)}, false},
		{"file", []cfile{mk("1", "", 1, 2), mk("2", "none", 3, 3)}, false},
		{"file", []cfile{mk("1", "none", 1, 3), mk("2", "", 4, 1)}, false},
		{"none", []cfile{mk("1", "file", 1, 2), mk("2", "", 3, 2)}, false},
		{"none", []cfile{mk("1", "", 1, 2), mk("2", "file", 3, 2)}, false},
		{"all", []cfile{mk("1", "", 1, 2), mk("2", "all", 3, 1)}, true}, // "all" is not allowed in a file directive
		{"all", []cfile{mk("1", "", 1, 2), mk("2", "none", 3, 2)}, true},
		{"file", []cfile{mk("1", "", 1, 2), mk("2", "bogus", 3, 2)}, true},
	}
	if thorough {
		confs = append(confs,
			cconf{"none", []cfile{mk("1", "", 1, 3), mk("2", "", 4, 3)}, false},
			cconf{"none", []cfile{mk("1", "", 1, 1), mk("2", "", 2, 2), mk("3", "", 4, 1)}, false},
			cconf{"file", []cfile{mk("1", "none", 1, 2), mk("2", "none", 3, 2)}, false},
			cconf{"all", []cfile{mk("1", "", 1, 3)}, false},
			cconf{"none", []cfile{mk("1", "", 1, 2), mk("2", "all", 3, 2)}, true},
		)
	}
	clean := func(mode string) []attempt { return []attempt{{mode: mode}, {mode: mode}} }
	var hs []chist
	add := func(family string, c cconf, as ...attempt) {
		hs = append(hs, chist{family: family, files: c.files, badDir: c.bad, attempts: append(as, clean(c.mode)...)})
	}
	hasNoTx := func(c cconf) bool {
		if c.mode == "none" {
			return true
		}
		for _, f := range c.files {
			if f.dir == "none" {
				return true
			}
		}
		return false
	}
	for ci, c := range confs {
		pos := faultPositions(c.files)
		// (1) every single fault position
		add("no-fault", c)
		for _, f := range pos {
			add("single-fault", c, attempt{mode: c.mode, faults: []string{f}})
		}
		if c.bad {
			continue
		}
		// (2) two faults in one run: a failing statement and a failing revision write (every pair)
		if hasNoTx(c) || thorough {
			for _, fx := range pos {
				if fx[0] != 'x' {
					continue
				}
				for _, fw := range pos {
					if fw[0] == 'w' {
						add("two-faults-one-run", c, attempt{mode: c.mode, faults: []string{fx, fw}})
					}
				}
			}
		}
		// (3) two faults in successive runs (every pair of positions)
		if ci == 0 || ci == 5 || thorough && hasNoTx(c) {
			for _, f1 := range pos {
				if f1[0] == 'r' {
					continue // a failed read changes nothing: the next run is the single-fault history
				}
				for _, f2 := range pos {
					add("two-faults-two-runs", c, attempt{mode: c.mode, faults: []string{f1}}, attempt{mode: c.mode, faults: []string{f2}})
				}
			}
		}
		// (4) tail edits that change the statement count between the attempts, then every fault position
		if hasNoTx(c) && (ci == 0 || ci == 1 || ci == 5 || ci == 6 || thorough) {
			for _, f1 := range pos {
				if f1[0] == 'r' {
					continue
				}
				for _, ed := range []string{"append", "drop-last"} {
					add("tail-edit", c, attempt{mode: c.mode, faults: []string{f1}}, attempt{mode: c.mode, edit: ed})
					for _, f2 := range pos {
						if f2[0] == 'r' && !thorough && f2 != "r@3" {
							continue
						}
						add("tail-edit", c, attempt{mode: c.mode, faults: []string{f1}}, attempt{mode: c.mode, edit: ed, faults: []string{f2}})
					}
				}
			}
		}
		// (5) the resuming run uses another --tx-mode
		if c.mode == "none" && (ci == 0 || ci == 1) {
			for _, f1 := range pos {
				if f1[0] == 'r' {
					continue
				}
				for _, m2 := range []string{"file", "all"} {
					add("mode-change", c, attempt{mode: "none", faults: []string{f1}}, attempt{mode: m2})
					for _, f2 := range pos {
						if f2[0] != 'r' || thorough {
							add("mode-change", c, attempt{mode: "none", faults: []string{f1}}, attempt{mode: m2, faults: []string{f2}})
						}
					}
				}
			}
		}
		// (6) a count argument
		if len(c.files) > 1 {
			add("count", c, attempt{mode: c.mode, count: 1})
			for _, f := range pos {
				if f[0] != 'r' {
					add("count", c, attempt{mode: c.mode, count: 1, faults: []string{f}})
				}
			}
		}
	}
	return hs
}

func runC09(w *out.W, tier string) {
	hs := genC09(tier)
	for i := range hs {
		hs[i].id = fmt.Sprintf("c09-%d", i+1)
	}
	w.Rule = "exhaustive: 13 (thorough 18) directories (files x statements: [3], [2,2], [3,1], [2,3], ...) x --tx-mode {none,file,all} x per-file `txmode none|file|all` directives (valid and invalid) x { no fault; every single position of a failing revisions SELECT / revisions upsert / migration statement; every pair (failing statement, failing upsert) in one run; every pair of positions in two successive runs; a tail edit that changes the statement count (append / drop the last statement of the partially applied file, re-hashed) between the attempts x every fault position of the resuming run; resuming under another --tx-mode; count argument 1 }, then apply, apply, status without faults; real binary, Ent revision store, real SQLite file, faults injected below database/sql (sqlitefault://). Histories whose fault position is never reached are dropped (same as the history without that fault). Non-trivial = an injected fault fired; distinct by the whole history"
	tmp, _ := os.MkdirTemp(scratch(), "vc9p")
	os.MkdirAll(filepath.Join(tmp, "m"), 0o755)
	pr := runCLI(tmp, nil, "migrate", "apply", "--dir", "file://"+filepath.Join(tmp, "m"), "--url", "sqlitefault://"+filepath.Join(tmp, "p.db"))
	os.RemoveAll(tmp)
	if strings.Contains(pr.Stderr+pr.Stdout, "unknown driver") {
		w.Violation("c09-0", "hook-missing", "the CLI under test does not know the sqlitefault:// scheme: add notes/hooks/cmd_atlas_verif_sqlfault.go as cmd/atlas/verif_sqlfault.go to the atlas tree (add-only, //go:build verif)")
		return
	}
	results := make([]cres, len(hs))
	jobs := make([]func(), len(hs))
	for i := range hs {
		i := i
		jobs[i] = func() { results[i] = runC09Hist(hs[i]) }
	}
	nw := 2 * runtime.NumCPU()
	if nw > 32 {
		nw = 32
	}
	clirun.Parallel(nw, jobs)
	seen := map[string]bool{}
	for _, r := range results {
		h := r.h
		if r.err != nil {
			w.Violation(h.id, "harness", "harness error: "+r.err.Error()+": "+h.desc())
			continue
		}
		// drop histories in which a requested fault was not reached or a requested edit was not possible
		// (they are other histories of the enumeration), and exact duplicates
		skip := false
		fired := false
		for i, a := range h.attempts {
			nf := 0
			for _, c := range r.runs[i].sqllog {
				if strings.HasSuffix(c, ":FAIL") {
					nf++
				}
			}
			if nf != len(a.faults) || a.edit != "" && r.edited[i] == "" {
				skip = true
			}
			fired = fired || nf > 0
		}
		key := r.caseLine()
		if skip || seen[key] {
			w.Count("dropped:unreached-or-duplicate")
			continue
		}
		seen[key] = true
		w.Case(h.id, key, r.obsLines())
		w.Count("family:" + h.family)
		for i, a := range h.attempts {
			if len(a.faults) > 0 {
				w.Count("faulted-run:" + a.mode + ":" + strings.SplitN(r.runs[i].outcome, ":", 2)[0])
			}
			if r.edited[i] != "" {
				w.Count("edit:" + strings.SplitN(r.edited[i], "@", 2)[0])
			}
		}
		if fired {
			w.NonTrivial(key)
		}
		oracleC09(w, r)
	}
}
