package main

// Round 3, stage `replay` (oracle only): plans made from a REPLAYED history, what
// `atlas migrate diff` does.  The real migrate.Planner (PlanSchema / Plan / WritePlan) works
// over a real MemDir with a dev driver that is built from the real differ and planner of
// the dialect (mysql.DefaultDiff + DefaultPlan / postgres....) and that "applies" a
// statement by recording it; what it answers to InspectSchema / InspectRealm is the schema
// graph the history so far leads to, freshly built under the DEV database's own schema name
// (which differs from the desired schema's name, as with `--dev-url .../dev` and a schema
// file that says `schema "app"`).  Each case is a history of 1-3 migrations followed by a
// plan that drops / modifies foreign keys, indexes, columns, checks, enums and tables, so
// that its reverse statements (and DROPs) are built from the replayed objects.

import (
	"path/filepath"
	"context"
	"database/sql"
	"errors"
	"fmt"
	"reflect"
	"strings"
	"time"

	"ariga.io/atlas/sql/migrate"
	"ariga.io/atlas/sql/mysql"
	"ariga.io/atlas/sql/postgres"
	"ariga.io/atlas/sql/schema"

	"verifharness/internal/out"
	"verifharness/internal/rng"
)

// ---- building a fully linked schema graph from descriptors

func buildSchema(pg bool, name string, tabs []dtab) *schema.Schema {
	s := schema.New(name)
	w := &world{pg: pg, tables: map[string]*schema.Table{}, full: map[string]bool{}}
	for _, d := range tabs {
		t := &schema.Table{Name: d.name}
		for _, c := range d.cols {
			col := w.column(c)
			if e, ok := col.Type.Type.(*schema.EnumType); ok {
				e.Values = append([]string(nil), c.vals...)
				if len(e.Values) == 0 {
					e.Values = []string{"a", "b"}
				}
				if pg {
					e.Schema = s
					s.Objects = append(s.Objects, e)
				} else {
					e.T, e.Schema = "enum", nil
				}
			}
			t.Columns = append(t.Columns, col)
		}
		if len(d.pk) > 0 {
			t.PrimaryKey = w.pkey(t, d.pk)
		}
		for _, i := range d.idx {
			t.Indexes = append(t.Indexes, w.index(t, i))
		}
		for _, c := range d.chks {
			t.Attrs = append(t.Attrs, w.check(c))
		}
		if d.comment != "" {
			t.Attrs = append(t.Attrs, &schema.Comment{Text: d.comment})
		}
		s.AddTables(t)
		w.tables[d.name], w.full[d.name] = t, true
	}
	for _, d := range tabs {
		t := w.tables[d.name]
		for _, f := range d.fks {
			fk := w.fk(t, f)
			switch f.ondel {
			case "setnull":
				fk.OnDelete = schema.SetNull
			case "noaction":
				fk.OnDelete = schema.NoAction
			}
			t.ForeignKeys = append(t.ForeignKeys, fk)
		}
	}
	return s
}

// ---- the dev driver

type devDrv struct {
	pg       bool
	devName  string // the schema the dev connection is bound to
	realm    bool   // realm-scoped connection (Planner.Plan)
	state    []dtab // what the directory replays to
	executed []string
	history  []string // statements of the files written so far
	snaps    int
	// round 5 (PlanWithExclude): the dev database also holds a table the history does not create
	// (e.g. a revisions table) -- reported by every inspection whose Exclude patterns do not match it
	extra     string
	sawExcl   int // inspections that carried the exclude patterns
	sawNoExcl int
}

func (d *devDrv) differ() schema.Differ {
	if d.pg {
		return postgres.DefaultDiff
	}
	return mysql.DefaultDiff
}

func (d *devDrv) RealmDiff(from, to *schema.Realm, opts ...schema.DiffOption) ([]schema.Change, error) {
	return d.differ().RealmDiff(from, to, opts...)
}
func (d *devDrv) SchemaDiff(from, to *schema.Schema, opts ...schema.DiffOption) ([]schema.Change, error) {
	return d.differ().SchemaDiff(from, to, opts...)
}
func (d *devDrv) TableDiff(from, to *schema.Table, opts ...schema.DiffOption) ([]schema.Change, error) {
	return d.differ().TableDiff(from, to, opts...)
}
func (d *devDrv) QueryContext(context.Context, string, ...any) (*sql.Rows, error) {
	return nil, errors.New("devDrv: no queries")
}
func (d *devDrv) ExecContext(_ context.Context, q string, _ ...any) (sql.Result, error) {
	d.executed = append(d.executed, q)
	return nil, nil
}

// current: the graph a real inspection would return after the statements executed so far.
func (d *devDrv) current() (*schema.Schema, error) {
	norm := func(ss []string) string {
		var o []string
		for _, s := range ss {
			o = append(o, oneLine(strings.TrimSuffix(strings.TrimSpace(s), ";")))
		}
		return strings.Join(o, "\x00")
	}
	if norm(d.executed) != norm(d.history) {
		return nil, fmt.Errorf("devDrv: inspected after %d statement(s), the history has %d", len(d.executed), len(d.history))
	}
	return buildSchema(d.pg, d.devName, d.state), nil
}
// withExtra: the table outside the history, unless one of the exclude patterns names it.
func (d *devDrv) withExtra(s *schema.Schema, exclude []string) {
	if d.extra == "" {
		return
	}
	for _, p := range exclude {
		if ok, _ := filepath.Match(p, d.extra); ok {
			d.sawExcl++
			return
		}
	}
	d.sawNoExcl++
	t := schema.NewTable(d.extra).AddColumns(schema.NewIntColumn("id", "int"))
	s.AddTables(t)
}
func (d *devDrv) InspectSchema(_ context.Context, name string, o *schema.InspectOptions) (*schema.Schema, error) {
	if name != "" && name != d.devName {
		return nil, &schema.NotExistError{Err: fmt.Errorf("schema %q was not found", name)}
	}
	s, err := d.current()
	if err != nil {
		return nil, err
	}
	if o != nil {
		d.withExtra(s, o.Exclude)
	} else {
		d.withExtra(s, nil)
	}
	schema.NewRealm(s)
	return s, nil
}
func (d *devDrv) InspectRealm(_ context.Context, o *schema.InspectRealmOption) (*schema.Realm, error) {
	s, err := d.current()
	if err != nil {
		return nil, err
	}
	if o != nil {
		var pats []string
		for _, p := range o.Exclude { // realm patterns: <schema>.<table> or *.<table>
			if i := strings.LastIndex(p, "."); i >= 0 {
				p = p[i+1:]
			}
			pats = append(pats, p)
		}
		d.withExtra(s, pats)
	} else {
		d.withExtra(s, nil)
	}
	return schema.NewRealm(s), nil
}
func (d *devDrv) Lock(context.Context, string, time.Duration) (schema.UnlockFunc, error) {
	return func() error { return nil }, nil
}
func (d *devDrv) PlanChanges(ctx context.Context, name string, cs []schema.Change, opts ...migrate.PlanOption) (*migrate.Plan, error) {
	if d.pg {
		return postgres.DefaultPlan.PlanChanges(ctx, name, cs, opts...)
	}
	return mysql.DefaultPlan.PlanChanges(ctx, name, cs, opts...)
}
func (d *devDrv) ApplyChanges(context.Context, []schema.Change, ...migrate.PlanOption) error {
	return errors.New("devDrv: ApplyChanges is not used")
}
func (d *devDrv) Snapshot(context.Context) (migrate.RestoreFunc, error) {
	if len(d.executed) != 0 {
		return nil, &migrate.NotCleanError{Reason: "found table"}
	}
	d.snaps++
	return func(context.Context) error { d.executed = nil; return nil }, nil
}
func (d *devDrv) CheckClean(context.Context, *migrate.TableIdent) error { return nil }

var _ migrate.Driver = (*devDrv)(nil)

// ---- schema evolutions on descriptors

func cloneTabs(ts []dtab) []dtab {
	out := make([]dtab, len(ts))
	for i, t := range ts {
		n := t
		n.cols = append([]dcol(nil), t.cols...)
		n.pk = append([]string(nil), t.pk...)
		n.idx = append([]didx(nil), t.idx...)
		n.fks = append([]dfk(nil), t.fks...)
		n.chks = append([]dchk(nil), t.chks...)
		out[i] = n
	}
	return out
}

func colUsed(t dtab, c string) bool {
	for _, p := range t.pk {
		if p == c {
			return true
		}
	}
	for _, i := range t.idx {
		for _, ic := range i.cols {
			if ic == c {
				return true
			}
		}
	}
	for _, f := range t.fks {
		for _, fc := range f.cols {
			if fc == c {
				return true
			}
		}
	}
	for _, k := range t.chks {
		if strings.Contains(k.expr, c) {
			return true
		}
	}
	return false
}

func referenced(ts []dtab, name, col string) bool {
	for _, t := range ts {
		for _, f := range t.fks {
			if f.ref == name && (col == "" || len(f.rcols) > 0 && f.rcols[0] == col) {
				return true
			}
		}
	}
	return false
}

// evolveKinds: A* add, D* drop, M* modify.
var evolveKinds = []string{"AT", "DT", "AC", "DC", "MC", "ME", "AI", "DI", "MI", "AF", "DF", "MF", "AK", "DK", "MK", "TC"}
var destructive = []string{"DT", "DC", "MC", "ME", "DI", "MI", "DF", "MF", "DK", "MK", "DF", "MF", "DI"}

// evolve applies one evolution of the given kind (or returns false when the state offers
// no object for it).
func (g *gen) evolve(ts []dtab, kind string) ([]dtab, bool) {
	ts = cloneTabs(ts)
	if kind == "AT" || len(ts) == 0 {
		t := g.tab(nil, "t_")
		for i := range t.cols {
			if t.cols[i].typ == "enum" {
				t.cols[i].vals = []string{"a", "b"}
			}
		}
		if len(ts) > 0 && g.r.Chance(2, 3) {
			ref := ts[g.r.Intn(len(ts))]
			t.cols = append(t.cols, dcol{name: g.name("c_"), typ: "int", null: true})
			t.fks = append(t.fks, g.fkTo(t, ref))
		}
		return append(ts, t), true
	}
	ti := g.r.Intn(len(ts))
	t := &ts[ti]
	switch kind {
	case "DT":
		// the foreign keys that point to the table go with it
		name := t.name
		var rest []dtab
		for _, o := range ts {
			if o.name == name {
				continue
			}
			var fks []dfk
			for _, f := range o.fks {
				if f.ref != name {
					fks = append(fks, f)
				}
			}
			o.fks = fks
			rest = append(rest, o)
		}
		return rest, true
	case "AE":
		t.cols = append(t.cols, dcol{name: g.name("c_"), typ: "enum", enum: g.name("e_"), vals: []string{"a", "b"}, null: true})
	case "AC":
		c := g.col(nil)
		if c.typ == "enum" {
			c.vals = []string{"a", "b"}
		}
		c.null = true
		t.cols = append(t.cols, c)
	case "DC":
		for i := len(t.cols) - 1; i > 0; i-- {
			if !colUsed(*t, t.cols[i].name) && !referenced(ts, t.name, t.cols[i].name) {
				t.cols = append(t.cols[:i], t.cols[i+1:]...)
				return ts, true
			}
		}
		return ts, false
	case "MC":
		for i := len(t.cols) - 1; i > 0; i-- {
			c := &t.cols[i]
			if c.typ == "enum" || colUsed(*t, c.name) || referenced(ts, t.name, c.name) {
				continue
			}
			switch g.r.Intn(4) {
			case 0:
				c.null = !c.null
			case 1:
				c.comment = "note " + itoa(g.n) + "x"
				g.n++
			case 2:
				if c.typ == "int" {
					c.typ, c.def = "text", ""
				} else {
					c.typ, c.def = "int", ""
				}
			default:
				if g.pg {
					c.typ, c.enum, c.vals, c.def = "enum", g.name("e_"), []string{"a", "b"}, ""
				} else {
					c.null = !c.null
				}
			}
			return ts, true
		}
		return ts, false
	case "ME":
		for i := range t.cols {
			c := &t.cols[i]
			if c.typ != "enum" {
				continue
			}
			switch {
			case g.r.Chance(1, 3) && !colUsed(*t, c.name):
				t.cols = append(t.cols[:i], t.cols[i+1:]...) // the enum type goes with its column
			case g.r.Bool() && !colUsed(*t, c.name):
				c.typ, c.enum, c.vals = "text", "", nil
			default:
				c.vals = append(append([]string(nil), c.vals...), "v"+itoa(len(c.vals)))
			}
			return ts, true
		}
		return ts, false
	case "AI":
		t.idx = append(t.idx, g.idx(*t))
	case "DI":
		if len(t.idx) == 0 {
			return ts, false
		}
		i := g.r.Intn(len(t.idx))
		t.idx = append(t.idx[:i], t.idx[i+1:]...)
	case "MI":
		if len(t.idx) == 0 {
			return ts, false
		}
		i := &t.idx[g.r.Intn(len(t.idx))]
		switch g.r.Intn(3) {
		case 0:
			if i.uconst {
				return ts, false
			}
			i.unique = !i.unique
		case 1:
			i.comment = "idx note " + itoa(g.n)
			g.n++
		default:
			i.cols = []string{t.cols[g.r.Intn(len(t.cols))].name}
			if len(t.cols) > 1 && g.r.Bool() {
				i.cols = append(i.cols, t.cols[0].name)
				if i.cols[0] == i.cols[1] {
					i.cols = i.cols[:1]
				}
			}
		}
	case "AF":
		ref := ts[g.r.Intn(len(ts))]
		c := dcol{name: g.name("c_"), typ: "int", null: true}
		t.cols = append(t.cols, c)
		t.fks = append(t.fks, g.fkTo(*t, ref))
	case "DF":
		if len(t.fks) == 0 {
			return ts, false
		}
		i := g.r.Intn(len(t.fks))
		t.fks = append(t.fks[:i], t.fks[i+1:]...)
	case "MF":
		if len(t.fks) == 0 {
			return ts, false
		}
		f := &t.fks[g.r.Intn(len(t.fks))]
		if g.r.Bool() && len(ts) > 1 {
			ref := ts[(ti+1+g.r.Intn(len(ts)-1))%len(ts)]
			f.ref, f.rcols = ref.name, []string{ref.cols[0].name}
		} else if f.ondel == "" {
			f.ondel = "setnull"
		} else {
			f.ondel = ""
		}
	case "AK":
		t.chks = append(t.chks, dchk{g.name("k_"), "(" + quoteIdent(t.cols[0].name, g.pg) + " <> 3)"})
	case "DK":
		if len(t.chks) == 0 {
			return ts, false
		}
		t.chks = t.chks[:len(t.chks)-1]
	case "MK":
		if len(t.chks) == 0 {
			return ts, false
		}
		t.chks[0].expr = "(" + quoteIdent(t.cols[0].name, g.pg) + " <> " + itoa(5+g.n) + ")"
		g.n++
	case "TC":
		t.comment = "table note " + itoa(g.n)
		g.n++
	}
	return ts, true
}

var replaySpurious = map[string]int{}

// ---- one case

func runReplay(w *out.W, tier string) {
	w.Rule = "distinct (dialect, qualifier class, statement form) triples seen in statements planned from a replayed history (identifiers and numbers blanked)"
	r := rng.FromEnv(0x4E91A7)
	cnt := 2500
	if tier == "thorough" {
		cnt = 40000
	}
	for i := 0; i < cnt; i++ {
		g := &gen{r: r, pg: i%2 == 1, acyclic: true}
		if i%4 == 0 {
			g.rshape = 3
			// a name with the dialect's quote character makes the written file unreadable
			// (recorded finding): one shaped case in four may draw one
			g.noQuote = i%16 != 0
		}
		dev := g.shaped(fmt.Sprintf("dev%dx", 100+r.Intn(900)), g.pickShape(), "")
		user := g.shaped(fmt.Sprintf("mkr%dx", 100+r.Intn(900)), g.pickShape(), "")
		cfg := planCfg{pg: g.pg, marker: user, dev: dev, mode: migrate.PlanModeUnset}
		scope := "schema"
		switch (i / 2) % 4 {
		case 0, 1:
			cfg.q = sp("")
		case 2:
			cfg.q = sp(g.shaped(fmt.Sprintf("qz%d", r.Intn(100)), g.pickShape(), ""))
		default:
			// realm scope (Planner.Plan): no qualifier requested, the dev database carries the
			// schema under the desired name, every reference carries that name
			scope, cfg.dev = "realm", ""
		}
		if r.Chance(1, 3) {
			cfg.indent = "  "
		}
		replayCase(w, fmt.Sprintf("r%d", i), g, cfg, scope)
	}
	runReplaySweep(w, tier, r)
	for k, v := range replaySpurious {
		w.Dist["obs:modified-without-description-change:"+k] = v
	}
}

func replayCase(w *out.W, id string, g *gen, cfg planCfg, scope string, script ...[]string) {
	dial := "mysql"
	if cfg.pg {
		dial = "pg"
	}
	drv := &devDrv{pg: cfg.pg, devName: cfg.dev, realm: scope == "realm"}
	if drv.realm {
		drv.devName = cfg.marker
	}
	dir := &migrate.MemDir{}
	opts := []migrate.PlannerOption{migrate.PlanWithIndent(cfg.indent)}
	if cfg.q != nil {
		opts = append(opts, migrate.PlanWithSchemaQualifier(*cfg.q))
	}
	// round 5: one case in three plans with PlanWithExclude: the dev database holds a table that is
	// not part of the history; the exclude pattern must reach every inspection of the planner
	excl := g.r.Chance(1, 3)
	if excl {
		drv.extra = fmt.Sprintf("zz_revisions%d", g.r.Intn(90))
		pat := "zz_revisions*"
		if drv.realm {
			pat = "*." + pat
		}
		opts = append(opts, migrate.PlanWithExclude(pat))
		w.Count("exclude:yes")
	}
	pl := migrate.NewPlanner(drv, dir, opts...)
	steps := 2 + g.r.Intn(3) // 1-3 migrations of history + the judged next plan(s)
	if len(script) > 0 {
		steps = len(script)
	}
	var state []dtab
	var trail []string
	w.Count("dialect:" + dial)
	w.Count("scope:" + scope)
	w.Count("qualifier:" + qclass(cfg.q))
	w.Count("steps:" + itoa(steps))
	nst := 0
	// judge: the property oracle on every Cmd and reverse statement of a plan
	judge := func(plan *migrate.Plan, head string) {
		qo, qc := byte('`'), byte('`')
		if cfg.pg {
			qo, qc = '"', '"'
		}
		for _, c := range plan.Changes {
			for ri, st := range append([]string{c.Cmd}, reverseStmts(c)...) {
				nst++
				where := "cmd"
				if ri > 0 {
					where = "reverse"
				}
				if excl && strings.Contains(st, drv.extra) {
					w.Violation(id, "excluded-table-planned", fmt.Sprintf("%s: %s statement names the excluded table %s: %s", head, where, drv.extra, oneLine(st)))
				}
				chs, lits, inLits := judgeLex(w, id, head, where, st, cfg)
				all := append(chs[:len(chs):len(chs)], inLits...)
				w.NonTrivial(dial + "|" + qclass(cfg.q) + "|" + stmtShape(st, qo, qc))
				if cfg.q == nil {
					checkChains(w, id, head, where, st, all, cfg, cfg.marker, true)
					continue
				}
				up := strings.ToUpper(st)
				for _, p := range schemaStmt {
					if strings.HasPrefix(up, p) {
						w.Violation(id, "schema-statement", fmt.Sprintf("%s: %s statement %s", head, where, oneLine(st)))
					}
				}
				if mentions(st, cfg.dev, all, lits) {
					w.Violation(id, "dev-name-leak", fmt.Sprintf("%s: %s statement mentions the dev database's schema name %s: %s", head, where, cfg.dev, oneLine(st)))
				}
				if mentions(st, cfg.marker, all, lits) {
					w.Violation(id, "marker-leak", fmt.Sprintf("%s: %s statement mentions the schema name %s: %s", head, where, cfg.marker, oneLine(st)))
				}
				checkChains(w, id, head, where, st, all, cfg, *cfg.q, false)
			}
		}
	}
	for step := 1; step <= steps; step++ {
		// the next desired state
		next := state
		var kinds []string
		lone := g.r.Chance(1, 4)
		if len(script) > 0 {
			// sweep: the evolutions of this step are prescribed (a kind the state offers no
			// object for is retried on other tables, then left out)
			for _, k := range script[step-1] {
				for try := 0; try < 12; try++ {
					if nx, ok := g.evolve(next, k); ok {
						next = nx
						kinds = append(kinds, k)
						break
					}
				}
			}
		}
		for n := 1 + g.r.Intn(3); n > 0 && len(script) == 0; {
			k := rng.Pick(g.r, evolveKinds)
			if step == 1 && len(kinds) < 2 {
				k = "AT"
			} else if step == steps && lone {
				k, n = "DT", 1 // a lone DROP TABLE: its reverse CREATE TABLE is built from the replayed table
			} else if step == steps && g.r.Chance(2, 3) {
				k = rng.Pick(g.r, destructive)
			}
			if nx, ok := g.evolve(next, k); ok {
				next = nx
				kinds = append(kinds, k)
				n--
			} else if g.r.Chance(1, 8) {
				n--
			}
		}
		caseNames = g.names
		cfg.ownOf = map[string]*string{}
		for n, cl := range g.names {
			if cl != "" {
				cfg.ownOf[n] = sp(cfg.marker)
			}
		}
		trail = append(trail, strings.Join(kinds, "+"))
		head := fmt.Sprintf("%s %s q=%s dev=%q desired=%q step %d/%d [%s]", dial, scope, opt(cfg.q), cfg.dev, cfg.marker, step, steps, strings.Join(trail, " | "))
		desired := schema.NewRealm(buildSchema(cfg.pg, cfg.marker, next))
		name := fmt.Sprintf("s%d", step)
		caseLine := ""
		if scope == "schema" {
			caseLine = replayCaseLine(drv, cfg, state, next, desired.Schemas[0])
		}
		record := func(obs string) {
			if len(script) > 0 && step == steps {
				w.Count("sweep-final:" + strings.Join(script[step-1], "+") + ":" + strings.Join(kinds, "+") + ":" + strings.SplitN(obs, ":", 2)[0])
			}
			if caseLine != "" {
				w.Case(fmt.Sprintf("%s.s%d", id, step), caseLine, []string{obs})
			}
		}
		var (
			plan *migrate.Plan
			err  error
			pnc  any
		)
		func() {
			defer func() { pnc = recover() }()
			if scope == "realm" {
				plan, err = pl.Plan(context.Background(), name, migrate.Realm(desired))
			} else {
				plan, err = pl.PlanSchema(context.Background(), name, migrate.Realm(desired))
			}
		}()
		switch {
		case pnc != nil:
			w.Count("outcome:panic")
			w.Violation(id, "replay-plan-panic", fmt.Sprintf("%s: %v", head, pnc))
			w.ImplOnly(id, head+" => panic")
			return
		case errors.Is(err, migrate.ErrNoPlan):
			w.Count("outcome:noplan")
			record("noplan")
			state = next
			drv.state = state
			continue
		case err != nil:
			w.Count("outcome:error")
			w.Count("error:" + errClass(err.Error()))
			cls := "replay-plan-rejected"
			quoteCase := false
			for _, n := range specialNames(cfg) {
				quoteCase = quoteCase || hasQuoteChar(n, cfg.pg)
			}
			switch {
			case strings.Contains(err.Error(), "schemas when migration plan is scoped to one"):
				// the defect repaired by fix C16-planner-replay-rename (shallow rename of the
				// replayed schema) explains the rejection only when the two names differ, a table
				// is dropped and a table is added or modified (C16_replay_before_fix); any other
				// "found N schemas" lands in its own class
				cls = "replay-plan-rejected-schemas-unexplained"
				if replayExplained(drv, cfg, state, next, desired.Schemas[0]) {
					cls = "replay-plan-rejected-two-schemas"
				}
				var n int
				fmt.Sscanf(err.Error(), "found %d schemas", &n)
				record(fmt.Sprintf("rejected:multi:%d", n))
			case quoteCase && (strings.Contains(err.Error(), "scanning statements from") || strings.Contains(err.Error(), "devDrv: inspected after")):
				// the history holds a name with an unescaped quote character: the statement
				// scanner cannot split the file the planner wrote (face of ident-quote-unescaped)
				cls = "replay-history-unreadable-quote-char"
			case strings.Contains(err.Error(), "devDrv: inspected after"):
				cls = "replay-not-history"
			}
			w.Violation(id, cls, fmt.Sprintf("%s: a single-schema evolution is rejected: %v", head, err))
			w.ImplOnly(id, head+" => error")
			return
		}
		w.Count("outcome:planned")
		record("planned")
		for _, c := range plan.Changes {
			w.Count(fmt.Sprintf("source:%T", c.Source))
		}
		for _, k := range kinds {
			w.Count("evolve:" + k)
		}
		plan.Version = fmt.Sprintf("%04d", step)
		judge(plan, head)
		if err := pl.WritePlan(plan); err != nil {
			w.Violation(id, "replay-writeplan-error", fmt.Sprintf("%s: %v", head, err))
			w.ImplOnly(id, head+" => write error")
			return
		}
		// the file as written: no line of it may name either schema
		if cfg.q != nil {
			files, _ := dir.Files()
			f := files[len(files)-1]
			for _, n := range []string{cfg.dev, cfg.marker} {
				if !isKeyword(n) && strings.Contains(string(f.Bytes()), n) {
					w.Violation(id, "file-names-schema", fmt.Sprintf("%s: the written file %s mentions the schema name %s", head, f.Name(), n))
				}
			}
		}
		for _, c := range plan.Changes {
			drv.history = append(drv.history, c.Cmd)
		}
		state = next
		drv.state = state
	}
	// round 5: the checkpoint of the directory (Planner.CheckpointSchema / Checkpoint): the whole
	// replayed state planned as additions to an empty schema that carries the dev database's name
	{
		head := fmt.Sprintf("%s %s q=%s dev=%q desired=%q CHECKPOINT after [%s]", dial, scope, opt(cfg.q), cfg.dev, cfg.marker, strings.Join(trail, " | "))
		var (
			ck  *migrate.Plan
			err error
			pnc any
		)
		func() {
			defer func() { pnc = recover() }()
			if scope == "realm" {
				ck, err = pl.Checkpoint(context.Background(), "ck")
			} else {
				ck, err = pl.CheckpointSchema(context.Background(), "ck")
			}
		}()
		obs := ""
		switch {
		case pnc != nil:
			w.Violation(id, "replay-plan-panic", fmt.Sprintf("%s: %v", head, pnc))
			obs = "panic"
		case err != nil:
			w.Count("checkpoint:error")
			w.Count("error:checkpoint:" + errClass(err.Error()))
			obs = "rejected:error"
			if strings.Contains(err.Error(), "schemas when migration plan is scoped to one") {
				var n int
				fmt.Sscanf(err.Error(), "found %d schemas", &n)
				obs = fmt.Sprintf("rejected:multi:%d", n)
			}
			w.Violation(id, "checkpoint-rejected", fmt.Sprintf("%s: the checkpoint of a single-schema history is rejected: %v", head, err))
		case len(ck.Changes) == 0:
			w.Count("checkpoint:empty")
			obs = "noplan"
		default:
			w.Count("checkpoint:planned")
			obs = "planned"
			judge(ck, head)
			if excl {
				for _, c := range ck.Changes {
					if strings.Contains(c.Cmd, drv.extra) {
						w.Violation(id, "excluded-table-planned", fmt.Sprintf("%s: the checkpoint holds the excluded table %s: %s", head, drv.extra, oneLine(c.Cmd)))
					}
				}
			}
		}
		if scope == "schema" {
			// the model's view (Qual/Checkpoint.v Planner_checkpoint): q mode dev dev nobjs obj* 0 ncur (name enum)* 0
			ts := []string{opt(cfg.q), "0", hx(drv.devName), hx(drv.devName)}
			var objs, tabs []string
			for _, t := range state {
				hasEnum := false
				for _, c := range t.cols {
					if c.typ == "enum" && cfg.pg {
						hasEnum = true
						objs = append(objs, hx(drv.devName))
					}
				}
				tabs = append(tabs, hx(t.name), b01(hasEnum))
			}
			ts = append(ts, itoa(len(objs)))
			ts = append(ts, objs...)
			ts = append(ts, "0", itoa(len(state)))
			ts = append(ts, tabs...)
			ts = append(ts, "0")
			w.Case(id+".ck", strings.Join(ts, " "), []string{obs})
		}
		if excl && drv.sawNoExcl > 0 {
			w.Violation(id, "exclude-not-passed", fmt.Sprintf("%s: %d inspection(s) of the planner did not carry the exclude pattern (%d did)", head, drv.sawNoExcl, drv.sawExcl))
		}
	}
	w.ImplOnly(id, fmt.Sprintf("%s %s q=%s steps=%d => %d statements, %d replays", dial, scope, opt(cfg.q), steps, nst, drv.snaps))
}

// replayCaseLine: the model's view of one schema-scoped planning step (Qual/Replay.v):
//
//	q mode dev user  nobjs obj*  ncur (name enum)*  ndes (name enum)*  nmod name*
//
// [modified] is asked of the real differ (TableDiff on freshly built graphs, the replayed
// one under the dev name); the object changes are the enum types dropped / modified / added.
func replayCaseLine(drv *devDrv, cfg planCfg, cur, des []dtab, desS *schema.Schema) string {
	// Planner.plan renames the replayed schema object itself (fix C16-planner-replay-rename):
	// the differ sees the replayed tables and enum types under the desired name
	curS := buildSchema(cfg.pg, cfg.marker, cur)
	ts := []string{opt(cfg.q), "0", hx(drv.devName), hx(cfg.marker)}
	type en struct {
		name string
		vals string
	}
	enums := func(tabs []dtab) (out []en) {
		if !cfg.pg {
			return nil
		}
		for _, t := range tabs {
			for _, c := range t.cols {
				if c.typ == "enum" {
					out = append(out, en{c.enum, strings.Join(c.vals, ",")})
				}
			}
		}
		return
	}
	ce, de := enums(cur), enums(des)
	find := func(l []en, n string) (en, bool) {
		for _, e := range l {
			if e.name == n {
				return e, true
			}
		}
		return en{}, false
	}
	var objs []string
	for _, e := range ce {
		if e2, ok := find(de, e.name); !ok || e2.vals != e.vals {
			objs = append(objs, hx(drv.devName))
		}
	}
	for _, e := range de {
		if _, ok := find(ce, e.name); !ok {
			objs = append(objs, hx(cfg.marker))
		}
	}
	ts = append(ts, itoa(len(objs)))
	ts = append(ts, objs...)
	tabs := func(l []dtab) {
		ts = append(ts, itoa(len(l)))
		for _, t := range l {
			hasEnum := false
			for _, c := range t.cols {
				hasEnum = hasEnum || (c.typ == "enum" && cfg.pg)
			}
			ts = append(ts, hx(t.name), b01(hasEnum))
		}
	}
	tabs(cur)
	tabs(des)
	var mods []string
	for _, t1 := range curS.Tables {
		if t2, ok := desS.Table(t1.Name); ok {
			if ch, err := drv.TableDiff(t1, t2); err != nil || len(ch) > 0 {
				mods = append(mods, hx(t1.Name))
				for _, a := range cur {
					for _, b := range des {
						if a.name == t1.Name && b.name == t1.Name && reflect.DeepEqual(a, b) {
							// observation (not C16's subject): a table whose description did not
							// change is reported as modified
							replaySpurious[fmt.Sprintf("%v:%T", cfg.pg, ch[0])]++
						}
					}
				}
			}
		}
	}
	ts = append(ts, itoa(len(mods)))
	ts = append(ts, mods...)
	return strings.Join(ts, " ")
}

// runReplaySweep: the systematic part of stage replay.  A fixed shape of history -- three
// tables, then foreign keys / indexes / checks / an enum column added by a second migration --
// and then EACH evolution kind alone as the next plan (so that no drop / modification is
// judged only in company of another change), x qualifier {"", custom, realm scope} x dialect
// x a few draws of the names and of the table the evolution lands on.
func runReplaySweep(w *out.W, tier string, r *rng.R) {
	variants := 6
	if tier == "thorough" {
		variants = 60
	}
	id := 0
	for _, pg := range []bool{false, true} {
		for qi := 0; qi < 3; qi++ {
			for _, kind := range evolveKinds {
				for v := 0; v < variants; v++ {
					id++
					g := &gen{r: r, pg: pg, acyclic: true, noQuote: true}
					if v%3 == 2 {
						g.rshape = 3
					}
					dev := g.shaped(fmt.Sprintf("dev%dx", 100+r.Intn(900)), g.pickShape(), "")
					user := g.shaped(fmt.Sprintf("mkr%dx", 100+r.Intn(900)), g.pickShape(), "")
					cfg := planCfg{pg: pg, marker: user, dev: dev, mode: migrate.PlanModeUnset}
					scope := "schema"
					switch qi {
					case 0:
						cfg.q = sp("")
					case 1:
						cfg.q = sp(g.shaped(fmt.Sprintf("qz%d", r.Intn(100)), g.pickShape(), ""))
					default:
						scope, cfg.dev = "realm", ""
					}
					if v%2 == 1 {
						cfg.indent = "  "
					}
					w.Count("sweep-kind:" + kind)
					replayCase(w, fmt.Sprintf("v%d", id), g, cfg, scope,
						[]string{"AT", "AT", "AT"}, []string{"AF", "AF", "AI", "AI", "AK", "AE", "TC"}, []string{kind})
				}
			}
		}
	}
}

// replayExplained: the condition under which the shallow rename of Planner.plan makes
// CheckChangesScope see two schemas.
func replayExplained(drv *devDrv, cfg planCfg, cur, des []dtab, desS *schema.Schema) bool {
	if drv.devName == cfg.marker {
		return false
	}
	in := func(l []dtab, n string) bool {
		for _, t := range l {
			if t.name == n {
				return true
			}
		}
		return false
	}
	drop, addmod := false, false
	for _, t := range cur {
		drop = drop || !in(des, t.name)
	}
	for _, t := range des {
		addmod = addmod || !in(cur, t.name)
	}
	curS := buildSchema(cfg.pg, drv.devName, cur)
	for _, t1 := range curS.Tables {
		if t2, ok := desS.Table(t1.Name); ok {
			if ch, err := drv.TableDiff(t1, t2); err != nil || len(ch) > 0 {
				addmod = true
			}
		}
	}
	return drop && addmod
}
