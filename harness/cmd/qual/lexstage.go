package main

// Round 3, stage `lexq`: the oracle's identifier lexer (lexChains) against the extracted
// Coq reader Qual/Lexq.v lex_chain (the specification the C16_one_identifier theorems are
// about), and the three spellings of a qualified name against the model's: what the real
// sqlx.Builder writes (Table under a qualifier), Go's %q, and the correct spelling.
//
// case:  <id> <qo> <hex text>      observation:  chain=<hex.hex...> rest=<n>  |  none

import (
	"fmt"
	"strconv"
	"strings"

	"ariga.io/atlas/sql/schema"
	"ariga.io/atlas/sql/verifx"

	"verifharness/internal/out"
	"verifharness/internal/rng"
)

func lexObs(text string, pg bool) string {
	cs, _, _ := lexChains(text, pg)
	if len(cs) == 0 || cs[0].unterm {
		return "none"
	}
	var hs []string
	for _, p := range cs[0].parts {
		hs = append(hs, hx(p))
	}
	return "chain=" + strings.Join(hs, ".") + " rest=" + strconv.Itoa(len(text)-cs[0].end)
}

func runLexq(w *out.W, tier string) {
	w.Rule = "a case is non-trivial when the text holds a quote character, a dot or a backslash inside a name"
	n := 0
	one := func(pg bool, text string) {
		n++
		qo := 96
		if pg {
			qo = 34
		}
		id := fmt.Sprintf("l%d", n)
		w.Case(id, join(strconv.Itoa(qo), hx(text)), []string{lexObs(text, pg)})
		inner := strings.Trim(text, dq(pg))
		if strings.ContainsAny(inner, "`\"\\.") {
			w.NonTrivial(id)
		}
	}
	// (1) the three spellings of [q, t] for every shape in either position, then what follows
	posts := []string{"", " ", " (", ".", ".x", ", ", ")"}
	for _, pg := range []bool{false, true} {
		for _, sq := range append([]string{"keyword"}, shapeNames()...) {
			for _, st := range append([]string{"keyword"}, shapeNames()...) {
				g := &gen{pg: pg}
				q := g.shaped("qz1", sq, "")
				t := g.shaped("t_a2", st, "table")
				b := &verifx.Builder{QuoteOpening: dq(pg)[0], QuoteClosing: dq(pg)[0], Schema: &q}
				b.Table(&schema.Table{Name: t, Schema: schema.New("own")})
				raw := b.Buffer.String()
				good := quoteIdent(q, pg) + "." + quoteIdent(t, pg)
				gq := strconv.Quote(q) + "." + strconv.Quote(t)
				// the same qualifier through every qualifying method of the real Builder: the text
				// must read back as exactly [q, names...] (oracle; the recorded class when a name
				// holds the dialect's quote character)
				idx := g.shaped("i_a3", st, "index")
				other := g.shaped("oth4", sq, "")
				empty := ""
				type call struct {
					what string
					q    *string
					f    func(b *verifx.Builder)
					want []string
				}
				own := schema.New("own")
				tab := &schema.Table{Name: t, Schema: own}
				calls := []call{
					{"Table", &q, func(b *verifx.Builder) { b.Table(tab) }, []string{q, t}},
					{"TableResource(index)", &q, func(b *verifx.Builder) { b.TableResource(tab, &schema.Index{Name: idx}) }, []string{q, t, idx}},
					{"TableResource(column)", &q, func(b *verifx.Builder) { b.TableResource(tab, &schema.Column{Name: idx}) }, []string{q, t, idx}},
					{"TableColumn", &q, func(b *verifx.Builder) { b.TableColumn(tab, &schema.Column{Name: idx}) }, []string{q, t, idx}},
					{"SchemaResource", &q, func(b *verifx.Builder) { b.SchemaResource(own, idx) }, []string{q, idx}},
					{"RefTable", &q, func(b *verifx.Builder) { b.RefTable(&schema.Table{Name: "c", Schema: schema.New(other)}, tab) }, []string{q, t}},
					{"RefTable(cross-schema exception)", &empty, func(b *verifx.Builder) {
						b.RefTable(&schema.Table{Name: "c", Schema: own}, &schema.Table{Name: t, Schema: schema.New(other)})
					}, []string{other, t}},
					{"Table(own schema)", nil, func(b *verifx.Builder) { b.Table(&schema.Table{Name: t, Schema: schema.New(other)}) }, []string{other, t}},
					{"View", &q, func(b *verifx.Builder) { b.View(&schema.View{Name: t, Schema: own}) }, []string{q, t}},
					{"Func", &q, func(b *verifx.Builder) { b.Func(&schema.Func{Name: t, Schema: own}) }, []string{q, t}},
				}
				for _, c := range calls {
					bb := &verifx.Builder{QuoteOpening: dq(pg)[0], QuoteClosing: dq(pg)[0], Schema: c.q}
					bb.P("X")
					c.f(bb)
					bb.P("Y")
					text := strings.TrimPrefix(bb.Buffer.String(), "X ")
					one(pg, text)
					cs, _, mal := lexChains(text, pg)
					ok := mal == "" && len(cs) > 0 && len(cs[0].parts) == len(c.want)
					for k := 0; ok && k < len(c.want); k++ {
						ok = cs[0].parts[k] == c.want[k]
					}
					w.Count("method:" + c.what)
					if !ok {
						cls := "spelling-not-one-identifier"
						for _, n := range c.want {
							if hasQuoteChar(n, pg) {
								cls = "ident-quote-unescaped"
							}
						}
						w.Violation(fmt.Sprintf("l%d", n), cls, fmt.Sprintf("%s %s under qualifier %s writes %s, which does not read as %q", map[bool]string{false: "mysql", true: "pg"}[pg], c.what, opt(c.q), text, c.want))
					}
				}
				for _, post := range posts {
					one(pg, strings.TrimSuffix(raw, " ")+post)
					one(pg, good+post)
					if pg {
						one(pg, gq+post)
					}
				}
				w.Count("spelling-raw-is-correct:" + b01(strings.TrimSuffix(raw, " ") == good))
			}
		}
	}
	// (2) every text of length <= 5 over {quote, dot, a, space} that opens with the quote
	alpha := func(pg bool) []byte { return []byte{dq(pg)[0], '.', 'a', ' '} }
	for _, pg := range []bool{false, true} {
		al := alpha(pg)
		var rec func(pre []byte, k int)
		rec = func(pre []byte, k int) {
			one(pg, string(pre))
			if k == 0 {
				return
			}
			for _, c := range al {
				rec(append(append([]byte(nil), pre...), c), k-1)
			}
		}
		rec([]byte{al[0]}, 5)
	}
	w.Exhaust = true
	// (3) random texts over a wider alphabet
	r := rng.FromEnv(0x1E59)
	cnt := 4000
	if tier == "thorough" {
		cnt = 200000
	}
	for i := 0; i < cnt; i++ {
		pg := r.Bool()
		al := []byte{dq(pg)[0], dq(pg)[0], '.', '.', 'a', 'B', ' ', '\\', '\'', dq(!pg)[0], '(', ','}
		bs := []byte{dq(pg)[0]}
		for k := r.Intn(14); k > 0; k-- {
			bs = append(bs, al[r.Intn(len(al))])
		}
		one(pg, string(bs))
	}
}
