// Command qual is the harness of property C16 (schema-agnostic plans, requested
// qualifier always used).  Modes:
//
//	builder  call sequences on the real sqlx.Builder (through verifx.Builder) vs. the model
//	pgident  postgres typeIdent / schemaPrefix observed through DefaultPlan vs. the model
//	scope    sqlx.CheckChangesScope on generated change sets vs. the model + oracle
//	plan     mysql.DefaultPlan / postgres.DefaultPlan end to end: identifier chains of every
//	         Cmd and reverse statement vs. the reference skeleton + the property oracle
//	lexq     the oracle's dialect lexer and the spellings of a qualified name vs. Qual/Lexq.v
//	insp     round 5: change sets on tables AS INSPECTED (inspector-only attributes, serial <-> integer
//	         <-> identity of inspected columns): oracle + tie to the extended skeleton
//	stmtlex  round 5: the oracle's statement tokenizer vs Qual/StmtLex.v on every generated statement
//	replay   migrate.Planner (PlanSchema / Plan / WritePlan) over a MemDir and an in-process
//	         dev driver: plans made from a replayed history, property oracle
package main

import (
	"encoding/hex"
	"flag"
	"fmt"
	"os"
	"strings"

	"verifharness/internal/out"
)

func main() {
	mode := flag.String("mode", "builder", "builder|pgident|scope|plan")
	tier := flag.String("tier", "quick", "quick|thorough")
	outDir := flag.String("out", "", "output directory")
	flag.Parse()
	if *outDir == "" {
		fmt.Fprintln(os.Stderr, "missing -out")
		os.Exit(2)
	}
	w := out.New(*outDir)
	switch *mode {
	case "builder":
		runBuilder(w, *tier)
	case "pgident":
		runPgIdent(w, *tier)
	case "scope":
		runScope(w, *tier)
	case "plan":
		runPlan(w, *tier, false)
	case "skel":
		runPlan(w, *tier, true)
	case "stmtlex":
		runStmtLex(w, *tier)
	case "insp":
		runInsp(w, *tier)
	case "replay":
		runReplay(w, *tier)
	case "lexq":
		runLexq(w, *tier)
	default:
		fmt.Fprintln(os.Stderr, "unknown mode")
		os.Exit(2)
	}
	w.Close()
}

// hx encodes bytes for the case file ("-" = empty).
func hx(s string) string {
	if s == "" {
		return "-"
	}
	return hex.EncodeToString([]byte(s))
}

// opt encodes a nilable name ("_" = nil).
func opt(s *string) string {
	if s == nil {
		return "_"
	}
	return hx(*s)
}

func sp(s string) *string { return &s }

func join(ts ...string) string { return strings.Join(ts, " ") }
