package main

// Round 3: a lexer that follows the dialect's own quoting rules (the oracle's reading of a
// statement = the server's reading), used to judge that the requested qualifier stands as
// ONE quoted identifier in front of every object reference.
//
//	MySQL       identifiers `...` (a backtick inside is written twice); string literals
//	            '...' and "..." (quote doubled or backslash-escaped)
//	PostgreSQL  identifiers "..." (a double quote inside is written twice, a backslash is an
//	            ordinary character); string literals '...' (quote doubled)
//
// A chain is a maximal sequence ident(.ident)* without white space, as the Builder writes
// it.  The lexer also reports what no server would accept as the text of a quoted name:
// an unterminated quote, or a quoted identifier glued to a word character (`"a"b`, `b"."`),
// which is what an identifier containing its own quote character looks like when it is
// written without doubling.

import (
	"fmt"
	"regexp"
	"sort"
	"strconv"
	"strings"

	"verifharness/internal/out"
)

func isWordByte(c byte) bool {
	return c >= 'A' && c <= 'Z' || c >= 'a' && c <= 'z' || c == '_' || c >= '0' && c <= '9' || c == '$' || c >= 0x80
}

// lexChains: the identifier chains (with the three words before each), the string
// literals, and a description of the first lexical defect ("" = well formed).
func lexChains(stmt string, pg bool) (cs []chain, lits []string, malformed string) {
	qi := byte('`')
	strq := "'\""
	if pg {
		qi, strq = '"', "'"
	}
	var words [3]string
	push := func(w string) { words[0], words[1], words[2] = words[1], words[2], strings.ToUpper(w) }
	bad := func(m string) {
		if malformed == "" {
			malformed = m
		}
	}
	// readIdent reads a quoted identifier that opens at stmt[i]; returns the name and the
	// index after the closing quote (len(stmt)+1 when unterminated).
	readIdent := func(i int) (string, int) {
		var sb strings.Builder
		j := i + 1
		for j < len(stmt) {
			if stmt[j] == qi {
				if j+1 < len(stmt) && stmt[j+1] == qi {
					sb.WriteByte(qi)
					j += 2
					continue
				}
				return sb.String(), j + 1
			}
			sb.WriteByte(stmt[j])
			j++
		}
		return sb.String(), len(stmt) + 1
	}
	i := 0
	for i < len(stmt) {
		c := stmt[i]
		switch {
		case c == qi:
			if i > 0 && isWordByte(stmt[i-1]) {
				bad("quoted identifier glued to the word before it at byte " + itoa(i))
			}
			var parts []string
			unterm := false
			for {
				name, j := readIdent(i)
				if j > len(stmt) {
					bad("unterminated identifier quote opened at byte " + itoa(i))
					j = len(stmt)
					unterm = true
				}
				parts = append(parts, name)
				i = j
				if i+1 < len(stmt) && stmt[i] == '.' && stmt[i+1] == qi {
					i++
					continue
				}
				break
			}
			if i < len(stmt) && isWordByte(stmt[i]) {
				bad("quoted identifier glued to the word after it at byte " + itoa(i))
			}
			cs = append(cs, chain{parts: parts, prev: words, end: i, unterm: unterm})
			push("<id>")
		case strings.IndexByte(strq, c) >= 0:
			j := i + 1
			var sb strings.Builder
			closed := false
			for j < len(stmt) {
				if stmt[j] == '\\' && !pg && j+1 < len(stmt) {
					sb.WriteByte(stmt[j+1])
					j += 2
					continue
				}
				if stmt[j] == c {
					if j+1 < len(stmt) && stmt[j+1] == c {
						sb.WriteByte(c)
						j += 2
						continue
					}
					closed = true
					break
				}
				sb.WriteByte(stmt[j])
				j++
			}
			if !closed {
				bad("unterminated string literal opened at byte " + itoa(i))
			}
			lits = append(lits, sb.String())
			i = j + 1
			push("<lit>")
		case c >= 'A' && c <= 'Z' || c >= 'a' && c <= 'z' || c == '_':
			j := i
			for j < len(stmt) && isWordByte(stmt[j]) {
				j++
			}
			push(stmt[i:j])
			i = j
		default:
			i++
		}
	}
	return
}

func itoa(i int) string {
	if i == 0 {
		return "0"
	}
	var b []byte
	for i > 0 {
		b = append([]byte{byte('0' + i%10)}, b...)
		i /= 10
	}
	return string(b)
}

// quoteIdent: the one correct spelling of a name as a quoted identifier of the dialect.
func quoteIdent(name string, pg bool) string {
	q := "`"
	if pg {
		q = `"`
	}
	return q + strings.ReplaceAll(name, q, q+q) + q
}

// ---- names with special characters

// A shape turns a plain unique word into a name that is legal only inside quotes.
type shape struct {
	name string
	f    func(base string, pg bool) string
}

var keywords = []string{"select", "table", "order", "group", "index", "user", "from", "where", "schema", "database", "references", "type", "to", "on"}

func dq(pg bool) string {
	if pg {
		return `"`
	}
	return "`"
}

var shapes = []shape{
	{"plain", func(b string, _ bool) string { return b }},
	{"dot", func(b string, _ bool) string { return b + ".v2" }},
	{"dotfirst", func(b string, _ bool) string { return "acme." + b }},
	{"space", func(b string, _ bool) string { return "my " + b }},
	{"upper", func(b string, _ bool) string { return strings.ToUpper(b[:1]) + b[1:] + "X" }},
	{"otherquote", func(b string, pg bool) string { return b + dq(!pg) + "z" }},
	{"squote", func(b string, _ bool) string { return b + "'z" }},
	{"comma", func(b string, _ bool) string { return b + ",(z)" }},
	{"dash", func(b string, _ bool) string { return b + "-- z" }},
	{"semicolon", func(b string, _ bool) string { return b + ";z" }},
	{"quote", func(b string, pg bool) string { return b + dq(pg) + "z" }},
	{"backslash", func(b string, _ bool) string { return b + `\z` }},
}

func shapeByName(n string) shape {
	for _, s := range shapes {
		if s.name == n {
			return s
		}
	}
	panic("shape " + n)
}

// hasQuoteChar: the name contains the identifier quote character of the dialect.
func hasQuoteChar(n string, pg bool) bool { return strings.Contains(n, dq(pg)) }

// ---- the oracle's reading of one statement

func isKeyword(n string) bool {
	for _, k := range keywords {
		if k == n {
			return true
		}
	}
	return false
}

// mentions: the statement mentions the name.  A name that is an SQL keyword is looked for
// among the quoted identifiers and the string literals only.
func mentions(st, name string, chs []chain, lits []string) bool {
	if name == "" {
		return false
	}
	if !isKeyword(name) {
		return strings.Contains(st, name)
	}
	for _, c := range chs {
		for _, p := range c.parts {
			if p == name {
				return true
			}
		}
	}
	for _, l := range lits {
		if l == name {
			return true
		}
	}
	return false
}

func qclass(q *string) string {
	switch {
	case q == nil:
		return "unset"
	case *q == "":
		return "empty"
	}
	return "custom"
}

// specialNames: every name of the current case that needs more than surrounding quotes
// (longest first), including the sequence names PostgreSQL derives (<table>_<column>_seq).
func specialNames(cfg planCfg) []string {
	set := map[string]bool{}
	add := func(n string) {
		if n != "" && (hasQuoteChar(n, cfg.pg) || strings.Contains(n, `\`)) {
			set[n] = true
		}
	}
	for n := range caseNames {
		add(n)
	}
	if cfg.q != nil {
		add(*cfg.q)
	}
	add(cfg.marker)
	add(cfg.other)
	add(cfg.dev)
	if cfg.pg {
		for t, cl := range caseNames {
			if cl != "table" {
				continue
			}
			add(t + "_pkey")
			for c, cl2 := range caseNames {
				if cl2 == "" {
					add(t + "_" + c + "_seq")
				}
			}
		}
	}
	ns := make([]string, 0, len(set))
	for n := range set {
		ns = append(ns, n)
	}
	sort.Slice(ns, func(i, j int) bool {
		if len(ns[i]) != len(ns[j]) {
			return len(ns[i]) > len(ns[j])
		}
		return ns[i] < ns[j]
	})
	return ns
}

type lexFinding struct{ class, name string }

var nextvalRe = regexp.MustCompile(`nextval\('.*?'\)`)

// repairKnown rewrites the two spellings the code is known to use for a name that needs
// escaping into the one correct spelling, so that the rest of the statement can still be
// judged:  Builder.Ident writes the name raw between quotes (a quote character inside is not
// doubled);  the PostgreSQL planner writes type / sequence names with Go's %q (strconv.Quote:
// backslash escapes, which PostgreSQL does not read).
func repairKnown(st string, cfg planCfg) string {
	st, _ = repairKnownF(st, cfg)
	return st
}

func repairKnownF(st string, cfg planCfg) (string, []lexFinding) {
	var fs []lexFinding
	q := dq(cfg.pg)
	const hold = "\x00"
	var held []string
	for _, n := range specialNames(cfg) {
		good := quoteIdent(n, cfg.pg)
		if cfg.pg {
			if gq := strconv.Quote(n); gq != q+n+q && strings.Contains(st, gq) {
				st = strings.ReplaceAll(st, gq, hold+itoa(len(held))+hold)
				held = append(held, good)
				fs = append(fs, lexFinding{"ident-goquote-escaped", n})
			}
		}
		if hasQuoteChar(n, cfg.pg) {
			if raw := q + n + q; strings.Contains(st, raw) {
				st = strings.ReplaceAll(st, raw, hold+itoa(len(held))+hold)
				held = append(held, good)
				fs = append(fs, lexFinding{"ident-quote-unescaped", n})
			}
		}
	}
	for i, g := range held {
		st = strings.ReplaceAll(st, hold+itoa(i)+hold, g)
	}
	// PostgreSQL int -> serial: the default is written as nextval('<qualified sequence>') with
	// the names placed in a string literal whose single quotes are not doubled.
	if cfg.pg {
		st = nextvalRe.ReplaceAllStringFunc(st, func(m string) string {
			in := m[len("nextval('") : len(m)-len("')")]
			if !strings.Contains(in, "'") {
				return m
			}
			fs = append(fs, lexFinding{"nextval-literal-unescaped", in})
			return "nextval('" + strings.ReplaceAll(in, "'", "''") + "')"
		})
	}
	return st, fs
}

// judgeLex reads the statement with the dialect's quoting rules and reports what is not a
// well-formed sequence of quoted identifiers.
// litChains: the identifier chains written inside string literals (nextval('"s"."t_c_seq"')).
func litChains(lits []string, pg bool) (cs []chain) {
	for _, l := range lits {
		if pg && strings.HasPrefix(l, `"`) {
			cs2, _, _ := lexChains(l, true)
			cs = append(cs, cs2...)
		}
	}
	return cs
}

func judgeLex(w *out.W, id, head, where, st string, cfg planCfg) (chs []chain, lits []string, inLits []chain) {
	st2, fs := repairKnownF(st, cfg)
	if stmtSink != nil {
		stmtSink(st, cfg.pg)
		stmtSink(st2, cfg.pg)
	}
	for _, f := range fs {
		if f.class == "nextval-literal-unescaped" {
			w.Violation(id, f.class, fmt.Sprintf("%s: %s statement: the sequence reference %s stands in a string literal whose single quote is not doubled: %s", head, where, f.name, oneLine(st)))
			continue
		}
		w.Violation(id, f.class, fmt.Sprintf("%s: %s statement: the name %q is not written as one quoted identifier of the dialect (want %s): %s", head, where, f.name, quoteIdent(f.name, cfg.pg), oneLine(st)))
	}
	chs, lits, mal := lexChains(st2, cfg.pg)
	if mal != "" {
		w.Violation(id, "malformed-identifier", fmt.Sprintf("%s: %s statement: %s: %s", head, where, mal, oneLine(st)))
	}
	// object references inside string literals: nextval('"s"."t_c_seq"')
	for _, l := range lits {
		if cfg.pg && strings.HasPrefix(l, `"`) {
			cs2, _, mal2 := lexChains(l, true)
			if mal2 != "" {
				w.Violation(id, "malformed-identifier", fmt.Sprintf("%s: %s statement: in the literal %s: %s: %s", head, where, l, mal2, oneLine(st)))
			}
			inLits = append(inLits, cs2...)
		}
	}
	return chs, lits, inLits
}
