package main

import "verifharness/internal/out"

func runPlan(w *out.W, tier string) {}
